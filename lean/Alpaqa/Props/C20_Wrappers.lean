/-
  C20 — transparency of the counting wrappers when the underlying problem changes.

  `problem_with_counters(p)` / `ocproblem_with_counters(p)` own a COPY of `p`;
  `problem_with_counters_ref(p)` / `ocproblem_with_counters_ref(p)` keep a REFERENCE.  Which is
  which is regenerated from the helper functions' bodies (`Gen/C20.lean`, `wrapHelpers`: the
  template argument the wrapper class is instantiated with).  The model (`Model/C20.lean` §2b):
  a wrapper either aliases the one underlying object or stores its own copy; it is proved equal
  to a heap-free specification (per wrapper a *view* of the underlying object's current data),
  and the two halves of the property are stated on the history of operations alone:

  * a by-reference wrapper (and every copy of it) evaluates the underlying problem as it is at
    the moment of the call, whatever was changed in between;
  * a by-value wrapper evaluates the snapshot taken when it was made (copies of it: of the
    snapshot at the time of the copy), changed only through its own `problem` member;
  * counters do not notice changes of the data (`sys_projections`).

  The driver (`Driver/C20.lean`) runs `sysStep wrapHelpers …`: swapping a helper's template
  argument in the C++ flips what the model predicts and breaks `helpers_hold_as_documented`.
-/
import Alpaqa.Gen.C20

namespace Alpaqa.Props.C20
open Alpaqa.C20 Alpaqa.Gen.C20

/-! ## The helper table -/

/-- The four helpers construct the wrapper class they are named after; the plain ones instantiate it
    with the problem type itself (the wrapper owns a copy), the `_ref` ones with a reference to
    const (the wrapper aliases the caller's object); none forwards to another helper. -/
theorem helpers_hold_as_documented :
    wrapHelpers.map (fun h => (h.name, h.wrapper, h.holds, h.templateArg, h.forwardsTo)) =
      [("problem_with_counters", "ProblemWithCounters", .value, "Prob", none),
       ("problem_with_counters_ref", "ProblemWithCounters", .reference, "const Prob&", none),
       ("ocproblem_with_counters", "ControlProblemWithCounters", .value, "Prob", none),
       ("ocproblem_with_counters_ref", "ControlProblemWithCounters", .reference, "const Prob&", none)] := by
  decide

theorem helper_kinds :
    holdsOf wrapHelpers "problem_with_counters" = some .value ∧
    holdsOf wrapHelpers "problem_with_counters_ref" = some .reference ∧
    holdsOf wrapHelpers "ocproblem_with_counters" = some .value ∧
    holdsOf wrapHelpers "ocproblem_with_counters_ref" = some .reference := by decide

/-! ## Implementation (aliasing) = specification (views) -/

section aliasing
variable {σ : Type}

structure WRel (c : WState σ) (v : VState σ) : Prop where
  nW : c.nW = v.nW
  under : c.under = v.under
  each : ∀ w, w < c.nW →
    (c.held w = some none ∧ v.isRef w = true ∧ v.view w = id) ∨
    (∃ x, c.held w = some (some x) ∧ v.isRef w = false ∧ v.view w = fun _ => x)

theorem wrel_init (u : σ) : WRel (WState.init u) (VState.init u) :=
  ⟨rfl, rfl, fun w hw => by simp [WState.init] at hw⟩

theorem wrel_step (c : WState σ) (v : VState σ) (h : WRel c v) (op : WOp σ) :
    WRel (wstep c op).1 (vstep v op).1 ∧ (wstep c op).2 = (vstep v op).2 := by
  obtain ⟨hn, hu, he⟩ := h
  have hn' : v.nW = c.nW := hn.symm
  have hu' : v.under = c.under := hu.symm
  cases op with
  | wrap k =>
    cases k with
    | value =>
      simp only [wstep, vstep, hn', hu']
      refine ⟨⟨(by first | rfl | exact hn), (by first | rfl | exact hu), ?_⟩, (by first | rfl | trivial)⟩
      intro w hw
      simp only [upd]
      by_cases hww : w = c.nW
      · subst hww; right; exact ⟨c.under, by simp⟩
      · simp only [if_neg hww]; exact he w (by simp at hw; omega)
    | reference =>
      simp only [wstep, vstep, hn', hu']
      refine ⟨⟨(by first | rfl | exact hn), (by first | rfl | exact hu), ?_⟩, (by first | rfl | trivial)⟩
      intro w hw
      simp only [upd]
      by_cases hww : w = c.nW
      · subst hww; left; simp
      · simp only [if_neg hww]; exact he w (by simp at hw; omega)
  | copy s =>
    simp only [wstep, vstep, hn']
    by_cases hs : s < c.nW
    · simp only [hs, if_true]
      refine ⟨⟨(by first | rfl | exact hn), (by first | rfl | exact hu), ?_⟩, (by first | rfl | trivial)⟩
      intro w hw
      simp only [upd]
      by_cases hww : w = c.nW
      · subst hww; simp only [if_true]; exact he s hs
      · simp only [if_neg hww]; exact he w (by simp at hw; omega)
    · simp only [hs, if_false]; exact ⟨⟨(by first | rfl | exact hn), (by first | rfl | exact hu), he⟩, (by first | rfl | trivial)⟩
  | mutate f =>
    simp only [wstep, vstep, hu']
    exact ⟨⟨(by first | rfl | exact hn), (by first | rfl | exact hu), he⟩, (by first | rfl | trivial)⟩
  | mutateVia s f =>
    simp only [wstep, vstep, hn']
    by_cases hs : s < c.nW
    · simp only [hs, if_true]
      rcases he s hs with ⟨h1, h2, _⟩ | ⟨x, h1, h2, h3⟩
      · simp only [h1, h2, if_true]; exact ⟨⟨(by first | rfl | exact hn), (by first | rfl | exact hu), he⟩, (by first | rfl | trivial)⟩
      · simp only [h1, h2, Bool.false_eq_true, if_false]
        refine ⟨⟨(by first | rfl | exact hn), (by first | rfl | exact hu), ?_⟩, (by first | rfl | trivial)⟩
        intro w hw
        simp only [upd]
        by_cases hww : w = s
        · subst hww; right; exact ⟨f x, by simp [h3, h2]⟩
        · simp only [if_neg hww]; exact he w hw
    · simp only [hs, if_false]; exact ⟨⟨(by first | rfl | exact hn), (by first | rfl | exact hu), he⟩, (by first | rfl | trivial)⟩
  | call s =>
    simp only [wstep, vstep, hn']
    by_cases hs : s < c.nW
    · simp only [hs, if_true]
      rcases he s hs with ⟨h1, _, h3⟩ | ⟨x, h1, _, h3⟩
      · simp only [h1, h3, hu', id]; exact ⟨⟨(by first | rfl | exact hn), (by first | rfl | exact hu), he⟩, (by first | rfl | trivial)⟩
      · simp only [h1, h3]; exact ⟨⟨(by first | rfl | exact hn), (by first | rfl | exact hu), he⟩, (by first | rfl | trivial)⟩
    · simp only [hs, if_false]; exact ⟨⟨(by first | rfl | exact hn), (by first | rfl | exact hu), he⟩, (by first | rfl | trivial)⟩

theorem wrel_run (ops : List (WOp σ)) (c : WState σ) (v : VState σ) (h : WRel c v) :
    WRel (wrun c ops).1 (vrun v ops).1 ∧ (wrun c ops).2 = (vrun v ops).2 := by
  induction ops generalizing c v with
  | nil => exact ⟨h, rfl⟩
  | cons op ops ih =>
    obtain ⟨h1, h2⟩ := wrel_step c v h op
    obtain ⟨h3, h4⟩ := ih _ _ h1
    simp only [wrun, vrun]
    exact ⟨h3, by rw [h2, h4]⟩

/-- **Refinement**: for every history of wrap (by value / by reference) / copy / mutate /
    mutate-through-the-wrapper / call operations, every operation has the same outcome — in
    particular every call sees the same data — in the implementation with aliasing and in the
    heap-free specification where each wrapper has its own view of the underlying data. -/
theorem wrapper_refines_views (u : σ) (ops : List (WOp σ)) :
    (wrun (WState.init u) ops).2 = (vrun (VState.init u) ops).2 :=
  (wrel_run ops _ _ (wrel_init u)).2

/-! ### The two halves of the property, on the history alone -/

/-- which kind each wrapper index has, read off the history: a wrapper made by `wrap k` has kind
    `k`, a copy the kind of its source -/
def kindsAfter : List Holds → List (WOp σ) → List Holds
  | ks, [] => ks
  | ks, .wrap k :: ops => kindsAfter (ks ++ [k]) ops
  | ks, .copy w :: ops => kindsAfter (match ks[w]? with | some k => ks ++ [k] | none => ks) ops
  | ks, _ :: ops => kindsAfter ks ops

/-- invariant: the kinds list describes what each wrapper holds -/
structure KInv (ks : List Holds) (c : WState σ) : Prop where
  len : ks.length = c.nW
  ref : ∀ w, ks[w]? = some .reference → c.held w = some none
  val : ∀ w, ks[w]? = some .value → ∃ x, c.held w = some (some x)

theorem kinv_init (u : σ) : KInv [] (WState.init u) :=
  ⟨rfl, fun w h => by simp at h, fun w h => by simp at h⟩

theorem getElem?_append_singleton (ks : List Holds) (k : Holds) (w : Nat) :
    (ks ++ [k])[w]? = if w = ks.length then some k else ks[w]? := by
  by_cases h : w < ks.length
  · rw [List.getElem?_append_left h, if_neg (by omega)]
  · by_cases h2 : w = ks.length
    · subst h2; simp
    · rw [if_neg h2, List.getElem?_eq_none (by simp; omega), List.getElem?_eq_none (by omega)]

theorem kinv_push (ks : List Holds) (c : WState σ) (h : KInv ks c) (k : Holds) (e : Option σ)
    (hk : (k = .reference → e = none) ∧ (k = .value → ∃ x, e = some x)) :
    KInv (ks ++ [k]) { c with nW := c.nW + 1, held := upd c.held c.nW (some e) } := by
  obtain ⟨hl, hr, hv⟩ := h
  refine ⟨by simp [hl], ?_, ?_⟩
  · intro w hw
    rw [getElem?_append_singleton, hl] at hw
    simp only [upd]
    by_cases hww : w = c.nW
    · simp only [hww, if_true, Option.some.injEq] at hw ⊢; rw [hk.1 hw]
    · simp only [if_neg hww] at hw ⊢; exact hr w hw
  · intro w hw
    rw [getElem?_append_singleton, hl] at hw
    simp only [upd]
    by_cases hww : w = c.nW
    · simp only [hww, if_true, Option.some.injEq] at hw ⊢
      obtain ⟨x, hx⟩ := hk.2 hw
      exact ⟨x, by rw [hx]⟩
    · simp only [if_neg hww] at hw ⊢; exact hv w hw

theorem kinv_run (ops : List (WOp σ)) (ks : List Holds) (c : WState σ) (h : KInv ks c) :
    KInv (kindsAfter ks ops) (wrun c ops).1 := by
  induction ops generalizing ks c with
  | nil => exact h
  | cons op ops ih =>
    simp only [wrun]
    cases op with
    | wrap k =>
      cases k with
      | value =>
        exact ih _ _ (kinv_push ks c h .value (some c.under) ⟨by simp, fun _ => ⟨_, rfl⟩⟩)
      | reference =>
        exact ih _ _ (kinv_push ks c h .reference none ⟨fun _ => rfl, by simp⟩)
    | copy s =>
      simp only [kindsAfter, wstep]
      by_cases hs : s < c.nW
      · simp only [hs, if_true]
        have hlt : s < ks.length := by rw [h.len]; exact hs
        have hk : ks[s]? = some ks[s] := List.getElem?_eq_getElem hlt
        rw [hk]
        cases hkk : ks[s] with
        | reference =>
          have := h.ref s (by rw [hk, hkk])
          rw [this]
          exact ih _ _ (kinv_push ks c h .reference none ⟨fun _ => rfl, by simp⟩)
        | value =>
          obtain ⟨x, hx⟩ := h.val s (by rw [hk, hkk])
          rw [hx]
          exact ih _ _ (kinv_push ks c h .value (some x) ⟨by simp, fun _ => ⟨_, rfl⟩⟩)
      · simp only [hs, if_false]
        have : ks[s]? = none := List.getElem?_eq_none (by rw [h.len]; omega)
        rw [this]
        exact ih _ _ h
    | mutate f =>
      simp only [kindsAfter, wstep]
      exact ih _ _ ⟨h.len, h.ref, h.val⟩
    | mutateVia s f =>
      simp only [kindsAfter, wstep]
      by_cases hs : s < c.nW
      · simp only [hs, if_true]
        cases hh : c.held s with
        | none => exact ih _ _ h
        | some e =>
          cases e with
          | none => exact ih _ _ h
          | some x =>
            refine ih _ _ ⟨h.len, ?_, ?_⟩
            · intro w hw
              simp only [upd]
              by_cases hww : w = s
              · subst hww; have := h.ref w hw; rw [hh] at this; cases this
              · simp only [if_neg hww]; exact h.ref w hw
            · intro w hw
              simp only [upd]
              by_cases hww : w = s
              · subst hww; exact ⟨f x, by simp⟩
              · simp only [if_neg hww]; exact h.val w hw
      · simp only [hs, if_false]; exact ih _ _ h
    | call s =>
      have : (wstep c (.call s)).1 = c := by
        simp only [wstep]
        split
        · split <;> rfl
        · rfl
      simp only [kindsAfter, this]
      exact ih _ _ h

theorem wrun_under (ops : List (WOp σ)) (c : WState σ) :
    (wrun c ops).1.under = underAfter c.under ops := by
  induction ops generalizing c with
  | nil => rfl
  | cons op ops ih =>
    simp only [wrun]
    rw [ih]
    cases op with
    | wrap k => cases k <;> rfl
    | copy s => simp only [wstep, underAfter]; split <;> rfl
    | mutate f => rfl
    | mutateVia s f =>
      simp only [wstep, underAfter]
      split
      · split <;> rfl
      · rfl
    | call s =>
      simp only [wstep, underAfter]
      split
      · split <;> rfl
      · rfl

theorem wrun_append (a b : List (WOp σ)) (c : WState σ) :
    (wrun c (a ++ b)).1 = (wrun (wrun c a).1 b).1 := by
  induction a generalizing c with
  | nil => rfl
  | cons op a ih => simp only [List.cons_append, wrun]; exact ih _

/-- **Transparency under change (by-reference wrappers).**  For every initial data `u`, every
    history `ops` and every wrapper `w` that the history makes by reference (directly or as a copy
    of such a wrapper): an evaluation through `w` after `ops` runs on the underlying problem's
    data *as they are then* — the result of applying, in order, every change the caller made. -/
theorem ref_wrapper_sees_current (u : σ) (ops : List (WOp σ)) (w : Nat)
    (hk : (kindsAfter [] ops)[w]? = some .reference) :
    (wstep (wrun (WState.init u) ops).1 (.call w)).2 = .saw (underAfter u ops) := by
  have hi := kinv_run ops [] (WState.init u) (kinv_init u)
  have hw : w < (wrun (WState.init u) ops).1.nW := by
    rw [← hi.len]
    exact (List.getElem?_eq_some_iff.mp hk).1
  simp only [wstep, hw, if_true, hi.ref w hk]
  rw [wrun_under]; rfl

/-- **Snapshot semantics (by-value wrappers).**  A wrapper made by value (or a copy of one) does not
    see a later change of the caller's problem … -/
theorem value_wrapper_ignores_later_change (u : σ) (ops : List (WOp σ)) (w : Nat) (f : σ → σ)
    (hk : (kindsAfter [] ops)[w]? = some .value) :
    (wstep (wrun (WState.init u) (ops ++ [.mutate f])).1 (.call w)).2 =
      (wstep (wrun (WState.init u) ops).1 (.call w)).2 := by
  have hi := kinv_run ops [] (WState.init u) (kinv_init u)
  have hw : w < (wrun (WState.init u) ops).1.nW := by
    rw [← hi.len]
    exact (List.getElem?_eq_some_iff.mp hk).1
  obtain ⟨x, hx⟩ := hi.val w hk
  rw [wrun_append]
  generalize (wrun (WState.init u) ops).1 = c at hw hx
  simp [wrun, wstep, hw, hx]

/-- … and does see a change made through its own `problem` member: if it saw `x` before, it sees
    `f x` afterwards (and no other wrapper is affected, `wrapper_refines_views`). -/
theorem value_wrapper_sees_own_change (u : σ) (ops : List (WOp σ)) (w : Nat) (f : σ → σ)
    (hk : (kindsAfter [] ops)[w]? = some .value) :
    ∃ x, (wstep (wrun (WState.init u) ops).1 (.call w)).2 = .saw x ∧
      (wstep (wrun (WState.init u) (ops ++ [.mutateVia w f])).1 (.call w)).2 = .saw (f x) := by
  have hi := kinv_run ops [] (WState.init u) (kinv_init u)
  have hw : w < (wrun (WState.init u) ops).1.nW := by
    rw [← hi.len]
    exact (List.getElem?_eq_some_iff.mp hk).1
  obtain ⟨x, hx⟩ := hi.val w hk
  refine ⟨x, by simp [wstep, hw, hx], ?_⟩
  rw [wrun_append]
  generalize (wrun (WState.init u) ops).1 = c at hw hx
  simp [wrun, wstep, hw, hx, upd]

/-- the kind of a wrapper never changes, and a copy has the kind of its source -/
example : kindsAfter (σ := Nat) [] [.wrap .value, .wrap .reference, .mutate (· + 1), .copy 1, .copy 0] =
    [.value, .reference, .reference, .value] := by decide

/-- non-vacuity (problem data = a number): a by-value wrapper 0 and a by-reference wrapper 1 of the
    same problem; the problem is changed twice, both are copied, the copy of 0 is changed through
    its own member: the by-reference wrappers see 12, the by-value wrapper the original 5, its
    changed copy 50 -/
example :
    let ops : List (WOp Nat) := [.wrap .value, .wrap .reference, .mutate (· + 1), .copy 0, .copy 1,
      .mutate (· * 2), .mutateVia 2 (· * 10), .mutateVia 3 (· * 10)]
    (kindsAfter [] ops)[1]? = some .reference ∧ (kindsAfter [] ops)[0]? = some .value ∧
    underAfter 5 ops = 12 ∧
    [0, 1, 2, 3].map (fun w => match (wstep (wrun (WState.init 5) ops).1 (.call w)).2 with
      | .saw x => x | _ => 0) = [5, 12, 50, 12] ∧
    ((wrun (WState.init 5) ops).2.getLast?.map fun o => match o with | .constRef => true | _ => false) = some true := by
  decide

end aliasing

/-! ## Counters and data together -/

section system
variable {σ F : Type} [DecidableEq F]

omit [DecidableEq F] in
theorem wrun_nil (c : WState σ) : (wrun c []).1 = c := rfl

/-- **Counters do not notice changes of the problem data, and the data do not notice counter
    management.**  Running a mixed history on the pair (counter heap, wrapper data) is the same as
    running the counter operations on the heap (`crun`, for which `counter_eq_calls` holds) and
    the data operations on the wrapper data (`wrun`, for which the theorems above hold); both use
    one wrapper numbering. -/
theorem sys_projections (tbl : List HelperEntry) (rk : ResetKind) (ops : List (SOp σ F)) (s : Sys σ F) :
    (sysRun tbl rk s ops).c = (crun rk s.c (ops.filterMap (SOp.toC tbl))).1 ∧
    (sysRun tbl rk s ops).w = (wrun s.w (ops.filterMap (SOp.toW tbl))).1 := by
  induction ops generalizing s with
  | nil => exact ⟨rfl, rfl⟩
  | cons op ops ih =>
    cases op with
    | create h =>
      cases hh : holdsOf tbl h with
      | none => simpa [sysRun, sysStep, SOp.toC, SOp.toW, hh, List.filterMap_cons] using ih s
      | some k => simpa [sysRun, sysStep, SOp.toC, SOp.toW, hh, crun, wrun, List.filterMap_cons] using ih _
    | copy v => simpa [sysRun, sysStep, SOp.toC, SOp.toW, crun, wrun, List.filterMap_cons] using ih _
    | decouple v => simpa [sysRun, sysStep, SOp.toC, SOp.toW, crun, wrun, List.filterMap_cons] using ih _
    | reset v => simpa [sysRun, sysStep, SOp.toC, SOp.toW, crun, wrun, List.filterMap_cons] using ih _
    | mutate f => simpa [sysRun, sysStep, SOp.toC, SOp.toW, crun, wrun, List.filterMap_cons] using ih _
    | mutateVia v f => simpa [sysRun, sysStep, SOp.toC, SOp.toW, crun, wrun, List.filterMap_cons] using ih _
    | call v fn => simpa [sysRun, sysStep, SOp.toC, SOp.toW, crun, wrun, List.filterMap_cons] using ih _

/-- in particular: inserting changes of the problem data anywhere in a history leaves every counter
    as it was -/
theorem counters_ignore_mutation (tbl : List HelperEntry) (rk : ResetKind) (a b : List (SOp σ F))
    (f : σ → σ) (s : Sys σ F) :
    (sysRun tbl rk s (a ++ .mutate f :: b)).c = (sysRun tbl rk s (a ++ b)).c := by
  rw [(sys_projections tbl rk _ s).1, (sys_projections tbl rk _ s).1]
  simp [List.filterMap_append, List.filterMap_cons, SOp.toC]

/-- the counter heap and the wrapper data number the wrappers alike -/
theorem sys_same_numbering (tbl : List HelperEntry) (rk : ResetKind) (ops : List (SOp σ F)) (s : Sys σ F)
    (h : s.c.nW = s.w.nW) : (sysRun tbl rk s ops).c.nW = (sysRun tbl rk s ops).w.nW := by
  induction ops generalizing s with
  | nil => exact h
  | cons op ops ih =>
    apply ih
    cases op with
    | create hn =>
      cases hh : holdsOf tbl hn with
      | none => simpa [sysStep, hh] using h
      | some k => cases k <;> simp [sysStep, hh, cstep, wstep, h]
    | copy v =>
      simp only [sysStep, cstep, wstep, h]
      by_cases hv : v < s.w.nW <;> simp [hv, h]
    | decouple v =>
      simp only [sysStep, cstep]
      split
      · split <;> simp [h]
      · simp [h]
    | reset v =>
      simp only [sysStep, cstep]
      split
      · cases rk
        · simp [h]
        · dsimp only; split <;> simp [h]
      · simp [h]
    | mutate f => simp [sysStep, wstep, h]
    | mutateVia v f =>
      simp only [sysStep, wstep]
      split
      · split <;> simp [h]
      · simp [h]
    | call v fn =>
      have hw : (wstep s.w (.call v)).1 = s.w := by
        simp only [wstep]
        split
        · split <;> rfl
        · rfl
      have hc : (cstep rk s.c (.call v fn)).1.nW = s.c.nW := by
        simp only [cstep]
        split
        · split <;> rfl
        · rfl
      simp only [sysStep, hw, hc, h]

/-- non-vacuity with the generated helper table: the documented scenario — wrap by value and by
    reference, evaluate, change the problem, evaluate again — counters 1, 1 then 2, 2; the
    by-reference wrapper sees the change, the by-value wrapper does not -/
example :
    let ops : List (SOp Nat String) := [.create "problem_with_counters", .create "problem_with_counters_ref",
      .call 0 "f", .call 1 "f", .mutate (fun _ => 7), .call 0 "f", .call 1 "f"]
    let s := sysRun wrapHelpers .zeroesBlock (⟨CState.empty, WState.init 0⟩ : Sys Nat String) ops
    (s.c.read 0 "f", s.c.read 1 "f") = (some 2, some 2) ∧
    [0, 1].map (fun w => match (wstep s.w (.call w)).2 with | .saw x => some x | _ => none) = [some 0, some 7] := by
  decide

end system

end Alpaqa.Props.C20
