/-
  ZeroFPR loop model: what a `Converged` solve hands back, for C01 (`Props/C01_Zerofpr.lean`).

  One invariant of "loop head, `Busy`, loop body" that bundles
  * `Good` (`Proofs/ZerofprInv`: `(h(x̂), x̂, p)` is the prox oracle's answer at the iterate's own
    `(γ, x, ∇ψ(x))`, `ŷx̂` is the ψ oracle's answer at `x̂`),
  * `γ > 0` (`Proofs/ZerofprStep.iterBody_GL`),
  * the size invariant `SzInv` (`Proofs/ZerofprSized`),
  and its consequence at the exit block: a solve that reports `Converged` has written back `x̂`, `ŷx̂`
  of an iterate with those three properties, `err_z = (ŷ − y)/Σ` (if the buffer is non-empty), its `ε`
  is the generated criterion of that iterate with `∇ψ(x̂) = eval_grad_L(x̂, ŷx̂)` — unlike PANOC, the
  ZeroFPR head evaluates `eval_grad_L(x̂ₖ, ŷₖ)` in *every* iteration (`eval_grad_in_prox`), whatever
  the criterion, so no consistency law between the oracles is needed — and `ε ≤` the effective
  tolerance.
-/
import Alpaqa.Proofs.ZerofprSized
import Alpaqa.Proofs.ZerofprStep
import Alpaqa.Proofs.ZerofprFuel
import Alpaqa.Props.C06

namespace Alpaqa.Zerofpr
open Alpaqa Alpaqa.Gen
set_option linter.unusedSectionVars false
set_option linter.unusedVariables false

variable {α D : Type} [Field α] [LinearOrder α] [IsStrictOrderedRing α] [RealLike α]

/-- Invariant behind the C01 inner contract: consistent prox step and `ŷ`, `γ > 0`, everything sized. -/
structure KktInv (n m : Nat) (R : D → Prop) (P : Problem α) (s : St α D) : Prop where
  good : Good P s.curr
  gpos : 0 < s.curr.gamma
  sz : SzInv n m R s

theorem kktInv_init {n m : Nat} {P : Problem α} (hP : ProblemSized n m P) (R : D → Prop) (d0 : D)
    (hd0 : R d0) (pr : Params α) (hmin : 0 < pr.Lmin) (hmax : 0 < pr.Lmax)
    (hfac : 0 < pr.LgammaFactor) (stop : Nat → Bool) (x0 gV : Vec α) (gS : α) (hx0 : x0.length = n)
    (s : St α D) (hi : initState P d0 pr stop x0 gV gS = .inr s) : KktInv n m R P s := by
  have h := initState_sized hP d0 pr stop x0 gV gS hx0 s hi
  exact ⟨(initState_good P d0 pr stop x0 gV gS s hi).1,
    (initState_gammaInv P d0 pr stop x0 gV gS hmin hmax hfac s hi).1,
    ⟨h.1, by rw [h.2.1]; exact hd0, by rw [h.2.2]; simp⟩⟩

theorem kktInv_step {n m : Nat} {P : Problem α} (hP : ProblemSized n m P) (dir : Direction D α)
    (R : D → Prop) (hD : DirSized n dir R) (pr : Params α) (stop : Nat → Bool) (oot : Bool)
    (s : St α D) (h : KktInv n m R P s)
    (hf : (iterBody P dir pr stop (headStep P pr stop oot s).1 (headStep P pr stop oot s).2.1).fuelOut
      = false) :
    KktInv n m R P (iterBody P dir pr stop (headStep P pr stop oot s).1 (headStep P pr stop oot s).2.1) := by
  have hs := headStep_same P pr stop oot s
  have hlsf : (lsOf P dir pr stop (headStep P pr stop oot s).1).fuelOut = false := by
    rw [iterBody_fuelOut] at hf
    cases hx : (lsOf P dir pr stop (headStep P pr stop oot s).1).fuelOut
    · rfl
    · rw [hx] at hf; simp at hf
  have hd : (headStep P pr stop oot s).1.d = s.d := by unfold headStep; rfl
  exact ⟨iterBody_good P dir pr stop _ _ (by rw [hs.1]; exact h.good) hf,
    (iterBody_GL P dir pr stop _ _ (by rw [hs.1]; exact h.gpos)).1,
    iterBody_sized hP dir R hD pr stop _ _
      ⟨by rw [hs.1]; exact h.sz.curr, by rw [hd]; exact h.sz.d, by rw [hs.2.2.2.1]; exact h.sz.cbs⟩
      (headStep_sized hP pr stop oot s h.sz.curr) hlsf⟩

/-- what the exit block writes back on `Converged` -/
theorem exitBlock_converged (pr : Params α) (s : St α D) (eps : α) (x0 y Sig errz0 : Vec α) :
    (exitBlock pr s eps .Converged x0 y Sig errz0).x = s.curr.xhat ∧
    (exitBlock pr s eps .Converged x0 y Sig errz0).y = s.curr.yhat ∧
    (exitBlock pr s eps .Converged x0 y Sig errz0).errz =
      (if errz0.length > 0 then vdiv (vsub s.curr.yhat y) Sig else errz0) := by
  unfold exitBlock
  simp

/-- **What a `Converged` ZeroFPR solve hands back** (model fuel not exhausted): there is an iterate
    `it` — the one current at exit — with a consistent prox step and `ŷ`, `γ > 0`, all vectors of the
    right size, such that `x_out = it.x̂`, `y_out = it.ŷ`, `err_z` is `(ŷ − y)/Σ` (or the untouched
    empty buffer), `ε` is the generated criterion on `it`'s data with `∇ψ(x̂) = eval_grad_L(x̂, ŷ)`, and
    `ε ≤` the effective tolerance. -/
theorem run_converged_data {n m : Nat} {P : Problem α} (hP : ProblemSized n m P) (dir : Direction D α)
    (R : D → Prop) (hD : DirSized n dir R) (d0 : D) (hd0 : R d0) (pr : Params α)
    (hmin : 0 < pr.Lmin) (hmax : 0 < pr.Lmax) (hfac : 0 < pr.LgammaFactor)
    (stop : Nat → Bool) (oot : Bool) (x0 y Sig errz0 gV : Vec α) (gS iS : α) (hx0 : x0.length = n)
    (hfuel : (run P dir d0 pr stop oot x0 y Sig errz0 gV gS iS).fuelOut = false)
    (hc : (run P dir d0 pr stop oot x0 y Sig errz0 gV gS iS).stats.status = .Converged) :
    ∃ it : Iterate α, Good P it ∧ 0 < it.gamma ∧ Sized n m it ∧
      (run P dir d0 pr stop oot x0 y Sig errz0 gV gS iS).x = it.xhat ∧
      (run P dir d0 pr stop oot x0 y Sig errz0 gV gS iS).y = it.yhat ∧
      (run P dir d0 pr stop oot x0 y Sig errz0 gV gS iS).errz =
        (if errz0.length > 0 then vdiv (vsub it.yhat y) Sig else errz0) ∧
      (run P dir d0 pr stop oot x0 y Sig errz0 gV gS iS).stats.eps =
        epsOf P pr it (P.gradL it.xhat it.yhat) ∧
      (run P dir d0 pr stop oot x0 y Sig errz0 gV gS iS).stats.eps ≤
        Alpaqa.Props.C06.effTol pr.tolerance := by
  rcases run_cases P dir d0 pr stop oot x0 y Sig errz0 gV gS iS
    (fun s => s.fuelOut = true ∨ KktInv n m R P s)
    (fun s hi => .inr (kktInv_init hP R d0 hd0 pr hmin hmax hfac stop x0 gV gS hx0 s hi))
    (fun s hI _ => by
      have hs := headStep_same P pr stop oot s
      rcases hI with hI | hI
      · left; rw [iterBody_fuelOut, hs.2.2.2.2.1, hI]; rfl
      · cases hfo : (iterBody P dir pr stop (headStep P pr stop oot s).1
            (headStep P pr stop oot s).2.1).fuelOut
        · exact .inr (kktInv_step hP dir R hD pr stop oot s hI hfo)
        · left; rfl)
    hfuel with ⟨t, ht⟩ | ⟨s', hI, _, he⟩
  · exfalso
    unfold run at hc
    rw [ht] at hc
    exact absurd hc (by simp)
  · have hs := headStep_same P pr stop oot s'
    have hp := headStep_spec P pr stop oot s'
    have hx := exitBlock_spec pr (headStep P pr stop oot s').1 (headStep P pr stop oot s').2.1
      (headStep P pr stop oot s').2.2 x0 y Sig errz0
    rw [he] at hfuel hc ⊢
    rw [hx.2.2.2.2.2.1, hs.2.2.2.2.1] at hfuel
    rw [hx.2.1] at hc
    rcases hI with hI | hI
    · rw [hI] at hfuel; exact absurd hfuel (by decide)
    · rw [hc]
      have hb := exitBlock_converged pr (headStep P pr stop oot s').1 (headStep P pr stop oot s').2.1
        x0 y Sig errz0
      rw [hs.1] at hb
      have hxe := exitBlock_spec pr (headStep P pr stop oot s').1 (headStep P pr stop oot s').2.1
        .Converged x0 y Sig errz0
      refine ⟨s'.curr, hI.good, hI.gpos, hI.sz.curr, hb.1, hb.2.1, hb.2.2, ?_, ?_⟩
      · rw [hxe.2.2.2.1]; exact hp.2.1
      · rw [hxe.2.2.2.1]
        rw [hp.2.2] at hc
        exact (Alpaqa.Props.C06.converged_iff _ _ _ _ _ _ _ _).mp hc

end Alpaqa.Zerofpr
