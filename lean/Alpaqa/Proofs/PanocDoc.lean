/-
  The data invariant of the PANOC loop model behind "ε equals the documented formula recomputed from
  the final iterate data": every iterate that is current at a loop head carries *the* proximal-gradient
  data of its own point,

    ∇ψ-field = ∇ψ(x),   (h(x̂), x̂, p) = prox-step of (γ, x, ∇ψ(x)),   ŷ-field = ŷ(x̂),
    ∇ψ(x̂)-buffer = ∇ψ(x̂) whenever it is flagged valid,

  through every branch of the line search (accelerated step, safeguarded step with the buffer swap,
  abandoned direction, step-size backtracking), after an interrupted line search, through the initial
  step-size loop, with lazy and with eager gradient evaluation, for every direction provider and stop
  schedule.  It needs the problem's oracles to be consistent with one gradient map (`GradLaw`:
  `eval_ψ_grad_ψ`, `eval_grad_ψ`, `eval_grad_L(·, ŷ(·))` return the same `∇ψ`, and `eval_ψ_grad_ψ`
  leaves `ŷ` in its workspace) — what the library's own implementations do.

  The two flag facts the proof rests on are exactly the statements
    `take_safe_step`: `curr->have_grad_ψx̂ = next->have_grad_ψx̂ = false` after the buffer swap, and
    `eval_ψx̂`: `have_grad_ψx̂ = eager_gradient_eval` after every new proximal-gradient step
  (`takeSafeStep_doc`, `doc_evalStep`): a model in which either flag survives does not satisfy `Doc`.
-/
import Alpaqa.Proofs.PanocFuel

namespace Alpaqa.Panoc
open Alpaqa Alpaqa.Gen
set_option linter.unusedSectionVars false
set_option linter.unusedVariables false

variable {α D : Type} [Field α] [LinearOrder α] [IsStrictOrderedRing α] [RealLike α]

/-- The problem's oracles are consistent with one gradient map `∇ψ := eval_grad_ψ`:
    `eval_ψ_grad_ψ` returns it, `eval_grad_L(x, ŷ(x))` returns it — and, **only with
    `eager_gradient_eval`** (`eager = true`), `eval_ψ_grad_ψ` leaves `ŷ(x)` in its `work_m` argument.
    The last clause is forced: eager PANOC passes `ŷx̂` as that workspace and later reads it (Ipopt
    criterion, `eval_grad_L(x̂, ŷx̂)` after an interrupted line search, the progress callback), although the
    interface only promises a scratch vector — for a problem that leaves something else there the real
    solver reports an `ε` that is not the documented formula (open finding
    `C06-panoc-eager-workspace-as-yhat`).  With lazy evaluation (the default) nothing is assumed about
    the workspace. -/
structure GradLaw (P : Problem α) (eager : Bool) : Prop where
  pgp : ∀ x, (P.psiGradPsi x).2.1 = P.gradPsi x
  gradL : ∀ x, P.gradL x (P.psi x).2 = P.gradPsi x
  work : eager = true → ∀ x, (P.psiGradPsi x).2.2 = (P.psi x).2

/-- `∇ψ`-field of an iterate is `∇ψ` at its `x`. -/
def GX (P : Problem α) (i : Iterate α) : Prop := i.gradPsi = P.gradPsi i.x

/-- The iterate carries the proximal-gradient data of its own point. -/
structure Doc (P : Problem α) (i : Iterate α) : Prop where
  gx : GX P i
  prox : ProxCons P i
  yh : i.yhat = (P.psi i.xhat).2
  gh : i.haveGradHat = true → i.gradPsiHat = P.gradPsi i.xhat

/-- After `eval_prox_grad_step; eval_ψx̂`: fresh prox data, fresh `ŷ`, and the `∇ψ(x̂)` buffer is valid
    only if it was just evaluated (eager mode) — **the flag is reset by every new step**. -/
theorem doc_evalStep {P : Problem α} (pr : Params α) (hL : GradLaw P pr.eagerGradientEval)
    (i : Iterate α) (h : GX P i) :
    Doc P (evalPsiHat P pr (evalProxGradStep P i)) := by
  unfold evalPsiHat evalProxGradStep
  by_cases he : pr.eagerGradientEval
  · simp only [he, if_true]
    exact ⟨h, ⟨rfl, rfl, rfl⟩, hL.work he _, fun _ => hL.pgp _⟩
  · simp only [he, Bool.false_eq_true, if_false]
    exact ⟨h, ⟨rfl, rfl, rfl⟩, rfl, fun hc => by simp at hc⟩

theorem doc_evalGradPsiHat {P : Problem α} {e : Bool} (hL : GradLaw P e) (i : Iterate α) (h : Doc P i) :
    Doc P (evalGradPsiHat P i) := by
  refine ⟨h.gx, h.prox, h.yh, fun _ => ?_⟩
  show P.gradL i.xhat i.yhat = P.gradPsi i.xhat
  rw [h.yh]; exact hL.gradL _

theorem doc_of_core {P : Problem α} {a b : Iterate α} (hc : core a = core b) (hb : Doc P b)
    (hgh : a.haveGradHat = true → a.gradPsiHat = P.gradPsi a.xhat) : Doc P a := by
  refine ⟨?_, ?_, ?_, hgh⟩
  · unfold GX; rw [gradPsi_of_core hc, x_of_core hc]; exact hb.gx
  · unfold ProxCons
    rw [hxhat_of_core hc, xhat_of_core hc, p_of_core hc, gamma_of_core hc, x_of_core hc,
      gradPsi_of_core hc]
    exact hb.prox
  · rw [yhat_of_core hc, xhat_of_core hc]; exact hb.yh

/-- `take_safe_step`: the candidate sits at `x̂ₖ` with `∇ψ(x̂ₖ)` taken from the buffer (evaluated first if
    it was not valid); the buffers are swapped, so **both validity flags are cleared** — that is what
    keeps `Doc` for the current iterate. -/
theorem takeSafeStep_doc {P : Problem α} {e : Bool} (hL : GradLaw P e) (c nx : Iterate α) (t : Nat) (h : Doc P c) :
    Doc P (takeSafeStep P c nx t).1 ∧ GX P (takeSafeStep P c nx t).2.1 := by
  unfold takeSafeStep
  by_cases hh : c.haveGradHat = true
  · simp only [hh, Bool.not_true, Bool.false_eq_true, if_false]
    exact ⟨⟨h.gx, h.prox, h.yh, fun hc => by simp at hc⟩, h.gh hh⟩
  · have hh' : c.haveGradHat = false := by simpa using hh
    simp only [hh', Bool.not_false, if_true]
    have hd := doc_evalGradPsiHat hL c h
    exact ⟨⟨hd.gx, hd.prox, hd.yh, fun hc => by simp at hc⟩, hd.gh rfl⟩

theorem takeAcceleratedStep_gx {P : Problem α} {e : Bool} (hL : GradLaw P e) (c nx : Iterate α) (q : Vec α)
    (tau : α) : GX P (takeAcceleratedStep P c nx q tau) := by
  unfold takeAcceleratedStep evalPsiGradPsi GX
  exact hL.pgp _

/-! ### Line search -/

structure LSDoc (P : Problem α) (s : LS α D) : Prop where
  curr : Doc P s.curr
  /-- a candidate that will not be recomputed has `∇ψ`-field `= ∇ψ(x)` -/
  next : s.tau = s.tauPrev → GX P s.next

theorem lsRecompute_doc {P : Problem α} {e : Bool} (hL : GradLaw P e) (q : Vec α) (s : LS α D) (h : LSDoc P s) :
    Doc P (lsRecompute P q s).curr ∧ GX P (lsRecompute P q s).next := by
  unfold lsRecompute
  split_ifs with h1 h2
  · exact ⟨h.curr, takeAcceleratedStep_gx hL _ _ _ _⟩
  · exact takeSafeStep_doc hL _ _ _ h.curr
  · exact ⟨h.curr, h.next (by simpa using h1)⟩

theorem lsPass_doc {P : Problem α} (dir : Direction D α) (pr : Params α) (hL : GradLaw P pr.eagerGradientEval) (q : Vec α)
    (tauInit : α) (s : LS α D) (h : LSDoc P s) :
    match lsPass P dir pr q tauInit s with
    | .done s' => Doc P s'.curr ∧ Doc P s'.next
    | .again s' => LSDoc P s' := by
  have h1 := lsRecompute_doc hL q s h
  have hs2 : Doc P (evalPsiHat P pr (evalProxGradStep P (lsRecompute P q s).next)) :=
    doc_evalStep pr hL _ h1.2
  have hgx2 : ∀ (g L : α), GX P { evalPsiHat P pr (evalProxGradStep P (lsRecompute P q s).next) with
      gamma := g, L := L } := fun _ _ => hs2.gx
  unfold lsPass
  simp only []
  split_ifs with hfail hqub htq hls hmc
  · exact ⟨h1.1, fun _ => h1.2⟩
  · exact ⟨h1.1, fun _ => hs2.gx⟩
  · exact ⟨h1.1, fun _ => hs2.gx⟩
  · have hsame := lsUpdateInCandidate_same dir
      { lsRecompute P q s with
        next := evalPsiHat P pr (evalProxGradStep P (lsRecompute P q s).next),
        tick := (lsRecompute P q s).tick + 2 }
    exact ⟨by show Doc P _; rw [hsame.1]; exact h1.1,
      fun _ => by show GX P _; rw [hsame.2.1]; exact hs2.gx⟩
  · have hsame := lsUpdateInCandidate_same dir
      { lsRecompute P q s with
        next := evalPsiHat P pr (evalProxGradStep P (lsRecompute P q s).next),
        tick := (lsRecompute P q s).tick + 2 }
    exact ⟨by show Doc P _; rw [hsame.1]; exact h1.1,
      fun _ => by show GX P _; rw [hsame.2.1]; exact hs2.gx⟩
  · have hsame := lsUpdateInCandidate_same dir
      { lsRecompute P q s with
        next := evalPsiHat P pr (evalProxGradStep P (lsRecompute P q s).next),
        tick := (lsRecompute P q s).tick + 2 }
    exact ⟨by rw [hsame.1]; exact h1.1, by rw [hsame.2.1]; exact hs2⟩

theorem lsPass_fuelOut' (P : Problem α) (dir : Direction D α) (pr : Params α) (q : Vec α) (tauInit : α)
    (s : LS α D) : (lsPass P dir pr q tauInit s).st.fuelOut = s.fuelOut := by
  have h1 := (lsRecompute_next P q s).2.2.1
  unfold lsPass
  simp only []
  split_ifs <;> simp only [Pass.st] <;>
    first
    | exact h1
    | (rw [(lsUpdateInCandidate_same dir _).2.2]; exact h1)

/-- The whole line search: the current iterate keeps its data (also when the search is interrupted); a
    search left through `break` hands over a candidate with complete data. -/
theorem lineSearch_doc {P : Problem α} (dir : Direction D α) (pr : Params α) (hL : GradLaw P pr.eagerGradientEval)
    (stop : Nat → Bool) (q : Vec α) (tauInit : α) (fuel : Nat) (s : LS α D) (h : LSDoc P s)
    (hf : s.fuelOut = false) :
    Doc P (lineSearch P dir pr stop q tauInit fuel s).curr ∧
    ((lineSearch P dir pr stop q tauInit fuel s).fuelOut = false →
      stop (lineSearch P dir pr stop q tauInit fuel s).tick = false →
      Doc P (lineSearch P dir pr stop q tauInit fuel s).next) := by
  induction fuel generalizing s with
  | zero => simp [lineSearch, h.curr]
  | succ f ih =>
    unfold lineSearch
    by_cases hst : stop s.tick
    · simp only [hst, if_true]
      exact ⟨h.curr, fun _ h2 => absurd h2 (by decide)⟩
    · simp only [hst, Bool.false_eq_true, if_false]
      have hp := lsPass_doc dir pr hL q tauInit s h
      have hfo := lsPass_fuelOut' P dir pr q tauInit s
      cases hpass : lsPass P dir pr q tauInit s with
      | done s' =>
        rw [hpass] at hp
        exact ⟨hp.1, fun _ _ => hp.2⟩
      | again s' =>
        rw [hpass] at hp hfo
        have : s'.fuelOut = s.fuelOut := hfo
        exact ih s' hp (by rw [this]; exact hf)

/-! ### One pass of the loop body, the head, the initialisation -/

theorem iterLs_init_doc {P : Problem α} (dir : Direction D α) (pr : Params α) (s : St α D)
    (h : Doc P s.curr) :
    LSDoc P
      ({ curr := s.curr, next := { s.next with gamma := s.curr.gamma, L := s.curr.L },
         d := (directionStage dir s).1, tick := (directionStage dir s).2.1,
         tau := (directionStage dir s).2.2.2.1, tauPrev := -1, updInLs := pr.updateDirInCandidate,
         updated := false, dirRejected := true, lsBacktracks := 0, stepsizeBacktracks := 0,
         lbfgsRejected := 0 } : LS α D) := by
  refine ⟨h, fun he => ?_⟩
  exfalso
  have he' : (directionStage dir s).2.2.2.1 = (-1 : α) := he
  rcases directionStage_tau dir s with h0 | h0 <;> rw [h0] at he' <;> norm_num at he'

theorem iterBody_doc {P : Problem α} (dir : Direction D α) (pr : Params α) (hL : GradLaw P pr.eagerGradientEval)
    (stop : Nat → Bool) (s : St α D) (eps : α) (h : Doc P s.curr)
    (hf : (iterLs P dir pr stop s).fuelOut = false) :
    Doc P (iterBody P dir pr stop s eps).curr := by
  have hinit := iterLs_init_doc dir pr s h
  have hls := lineSearch_doc dir pr hL stop (directionStage dir s).2.2.1
    (directionStage dir s).2.2.2.1 pr.lsFuel _ hinit rfl
  have hls' : Doc P (iterLs P dir pr stop s).curr ∧
      ((iterLs P dir pr stop s).fuelOut = false → stop (iterLs P dir pr stop s).tick = false →
        Doc P (iterLs P dir pr stop s).next) := hls
  by_cases hst : stop (iterLs P dir pr stop s).tick = true
  · rw [(iterBody_interrupted P dir pr stop s eps hst).2.2.2.1]; exact hls'.1
  · have hst' : stop (iterLs P dir pr stop s).tick = false := by simpa using hst
    rw [(iterBody_advanced P dir pr stop s eps hst').2.2.1]
    exact hls'.2 hf hst'

/-- At a loop head the data are kept and, if the criterion reads `∇ψ(x̂)`, the buffer is valid (and
    therefore holds `∇ψ(x̂)`) afterwards. -/
theorem headStep_doc {P : Problem α} (pr : Params α) (hL : GradLaw P pr.eagerGradientEval) (stop : Nat → Bool) (oot : Bool)
    (s : St α D) (h : Doc P s.curr) :
    Doc P (headStep P pr stop oot s).1.curr ∧
    (requiresGradHat pr.stopCrit = true → (headStep P pr stop oot s).1.curr.haveGradHat = true) := by
  unfold headStep
  simp only []
  by_cases hr : requiresGradHat pr.stopCrit = true
  · by_cases hh : s.curr.haveGradHat = true
    · simp only [hr, hh, Bool.not_true, Bool.and_false, Bool.false_eq_true, if_false]
      exact ⟨h, fun _ => by first | exact hh | trivial⟩
    · have hh' : s.curr.haveGradHat = false := by simpa using hh
      simp only [hr, hh', Bool.not_false, Bool.and_true, if_true]
      exact ⟨doc_evalGradPsiHat hL _ h, fun _ => rfl⟩
  · have hr' : requiresGradHat pr.stopCrit = false := by simpa using hr
    simp only [hr', Bool.false_and, Bool.false_eq_true, if_false]
    exact ⟨h, fun hc => absurd hc (by simp)⟩

theorem initQub_doc {P : Problem α} (pr : Params α) (hL : GradLaw P pr.eagerGradientEval) (stop : Nat → Bool) (f : Nat)
    (c : Iterate α) (t b : Nat) (h : Doc P c) : Doc P (initQub P pr stop f c t b).1 := by
  induction f generalizing c t b with
  | zero => simpa [initQub] using h
  | succ f ih =>
    unfold initQub
    split_ifs
    · exact h
    · exact ih _ _ _ (doc_evalStep pr hL _ h.gx)
    · exact h

theorem initState_doc {P : Problem α} (d0 : D) (pr : Params α) (hL : GradLaw P pr.eagerGradientEval) (stop : Nat → Bool)
    (x0 gV : Vec α) (gS iS : α) :
    match initState P d0 pr stop x0 gV gS iS with
    | .inl _ => True
    | .inr s => Doc P s.curr := by
  unfold initState
  simp only []
  split_ifs with h1 h2 h3
  · trivial
  · apply initQub_doc _ hL
    apply doc_evalStep _ hL
    show (initialLipschitz P pr x0).2.2.1 = P.gradPsi x0
    unfold initialLipschitz; simp only []; exact hL.pgp _
  · trivial
  · apply initQub_doc _ hL
    apply doc_evalStep _ hL
    show (P.psiGradPsi x0).2.1 = P.gradPsi x0
    exact hL.pgp _

/-! ### The last head of a solve -/

/-- **Every loop head of a solve — in particular the last one — has a current iterate with complete
    proximal-gradient data and `γ > 0`** (parameters satisfying `FuelOK`, any stop schedule). -/
theorem lastHead_doc {P : Problem α} (dir : Direction D α) (pr : Params α) (hL : GradLaw P pr.eagerGradientEval)
    (stop : Nat → Bool) (n K : Nat) (hF : FuelOK pr n K) (oot : Bool) (fuel : Nat) (s : St α D)
    (h : Doc P s.curr) (hi : FInv pr s) :
    Doc P (lastHead P dir pr stop oot fuel s).curr ∧ FInv pr (lastHead P dir pr stop oot fuel s) := by
  induction fuel generalizing s with
  | zero => exact ⟨h, hi⟩
  | succ f ih =>
    unfold lastHead
    split_ifs with hb
    · exact ⟨h, hi⟩
    · have hh := headStep_finv P pr stop oot s hi
      have hd := (headStep_doc pr hL stop oot s h).1
      exact ih _ (iterBody_doc dir pr hL stop _ _ hd (iterLs_fuel P dir pr stop n K hF _ hh.lb))
        (iterBody_finv P dir pr stop n K hF _ _ hh)

end Alpaqa.Panoc
