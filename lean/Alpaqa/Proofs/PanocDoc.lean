/-
  The data invariant of the PANOC loop model behind "ε equals the documented formula recomputed from
  the final iterate data": every iterate that is current at a loop head carries *the* proximal-gradient
  data of its own point,

    ∇ψ-field = ∇ψ(x),   (h(x̂), x̂, p) = prox-step of (γ, x, ∇ψ(x)),
    ∇ψ(x̂)-buffer = ∇ψ(x̂) whenever it is flagged valid,
    ŷ-field = ŷ(x̂) — with lazy evaluation always; with `eager_gradient_eval` `ŷx̂` is only the workspace
    of `eval_ψ_grad_ψ` until a loop head evaluates it, which it does whenever it is read (Ipopt
    criterion, `eval_grad_L(x̂, ŷx̂)` for a recomputation of `∇ψ(x̂)`, results written back),

  through every branch of the line search (accelerated step, safeguarded step with the buffer swap,
  abandoned direction, step-size backtracking), after an interrupted line search, through the initial
  step-size loop, with lazy and with eager gradient evaluation, for every direction provider and every
  monotone stop flag.  It needs the problem's oracles to be consistent with one gradient map (`GradLaw`:
  `eval_ψ_grad_ψ`, `eval_grad_ψ`, `eval_grad_L(·, ŷ(·))` return the same `∇ψ`).  Nothing is assumed about
  what `eval_ψ_grad_ψ` leaves in its m-workspace (repaired finding `C06-panoc-eager-workspace-as-yhat`).

  With eager evaluation, `take_safe_step` never has to recompute `∇ψ(x̂)`: the buffer of the current
  iterate is invalid only after an interrupted line search, and then (monotone flag) the next loop head
  exits.  That is where `StopMono` enters (`lastHead_doc`).

  The two flag facts the proof rests on are exactly the statements
    `take_safe_step`: `curr->have_grad_ψx̂ = next->have_grad_ψx̂ = false` after the buffer swap, and
    `eval_ψx̂`: `have_grad_ψx̂ = eager_gradient_eval` after every new proximal-gradient step
  (`takeSafeStep_doc`, `doc_evalStep`): a model in which either flag survives does not satisfy `Doc`.
-/
import Alpaqa.Proofs.PanocFuel

namespace Alpaqa.Panoc
open Alpaqa Alpaqa.Gen
set_option linter.unusedSectionVars false
set_option linter.unusedVariables false

variable {α D : Type} [Field α] [LinearOrder α] [IsStrictOrderedRing α] [RealLike α]

/-- The problem's oracles are consistent with one gradient map `∇ψ := eval_grad_ψ`:
    `eval_ψ_grad_ψ` returns it, `eval_grad_L(x, ŷ(x))` returns it (`ŷ(x)` = what `eval_ψ` returns). -/
structure GradLaw (P : Problem α) : Prop where
  pgp : ∀ x, (P.psiGradPsi x).2.1 = P.gradPsi x
  gradL : ∀ x, P.gradL x (P.psi x).2 = P.gradPsi x

/-- `∇ψ`-field of an iterate is `∇ψ` at its `x`. -/
def GX (P : Problem α) (i : Iterate α) : Prop := i.gradPsi = P.gradPsi i.x

/-- The iterate carries the proximal-gradient data of its own point (`eager`: the solver's
    `eager_gradient_eval`; then `ŷx̂` is a workspace). -/
structure Doc (P : Problem α) (eager : Bool) (i : Iterate α) : Prop where
  gx : GX P i
  prox : ProxCons P i
  yh : eager = false → i.yhat = (P.psi i.xhat).2
  gh : i.haveGradHat = true → i.gradPsiHat = P.gradPsi i.xhat

/-- After `eval_prox_grad_step; eval_ψx̂`: fresh prox data, and the `∇ψ(x̂)` buffer is valid exactly if it
    was just evaluated (eager mode) — **the flag is reset by every new step**. -/
theorem doc_evalStep {P : Problem α} (pr : Params α) (hL : GradLaw P) (i : Iterate α) (h : GX P i) :
    Doc P pr.eagerGradientEval (evalPsiHat P pr (evalProxGradStep P i)) ∧
    (evalPsiHat P pr (evalProxGradStep P i)).haveGradHat = pr.eagerGradientEval := by
  unfold evalPsiHat evalProxGradStep
  by_cases he : pr.eagerGradientEval
  · simp only [he, if_true]
    exact ⟨⟨h, ⟨rfl, rfl, rfl⟩, fun hc => by simp at hc, fun _ => hL.pgp _⟩, trivial⟩
  · simp only [he, Bool.false_eq_true, if_false]
    exact ⟨⟨h, ⟨rfl, rfl, rfl⟩, fun _ => rfl, fun hc => by simp at hc⟩, trivial⟩

/-- `eval_grad_L(x̂, ŷx̂)` gives `∇ψ(x̂)` when `ŷx̂` holds `ŷ(x̂)`. -/
theorem doc_evalGradPsiHat {P : Problem α} {e : Bool} (hL : GradLaw P) (i : Iterate α) (h : Doc P e i)
    (hy : i.yhat = (P.psi i.xhat).2) : Doc P e (evalGradPsiHat P i) := by
  refine ⟨h.gx, h.prox, h.yh, fun _ => ?_⟩
  show P.gradL i.xhat i.yhat = P.gradPsi i.xhat
  rw [hy]; exact hL.gradL _

/-- `take_safe_step`: the candidate sits at `x̂ₖ` with `∇ψ(x̂ₖ)` taken from the buffer (evaluated first,
    with lazy evaluation, if it was not valid); the buffers are swapped, so **both validity flags are
    cleared** — that is what keeps `Doc` for the current iterate. -/
theorem takeSafeStep_doc {P : Problem α} {e : Bool} (hL : GradLaw P) (c nx : Iterate α) (t : Nat)
    (h : Doc P e c) (hok : e = true → c.haveGradHat = true) :
    Doc P e (takeSafeStep P c nx t).1 ∧ GX P (takeSafeStep P c nx t).2.1 := by
  unfold takeSafeStep
  by_cases hh : c.haveGradHat = true
  · simp only [hh, Bool.not_true, Bool.false_eq_true, if_false]
    exact ⟨⟨h.gx, h.prox, h.yh, fun hc => by simp at hc⟩, h.gh hh⟩
  · have hh' : c.haveGradHat = false := by simpa using hh
    have he : e = false := by
      cases e with
      | false => rfl
      | true => exact absurd (hok rfl) hh
    simp only [hh', Bool.not_false, if_true]
    have hd := doc_evalGradPsiHat hL c h (h.yh he)
    exact ⟨⟨hd.gx, hd.prox, hd.yh, fun hc => by simp at hc⟩, hd.gh rfl⟩

theorem takeAcceleratedStep_gx {P : Problem α} (hL : GradLaw P) (c nx : Iterate α) (q : Vec α)
    (tau : α) : GX P (takeAcceleratedStep P c nx q tau) := by
  unfold takeAcceleratedStep evalPsiGradPsi GX
  exact hL.pgp _

/-! ### Line search -/

structure LSDoc (P : Problem α) (e : Bool) (s : LS α D) : Prop where
  curr : Doc P e s.curr
  /-- a candidate that will not be recomputed has `∇ψ`-field `= ∇ψ(x)` -/
  next : s.tau = s.tauPrev → GX P s.next
  /-- eager evaluation: the buffer of the current iterate is valid until the safeguarded step was taken -/
  eh : e = true → s.curr.haveGradHat = true ∨ s.tauPrev = 0
  /-- once the safeguarded step was taken `τ` stays `0` (it is taken at most once) -/
  t0 : s.tauPrev = 0 → s.tau = 0

theorem lsRecompute_doc {P : Problem α} {e : Bool} (hL : GradLaw P) (q : Vec α) (s : LS α D)
    (h : LSDoc P e s) :
    Doc P e (lsRecompute P q s).curr ∧ GX P (lsRecompute P q s).next ∧
    (e = true → (lsRecompute P q s).curr.haveGradHat = true ∨ (lsRecompute P q s).tauPrev = 0) := by
  unfold lsRecompute
  split_ifs with h1 h2
  · refine ⟨h.curr, takeAcceleratedStep_gx hL _ _ _ _, fun he => ?_⟩
    rcases h.eh he with hh | hp
    · exact Or.inl hh
    · have : s.tau = 0 := h.t0 hp
      exact absurd this (by simpa using h2)
  · have hτ0 : s.tau = 0 := by simpa using h2
    have hne : s.tau ≠ s.tauPrev := by simpa using h1
    have hok : e = true → s.curr.haveGradHat = true := fun he => by
      rcases h.eh he with hh | hp
      · exact hh
      · exact absurd (by rw [hτ0, hp]) hne
    have := takeSafeStep_doc hL s.curr s.next s.tick h.curr hok
    exact ⟨this.1, this.2, fun _ => Or.inr hτ0⟩
  · exact ⟨h.curr, h.next (by simpa using h1), h.eh⟩

theorem lsPass_doc {P : Problem α} (dir : Direction D α) (pr : Params α) (hL : GradLaw P) (q : Vec α)
    (tauInit : α) (s : LS α D) (h : LSDoc P pr.eagerGradientEval s) :
    match lsPass P dir pr q tauInit s with
    | .done s' => Doc P pr.eagerGradientEval s'.curr ∧ Doc P pr.eagerGradientEval s'.next ∧
        s'.next.haveGradHat = pr.eagerGradientEval
    | .again s' => LSDoc P pr.eagerGradientEval s' := by
  have h1 := lsRecompute_doc hL q s h
  have hprev := (lsRecompute_prev P q s).1
  have hs2 := doc_evalStep pr hL _ h1.2.1
  have ht0 : (lsRecompute P q s).tauPrev = 0 → (lsRecompute P q s).tau = 0 := fun hp => by
    rw [← hprev]; exact hp
  unfold lsPass
  simp only []
  split_ifs with hfail hqub htq hls hmc
  · exact ⟨h1.1, fun _ => h1.2.1, h1.2.2, fun _ => rfl⟩
  · refine ⟨h1.1, fun _ => hs2.1.gx, h1.2.2, fun hp => ?_⟩
    have : (lsRecompute P q s).tau = 0 := ht0 hp
    exact absurd htq (by rw [this]; exact lt_irrefl _)
  · exact ⟨h1.1, fun _ => hs2.1.gx, h1.2.2, ht0⟩
  · have hsame := lsUpdateInCandidate_same dir
      { lsRecompute P q s with
        next := evalPsiHat P pr (evalProxGradStep P (lsRecompute P q s).next),
        tick := (lsRecompute P q s).tick + 2 }
    have hupd := lsUpdateInCandidate_tau dir
      { lsRecompute P q s with
        next := evalPsiHat P pr (evalProxGradStep P (lsRecompute P q s).next),
        tick := (lsRecompute P q s).tick + 2 }
    refine ⟨by show Doc P _ _; rw [hsame.1]; exact h1.1,
      fun _ => by show GX P _; rw [hsame.2.1]; exact hs2.1.gx, ?_, fun _ => rfl⟩
    intro he
    show _ ∨ (lsUpdateInCandidate dir _).tauPrev = 0
    rw [hsame.1, hupd.2]; exact h1.2.2 he
  · have hsame := lsUpdateInCandidate_same dir
      { lsRecompute P q s with
        next := evalPsiHat P pr (evalProxGradStep P (lsRecompute P q s).next),
        tick := (lsRecompute P q s).tick + 2 }
    have hupd := lsUpdateInCandidate_tau dir
      { lsRecompute P q s with
        next := evalPsiHat P pr (evalProxGradStep P (lsRecompute P q s).next),
        tick := (lsRecompute P q s).tick + 2 }
    have htpos : 0 < (lsRecompute P q s).tau := by
      simp only [Bool.and_eq_true, decide_eq_true_eq] at hls; rw [hupd.1] at hls; exact hls.1
    refine ⟨by show Doc P _ _; rw [hsame.1]; exact h1.1,
      fun _ => by show GX P _; rw [hsame.2.1]; exact hs2.1.gx, ?_, fun hp => ?_⟩
    · intro he
      show _ ∨ (lsUpdateInCandidate dir _).tauPrev = 0
      rw [hsame.1, hupd.2]; exact h1.2.2 he
    · have hp' : (lsRecompute P q s).tauPrev = 0 := by rw [← hupd.2]; exact hp
      have := ht0 hp'
      exact absurd htpos (by rw [this]; exact lt_irrefl _)
  · have hsame := lsUpdateInCandidate_same dir
      { lsRecompute P q s with
        next := evalPsiHat P pr (evalProxGradStep P (lsRecompute P q s).next),
        tick := (lsRecompute P q s).tick + 2 }
    exact ⟨by rw [hsame.1]; exact h1.1, by rw [hsame.2.1]; exact hs2.1, by rw [hsame.2.1]; exact hs2.2⟩

theorem lsPass_fuelOut' (P : Problem α) (dir : Direction D α) (pr : Params α) (q : Vec α) (tauInit : α)
    (s : LS α D) : (lsPass P dir pr q tauInit s).st.fuelOut = s.fuelOut := by
  have h1 := (lsRecompute_next P q s).2.2.1
  unfold lsPass
  simp only []
  split_ifs <;> simp only [Pass.st] <;>
    first
    | exact h1
    | (rw [(lsUpdateInCandidate_same dir _).2.2]; exact h1)

/-- The whole line search: the current iterate keeps its data (also when the search is interrupted); a
    search left through `break` hands over a candidate with complete data whose `∇ψ(x̂)` buffer is valid
    in eager mode. -/
theorem lineSearch_doc {P : Problem α} (dir : Direction D α) (pr : Params α) (hL : GradLaw P)
    (stop : Nat → Bool) (q : Vec α) (tauInit : α) (fuel : Nat) (s : LS α D)
    (h : LSDoc P pr.eagerGradientEval s) (hf : s.fuelOut = false) :
    Doc P pr.eagerGradientEval (lineSearch P dir pr stop q tauInit fuel s).curr ∧
    ((lineSearch P dir pr stop q tauInit fuel s).fuelOut = false →
      stop (lineSearch P dir pr stop q tauInit fuel s).tick = false →
      Doc P pr.eagerGradientEval (lineSearch P dir pr stop q tauInit fuel s).next ∧
      (lineSearch P dir pr stop q tauInit fuel s).next.haveGradHat = pr.eagerGradientEval) := by
  induction fuel generalizing s with
  | zero => simp [lineSearch, h.curr]
  | succ f ih =>
    unfold lineSearch
    by_cases hst : stop s.tick
    · simp only [hst, if_true]
      exact ⟨h.curr, fun _ h2 => absurd h2 (by decide)⟩
    · simp only [hst, Bool.false_eq_true, if_false]
      have hp := lsPass_doc dir pr hL q tauInit s h
      have hfo := lsPass_fuelOut' P dir pr q tauInit s
      cases hpass : lsPass P dir pr q tauInit s with
      | done s' =>
        rw [hpass] at hp
        exact ⟨hp.1, fun _ _ => hp.2⟩
      | again s' =>
        rw [hpass] at hp hfo
        have : s'.fuelOut = s.fuelOut := hfo
        exact ih s' hp (by rw [this]; exact hf)

/-! ### One pass of the loop body, the head, the initialisation -/

theorem iterLs_init_doc {P : Problem α} {e : Bool} (dir : Direction D α) (pr : Params α) (s : St α D)
    (h : Doc P e s.curr) (hh : e = true → s.curr.haveGradHat = true) :
    LSDoc P e
      ({ curr := s.curr, next := { s.next with gamma := s.curr.gamma, L := s.curr.L },
         d := (directionStage dir s).1, tick := (directionStage dir s).2.1,
         tau := (directionStage dir s).2.2.2.1, tauPrev := -1, updInLs := pr.updateDirInCandidate,
         updated := false, dirRejected := true, lsBacktracks := 0, stepsizeBacktracks := 0,
         lbfgsRejected := 0 } : LS α D) := by
  refine ⟨h, fun he => ?_, fun he => Or.inl (hh he), fun hp => ?_⟩
  · exfalso
    have he' : (directionStage dir s).2.2.2.1 = (-1 : α) := he
    rcases directionStage_tau dir s with h0 | h0 <;> rw [h0] at he' <;> norm_num at he'
  · exfalso
    have hp' : (-1 : α) = 0 := hp
    norm_num at hp'

/-- One pass of the loop body entered with a valid `∇ψ(x̂)` buffer in eager mode: the new current iterate
    has complete data; in eager mode its buffer is valid unless the line search was interrupted. -/
theorem iterBody_doc {P : Problem α} (dir : Direction D α) (pr : Params α) (hL : GradLaw P)
    (stop : Nat → Bool) (s : St α D) (eps : α) (h : Doc P pr.eagerGradientEval s.curr)
    (hh : pr.eagerGradientEval = true → s.curr.haveGradHat = true)
    (hf : (iterLs P dir pr stop s).fuelOut = false) :
    Doc P pr.eagerGradientEval (iterBody P dir pr stop s eps).curr ∧
    (pr.eagerGradientEval = true → (iterBody P dir pr stop s eps).curr.haveGradHat = true ∨
      stop (iterBody P dir pr stop s eps).tick = true) := by
  have hinit := iterLs_init_doc dir pr s h hh
  have hls := lineSearch_doc dir pr hL stop (directionStage dir s).2.2.1
    (directionStage dir s).2.2.2.1 pr.lsFuel _ hinit rfl
  have hls' : Doc P pr.eagerGradientEval (iterLs P dir pr stop s).curr ∧
      ((iterLs P dir pr stop s).fuelOut = false → stop (iterLs P dir pr stop s).tick = false →
        Doc P pr.eagerGradientEval (iterLs P dir pr stop s).next ∧
        (iterLs P dir pr stop s).next.haveGradHat = pr.eagerGradientEval) := hls
  by_cases hst : stop (iterLs P dir pr stop s).tick = true
  · have hi := iterBody_interrupted P dir pr stop s eps hst
    rw [hi.2.2.2.1, hi.2.2.2.2.2]
    exact ⟨hls'.1, fun _ => Or.inr hst⟩
  · have hst' : stop (iterLs P dir pr stop s).tick = false := by simpa using hst
    rw [(iterBody_advanced P dir pr stop s eps hst').2.2.1]
    have := hls'.2 hf hst'
    exact ⟨this.1, fun he => Or.inl (by rw [this.2]; exact he)⟩

/-- the head's `ŷ` evaluation keeps the data -/
theorem headEvalYhat_doc {P : Problem α} (pr : Params α) (c : Iterate α)
    (h : Doc P pr.eagerGradientEval c) : Doc P pr.eagerGradientEval (headEvalYhat P pr c).1 := by
  unfold headEvalYhat
  split_ifs
  · exact ⟨h.gx, h.prox, fun _ => rfl, h.gh⟩
  · exact h

/-- `ŷx̂ = ŷ(x̂)` after the head's evaluation whenever it is read there (or evaluation is lazy). -/
theorem headEvalYhat_yhat {P : Problem α} (pr : Params α) (c : Iterate α)
    (h : Doc P pr.eagerGradientEval c) (hv : headYhatValid pr c = true) :
    (headEvalYhat P pr c).1.yhat = (P.psi (headEvalYhat P pr c).1.xhat).2 := by
  unfold headYhatValid at hv
  unfold headEvalYhat
  by_cases he : pr.eagerGradientEval = true
  · have hr : headReadsYhat pr c = true := by simpa [he] using hv
    simp only [he, hr, Bool.and_self, if_true]
  · have he' : pr.eagerGradientEval = false := by simpa using he
    simp only [he', Bool.false_and, Bool.false_eq_true, if_false]
    exact h.yh he'

/-- At a loop head: the data are kept; if the criterion reads `∇ψ(x̂)` the buffer is valid (and therefore
    holds `∇ψ(x̂)`) afterwards; `ŷx̂ = ŷ(x̂)` whenever `have_ŷx̂` is set, which it is for the Ipopt
    criterion; a valid buffer stays valid. -/
theorem headStep_doc {P : Problem α} (pr : Params α) (hL : GradLaw P) (stop : Nat → Bool) (oot : Bool)
    (s : St α D) (h : Doc P pr.eagerGradientEval s.curr) :
    Doc P pr.eagerGradientEval (headStep P pr stop oot s).1.curr ∧
    (requiresGradHat pr.stopCrit = true → (headStep P pr stop oot s).1.curr.haveGradHat = true) ∧
    ((headStep P pr stop oot s).1.yhatValid = true →
      (headStep P pr stop oot s).1.curr.yhat = (P.psi (headStep P pr stop oot s).1.curr.xhat).2) ∧
    (pr.stopCrit = .Ipopt → (headStep P pr stop oot s).1.yhatValid = true) ∧
    (s.curr.haveGradHat = true → (headStep P pr stop oot s).1.curr.haveGradHat = true) := by
  have hc := headStep_curr P pr stop oot s
  have hfy := headEvalYhat_fields P pr s.curr
  have hdy := headEvalYhat_doc pr s.curr h
  rw [hc.1, hc.2.1]
  have hIp : pr.stopCrit = .Ipopt → headYhatValid pr s.curr = true := fun hi => by
    unfold headYhatValid headReadsYhat; rw [hi]; simp
  by_cases hr : requiresGradHat pr.stopCrit = true
  · by_cases hh : s.curr.haveGradHat = true
    · have hh' : (headEvalYhat P pr s.curr).1.haveGradHat = true := by rw [hfy.2.2.2.2.2.2.1]; exact hh
      simp only [hr, hh', Bool.not_true, Bool.and_false, Bool.false_eq_true, if_false]
      exact ⟨hdy, fun _ => by first | exact hh' | trivial, fun hv => headEvalYhat_yhat pr s.curr h hv, hIp,
        fun _ => by first | exact hh' | trivial⟩
    · have hh0 : s.curr.haveGradHat = false := by simpa using hh
      have hh' : (headEvalYhat P pr s.curr).1.haveGradHat = false := by rw [hfy.2.2.2.2.2.2.1]; exact hh0
      simp only [hr, hh', Bool.not_false, Bool.and_true, if_true]
      have hv : headYhatValid pr s.curr = true := by
        unfold headYhatValid headReadsYhat; rw [hr, hh0]; simp
      have hy := headEvalYhat_yhat pr s.curr h hv
      exact ⟨doc_evalGradPsiHat hL _ hdy hy, fun _ => rfl, fun _ => hy, hIp, fun _ => rfl⟩
  · have hr' : requiresGradHat pr.stopCrit = false := by simpa using hr
    simp only [hr', Bool.false_and, Bool.false_eq_true, if_false]
    exact ⟨hdy, fun hc' => absurd hc' (by simp), fun hv => headEvalYhat_yhat pr s.curr h hv, hIp,
      fun hh => by rw [hfy.2.2.2.2.2.2.1]; exact hh⟩

theorem initQub_doc {P : Problem α} (pr : Params α) (hL : GradLaw P) (stop : Nat → Bool) (f : Nat)
    (c : Iterate α) (t b : Nat) (h : Doc P pr.eagerGradientEval c)
    (hh : c.haveGradHat = pr.eagerGradientEval) :
    Doc P pr.eagerGradientEval (initQub P pr stop f c t b).1 ∧
    (initQub P pr stop f c t b).1.haveGradHat = pr.eagerGradientEval := by
  induction f generalizing c t b with
  | zero => exact ⟨h, hh⟩
  | succ f ih =>
    unfold initQub
    split_ifs
    · exact ⟨h, hh⟩
    · have := doc_evalStep pr hL { c with gamma := c.gamma / 2, L := c.L * 2 } h.gx
      exact ih _ _ _ this.1 this.2
    · exact ⟨h, hh⟩

theorem initState_doc {P : Problem α} (d0 : D) (pr : Params α) (hL : GradLaw P) (stop : Nat → Bool)
    (x0 gV : Vec α) (gS iS : α) :
    match initState P d0 pr stop x0 gV gS iS with
    | .inl _ => True
    | .inr s => Doc P pr.eagerGradientEval s.curr ∧ s.curr.haveGradHat = pr.eagerGradientEval := by
  unfold initState
  simp only []
  split_ifs with h1 h2 h3
  · trivial
  · refine initQub_doc pr hL stop _ _ _ _ (doc_evalStep pr hL _ ?_).1 (doc_evalStep pr hL _ ?_).2 <;>
      (show (initialLipschitz P pr x0).2.2.1 = P.gradPsi x0
       unfold initialLipschitz; simp only []; exact hL.pgp _)
  · trivial
  · refine initQub_doc pr hL stop _ _ _ _ (doc_evalStep pr hL _ ?_).1 (doc_evalStep pr hL _ ?_).2 <;>
      (show (P.psiGradPsi x0).2.1 = P.gradPsi x0
       exact hL.pgp _)

/-! ### The last head of a solve -/

/-- **Every loop head of a solve — in particular the last one — has a current iterate with complete
    proximal-gradient data and `γ > 0`** (parameters satisfying `FuelOK`, monotone stop flag). -/
theorem lastHead_doc {P : Problem α} (dir : Direction D α) (pr : Params α) (hL : GradLaw P)
    (stop : Nat → Bool) (hm : StopMono stop) (n K : Nat) (hF : FuelOK pr n K) (oot : Bool) (fuel : Nat)
    (s : St α D) (h : Doc P pr.eagerGradientEval s.curr)
    (hok : pr.eagerGradientEval = true → s.curr.haveGradHat = true ∨ stop s.tick = true)
    (hi : FInv pr s) :
    Doc P pr.eagerGradientEval (lastHead P dir pr stop oot fuel s).curr ∧
    FInv pr (lastHead P dir pr stop oot fuel s) := by
  induction fuel generalizing s with
  | zero => exact ⟨h, hi⟩
  | succ f ih =>
    unfold lastHead
    split_ifs with hb
    · exact ⟨h, hi⟩
    · have hbusy : (headStep P pr stop oot s).2.2 = .Busy := by simpa using hb
      have hfd := headStep_fields P pr stop oot s
      have hh := headStep_finv P pr stop oot s hi
      have hd := headStep_doc pr hL stop oot s h
      -- a Busy head has not seen the flag, so (monotone flag) it was not visible before either
      have hns : stop (headStep P pr stop oot s).1.tick = false := by
        have hs := (headStep_status P pr stop oot s).2
        rw [hbusy] at hs
        exact (Alpaqa.Props.C06.busy_only_if _ _ _ _ _ _ _ _ hs.symm).2.2.2.2.2
      have hhave : pr.eagerGradientEval = true → (headStep P pr stop oot s).1.curr.haveGradHat = true := by
        intro he
        rcases hok he with hv | hst
        · exact hd.2.2.2.2 hv
        · have := hm _ _ hfd.2.2.2.2.2.1 hst
          rw [hns] at this; exact absurd this (by decide)
      have hls := iterLs_fuel P dir pr stop n K hF _ hh.lb
      have hb' := iterBody_doc dir pr hL stop _ (headStep P pr stop oot s).2.1 hd.1 hhave hls
      exact ih _ hb'.1 hb'.2 (iterBody_finv P dir pr stop n K hF _ _ hh)

end Alpaqa.Panoc
