/-
  PANOC-OCP line search: what holds when the loop is left through `break` (acceptance conditions from the
  generated kernels) and how the candidate's step size relates to the current one (γ only ever halves,
  L doubles with it).  Structural, any carrier; used by `Props/C05_Ocp` and `Props/C19_Ocp`.
-/
import Alpaqa.Proofs.OcpInv

namespace Alpaqa.Ocp
open Alpaqa Alpaqa.Gen
set_option linter.unusedSectionVars false
set_option linter.unusedVariables false

variable {α D : Type} [Add α] [Sub α] [Mul α] [Div α] [Neg α] [LT α] [LE α] [DecidableLT α]
  [DecidableLE α] [BEq α] [RealLike α] [NatCast α] [OfScientific α]
  [OfNat α 0] [OfNat α 1] [OfNat α 2] [OfNat α 100]

/-- `γ /= 2` repeated `j` times -/
def halveN : Nat → α → α
  | 0, g => g
  | j + 1, g => halveN j g / 2
/-- `L *= 2` repeated `j` times -/
def doubleN : Nat → α → α
  | 0, L => L
  | j + 1, L => doubleN j L * 2

/-- The candidate's step size is the current one halved `j` times, its Lipschitz estimate doubled `j`
    times. -/
def Halved (c n : Iterate α) : Prop := ∃ j : Nat, n.gamma = halveN j c.gamma ∧ n.L = doubleN j c.L

/-- Both acceptance tests of the line search pass for the state `s`. -/
def Accepted (pr : Params α) (c : Iterate α) (s : LS α D) : Prop :=
  (decide (s.next.L < pr.Lmax) && qubViolated pr s.next) = false ∧
  (decide (s.tau > (0 : α)) && linesearchViolated pr c s.next) = false

theorem lsRecompute_gammaL (O : Oracles α) (P : Prob α) (c : Iterate α) (q : Vec α) (dn : Bool)
    (s : LS α D) :
    (lsRecompute O P c q dn s).next.gamma = s.next.gamma ∧ (lsRecompute O P c q dn s).next.L = s.next.L ∧
    (lsRecompute O P c q dn s).tick ≥ s.tick := by
  unfold lsRecompute
  split_ifs <;> refine ⟨rfl, rfl, ?_⟩ <;> (try simp only []) <;> omega

theorem lsPass_done (O : Oracles α) (dir : Dir D α) (P : Prob α) (pr : Params α) (c : Iterate α)
    (q : Vec α) (tauInit : α) (dn : Bool) (s s' : LS α D)
    (h : lsPass O dir P pr c q tauInit dn s = .done s') : Accepted pr c s' := by
  unfold lsPass at h
  simp only [] at h
  split_ifs at h
  injection h with h
  subst h
  constructor <;> simp_all

theorem lsPass_halved (O : Oracles α) (dir : Dir D α) (P : Prob α) (pr : Params α) (c : Iterate α)
    (q : Vec α) (tauInit : α) (dn : Bool) (s : LS α D) (h : Halved c s.next) :
    match lsPass O dir P pr c q tauInit dn s with
    | .done s' => Halved c s'.next ∧ s'.tick ≥ s.tick
    | .again s' => Halved c s'.next ∧ s'.tick ≥ s.tick := by
  have hr := lsRecompute_gammaL O P c q dn s
  have ht := hr.2.2
  obtain ⟨j, hj1, hj2⟩ := h
  have hg : ∀ i : Iterate α, (evalStep O P i).gamma = i.gamma ∧ (evalStep O P i).L = i.L :=
    fun _ => ⟨rfl, rfl⟩
  have e1 : (evalStep O P (lsRecompute O P c q dn s).next).gamma = halveN j c.gamma := by
    rw [(hg _).1, hr.1, hj1]
  have e2 : (evalStep O P (lsRecompute O P c q dn s).next).L = doubleN j c.L := by
    rw [(hg _).2, hr.2.1, hj2]
  unfold lsPass
  simp only []
  split_ifs
  all_goals first
    | exact ⟨⟨0, rfl, rfl⟩, by simp only []; omega⟩
    | exact ⟨⟨j, e1, e2⟩, by simp only []; omega⟩
    | exact ⟨⟨j + 1, by simp only [halveN, e1], by simp only [doubleN, e2]⟩, by simp only []; omega⟩

theorem lsPass_accept (O : Oracles α) (dir : Dir D α) (P : Prob α) (pr : Params α) (c : Iterate α)
    (q : Vec α) (tauInit : α) (dn : Bool) (s : LS α D) (h : Halved c s.next) :
    match lsPass O dir P pr c q tauInit dn s with
    | .done s' => Accepted pr c s' ∧ Halved c s'.next ∧ s'.tick ≥ s.tick
    | .again s' => Halved c s'.next ∧ s'.tick ≥ s.tick := by
  have h1 := lsPass_halved O dir P pr c q tauInit dn s h
  cases hp : lsPass O dir P pr c q tauInit dn s with
  | done s' => rw [hp] at h1; exact ⟨lsPass_done O dir P pr c q tauInit dn s s' hp, h1⟩
  | again s' => rw [hp] at h1; exact h1

/-- The whole line search: ticks never decrease; if it was left through `break`, both acceptance tests
    pass and the step size was only halved. -/
theorem lineSearch_accept (O : Oracles α) (dir : Dir D α) (P : Prob α) (pr : Params α)
    (stop : Nat → Bool) (c : Iterate α) (q : Vec α) (tauInit : α) (dn : Bool) (fuel : Nat) (s : LS α D)
    (h : Halved c s.next) (hf : s.fuelOut = false) :
    (lineSearch O dir P pr stop c q tauInit dn fuel s).tick ≥ s.tick ∧
    ((lineSearch O dir P pr stop c q tauInit dn fuel s).fuelOut = false →
      stop (lineSearch O dir P pr stop c q tauInit dn fuel s).tick = false →
      Accepted pr c (lineSearch O dir P pr stop c q tauInit dn fuel s) ∧
      Halved c (lineSearch O dir P pr stop c q tauInit dn fuel s).next) := by
  induction fuel generalizing s with
  | zero => simp [lineSearch]
  | succ f ih =>
    unfold lineSearch
    by_cases hst : stop s.tick
    · simp only [hst, if_true]
      exact ⟨Nat.le_refl _, fun _ h2 => absurd h2 (by simp [hst])⟩
    · simp only [hst, Bool.false_eq_true, if_false]
      have hp := lsPass_accept O dir P pr c q tauInit dn s h
      have hq := lsPass_inv_fuel O dir P pr c q tauInit dn s
      cases hpass : lsPass O dir P pr c q tauInit dn s with
      | done s' =>
        rw [hpass] at hp
        exact ⟨hp.2.2, fun _ _ => ⟨hp.1, hp.2.1⟩⟩
      | again s' =>
        rw [hpass] at hp hq
        have := ih s' hp.1 (by rw [hq, hf])
        exact ⟨Nat.le_trans hp.2 this.1, this.2⟩
where
  lsPass_inv_fuel (O : Oracles α) (dir : Dir D α) (P : Prob α) (pr : Params α) (c : Iterate α)
      (q : Vec α) (tauInit : α) (dn : Bool) (s : LS α D) :
      match lsPass O dir P pr c q tauInit dn s with
      | .done s' => s'.fuelOut = s.fuelOut
      | .again s' => s'.fuelOut = s.fuelOut := by
    have h0 : (lsRecompute O P c q dn s).fuelOut = s.fuelOut := by
      unfold lsRecompute; split_ifs <;> rfl
    unfold lsPass
    simp only []
    split_ifs <;> exact h0

/-- Once the stop flag is visible the line-search loop does nothing: no evaluation, no state change. -/
theorem lineSearch_stop_noop (O : Oracles α) (dir : Dir D α) (P : Prob α) (pr : Params α)
    (stop : Nat → Bool) (c : Iterate α) (q : Vec α) (tauInit : α) (dn : Bool) (fuel : Nat) (s : LS α D)
    (h : stop s.tick = true) : lineSearch O dir P pr stop c q tauInit dn (fuel + 1) s = s := by
  unfold lineSearch; simp [h]

/-- `updateStage` only writes `Iterate::u` of the candidate. -/
theorem updateStage_fields (dir : Dir D α) (pr : Params α) (c n : Iterate α) (d : D) (t : Nat) (g : Bool) :
    (updateStage dir pr c n d t g).1 = n ∨ (updateStage dir pr c n d t g).1 = { n with ul := n.u } := by
  unfold updateStage
  simp only []
  split_ifs <;> simp

end Alpaqa.Ocp
