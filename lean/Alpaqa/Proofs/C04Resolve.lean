/-
  C04 helper lemmas: every entry of `resolve B P` equals its closed form, slot by slot in the
  order the defaults depend on each other.
-/
import Alpaqa.Proofs.C04Calc

namespace Alpaqa.C04
open Alpaqa Alpaqa.Gen.C04
set_option linter.unusedSectionVars false

variable {α : Type} [Field α] [LinearOrder α] [IsStrictOrderedRing α]

/-- What "a problem of dimensions `n, m`" means for the four basic functions: the results have
    the right sizes, and `∇g(x)·y` for `m = 0` is the empty linear combination. -/
structure WF (B : Basic α) : Prop where
  len_g : ∀ x : Vec α, x.length = B.n → (B.g x).length = B.m
  len_grad_f : ∀ x : Vec α, x.length = B.n → (B.grad_f x).length = B.n
  len_pd : ∀ z : Vec α, z.length = B.m → (B.proj_diff_g z).length = B.m
  ggp_nil : B.m = 0 → ∀ x : Vec α, x.length = B.n → B.grad_g_prod x [] = List.replicate B.n 0

/-- admissible arguments: `x ∈ ℝⁿ`, `y ∈ ℝᵐ`, `Σ` a vector in `ℝᵐ` or one shared factor. -/
def Args (B : Basic α) (x y Sig : Vec α) : Prop :=
  x.length = B.n ∧ y.length = B.m ∧ (Sig.length = 1 ∨ Sig.length = B.m)

/-- every *supplied* optional function equals its closed form. -/
structure Provided.Sound (B : Basic α) (P : Provided α) : Prop where
  f_grad_f : ∀ u, P.f_grad_f = some u → ∀ x, x.length = B.n → u x = specFGradF B x
  f_g : ∀ u, P.f_g = some u → ∀ x, x.length = B.n → u x = specFG B x
  grad_f_grad_g_prod : ∀ u, P.grad_f_grad_g_prod = some u →
    ∀ x y, x.length = B.n → y.length = B.m → u x y = specGradFGradGProd B x y
  grad_L : ∀ u, P.grad_L = some u → ∀ x y, x.length = B.n → y.length = B.m → u x y = specGradL B x y
  psi : ∀ u, P.psi = some u → ∀ x y Sig, Args B x y Sig → u x y Sig = specPsi B x y Sig
  grad_psi : ∀ u, P.grad_psi = some u → ∀ x y Sig, Args B x y Sig → u x y Sig = specGradPsi B x y Sig
  psi_grad_psi : ∀ u, P.psi_grad_psi = some u →
    ∀ x y Sig, Args B x y Sig → u x y Sig = specPsiGradPsi B x y Sig

/-- every entry of a vtable equals its closed form. -/
structure VTable.Sound (B : Basic α) (vt : VTable α) : Prop where
  calcY : ∀ g y Sig, g.length = B.m → y.length = B.m → (Sig.length = 1 ∨ Sig.length = B.m) →
    calc_yhat_dTyhat vt g y Sig = (dsqSpec B.proj_diff_g g y Sig, yhatSpec B.proj_diff_g g y Sig)
  f_grad_f : ∀ x, x.length = B.n → vt.eval_f_grad_f x = specFGradF B x
  f_g : ∀ x, x.length = B.n → vt.eval_f_g x = specFG B x
  grad_f_grad_g_prod : ∀ x y, x.length = B.n → y.length = B.m →
    vt.eval_grad_f_grad_g_prod x y = specGradFGradGProd B x y
  grad_L : ∀ x y, x.length = B.n → y.length = B.m → vt.eval_grad_L x y = specGradL B x y
  psi : ∀ x y Sig yh, Args B x y Sig → yh.length = B.m → vt.eval_psi x y Sig yh = specPsi B x y Sig
  grad_psi : ∀ x y Sig, Args B x y Sig → vt.eval_grad_psi x y Sig = specGradPsi B x y Sig
  psi_grad_psi : ∀ x y Sig, Args B x y Sig → vt.eval_psi_grad_psi x y Sig = specPsiGradPsi B x y Sig

/-! ### required slots and projections through the stages -/

@[simp] theorem resolve_pd (B : Basic α) (P : Provided α) :
    (resolve B P).eval_proj_diff_g = B.proj_diff_g := rfl
@[simp] theorem stage2_pd (B : Basic α) (P : Provided α) :
    (stage2 B P).eval_proj_diff_g = B.proj_diff_g := rfl
@[simp] theorem stage2_f (B : Basic α) (P : Provided α) : (stage2 B P).eval_f = B.f := rfl
@[simp] theorem stage2_grad_f (B : Basic α) (P : Provided α) :
    (stage2 B P).eval_grad_f = B.grad_f := rfl
@[simp] theorem stage2_g (B : Basic α) (P : Provided α) : (stage2 B P).eval_g = B.g := rfl
@[simp] theorem stage1_grad_f (B : Basic α) (P : Provided α) :
    (stage1 B P).eval_grad_f = B.grad_f := rfl

theorem half_eq : (0.5 : α) = 1 / 2 := by norm_num

/-! ### stage 1 -/

theorem stage1_f_grad_f (B : Basic α) (P : Provided α) (hP : P.Sound B) (x : Vec α)
    (hx : x.length = B.n) : (stage1 B P).eval_f_grad_f x = specFGradF B x := by
  unfold stage1
  simp only []
  cases h : P.f_grad_f with
  | some u => simpa using hP.f_grad_f u h x hx
  | none => rfl

theorem stage1_f_g (B : Basic α) (P : Provided α) (hP : P.Sound B) (x : Vec α)
    (hx : x.length = B.n) : (stage1 B P).eval_f_g x = specFG B x := by
  unfold stage1
  simp only []
  cases h : P.f_g with
  | some u => simpa using hP.f_g u h x hx
  | none => rfl

theorem stage1_gfggp (B : Basic α) (P : Provided α) (hP : P.Sound B) (x y : Vec α)
    (hx : x.length = B.n) (hy : y.length = B.m) :
    (stage1 B P).eval_grad_f_grad_g_prod x y = specGradFGradGProd B x y := by
  unfold stage1
  simp only []
  cases h : P.grad_f_grad_g_prod with
  | some u => simpa using hP.grad_f_grad_g_prod u h x y hx hy
  | none => rfl

/-! ### stage 2 -/

theorem stage2_grad_L (B : Basic α) (hB : WF B) (P : Provided α) (hP : P.Sound B) (x y : Vec α)
    (hx : x.length = B.n) (hy : y.length = B.m) :
    (stage2 B P).eval_grad_L x y = specGradL B x y := by
  unfold stage2
  simp only []
  cases h : P.grad_L with
  | some u => simpa using hP.grad_L u h x y hx hy
  | none =>
    simp only []
    unfold default_eval_grad_L
    by_cases h0 : y.length = 0
    · have hy0 : y = [] := List.eq_nil_of_length_eq_zero h0
      have hm : B.m = 0 := by rw [← hy, h0]
      simp only [h0, beq_self_eq_true, if_true, stage1_grad_f]
      unfold specGradL
      rw [hy0, hB.ggp_nil hm x hx, vadd_replicate_zero _ _ (hB.len_grad_f x hx)]
    · have : (y.length == 0) = false := by simpa using h0
      simp only [this, Bool.false_eq_true, if_false]
      rw [stage1_gfggp B P hP x y hx hy]
      rfl

@[simp] theorem stage2_f_g (B : Basic α) (P : Provided α) :
    (stage2 B P).eval_f_g = (stage1 B P).eval_f_g := rfl
@[simp] theorem stage2_f_grad_f (B : Basic α) (P : Provided α) :
    (stage2 B P).eval_f_grad_f = (stage1 B P).eval_f_grad_f := rfl

theorem stage2_calc (B : Basic α) (hB : WF B) (P : Provided α) (g y Sig : Vec α)
    (hg : g.length = B.m) (hy : y.length = B.m) (hS : Sig.length = 1 ∨ Sig.length = B.m) :
    calc_yhat_dTyhat (stage2 B P) g y Sig
      = (dsqSpec B.proj_diff_g g y Sig, yhatSpec B.proj_diff_g g y Sig) := by
  have := calc_closed (stage2 B P) g y Sig B.m hg hy hS (by simpa using hB.len_pd)
  simpa using this

/-! ### stage 3 -/

theorem resolve_psi (B : Basic α) (hB : WF B) (P : Provided α) (hP : P.Sound B)
    (x y Sig yh : Vec α) (ha : Args B x y Sig) (hyh : yh.length = B.m) :
    (resolve B P).eval_psi x y Sig yh = specPsi B x y Sig := by
  obtain ⟨hx, hy, hS⟩ := ha
  unfold resolve
  simp only []
  cases h : P.psi with
  | some u => simpa using hP.psi u h x y Sig ⟨hx, hy, hS⟩
  | none =>
    simp only []
    unfold default_eval_psi
    by_cases h0 : y.length = 0
    · have hm : B.m = 0 := by rw [← hy, h0]
      have hyh0 : yh = [] := List.eq_nil_of_length_eq_zero (by rw [hyh, hm])
      simp only [h0, beq_self_eq_true, if_true, stage2_f]
      unfold specPsi dsqSpec yhatSpec
      simp [h0, hyh0, sumL_nil]
    · have : (y.length == 0) = false := by simpa using h0
      simp only [this, Bool.false_eq_true, if_false, stage2_f_g]
      rw [stage1_f_g B P hP x hx]
      unfold specFG
      simp only []
      rw [stage2_calc B hB P (B.g x) y Sig (hB.len_g x hx) hy hS]
      unfold specPsi
      simp only [half_eq]
      congr 1
      ring

theorem resolve_grad_L (B : Basic α) (hB : WF B) (P : Provided α) (hP : P.Sound B) (x y : Vec α)
    (hx : x.length = B.n) (hy : y.length = B.m) :
    (resolve B P).eval_grad_L x y = specGradL B x y := stage2_grad_L B hB P hP x y hx hy

theorem resolve_grad_psi (B : Basic α) (hB : WF B) (P : Provided α) (hP : P.Sound B)
    (x y Sig : Vec α) (ha : Args B x y Sig) :
    (resolve B P).eval_grad_psi x y Sig = specGradPsi B x y Sig := by
  obtain ⟨hx, hy, hS⟩ := ha
  unfold resolve
  simp only []
  cases h : P.grad_psi with
  | some u => simpa using hP.grad_psi u h x y Sig ⟨hx, hy, hS⟩
  | none =>
    simp only []
    unfold default_eval_grad_psi
    by_cases h0 : y.length = 0
    · have hy0 : y = [] := List.eq_nil_of_length_eq_zero h0
      have hm : B.m = 0 := by rw [← hy, h0]
      simp only [h0, beq_self_eq_true, if_true, stage2_grad_f]
      unfold specGradPsi specGradL yhatSpec
      simp only [hy0, List.length_nil, List.range_zero, List.map_nil]
      rw [hB.ggp_nil hm x hx, vadd_replicate_zero _ _ (hB.len_grad_f x hx)]
    · have : (y.length == 0) = false := by simpa using h0
      simp only [this, Bool.false_eq_true, if_false, stage2_g]
      rw [stage2_calc B hB P (B.g x) y Sig (hB.len_g x hx) hy hS]
      simp only []
      rw [stage2_grad_L B hB P hP x _ hx (by rw [length_yhatSpec, hy])]
      rfl

theorem resolve_psi_grad_psi (B : Basic α) (hB : WF B) (P : Provided α) (hP : P.Sound B)
    (x y Sig : Vec α) (ha : Args B x y Sig) :
    (resolve B P).eval_psi_grad_psi x y Sig = specPsiGradPsi B x y Sig := by
  obtain ⟨hx, hy, hS⟩ := ha
  unfold resolve
  simp only []
  cases h : P.psi_grad_psi with
  | some u => simpa using hP.psi_grad_psi u h x y Sig ⟨hx, hy, hS⟩
  | none =>
    simp only []
    unfold default_eval_psi_grad_psi
    by_cases h0 : y.length = 0
    · have hy0 : y = [] := List.eq_nil_of_length_eq_zero h0
      have hm : B.m = 0 := by rw [← hy, h0]
      simp only [h0, beq_self_eq_true, if_true, stage2_f_grad_f]
      rw [stage1_f_grad_f B P hP x hx]
      unfold specFGradF specPsiGradPsi specPsi specGradPsi specGradL dsqSpec yhatSpec
      simp only [hy0, List.length_nil, List.range_zero, List.map_nil, sumL_nil]
      rw [hB.ggp_nil hm x hx, vadd_replicate_zero _ _ (hB.len_grad_f x hx)]
      simp
    · have : (y.length == 0) = false := by simpa using h0
      simp only [this, Bool.false_eq_true, if_false, stage2_f_g]
      rw [stage1_f_g B P hP x hx]
      unfold specFG
      simp only []
      rw [stage2_calc B hB P (B.g x) y Sig (hB.len_g x hx) hy hS]
      simp only []
      rw [stage2_grad_L B hB P hP x _ hx (by rw [length_yhatSpec, hy])]
      unfold specPsiGradPsi specPsi specGradPsi
      simp only [half_eq]
      congr 1
      ring

end Alpaqa.C04
