/-
  C16 helper lemmas, part 5: the interpreter of the regenerated programs (`Model/C16Exec.lean`,
  the model the driver runs) computes, on every state and for every operation, exactly what the
  hand-staged operation bodies of `Model/C16.lean` compute (`step_eq_stepH`).  Every proof below
  unfolds a *generated* program (`Gen.C16.*P`, `constructInplaceObj/Ptr`), so a change of the
  statement order / of a statement of the C++ function changes the term that is unfolded and the
  proof no longer goes through.
-/
import Alpaqa.Model.C16Exec
import Alpaqa.Proofs.C16Step

set_option linter.unusedSimpArgs false

namespace Alpaqa.Proofs.C16
open Alpaqa.Gen.C16 Alpaqa.C16

/-! ### Frame facts: which parts of a wrapper record the ghost-heap primitives can change -/

theorem modW_modW (s : State) (i : Nat) (f g : Wrapper → Wrapper) :
    modW (modW s i f) i g = modW s i (fun w => g (f w)) := by
  cases h : s.wr i with
  | none => cases he : s.err <;> simp [modW, h, fail, he]
  | some w => simp [modW, h, upd_upd]

/-- the ghost part of a wrapper record (named so that `simp` does not unfold it) -/
def bufOf (s : State) (k : Nat) : Option Obj := (getW s k).bufObj

theorem getW_congr {s s' : State} (h : s'.wr = s.wr) (k : Nat) : getW s' k = getW s k := by
  simp [getW, h]

@[simp] theorem getW_fail (s : State) (m : String) (k : Nat) : getW (fail s m) k = getW s k :=
  getW_congr (fail_wr s m) k
@[simp] theorem getW_emit (s : State) (e : Ev) (k : Nat) : getW (emit s e) k = getW s k := rfl
@[simp] theorem getW_heapAlloc (s : State) (a sz o k : Nat) :
    getW (heapAlloc s a sz o).1 k = getW s k := rfl
@[simp] theorem getW_heapFree (s : State) (a : Nat) (p : Option Loc) (k : Nat) :
    getW (heapFree s a p) k = getW s k := getW_congr (heapFree_wr s a p) k

theorem getW_modW_ne (s : State) {i k : Nat} (f : Wrapper → Wrapper) (h : k ≠ i) :
    getW (modW s i f) k = getW s k := by
  simp only [getW]; rw [modW_wr_other s i f h]

theorem getW_modW_same {s : State} {i : Nat} (f : Wrapper → Wrapper)
    (h : (s.wr i).isSome = true) : getW (modW s i f) i = f (getW s i) := by
  obtain ⟨w, hw⟩ := Option.isSome_iff_exists.mp h
  simp [getW, modW, hw]

/-- `setObj` changes at most the ghost part of a wrapper record -/
theorem getW_setObj (s : State) (l : Loc) (o : Option Obj) (k : Nat) :
    getW (setObj s l o) k = { getW s k with bufObj := bufOf (setObj s l o) k } := by
  cases l with
  | buf i =>
    simp only [setObj, bufOf]
    by_cases e : k = i
    · subst e
      cases h : s.wr k with
      | none => cases he : s.err <;> simp [modW, h, fail, he, getW]
      | some w => simp [modW, h, getW]
    · rw [getW_modW_ne _ _ e]
  | blk b => rfl
  | env e => rfl

theorem getW_constructAt (s : State) (l : Loc) (v t : Nat) (ev : Nat → Ev) (k : Nat) :
    getW (constructAt s l v t ev) k = { getW s k with bufObj := bufOf (constructAt s l v t ev) k } := by
  unfold bufOf constructAt
  split
  · simp
  · split
    · simp
    · exact getW_setObj s l (some ⟨s.nextId, v, t⟩) k

theorem getW_destroyAt (s : State) (l : Loc) (k : Nat) :
    getW (destroyAt s l) k = { getW s k with bufObj := bufOf (destroyAt s l) k } := by
  unfold bufOf destroyAt
  split
  · simp
  · exact getW_setObj s l none k

theorem getW_destroyPtr (s : State) (p : Option Loc) (k : Nat) :
    getW (destroyPtr s p) k = { getW s k with bufObj := bufOf (destroyPtr s p) k } := by
  unfold bufOf destroyPtr
  split
  · rw [getW_destroyAt]
  · simp

theorem getW_copyConstruct (s : State) (p q : Option Loc) (k : Nat) :
    getW (copyConstruct s p q) k = { getW s k with bufObj := bufOf (copyConstruct s p q) k } := by
  unfold bufOf copyConstruct
  split
  · split
    · rw [getW_constructAt]
    · simp
  · simp

theorem getW_moveConstruct (s : State) (p q : Option Loc) (k : Nat) :
    getW (moveConstruct s p q) k = { getW s k with bufObj := bufOf (moveConstruct s p q) k } := by
  unfold bufOf moveConstruct
  split
  · split
    · rw [getW_setObj, getW_constructAt]
    · simp
  · simp

/-! which slots hold a wrapper is changed by `newW` / `dropW` only -/

@[simp] theorem isSome_modW (s : State) (i : Nat) (f : Wrapper → Wrapper) (k : Nat) :
    ((modW s i f).wr k).isSome = (s.wr k).isSome := by
  cases h : s.wr i with
  | none => cases he : s.err <;> simp [modW, h, fail, he]
  | some w =>
    by_cases e : k = i
    · subst e; simp [modW, h]
    · simp [modW, h, upd, e]

@[simp] theorem isSome_setObj (s : State) (l : Loc) (o : Option Obj) (k : Nat) :
    ((setObj s l o).wr k).isSome = (s.wr k).isSome := by
  cases l <;> simp [setObj]

@[simp] theorem isSome_constructAt (s : State) (l : Loc) (v t : Nat) (ev : Nat → Ev) (k : Nat) :
    ((constructAt s l v t ev).wr k).isSome = (s.wr k).isSome := by
  unfold constructAt
  split
  · simp
  · split
    · simp
    · exact isSome_setObj s l (some ⟨s.nextId, v, t⟩) k

@[simp] theorem isSome_destroyAt (s : State) (l : Loc) (k : Nat) :
    ((destroyAt s l).wr k).isSome = (s.wr k).isSome := by
  unfold destroyAt
  split
  · simp
  · exact isSome_setObj s l none k

@[simp] theorem isSome_destroyPtr (s : State) (p : Option Loc) (k : Nat) :
    ((destroyPtr s p).wr k).isSome = (s.wr k).isSome := by
  unfold destroyPtr; split <;> simp

@[simp] theorem isSome_copyConstruct (s : State) (p q : Option Loc) (k : Nat) :
    ((copyConstruct s p q).wr k).isSome = (s.wr k).isSome := by
  unfold copyConstruct
  split
  · split <;> simp
  · simp

@[simp] theorem isSome_moveConstruct (s : State) (p q : Option Loc) (k : Nat) :
    ((moveConstruct s p q).wr k).isSome = (s.wr k).isSome := by
  unfold moveConstruct
  split
  · split <;> simp
  · simp

@[simp] theorem isSome_heapFree (s : State) (a : Nat) (p : Option Loc) (k : Nat) :
    ((heapFree s a p).wr k).isSome = (s.wr k).isSome := by rw [heapFree_wr]

@[simp] theorem isSome_heapAlloc (s : State) (a sz o k : Nat) :
    ((heapAlloc s a sz o).1.wr k).isSome = (s.wr k).isSome := rfl

@[simp] theorem isSome_wAllocate (s : State) (i sz k : Nat) :
    ((wAllocate s i sz).wr k).isSome = (s.wr k).isSome := by
  unfold wAllocate; split <;> simp

@[simp] theorem isSome_wDeallocate (s : State) (i k : Nat) :
    ((wDeallocate s i).wr k).isSome = (s.wr k).isSome := by
  unfold wDeallocate; simp only [isSome_modW]; split <;> simp

@[simp] theorem isSome_wCleanup (s : State) (i k : Nat) :
    ((wCleanup s i).wr k).isSome = (s.wr k).isSome := by
  unfold wCleanup
  simp only []
  split
  · simp
  · split <;> simp

@[simp] theorem isSome_newW_same (s : State) (i a vt : Nat) : ((newW s i a vt).wr i).isSome = true := by
  simp [newW]

theorem isSome_newW_ne (s : State) (i a vt : Nat) {k : Nat} (h : k ≠ i) :
    ((newW s i a vt).wr k).isSome = (s.wr k).isSome := by
  simp [newW, upd, h]

theorem getW_newW_ne (s : State) (i a vt : Nat) {k : Nat} (h : k ≠ i) :
    getW (newW s i a vt) k = getW s k := by
  simp [getW, newW, upd, h]

theorem getW_wAllocate_ne (s : State) (i sz : Nat) {k : Nat} (h : k ≠ i) :
    getW (wAllocate s i sz) k = getW s k := by
  simp only [getW]; rw [wAllocate_wr_other s i sz h]

/-! ### Level 0 / 1: `deallocate`, `allocate`, `cleanup`, `do_copy_assign` -/

theorem gDeallocate_eq (s : State) (i : Nat) : gDeallocate s i = wDeallocate s i := by
  simp only [gDeallocate, exec0, deallocateFnP, execWith, canThrow, evalCond, doPrim, unwind,
    wDeallocate]
  by_cases h : deallocateUsesAllocator (getW s i).size s.cfg.sbs = true <;> simp [h]

theorem gAllocate_eq (s : State) (i sz : Nat) : gAllocate s i sz = wAllocate s i sz := by
  simp only [gAllocate, exec0, allocateFnP, execWith, canThrow, doPrim, unwind, wAllocate]
  by_cases h : allocateUsesSmallBuffer sz s.cfg.sbs = true <;> simp [h, modW_modW]

theorem gCleanup_eq (s : State) (i : Nat) : gCleanup s i = wCleanup s i := by
  simp only [gCleanup, exec1, cleanupFnP, execWith, canThrow, evalCond, doPrim, call1, unwind,
    wCleanup, gDeallocate_eq, destroyPtr]
  by_cases h : ownsReferencedObject (getW s i).size = true
  · cases h2 : (getW s i).self <;> simp [h]
  · simp [h]

theorem gDoCopyAssign_eq (s : State) (c : Bool) {i k : Nat} (hik : k ≠ i) (thr : Bool) :
    gDoCopyAssign s c i k thr =
      ((doCopyAssign s c i k thr).1, (doCopyAssign s c i k thr).2 == .excCopy) := by
  simp only [gDoCopyAssign, exec1, doCopyAssignP, execWith, canThrow, evalCond, doPrim, call1, unwind,
    Alpaqa.C16.doCopyAssign, gAllocate_eq, gDeallocate_eq, dtor1]
  cases c <;> cases hp : s.cfg.pocca <;> cases thr <;>
    simp [getW_modW_ne _ _ hik, modW_modW, getW_wAllocate_ne _ _ _ hik] <;>
    split <;> (try split) <;> simp

/-! ### Level 2: constructors, assignment operators, destructor -/

theorem doCopyAssign_out (s : State) (c : Bool) (i k : Nat) (thr : Bool) :
    (Alpaqa.C16.doCopyAssign s c i k thr).2 =
      if ((Alpaqa.C16.doCopyAssign s c i k thr).2 == .excCopy) = true then .excCopy else .ok := by
  unfold Alpaqa.C16.doCopyAssign
  simp only []
  split
  · rfl
  · split
    · rfl
    · cases thr <;> simp

theorem pair_out (r : State × Out) (f : State → State)
    (h : r.2 = if (r.2 == .excCopy) = true then .excCopy else .ok) :
    (if r.2 = .excCopy then (f r.1, Out.excCopy) else (r.1, Out.ok)) =
      if r.2 = .excCopy then (f r.1, Out.excCopy) else r := by
  obtain ⟨a, b⟩ := r
  simp only at h ⊢
  split
  · rfl
  · rename_i e; rw [h]; simp [e]

theorem pair_out0 (r : State × Out)
    (h : r.2 = if (r.2 == .excCopy) = true then .excCopy else .ok) :
    (if r.2 = .excCopy then (r.1, Out.excCopy) else (r.1, Out.ok)) = r := by
  obtain ⟨a, b⟩ := r
  simp only at h ⊢
  split
  · rename_i e; rw [e]
  · rename_i e; rw [h]; simp [e]

theorem modW_newW (s : State) (i a vt : Nat) (f : Wrapper → Wrapper) :
    modW (newW s i a vt) i f = { s with wr := upd s.wr i (some (f { blankW a with vtTy := vt })) } := by
  simp [modW, newW, upd_upd]

@[simp] theorem newW_cfg (s : State) (i a vt : Nat) : (newW s i a vt).cfg = s.cfg := rfl

theorem getW_newW_same (s : State) (i a vt : Nat) :
    getW (newW s i a vt) i = { blankW a with vtTy := vt } := by simp [getW, newW]

@[simp] theorem modW_cfg (s : State) (i : Nat) (f : Wrapper → Wrapper) : (modW s i f).cfg = s.cfg :=
  (modW_fields s i f).2.2.2.2.2.1

@[simp] theorem moveConstruct_cfg (s : State) (p q : Option Loc) : (moveConstruct s p q).cfg = s.cfg := by
  unfold moveConstruct
  split
  · split
    · rw [(setObj_fields _ _ _).2.2.2.2.1]
      unfold constructAt
      split
      · simp
      · split
        · simp
        · exact (setObj_fields _ _ _).2.2.2.2.1
    · simp
  · simp

@[simp] theorem destroyAt_cfg (s : State) (l : Loc) : (destroyAt s l).cfg = s.cfg := by
  unfold destroyAt
  split
  · simp
  · exact (setObj_fields _ _ _).2.2.2.2.1

theorem gCopyAssign_eq (s : State) (i j : Nat) (thr : Bool) :
    gCopyAssign s i j thr = opCopyAssign s i j thr := by
  by_cases hij : i = j
  · subst hij
    simp [gCopyAssign, exec2, copyAssignP, execWith, evalCond, unwind, opCopyAssign]
  · have hji : j ≠ i := fun e => hij e.symm
    simp only [gCopyAssign, exec2, copyAssignP, execWith, canThrow, evalCond, doPrim, call1, call2,
      unwind, opCopyAssign, gCleanup_eq, gDoCopyAssign_eq _ _ hji, dtor1]
    simp [hij, hji]
    exact pair_out0 _ (doCopyAssign_out _ _ _ _ _)

theorem gCopyCtor_eq (s : State) {i j : Nat} (hji : j ≠ i) (thr : Bool) :
    gCopyCtor copyCtorP s i j 0 thr =
      opCopyCtorWith s i j (if s.cfg.socc then 0 else (getW s j).alloc) thr := by
  simp only [gCopyCtor, exec2, copyCtorP, execWith, canThrow, evalCond, doPrim, call1, call2,
    unwind, opCopyCtorWith, gDoCopyAssign_eq _ _ hji, dtor1, modW_modW, Bool.false_eq_true,
    if_false, if_true]
  simp only [getW_modW_ne _ _ hji, getW_newW_ne _ _ _ _ hji, newW_cfg]
  simp only [modW_newW]
  simp [newW, blankW]
  exact pair_out _ (fun t => dropW t i) (doCopyAssign_out _ _ _ _ _)

theorem gCopyCtorAlloc_eq (s : State) {i j : Nat} (hji : j ≠ i) (a : Nat) (thr : Bool) :
    gCopyCtor copyCtorAllocP s i j a thr = opCopyCtorWith s i j a thr := by
  simp only [gCopyCtor, exec2, copyCtorAllocP, execWith, canThrow, evalCond, doPrim, call1, call2,
    unwind, opCopyCtorWith, gDoCopyAssign_eq _ _ hji, dtor1, modW_modW, Bool.false_eq_true,
    if_false, if_true]
  simp only [getW_modW_ne _ _ hji, getW_newW_ne _ _ _ _ hji, newW_cfg]
  simp only [modW_newW]
  simp [newW, blankW]
  exact pair_out _ (fun t => dropW t i) (doCopyAssign_out _ _ _ _ _)

theorem gMoveCtor_eq (s : State) {i j : Nat} (hji : j ≠ i) :
    gMoveCtor moveCtorP moveCtorLarge s i j 0 = opMoveCtor s i j := by
  simp only [gMoveCtor, exec2, moveCtorP, execWith, canThrow, evalCond, doPrim, call1, call2,
    unwind, opMoveCtor, dtor1, modW_modW, Bool.false_eq_true, if_false, if_true, moveSmall, destroyPtr]
  simp only [getW_modW_ne _ _ hji, getW_newW_ne _ _ _ _ hji, newW_cfg, modW_cfg, getW_moveConstruct,
    getW_modW_same, isSome_modW, isSome_newW_same, getW_newW_same]
  simp only [modW_newW, blankW]
  split <;> rename_i h1
  · simp [h1]
  · cases hs : (getW s j).self <;> simp [hs, modW_modW]

theorem gMoveCtorAlloc_eq (s : State) {i j : Nat} (hji : j ≠ i) (a : Nat) :
    gMoveCtor moveCtorAllocP moveCtorAllocLarge s i j a = opMoveCtorAlloc s i j a := by
  cases hs : (getW s j).self with
  | none =>
    simp only [gMoveCtor, exec2, moveCtorAllocP, execWith, canThrow, evalCond, doPrim, call1, call2,
      unwind, opMoveCtorAlloc, dtor1, modW_modW, Bool.false_eq_true, if_false, if_true]
    simp only [getW_modW_ne _ _ hji, getW_newW_ne _ _ _ _ hji, hs]
    simp only [modW_newW]
    simp [newW, blankW, operatorBool]
  | some p =>
    simp only [gMoveCtor, exec2, moveCtorAllocP, execWith, canThrow, evalCond, doPrim, call1, call2,
      unwind, opMoveCtorAlloc, dtor1, modW_modW, Bool.false_eq_true, if_false, if_true, moveSmall,
      moveRealloc, destroyPtr, gDeallocate_eq]
    simp only [getW_modW_ne _ _ hji, getW_newW_ne _ _ _ _ hji, newW_cfg, modW_cfg, getW_moveConstruct,
      getW_modW_same, isSome_modW, isSome_newW_same, getW_newW_same, getW_heapAlloc, isSome_heapAlloc,
      hs]
    simp only [modW_newW, blankW]
    simp [operatorBool, hs]
    split <;> rename_i h1
    · simp [h1]
    · split <;> rename_i h2
      · split <;> rename_i h3 <;> simp [h1, h2, h3, modW_modW]
      · simp [h1, h2, modW_modW]

theorem gMoveAssign_eq (s : State) {i : Nat} (hi : (s.wr i).isSome = true) (j : Nat) :
    gMoveAssign s i j = opMoveAssign s i j := by
  by_cases hij : i = j
  · subst hij
    simp [gMoveAssign, exec2, moveAssignP, execWith, evalCond, unwind, opMoveAssign]
  · have hji : j ≠ i := fun e => hij e.symm
    have hi' : ((wCleanup s i).wr i).isSome = true := by simpa using hi
    simp only [gMoveAssign, exec2, moveAssignP, execWith, canThrow, evalCond, doPrim, call1, call2,
      unwind, opMoveAssign, dtor1, Bool.false_eq_true, if_false, if_true, moveSmall,
      moveRealloc, destroyPtr, gCleanup_eq, hij]
    generalize wCleanup s i = t at hi'
    cases hp : t.cfg.pocma <;> cases hs : (getW t j).self
    all_goals
      simp only [modW_modW, getW_modW_ne _ _ hji, modW_cfg, getW_moveConstruct,
        getW_modW_same, isSome_modW, getW_heapAlloc, isSome_heapAlloc, hs, hp, hi', Bool.false_eq_true,
        getW_destroyAt, isSome_destroyAt, isSome_moveConstruct, hji,
        if_false, if_true]
    all_goals simp [operatorBool, hs, hji]
    all_goals
      split <;> rename_i h1
      · simp [h1]
      · split <;> rename_i h2
        · first
          | (split <;> rename_i h3 <;> simp [h1, h2, h3, modW_modW])
          | simp [h1, h2, modW_modW]
        · simp [h1, h2, modW_modW]

theorem gDel_eq (s : State) (i : Nat) : gDel s i = opDel s i := by
  simp [gDel, opDel, gCleanup_eq]

theorem newW_wr_same (s : State) (i a vt : Nat) :
    (newW s i a vt).wr i = some { blankW a with vtTy := vt } := by simp [newW]

theorem gNewInPlace_eq (s : State) (i a ty val : Nat) (thr : Bool) :
    gConstruct s i a ty (.value val) thr .excCtor = opNewInPlace s i a ty val thr := by
  have hs := wAllocate_self (newW_wr_same s i a 0) ty
  cases thr <;>
  simp [gConstruct, exec1, constructInplaceObj, progOfActs, execWith, canThrow, doPrim, call1,
    unwind, opNewInPlace, dtor1, gAllocate_eq, gDeallocate_eq, hs]

theorem gNewCopyEnv_eq (s : State) (i a k : Nat) (thr : Bool) :
    gFromEnv s i a k (.copyEnv k) thr = opNewCopyEnv s i a k thr := by
  cases he : s.env k with
  | none => simp [gFromEnv, opNewCopyEnv, he]
  | some o =>
    cases thr <;>
    simp [gFromEnv, he, gConstruct, exec1, constructInplaceObj, progOfActs, execWith, canThrow, doPrim,
      call1, unwind, opNewCopyEnv, dtor1, gAllocate_eq, gDeallocate_eq]

theorem gNewMoveEnv_eq (s : State) (i a k : Nat) :
    gFromEnv s i a k (.moveEnv k) false = opNewMoveEnv s i a k := by
  cases he : s.env k with
  | none => simp [gFromEnv, opNewMoveEnv, he]
  | some o =>
    simp [gFromEnv, he, gConstruct, exec1, constructInplaceObj, progOfActs, execWith, canThrow, doPrim,
      call1, unwind, opNewMoveEnv, dtor1, gAllocate_eq, gDeallocate_eq]

theorem gNewPtr_eq (s : State) (i a k : Nat) (c : Bool) :
    gFromEnv s i a k (.ptrEnv k c) false = opNewPtr s i a k c := by
  cases he : s.env k with
  | none => simp [gFromEnv, opNewPtr, he]
  | some o =>
    simp [gFromEnv, he, gConstruct, exec1, constructInplacePtr, progOfActs, execWith, canThrow, doPrim,
      call1, unwind, opNewPtr, dtor1, modW_modW]

/-- **The model the driver runs (interpreter of the regenerated programs) and the hand-staged
    operation bodies agree on every state and every operation.** -/
theorem step_eq_stepH (s : State) (op : Op) : step s op = stepH s op := by
  have ne_of : ∀ {i j : Nat}, (free s i && has s j) = true → j ≠ i := by
    intro i j h e
    subst e
    simp [free, has] at h
    obtain ⟨⟨_, h1⟩, h2⟩ := h
    rw [h1] at h2; cases h2
  cases op <;> simp only [step, stepH]
  case newInPlace i a ty val thr => rw [gNewInPlace_eq]
  case newCopyEnv i a k thr => rw [gNewCopyEnv_eq]
  case newMoveEnv i a k => rw [gNewMoveEnv_eq]
  case newPtr i a k c => rw [gNewPtr_eq]
  case copyCtor i j thr =>
    split
    · rename_i h; rw [gCopyCtor_eq s (ne_of h)]
    · rfl
  case copyCtorAlloc i j a thr =>
    split
    · rename_i h; rw [gCopyCtorAlloc_eq s (ne_of h)]
    · rfl
  case moveCtor i j =>
    split
    · rename_i h; rw [gMoveCtor_eq s (ne_of h)]
    · rfl
  case moveCtorAlloc i j a =>
    split
    · rename_i h; rw [gMoveCtorAlloc_eq s (ne_of h)]
    · rfl
  case copyAssign i j thr => rw [gCopyAssign_eq]
  case moveAssign i j =>
    split
    · rename_i h
      simp only [Bool.and_eq_true, has] at h
      rw [gMoveAssign_eq s h.1]
    · rfl
  case del i => rw [gDel_eq]

theorem run_eq_foldl (s : State) (ops : List Op) :
    run s ops = ops.foldl (fun t o => (stepH t o).1) s := by
  induction ops generalizing s with
  | nil => rfl
  | cons o r ih => simp only [run, List.foldl_cons, step_eq_stepH]; exact ih _

end Alpaqa.Proofs.C16
