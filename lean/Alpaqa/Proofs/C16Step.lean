/-
  C16 helper lemmas, part 4: `InvS` and `InvI` under every operation of the model.
-/
import Alpaqa.Proofs.C16Ops

set_option linter.unusedSimpArgs false

namespace Alpaqa.Proofs.C16
open Alpaqa.Gen.C16 Alpaqa.C16

theorem newW_facts {s : State} (h : InvS s) {i : Nat} (hf : s.wr i = none) (a vt : Nat) :
    InvS (newW s i a vt) ∧ (newW s i a vt).wr i = some { blankW a with vtTy := vt } ∧
    (∀ j, j ≠ i → (newW s i a vt).wr j = s.wr j) := by
  refine ⟨?_, by simp [newW], fun j hj => by simp [newW, upd, hj]⟩
  exact inv_newW h hf _ ⟨fun _ => rfl, by simp [blankW], by simp [blankW], by simp [blankW]⟩

theorem self_buf_of_small {s : State} {j : Nat} {w : Wrapper} (k : WOk s j w)
    (ho : ownsReferencedObject w.size = true)
    (hs : allocateUsesSmallBuffer w.size s.cfg.sbs = true) {p : Loc} (hp : w.self = some p) :
    p = .buf j := by
  cases p with
  | buf j' => rw [(k.2.1 j' hp).1]
  | blk b => have := (k.2.2.1 b hp).2.2.1; rw [hs] at this; cases this
  | env e => have := (k.2.2.2 e hp).2.1; rw [ho] at this; cases this

theorem self_blk_of_large {s : State} {j : Nat} {w : Wrapper} (k : WOk s j w)
    (ho : ownsReferencedObject w.size = true)
    (hs : allocateUsesSmallBuffer w.size s.cfg.sbs = false) {p : Loc} (hp : w.self = some p) :
    ∃ b, p = .blk b := by
  cases p with
  | buf j' => have := (k.2.1 j' hp).2.2.2; rw [hs] at this; cases this
  | blk b => exact ⟨b, rfl⟩
  | env e => have := (k.2.2.2 e hp).2.1; rw [ho] at this; cases this

theorem not_blk_of_not_owns {s : State} {j : Nat} {w : Wrapper} (k : WOk s j w)
    (ho : ownsReferencedObject w.size = false) : ∀ b, w.self = some (.blk b) → False := by
  intro b hb; have := (k.2.2.1 b hb).2.1; rw [ho] at this; cases this

/-! ### Constructors from a payload -/

theorem invS_opNewInPlace {s : State} (h : InvS s) {i : Nat} (hf : s.wr i = none) (a ty val : Nat)
    (thr : Bool) (hty : ownsReferencedObject ty = true) :
    InvS (opNewInPlace s i a ty val thr).1 := by
  obtain ⟨h1, hw1, _⟩ := newW_facts h hf a 0
  unfold opNewInPlace
  cases thr with
  | true =>
    simp only [ite_true]
    obtain ⟨q1, w', q2, q3, _⟩ := invS_allocThrow h1 hw1 rfl ty
    exact (invS_dropW q1 q2 q3).1
  | false =>
    simp only [Bool.false_eq_true, ite_false, wAllocate_self hw1, Option.getD_some]
    obtain ⟨hF, ⟨w', hw', _⟩, _⟩ := invS_fill h1 hw1 rfl ty hty val ty (fun id => .ctor id val)
    exact invS_modW_same hF hw' _ ⟨rfl, rfl, rfl, rfl⟩

theorem invS_opNewCopyEnv {s : State} (h : InvS s) {i : Nat} (hf : s.wr i = none) (a k : Nat)
    (thr : Bool) : InvS (opNewCopyEnv s i a k thr).1 := by
  unfold opNewCopyEnv
  cases he : s.env k with
  | none => exact h
  | some o =>
    obtain ⟨h1, hw1, _⟩ := newW_facts h hf a 0
    have hty := h.envTy k o he
    simp only
    cases thr with
    | true =>
      simp only [ite_true]
      obtain ⟨q1, w', q2, q3, _⟩ := invS_allocThrow h1 hw1 rfl o.ty
      exact (invS_dropW q1 q2 q3).1
    | false =>
      have hobj : objAt (newW s i a 0) (.env k) = some o := by simp [objAt, newW, he]
      simp only [Bool.false_eq_true, ite_false, wAllocate_self hw1, copyConstruct,
        objAt_wAllocate h1, hobj]
      obtain ⟨hF, ⟨w', hw', _⟩, _⟩ := invS_fill h1 hw1 rfl o.ty hty o.val o.ty
        (fun id => .copy id o.id)
      exact invS_modW_same hF hw' _ ⟨rfl, rfl, rfl, rfl⟩

theorem setObj_env_wr (s : State) (k : Nat) (o : Option Obj) : (setObj s (.env k) o).wr = s.wr := rfl

theorem invS_opNewMoveEnv {s : State} (h : InvS s) {i : Nat} (hf : s.wr i = none) (a k : Nat) :
    InvS (opNewMoveEnv s i a k).1 := by
  unfold opNewMoveEnv
  cases he : s.env k with
  | none => exact h
  | some o =>
    obtain ⟨h1, hw1, _⟩ := newW_facts h hf a 0
    have hty := h.envTy k o he
    have hobj : objAt (newW s i a 0) (.env k) = some o := by simp [objAt, newW, he]
    simp only [wAllocate_self hw1, moveConstruct, objAt_wAllocate h1, hobj]
    obtain ⟨hF, ⟨w', hw', _⟩, _⟩ := invS_fill h1 hw1 rfl o.ty hty o.val o.ty
      (fun id => .move id o.id)
    have hobj2 := objAt_constructAt_of_some
      (s := wAllocate (newW s i a 0) i o.ty) (p := .env k) (o := o)
      (by rw [objAt_wAllocate h1]; exact hobj) (fillLoc (newW s i a 0) i o.ty) o.val o.ty
      (fun id => .move id o.id)
    have hM := invS_setVal hF hobj2 { o with val := 0 } rfl
    exact invS_modW_same hM (by rw [setObj_env_wr]; exact hw') _ ⟨rfl, rfl, rfl, rfl⟩

theorem invS_opNewPtr {s : State} (h : InvS s) {i : Nat} (hf : s.wr i = none) (a k : Nat)
    (c : Bool) : InvS (opNewPtr s i a k c).1 := by
  simp only [opNewPtr]
  cases he : s.env k with
  | none => exact h
  | some o =>
    simp only [newW, modW, upd_same, upd_upd]
    apply inv_newW h hf
    refine ⟨by simp, by simp, by simp, ?_⟩
    intro k' hk'
    simp only [Option.some.injEq, Loc.env.injEq] at hk'
    subst hk'
    exact ⟨rfl, (refSize_spec c).1, by simp [he]⟩

/-! ### Copy construction / assignment -/

theorem invS_opCopyCtorWith {s : State} (h : InvS s) {i j : Nat} {wj : Wrapper}
    (hf : s.wr i = none) (hj : s.wr j = some wj) (a : Nat) (thr : Bool) :
    InvS (opCopyCtorWith s i j a thr).1 := by
  have hij : i ≠ j := by intro e; subst e; rw [hf] at hj; cases hj
  obtain ⟨h1, hw1, hfr⟩ := newW_facts h hf a (getW s j).vtTy
  have hj1 : (newW s i a (getW s j).vtTy).wr j = some wj := by
    rw [hfr j (fun e => hij e.symm)]; exact hj
  obtain ⟨q1, q2, q3⟩ := invS_doCopyAssign h1 hw1 rfl hj1 hij false thr
  unfold opCopyCtorWith
  simp only
  rcases q3 with q3 | q3
  · obtain ⟨w', r1, r2⟩ := q2 q3
    simp only [q3, beq_self_eq_true, ite_true]
    exact (invS_dropW q1 r1 r2).1
  · have : ((Alpaqa.C16.doCopyAssign (newW s i a (getW s j).vtTy) false i j thr).2 == Out.excCopy)
        = false := by rw [q3]; rfl
    simp only [this, Bool.false_eq_true, ite_false]
    exact q1

theorem invS_opCopyAssign {s : State} (h : InvS s) {i j : Nat} {wi wj : Wrapper}
    (hi : s.wr i = some wi) (hj : s.wr j = some wj) (thr : Bool) :
    InvS (opCopyAssign s i j thr).1 := by
  unfold opCopyAssign
  by_cases hij : i = j
  · simp [hij]; exact h
  · simp only [hij, ite_false]
    obtain ⟨h1, ⟨w1, hw1, hs1, _⟩, hfr⟩ := inv_wCleanup h hi
    have hj1 : (wCleanup s i).wr j = some wj := by rw [hfr j (fun e => hij e.symm)]; exact hj
    have h2 := invS_modW_empty h1 hw1 hs1
      (fun w => { w with vtTy := (getW (wCleanup s i) j).vtTy }) ⟨hs1, rfl⟩
    have hw2 := modW_wr hw1 (fun w => { w with vtTy := (getW (wCleanup s i) j).vtTy })
    exact (invS_doCopyAssign h2 (wi := { w1 with vtTy := (getW (wCleanup s i) j).vtTy })
      (by rw [hw2]; simp) hs1
      (by rw [hw2, upd_ne _ _ (fun e => hij e.symm)]; exact hj1) hij true thr).1

/-! ### Move construction / assignment -/

/-- one metadata update of the (empty-handed) target wrapper, with the facts carried along -/
theorem stage_modW {u : State} (h : InvS u) {i j : Nat} {w wj : Wrapper} (hij : i ≠ j)
    (hi : u.wr i = some w) (hs : w.self = none) (hj : u.wr j = some wj) (f : Wrapper → Wrapper)
    (hf : (f w).self = none ∧ (f w).bufObj = w.bufObj) :
    InvS (modW u i f) ∧ (modW u i f).wr i = some (f w) ∧ (modW u i f).wr j = some wj ∧
      (modW u i f).cfg = u.cfg := by
  refine ⟨invS_modW_empty h hi hs f hf, ?_, ?_, (modW_fields u i f).2.2.2.2.2.1⟩
  · rw [modW_wr hi]; simp
  · rw [modW_wr hi, upd_ne _ _ (fun e => hij e.symm)]; exact hj

theorem post_none {t : State} (h : InvS t) {j : Nat} {wj : Wrapper} (hj : t.wr j = some wj)
    (hs : wj.self = none) : InvS (modW t j fun w => { w with size := invalidSize }) :=
  invS_modW_empty h hj hs _ ⟨hs, rfl⟩

theorem post_steal {t : State} (h : InvS t) {i j : Nat} {wi wj : Wrapper} (hij : i ≠ j)
    (hi : t.wr i = some wi) (hsi : wi.self = none) (hj : t.wr j = some wj)
    (hsz : wi.size = wj.size)
    (hc : ownsReferencedObject wj.size = false ∨ allocateUsesSmallBuffer wj.size t.cfg.sbs = false)
    (hal : ∀ b, wj.self = some (.blk b) → cls wi.alloc = cls wj.alloc) :
    InvS (modW (steal t i j) j fun w => { w with size := invalidSize }) := by
  obtain ⟨q1, _, q3, _⟩ := invS_steal h hij hi hsi hj hsz hc hal
  exact invS_modW_empty q1 q3 rfl _ ⟨rfl, rfl⟩

theorem post_moveSmall {t : State} (h : InvS t) {i j : Nat} {wi wj : Wrapper} (hij : i ≠ j)
    (hi : t.wr i = some wi) (hsi : wi.self = none) (hj : t.wr j = some wj)
    (hsz : wi.size = wj.size) (ho : ownsReferencedObject wj.size = true)
    (hsm : allocateUsesSmallBuffer wj.size t.cfg.sbs = true) {p : Loc} (hp : wj.self = some p) :
    InvS (modW (moveSmall t i j) j fun w => { w with size := invalidSize }) := by
  have hb := self_buf_of_small (h.wok j wj hj) ho hsm hp
  subst hb
  obtain ⟨q1, _, q3, _⟩ := invS_moveSmall h hij hi hsi hj hp hsz
  exact invS_modW_empty q1 q3 rfl _ ⟨rfl, rfl⟩

theorem post_moveRealloc {t : State} (h : InvS t) {i j : Nat} {wi wj : Wrapper} (hij : i ≠ j)
    (hi : t.wr i = some wi) (hsi : wi.self = none) (hj : t.wr j = some wj)
    (hsz : wi.size = wj.size) (ho : ownsReferencedObject wj.size = true)
    (hsm : allocateUsesSmallBuffer wj.size t.cfg.sbs = false) {p : Loc} (hp : wj.self = some p)
    (a : Nat) (via : Bool) (hfree : via = false → cls a = cls wj.alloc) :
    InvS (modW (moveRealloc t i j a via) j fun w => { w with size := invalidSize }) := by
  obtain ⟨b, hb⟩ := self_blk_of_large (h.wok j wj hj) ho hsm hp
  subst hb
  obtain ⟨q1, _, q3, _⟩ := invS_moveRealloc h hij hi hsi hj hp hsz a via hfree
  exact invS_modW_empty q1 q3 rfl _ ⟨rfl, rfl⟩

theorem invS_opMoveCtor {s : State} (h : InvS s) {i j : Nat} {wj : Wrapper}
    (hf : s.wr i = none) (hj : s.wr j = some wj) : InvS (opMoveCtor s i j).1 := by
  have hij : i ≠ j := by intro e; subst e; rw [hf] at hj; cases hj
  obtain ⟨h1, hw1, hfr⟩ := newW_facts h hf wj.alloc wj.vtTy
  have hj1 : (newW s i wj.alloc wj.vtTy).wr j = some wj := by
    rw [hfr j (fun e => hij e.symm)]; exact hj
  obtain ⟨h2, hw2, hj2, _⟩ := stage_modW h1 hij hw1 rfl hj1
    (fun w => { w with size := wj.size }) ⟨rfl, rfl⟩
  unfold opMoveCtor
  simp only [getW, hj, Option.getD_some]
  by_cases ho : ownsReferencedObject wj.size = true
  · by_cases hl : moveCtorLarge wj.size
        (modW (newW s i wj.alloc wj.vtTy) i fun w => { w with size := wj.size }).cfg.sbs = true
    · simp only [ho, hl, Bool.not_true, Bool.false_or, ite_true]
      refine post_steal h2 hij hw2 rfl hj2 rfl (Or.inr ?_) (fun _ _ => rfl)
      have := (large_iff_not_small wj.size
        (modW (newW s i wj.alloc wj.vtTy) i fun w => { w with size := wj.size }).cfg.sbs).2.1
      rw [hl] at this; simpa using this.symm
    · have hl' : moveCtorLarge wj.size
          (modW (newW s i wj.alloc wj.vtTy) i fun w => { w with size := wj.size }).cfg.sbs = false := by
        simpa using hl
      have hsm : allocateUsesSmallBuffer wj.size
          (modW (newW s i wj.alloc wj.vtTy) i fun w => { w with size := wj.size }).cfg.sbs = true := by
        have := (large_iff_not_small wj.size
          (modW (newW s i wj.alloc wj.vtTy) i fun w => { w with size := wj.size }).cfg.sbs).2.1
        rw [hl'] at this; simpa using this.symm
      simp only [ho, hl', Bool.not_true, Bool.or_false, Bool.false_eq_true, ite_false]
      cases hp : wj.self with
      | none =>
        simp only [Option.isSome_none, Bool.false_eq_true, ite_false]
        exact post_none h2 hj2 hp
      | some p =>
        simp only [Option.isSome_some, ite_true]
        exact post_moveSmall h2 hij hw2 rfl hj2 rfl ho hsm hp
  · have ho' : ownsReferencedObject wj.size = false := by simpa using ho
    simp only [ho', Bool.not_false, Bool.true_or, ite_true]
    exact post_steal h2 hij hw2 rfl hj2 rfl (Or.inl ho')
      (fun b hb => (not_blk_of_not_owns (h2.wok j wj hj2) ho' b hb).elim)

theorem small_of_not_large {sz sbs : Nat} :
    (moveCtorAllocLarge sz sbs = false → allocateUsesSmallBuffer sz sbs = true) ∧
    (moveCtorAllocLarge sz sbs = true → allocateUsesSmallBuffer sz sbs = false) ∧
    (moveAssignLarge sz sbs = false → allocateUsesSmallBuffer sz sbs = true) ∧
    (moveAssignLarge sz sbs = true → allocateUsesSmallBuffer sz sbs = false) := by
  have := large_iff_not_small sz sbs
  refine ⟨?_, ?_, ?_, ?_⟩ <;> intro h
  · have h2 := this.2.2.1; rw [h] at h2; simpa using h2.symm
  · have h2 := this.2.2.1; rw [h] at h2; simpa using h2.symm
  · have h2 := this.2.2.2; rw [h] at h2; simpa using h2.symm
  · have h2 := this.2.2.2; rw [h] at h2; simpa using h2.symm

theorem invS_opMoveCtorAlloc {s : State} (h : InvS s) {i j : Nat} {wj : Wrapper}
    (hf : s.wr i = none) (hj : s.wr j = some wj) (a : Nat) : InvS (opMoveCtorAlloc s i j a).1 := by
  have hij : i ≠ j := by intro e; subst e; rw [hf] at hj; cases hj
  obtain ⟨h1, hw1, hfr⟩ := newW_facts h hf a wj.vtTy
  have hj1 : (newW s i a wj.vtTy).wr j = some wj := by
    rw [hfr j (fun e => hij e.symm)]; exact hj
  obtain ⟨h2, hw2, hj2, _⟩ := stage_modW h1 hij hw1 rfl hj1
    (fun w => { w with size := wj.size }) ⟨rfl, rfl⟩
  unfold opMoveCtorAlloc
  simp only [getW, hj, Option.getD_some]
  cases hp : wj.self with
  | none => simpa using h1
  | some p =>
    simp only [Option.isNone_some, Bool.false_eq_true, ite_false, Option.isSome_some, ite_true]
    generalize (modW (newW s i a wj.vtTy) i fun w => { w with size := wj.size }) = t at *
    by_cases ho : ownsReferencedObject wj.size = true
    · simp only [ho, Bool.not_true, Bool.false_eq_true, ite_false]
      by_cases hl : moveCtorAllocLarge wj.size t.cfg.sbs = true
      · have hsm := small_of_not_large.2.1 hl
        simp only [hl, ite_true]
        by_cases hc : (cls a == cls wj.alloc) = true
        · simp only [hc, ite_true]
          exact post_steal h2 hij hw2 rfl hj2 rfl (Or.inr hsm)
            (fun _ _ => by show cls a = cls wj.alloc; simpa using hc)
        · simp only [hc, Bool.false_eq_true, ite_false]
          exact post_moveRealloc h2 hij hw2 rfl hj2 rfl ho hsm hp _ true (fun e => by cases e)
      · have hl' : moveCtorAllocLarge wj.size t.cfg.sbs = false := by simpa using hl
        simp only [hl', Bool.false_eq_true, ite_false]
        exact post_moveSmall h2 hij hw2 rfl hj2 rfl ho (small_of_not_large.1 hl') hp
    · have ho' : ownsReferencedObject wj.size = false := by simpa using ho
      simp only [ho', Bool.not_false, ite_true]
      exact post_steal h2 hij hw2 rfl hj2 rfl (Or.inl ho')
        (fun b hb => (not_blk_of_not_owns (h2.wok j wj hj2) ho' b hb).elim)

/-- the part of move assignment after `cleanup()` and the allocator propagation -/
theorem moveAssign_tail {s2 : State} (h2 : InvS s2) {i j : Nat} {w2 wj : Wrapper} (hij : i ≠ j)
    (hi2 : s2.wr i = some w2) (hs2 : w2.self = none) (hj2 : s2.wr j = some wj) (prop : Bool)
    (hprop : prop = true → w2.alloc = wj.alloc) {p : Loc} (hp : wj.self = some p) :
    InvS (modW
      (if (!ownsReferencedObject wj.size) = true then
          steal (modW s2 i fun w => { w with size := wj.size, vtTy := wj.vtTy }) i j
        else if moveAssignLarge wj.size
            (modW s2 i fun w => { w with size := wj.size, vtTy := wj.vtTy }).cfg.sbs = true then
          if (prop || cls (getW (modW s2 i fun w => { w with size := wj.size, vtTy := wj.vtTy }) i).alloc
                == cls wj.alloc) = true then
            steal (modW s2 i fun w => { w with size := wj.size, vtTy := wj.vtTy }) i j
          else
            moveRealloc (modW s2 i fun w => { w with size := wj.size, vtTy := wj.vtTy }) i j
              (if prop = true then
                (getW (modW s2 i fun w => { w with size := wj.size, vtTy := wj.vtTy }) i).alloc
               else wj.alloc) false
        else if wj.self.isSome = true then
          moveSmall (modW s2 i fun w => { w with size := wj.size, vtTy := wj.vtTy }) i j
        else modW s2 i fun w => { w with size := wj.size, vtTy := wj.vtTy })
      j fun w => { w with size := invalidSize }) := by
  obtain ⟨h3, hw3, hj3, _⟩ := stage_modW h2 hij hi2 hs2 hj2
    (fun w => { w with size := wj.size, vtTy := wj.vtTy }) ⟨hs2, rfl⟩
  simp only [getW, hw3, Option.getD_some]
  generalize (modW s2 i fun w => { w with size := wj.size, vtTy := wj.vtTy }) = t at *
  by_cases ho : ownsReferencedObject wj.size = true
  · simp only [ho, Bool.not_true, Bool.false_eq_true, ite_false]
    by_cases hl : moveAssignLarge wj.size t.cfg.sbs = true
    · have hsm := small_of_not_large.2.2.2 hl
      simp only [hl, ite_true]
      by_cases hc : (prop || cls w2.alloc == cls wj.alloc) = true
      · simp only [hc, ite_true]
        refine post_steal h3 hij hw3 hs2 hj3 rfl (Or.inr hsm) (fun _ _ => ?_)
        show cls w2.alloc = cls wj.alloc
        cases prop with
        | true => rw [hprop rfl]
        | false => simpa using hc
      · have hpf : prop = false := by
          cases prop with
          | true => simp at hc
          | false => rfl
        subst hpf
        simp only [hc, Bool.false_eq_true, ite_false]
        exact post_moveRealloc h3 hij hw3 hs2 hj3 rfl ho hsm hp _ false (fun _ => rfl)
    · have hl' : moveAssignLarge wj.size t.cfg.sbs = false := by simpa using hl
      simp only [hl', Bool.false_eq_true, ite_false, hp, Option.isSome_some, ite_true]
      exact post_moveSmall h3 hij hw3 hs2 hj3 rfl ho (small_of_not_large.2.2.1 hl') hp
  · have ho' : ownsReferencedObject wj.size = false := by simpa using ho
    simp only [ho', Bool.not_false, ite_true]
    exact post_steal h3 hij hw3 hs2 hj3 rfl (Or.inl ho')
      (fun b hb => (not_blk_of_not_owns (h3.wok j wj hj3) ho' b hb).elim)

theorem invS_opMoveAssign {s : State} (h : InvS s) {i j : Nat} {wi wj : Wrapper}
    (hi : s.wr i = some wi) (hj : s.wr j = some wj) : InvS (opMoveAssign s i j).1 := by
  unfold opMoveAssign
  by_cases hij : i = j
  · simp [hij]; exact h
  · simp only [hij, ite_false]
    obtain ⟨h1, ⟨w1, hw1, hs1, _⟩, hfr⟩ := inv_wCleanup h hi
    have hj1 : (wCleanup s i).wr j = some wj := by rw [hfr j (fun e => hij e.symm)]; exact hj
    simp only [getW, hj1, Option.getD_some]
    generalize wCleanup s i = u at *
    by_cases hpm : u.cfg.pocma = true
    · obtain ⟨h2, hw2, hj2, _⟩ := stage_modW h1 hij hw1 hs1 hj1
        (fun w => { w with alloc := wj.alloc }) ⟨hs1, rfl⟩
      simp only [hpm, ite_true]
      cases hp : wj.self with
      | none => simpa using h2
      | some p =>
        simp only [Option.isNone_some, Bool.false_eq_true, ite_false]
        have := moveAssign_tail h2 hij hw2 hs1 hj2 true (fun _ => rfl) hp
        simpa [getW, hp] using this
    · have hpm' : u.cfg.pocma = false := by simpa using hpm
      simp only [hpm', Bool.false_eq_true, ite_false]
      cases hp : wj.self with
      | none => simpa using h1
      | some p =>
        simp only [Option.isNone_some, Bool.false_eq_true, ite_false]
        have := moveAssign_tail h1 hij hw1 hs1 hj1 false (fun e => by cases e) hp
        simpa [getW, hp] using this

/-! ### Non-const call -/

theorem invS_opSet {s : State} (h : InvS s) {i : Nat} {w : Wrapper} (hi : s.wr i = some w)
    (v : Nat) : InvS (opSet s i v).1 := by
  unfold opSet
  simp only [getW, hi, Option.getD_some]
  cases hs : w.self with
  | none => exact h
  | some p =>
    simp only
    split
    · exact h
    · obtain ⟨o, ho, _⟩ := dispatch_own_object h hi hs
      simp only [ho]
      exact inv_emit (invS_setVal h ho { o with val := v } rfl) _

/-! ### `InvI` under the operations (chains of primitive lemmas; `dropW` needs the buffer empty,
    which the structural invariant provides) -/

theorem invI_opNewInPlace {s : State} (hS : InvS s) (hI : InvI s) {i : Nat} (hf : s.wr i = none)
    (a ty val : Nat) (thr : Bool) : InvI (opNewInPlace s i a ty val thr).1 := by
  obtain ⟨h1, hw1, _⟩ := newW_facts hS hf a 0
  have hI1 := invI_newW hI hf a 0
  unfold opNewInPlace
  cases thr with
  | true =>
    simp only [ite_true]
    obtain ⟨_, w', q2, _, q4, _⟩ := invS_allocThrow h1 hw1 rfl ty
    refine invI_dropW (invI_wDeallocate (invI_emit (invI_wAllocate hI1 _ _) _) _) ?_
    intro w hw; rw [q2] at hw; cases hw; exact q4
  | false =>
    simp only [Bool.false_eq_true, ite_false]
    exact invI_modW (invI_constructAt (invI_wAllocate hI1 _ _) _ _ _ _) _ _ (by intro w; rfl)

theorem invI_opNewCopyEnv {s : State} (hS : InvS s) (hI : InvI s) {i : Nat} (hf : s.wr i = none)
    (a k : Nat) (thr : Bool) : InvI (opNewCopyEnv s i a k thr).1 := by
  unfold opNewCopyEnv
  cases he : s.env k with
  | none => exact hI
  | some o =>
    obtain ⟨h1, hw1, _⟩ := newW_facts hS hf a 0
    have hI1 := invI_newW hI hf a 0
    simp only
    cases thr with
    | true =>
      simp only [ite_true]
      obtain ⟨_, w', q2, _, q4, _⟩ := invS_allocThrow h1 hw1 rfl o.ty
      refine invI_dropW (invI_wDeallocate (invI_emit (invI_wAllocate hI1 _ _) _) _) ?_
      intro w hw; rw [q2] at hw; cases hw; exact q4
    | false =>
      simp only [Bool.false_eq_true, ite_false]
      exact invI_modW (invI_copyConstruct (invI_wAllocate hI1 _ _) _ _) _ _ (by intro w; rfl)

theorem invI_opNewMoveEnv {s : State} (hI : InvI s) {i : Nat} (hf : s.wr i = none)
    (a k : Nat) : InvI (opNewMoveEnv s i a k).1 := by
  unfold opNewMoveEnv
  cases he : s.env k with
  | none => exact hI
  | some o =>
    have hI1 := invI_newW hI hf a 0
    simp only
    exact invI_modW (invI_moveConstruct (invI_wAllocate hI1 _ _) _ _) _ _ (by intro w; rfl)

theorem invI_opNewPtr {s : State} (hI : InvI s) {i : Nat} (hf : s.wr i = none)
    (a k : Nat) (c : Bool) : InvI (opNewPtr s i a k c).1 := by
  unfold opNewPtr
  cases he : s.env k with
  | none => exact hI
  | some o => exact invI_modW (invI_newW hI hf a 0) _ _ (by intro w; rfl)

theorem invI_opCopyCtorWith {s : State} (hS : InvS s) (hI : InvI s) {i j : Nat} {wj : Wrapper}
    (hf : s.wr i = none) (hj : s.wr j = some wj) (a : Nat) (thr : Bool) :
    InvI (opCopyCtorWith s i j a thr).1 := by
  have hij : i ≠ j := by intro e; subst e; rw [hf] at hj; cases hj
  obtain ⟨h1, hw1, hfr⟩ := newW_facts hS hf a (getW s j).vtTy
  have hj1 : (newW s i a (getW s j).vtTy).wr j = some wj := by
    rw [hfr j (fun e => hij e.symm)]; exact hj
  obtain ⟨q1, q2, q3⟩ := invS_doCopyAssign h1 hw1 rfl hj1 hij false thr
  have hI2 := invI_doCopyAssign (invI_newW hI hf a (getW s j).vtTy) false i j thr
  unfold opCopyCtorWith
  simp only
  rcases q3 with q3 | q3
  · obtain ⟨w', r1, r2⟩ := q2 q3
    simp only [q3, beq_self_eq_true, ite_true]
    refine invI_dropW hI2 ?_
    intro w hw; rw [r1] at hw; cases hw; exact (q1.wok i w' r1).1 r2
  · have : ((Alpaqa.C16.doCopyAssign (newW s i a (getW s j).vtTy) false i j thr).2 == Out.excCopy)
        = false := by rw [q3]; rfl
    simp only [this, Bool.false_eq_true, ite_false]
    exact hI2

theorem invI_opCopyAssign {s : State} (hI : InvI s) (i j : Nat) (thr : Bool) :
    InvI (opCopyAssign s i j thr).1 := by
  unfold opCopyAssign
  split
  · exact hI
  · simp only []
    refine invI_doCopyAssign ?_ _ _ _ _
    exact invI_modW (invI_wCleanup hI _) _ _ (by intro w; rfl)

/-- the branch structure shared by the move operations, on a state `t` -/
theorem invI_moveBranches {t : State} (hI : InvI t) (i j : Nat) {c1 c2 c3 c4 : Prop}
    [Decidable c1] [Decidable c2] [Decidable c3] [Decidable c4] (a : Nat) (via : Bool) :
    InvI (if c1 then steal t i j
        else if c2 then (if c3 then steal t i j else moveRealloc t i j a via)
        else if c4 then moveSmall t i j else t) := by
  split
  · exact invI_steal hI _ _
  · split
    · split
      · exact invI_steal hI _ _
      · exact invI_moveRealloc hI _ _ _ _
    · split
      · exact invI_moveSmall hI _ _
      · exact hI

theorem invI_opMoveCtor {s : State} (hI : InvI s) {i : Nat} (hf : s.wr i = none) (j : Nat) :
    InvI (opMoveCtor s i j).1 := by
  unfold opMoveCtor
  simp only
  have hI2 := invI_modW (invI_newW hI hf (getW s j).alloc (getW s j).vtTy) i
    (fun w => { w with size := (getW s j).size }) (by intro w; rfl)
  refine invI_modW ?_ _ _ (by intro w; rfl)
  split
  · exact invI_steal hI2 _ _
  · split
    · exact invI_moveSmall hI2 _ _
    · exact hI2

theorem invI_opMoveCtorAlloc {s : State} (hI : InvI s) {i : Nat} (hf : s.wr i = none) (j a : Nat) :
    InvI (opMoveCtorAlloc s i j a).1 := by
  unfold opMoveCtorAlloc
  simp only []
  have hI1 := invI_newW hI hf a (getW s j).vtTy
  generalize newW s i a (getW s j).vtTy = s1 at hI1 ⊢
  split
  · exact hI1
  · have hI2 : InvI (modW s1 i fun w => { w with size := (getW s j).size }) :=
      invI_modW hI1 _ _ (by intro w; rfl)
    generalize (modW s1 i fun w => { w with size := (getW s j).size }) = t at hI2 ⊢
    refine invI_modW ?_ _ _ (by intro w; rfl)
    exact invI_moveBranches hI2 i j _ _

theorem invI_opMoveAssign {s : State} (hI : InvI s) (i j : Nat) : InvI (opMoveAssign s i j).1 := by
  unfold opMoveAssign
  split
  · exact hI
  · simp only []
    have hI1 := invI_wCleanup hI i
    generalize wCleanup s i = u at hI1 ⊢
    have hI2 : InvI (if u.cfg.pocma = true then
        modW u i fun w => { w with alloc := (getW u j).alloc } else u) := by
      split
      · exact invI_modW hI1 _ _ (by intro w; rfl)
      · exact hI1
    generalize (if u.cfg.pocma = true then
        modW u i fun w => { w with alloc := (getW u j).alloc } else u) = s2 at hI2 ⊢
    split
    · exact hI2
    · have hI3 : InvI (modW s2 i fun w => { w with size := (getW u j).size, vtTy := (getW u j).vtTy }) :=
        invI_modW hI2 _ _ (by intro w; rfl)
      generalize (modW s2 i fun w => { w with size := (getW u j).size, vtTy := (getW u j).vtTy }) = t
        at hI3 ⊢
      refine invI_modW ?_ _ _ (by intro w; rfl)
      exact invI_moveBranches hI3 i j _ _

theorem invI_opDel {s : State} (hS : InvS s) (hI : InvI s) {i : Nat} {w : Wrapper}
    (hw : s.wr i = some w) : InvI (opDel s i).1 := by
  obtain ⟨h1, ⟨w', hw', hs', _⟩, _⟩ := inv_wCleanup hS hw
  unfold opDel
  refine invI_dropW (invI_wCleanup hI i) ?_
  intro w2 hw2; rw [hw'] at hw2; cases hw2; exact (h1.wok i w' hw').1 hs'

theorem invI_deref {s : State} (hI : InvI s) (w : Wrapper) : InvI (deref s w).1 := by
  unfold deref
  split
  · exact hI
  · split
    · exact invI_emit hI _
    · exact invI_fail hI _

theorem invI_opAccess {s : State} (hI : InvI s) (gs : List Guard) (i ty : Nat) :
    InvI (opAccess s gs i ty).1 := by
  unfold opAccess
  simp only
  split
  · exact hI
  · split
    · exact invI_deref hI _
    · exact hI

theorem invI_opSet {s : State} (hI : InvI s) (i v : Nat) : InvI (opSet s i v).1 := by
  unfold opSet
  simp only
  split
  · exact hI
  · split
    · exact hI
    · split
      · rename_i o ho
        exact invI_emit (invI_setObjVal hI ho { o with val := v } rfl) _
      · exact invI_fail hI _

/-! ### Small facts about `doCopyAssign` used by the value-semantics theorems -/

theorem modW_wr_other (u : State) (i : Nat) (f : Wrapper → Wrapper) {j : Nat} (hji : j ≠ i) :
    (modW u i f).wr j = u.wr j := by
  simp only [modW]; cases u.wr i <;> simp [upd, hji]

theorem heapFree_wr (u : State) (a : Nat) (p : Option Loc) : (heapFree u a p).wr = u.wr := by
  unfold heapFree
  split
  · simp only []
    split
    · simp
    · split
      · simp
      · split
        · simp
        · rfl
  · simp

theorem wAllocate_wr_other (u : State) (i sz : Nat) {j : Nat} (hji : j ≠ i) :
    (wAllocate u i sz).wr j = u.wr j := by
  unfold wAllocate
  split
  · exact modW_wr_other _ _ _ hji
  · simp only []; rw [modW_wr_other _ _ _ hji]; rfl

theorem wDeallocate_wr_other (u : State) (i : Nat) {j : Nat} (hji : j ≠ i) :
    (wDeallocate u i).wr j = u.wr j := by
  unfold wDeallocate
  simp only []
  rw [modW_wr_other _ _ _ hji]
  split
  · rw [heapFree_wr]
  · rfl

theorem constructAt_wr_other (u : State) (l : Loc) (v t : Nat) (ev : Nat → Ev) {j : Nat}
    (hl : l ≠ .buf j) : (constructAt u l v t ev).wr j = u.wr j := by
  unfold constructAt
  split
  · simp
  · split
    · simp
    · cases l with
      | buf k =>
        have : j ≠ k := fun e => hl (by rw [e])
        simp only [setObj, emit]
        exact modW_wr_other _ _ _ this
      | blk b => rfl
      | env k => rfl

theorem fillLoc_ne_buf (u : State) (i sz : Nat) {j : Nat} (hji : j ≠ i) :
    fillLoc u i sz ≠ .buf j := by
  unfold fillLoc
  split
  · intro e; cases e; exact hji rfl
  · intro e; cases e

/-- `do_copy_assign` into slot `i` leaves every other slot's wrapper record as it was. -/
theorem doCopyAssign_wr_other {s : State} {i : Nat} {wi : Wrapper} (hi : s.wr i = some wi)
    (k : Nat) {j : Nat} (hji : j ≠ i) (c thr : Bool) :
    (Alpaqa.C16.doCopyAssign s c i k thr).1.wr j = s.wr j := by
  unfold Alpaqa.C16.doCopyAssign
  simp only []
  have e0 : ∃ s0 wi0, (if (c && s.cfg.pocca) = true then
      modW s i fun w => { w with alloc := (getW s k).alloc } else s) = s0 ∧ s0.wr j = s.wr j ∧
      s0.wr i = some wi0 := by
    split
    · exact ⟨_, { wi with alloc := (getW s k).alloc }, rfl, modW_wr_other _ _ _ hji,
        by rw [modW_wr hi]; simp⟩
    · exact ⟨s, wi, rfl, rfl, hi⟩
  obtain ⟨s0, wi0, e, e1, hi0⟩ := e0
  rw [e]
  split
  · exact e1
  · split
    · rw [modW_wr_other _ _ _ hji]; exact e1
    · split
      · rw [wDeallocate_wr_other _ _ hji]
        show (wAllocate s0 i _).wr j = _
        rw [wAllocate_wr_other _ _ _ hji]; exact e1
      · rw [wAllocate_self hi0]
        unfold copyConstruct
        split
        · split
          · rename_i hq _ _ _
            cases hq
            show (constructAt _ _ _ _ _).wr j = _
            rw [constructAt_wr_other _ _ _ _ _ (fillLoc_ne_buf _ _ _ hji),
              wAllocate_wr_other _ _ _ hji]; exact e1
          · simp only [fail_wr]; rw [wAllocate_wr_other _ _ _ hji]; exact e1
        · simp only [fail_wr]; rw [wAllocate_wr_other _ _ _ hji]; exact e1

theorem doCopyAssign_snd_ok (s : State) (c : Bool) (i k : Nat) :
    (Alpaqa.C16.doCopyAssign s c i k false).2 = .ok := by
  unfold Alpaqa.C16.doCopyAssign
  simp only []
  split
  · rfl
  · split
    · rfl
    · simp

theorem doCopyAssign_snd_exc {s : State} (c : Bool) (i k : Nat) {p : Loc}
    (hp : (getW s k).self = some p) (ho : ownsReferencedObject (getW s k).size = true) :
    (Alpaqa.C16.doCopyAssign s c i k true).2 = .excCopy := by
  unfold Alpaqa.C16.doCopyAssign
  simp [operatorBool, hp, ho]

/-- copying a reference wrapper: sizes and pointer are copied, nothing else happens -/
theorem doCopyAssign_ref {s : State} (i k : Nat) (thr : Bool) {p : Loc}
    (hp : (getW s k).self = some p) (hn : ownsReferencedObject (getW s k).size = false) :
    Alpaqa.C16.doCopyAssign s false i k thr =
      (modW s i fun w => { w with size := (getW s k).size, self := (getW s k).self }, .ok) := by
  unfold Alpaqa.C16.doCopyAssign
  simp [operatorBool, hp, hn]

end Alpaqa.Proofs.C16
