/-
  Event (tick) accounting of the ZeroFPR loop model (`Alpaqa/Model/Zerofpr.lean`), any carrier:
  how many oracle calls each stage makes, and the bound on the total number of events of a solve once
  a stop request is visible (for a flag that is never lowered).  Used by `Props/C19_Zerofpr.lean`.
-/
import Mathlib.Tactic.SplitIfs
import Mathlib.Tactic.Basic
import Alpaqa.Proofs.ZerofprInv

namespace Alpaqa.Zerofpr
open Alpaqa Alpaqa.Gen
set_option linter.unusedSectionVars false
set_option linter.unusedVariables false

variable {α D : Type} [Add α] [Sub α] [Mul α] [Div α] [Neg α] [LT α] [LE α] [DecidableLT α]
  [DecidableLE α] [BEq α] [RealLike α] [NatCast α] [OfScientific α]
  [OfNat α 0] [OfNat α 1] [OfNat α 2] [OfNat α 100]

/-- The state a pass of the line-search body ends in. -/
def Pass.state : Pass α D → LS α D
  | .done s => s
  | .again s => s

theorem epsTicks_le (c : PANOCStopCrit) : epsTicks c ≤ 1 := by cases c <;> simp [epsTicks]

theorem lsRecompute_tick (P : Problem α) (c : Iterate α) (px : ProxIterate α) (q : Vec α)
    (s : LS α D) :
    s.tick ≤ (lsRecompute P c px q s).tick ∧ (lsRecompute P c px q s).tick ≤ s.tick + 1 := by
  unfold lsRecompute
  split_ifs <;> constructor <;> (try simp only []) <;> omega

theorem lsUpdateInCandidate_tick (dir : Direction D α) (pr : Params α) (c : Iterate α)
    (px : ProxIterate α) (s : LS α D) :
    s.tick ≤ (lsUpdateInCandidate dir pr c px s).tick ∧
    (lsUpdateInCandidate dir pr c px s).tick ≤ s.tick + 1 := by
  unfold lsUpdateInCandidate
  split_ifs <;> constructor <;> (try simp only []) <;> omega

/-- One pass of the line-search body makes at most 4 calls (step recomputation, prox step, `ψ(x̂)`,
    direction update in the candidate). -/
theorem lsPass_tick (P : Problem α) (dir : Direction D α) (pr : Params α) (c : Iterate α)
    (px : ProxIterate α) (q : Vec α) (tauInit : α) (s : LS α D) :
    s.tick ≤ (lsPass P dir pr c px q tauInit s).state.tick ∧
    (lsPass P dir pr c px q tauInit s).state.tick ≤ s.tick + 4 := by
  have h2 := lsRecompute_tick P c px q s
  have h3 := lsUpdateInCandidate_tick dir pr c px
    { lsRecompute P c px q s with
      next := evalCostInProx P (evalProxGradStep P (lsRecompute P c px q s).next),
      tick := (lsRecompute P c px q s).tick + 2 }
  simp only [] at h3
  unfold lsPass
  simp only []
  split_ifs <;> constructor <;> simp only [Pass.state] <;> omega

/-- With a flag that is never lowered and visible from tick `t₀` on, the line search never runs past
    `t₀ + 3`: a pass is only started while the flag is invisible (tick `< t₀`) and makes at most 4
    calls. -/
theorem lineSearch_tick_bound (P : Problem α) (dir : Direction D α) (pr : Params α)
    (stop : Nat → Bool) (hm : ∀ t t', t ≤ t' → stop t = true → stop t' = true) (t0 : Nat)
    (h0 : stop t0 = true) (c : Iterate α) (px : ProxIterate α) (q : Vec α) (tauInit : α) (f : Nat)
    (s : LS α D) (hs : s.tick ≤ t0 + 3) :
    (lineSearch P dir pr stop c px q tauInit f s).tick ≤ t0 + 3 := by
  induction f generalizing s with
  | zero => simpa [lineSearch] using hs
  | succ f ih =>
    unfold lineSearch
    by_cases hst : stop s.tick
    · simpa [hst] using hs
    · simp only [hst, Bool.false_eq_true, if_false]
      have hlt : s.tick < t0 := by
        apply Nat.lt_of_not_le
        intro hc
        exact hst (hm t0 s.tick hc h0)
      have hp := lsPass_tick P dir pr c px q tauInit s
      cases hpass : lsPass P dir pr c px q tauInit s with
      | done s' => rw [hpass] at hp; simp only [Pass.state] at hp; simp only []; omega
      | again s' =>
        rw [hpass] at hp; simp only [Pass.state] at hp
        exact ih s' (by omega)

theorem lineSearch_tick_mono (P : Problem α) (dir : Direction D α) (pr : Params α)
    (stop : Nat → Bool) (c : Iterate α) (px : ProxIterate α) (q : Vec α) (tauInit : α) (f : Nat)
    (s : LS α D) : s.tick ≤ (lineSearch P dir pr stop c px q tauInit f s).tick := by
  induction f generalizing s with
  | zero => simp [lineSearch]
  | succ f ih =>
    unfold lineSearch
    split_ifs
    · exact Nat.le_refl _
    · have hp := lsPass_tick P dir pr c px q tauInit s
      cases hpass : lsPass P dir pr c px q tauInit s with
      | done s' => rw [hpass] at hp; simp only [Pass.state] at hp; exact hp.1
      | again s' =>
        rw [hpass] at hp; simp only [Pass.state] at hp
        exact Nat.le_trans hp.1 (ih s')

/-- The direction stage makes at most 4 calls (`initialize`, `has_initial_direction`, `apply`,
    `reset`). -/
theorem directionStage_tick (dir : Direction D α) (s : St α D) :
    s.tick ≤ (directionStage dir s).2.1 ∧ (directionStage dir s).2.1 ≤ s.tick + 4 := by
  unfold directionStage
  simp only []
  split_ifs <;> constructor <;> simp only [] <;> omega

/-- The update stage makes at most 3 calls (`changed_γ`, the recomputed prox step, `update`). -/
theorem updateStage_tick (P : Problem α) (dir : Direction D α) (pr : Params α) (c : Iterate α)
    (px : ProxIterate α) (ls : LS α D) :
    ls.tick ≤ (updateStage P dir pr c px ls).2.2.2.1 ∧
    (updateStage P dir pr c px ls).2.2.2.1 ≤ ls.tick + 3 := by
  unfold updateStage
  simp only []
  split_ifs <;> constructor <;> simp only [] <;> omega

theorem iterBody_completed_tick (P : Problem α) (dir : Direction D α) (pr : Params α)
    (stop : Nat → Bool) (s : St α D) (eps : α) (h : stop (lsOf P dir pr stop s).tick = false) :
    (iterBody P dir pr stop s eps).tick =
      (updateStage P dir pr s.curr s.prox (lsOf P dir pr stop s)).2.2.2.1 + 1 := by
  unfold iterBody
  simp only [h, Bool.false_eq_true, if_false]

theorem lsOf_tick_ge (P : Problem α) (dir : Direction D α) (pr : Params α) (stop : Nat → Bool)
    (s : St α D) : s.tick ≤ (lsOf P dir pr stop s).tick := by
  have hd := directionStage_tick dir s
  have := lineSearch_tick_mono P dir pr stop s.curr s.prox (directionStage dir s).2.2.1
    (directionStage dir s).2.2.2.1 pr.lsFuel
    (lsInit pr s (directionStage dir s).1 (directionStage dir s).2.1 (directionStage dir s).2.2.2.1)
  unfold lsOf
  exact Nat.le_trans hd.1 this

/-- Tick bound for one pass of the body when the flag (never lowered) becomes visible at `t₀`. -/
theorem iterBody_tick_bound (P : Problem α) (dir : Direction D α) (pr : Params α)
    (stop : Nat → Bool) (hm : ∀ t t', t ≤ t' → stop t = true → stop t' = true) (t0 : Nat)
    (h0 : stop t0 = true) (s : St α D) (eps : α) (hs : s.tick < t0) :
    (iterBody P dir pr stop s eps).tick ≤ t0 + 3 := by
  have hd := directionStage_tick dir s
  have hl : (lsOf P dir pr stop s).tick ≤ t0 + 3 := by
    unfold lsOf
    exact lineSearch_tick_bound P dir pr stop hm t0 h0 _ _ _ _ _ _ (by simp only [lsInit]; omega)
  by_cases hst : stop (lsOf P dir pr stop s).tick = true
  · rw [(iterBody_interrupted P dir pr stop s eps hst).2.2.2.2.2]; exact hl
  · have hst' : stop (lsOf P dir pr stop s).tick = false := by simpa using hst
    have hlt : (lsOf P dir pr stop s).tick < t0 := by
      apply Nat.lt_of_not_le
      intro hc
      exact hst (hm t0 _ hc h0)
    have hu := updateStage_tick P dir pr s.curr s.prox (lsOf P dir pr stop s)
    rw [iterBody_completed_tick P dir pr stop s eps hst']
    omega

/-- Tick bound for the main loop: with a flag that is never lowered and visible from tick `t₀` on, a
    solve that is at a loop head at tick `s.tick` ends at tick `≤ max (s.tick + 4) (t₀ + 7)`.
    `4` = one head (`∇ψ(x̂)`, `p̂`, unit-step prox of the criterion: `≤ 3`) + the final callback;
    `7` = at most 3 calls made by the stage during which the flag became visible after tick `t₀`
    (direction stage `≤ 4` calls starting before `t₀`; one line-search pass `≤ 4`; update stage and
    callback `≤ 4`), plus that head and the final callback. -/
theorem mainLoop_ticks_after_stop (P : Problem α) (dir : Direction D α) (pr : Params α)
    (stop : Nat → Bool) (hm : ∀ t t', t ≤ t' → stop t = true → stop t' = true) (t0 : Nat)
    (h0 : stop t0 = true) (oot : Bool) (x0 y Sig errz0 : Vec α) (fuel : Nat) (s : St α D) :
    (mainLoop P dir pr stop oot x0 y Sig errz0 fuel s).ticks ≤ max (s.tick + 4) (t0 + 7) := by
  induction fuel generalizing s with
  | zero =>
    simp only [mainLoop]
    have := (exitBlock_spec pr s s.stats.eps .Exception x0 y Sig errz0).2.2.2.2.2.2.1
    show (exitBlock pr s s.stats.eps .Exception x0 y Sig errz0).ticks ≤ _
    omega
  | succ f ih =>
    have hs := headStep_same P pr stop oot s
    have he := epsTicks_le pr.stopCrit
    rw [mainLoop]
    try simp only []
    split_ifs with hb
    · rw [(exitBlock_spec pr _ _ _ x0 y Sig errz0).2.2.2.2.2.2.1, hs.2.2.2.2.2]
      omega
    · have hbusy : (headStep P pr stop oot s).2.2 = .Busy := by simpa using hb
      have hns : stop (s.tick + 2 + epsTicks pr.stopCrit) = false := by
        have := (headStep_spec P pr stop oot s).2.2
        rw [hbusy] at this
        exact (chain_busy_only_if _ _ _ _ _ _ _ _ this.symm).2
      have hlt : (headStep P pr stop oot s).1.tick < t0 := by
        rw [hs.2.2.2.2.2]
        apply Nat.lt_of_not_le
        intro hc
        have := hm t0 _ hc h0
        rw [hns] at this; exact absurd this (by decide)
      have hb' := iterBody_tick_bound P dir pr stop hm t0 h0 (headStep P pr stop oot s).1
        (headStep P pr stop oot s).2.1 hlt
      have := ih (iterBody P dir pr stop (headStep P pr stop oot s).1 (headStep P pr stop oot s).2.1)
      omega

end Alpaqa.Zerofpr
