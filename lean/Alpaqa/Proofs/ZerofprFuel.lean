/-
  Fuel sufficiency for the ZeroFPR loop model (`Alpaqa/Model/Zerofpr.lean`) over a linearly ordered
  field: the model's explicit loop fuel (`Params.lsFuel` for the initial step-size loop and the
  line-search loop, `max_iter + 2` for the main loop) never runs out — `fuelOut = false` is a
  *theorem*, under explicit hypotheses on the parameters (`FuelOK`):

  * step-size backtracking `γ /= 2; L *= 2` is only entered while `L < L_max`: with
    `L_max ≤ L·2^N` at most `N` backtracks follow;
  * the line-search coefficient `τ` starts at 1, is halved while `τ/2 ≥ min_linesearch_coefficient`
    and is set to 0 below that: with `1 < min_linesearch_coefficient·2^M` at most `M` consecutive
    halvings; every step-size backtrack resets `τ` to its initial value, a failed accelerated step
    (`τ := 0`, `L` reset to the current iterate's) happens at most once (afterwards `τ = 0` for good);
    in all at most `N·(M+2) + M` passes continue, so `N·(M+2) + M < lsFuel` suffices;
  * the main loop: a pass either advances `k` (`Busy` only if `k ≠ max_iter`) or was interrupted in
    its line search, and then — for a stop flag that is never lowered — the next head exits.

  What bounds the loops in the C++ is exactly this: nothing else (no iteration cap) ends the
  `while` loops, so for `min_linesearch_coefficient ≤ 0` or `L ≤ 0` the real loops need not terminate in
  exact arithmetic either; the hypotheses below are the honest ones.
-/
import Mathlib.Algebra.Order.Field.Basic
import Mathlib.Tactic.Ring
import Mathlib.Tactic.Linarith
import Alpaqa.Proofs.Basic
import Alpaqa.Proofs.ZerofprStep

namespace Alpaqa.Zerofpr
open Alpaqa Alpaqa.Gen
set_option linter.unusedSectionVars false
set_option linter.unusedVariables false

variable {α D : Type} [Field α] [LinearOrder α] [IsStrictOrderedRing α] [RealLike α]

/-! ### The initial step-size loop -/

/-- `L_max ≤ L·2^N` ⇒ the initial `while (… L < L_max && qub_violated)` loop makes at most `N`
    passes: fuel `N + 1` suffices. -/
theorem initQub_fuel (P : Problem α) (pr : Params α) (stop : Nat → Bool) (N : Nat) :
    ∀ (f : Nat) (c : Iterate α) (t b : Nat), pr.Lmax ≤ c.L * 2 ^ N → N < f →
      (initQub P pr stop f c t b).2.2.2 = false := by
  induction N with
  | zero =>
    intro f c t b hL hf
    cases f with
    | zero => omega
    | succ f =>
      unfold initQub
      split_ifs with h1 h2
      · rfl
      · exfalso
        simp only [Bool.and_eq_true, decide_eq_true_eq] at h2
        simp only [pow_zero, mul_one] at hL
        exact absurd h2.1 (not_lt.mpr hL)
      · rfl
  | succ N ih =>
    intro f c t b hL hf
    cases f with
    | zero => omega
    | succ f =>
      unfold initQub
      split_ifs with h1 h2
      · rfl
      · apply ih
        · rw [(evalStep_gammaL P _).2]
          simp only []
          rw [pow_succ] at hL
          linarith [hL, mul_assoc c.L 2 ((2 : α) ^ N), mul_comm ((2 : α) ^ N) 2]
        · omega
      · rfl

/-! ### The line-search loop -/

/-- Potential of a line-search state: `n` bounds the number of passes that can still end in
    `continue`.  Phase B (`τ = 0`): only step-size backtracks remain, `r` of them.  Phase A
    (`τ > 0`): `r` step-size backtracks, each followed by up to `M` halvings of `τ`, then possibly
    the fall-back to `τ = 0` with `L` reset (`N` more backtracks). -/
def LsPot (pr : Params α) (N M : Nat) (s : LS α D) (n : Nat) : Prop :=
  (s.tau = 0 ∧ ∃ r, r ≤ N ∧ pr.Lmax ≤ s.next.L * 2 ^ r ∧ r ≤ n) ∨
  (0 < s.tau ∧ ∃ r m, r ≤ N ∧ 1 ≤ m ∧ m ≤ M ∧ pr.Lmax ≤ s.next.L * 2 ^ r ∧
    s.tau < pr.minLsCoef * 2 ^ m ∧ N + r * (M + 1) + m ≤ n)

theorem pow_step {L Lmax : α} {r : Nat} (h : Lmax ≤ L * 2 ^ r) (hlt : L < Lmax) :
    1 ≤ r ∧ Lmax ≤ L * 2 * 2 ^ (r - 1) := by
  cases r with
  | zero => simp only [pow_zero, mul_one] at h; exact absurd hlt (not_lt.mpr h)
  | succ r =>
    refine ⟨by omega, ?_⟩
    simp only [Nat.add_sub_cancel]
    rw [pow_succ] at h
    linarith [h, mul_assoc L 2 ((2 : α) ^ r), mul_comm ((2 : α) ^ r) 2]

/-- The three ways a pass of the line-search body ends in `continue`: a failed accelerated step
    (`τ := 0`, `L` reset to the current iterate's), a step-size backtrack (`L *= 2`, `τ` reset to
    `τ_init` if it was positive), a line-search backtrack (`τ /= 2`, or `0` below `τ_min`). -/
theorem lsPass_again_cases (P : Problem α) (dir : Direction D α) (pr : Params α) (c : Iterate α)
    (px : ProxIterate α) (q : Vec α) (tauInit : α) (s s' : LS α D)
    (hp : lsPass P dir pr c px q tauInit s = .again s') :
    (0 < s.tau ∧ s'.tau = 0 ∧ s'.next.L = c.L) ∨
    (s.next.L < pr.Lmax ∧ s'.next.L = s.next.L * 2 ∧
      s'.tau = (if s.tau > 0 then tauInit else s.tau)) ∨
    (0 < s.tau ∧ s'.next.L = s.next.L ∧
      s'.tau = (if s.tau / 2 < pr.minLsCoef then 0 else s.tau / 2)) := by
  have h1 := lsRecompute_same P c px q s
  unfold lsPass at hp
  simp only [] at hp
  generalize lsRecompute P c px q s = s1 at h1 hp
  have hu := lsUpdateInCandidate_same dir pr c px
    { s1 with next := evalCostInProx P (evalProxGradStep P s1.next), tick := s1.tick + 2 }
  have hτ1 : s1.tau = s.tau := h1.2.2.2
  have hL1 : s1.next.L = s.next.L := h1.2.2.1
  split at hp
  · next ha =>
    injection hp with hp; subst hp
    simp only [Bool.and_eq_true, decide_eq_true_eq] at ha
    exact .inl ⟨by rw [← hτ1]; exact ha.1, rfl, rfl⟩
  · split at hp
    · next hb =>
      injection hp with hp; subst hp
      simp only [Bool.and_eq_true, decide_eq_true_eq] at hb
      refine .inr (.inl ⟨by rw [← hL1]; exact hb.1, ?_, ?_⟩)
      · show s1.next.L * 2 = s.next.L * 2
        rw [hL1]
      · show (if s1.tau > 0 then tauInit else s1.tau) = _
        rw [hτ1]
    · split at hp
      · next hc =>
        injection hp with hp; subst hp
        simp only [Bool.and_eq_true, decide_eq_true_eq] at hc
        have hτu : (lsUpdateInCandidate dir pr c px
            { s1 with next := evalCostInProx P (evalProxGradStep P s1.next),
                      tick := s1.tick + 2 }).tau = s.tau := by rw [hu.2.2]; exact hτ1
        refine .inr (.inr ⟨by rw [← hτu]; exact hc.1, ?_, ?_⟩)
        · show (lsUpdateInCandidate dir pr c px _).next.L = s.next.L
          rw [hu.1]; exact hL1
        · show (if (lsUpdateInCandidate dir pr c px _).tau / 2 < pr.minLsCoef then 0
                else (lsUpdateInCandidate dir pr c px _).tau / 2) = _
          rw [hτu]
      · cases hp

/-- A pass of the line-search body that ends in `continue` strictly decreases the potential. -/
theorem lsPass_again_pot (P : Problem α) (dir : Direction D α) (pr : Params α) (c : Iterate α)
    (px : ProxIterate α) (q : Vec α) (tauInit : α) (N M : Nat)
    (hN : pr.Lmax ≤ c.L * 2 ^ N)
    (hti : tauInit = 0 ∨ (0 < tauInit ∧ tauInit < pr.minLsCoef * 2 ^ M))
    (s s' : LS α D) (n : Nat) (h : LsPot pr N M s n)
    (hp : lsPass P dir pr c px q tauInit s = .again s') :
    1 ≤ n ∧ LsPot pr N M s' (n - 1) := by
  rcases lsPass_again_cases P dir pr c px q tauInit s s' hp with
    ⟨hpos, hτ', hL'⟩ | ⟨hlt, hL', hτ'⟩ | ⟨hpos, hL', hτ'⟩
  · -- failed accelerated step: τ := 0, L := curr.L
    rcases h with ⟨h0, _⟩ | ⟨_, r, m, hr, hm1, hmM, hL, hτ, hn⟩
    · rw [h0] at hpos; exact absurd hpos (lt_irrefl _)
    · exact ⟨by omega, .inl ⟨hτ', N, le_refl _, by rw [hL']; exact hN, by omega⟩⟩
  · -- step-size backtrack
    rcases h with ⟨h0, r, hr, hL, hn⟩ | ⟨hpos, r, m, hr, hm1, hmM, hL, hτ, hn⟩
    · obtain ⟨hr1, hLs⟩ := pow_step hL hlt
      refine ⟨by omega, .inl ⟨?_, r - 1, by omega, by rw [hL']; exact hLs, by omega⟩⟩
      rw [hτ', h0]; simp
    · obtain ⟨hr1, hLs⟩ := pow_step hL hlt
      have hτi : s'.tau = tauInit := by rw [hτ']; simp [hpos]
      have hmul : (r - 1) * (M + 1) + (M + 1) = r * (M + 1) := by
        have : r = (r - 1) + 1 := by omega
        conv_rhs => rw [this, Nat.add_mul, Nat.one_mul]
      rcases hti with hti | ⟨hti0, htiM⟩
      · refine ⟨by omega, .inl ⟨by rw [hτi, hti], r - 1, by omega, by rw [hL']; exact hLs, ?_⟩⟩
        have : r ≤ r * (M + 1) := Nat.le_mul_of_pos_right _ (by omega)
        omega
      · exact ⟨by omega, .inr ⟨by rw [hτi]; exact hti0, r - 1, M, by omega, by omega, le_refl _,
          by rw [hL']; exact hLs, by rw [hτi]; exact htiM, by omega⟩⟩
  · -- line-search backtrack
    rcases h with ⟨h0, _⟩ | ⟨_, r, m, hr, hm1, hmM, hL, hτ, hn⟩
    · rw [h0] at hpos; exact absurd hpos (lt_irrefl _)
    · by_cases hd : s.tau / 2 < pr.minLsCoef
      · rw [if_pos hd] at hτ'
        refine ⟨by omega, .inl ⟨hτ', r, hr, by rw [hL']; exact hL, ?_⟩⟩
        have : r ≤ r * (M + 1) := Nat.le_mul_of_pos_right _ (by omega)
        omega
      · rw [if_neg hd] at hτ'
        have hm2 : 2 ≤ m := by
          by_contra hlt
          have hm : m = 1 := by omega
          rw [hm, pow_one] at hτ
          exact hd (by linarith)
        refine ⟨by omega, .inr ⟨by rw [hτ']; linarith, r, m - 1, hr, by omega, by omega,
          by rw [hL']; exact hL, ?_, by omega⟩⟩
        rw [hτ']
        have : m = (m - 1) + 1 := by omega
        rw [this, pow_succ] at hτ
        linarith [hτ, mul_assoc pr.minLsCoef ((2 : α) ^ (m - 1)) 2]

/-- **The line-search fuel suffices**: from a state of potential `n`, fuel `n + 1` is enough. -/
theorem lineSearch_fuel (P : Problem α) (dir : Direction D α) (pr : Params α) (stop : Nat → Bool)
    (c : Iterate α) (px : ProxIterate α) (q : Vec α) (tauInit : α) (N M : Nat)
    (hN : pr.Lmax ≤ c.L * 2 ^ N)
    (hti : tauInit = 0 ∨ (0 < tauInit ∧ tauInit < pr.minLsCoef * 2 ^ M)) :
    ∀ (fuel : Nat) (s : LS α D) (n : Nat), LsPot pr N M s n → n < fuel → s.fuelOut = false →
      (lineSearch P dir pr stop c px q tauInit fuel s).fuelOut = false := by
  intro fuel
  induction fuel with
  | zero => intro s n _ hn; omega
  | succ f ih =>
    intro s n h hn hf
    unfold lineSearch
    split_ifs with hst
    · exact hf
    · cases hpass : lsPass P dir pr c px q tauInit s with
      | done s' =>
        simp only []
        rw [(lsPass_done P dir pr c px q tauInit s s' hpass).2.2]; exact hf
      | again s' =>
        simp only []
        have hp := lsPass_again_pot P dir pr c px q tauInit N M hN hti s s' n h hpass
        exact ih s' (n - 1) hp.2 (by omega)
          (by rw [lsPass_again P dir pr c px q tauInit s s' hpass]; exact hf)

/-- The `τ_init` handed to the line search is 0 or 1. -/
theorem directionStage_tau (dir : Direction D α) (s : St α D) :
    (directionStage dir s).2.2.2.1 = 0 ∨ (directionStage dir s).2.2.2.1 = 1 := by
  unfold directionStage
  simp only []
  split_ifs <;> simp

/-- The line search never lowers `L` below the current iterate's (every change is a doubling or a
    reset to the current iterate's value). -/
theorem lsPass_L_ge (P : Problem α) (dir : Direction D α) (pr : Params α) (c : Iterate α)
    (px : ProxIterate α) (q : Vec α) (tauInit : α) (s : LS α D) (hc : 0 < c.L)
    (h : c.L ≤ s.next.L) : c.L ≤ (lsPass P dir pr c px q tauInit s).st.next.L := by
  have h1 := lsRecompute_same P c px q s
  have hu := lsUpdateInCandidate_same dir pr c px
    { lsRecompute P c px q s with
      next := evalCostInProx P (evalProxGradStep P (lsRecompute P c px q s).next),
      tick := (lsRecompute P c px q s).tick + 2 }
  have h2 : c.L ≤ (evalCostInProx P (evalProxGradStep P (lsRecompute P c px q s).next)).L := by
    show c.L ≤ (lsRecompute P c px q s).next.L
    rw [h1.2.2.1]; exact h
  unfold lsPass
  simp only []
  split_ifs
  all_goals simp only [Pass.st]
  all_goals first
    | exact le_refl _
    | (show c.L ≤ (evalCostInProx P (evalProxGradStep P (lsRecompute P c px q s).next)).L * 2
       linarith)
    | (rw [hu.1]; exact h2)

theorem lineSearch_L_ge (P : Problem α) (dir : Direction D α) (pr : Params α) (stop : Nat → Bool)
    (c : Iterate α) (px : ProxIterate α) (q : Vec α) (tauInit : α) (fuel : Nat) (s : LS α D)
    (hc : 0 < c.L) (h : c.L ≤ s.next.L) :
    c.L ≤ (lineSearch P dir pr stop c px q tauInit fuel s).next.L := by
  induction fuel generalizing s with
  | zero => simpa [lineSearch] using h
  | succ f ih =>
    unfold lineSearch
    split_ifs
    · exact h
    · have hp := lsPass_L_ge P dir pr c px q tauInit s hc h
      cases hpass : lsPass P dir pr c px q tauInit s with
      | done s' => rw [hpass] at hp; exact hp
      | again s' => rw [hpass] at hp; exact ih s' hp

/-! ### One pass of the loop body, the main loop, a whole solve -/

/-- Hypotheses on the parameters under which the model's fuel provably suffices:
    `N` bounds the number of step-size doublings from the smallest possible initial Lipschitz
    estimate up to `L_max`, `M` the number of halvings of `τ` from 1 down to below
    `min_linesearch_coefficient`. -/
structure FuelOK (pr : Params α) (N M : Nat) : Prop where
  lmin : 0 < pr.Lmin
  lmax : 0 < pr.Lmax
  /-- `L_max ≤ L_start·2^N` for the smallest initial estimate (`L_0` if given, else `L_min`) -/
  l0 : pr.Lmax ≤ (if pr.L0 ≤ 0 then pr.Lmin else pr.L0) * 2 ^ N
  /-- `2^-M < min_linesearch_coefficient` (`M ≥ 1` without loss of generality) -/
  minls : 1 < pr.minLsCoef * 2 ^ M
  mpos : 1 ≤ M
  fuel : N * (M + 2) + M < pr.lsFuel

/-- Loop invariant: the current iterate's `L` is positive and within `N` doublings of `L_max`. -/
def LInv (pr : Params α) (N : Nat) (i : Iterate α) : Prop := 0 < i.L ∧ pr.Lmax ≤ i.L * 2 ^ N

theorem LInv_mono (pr : Params α) (N : Nat) (a b : Iterate α) (h : LInv pr N a) (hab : a.L ≤ b.L) :
    LInv pr N b :=
  ⟨lt_of_lt_of_le h.1 hab, le_trans h.2 (mul_le_mul_of_nonneg_right hab (by positivity))⟩

theorem M_pos (pr : Params α) (N M : Nat) (hF : FuelOK pr N M) : N < pr.lsFuel := by
  have := hF.fuel
  have h2 : N ≤ N * (M + 2) := Nat.le_mul_of_pos_right _ (by omega)
  omega

/-- The line search of an iteration does not run out of fuel. -/
theorem lsOf_fuel (P : Problem α) (dir : Direction D α) (pr : Params α) (stop : Nat → Bool)
    (N M : Nat) (hF : FuelOK pr N M) (s : St α D) (hL : LInv pr N s.curr) :
    (lsOf P dir pr stop s).fuelOut = false := by
  have hM1 : 1 ≤ M := hF.mpos
  unfold lsOf
  rcases directionStage_tau dir s with ht | ht
  · refine lineSearch_fuel P dir pr stop s.curr s.prox _ _ N M hL.2 (.inl ht) pr.lsFuel _ N ?_
      (M_pos pr N M hF) (lsInit_fuelOut _ _ _ _ _)
    exact .inl ⟨ht, N, le_refl _, hL.2, le_refl _⟩
  · have hlt : (directionStage dir s).2.2.2.1 < pr.minLsCoef * 2 ^ M := by rw [ht]; exact hF.minls
    have hpos : (0 : α) < (directionStage dir s).2.2.2.1 := by rw [ht]; exact zero_lt_one
    refine lineSearch_fuel P dir pr stop s.curr s.prox _ _ N M hL.2 (.inr ⟨hpos, hlt⟩) pr.lsFuel _
      (N * (M + 2) + M) ?_ hF.fuel (lsInit_fuelOut _ _ _ _ _)
    refine .inr ⟨hpos, N, M, le_refl _, hM1, le_refl _, hL.2, hlt, ?_⟩
    have : N * (M + 2) = N + N * (M + 1) := by ring
    omega

/-- One pass of the loop body keeps the invariant on `L` … -/
theorem iterBody_LInv (P : Problem α) (dir : Direction D α) (pr : Params α) (stop : Nat → Bool)
    (N : Nat) (s : St α D) (eps : α) (hL : LInv pr N s.curr) :
    LInv pr N (iterBody P dir pr stop s eps).curr := by
  by_cases hst : stop (lsOf P dir pr stop s).tick = true
  · rw [(iterBody_interrupted P dir pr stop s eps hst).1]; exact hL
  · rw [(iterBody_completed P dir pr stop s eps (by simpa using hst)).1]
    apply LInv_mono pr N s.curr _ hL
    unfold lsOf
    exact lineSearch_L_ge P dir pr stop _ _ _ _ _ _ hL.1 (le_refl _)

/-- … and does not run out of line-search fuel. -/
theorem iterBody_fuel (P : Problem α) (dir : Direction D α) (pr : Params α) (stop : Nat → Bool)
    (N M : Nat) (hF : FuelOK pr N M) (s : St α D) (eps : α) (hL : LInv pr N s.curr)
    (hf : s.fuelOut = false) : (iterBody P dir pr stop s eps).fuelOut = false := by
  rw [iterBody_fuelOut, hf, lsOf_fuel P dir pr stop N M hF s hL]; rfl

/-- The stop flag is never lowered (`Gen.C19`: the flag is only ever stored `true`). -/
def StopMono (stop : Nat → Bool) : Prop := ∀ t t', t ≤ t' → stop t = true → stop t' = true

/-- A stop request visible at a loop-head check ends the main loop in the exit block of that head. -/
theorem mainLoop_exit_of_stop (P : Problem α) (dir : Direction D α) (pr : Params α)
    (stop : Nat → Bool) (oot : Bool) (x0 y Sig errz0 : Vec α) (fuel : Nat) (s : St α D)
    (h : stop (s.tick + 2 + epsTicks pr.stopCrit) = true) :
    mainLoop P dir pr stop oot x0 y Sig errz0 (fuel + 1) s =
      exitBlock pr (headStep P pr stop oot s).1 (headStep P pr stop oot s).2.1
        (headStep P pr stop oot s).2.2 x0 y Sig errz0 := by
  have hp := (headStep_spec P pr stop oot s).2.2
  rw [h] at hp
  have hnb : (headStep P pr stop oot s).2.2 ≠ .Busy := by
    rw [hp]; exact chain_stop_not_busy _ _ _ _ _ _ _
  rw [mainLoop]
  have : ((headStep P pr stop oot s).2.2 != SolverStatus.Busy) = true := by simpa using hnb
  simp only [this, if_true]

/-- **The main-loop fuel suffices** (`max_iter + 2` passes) for a stop flag that is never lowered, and
    no inner loop runs out of fuel on the way: a pass either advances `k` — which a `Busy` head
    bounds by `max_iter` — or was interrupted in its line search, and then the next head exits. -/
theorem mainLoop_fuel (P : Problem α) (dir : Direction D α) (pr : Params α) (stop : Nat → Bool)
    (hm : StopMono stop) (N M : Nat) (hF : FuelOK pr N M) (oot : Bool) (x0 y Sig errz0 : Vec α) :
    ∀ (fuel : Nat) (s : St α D), LInv pr N s.curr → s.fuelOut = false → s.k ≤ pr.maxIter →
      pr.maxIter - s.k + 2 ≤ fuel →
      (mainLoop P dir pr stop oot x0 y Sig errz0 fuel s).fuelOut = false := by
  intro fuel
  induction fuel with
  | zero => intro s _ _ _ h; omega
  | succ f ih =>
    intro s hL hf hk hfuel
    have hs := headStep_same P pr stop oot s
    rw [mainLoop]
    try simp only []
    split_ifs with hb
    · rw [(exitBlock_spec pr _ _ _ x0 y Sig errz0).2.2.2.2.2.1, hs.2.2.2.2.1]; exact hf
    · have hbusy : (headStep P pr stop oot s).2.2 = .Busy := by simpa using hb
      have hne : s.k ≠ pr.maxIter := by
        have := (headStep_spec P pr stop oot s).2.2
        rw [hbusy] at this
        exact (chain_busy_only_if _ _ _ _ _ _ _ _ this.symm).1
      have hL' : LInv pr N (headStep P pr stop oot s).1.curr := by rw [hs.1]; exact hL
      have hf' : (headStep P pr stop oot s).1.fuelOut = false := by rw [hs.2.2.2.2.1]; exact hf
      have hfb := iterBody_fuel P dir pr stop N M hF (headStep P pr stop oot s).1
        (headStep P pr stop oot s).2.1 hL' hf'
      have hLb := iterBody_LInv P dir pr stop N (headStep P pr stop oot s).1
        (headStep P pr stop oot s).2.1 hL'
      by_cases hst : stop (lsOf P dir pr stop (headStep P pr stop oot s).1).tick = true
      · -- interrupted line search: the next head exits
        have hi := iterBody_interrupted P dir pr stop (headStep P pr stop oot s).1
          (headStep P pr stop oot s).2.1 hst
        cases f with
        | zero => omega
        | succ f' =>
          have hpoll : stop ((iterBody P dir pr stop (headStep P pr stop oot s).1
              (headStep P pr stop oot s).2.1).tick + 2 + epsTicks pr.stopCrit) = true := by
            rw [hi.2.2.2.2.2]; exact hm _ _ (by omega) hst
          rw [mainLoop_exit_of_stop P dir pr stop oot x0 y Sig errz0 f' _ hpoll,
            (exitBlock_spec pr _ _ _ x0 y Sig errz0).2.2.2.2.2.1,
            (headStep_same P pr stop oot _).2.2.2.2.1]
          exact hfb
      · have hc := iterBody_completed P dir pr stop (headStep P pr stop oot s).1
          (headStep P pr stop oot s).2.1 (by simpa using hst)
        apply ih _ hLb hfb
        · rw [hc.2.1, hs.2.1]; omega
        · rw [hc.2.1, hs.2.1]; omega

theorem initQub_LInv (P : Problem α) (pr : Params α) (stop : Nat → Bool) (N : Nat) (f : Nat)
    (c : Iterate α) (t b : Nat) (h : LInv pr N c) : LInv pr N (initQub P pr stop f c t b).1 := by
  induction f generalizing c t b with
  | zero => simpa [initQub] using h
  | succ f ih =>
    unfold initQub
    split_ifs
    · exact h
    · apply ih
      apply LInv_mono pr N c _ h
      rw [(evalStep_gammaL P _).2]
      simp only []
      linarith [h.1]
    · exact h

/-- The Lipschitz estimate a solve starts from is positive and within `N` doublings of `L_max`. -/
theorem initLipschitz_LInv (P : Problem α) (pr : Params α) (N M : Nat) (hF : FuelOK pr N M)
    (x0 gV : Vec α) (gS : α) : LInv pr N (initLipschitz P pr x0 gV gS).1 := by
  have h2 : (1 : α) ≤ 2 ^ N := one_le_pow₀ (by norm_num)
  have hl0 := hF.l0
  unfold initLipschitz
  simp only []
  split_ifs with h
  · rw [if_pos h] at hl0
    unfold LInv
    simp only []
    unfold initialLipschitz
    simp only []
    unfold eclamp
    split_ifs with h1 h3
    · exact ⟨hF.lmin, hl0⟩
    · exact ⟨hF.lmax, by nlinarith [hF.lmax]⟩
    · have hge := not_lt.mp h1
      exact ⟨lt_of_lt_of_le hF.lmin hge,
        le_trans hl0 (mul_le_mul_of_nonneg_right hge (by positivity))⟩
  · rw [if_neg h] at hl0
    exact ⟨not_le.mp h, hl0⟩

/-- **Fuel sufficiency for a whole solve**: under `FuelOK` and for a stop flag that is never
    lowered, `ZeroFPRSolver::operator()`'s model never runs out of its explicit loop fuel. -/
theorem run_fuel (P : Problem α) (dir : Direction D α) (d0 : D) (pr : Params α) (stop : Nat → Bool)
    (hm : StopMono stop) (N M : Nat) (hF : FuelOK pr N M) (oot : Bool)
    (x0 y Sig errz0 gV : Vec α) (gS iS : α) :
    (run P dir d0 pr stop oot x0 y Sig errz0 gV gS iS).fuelOut = false := by
  unfold run
  cases hi : initState P d0 pr stop x0 gV gS with
  | inl t => rfl
  | inr s =>
    simp only []
    have hk0 : s.k = 0 := (initState_good P d0 pr stop x0 gV gS s hi).2.1
    have hL0 := initLipschitz_LInv P pr N M hF x0 gV gS
    unfold initState at hi
    simp only [] at hi
    split_ifs at hi
    injection hi with hi; subst hi
    apply mainLoop_fuel P dir pr stop hm N M hF oot x0 y Sig errz0
    · exact initQub_LInv P pr stop N _ _ _ _ hL0
    · exact initQub_fuel P pr stop N _ _ _ _ hL0.2 (M_pos pr N M hF)
    · simp only []; omega
    · simp only []; omega

end Alpaqa.Zerofpr
