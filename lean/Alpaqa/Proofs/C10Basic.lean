/-
  C10 helper lemmas, part 1: frozen storage, `sumTo` = `Finset.sum`, the generated ring index
  arithmetic in closed form, ring iteration, and the predicates the C10 theorems are stated with
  (`RingInv`, `Represents`, `Orth`, `GivensOK`).
-/
import Mathlib.Algebra.BigOperators.Ring.Finset
import Mathlib.Algebra.BigOperators.Group.Finset.Sigma
import Mathlib.Algebra.Order.Field.Basic
import Mathlib.Tactic.Ring
import Mathlib.Tactic.Linarith
import Mathlib.Tactic.FieldSimp
import Mathlib.Tactic.LinearCombination
import Alpaqa.Proofs.Basic
import Alpaqa.Model.C10

namespace Alpaqa.C10
open Finset Alpaqa Alpaqa.Gen
set_option linter.unusedSectionVars false
set_option linter.unusedSimpArgs false
set_option linter.unusedVariables false

/-! ### closed forms of the generated index arithmetic (regenerated from the C++ on every run:
    if `r_succ`, `r_pred`, the iterator increment or decrement change, these stop compiling) -/

theorem lmqrSucc_eq {m i : ℕ} (hi : i < m) : lmqrSucc m i = (i + 1) % m := by
  unfold lmqrSucc
  by_cases h : i + 1 < m
  · simp [h, Nat.mod_eq_of_lt h]
  · have : i + 1 = m := by omega
    simp [h, this]

theorem lmqrPred_eq {m i : ℕ} (hi : i < m) : lmqrPred m i = (i + m - 1) % m := by
  unfold lmqrPred
  by_cases h : i = 0
  · subst h; simp
  · have h1 : i + m - 1 = (i - 1) + m := by omega
    simp [h, h1, Nat.mod_eq_of_lt (show i - 1 < m by omega)]

theorem lmqrSucc_lt {m i : ℕ} (hm : 0 < m) : lmqrSucc m i < m := by
  unfold lmqrSucc; split_ifs with h
  · simpa using h
  · exact hm

/-- `r_pred` inverts `r_succ` on `[0, m)`. -/
theorem lmqrPred_succ {m i : ℕ} (hi : i < m) : lmqrPred m (lmqrSucc m i) = i := by
  unfold lmqrSucc lmqrPred
  by_cases h : i + 1 < m
  · simp [h]
  · have : i + 1 = m := by omega
    simp [h]; omega

theorem lmqrSucc_pred {m i : ℕ} (hi : i < m) : lmqrSucc m (lmqrPred m i) = i := by
  unfold lmqrSucc lmqrPred
  by_cases h : i = 0
  · subst h; simp; omega
  · simp [h]; have : i - 1 + 1 = i := by omega
    rw [this]; simp [hi]

theorem circInc_eq {max zb ci : ℕ} (hc : ci < max) :
    circInc max zb ci = (zb + 1, (ci + 1) % max) := by
  unfold circInc
  by_cases h : ci + 1 = max
  · simp [h]
  · simp [h, Nat.mod_eq_of_lt (show ci + 1 < max by omega)]

theorem circDec_eq {max zb ci : ℕ} (hc : ci < max) :
    circDec max zb ci = (zb - 1, (ci + max - 1) % max) := by
  unfold circDec
  by_cases h : ci = 0
  · subst h; simp
  · have h1 : ci + max - 1 = (ci - 1) + max := by omega
    simp [h, h1, Nat.mod_eq_of_lt (show ci - 1 < max by omega)]

theorem mod_succ_step (rs k m : ℕ) : ((rs + k) % m + 1) % m = (rs + (k + 1)) % m := by
  rw [← Nat.add_assoc, Nat.add_mod (rs + k) 1 m, Nat.add_mod ((rs + k) % m) 1 m, Nat.mod_mod]

theorem mod_pred_step (rs k m : ℕ) (hm : 0 < m) :
    ((rs + (k + 1)) % m + m - 1) % m = (rs + k) % m := by
  have h : (rs + (k + 1)) % m + m - 1 = (rs + (k + 1)) % m + (m - 1) := by
    have := Nat.mod_lt (rs + (k + 1)) hm; omega
  rw [h, Nat.add_mod, Nat.mod_mod, ← Nat.add_mod]
  have : rs + (k + 1) + (m - 1) = (rs + k) + m := by omega
  rw [this, Nat.add_mod_right]

/-- distinct logical positions inside one window occupy distinct storage columns -/
theorem slot_inj {rs m a b : ℕ} (hab : a < b) (hb : b < a + m) : (rs + a) % m ≠ (rs + b) % m := by
  intro h
  have h0 := Nat.sub_mod_eq_zero_of_mod_eq h.symm
  have h1 : rs + b - (rs + a) = b - a := by omega
  rw [h1, Nat.mod_eq_of_lt (by omega)] at h0
  omega

/-! ### ring iteration -/

theorem ringFwdFrom_eq (m rs size : ℕ) (hm : 0 < m) :
    ∀ fuel zb, zb ≤ size → size - zb < fuel →
      ringFwdFrom m size fuel zb ((rs + zb) % m) =
        (List.range' zb (size - zb)).map fun j => (j, (rs + j) % m) := by
  intro fuel
  induction fuel with
  | zero => intro zb _ h; omega
  | succ f ih =>
    intro zb hz hf
    unfold ringFwdFrom
    by_cases h : zb = size
    · subst h; simp [circEq]
    · have e : size - zb = (size - (zb + 1)) + 1 := by omega
      simp only [circEq, beq_iff_eq, h, if_false]
      rw [circInc_eq (Nat.mod_lt _ hm)]
      simp only
      rw [mod_succ_step, ih (zb + 1) (by omega) (by omega), e, List.range'_succ]
      simp

/-- reverse iteration from `forwardit = (zb, (rs+zb) % m)` down to `begin()`: logical indices
    `zb-1, …, 0` with their storage columns. -/
theorem ringRevFrom_eq (m rs : ℕ) (hm : 0 < m) :
    ∀ fuel zb, zb < fuel →
      ringRevFrom m 0 fuel zb ((rs + zb) % m) =
        ((List.range zb).map fun j => (j, (rs + j) % m)).reverse := by
  intro fuel
  induction fuel with
  | zero => intro zb h; omega
  | succ f ih =>
    intro zb hf
    unfold ringRevFrom
    cases zb with
    | zero => simp [circEq]
    | succ k =>
      simp only [circEq, beq_iff_eq, Nat.succ_ne_zero, if_false, Nat.add_one_ne_zero]
      rw [circDec_eq (Nat.mod_lt _ hm)]
      simp only [Nat.add_sub_cancel]
      rw [mod_pred_step _ _ _ hm, ih k (by omega), List.range_succ]
      simp

section field
variable {α : Type} [Field α]

/-! ### frozen storage and reductions -/

theorem sumTo_eq_sum (n : ℕ) (f : ℕ → α) : sumTo n f = ∑ i ∈ range n, f i := by
  match n with
  | 0 => simp [sumTo]
  | 1 => simp [sumTo]
  | k + 2 => rw [sumTo, sumTo_eq_sum (k + 1) f, Finset.sum_range_succ _ (k + 1)]

theorem readV_freezeV (n : ℕ) (f : ℕ → α) (i : ℕ) :
    readV (freezeV n f) i = if i < n then f i else 0 := by
  unfold readV freezeV
  split_ifs with h <;> simp [Array.getD, h]

theorem readV_freezeV_lt {n : ℕ} (f : ℕ → α) {i : ℕ} (h : i < n) :
    readV (freezeV n f) i = f i := by rw [readV_freezeV, if_pos h]

theorem Mat.get_ofFn (r c : ℕ) (f : ℕ → ℕ → α) (i j : ℕ) :
    (Mat.ofFn r c f).get i j = if i < r ∧ j < c then f i j else 0 := by
  unfold Mat.get Mat.ofFn
  by_cases hj : j < c <;> by_cases hi : i < r <;> simp [Array.getD, hi, hj]

theorem Mat.get_ofFn_lt {r c : ℕ} (f : ℕ → ℕ → α) {i j : ℕ} (hi : i < r) (hj : j < c) :
    (Mat.ofFn r c f).get i j = f i j := by rw [Mat.get_ofFn, if_pos ⟨hi, hj⟩]

/-- replacing one term of a finite sum -/
theorem sum_range_update (K i0 : ℕ) (h : i0 < K) (r g : ℕ → α) (a : α) :
    ∑ i ∈ range K, (if i = i0 then a else r i) * g i =
      ∑ i ∈ range K, r i * g i + (a - r i0) * g i0 := by
  have h1 : ∀ i ∈ range K, (if i = i0 then a else r i) * g i =
      r i * g i + (if i = i0 then (a - r i0) * g i0 else 0) := by
    intro i _
    split_ifs with e
    · subst e; ring
    · ring
  rw [Finset.sum_congr rfl h1, Finset.sum_add_distrib, Finset.sum_ite_eq' (range K) i0]
  simp [h]

end field

/-! ### the predicates of the C10 theorems -/

section preds
variable {α : Type} [Field α] [LinearOrder α] [IsStrictOrderedRing α] [RealLike α]

/-- Ring refinement invariant of `(q_idx, r_idx_start, r_idx_end)` for capacity `m ≥ 1`. -/
structure RingInv (s : LMQR α) : Prop where
  mpos : 0 < s.m
  cap : s.qIdx ≤ s.m
  start_lt : s.rStart < s.m
  end_eq : s.rEnd = (s.rStart + s.qIdx) % s.m

/-- `(Q · get_R())(j, k)`: row `j` of the product of the stored `Q` (first `q_idx` columns) with the
    upper-triangular `q_idx × q_idx` matrix `get_R()` returns. -/
def colSum (s : LMQR α) (k j : ℕ) : α := ∑ i ∈ range s.qIdx, s.Q.get j i * s.getR i k

/-- "`QR = A`": the factorisation represents the window `A` (`A k` = k-th oldest column). -/
def Represents (s : LMQR α) (A : ℕ → ℕ → α) : Prop :=
  ∀ k < s.qIdx, ∀ j < s.n, colSum s k j = A k j

/-- "`QᵀQ = I`" on the first `q_idx` columns (rows `0 … n-1`). -/
def Orth (s : LMQR α) : Prop :=
  ∀ a < s.qIdx, ∀ b < s.qIdx,
    ∑ j ∈ range s.n, s.Q.get j a * s.Q.get j b = if a = b then 1 else 0

/-- Contract of `JacobiRotation::makeGivens(p, q, &r)` for real scalars, `giv p q = (c, s, r)`:
    `c² + s² = 1`, and `G.adjoint() * (p, q)ᵀ = (r, 0)ᵀ`, i.e. `r = c p − s q`, `s p + c q = 0`. -/
def GivensOK (giv : α → α → α × α × α) : Prop :=
  ∀ p q, (giv p q).1 * (giv p q).1 + (giv p q).2.1 * (giv p q).2.1 = 1 ∧
    (giv p q).2.2 = (giv p q).1 * p - (giv p q).2.1 * q ∧
    (giv p q).2.1 * p + (giv p q).1 * q = 0

theorem getR_upper (s : LMQR α) {i k : ℕ} (h : k < i) : s.getR i k = 0 := by
  unfold LMQR.getR; rw [if_neg (by omega)]

/-- only the upper triangle contributes -/
theorem colSum_trunc (s : LMQR α) {k : ℕ} (hk : k < s.qIdx) (j : ℕ) :
    colSum s k j = ∑ i ∈ range (k + 1), s.Q.get j i * s.R.get i (s.slot k) := by
  unfold colSum
  have hsub : range (k + 1) ⊆ range s.qIdx := by
    intro i hi; simp only [Finset.mem_range] at hi ⊢; omega
  rw [← Finset.sum_subset hsub]
  · apply Finset.sum_congr rfl
    intro i hi; simp only [Finset.mem_range] at hi
    unfold LMQR.getR; rw [if_pos (by omega)]
  · intro i _ hi
    simp only [Finset.mem_range] at hi
    rw [getR_upper s (by omega)]; ring

theorem ringFwd_eq (s : LMQR α) (h : RingInv s) :
    s.ringFwd = (List.range s.qIdx).map fun j => (j, (s.rStart + j) % s.m) := by
  unfold LMQR.ringFwd lmqrRingIterArgs circBegin circEnd
  simp only
  have := ringFwdFrom_eq s.m s.rStart s.qIdx h.mpos (s.m + 1) 0 (Nat.zero_le _) (by have := h.cap; omega)
  simp only [Nat.add_zero, Nat.sub_zero] at this
  rw [Nat.mod_eq_of_lt h.start_lt] at this
  rw [this, List.range_eq_range']

/-- the reverse iterator yields the reverse of the forward iteration -/
theorem ringRev_eq (s : LMQR α) (h : RingInv s) : s.ringRev = s.ringFwd.reverse := by
  rw [ringFwd_eq s h]
  unfold LMQR.ringRev lmqrRingIterArgs circBegin circEnd
  simp only
  rw [h.end_eq]
  exact ringRevFrom_eq s.m s.rStart h.mpos (s.m + 1) s.qIdx (by have := h.cap; omega)

end preds
end Alpaqa.C10
