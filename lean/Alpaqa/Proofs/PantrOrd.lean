/-
  Ordered-field reading of the PANTR loop model: what the generated kernels (`pantr_qubViolated`,
  `pantr_candidateRatio`, `pantr_updatedRadius`) and the step-size backtracking imply in real-number
  semantics.  Helper lemmas for `Props/C05_Pantr.lean`, `Props/C19_Pantr.lean`.
-/
import Mathlib.Algebra.Order.Field.Basic
import Mathlib.Tactic.Ring
import Mathlib.Tactic.Linarith
import Mathlib.Tactic.FieldSimp
import Mathlib.Tactic.Positivity
import Mathlib.Tactic.NormNum.OfScientific
import Alpaqa.Proofs.Basic
import Alpaqa.Proofs.PantrInv

namespace Alpaqa.Pantr
open Alpaqa Alpaqa.Gen
set_option linter.unusedSectionVars false

variable {α D : Type} [Field α] [LinearOrder α] [IsStrictOrderedRing α] [RealLike α]

local macro "triv" : tactic => `(tactic| first | rfl | trivial)

/-! ### Step size: every change is `γ /= 2; L *= 2` -/

/-- `b` is `a` after `n` step-size halvings. -/
def GL (a b : Iterate α) : Prop := ∃ n : Nat, b.gamma = a.gamma / 2 ^ n ∧ b.L = a.L * 2 ^ n

theorem GL.of_eq {a b : Iterate α} (h1 : b.gamma = a.gamma) (h2 : b.L = a.L) : GL a b :=
  ⟨0, by simp [h1], by simp [h2]⟩

theorem GL.trans {a b c : Iterate α} (h1 : GL a b) (h2 : GL b c) : GL a c := by
  obtain ⟨n, hn1, hn2⟩ := h1
  obtain ⟨m, hm1, hm2⟩ := h2
  refine ⟨n + m, ?_, ?_⟩
  · rw [hm1, hn1, div_div, ← pow_add]
  · rw [hm2, hn2, mul_assoc, ← pow_add]

theorem GL.gamma_le {a b : Iterate α} (h : GL a b) (h0 : 0 ≤ a.gamma) : b.gamma ≤ a.gamma := by
  obtain ⟨n, hn, -⟩ := h
  rw [hn]
  exact div_le_self h0 (one_le_pow₀ (by norm_num))

theorem GL.gammaL {a b : Iterate α} (h : GL a b) : b.gamma * b.L = a.gamma * a.L := by
  obtain ⟨n, hn1, hn2⟩ := h
  rw [hn1, hn2]
  have : (2 : α) ^ n ≠ 0 := pow_ne_zero _ (by norm_num)
  field_simp

theorem GL.gamma_pos {a b : Iterate α} (h : GL a b) (h0 : 0 < a.gamma) : 0 < b.gamma := by
  obtain ⟨n, hn, -⟩ := h
  rw [hn]; positivity

/-- `backtrack_qub` performs some number `n` of halvings — exactly the number it adds to
    `stepsize_backtracks` —, and if `n ≥ 1` the last halving started from `L·2ⁿ⁻¹ < L_max`:
    with `L > 0` and `L_max` finite the loop ends after at most `⌊log₂(L_max/L)⌋ + 1` passes, whatever
    the problem functions return (a visible stop request only ends it earlier). -/
theorem backtrackQub_pow (P : Problem α) (pr : Params α)
    (stop : Nat → Bool) (f : Nat) (c : Iterate α) (t b : Nat) :
    ∃ n : Nat, (backtrackQub P pr stop f c t b).2.2.1 = b + n ∧
      (backtrackQub P pr stop f c t b).1.gamma = c.gamma / 2 ^ n ∧
      (backtrackQub P pr stop f c t b).1.L = c.L * 2 ^ n ∧ (1 ≤ n → c.L * 2 ^ (n - 1) < pr.Lmax) := by
  induction f generalizing c t b with
  | zero => exact ⟨0, by simp [backtrackQub], by simp [backtrackQub], by simp [backtrackQub], by simp⟩
  | succ f ih =>
    unfold backtrackQub
    split_ifs with hst hc
    · exact ⟨0, by simp, by simp, by simp, by simp⟩
    · obtain ⟨n, h1, h2, h3, h4⟩ := ih (backtrackStep P c) (t + 2) (b + 1)
      have hg : (backtrackStep P c).gamma = c.gamma / 2 := by
        simp [backtrackStep, evalPsiHat, evalProxGradStep]
      have hL : (backtrackStep P c).L = c.L * 2 := by
        simp [backtrackStep, evalPsiHat, evalProxGradStep]
      refine ⟨n + 1, by omega, ?_, ?_, fun _ => ?_⟩
      · rw [h2, hg, div_div, ← pow_succ']
      · rw [h3, hL, mul_assoc, ← pow_succ']
      · simp only [Nat.add_sub_cancel]
        cases n with
        | zero =>
          simp only [Bool.and_eq_true, decide_eq_true_eq] at hc
          simpa using hc.1
        | succ k =>
          have := h4 (by omega)
          rw [hL] at this
          simp only [Nat.add_sub_cancel] at this
          rw [pow_succ']; rw [mul_assoc] at this; exact this
    · exact ⟨0, by simp, by simp, by simp, by simp⟩

theorem backtrackQub_GL (P : Problem α) (pr : Params α)
    (stop : Nat → Bool) (f : Nat) (c : Iterate α) (t b : Nat) :
    GL c (backtrackQub P pr stop f c t b).1 := by
  obtain ⟨n, -, h2, h3, -⟩ := backtrackQub_pow P pr stop f c t b
  exact ⟨n, h2, h3⟩

theorem candidateFbe_GL (P : Problem α) (pr : Params α)
    (stop : Nat → Bool) (prox cand : Iterate α) (q : Vec α) (t : Nat) :
    GL prox (candidateFbe P pr stop prox cand q t).1 := by
  unfold candidateFbe
  simp only []
  split_ifs
  · refine GL.trans (GL.of_eq ?_ ?_) (backtrackQub_GL P pr stop _ _ _ _) <;>
      simp [evalPsiHat, evalProxGradStep]
  · exact GL.of_eq (by simp [evalProxGradStep]) (by simp [evalProxGradStep])

theorem trAttempt_GL (co : Consts α) (P : Problem α) (dir : Direction D α) (pr : Params α)
    (stop : Nat → Bool)
    (b : Mid α D) (hb : b.accept = false) (ha : (trAttempt co P dir pr stop b).accept = true) :
    GL b.prox (trAttempt co P dir pr stop b).cand := by
  unfold trAttempt at ha ⊢
  simp only [] at ha ⊢
  split_ifs at ha ⊢
  · exact candidateFbe_GL P pr stop _ _ _ _
  · exact absurd ha (by simp [hb])

theorem trStage_GL (co : Consts α) (P : Problem α) (dir : Direction D α) (pr : Params α)
    (stop : Nat → Bool) (s : St α D) :
    GL s.curr (trStage co P dir pr stop s).prox ∧
    ((trStage co P dir pr stop s).accept = true → GL s.curr (trStage co P dir pr stop s).cand) := by
  have hp : GL s.curr (fbsStep P pr s).1 :=
    GL.of_eq (by simp [fbsStep, evalProxGradStep, evalPsiGradPsi])
      (by simp [fbsStep, evalProxGradStep, evalPsiGradPsi])
  unfold trStage
  simp only []
  split_ifs
  · have h1 := trAttempt_spec co P dir pr stop
      { curr := s.curr, prox := (fbsStep P pr s).1, cand := s.cand, gradPsiHat := (fbsStep P pr s).2.1,
        q := s.q, d := (dirInit dir s (fbsStep P pr s).1 (fbsStep P pr s).2.2).1,
        tick := (dirInit dir s (fbsStep P pr s).1 (fbsStep P pr s).2.2).2.2, accept := false,
        accelerated := (dirInit dir s (fbsStep P pr s).1 (fbsStep P pr s).2.2).2.1, Delta := s.Delta,
        rho := s.rho, failures := 0, backtracks := 0, fuelOut := false } rfl
    refine ⟨by rw [h1.2.1]; exact hp, fun ha => ?_⟩
    exact GL.trans hp (trAttempt_GL co P dir pr stop _ rfl ha)
  · exact ⟨hp, fun h => absurd h (by simp)⟩

theorem acceptStage_GL (P : Problem α) (dir : Direction D α) (pr : Params α)
    (stop : Nat → Bool) (m : Mid α D) (t0 : Nat) :
    GL m.cand (acceptStage P dir pr stop m t0).curr := by
  unfold acceptStage
  simp only []
  split_ifs
  · refine GL.trans (GL.of_eq ?_ ?_) (backtrackQub_GL P pr stop _ _ _ _) <;> simp [evalPsiHat]
  · exact GL.of_eq rfl rfl

theorem rejectStage_GL (P : Problem α) (dir : Direction D α) (pr : Params α)
    (stop : Nat → Bool) (m : Mid α D) (t0 : Nat) :
    GL m.prox (rejectStage P dir pr stop m t0).curr := by
  unfold rejectStage
  simp only []
  refine GL.trans (GL.of_eq ?_ ?_) (backtrackQub_GL P pr stop _ _ _ _) <;> simp [evalPsiHat]

/-- Across one iteration the step size of the current iterate is halved some number of times. -/
theorem iterBody_GL (co : Consts α) (P : Problem α) (dir : Direction D α) (pr : Params α)
    (stop : Nat → Bool)
    (s : St α D) (eps : α) : GL s.curr (iterBody co P dir pr stop s eps).curr := by
  have h := trStage_GL co P dir pr stop s
  unfold iterBody
  simp only []
  by_cases ha : (trStage co P dir pr stop s).accept
  · simp only [ha, if_true]
    exact GL.trans (h.2 ha) (acceptStage_GL P dir pr stop _ _)
  · simp only [ha, Bool.false_eq_true, if_false]
    exact GL.trans h.1 (rejectStage_GL P dir pr stop _ _)

/-- The first iterate: `γ₀ = Lγ_factor / L₀`, then some halvings. -/
theorem initState_GL (co : Consts α) (P : Problem α) (d0 : D) (pr : Params α)
    (stop : Nat → Bool) (x0 gV : Vec α)
    (s : St α D) (hi : initState co P d0 pr stop x0 gV = .inr s) :
    ∃ c0 : Iterate α, c0.gamma = pr.LgammaFactor / c0.L ∧ GL c0 s.curr := by
  unfold initState at hi
  simp only [] at hi
  split_ifs at hi
  injection hi with hi; subst hi
  exact ⟨firstStep P pr (lipschitzStage co P pr x0 gV).1, rfl, backtrackQub_GL P pr stop _ _ _ _⟩

/-! ### Trust radius -/

theorem le_fmaxS_right (a b : α) (hb : RealLike.isNaN b = false) : b ≤ fmaxS a b := by
  unfold fmaxS
  split_ifs with h1 h2 h3
  · exact le_refl _
  · rw [hb] at h2; exact absurd h2 (by decide)
  · exact le_refl _
  · exact not_lt.mp h3

theorem updatedRadius_ge (pr : Params α) (q : Vec α) (rho Delta : α)
    (hb : RealLike.isNaN pr.minRadius = false) : pr.minRadius ≤ updatedRadius pr q rho Delta :=
  le_fmaxS_right _ _ hb

theorem initialRadius_ge (pr : Params α) (g : Vec α) (hb : RealLike.isNaN pr.minRadius = false) :
    pr.minRadius ≤ initialRadius pr g := le_fmaxS_right _ _ hb

/-! ### Quadratic upper bound ⇒ forward-backward descent; ratio test ⇒ trust-region descent -/

/-- If the quadratic upper bound test does not fire (`γ > 0`):
    `ψ(x̂) + h(x̂) ≤ φ_γ(x) − ((1 − γL)/(2γ))·‖p‖² + (1 + |ψ(x)|)·qub_tol`. -/
theorem fb_descent_of_qub (tol psix psixhat gTp L pTp hx gamma : α) (hγ : 0 < gamma)
    (h : pantr_qubViolated tol psix psixhat gTp L pTp = false) :
    psixhat + hx ≤ pantr_fbe psix hx pTp gamma gTp - (1 - gamma * L) / (2 * gamma) * pTp
      + (1 + |psix|) * tol := by
  unfold pantr_qubViolated at h
  simp only [eabs_eq_abs, Bool.not_eq_false', decide_eq_true_eq] at h
  unfold pantr_fbe
  have hid : pTp / (2 * gamma) - (1 - gamma * L) / (2 * gamma) * pTp = (0.5 : α) * L * pTp := by
    have : gamma ≠ 0 := ne_of_gt hγ
    norm_num
    field_simp
    ring
  linarith

/-- **What the acceptance test `ρ ≥ ratio_threshold_acceptable` implies** over an ordered field,
    for a negative model value `q_model` (the branch the code is in):
    `φ(cand) ≤ φ(prox) + (1 + |φ(prox)|)·TR_tol − thr·c·(−q_model)`, with `c = 1` for the plain
    ratio and `c = 1 − Lγ_factor` when `ratio_approx_fbe_quadratic_model` (needs `Lγ_factor < 1`). -/
theorem ratio_test_descent (qm trtol Lgf thr : α) (approx : Bool)
    (pψ ph ppTp pγ pg cψ ch cpTp cγ cg : α) (hq : qm < 0) (hL : approx = true → Lgf < 1)
    (h : pantr_candidateRatio qm trtol approx Lgf pψ ph ppTp pγ pg cψ ch cpTp cγ cg ≥ thr) :
    pantr_fbe cψ ch cpTp cγ cg ≤
      pantr_fbe pψ ph ppTp pγ pg + (1 + |pantr_fbe pψ ph ppTp pγ pg|) * trtol
        - thr * (if approx then 1 - Lgf else 1) * (-qm) := by
  unfold pantr_candidateRatio at h
  simp only [eabs_eq_abs, ge_iff_le] at h
  have hq' : 0 < -qm := neg_pos.mpr hq
  cases approx with
  | false =>
    simp only [Bool.false_eq_true, if_false] at h ⊢
    rw [le_div_iff₀ hq'] at h
    linarith
  | true =>
    simp only [if_true] at h ⊢
    have h1 : 0 < 1 - Lgf := sub_pos.mpr (hL rfl)
    rw [le_div_iff₀ h1, le_div_iff₀ hq'] at h
    linarith

end Alpaqa.Pantr
