/-
  C12 — the class `AffQuad` (Proofs/C12Deriv.lean) contains every matrix-defined affine-quadratic
  optimal-control problem without outputs: `AQData` (matrices `A_t, B_t, H_t, H_N, E_t, E_N`,
  vectors `b_t, g_t, g_N, e_t, e_N`), `AQData.toOCP` (the twelve oracles `OCPEvaluator` calls,
  built from the list-matrix operations of the model), `AQData.affQuad` (symmetric `H`).
-/
import Alpaqa.Proofs.C12Deriv
import Alpaqa.Proofs.C12Lin

namespace Alpaqa.C12
open Alpaqa Matrix
set_option linter.unusedSectionVars false
variable {α : Type} [Field α] [LinearOrder α] [IsStrictOrderedRing α]

/-! ### list vectors ↔ `Fin n → α` -/

theorem vadd_eq_addV (n : Nat) (x y : Vec α) (hx : x.length = n) (hy : y.length = n) :
    vadd x y = addV n x y := by
  apply List.ext_getElem
  · simp [vadd, vzip, addV, mkV, hx, hy]
  · intro i h1 h2
    have hi : i < n := by simpa [addV, mkV] using h2
    simp [vadd, vzip, addV, mkV, vget, List.getD_eq_getElem?_getD, hx, hy, hi]

theorem toV_vadd (n : Nat) (x y : Vec α) (hx : x.length = n) (hy : y.length = n) :
    toV n (vadd x y) = toV n x + toV n y := by
  rw [vadd_eq_addV n x y hx hy, toV_addV]

theorem toV_smul (n : Nat) (ε : α) (x : Vec α) : toV n (smul ε x) = ε • toV n x := by
  ext i
  simp only [toV, vget, smul, List.getD_eq_getElem?_getD, List.getElem?_map, Pi.smul_apply, smul_eq_mul]
  cases x[(i : Nat)]? <;> simp

theorem dot_eq_dotProduct (n : Nat) (x y : Vec α) (hx : x.length = n) (hy : y.length = n) :
    dot x y = toV n x ⬝ᵥ toV n y := by
  induction n generalizing x y with
  | zero =>
    have : x = [] := List.eq_nil_of_length_eq_zero hx
    subst this; simp [dotProduct]
  | succ n ih =>
    cases x with
    | nil => simp at hx
    | cons x0 xs => cases y with
      | nil => simp at hy
      | cons y0 ys =>
        rw [dot_cons, ih xs ys (by simpa using hx) (by simpa using hy)]
        simp only [dotProduct, Fin.sum_univ_succ]
        rfl

theorem length_addV_aq (n : Nat) (x y : Vec α) : (addV n x y).length = n := by simp [addV, mkV]
theorem length_mulMV (n k : Nat) (A : Mat α) (x : Vec α) : (mulMV n k A x).length = n := by simp [mulMV, mkV]
theorem length_mulTV (n k : Nat) (A : Mat α) (x : Vec α) : (mulTV n k A x).length = n := by simp [mulTV, mkV]

/-- `⟨Aᵀp, a⟩ = ⟨p, A a⟩` on list vectors. -/
theorem dot_mulTV (n k : Nat) (A : Mat α) (p a : Vec α) (hp : p.length = n) (ha : a.length = k) :
    dot (mulTV k n A p) a = dot p (mulMV n k A a) := by
  rw [dot_eq_dotProduct k _ _ (length_mulTV ..) ha, dot_eq_dotProduct n _ _ hp (length_mulMV ..),
    toV_mulTV, toV_mulMV, Matrix.dotProduct_mulVec, ← Matrix.vecMul_transpose, Matrix.transpose_transpose,
    dotProduct_comm]

theorem mulMV_vadd (n k : Nat) (A : Mat α) (x a : Vec α) (hx : x.length = k) (ha : a.length = k) :
    mulMV n k A (vadd x a) = vadd (mulMV n k A x) (mulMV n k A a) := by
  rw [vadd_eq_addV n _ _ (length_mulMV ..) (length_mulMV ..)]
  apply eq_of_toV_eq (length_mulMV ..) (length_addV_aq ..)
  rw [toV_mulMV, toV_vadd k x a hx ha, toV_addV, toV_mulMV, toV_mulMV, Matrix.mulVec_add]

theorem mulMV_smul (n k : Nat) (A : Mat α) (ε : α) (a : Vec α) :
    mulMV n k A (smul ε a) = smul ε (mulMV n k A a) := by
  apply eq_of_toV_eq (length_mulMV ..) (by rw [length_smul, length_mulMV])
  rw [toV_mulMV, toV_smul, toV_smul, toV_mulMV, Matrix.mulVec_smul]

theorem dot_smul_left (ε : α) (a b : Vec α) : dot (smul ε a) b = ε * dot a b := by
  rw [dot_comm, dot_smul_right, dot_comm]

theorem vadd_append (x u a b : Vec α) (h : x.length = a.length) :
    vadd x a ++ vadd u b = vadd (x ++ u) (a ++ b) := by
  simp only [vadd, vzip]
  rw [List.zipWith_append h]

theorem smul_append (ε : α) (a b : Vec α) : smul ε a ++ smul ε b = smul ε (a ++ b) := by
  simp [smul]

/-- exact second-order expansion of `z ↦ ½ zᵀHz + gᵀz` for symmetric `H`. -/
theorem quad_expand (n : Nat) (H : Mat α) (g z w : Vec α) (hz : z.length = n) (hw : w.length = n)
    (hgl : g.length = n) (hH : (toM n n H)ᵀ = toM n n H) :
    1 / 2 * dot (vadd z w) (mulMV n n H (vadd z w)) + dot g (vadd z w)
      = (1 / 2 * dot z (mulMV n n H z) + dot g z) + dot (addV n (mulMV n n H z) g) w
        + 1 / 2 * dot w (mulMV n n H w) := by
  have hzw : (vadd z w).length = n := by rw [length_vadd, hz, hw, min_self]
  rw [dot_eq_dotProduct n _ _ hzw (length_mulMV ..), dot_eq_dotProduct n g _ hgl hzw,
    dot_eq_dotProduct n z _ hz (length_mulMV ..), dot_eq_dotProduct n g z hgl hz,
    dot_eq_dotProduct n _ w (length_addV_aq ..) hw, dot_eq_dotProduct n w _ hw (length_mulMV ..)]
  simp only [toV_mulMV, toV_vadd n z w hz hw, toV_addV, Matrix.mulVec_add, dotProduct_add, add_dotProduct]
  have hs : toV n z ⬝ᵥ toM n n H *ᵥ toV n w = toV n w ⬝ᵥ toM n n H *ᵥ toV n z := by
    rw [Matrix.dotProduct_mulVec, dotProduct_comm]
    congr 1
    conv_lhs => rw [← hH]
    exact Matrix.vecMul_transpose _ _
  have hc : (toM n n H *ᵥ toV n z) ⬝ᵥ toV n w = toV n w ⬝ᵥ toM n n H *ᵥ toV n z := dotProduct_comm _ _
  rw [hs, hc]
  ring

/-! ### every matrix-defined affine-quadratic problem is in the class -/

/-- Data of an affine-quadratic OCP without outputs (`nh = nh_N = 0`; the cost acts on `(x; u)`):
    `f_t(x,u) = A_t x + B_t u + b_t`, `ℓ_t(z) = ½ zᵀH_t z + g_tᵀz` (`z = (x; u)`),
    `ℓ_N(x) = ½ xᵀH_N x + g_Nᵀx`, `c_t(x) = E_t x + e_t`, `c_N(x) = E_N x + e_N`. -/
structure AQData (α : Type) where
  A : Nat → Mat α
  B : Nat → Mat α
  b : Nat → Vec α
  H : Nat → Mat α
  g : Nat → Vec α
  HN : Mat α
  gN : Vec α
  E : Nat → Mat α
  e : Nat → Vec α
  EN : Mat α
  eN : Vec α

/-- the control problem (all twelve oracles) defined by the data. -/
def AQData.toOCP (d : AQData α) (nx nu nc ncN : Nat) : OCP α where
  f t x u := addV nx (addV nx (mulMV nx nx (d.A t) x) (mulMV nx nu (d.B t) u)) (d.b t)
  h _ _ _ := []
  hN _ := []
  l t z := 1 / 2 * dot z (mulMV (nx + nu) (nx + nu) (d.H t) z) + dot (d.g t) z
  lN x := 1 / 2 * dot x (mulMV nx nx d.HN x) + dot d.gN x
  c t x := addV nc (mulMV nc nx (d.E t) x) (d.e t)
  cN x := addV ncN (mulMV ncN nx d.EN x) d.eN
  gradFProd t _ _ p := mulTV nx nx (d.A t) p ++ mulTV nu nx (d.B t) p
  qr t xu _ := addV (nx + nu) (mulMV (nx + nu) (nx + nu) (d.H t) xu) (d.g t)
  qN x _ := addV nx (mulMV nx nx d.HN x) d.gN
  gradCProd t _ p := mulTV nx nc (d.E t) p
  gradCProdN _ p := mulTV nx ncN d.EN p

theorem AQData.wellDim (d : AQData α) (nx nu nc ncN : Nat) :
    WellDim (d.toOCP nx nu nc ncN) nx 0 nc 0 ncN :=
  ⟨fun _ _ _ => length_addV_aq .., fun _ _ _ => rfl, fun _ => rfl, fun _ _ => length_addV_aq ..,
   fun _ => length_addV_aq ..⟩

theorem AQData.gradDim (d : AQData α) (nx nu nc ncN : Nat) :
    GradDim (d.toOCP nx nu nc ncN) nx nu :=
  ⟨fun _ _ _ _ => by simp [AQData.toOCP, length_mulTV], fun _ _ _ => length_addV_aq ..,
   fun _ _ => length_addV_aq .., fun _ _ _ => length_mulTV .., fun _ _ => length_mulTV ..⟩

/-- symmetric Hessians and gradient vectors of the right length -/
structure AQData.WF (d : AQData α) (nx nu : Nat) : Prop where
  H : ∀ t, (toM (nx + nu) (nx + nu) (d.H t))ᵀ = toM (nx + nu) (nx + nu) (d.H t)
  g : ∀ t, (d.g t).length = nx + nu
  HN : (toM nx nx d.HN)ᵀ = toM nx nx d.HN
  gN : d.gN.length = nx

/-- **the class is inhabited by every matrix-defined affine-quadratic problem.** -/
def AQData.affQuad (d : AQData α) (nx nu nc ncN : Nat) (hwf : d.WF nx nu) :
    AffQuad (d.toOCP nx nu nc ncN) nx nu 0 nc 0 ncN where
  jac t a b := addV nx (mulMV nx nx (d.A t) a) (mulMV nx nu (d.B t) b)
  cJ t a := mulMV nc nx (d.E t) a
  cJN a := mulMV ncN nx d.EN a
  lq t a b := 1 / 2 * dot (a ++ b) (mulMV (nx + nu) (nx + nu) (d.H t) (a ++ b))
  lqN a := 1 / 2 * dot a (mulMV nx nx d.HN a)
  jac_len _ _ _ _ _ := length_addV_aq ..
  cJ_len _ _ _ := length_mulMV ..
  cJN_len _ _ := length_mulMV ..
  f_aff t x u a b hx hu ha hb := by
    show addV nx (addV nx (mulMV nx nx (d.A t) (vadd x a)) (mulMV nx nu (d.B t) (vadd u b))) (d.b t)
      = vadd (addV nx (addV nx (mulMV nx nx (d.A t) x) (mulMV nx nu (d.B t) u)) (d.b t))
          (addV nx (mulMV nx nx (d.A t) a) (mulMV nx nu (d.B t) b))
    rw [vadd_eq_addV nx _ _ (length_addV_aq ..) (length_addV_aq ..)]
    apply eq_of_toV_eq (length_addV_aq ..) (length_addV_aq ..)
    simp only [toV_addV, toV_mulMV, toV_vadd nx x a hx ha, toV_vadd nu u b hu hb, Matrix.mulVec_add]
    ext i; simp only [Pi.add_apply]; ring
  f_adj t x u lam a b hl ha hb := by
    show dot (mulTV nx nx (d.A t) lam ++ mulTV nu nx (d.B t) lam) (a ++ b)
      = dot lam (addV nx (mulMV nx nx (d.A t) a) (mulMV nx nu (d.B t) b))
    rw [dot_append _ _ _ _ (by rw [length_mulTV, ha]), dot_mulTV nx nx _ lam a hl ha,
      dot_mulTV nx nu _ lam b hl hb,
      ← vadd_eq_addV nx _ _ (length_mulMV ..) (length_mulMV ..),
      dot_vadd_right _ _ _ (by rw [length_mulMV, length_mulMV])]
  l_quad t x u a b hx hu ha hb := by
    show 1 / 2 * dot (vadd x a ++ vadd u b) (mulMV (nx + nu) (nx + nu) (d.H t) (vadd x a ++ vadd u b))
        + dot (d.g t) (vadd x a ++ vadd u b)
      = (1 / 2 * dot (x ++ u) (mulMV (nx + nu) (nx + nu) (d.H t) (x ++ u)) + dot (d.g t) (x ++ u))
        + dot (addV (nx + nu) (mulMV (nx + nu) (nx + nu) (d.H t) (x ++ u)) (d.g t)) (a ++ b)
        + 1 / 2 * dot (a ++ b) (mulMV (nx + nu) (nx + nu) (d.H t) (a ++ b))
    rw [vadd_append x u a b (by rw [hx, ha])]
    exact quad_expand (nx + nu) (d.H t) (d.g t) (x ++ u) (a ++ b) (by simp [hx, hu]) (by simp [ha, hb])
      (hwf.g t) (hwf.H t)
  lN_quad x a hx ha := by
    show 1 / 2 * dot (vadd x a) (mulMV nx nx d.HN (vadd x a)) + dot d.gN (vadd x a)
      = (1 / 2 * dot x (mulMV nx nx d.HN x) + dot d.gN x)
        + dot (addV nx (mulMV nx nx d.HN x) d.gN) a + 1 / 2 * dot a (mulMV nx nx d.HN a)
    exact quad_expand nx d.HN d.gN x a hx ha hwf.gN hwf.HN
  c_aff t x a hx ha := by
    show addV nc (mulMV nc nx (d.E t) (vadd x a)) (d.e t)
      = vadd (addV nc (mulMV nc nx (d.E t) x) (d.e t)) (mulMV nc nx (d.E t) a)
    rw [vadd_eq_addV nc _ _ (length_addV_aq ..) (length_mulMV ..)]
    apply eq_of_toV_eq (length_addV_aq ..) (length_addV_aq ..)
    simp only [toV_addV, toV_mulMV, toV_vadd nx x a hx ha, Matrix.mulVec_add]
    ext i; simp only [Pi.add_apply]; ring
  c_adj t x p a hp ha := dot_mulTV nc nx _ p a hp ha
  cN_aff x a hx ha := by
    show addV ncN (mulMV ncN nx d.EN (vadd x a)) d.eN
      = vadd (addV ncN (mulMV ncN nx d.EN x) d.eN) (mulMV ncN nx d.EN a)
    rw [vadd_eq_addV ncN _ _ (length_addV_aq ..) (length_mulMV ..)]
    apply eq_of_toV_eq (length_addV_aq ..) (length_addV_aq ..)
    simp only [toV_addV, toV_mulMV, toV_vadd nx x a hx ha, Matrix.mulVec_add]
    ext i; simp only [Pi.add_apply]; ring
  cN_adj x p a hp ha := dot_mulTV ncN nx _ p a hp ha
  jac_smul t ε a b := by
    apply eq_of_toV_eq (length_addV_aq ..) (by rw [length_smul, length_addV_aq])
    simp only [toV_addV, toV_smul, mulMV_smul, smul_add]
  cJ_smul t ε a := mulMV_smul ..
  cJN_smul ε a := mulMV_smul ..
  lq_smul t ε a b := by
    rw [smul_append, mulMV_smul, dot_smul_left, dot_smul_right]; ring
  lqN_smul ε a := by
    rw [mulMV_smul, dot_smul_left, dot_smul_right]; ring
end Alpaqa.C12
