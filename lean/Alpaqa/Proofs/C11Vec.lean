/-
  C11 helper lemmas, part 1: the executable list-vector layer (`dot`, `sqNorm`, `vadd`, `vsub`,
  `smul`, `vneg` of `Model/Vec.lean`, i.e. Eigen's left folds) as an inner-product space on lists
  of a common length.
-/
import Alpaqa.Proofs.Basic
import Mathlib.Tactic.LinearCombination
import Alpaqa.Model.C11

namespace Alpaqa.C11
open Alpaqa
set_option linter.unusedSectionVars false
set_option linter.unusedVariables false

section field
variable {α : Type} [Field α]

theorem foldl_add_eq (x : α) (xs : List α) : xs.foldl (· + ·) x = x + xs.sum := by
  induction xs generalizing x with
  | nil => simp
  | cons y ys ih => simp [List.foldl_cons, ih, add_assoc]

theorem vsum_eq_sum (l : List α) : vsum l = l.sum := by
  cases l with
  | nil => simp [vsum, redux]
  | cons x xs => simp [vsum, redux, foldl_add_eq]

@[simp] theorem dot_nil_left (b : List α) : dot ([] : List α) b = 0 := by
  simp [dot, vmul, vzip, vsum_eq_sum]
@[simp] theorem dot_nil_right (a : List α) : dot a ([] : List α) = 0 := by
  simp [dot, vmul, vzip, vsum_eq_sum]
@[simp] theorem dot_cons (x y : α) (a b : List α) : dot (x :: a) (y :: b) = x * y + dot a b := by
  simp [dot, vmul, vzip, vsum_eq_sum]

@[simp] theorem vsub_cons (x y : α) (a b : List α) : vsub (x :: a) (y :: b) = (x - y) :: vsub a b := rfl
@[simp] theorem vadd_cons (x y : α) (a b : List α) : vadd (x :: a) (y :: b) = (x + y) :: vadd a b := rfl
@[simp] theorem smul_cons (k x : α) (a : List α) : smul k (x :: a) = (k * x) :: smul k a := rfl
@[simp] theorem smul_nil (k : α) : smul k ([] : List α) = [] := rfl
@[simp] theorem vneg_cons (x : α) (a : List α) : vneg (x :: a) = (-x) :: vneg a := rfl
@[simp] theorem vneg_nil : vneg ([] : List α) = [] := rfl
@[simp] theorem vsub_nil_left (b : List α) : vsub ([] : List α) b = [] := by simp [vsub, vzip]
@[simp] theorem vsub_nil_right (a : List α) : vsub a ([] : List α) = [] := by simp [vsub, vzip]
@[simp] theorem vadd_nil_left (b : List α) : vadd ([] : List α) b = [] := by simp [vadd, vzip]
@[simp] theorem vadd_nil_right (a : List α) : vadd a ([] : List α) = [] := by simp [vadd, vzip]

@[simp] theorem length_smul (k : α) (a : List α) : (smul k a).length = a.length := by simp [smul]
@[simp] theorem length_vneg (a : List α) : (vneg a).length = a.length := by simp [vneg]
@[simp] theorem length_vsub (a b : List α) : (vsub a b).length = min a.length b.length := by
  simp [vsub, vzip, List.length_zipWith]
@[simp] theorem length_vadd (a b : List α) : (vadd a b).length = min a.length b.length := by
  simp [vadd, vzip, List.length_zipWith]
@[simp] theorem length_zeros (n : Nat) : (zeros n : List α).length = n := by simp [zeros]

theorem dot_comm (a b : List α) : dot a b = dot b a := by
  induction a generalizing b with
  | nil => simp
  | cons x a ih => cases b with
    | nil => simp
    | cons y b => simp [ih b, mul_comm]

theorem dot_smul_left (k : α) (a b : List α) : dot (smul k a) b = k * dot a b := by
  induction a generalizing b with
  | nil => simp
  | cons x a ih => cases b with
    | nil => simp
    | cons y b => simp [ih b]; ring

theorem dot_smul_right (k : α) (a b : List α) : dot a (smul k b) = k * dot a b := by
  rw [dot_comm, dot_smul_left, dot_comm]

theorem dot_vadd_left (a b c : List α) (h : a.length = b.length) :
    dot (vadd a b) c = dot a c + dot b c := by
  induction a generalizing b c with
  | nil => cases b with
    | nil => simp
    | cons _ _ => simp at h
  | cons x a ih => cases b with
    | nil => simp at h
    | cons y b => cases c with
      | nil => simp
      | cons z c => simp [ih b c (by simpa using h)]; ring

theorem dot_vadd_right (a b c : List α) (h : b.length = c.length) :
    dot a (vadd b c) = dot a b + dot a c := by
  rw [dot_comm, dot_vadd_left _ _ _ h, dot_comm b, dot_comm c]

theorem sqNorm_eq_dot (a : List α) : sqNorm a = dot a a := by
  unfold sqNorm dot vmul vzip
  rw [List.zipWith_self]

theorem vneg_eq_smul (a : List α) : vneg a = smul (-1) a := by
  induction a with
  | nil => rfl
  | cons x a ih => simp [ih]

theorem vsub_eq_vadd_smul (a b : List α) : vsub a b = vadd a (smul (-1) b) := by
  induction a generalizing b with
  | nil => simp
  | cons x a ih => cases b with
    | nil => simp
    | cons y b => simp [ih b]; ring

theorem smul_smul (a b : α) (v : List α) : smul a (smul b v) = smul (a * b) v := by
  induction v with
  | nil => rfl
  | cons x v ih => simp [ih, mul_assoc]

theorem vadd_assoc (a b c : List α) : vadd (vadd a b) c = vadd a (vadd b c) := by
  induction a generalizing b c with
  | nil => simp
  | cons x a ih => cases b with
    | nil => simp
    | cons y b => cases c with
      | nil => simp
      | cons z c => simp [ih b c, add_assoc]

theorem vadd_zeros_left (a : List α) : vadd (zeros a.length) a = a := by
  induction a with
  | nil => rfl
  | cons x a ih =>
    have : (zeros (x :: a).length : List α) = 0 :: zeros a.length := by simp [zeros, List.replicate_succ]
    rw [this, vadd_cons, ih, zero_add]

@[simp] theorem dot_zeros_left (n : Nat) (a : List α) : dot (zeros n) a = 0 := by
  induction a generalizing n with
  | nil => simp
  | cons x a ih => cases n with
    | zero => simp [zeros]
    | succ n =>
      have : (zeros (n + 1) : List α) = 0 :: zeros n := by simp [zeros, List.replicate_succ]
      rw [this, dot_cons, ih n]; ring

@[simp] theorem dot_zeros_right (n : Nat) (a : List α) : dot a (zeros n) = 0 := by
  rw [dot_comm]; simp

theorem smul_zero_eq_zeros (a : List α) : smul (0 : α) a = zeros a.length := by
  induction a with
  | nil => rfl
  | cons x a ih =>
    have : (zeros (x :: a).length : List α) = 0 :: zeros a.length := by simp [zeros, List.replicate_succ]
    rw [this, smul_cons, ih, zero_mul]

/-- `‖z + t d‖² = ‖z‖² + t·2⟨z,d⟩ + t²‖d‖²`. -/
theorem sqNorm_line (z d : List α) (t : α) (h : z.length = d.length) :
    sqNorm (vadd z (smul t d)) = sqNorm z + t * (2 * dot z d) + t * t * sqNorm d := by
  rw [sqNorm_eq_dot, sqNorm_eq_dot, sqNorm_eq_dot,
      dot_vadd_left _ _ _ (by simp [h]), dot_vadd_right _ _ _ (by simp [h]),
      dot_vadd_right _ _ _ (by simp [h]), dot_smul_left, dot_smul_left, dot_smul_right, dot_smul_right,
      dot_comm d z]
  ring

end field

section ordered
variable {α : Type} [Field α] [LinearOrder α] [IsStrictOrderedRing α]

theorem dot_self_nonneg (q : List α) : 0 ≤ dot q q := by
  induction q with
  | nil => simp
  | cons x q ih => simp only [dot_cons]; nlinarith [mul_self_nonneg x]

theorem sqNorm_nonneg (q : List α) : 0 ≤ sqNorm q := by
  rw [sqNorm_eq_dot]; exact dot_self_nonneg q

/-- A vector of zero norm is orthogonal to everything. -/
theorem dot_eq_zero_of_sqNorm_eq_zero (d r : List α) (h : sqNorm d = 0) : dot r d = 0 := by
  rw [sqNorm_eq_dot] at h
  induction d generalizing r with
  | nil => simp
  | cons x d ih => cases r with
    | nil => simp
    | cons y r =>
      simp only [dot_cons] at h ⊢
      have h1 : 0 ≤ x * x := mul_self_nonneg x
      have h2 := dot_self_nonneg d
      have hx : x * x = 0 := by linarith
      have hd : dot d d = 0 := by linarith
      have : x = 0 := mul_self_eq_zero.mp hx
      rw [this, ih r hd]; ring

end ordered
end Alpaqa.C11
