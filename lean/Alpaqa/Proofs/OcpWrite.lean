/-
  `write_solution` of PANOC-OCP on the *flat* vectors handed back to the caller.

  The model's `writeSolution` works stage by stage on slices of `y`, `μ` and on the constraint values
  stored in the trajectory (`P.ck traj t`).  Under the size relations the C++ asserts —
  `|y| = |μ| = N·nc + nc_N`, `|D| = nc`, `|D_N| = nc_N`, `nc` resp. `nc_N` stored constraint values per stage —
  no `zipWith` truncates, the outputs have `N·nc + nc_N` entries, and entry `i = nc·t + j` (stage `t`,
  component `j`; `t = N` for the terminal constraint) satisfies, for nonzero penalties,
      `err_z[i] = c_t[j] − Π_[D.lb[j], D.ub[j]](c_t[j] + y[i]/μ[i])`,   `y_out[i] = y[i] + μ[i]·err_z[i]`.
-/
import Alpaqa.Props.C03_Ocp

namespace Alpaqa.Ocp
open Alpaqa Alpaqa.Gen Alpaqa.Props
set_option linter.unusedSectionVars false
set_option linter.unusedVariables false

variable {α : Type} [Field α] [LinearOrder α] [IsStrictOrderedRing α] [RealLike α]

/-- `e = c − Π_[l,h](c + y/μ)` -/
def specE (c y m l h : α) : α := c - min (max (c + y / m) l) h

theorem writeStageSpec_sized (c y m l h : Vec α) (n : Nat) (h1 : c.length = n) (h2 : y.length = n)
    (h3 : m.length = n) (h4 : l.length = n) (h5 : h.length = n) :
    (C03_Ocp.writeStageSpec c y m l h).1.length = n ∧ (C03_Ocp.writeStageSpec c y m l h).2.length = n ∧
    ∀ j < n,
      (C03_Ocp.writeStageSpec c y m l h).1.getD j 0 =
        specE (c.getD j 0) (y.getD j 0) (m.getD j 0) (l.getD j 0) (h.getD j 0) ∧
      (C03_Ocp.writeStageSpec c y m l h).2.getD j 0 =
        y.getD j 0 + m.getD j 0 * (C03_Ocp.writeStageSpec c y m l h).1.getD j 0 := by
  induction c generalizing y m l h n with
  | nil => simp at h1; subst h1; simp [C03_Ocp.writeStageSpec]
  | cons c0 cs ih =>
    cases y with
    | nil => simp at h2; subst h2; simp at h1
    | cons y0 ys =>
      cases m with
      | nil => simp at h3; subst h3; simp at h1
      | cons m0 ms =>
        cases l with
        | nil => simp at h4; subst h4; simp at h1
        | cons l0 ls =>
          cases h with
          | nil => simp at h5; subst h5; simp at h1
          | cons h0 hs =>
            cases n with
            | zero => simp at h1
            | succ k =>
              have := ih ys ms ls hs k (by simpa using h1) (by simpa using h2) (by simpa using h3)
                (by simpa using h4) (by simpa using h5)
              simp only [C03_Ocp.writeStageSpec, List.length_cons]
              refine ⟨by rw [this.1], by rw [this.2.1], ?_⟩
              intro j hj
              cases j with
              | zero => simp [specE]
              | succ j' =>
                have := this.2.2 j' (by omega)
                simpa using this

theorem getD_append_lt (a b : List α) (i : Nat) (h : i < a.length) : (a ++ b).getD i 0 = a.getD i 0 := by
  simp [List.getD_eq_getElem?_getD, List.getElem?_append_left h]

theorem getD_append_ge (a b : List α) (i : Nat) (h : a.length ≤ i) :
    (a ++ b).getD i 0 = b.getD (i - a.length) 0 := by
  simp [List.getD_eq_getElem?_getD, List.getElem?_append_right h]

/-- indexing into a concatenation of `N` blocks of `n` entries followed by a tail -/
theorem blocks_getD (f : Nat → List α) (n : Nat) (tail : List α) (N : Nat)
    (hlen : ∀ t < N, (f t).length = n) :
    (((List.range N).map f).flatten ++ tail).length = n * N + tail.length ∧
    (∀ t < N, ∀ j < n, (((List.range N).map f).flatten ++ tail).getD (n * t + j) 0 = (f t).getD j 0) ∧
    (∀ j, (((List.range N).map f).flatten ++ tail).getD (n * N + j) 0 = tail.getD j 0) := by
  induction N generalizing f with
  | zero => simp
  | succ N ih =>
    have h0 : (f 0).length = n := hlen 0 (by omega)
    have hih := ih (fun t => f (t + 1)) (fun t ht => hlen (t + 1) (by omega))
    rw [List.range_succ_eq_map, List.map_cons, List.map_map, List.flatten_cons, List.append_assoc]
    have e : ((List.range N).map (f ∘ Nat.succ)) = (List.range N).map (fun t => f (t + 1)) := rfl
    rw [e]
    refine ⟨?_, ?_, ?_⟩
    · rw [List.length_append, hih.1, h0]; ring
    · intro t ht j hj
      cases t with
      | zero =>
        rw [Nat.mul_zero, Nat.zero_add, getD_append_lt _ _ _ (by rw [h0]; exact hj)]
      | succ t' =>
        have hge : (f 0).length ≤ n * (t' + 1) + j := by rw [h0]; nlinarith
        rw [getD_append_ge _ _ _ hge, h0]
        have : n * (t' + 1) + j - n = n * t' + j := by
          rw [Nat.mul_succ]; omega
        rw [this]
        exact hih.2.1 t' (by omega) j hj
    · intro j
      have hge : (f 0).length ≤ n * (N + 1) + j := by rw [h0]; nlinarith
      rw [getD_append_ge _ _ _ hge, h0]
      have : n * (N + 1) + j - n = n * N + j := by rw [Nat.mul_succ]; omega
      rw [this]
      exact hih.2.2 j

theorem slice_getD (v : Vec α) (k n j : Nat) (hj : j < n) :
    ((v.drop k).take n).getD j 0 = v.getD (k + j) 0 := by
  simp [List.getD_eq_getElem?_getD, List.getElem?_take, hj]

theorem slice_length (v : Vec α) (k n : Nat) (h : k + n ≤ v.length) : ((v.drop k).take n).length = n := by
  simp only [List.length_take, List.length_drop]; omega

/-- The C++ size relations of `write_solution`. -/
structure WriteSized (P : Prob α) (traj y mu : Vec α) : Prop where
  y : y.length = P.nc * P.N + P.ncN
  mu : mu.length = P.nc * P.N + P.ncN
  dlb : P.Dlb.length = P.nc
  dub : P.Dub.length = P.nc
  dnlb : P.DNlb.length = P.ncN
  dnub : P.DNub.length = P.ncN
  ck : ∀ t < P.N, (P.ck traj t).length = P.nc
  ckN : (P.ck traj P.N).length = P.ncN
  some : (P.nc > 0 || P.ncN > 0) = true

/-- **`write_solution` on the flat vectors**: sizes and the entrywise relations. -/
theorem writeSolution_flat (P : Prob α) (uh traj y mu e0 : Vec α) (hs : WriteSized P traj y mu)
    (hm : ∀ x ∈ mu, x ≠ 0) :
    (writeSolution P uh traj y mu e0).2.1.length = P.nc * P.N + P.ncN ∧
    (writeSolution P uh traj y mu e0).2.2.length = P.nc * P.N + P.ncN ∧
    (∀ t < P.N, ∀ j < P.nc,
      (writeSolution P uh traj y mu e0).2.2.getD (P.nc * t + j) 0 =
        specE ((P.ck traj t).getD j 0) (y.getD (P.nc * t + j) 0) (mu.getD (P.nc * t + j) 0)
          (P.Dlb.getD j 0) (P.Dub.getD j 0) ∧
      (writeSolution P uh traj y mu e0).2.1.getD (P.nc * t + j) 0 =
        y.getD (P.nc * t + j) 0 +
          mu.getD (P.nc * t + j) 0 * (writeSolution P uh traj y mu e0).2.2.getD (P.nc * t + j) 0) ∧
    (∀ j < P.ncN,
      (writeSolution P uh traj y mu e0).2.2.getD (P.nc * P.N + j) 0 =
        specE ((P.ck traj P.N).getD j 0) (y.getD (P.nc * P.N + j) 0) (mu.getD (P.nc * P.N + j) 0)
          (P.DNlb.getD j 0) (P.DNub.getD j 0) ∧
      (writeSolution P uh traj y mu e0).2.1.getD (P.nc * P.N + j) 0 =
        y.getD (P.nc * P.N + j) 0 +
          mu.getD (P.nc * P.N + j) 0 * (writeSolution P uh traj y mu e0).2.2.getD (P.nc * P.N + j) 0) := by
  have hmslice : ∀ k n, ∀ x ∈ (mu.drop k).take n, x ≠ 0 := fun k n x hx =>
    hm x (List.mem_of_mem_drop (List.mem_of_mem_take hx))
  -- per-stage facts
  have hst : ∀ t < P.N,
      writeStage (P.ck traj t) ((y.drop (P.nc * t)).take P.nc) ((mu.drop (P.nc * t)).take P.nc) P.Dlb P.Dub =
        C03_Ocp.writeStageSpec (P.ck traj t) ((y.drop (P.nc * t)).take P.nc) ((mu.drop (P.nc * t)).take P.nc)
          P.Dlb P.Dub := fun t _ => C03_Ocp.writeStage_spec _ _ _ _ _ (hmslice _ _)
  have hle : ∀ t < P.N, P.nc * t + P.nc ≤ P.nc * P.N + P.ncN := by
    intro t ht
    have : P.nc * (t + 1) ≤ P.nc * P.N := Nat.mul_le_mul_left _ (by omega)
    rw [Nat.mul_succ] at this; omega
  have hsz : ∀ t < P.N, _ := fun t ht =>
    writeStageSpec_sized (P.ck traj t) ((y.drop (P.nc * t)).take P.nc) ((mu.drop (P.nc * t)).take P.nc)
      P.Dlb P.Dub P.nc (hs.ck t ht) (slice_length y _ _ (by rw [hs.y]; exact hle t ht))
      (slice_length mu _ _ (by rw [hs.mu]; exact hle t ht)) hs.dlb hs.dub
  have hszN := writeStageSpec_sized (P.ck traj P.N) ((y.drop (P.nc * P.N)).take P.ncN)
      ((mu.drop (P.nc * P.N)).take P.ncN) P.DNlb P.DNub P.ncN hs.ckN
      (slice_length y _ _ (by rw [hs.y])) (slice_length mu _ _ (by rw [hs.mu])) hs.dnlb hs.dnub
  have hN := C03_Ocp.writeStage_spec (P.ck traj P.N) ((y.drop (P.nc * P.N)).take P.ncN)
      ((mu.drop (P.nc * P.N)).take P.ncN) P.DNlb P.DNub (hmslice _ _)
  unfold writeSolution
  rw [if_pos hs.some]
  simp only [List.map_map, Function.comp_def]
  have by_ := blocks_getD
    (fun t => (writeStage (P.ck traj t) ((y.drop (P.nc * t)).take P.nc) ((mu.drop (P.nc * t)).take P.nc)
      P.Dlb P.Dub).2) P.nc
    (writeStage (P.ck traj P.N) ((y.drop (P.nc * P.N)).take P.ncN) ((mu.drop (P.nc * P.N)).take P.ncN)
      P.DNlb P.DNub).2 P.N (fun t ht => by rw [hst t ht]; exact (hsz t ht).2.1)
  have be_ := blocks_getD
    (fun t => (writeStage (P.ck traj t) ((y.drop (P.nc * t)).take P.nc) ((mu.drop (P.nc * t)).take P.nc)
      P.Dlb P.Dub).1) P.nc
    (writeStage (P.ck traj P.N) ((y.drop (P.nc * P.N)).take P.ncN) ((mu.drop (P.nc * P.N)).take P.ncN)
      P.DNlb P.DNub).1 P.N (fun t ht => by rw [hst t ht]; exact (hsz t ht).1)
  refine ⟨?_, ?_, ?_, ?_⟩
  · show (((List.range P.N).map _).flatten ++ _).length = _
    rw [by_.1, hN, hszN.2.1]
  · show (((List.range P.N).map _).flatten ++ _).length = _
    rw [be_.1, hN, hszN.1]
  · intro t ht j hj
    constructor
    · show (((List.range P.N).map _).flatten ++ _).getD _ 0 = _
      rw [be_.2.1 t ht j hj, hst t ht, ((hsz t ht).2.2 j hj).1, slice_getD _ _ _ _ hj, slice_getD _ _ _ _ hj]
    · show (((List.range P.N).map _).flatten ++ _).getD _ 0 =
        _ + _ * (((List.range P.N).map _).flatten ++ _).getD _ 0
      rw [by_.2.1 t ht j hj, be_.2.1 t ht j hj, hst t ht, ((hsz t ht).2.2 j hj).2, slice_getD _ _ _ _ hj,
        slice_getD _ _ _ _ hj]
  · intro j hj
    constructor
    · show (((List.range P.N).map _).flatten ++ _).getD _ 0 = _
      rw [be_.2.2 j, hN, (hszN.2.2 j hj).1, slice_getD _ _ _ _ hj, slice_getD _ _ _ _ hj]
    · show (((List.range P.N).map _).flatten ++ _).getD _ 0 =
        _ + _ * (((List.range P.N).map _).flatten ++ _).getD _ 0
      rw [by_.2.2 j, be_.2.2 j, hN, (hszN.2.2 j hj).2, slice_getD _ _ _ _ hj, slice_getD _ _ _ _ hj]

end Alpaqa.Ocp
