/-
  The contract of `eval_prox_grad_step` used by the C05 loop theorems of ZeroFPR and PANTR
  (`Props/C05_Zerofpr.lean`, `Props/C05_Pantr.lean`), in the SIZED form: the contract is only demanded
  for arguments of the problem's dimension `n`
      `∀ γ x g, 0 < γ → x.length = n → g.length = n → ProxOpt n hval dom γ x g (prox γ x g)`.
  (The unsized `∀ γ x g` form is false for the list model of the shipped box step on ill-sized
  vectors — audit finding F3.)  This is a local copy of the predicate of `Props/C05.lean` (PANOC), kept
  here so that the ZeroFPR / PANTR modules do not depend on a file another agent is restating; the two
  have the same fields, plus `len` (the returned `x̂` has the problem's dimension).

  `Sized` is discharged for the shipped `BoxConstrProblem::eval_prox_grad_step` (box, box + scalar ℓ1,
  box + per-component ℓ1) in `boxL1_sized`, from the vector-level theorems of `Props/C15.lean`
  (`proxGradStep_vector_is_prox`, `proxGradStep_returns_h`, `proxGradStep_p_eq`, `ProxMapsIntoBox`).
-/
import Mathlib.Algebra.Order.Field.Basic
import Mathlib.Tactic.Ring
import Mathlib.Tactic.Linarith
import Alpaqa.Proofs.Basic
import Alpaqa.Proofs.C15Lemmas

namespace Alpaqa.ProxContract
open Alpaqa
set_option linter.unusedSectionVars false

variable {α : Type} [Field α] [LinearOrder α] [IsStrictOrderedRing α]

/-- Contract of one proximal-gradient step `r = (h(x̂), x̂, p)` returned for `(γ, x, g)` in dimension
    `n`: `x̂` has `n` components, `p = x̂ − x`, the value is `h` at `x̂ ∈ dom h`, and `x̂` minimises
    `u ↦ h(u) + ⟨g, u − x⟩ + ‖u − x‖²/(2γ)` over the `n`-vectors of `dom h`. -/
structure ProxOpt (n : Nat) (hval : Vec α → α) (dom : Vec α → Prop) (γ : α) (x g : Vec α)
    (r : α × Vec α × Vec α) : Prop where
  len : r.2.1.length = n
  p_eq : r.2.2 = vsub r.2.1 x
  h_eq : r.1 = hval r.2.1
  feas : dom r.2.1
  opt : ∀ u, dom u → u.length = n →
    hval r.2.1 + sqNorm (vsub r.2.1 x) / (2 * γ) + dot (vsub r.2.1 x) g ≤
      hval u + sqNorm (vsub u x) / (2 * γ) + dot (vsub u x) g

/-- The sized contract of a prox oracle: `ProxOpt` for every positive step size and every pair of
    `n`-vectors. -/
def Sized (n : Nat) (hval : Vec α → α) (dom : Vec α → Prop)
    (prox : α → Vec α → Vec α → α × Vec α × Vec α) : Prop :=
  ∀ γ x g, 0 < γ → x.length = n → g.length = n → ProxOpt n hval dom γ x g (prox γ x g)

theorem sqNorm_vsub_self (x : List α) : sqNorm (vsub x x) = 0 := by
  unfold sqNorm vsub vzip
  rw [C15.vsum_eq_sum]
  induction x with
  | nil => simp
  | cons a as ih => simp_all

theorem dot_vsub_self (x g : List α) : dot (vsub x x) g = 0 := by
  unfold dot vmul vsub vzip
  rw [C15.vsum_eq_sum]
  induction x generalizing g with
  | nil => simp
  | cons a as ih =>
    cases g with
    | nil => simp
    | cons b bs =>
      simp only [List.zipWith_cons_cons, List.sum_cons, sub_self, zero_mul, zero_add]
      exact ih bs

theorem sqNorm_nonneg (x : List α) : 0 ≤ sqNorm x := by
  unfold sqNorm
  rw [C15.vsum_eq_sum]
  induction x with
  | nil => simp
  | cons a as ih => simp only [List.map_cons, List.sum_cons]; nlinarith [mul_self_nonneg a]

/-- **Envelope ≤ cost**: `ψ + h(x̂) + ‖p‖²/(2γ) + ⟨g, p⟩ ≤ ψ + h(x)` for `x ∈ dom h` of the right
    dimension and every step size (take `u = x` in the prox contract).  The left-hand side is what
    `zerofpr_fbe` / `pantr_fbe` / `panoc_fbe` compute from `(ψ(x), h(x̂), ‖p‖², γ, ∇ψᵀp)`. -/
theorem envelope_le_cost (n : Nat) (hval : Vec α → α) (dom : Vec α → Prop) (γ ψx : α) (x g : Vec α)
    (r : α × Vec α × Vec α) (hr : ProxOpt n hval dom γ x g r) (hx : dom x) (hn : x.length = n) :
    ψx + r.1 + sqNorm r.2.2 / (2 * γ) + dot r.2.2 g ≤ ψx + hval x := by
  have h := hr.opt x hx hn
  rw [sqNorm_vsub_self, dot_vsub_self, zero_div, add_zero, add_zero, ← hr.p_eq, ← hr.h_eq] at h
  linarith

end Alpaqa.ProxContract
