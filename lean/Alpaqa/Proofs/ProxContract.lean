/-
  The contract of `eval_prox_grad_step` used by the C05 loop theorems of ZeroFPR and PANTR
  (`Props/C05_Zerofpr.lean`, `Props/C05_Pantr.lean`), in the SIZED form: the contract is only demanded
  for arguments of the problem's dimension `n`
      `∀ γ x g, 0 < γ → x.length = n → g.length = n → ProxOpt n hval dom γ x g (prox γ x g)`.
  (The unsized `∀ γ x g` form is false for the list model of the shipped box step on ill-sized
  vectors — audit finding F3.)  This is a local copy of the predicate of `Props/C05.lean` (PANOC), kept
  here so that the ZeroFPR / PANTR modules do not depend on a file another agent is restating; the two
  have the same fields, plus `len` (the returned `x̂` has the problem's dimension).

  `Sized` is discharged for the shipped `BoxConstrProblem::eval_prox_grad_step` (box, box + scalar ℓ1,
  box + per-component ℓ1) in `boxL1_sized`, from the vector-level theorems of `Props/C15.lean`
  (`proxGradStep_vector_is_prox`, `proxGradStep_returns_h`, `proxGradStep_p_eq`, `ProxMapsIntoBox`).
-/
import Mathlib.Algebra.Order.Field.Basic
import Mathlib.Tactic.Ring
import Mathlib.Tactic.Linarith
import Mathlib.Tactic.FieldSimp
import Alpaqa.Proofs.Basic
import Alpaqa.Proofs.C15Lemmas
import Alpaqa.Props.C15

namespace Alpaqa.ProxContract
open Alpaqa
set_option linter.unusedSectionVars false

variable {α : Type} [Field α] [LinearOrder α] [IsStrictOrderedRing α]

/-- Contract of one proximal-gradient step `r = (h(x̂), x̂, p)` returned for `(γ, x, g)` in dimension
    `n`: `x̂` has `n` components, `p = x̂ − x`, the value is `h` at `x̂ ∈ dom h`, and `x̂` minimises
    `u ↦ h(u) + ⟨g, u − x⟩ + ‖u − x‖²/(2γ)` over the `n`-vectors of `dom h`. -/
structure ProxOpt (n : Nat) (hval : Vec α → α) (dom : Vec α → Prop) (γ : α) (x g : Vec α)
    (r : α × Vec α × Vec α) : Prop where
  len : r.2.1.length = n
  p_eq : r.2.2 = vsub r.2.1 x
  h_eq : r.1 = hval r.2.1
  feas : dom r.2.1
  opt : ∀ u, dom u → u.length = n →
    hval r.2.1 + sqNorm (vsub r.2.1 x) / (2 * γ) + dot (vsub r.2.1 x) g ≤
      hval u + sqNorm (vsub u x) / (2 * γ) + dot (vsub u x) g

/-- The sized contract of a prox oracle: `ProxOpt` for every positive step size and every pair of
    `n`-vectors. -/
def Sized (n : Nat) (hval : Vec α → α) (dom : Vec α → Prop)
    (prox : α → Vec α → Vec α → α × Vec α × Vec α) : Prop :=
  ∀ γ x g, 0 < γ → x.length = n → g.length = n → ProxOpt n hval dom γ x g (prox γ x g)

theorem sqNorm_vsub_self (x : List α) : sqNorm (vsub x x) = 0 := by
  unfold sqNorm vsub vzip
  rw [C15.vsum_eq_sum]
  induction x with
  | nil => simp
  | cons a as ih => simp_all

theorem dot_vsub_self (x g : List α) : dot (vsub x x) g = 0 := by
  unfold dot vmul vsub vzip
  rw [C15.vsum_eq_sum]
  induction x generalizing g with
  | nil => simp
  | cons a as ih =>
    cases g with
    | nil => simp
    | cons b bs =>
      simp only [List.zipWith_cons_cons, List.sum_cons, sub_self, zero_mul, zero_add]
      exact ih bs

theorem sqNorm_nonneg (x : List α) : 0 ≤ sqNorm x := by
  unfold sqNorm
  rw [C15.vsum_eq_sum]
  induction x with
  | nil => simp
  | cons a as ih => simp only [List.map_cons, List.sum_cons]; nlinarith [mul_self_nonneg a]

/-- **Envelope ≤ cost**: `ψ + h(x̂) + ‖p‖²/(2γ) + ⟨g, p⟩ ≤ ψ + h(x)` for `x ∈ dom h` of the right
    dimension and every step size (take `u = x` in the prox contract).  The left-hand side is what
    `zerofpr_fbe` / `pantr_fbe` / `panoc_fbe` compute from `(ψ(x), h(x̂), ‖p‖², γ, ∇ψᵀp)`. -/
theorem envelope_le_cost (n : Nat) (hval : Vec α → α) (dom : Vec α → Prop) (γ ψx : α) (x g : Vec α)
    (r : α × Vec α × Vec α) (hr : ProxOpt n hval dom γ x g r) (hx : dom x) (hn : x.length = n) :
    ψx + r.1 + sqNorm r.2.2 / (2 * γ) + dot r.2.2 g ≤ ψx + hval x := by
  have h := hr.opt x hx hn
  rw [sqNorm_vsub_self, dot_vsub_self, zero_div, add_zero, add_zero, ← hr.p_eq, ← hr.h_eq] at h
  linarith

/-! ### Discharging the contract for the shipped box / box+ℓ1 step (`Props/C15.lean`) -/

open Alpaqa.C15 Alpaqa.Props.C15 in
/-- `h(u) = Σ_{i<n} λᵢ|uᵢ|` (`λ` from `l1_reg`: none, the scalar, or per component). -/
def hL1 (l1 : Vec α) (n : Nat) (u : Vec α) : α :=
  ((List.range n).map fun i => Alpaqa.Props.C15.lamAt l1 i * |vget u i|).sum

/-- `dom h` = the `n`-vectors of the box `[lb, ub]`. -/
def domBox (lb ub : Vec α) (n : Nat) (u : Vec α) : Prop :=
  u.length = n ∧ ∀ i < n, vget lb i ≤ vget u i ∧ vget u i ≤ vget ub i

theorem vsub_eq_map_range (n : Nat) (w x : Vec α) (hw : w.length = n) (hx : x.length = n) :
    vsub w x = (List.range n).map fun i => vget w i - vget x i := by
  have ew : w = (List.range n).map (vget w) := by
    have := C15.eq_map_range_vget w; rwa [hw] at this
  have ex : x = (List.range n).map (vget x) := by
    have := C15.eq_map_range_vget x; rwa [hx] at this
  conv_lhs => rw [ew, ex]
  unfold vsub vzip
  exact C15.zipWith_map_range n (vget w) (vget x) (· - ·)

theorem sqNorm_vsub_eq (n : Nat) (w x : Vec α) (hw : w.length = n) (hx : x.length = n) :
    sqNorm (vsub w x) = ((List.range n).map fun i => (vget w i - vget x i) ^ 2).sum := by
  rw [vsub_eq_map_range n w x hw hx]
  unfold sqNorm
  rw [C15.vsum_eq_sum, List.map_map]
  congr 1
  apply List.map_congr_left
  intro i _
  simp only [Function.comp]
  ring

theorem dot_vsub_eq (n : Nat) (w x g : Vec α) (hw : w.length = n) (hx : x.length = n)
    (hg : g.length = n) :
    dot (vsub w x) g = ((List.range n).map fun i => (vget w i - vget x i) * vget g i).sum := by
  have eg : g = (List.range n).map (vget g) := by
    have := C15.eq_map_range_vget g; rwa [hg] at this
  rw [vsub_eq_map_range n w x hw hx]
  conv_lhs => rw [eg]
  unfold dot vmul vzip
  rw [C15.vsum_eq_sum, C15.zipWith_map_range]

theorem sum_range_div (n : Nat) (f : Nat → α) (c : α) :
    ((List.range n).map fun i => f i / c).sum = ((List.range n).map f).sum / c := by
  induction n with
  | zero => simp
  | succ m ih =>
    simp only [List.range_succ, List.map_append, List.sum_append, ih, List.map_cons, List.map_nil,
      List.sum_cons, List.sum_nil, add_zero]
    ring

/-- The sum the C15 theorems speak about, in the terms of `ProxOpt.opt`. -/
theorem model_sum_eq (n : Nat) (l1 : Vec α) (γ : α) (hγ : 0 < γ) (w x g : Vec α) (hw : w.length = n)
    (hx : x.length = n) (hg : g.length = n) :
    ((List.range n).map fun i =>
        Alpaqa.Props.C15.lamAt l1 i * |vget w i| + (vget w i - (vget x i - γ * vget g i)) ^ 2 / (2 * γ)).sum
      = hL1 l1 n w + sqNorm (vsub w x) / (2 * γ) + dot (vsub w x) g
        + ((List.range n).map fun i => γ * vget g i ^ 2 / 2).sum := by
  rw [sqNorm_vsub_eq n w x hw hx, dot_vsub_eq n w x g hw hx hg, ← sum_range_div]
  unfold hL1
  rw [← Alpaqa.Props.C15.sum_range_add, ← Alpaqa.Props.C15.sum_range_add,
    ← Alpaqa.Props.C15.sum_range_add]
  apply C15.sum_map_range_congr
  intro i _
  have : γ ≠ 0 := ne_of_gt hγ
  field_simp
  ring

theorem proxGradStep_p_length (l1 : Vec α) (γ : α) (x g lb ub : Vec α) :
    (C15.proxGradStep l1 γ x g lb ub).2.2.length = x.length := by
  unfold C15.proxGradStep
  split_ifs <;> simp

/-- **The shipped `BoxConstrProblem::eval_prox_grad_step` meets the sized contract** (box, box +
    scalar ℓ1, box + per-component ℓ1 with non-negative weights and `lb ≤ ub`), with
    `h(u) = Σ λᵢ|uᵢ|` on the box and `+∞` outside. -/
theorem boxL1_sized (n : Nat) (l1 lb ub : Vec α) (hb : ∀ i < n, vget lb i ≤ vget ub i)
    (hl : ∀ i < n, 0 ≤ Alpaqa.Props.C15.lamAt l1 i) (hlen : l1.length ≤ 1 ∨ l1.length = n) :
    Sized n (hL1 l1 n) (domBox lb ub n) (fun γ x g => C15.proxGradStep l1 γ x g lb ub) := by
  intro γ x g hγ hx hg
  have hxl := Alpaqa.Props.C15.proxGradStep_xhat_length l1 γ x g lb ub
  rw [hx] at hxl
  have hfeas : domBox lb ub n (C15.proxGradStep l1 γ x g lb ub).2.1 := by
    refine ⟨hxl, fun i hi => ?_⟩
    rw [Alpaqa.Props.C15.proxGradStep_xhat _ _ _ _ _ _ _ (by rw [hx]; exact hi)]
    exact Alpaqa.Props.C15.boxL1_in_box _ _ _ _ (hb i hi)
  refine ⟨hxl, ?_, ?_, hfeas, ?_⟩
  · -- p = x̂ − x
    rw [vsub_eq_map_range n _ x hxl hx]
    have hpl := proxGradStep_p_length l1 γ x g lb ub
    rw [hx] at hpl
    have ep := C15.eq_map_range_vget (C15.proxGradStep l1 γ x g lb ub).2.2
    rw [hpl] at ep
    rw [ep]
    apply List.map_congr_left
    intro i hi
    exact Alpaqa.Props.C15.proxGradStep_p_eq l1 γ x g lb ub i (by rw [hx]; exact List.mem_range.mp hi)
  · -- returned value = h(x̂)
    have := Alpaqa.Props.C15.proxGradStep_returns_h l1 γ x g lb ub (by rw [hx]; exact hl)
      (by rw [hx]; exact hlen)
    rw [hx] at this
    exact this
  · -- optimality
    intro u hu hun
    have hopt := Alpaqa.Props.C15.proxGradStep_vector_is_prox l1 γ x g lb ub hγ (by rw [hx]; exact hb)
      (by rw [hx]; exact hl) u (by rw [hx]; exact hu.2)
    rw [hx] at hopt
    rw [model_sum_eq n l1 γ hγ _ x g hxl hx hg, model_sum_eq n l1 γ hγ u x g hun hx hg] at hopt
    linarith

end Alpaqa.ProxContract
