/-
  C12 — algebra of the list-vector layer (`dot`, `vadd`) over a commutative ring: the left-fold
  reductions used for bit-exact execution are sums, bilinear on vectors of equal length.
-/
import Alpaqa.Proofs.Basic
import Mathlib.Algebra.BigOperators.Group.List.Basic
import Mathlib.Algebra.BigOperators.Group.Finset.Basic

namespace Alpaqa.C12
open Alpaqa
variable {α : Type} [Field α]

theorem foldl_add_eq (xs : List α) (x : α) : xs.foldl (· + ·) x = x + xs.sum := by
  induction xs generalizing x with
  | nil => simp
  | cons y ys ih => simp [List.foldl_cons, ih, add_assoc]

theorem vsum_eq_sum (a : List α) : vsum a = a.sum := by
  cases a with
  | nil => simp [vsum, redux]
  | cons x xs => simp [vsum, redux, foldl_add_eq]

theorem dot_eq_sum (a b : List α) : dot a b = (List.zipWith (· * ·) a b).sum := by
  simp [dot, vmul, vzip, vsum_eq_sum]

@[simp] theorem dot_nil_left (b : List α) : dot ([] : List α) b = 0 := by simp [dot_eq_sum]
@[simp] theorem dot_nil_right (a : List α) : dot a ([] : List α) = 0 := by simp [dot_eq_sum]
@[simp] theorem dot_cons (x y : α) (a b : List α) : dot (x :: a) (y :: b) = x * y + dot a b := by
  simp [dot_eq_sum]

theorem dot_comm (a b : List α) : dot a b = dot b a := by
  induction a generalizing b with
  | nil => simp
  | cons x xs ih => cases b with
    | nil => simp
    | cons y ys => simp [ih, mul_comm]

theorem dot_append (a b c d : List α) (h : a.length = c.length) :
    dot (a ++ b) (c ++ d) = dot a c + dot b d := by
  induction a generalizing c with
  | nil => cases c with
    | nil => simp
    | cons _ _ => simp at h
  | cons x xs ih => cases c with
    | nil => simp at h
    | cons y ys =>
      simp only [List.cons_append, dot_cons]
      rw [ih ys (by simpa using h)]; ring

theorem dot_vadd_left (a b c : List α) (h : a.length = b.length) :
    dot (vadd a b) c = dot a c + dot b c := by
  induction a generalizing b c with
  | nil => cases b with
    | nil => simp [vadd, vzip]
    | cons _ _ => simp at h
  | cons x xs ih => cases b with
    | nil => simp at h
    | cons y ys => cases c with
      | nil => simp
      | cons z zs =>
        have := ih ys zs (by simpa using h)
        simp only [vadd, vzip, List.zipWith_cons_cons, dot_cons] at this ⊢
        rw [this]; ring

theorem dot_vadd_right (a b c : List α) (h : b.length = c.length) :
    dot a (vadd b c) = dot a b + dot a c := by
  rw [dot_comm, dot_vadd_left _ _ _ h, dot_comm b, dot_comm c]

theorem dot_replicate_zero (a : List α) (n : Nat) : dot a (List.replicate n (0 : α)) = 0 := by
  induction a generalizing n with
  | nil => simp
  | cons x xs ih => cases n with
    | zero => simp
    | succ n => simp [List.replicate_succ, ih]

theorem dot_take_drop (a b : List α) (n : Nat) :
    dot a b = dot (a.take n) (b.take n) + dot (a.drop n) (b.drop n) := by
  induction n generalizing a b with
  | zero => simp
  | succ n ih => cases a with
    | nil => simp
    | cons x xs => cases b with
      | nil => simp
      | cons y ys => simp [ih xs ys, add_assoc]

theorem length_vadd (a b : List α) : (vadd a b).length = min a.length b.length := by
  simp [vadd, vzip]

end Alpaqa.C12
