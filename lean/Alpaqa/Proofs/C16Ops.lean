/-
  C16 helper lemmas, part 3: structural invariant `InvS` under the composite lifetime steps
  (fill storage and construct, release by exception, steal, small-buffer move, reallocating move,
  copy) and hence under every operation of the model.
-/
import Alpaqa.Proofs.C16Ids

set_option linter.unusedSimpArgs false

namespace Alpaqa.Proofs.C16
open Alpaqa.Gen.C16 Alpaqa.C16

/-! ### More frame lemmas -/

/-- live blocks are below `nblk` -/
theorem live_lt {s : State} (h : InvS s) {b : Nat} (hb : (s.blk b).live = true) : b < s.nblk := by
  cases Nat.lt_or_ge b s.nblk with
  | inl h1 => exact h1
  | inr h1 => have := h.fresh b h1; rw [hb] at this; cases this

/-- Slot `i` (currently empty-handed) takes a freshly allocated block that holds an object. -/
theorem invS_newBlock {s : State} (h : InvS s) {i : Nat} {w : Wrapper} (hw : s.wr i = some w)
    (hs : w.self = none) (w' : Wrapper) (B : Block)
    (h1 : w'.self = some (.blk s.nblk)) (h2 : w'.bufObj = none)
    (h3 : ownsReferencedObject w'.size = true)
    (h4 : allocateUsesSmallBuffer w'.size s.cfg.sbs = false)
    (b1 : B.live = true) (b2 : B.owner = i) (b3 : cls B.alloc = cls w'.alloc)
    (b4 : B.obj.isSome = true) :
    InvS { s with wr := upd s.wr i (some w'), blk := upd s.blk s.nblk B, nblk := s.nblk + 1 } := by
  have hp := fun b' hb ho => owner_points h hw (b := b') hb ho
  have hlt := fun b' hb => live_lt h (b := b') hb
  obtain ⟨a, bb, c, d, e, f, g⟩ := h
  constructor
  · exact a
  · intro j w2 hj
    simp only [upd] at hj
    split at hj
    · cases hj; rename_i hji; subst hji
      refine ⟨by simp [h1], by simp [h1], ?_, by simp [h1]⟩
      intro b' hb'
      rw [h1] at hb'; cases hb'
      simp [upd, h2, h3, h4, b1, b2, b3, b4]
    · have k2 := bb j w2 hj
      refine ⟨k2.1, k2.2.1, ?_, k2.2.2.2⟩
      intro b' hb'
      have k3 := k2.2.2.1 b' hb'
      have hne : b' ≠ s.nblk := by have := hlt b' k3.2.2.2.1; omega
      simpa [upd, hne] using k3
  · intro b' hb
    by_cases hbb : b' = s.nblk
    · subst hbb; exact ⟨w', by simp [upd, b2], h1⟩
    · simp only [upd, hbb, if_false] at hb ⊢
      obtain ⟨w2, hw1, hw2⟩ := c b' hb
      by_cases ho : (s.blk b').owner = i
      · have := hp b' hb ho; rw [hs] at this; cases this
      · exact ⟨w2, by simp [ho, hw1], hw2⟩
  · intro b' hb
    by_cases hbb : b' = s.nblk
    · subst hbb; simp [upd, b1] at hb
    · simp only [upd, hbb, if_false] at hb ⊢; exact d b' hb
  · intro b' hb
    have hbb : b' ≠ s.nblk := by simp only at hb; omega
    simp only [upd, hbb, if_false]; exact e b' (by simp only at hb; omega)
  · intro b' hb hl
    by_cases hbb : b' = s.nblk
    · subst hbb; simp [upd, b1] at hl
    · simp only [upd, hbb, if_false] at hl ⊢
      exact f b' (by simp only at hb; omega) hl
  · exact g

/-- A block is allocated and given back within the same step (constructor threw). -/
theorem invS_newDeadBlock {s : State} (h : InvS s) (B : Block) (b1 : B.live = false)
    (b2 : B.obj = none) (b3 : ∃ a, B.freedBy = some a ∧ cls a = cls B.alloc) :
    InvS { s with blk := upd s.blk s.nblk B, nblk := s.nblk + 1 } := by
  have hlt := fun b' hb => live_lt h (b := b') hb
  obtain ⟨a, bb, c, d, e, f, g⟩ := h
  constructor
  · exact a
  · intro j w2 hj
    have k2 := bb j w2 hj
    refine ⟨k2.1, k2.2.1, ?_, k2.2.2.2⟩
    intro b' hb'
    have k3 := k2.2.2.1 b' hb'
    have hne : b' ≠ s.nblk := by have := hlt b' k3.2.2.2.1; omega
    simpa [upd, hne] using k3
  · intro b' hb
    by_cases hbb : b' = s.nblk
    · subst hbb; simp [upd, b1] at hb
    · simp only [upd, hbb, if_false] at hb ⊢; exact c b' hb
  · intro b' hb
    by_cases hbb : b' = s.nblk
    · subst hbb; simp [upd, b2]
    · simp only [upd, hbb, if_false] at hb ⊢; exact d b' hb
  · intro b' hb
    have hbb : b' ≠ s.nblk := by simp only at hb; omega
    simp only [upd, hbb, if_false]; exact e b' (by simp only at hb; omega)
  · intro b' hb hl
    by_cases hbb : b' = s.nblk
    · subst hbb; simpa [upd] using b3
    · simp only [upd, hbb, if_false] at hl ⊢
      exact f b' (by simp only at hb; omega) hl
  · exact g

/-- Replace the object in a block by another object (the block keeps holding one). -/
theorem invS_blkObj {s : State} (h : InvS s) {b : Nat} (hb : (s.blk b).obj.isSome = true)
    (o' : Obj) : InvS { s with blk := upd s.blk b { s.blk b with obj := some o' } } := by
  obtain ⟨a, bb, c, d, e, f, g⟩ := h
  have hlive : (s.blk b).live = true := by
    cases hq : (s.blk b).live with
    | true => rfl
    | false => have := d b hq; rw [this] at hb; cases hb
  constructor
  · exact a
  · intro j w2 hj
    have k2 := bb j w2 hj
    refine ⟨k2.1, k2.2.1, ?_, k2.2.2.2⟩
    intro b' hb'
    have k3 := k2.2.2.1 b' hb'
    by_cases hbb : b' = b
    · subst hbb; simp only [upd_same]
      exact ⟨k3.1, k3.2.1, k3.2.2.1, k3.2.2.2.1, k3.2.2.2.2.1, k3.2.2.2.2.2.1, rfl⟩
    · simpa [upd, hbb] using k3
  · intro b' hb'
    by_cases hbb : b' = b
    · subst hbb; simpa [upd] using c b' hlive
    · simp only [upd, hbb, if_false] at hb' ⊢; exact c b' hb'
  · intro b' hb'
    by_cases hbb : b' = b
    · subst hbb; simp [upd, hlive] at hb'
    · simp only [upd, hbb, if_false] at hb' ⊢; exact d b' hb'
  · intro b' hb'
    by_cases hbb : b' = b
    · subst hbb; simpa [upd] using e b' hb'
    · simp only [upd, hbb, if_false]; exact e b' hb'
  · intro b' hb' hl
    by_cases hbb : b' = b
    · subst hbb; simp [upd, hlive] at hl
    · simp only [upd, hbb, if_false] at hl ⊢; exact f b' hb' hl
  · exact g

/-- Replace an environment object by one of the same type. -/
theorem invS_envVal {s : State} (h : InvS s) {k : Nat} {o : Obj} (hk : s.env k = some o)
    (o' : Obj) (ht : o'.ty = o.ty) : InvS { s with env := upd s.env k (some o') } := by
  obtain ⟨a, bb, c, d, e, f, g⟩ := h
  constructor
  · exact a
  · intro j w2 hj
    have k2 := bb j w2 hj
    refine ⟨k2.1, k2.2.1, k2.2.2.1, ?_⟩
    intro k' hk'
    have k3 := k2.2.2.2 k' hk'
    by_cases e' : k' = k
    · subst e'; simpa [upd] using ⟨k3.1, k3.2.1⟩
    · simpa [upd, e'] using k3
  · exact c
  · exact d
  · exact e
  · exact f
  · intro k' o2 hk'
    simp only [upd] at hk'
    split at hk'
    · cases hk'; rw [ht]; exact g k o hk
    · exact g k' o2 hk'

/-- Overwriting the value of a live object (same type) keeps `InvS`. -/
theorem invS_setVal {s : State} (h : InvS s) {l : Loc} {o : Obj} (hl : objAt s l = some o)
    (o' : Obj) (ht : o'.ty = o.ty) : InvS (setObj s l (some o')) := by
  cases l with
  | buf i =>
    simp only [objAt] at hl
    cases hw : s.wr i with
    | none => simp [hw] at hl
    | some w =>
      simp only [hw] at hl
      simp only [setObj, modW, hw]
      have k := h.wok i w hw
      apply inv_setSlot h
      · refine ⟨?_, ?_, ?_, ?_⟩
        · intro hs; have := k.1 hs; rw [this] at hl; cases hl
        · intro j hj
          obtain ⟨q1, _, q3, q4⟩ := k.2.1 j hj
          exact ⟨q1, rfl, q3, q4⟩
        · intro b hb; have := (k.2.2.1 b hb).1; rw [this] at hl; cases hl
        · intro k' hk'; have := (k.2.2.2 k' hk').1; rw [this] at hl; cases hl
      · intro b hb ho
        have := owner_points h hw hb ho
        exact this
  | blk b =>
    simp only [objAt] at hl
    simp only [setObj]
    exact invS_blkObj h (by simp [hl]) o'
  | env k =>
    simp only [objAt] at hl
    simp only [setObj]
    exact invS_envVal h hl o' ht

/-- Slot `i` (empty-handed) takes over the block of slot `k`. -/
theorem invS_transferBlock {s : State} (h : InvS s) {i k b : Nat} {wi wk : Wrapper} (hik : i ≠ k)
    (hi : s.wr i = some wi) (hsi : wi.self = none) (hk : s.wr k = some wk)
    (hsk : wk.self = some (.blk b)) (hsz : wi.size = wk.size) (hal : cls wi.alloc = cls wk.alloc) :
    InvS { s with
      wr := upd (upd s.wr i (some { wi with self := some (.blk b) })) k (some { wk with self := none }),
      blk := upd s.blk b { s.blk b with owner := i } } := by
  have ki := h.wok i wi hi
  have kk := (h.wok k wk hk).2.2.1 b hsk
  have hns : ∀ {j w2}, s.wr j = some w2 → w2.self = some (.blk b) → j = k :=
    fun hj sj => blocks_not_shared h hj hk sj hsk
  have hpi := fun b' hb ho => owner_points h hi (b := b') hb ho
  have hpk := fun b' hb ho => owner_points h hk (b := b') hb ho
  obtain ⟨a, bb, c, d, e, f, g⟩ := h
  constructor
  · exact a
  · intro j w2 hj
    simp only [upd] at hj
    split at hj
    · cases hj
      refine ⟨fun _ => kk.1, ?_, ?_, ?_⟩ <;> intro x hx <;> simp at hx
    · rename_i hjk
      split at hj
      · cases hj; rename_i hji; subst hji
        refine ⟨by simp, by simp, ?_, by simp⟩
        intro b' hb'
        simp only [Option.some.injEq, Loc.blk.injEq] at hb'
        subst hb'
        refine ⟨ki.1 hsi, ?_, ?_, ?_, ?_, ?_, ?_⟩
        · show ownsReferencedObject wi.size = true
          rw [hsz]; exact kk.2.1
        · show allocateUsesSmallBuffer wi.size s.cfg.sbs = false
          rw [hsz]; exact kk.2.2.1
        · simp only [upd_same]; exact kk.2.2.2.1
        · simp only [upd_same]
        · simp only [upd_same]; exact kk.2.2.2.2.2.1.trans hal.symm
        · simp only [upd_same]; exact kk.2.2.2.2.2.2
      · have k2 := bb j w2 hj
        refine ⟨k2.1, k2.2.1, ?_, k2.2.2.2⟩
        intro b' hb'
        have hbb : b' ≠ b := by
          intro e'; subst e'; exact hjk (hns hj hb')
        simpa [upd, hbb] using k2.2.2.1 b' hb'
  · intro b' hb
    by_cases hbb : b' = b
    · subst hbb
      refine ⟨{ wi with self := some (.blk b') }, ?_, rfl⟩
      simp only [upd_same]
      simp [upd, hik]
    · simp only [upd, hbb, if_false] at hb ⊢
      obtain ⟨w2, hw1, hw2⟩ := c b' hb
      by_cases ho : (s.blk b').owner = k
      · have := hpk b' hb ho; rw [hsk] at this; cases this; exact absurd rfl hbb
      · by_cases ho2 : (s.blk b').owner = i
        · have := hpi b' hb ho2; rw [hsi] at this; cases this
        · exact ⟨w2, by simp [ho, ho2, hw1], hw2⟩
  · intro b' hb
    by_cases hbb : b' = b
    · subst hbb; simp only [upd_same] at hb ⊢; exact d b' hb
    · simp only [upd, hbb, if_false] at hb ⊢; exact d b' hb
  · intro b' hb
    by_cases hbb : b' = b
    · subst hbb; simp only [upd_same]; exact e b' hb
    · simp only [upd, hbb, if_false]; exact e b' hb
  · intro b' hb hl
    by_cases hbb : b' = b
    · subst hbb; simp only [upd_same] at hl ⊢; exact f b' hb hl
    · simp only [upd, hbb, if_false] at hl ⊢; exact f b' hb hl
  · exact g

/-! ### Composite steps -/

/-- A wrapper update that keeps `self`, `size`, `alloc` and the buffer contents (e.g. the vtable). -/
theorem invS_modW_same {s : State} (h : InvS s) {i : Nat} {w : Wrapper} (hw : s.wr i = some w)
    (f : Wrapper → Wrapper)
    (hf : (f w).self = w.self ∧ (f w).size = w.size ∧ (f w).alloc = w.alloc ∧
      (f w).bufObj = w.bufObj) : InvS (modW s i f) := by
  simp only [modW, hw]
  obtain ⟨f1, f2, f3, f4⟩ := hf
  have k := h.wok i w hw
  apply inv_setSlot h
  · simpa [WOk, f1, f2, f3, f4] using k
  · intro b hb ho; rw [f1]; exact owner_points h hw hb ho

/-- Where `TypeErased::allocate(sz)` puts `self`. -/
def fillLoc (s : State) (i sz : Nat) : Loc :=
  if allocateUsesSmallBuffer sz s.cfg.sbs = true then .buf i else .blk s.nblk

theorem wAllocate_self {s : State} {i : Nat} {wi : Wrapper} (hi : s.wr i = some wi) (sz : Nat) :
    (getW (wAllocate s i sz) i).self = some (fillLoc s i sz) := by
  unfold wAllocate fillLoc
  split
  · simp [modW, hi, getW]
  · simp [modW, hi, getW, heapAlloc, emit]

/-- `allocate(sz)` followed by placement-construction into the new storage. -/
theorem invS_fill {s : State} (h : InvS s) {i : Nat} {wi : Wrapper} (hi : s.wr i = some wi)
    (hsi : wi.self = none) (sz : Nat) (hsz : ownsReferencedObject sz = true) (v t : Nat)
    (ev : Nat → Ev) :
    InvS (constructAt (wAllocate s i sz) (fillLoc s i sz) v t ev) ∧
    (∃ w', (constructAt (wAllocate s i sz) (fillLoc s i sz) v t ev).wr i = some w' ∧
      w'.self = some (fillLoc s i sz) ∧ w'.alloc = wi.alloc ∧ w'.size = sz) ∧
    (∀ j, j ≠ i → (constructAt (wAllocate s i sz) (fillLoc s i sz) v t ev).wr j = s.wr j) ∧
    objAt (constructAt (wAllocate s i sz) (fillLoc s i sz) v t ev) (fillLoc s i sz) =
      some ⟨s.nextId, v, t⟩ := by
  have hb : wi.bufObj = none := (h.wok i wi hi).1 hsi
  have hnb : ∀ b, (s.blk b).live = true → (s.blk b).owner = i → False := by
    intro b hb' ho; have := owner_points h hi hb' ho; rw [hsi] at this; cases this
  unfold wAllocate fillLoc
  by_cases hsm : allocateUsesSmallBuffer sz s.cfg.sbs = true
  · simp only [hsm, ite_true, modW, hi, constructAt, usable, upd_same, Option.isSome_some,
      Bool.not_true, Bool.false_eq_true, ite_false, objAt, hb, Option.isSome_none, setObj,
      upd_upd, emit]
    refine ⟨?_, ⟨_, rfl, rfl, rfl, rfl⟩, fun j hj => by simp [upd, hj], by simp⟩
    have hI := inv_setSlot h (i := i)
      { self := some (.buf i), size := sz, alloc := wi.alloc, vtTy := wi.vtTy,
        bufObj := some ⟨s.nextId, v, t⟩ }
      ⟨by simp, by intro j hj; simp at hj; subst hj; exact ⟨rfl, rfl, hsz, hsm⟩, by simp, by simp⟩
      (fun b hb' ho => (hnb b hb' ho).elim)
    exact inv_ghost hI rfl rfl rfl rfl rfl rfl
  · have hsm' : allocateUsesSmallBuffer sz s.cfg.sbs = false := by simpa using hsm
    simp only [hsm, ite_false, heapAlloc, emit, modW, hi, constructAt, usable, upd_same,
      Bool.not_true, Bool.false_eq_true, objAt, Option.isSome_none, setObj, upd_upd, getW,
      Option.getD_some]
    refine ⟨?_, ⟨_, rfl, rfl, rfl, rfl⟩, fun j hj => by simp [upd, hj], by simp⟩
    have hI := invS_newBlock h hi hsi
      { self := some (.blk s.nblk), size := sz, alloc := wi.alloc, vtTy := wi.vtTy,
        bufObj := wi.bufObj }
      ⟨wi.alloc, sz, true, some ⟨s.nextId, v, t⟩, i, none⟩ rfl hb hsz hsm' rfl rfl rfl rfl
    exact inv_ghost hI rfl rfl rfl rfl rfl rfl

/-- `allocate(sz)`, the constructor throws, `~Deallocator` returns the storage. -/
theorem invS_allocThrow {s : State} (h : InvS s) {i : Nat} {wi : Wrapper} (hi : s.wr i = some wi)
    (hsi : wi.self = none) (sz : Nat) :
    InvS (wDeallocate (emit (wAllocate s i sz) .thrw) i) ∧
    ∃ w', (wDeallocate (emit (wAllocate s i sz) .thrw) i).wr i = some w' ∧ w'.self = none ∧
      w'.bufObj = none ∧ w'.alloc = wi.alloc ∧
      ∀ j, j ≠ i → (wDeallocate (emit (wAllocate s i sz) .thrw) i).wr j = s.wr j := by
  have hb : wi.bufObj = none := (h.wok i wi hi).1 hsi
  have hnb : ∀ b, (s.blk b).live = true → (s.blk b).owner = i → False := by
    intro b hb' ho; have := owner_points h hi hb' ho; rw [hsi] at this; cases this
  unfold wAllocate
  by_cases hsm : allocateUsesSmallBuffer sz s.cfg.sbs = true
  · have hd : deallocateUsesAllocator sz s.cfg.sbs = false := by
      rw [(large_iff_not_small _ _).1, hsm]; rfl
    simp only [hsm, ite_true, modW, hi, emit, wDeallocate, getW, upd_same, Option.getD_some, hd,
      Bool.false_eq_true, ite_false, upd_upd]
    refine ⟨?_, _, rfl, rfl, hb, rfl, fun j hj => by simp [upd, hj]⟩
    have hI := inv_setSlot h (i := i)
      { self := none, size := sz, alloc := wi.alloc, vtTy := wi.vtTy, bufObj := wi.bufObj }
      ⟨fun _ => hb, by simp, by simp, by simp⟩ (fun b hb' ho => (hnb b hb' ho).elim)
    exact inv_ghost hI rfl rfl rfl rfl rfl rfl
  · have hsm' : allocateUsesSmallBuffer sz s.cfg.sbs = false := by simpa using hsm
    have hd : deallocateUsesAllocator sz s.cfg.sbs = true := by
      rw [(large_iff_not_small _ _).1, hsm']; rfl
    simp only [hsm, ite_false, heapAlloc, emit, modW, hi, wDeallocate, getW, upd_same,
      Option.getD_some, hd, ite_true, heapFree, Bool.not_true, Bool.false_eq_true,
      bne_self_eq_false, Option.isSome_none, upd_upd]
    refine ⟨?_, _, rfl, rfl, hb, rfl, fun j hj => by simp [upd, hj]⟩
    have hD := invS_newDeadBlock h ⟨wi.alloc, sz, false, none, i, some wi.alloc⟩ rfl rfl
      ⟨wi.alloc, rfl, rfl⟩
    have hI := inv_setSlot hD (i := i)
      { self := none, size := sz, alloc := wi.alloc, vtTy := wi.vtTy, bufObj := wi.bufObj }
      ⟨fun _ => hb, by simp, by simp, by simp⟩ (by
        intro b hb' ho
        simp only [upd] at hb' ho
        split at hb'
        · cases hb'
        · rename_i hne; simp only [hne, if_false] at ho; exact (hnb b hb' ho).elim)
    exact inv_ghost hI rfl rfl rfl rfl rfl rfl

/-- `self = std::exchange(other.self, nullptr)` into an empty-handed wrapper whose `size` was
    already taken from `other`: legal when `other` does not own or owns heap storage. -/
theorem invS_steal {s : State} (h : InvS s) {i k : Nat} {wi wk : Wrapper} (hik : i ≠ k)
    (hi : s.wr i = some wi) (hsi : wi.self = none) (hk : s.wr k = some wk)
    (hsz : wi.size = wk.size)
    (hc : ownsReferencedObject wk.size = false ∨ allocateUsesSmallBuffer wk.size s.cfg.sbs = false)
    (hal : ∀ b, wk.self = some (.blk b) → cls wi.alloc = cls wk.alloc) :
    InvS (steal s i k) ∧ (steal s i k).wr i = some { wi with self := wk.self } ∧
      (steal s i k).wr k = some { wk with self := none } ∧
      ∀ j, j ≠ i → j ≠ k → (steal s i k).wr j = s.wr j := by
  have hki : k ≠ i := fun e => hik e.symm
  have ki := h.wok i wi hi
  have kk := h.wok k wk hk
  have hbi : wi.bufObj = none := ki.1 hsi
  have hnb : ∀ b, (s.blk b).live = true → (s.blk b).owner = i → False := by
    intro b hb' ho; have := owner_points h hi hb' ho; rw [hsi] at this; cases this
  have e1 : upd s.wr i (some { wi with self := wk.self }) k = some wk := by
    rw [upd_ne _ _ hki]; exact hk
  simp only [steal, getW, hk, Option.getD_some, modW, hi, e1]
  cases hsk : wk.self with
  | none =>
    have hbk : wk.bufObj = none := kk.1 hsk
    refine ⟨?_, by simp [upd, hik], by simp, fun j h1 h2 => by simp [upd, h1, h2]⟩
    simp only
    have h1 := inv_setSlot h (i := i) { wi with self := none }
      ⟨fun _ => hbi, by simp, by simp, by simp⟩ (fun b hb' ho => (hnb b hb' ho).elim)
    have h2 := inv_setSlot h1 (i := k) { wk with self := none }
      ⟨fun _ => hbk, by simp, by simp, by simp⟩ (by
        intro b hb' ho
        have := owner_points h hk hb' ho; rw [hsk] at this; cases this)
    exact h2
  | some p =>
    cases p with
    | buf j =>
      obtain ⟨_, _, q3, q4⟩ := kk.2.1 j hsk
      rcases hc with hc | hc
      · rw [q3] at hc; cases hc
      · rw [q4] at hc; cases hc
    | blk b =>
      refine ⟨?_, by simp [upd, hik], by simp, fun j h1 h2 => by simp [upd, h1, h2]⟩
      simp only
      have hT := invS_transferBlock h hik hi hsi hk hsk hsz (hal b hsk)
      exact inv_ghost hT rfl rfl rfl rfl rfl rfl
    | env e =>
      obtain ⟨q1, q2, q3⟩ := kk.2.2.2 e hsk
      refine ⟨?_, by simp [upd, hik], by simp, fun j h1 h2 => by simp [upd, h1, h2]⟩
      simp only
      have h1 := inv_setSlot h (i := i) { wi with self := some (.env e) }
        ⟨by simp, by simp, by simp, by
          intro k' hk'; simp at hk'; subst hk'
          exact ⟨hbi, by show ownsReferencedObject wi.size = false; rw [hsz]; exact q2, q3⟩⟩
        (fun b hb' ho => (hnb b hb' ho).elim)
      have h2 := inv_setSlot h1 (i := k) { wk with self := none }
        ⟨fun _ => q1, by simp, by simp, by simp⟩ (by
          intro b hb' ho
          have := owner_points h hk hb' ho; rw [hsk] at this; cases this)
      exact h2

/-- The small-buffer move path: move-construct into the own buffer, destroy the source, null it. -/
theorem invS_moveSmall {s : State} (h : InvS s) {i k : Nat} {wi wk : Wrapper} (hik : i ≠ k)
    (hi : s.wr i = some wi) (hsi : wi.self = none) (hk : s.wr k = some wk)
    (hsk : wk.self = some (.buf k)) (hsz : wi.size = wk.size) :
    InvS (moveSmall s i k) ∧
      (∃ o n, wk.bufObj = some o ∧ (moveSmall s i k).wr i =
        some { wi with self := some (.buf i), bufObj := some ⟨n, o.val, o.ty⟩ }) ∧
      (moveSmall s i k).wr k = some { wk with self := none, bufObj := none } ∧
      ∀ j, j ≠ i → j ≠ k → (moveSmall s i k).wr j = s.wr j := by
  have hki : k ≠ i := fun e => hik e.symm
  have ki := h.wok i wi hi
  obtain ⟨_, q2, q3, q4⟩ := (h.wok k wk hk).2.1 k hsk
  obtain ⟨o, ho⟩ := Option.isSome_iff_exists.mp q2
  have hbi : wi.bufObj = none := ki.1 hsi
  have hnb : ∀ b, (s.blk b).live = true → (s.blk b).owner = i → False := by
    intro b hb' ho; have := owner_points h hi hb' ho; rw [hsi] at this; cases this
  have e1 : ∀ (f : Nat → Option Wrapper) v, upd f i v k = f k := fun f v => upd_ne f v hki
  simp only [moveSmall, modW, hi, getW, e1, hk, Option.getD_some, hsk, moveConstruct, objAt, ho,
    constructAt, usable, upd_same, Option.isSome_some, Bool.not_true, Bool.false_eq_true,
    ite_false, hbi, Option.isSome_none, setObj, upd_upd, emit, destroyAt]
  refine ⟨?_, ⟨o, s.nextId, rfl, by simp [upd, hik]⟩, by simp, fun j h1 h2 => by simp [upd, h1, h2]⟩
  have h1 := inv_setSlot h (i := i)
    { wi with self := some (.buf i), bufObj := some ⟨s.nextId, o.val, o.ty⟩ }
    ⟨by simp, by
      intro j hj; simp at hj; subst hj
      exact ⟨rfl, rfl, by show ownsReferencedObject wi.size = true; rw [hsz]; exact q3,
        by show allocateUsesSmallBuffer wi.size s.cfg.sbs = true; rw [hsz]; exact q4⟩,
      by simp, by simp⟩
    (fun b hb' ho => (hnb b hb' ho).elim)
  have h2 := inv_setSlot h1 (i := k) { wk with self := none, bufObj := none }
    ⟨fun _ => rfl, by simp, by simp, by simp⟩ (by
      intro b hb' ho
      have := owner_points h hk hb' ho; rw [hsk] at this; cases this)
  exact inv_ghost h2 rfl rfl rfl rfl rfl rfl

/-- Heap payload, unequal allocators: allocate with the own allocator, move-construct, destroy the
    source and return its block through an allocator equal to the one it came from. -/
theorem invS_moveRealloc {s : State} (h : InvS s) {i j b : Nat} {wi wj : Wrapper} (hij : i ≠ j)
    (hi : s.wr i = some wi) (hsi : wi.self = none) (hj : s.wr j = some wj)
    (hsj : wj.self = some (.blk b)) (hsz : wi.size = wj.size) (a : Nat) (via : Bool)
    (hfree : via = false → cls a = cls wj.alloc) :
    InvS (moveRealloc s i j a via) ∧
      (moveRealloc s i j a via).wr i = some { wi with self := some (.blk s.nblk) } ∧
      (moveRealloc s i j a via).wr j = some { wj with self := none } ∧
      ∀ k, k ≠ i → k ≠ j → (moveRealloc s i j a via).wr k = s.wr k := by
  have hji : j ≠ i := fun e => hij e.symm
  have ki := h.wok i wi hi
  obtain ⟨q1, q2, q3, q4, q5, q6, q7⟩ := (h.wok j wj hj).2.2.1 b hsj
  obtain ⟨o, ho⟩ := Option.isSome_iff_exists.mp q7
  have hbi : wi.bufObj = none := ki.1 hsi
  have hbn : b ≠ s.nblk := by have := live_lt h q4; omega
  have e1 : ∀ (f : Nat → Option Wrapper) v, upd f i v j = f j := fun f v => upd_ne f v hji
  have e2 : ∀ (f : Nat → Block) v, upd f s.nblk v b = f b := fun f v => upd_ne f v hbn
  have hd : deallocateUsesAllocator wj.size s.cfg.sbs = true := by
    rw [(large_iff_not_small _ _).1, q3]; rfl
  have hc1 : (cls (s.blk b).alloc != cls wj.alloc) = false := by simp [q6]
  have hT1 := invS_newBlock h hi hsi { wi with self := some (.blk s.nblk) }
    ⟨wi.alloc, wi.size, true, some ⟨s.nextId, o.val, o.ty⟩, i, none⟩ rfl hbi
    (by show ownsReferencedObject wi.size = true; rw [hsz]; exact q2)
    (by show allocateUsesSmallBuffer wi.size s.cfg.sbs = false; rw [hsz]; exact q3) rfl rfl rfl rfl
  cases via with
  | true =>
    simp only [moveRealloc, getW, hi, hj, Option.getD_some, heapAlloc, emit, modW, hsj,
      moveConstruct, objAt, e2, ho, constructAt, usable, upd_same, Bool.not_true,
      Bool.false_eq_true, ite_false, Option.isSome_none, setObj, upd_upd, destroyAt, ite_true,
      wDeallocate, e1, hd, heapFree, q4, hc1, Option.isSome_some]
    refine ⟨?_, by simp [upd, hij], by simp, fun k h1 h2 => by simp [upd, h1, h2]⟩
    have hT2 := inv_freeBlock hT1 (i := j) (b := b) (w := wj) (by simp [upd, hji, hj]) hsj
      ⟨(s.blk b).alloc, (s.blk b).size, false, none, (s.blk b).owner, some wj.alloc⟩ rfl rfl
      ⟨wj.alloc, rfl, q6.symm⟩
    exact inv_ghost hT2 rfl rfl rfl rfl rfl rfl
  | false =>
    have hc2 : (cls (s.blk b).alloc != cls a) = false := by simp [q6, hfree rfl]
    simp only [moveRealloc, getW, hi, hj, Option.getD_some, heapAlloc, emit, modW, hsj,
      moveConstruct, objAt, e2, ho, constructAt, usable, upd_same, Bool.not_true,
      Bool.false_eq_true, ite_false, Option.isSome_none, setObj, upd_upd, destroyAt,
      e1, heapFree, q4, hc2, Option.isSome_some]
    refine ⟨?_, by simp [upd, hij], by simp, fun k h1 h2 => by simp [upd, h1, h2]⟩
    have hT2 := inv_freeBlock hT1 (i := j) (b := b) (w := wj) (by simp [upd, hji, hj]) hsj
      ⟨(s.blk b).alloc, (s.blk b).size, false, none, (s.blk b).owner, some a⟩ rfl rfl
      ⟨a, rfl, by rw [hfree rfl]; exact q6.symm⟩
    exact inv_ghost hT2 rfl rfl rfl rfl rfl rfl

/-- Any metadata update (`size`, `alloc`, vtable) of a wrapper whose `self` is null. -/
theorem invS_modW_empty {s : State} (h : InvS s) {i : Nat} {w : Wrapper} (hw : s.wr i = some w)
    (hs : w.self = none) (f : Wrapper → Wrapper)
    (hf : (f w).self = none ∧ (f w).bufObj = w.bufObj) : InvS (modW s i f) := by
  simp only [modW, hw]
  have hb := (h.wok i w hw).1 hs
  apply inv_setSlot h
  · exact ⟨fun _ => by rw [hf.2]; exact hb, by simp [hf.1], by simp [hf.1], by simp [hf.1]⟩
  · intro b hb' ho; have := owner_points h hw hb' ho; rw [hs] at this; cases this

theorem modW_wr {s : State} {i : Nat} {w : Wrapper} (hw : s.wr i = some w) (f : Wrapper → Wrapper) :
    (modW s i f).wr = upd s.wr i (some (f w)) := by simp [modW, hw]

/-- `allocate` does not touch any object. -/
theorem objAt_wAllocate {s : State} (h : InvS s) (i sz : Nat) (l : Loc) :
    objAt (wAllocate s i sz) l = objAt s l := by
  have hn : (s.blk s.nblk).obj = none := h.deadEmpty _ (h.fresh _ (Nat.le_refl _))
  unfold wAllocate
  split
  · exact objAt_modW (by intro w; rfl) l
  · simp only []
    rw [objAt_modW (by intro w; rfl) l]
    cases l with
    | buf j => rfl
    | blk b =>
      simp only [objAt, heapAlloc, emit, upd]
      by_cases e : b = s.nblk
      · subst e; simp [hn]
      · simp [e]
    | env k => rfl

/-- `do_copy_assign` into an empty-handed wrapper (incl. the branch where the payload's copy
    constructor throws and the guard returns the storage: then the wrapper is left empty). -/
theorem invS_doCopyAssign {s : State} (h : InvS s) {i k : Nat} {wi wk : Wrapper}
    (hi : s.wr i = some wi) (hsi : wi.self = none) (hk : s.wr k = some wk) (hik : i ≠ k)
    (c thr : Bool) :
    InvS (Alpaqa.C16.doCopyAssign s c i k thr).1 ∧
    ((Alpaqa.C16.doCopyAssign s c i k thr).2 = .excCopy →
      ∃ w', (Alpaqa.C16.doCopyAssign s c i k thr).1.wr i = some w' ∧ w'.self = none) ∧
    ((Alpaqa.C16.doCopyAssign s c i k thr).2 = .excCopy ∨
      (Alpaqa.C16.doCopyAssign s c i k thr).2 = .ok) ∧
    (thr = false → ∀ p o, wk.self = some p → ownsReferencedObject wk.size = true →
      objAt s p = some o →
      ∃ w' q n, (Alpaqa.C16.doCopyAssign s c i k thr).1.wr i = some w' ∧ w'.self = some q ∧
        w'.size = wk.size ∧
        objAt (Alpaqa.C16.doCopyAssign s c i k thr).1 q = some ⟨n, o.val, o.ty⟩ ∧
        (Alpaqa.C16.doCopyAssign s c i k thr).1.wr k = some wk) := by
  have hki : k ≠ i := fun e => hik e.symm
  have kk := h.wok k wk hk
  -- the allocator propagation step
  have hA : ∃ s0 wi0, (if (c && s.cfg.pocca) = true then
        modW s i fun w => { w with alloc := (getW s k).alloc } else s) = s0 ∧ InvS s0 ∧
      s0.wr i = some wi0 ∧ wi0.self = none ∧ s0.wr k = some wk ∧ s0.blk = s.blk ∧
      s0.env = s.env ∧ s0.cfg = s.cfg ∧ s0.nblk = s.nblk ∧ (∀ l, objAt s0 l = objAt s l) := by
    split
    · refine ⟨_, { wi with alloc := (getW s k).alloc }, rfl,
        invS_modW_empty h hi hsi _ ⟨hsi, rfl⟩, ?_, hsi, ?_, ?_, ?_, ?_, ?_, ?_⟩
      · rw [modW_wr hi]; simp
      · rw [modW_wr hi, upd_ne _ _ hki]; exact hk
      · exact (modW_fields s i _).2.2.2.2.1
      · exact (modW_fields s i _).2.2.2.2.2.2.1
      · exact (modW_fields s i _).2.2.2.2.2.1
      · exact (modW_fields s i _).2.2.2.1
      · exact objAt_modW (by intro w; rfl)
    · exact ⟨s, wi, rfl, h, hi, hsi, hk, rfl, rfl, rfl, rfl, fun _ => rfl⟩
  obtain ⟨s0, wi0, e0, h0, hi0, hsi0, hk0, eb, ee, ec, en, eo⟩ := hA
  unfold Alpaqa.C16.doCopyAssign
  simp only [getW, hk, Option.getD_some] at e0 ⊢
  rw [e0]
  cases hsk : wk.self with
  | none =>
    simp only [operatorBool, Option.isSome_none, Bool.not_false, ite_true]
    exact ⟨h0, fun e => by simp at e, Or.inr trivial, fun _ p o hp => by cases hp⟩
  | some p =>
    simp only [operatorBool, Option.isSome_some, Bool.not_true, Bool.false_eq_true, ite_false]
    by_cases ho : ownsReferencedObject wk.size = true
    · simp only [ho, Bool.not_true, Bool.false_eq_true, ite_false]
      cases thr with
      | true =>
        simp only [ite_true]
        obtain ⟨q1, w', q2, q3, _⟩ := invS_allocThrow h0 hi0 hsi0 wk.size
        exact ⟨q1, fun _ => ⟨w', q2, q3⟩, Or.inl trivial, fun e => by cases e⟩
      | false =>
        simp only [Bool.false_eq_true, ite_false]
        have hself := wAllocate_self hi0 wk.size
        simp only [getW] at hself
        rw [hself]
        -- the source object
        have hsrc : ∃ o, objAt s0 p = some o := by
          cases p with
          | buf j =>
            obtain ⟨e', q2, _, _⟩ := kk.2.1 j hsk
            subst e'
            obtain ⟨o, ho'⟩ := Option.isSome_iff_exists.mp q2
            exact ⟨o, by simp [objAt, hk0, ho']⟩
          | blk b =>
            obtain ⟨_, _, _, _, _, _, q7⟩ := kk.2.2.1 b hsk
            obtain ⟨o, ho'⟩ := Option.isSome_iff_exists.mp q7
            exact ⟨o, by simp [objAt, eb, ho']⟩
          | env e =>
            have := (kk.2.2.2 e hsk).2.1; rw [ho] at this; cases this
        obtain ⟨o, hobj⟩ := hsrc
        simp only [copyConstruct, objAt_wAllocate h0, hobj]
        obtain ⟨f1, ⟨w', f2, f3, _, f4⟩, f5, f6⟩ := invS_fill h0 hi0 hsi0 wk.size ho o.val o.ty
          (fun id => .copy id o.id)
        refine ⟨f1, fun e => by simp at e, Or.inr trivial, ?_⟩
        intro _ p' o' hp' _ ho'
        cases hp'
        rw [← eo, hobj] at ho'; cases ho'
        exact ⟨w', _, _, f2, f3, f4, f6, by rw [f5 k hki]; exact hk0⟩
    · have ho' : ownsReferencedObject wk.size = false := by simpa using ho
      simp only [ho', Bool.not_false, ite_true]
      refine ⟨?_, fun e => by simp at e, Or.inr trivial,
        fun _ p' o' _ ho2 => by cases ho2⟩
      cases p with
      | buf j => have := (kk.2.1 j hsk).2.2.1; rw [ho'] at this; cases this
      | blk b => have := (kk.2.2.1 b hsk).2.1; rw [ho'] at this; cases this
      | env e =>
        obtain ⟨_, _, q3⟩ := kk.2.2.2 e hsk
        have hb0 := (h0.wok i wi0 hi0).1 hsi0
        simp only [modW, hi0]
        apply inv_setSlot h0
        · refine ⟨by simp, by simp, by simp, ?_⟩
          intro e' he'; simp at he'; subst he'
          exact ⟨hb0, ho', by rw [ee]; exact q3⟩
        · intro b hb' hob
          have := owner_points h0 hi0 hb' hob; rw [hsi0] at this; cases this

/-- The wrapper's storage goes away (its `self` is null, its buffer empty). -/
theorem invS_dropW {s : State} (h : InvS s) {i : Nat} {w : Wrapper} (hw : s.wr i = some w)
    (hs : w.self = none) :
    InvS (dropW s i) ∧ (dropW s i).wr i = none ∧ ∀ j, j ≠ i → (dropW s i).wr j = s.wr j := by
  have hb := (h.wok i w hw).1 hs
  simp only [dropW, getW, hw, Option.getD_some, hb, hs, Option.isSome_none, Bool.false_eq_true,
    ite_false]
  exact ⟨inv_dropSlot h hw hs, by simp, fun j hj => by simp [upd, hj]⟩

end Alpaqa.Proofs.C16
