/-
  Invariant of the PANOC loop model: the current iterate always carries a *consistent*
  forward-backward step — `(h(x̂), x̂, p)` is the prox oracle's answer at `(γ, x, ∇ψ)` and
  `ŷx̂` is the ψ oracle's answer at `x̂` — through every branch of the line search, every stop
  schedule and every direction provider.  Purely structural: holds over any carrier
  (IEEE doubles included), for arbitrary oracles.
-/
import Mathlib.Tactic.SplitIfs
import Mathlib.Tactic.Basic
import Alpaqa.Model.Panoc

namespace Alpaqa.Panoc
open Alpaqa Alpaqa.Gen
set_option linter.unusedSectionVars false

variable {α D : Type} [Add α] [Sub α] [Mul α] [Div α] [Neg α] [LT α] [LE α] [DecidableLT α]
  [DecidableLE α] [BEq α] [RealLike α] [NatCast α] [OfScientific α]
  [OfNat α 0] [OfNat α 1] [OfNat α 2] [OfNat α 100]

/-- `(h(x̂), x̂, p)` is the prox oracle's answer at the iterate's own `(γ, x, ∇ψ)`. -/
def ProxCons (P : Problem α) (i : Iterate α) : Prop :=
  i.hxhat = (P.prox i.gamma i.x i.gradPsi).1 ∧ i.xhat = (P.prox i.gamma i.x i.gradPsi).2.1 ∧
  i.p = (P.prox i.gamma i.x i.gradPsi).2.2

/-- Internal consistency of the problem's oracles, as the library's own `eval_ψ_grad_ψ` has it:
    after `eval_ψ_grad_ψ(x, …, grad, work_n, work_m)` the workspace `work_m` holds `ŷ(x)` — what
    `eval_ψ` returns — and `grad = ∇L(x, ŷ(x))` — what `eval_grad_L(x, ŷ(x))` returns. -/
def OracleLaw (P : Problem α) : Prop :=
  ∀ x, (P.psiGradPsi x).2.2 = (P.psi x).2 ∧ (P.psiGradPsi x).2.1 = P.gradL x (P.psi x).2

/-- Lazy gradient evaluation (the default), or eager evaluation with consistent oracles. -/
def YhatMode (P : Problem α) (pr : Params α) : Prop :=
  pr.eagerGradientEval = false ∨ OracleLaw P

/-- `ŷx̂` is the ψ oracle's answer at `x̂` (in eager mode ŷx̂ is the workspace of `eval_ψ_grad_ψ`: only
    for consistent oracles is that `ŷ`). -/
def YhatCons (P : Problem α) (pr : Params α) (i : Iterate α) : Prop :=
  YhatMode P pr → i.yhat = (P.psi i.xhat).2

def Good (P : Problem α) (pr : Params α) (i : Iterate α) : Prop := ProxCons P i ∧ YhatCons P pr i

theorem good_evalStep (P : Problem α) (pr : Params α) (i : Iterate α) :
    Good P pr (evalPsiHat P pr (evalProxGradStep P i)) := by
  unfold Good ProxCons YhatCons YhatMode evalPsiHat evalProxGradStep
  by_cases h : pr.eagerGradientEval
  · simp only [h, if_true]
    refine ⟨by simp, fun hm => ?_⟩
    rcases hm with hl | hlaw
    · exact absurd hl (by simp)
    · exact (hlaw _).1
  · simp [h]

/-- Changing only `∇ψ(x̂)` / its flag keeps the iterate good. -/
theorem good_of_same (P : Problem α) (pr : Params α) (i j : Iterate α) (h : Good P pr i)
    (hx : j.x = i.x) (hxh : j.xhat = i.xhat) (hg : j.gradPsi = i.gradPsi) (hp : j.p = i.p)
    (hy : j.yhat = i.yhat) (hγ : j.gamma = i.gamma) (hh : j.hxhat = i.hxhat) : Good P pr j := by
  unfold Good ProxCons YhatCons at *
  rw [hx, hxh, hg, hp, hy, hγ, hh]; exact h

theorem good_evalGradPsiHat (P : Problem α) (pr : Params α) (i : Iterate α) (h : Good P pr i) :
    Good P pr (evalGradPsiHat P i) :=
  good_of_same P pr i _ h rfl rfl rfl rfl rfl rfl rfl

theorem takeSafeStep_curr_good (P : Problem α) (pr : Params α) (c n : Iterate α) (t : Nat)
    (h : Good P pr c) : Good P pr (takeSafeStep P c n t).1 := by
  unfold takeSafeStep
  by_cases hh : c.haveGradHat <;> simp only [hh, Bool.not_true, Bool.not_false, if_true, if_false] <;>
    first
    | exact good_of_same P pr c _ h rfl rfl rfl rfl rfl rfl rfl
    | exact good_of_same P pr _ _ (good_evalGradPsiHat P pr c h) rfl rfl rfl rfl rfl rfl rfl

theorem lsRecompute_good (P : Problem α) (pr : Params α) (q : Vec α) (s : LS α D)
    (h : Good P pr s.curr) :
    Good P pr (lsRecompute P q s).curr ∧ (lsRecompute P q s).fuelOut = s.fuelOut := by
  unfold lsRecompute
  split_ifs
  · exact ⟨h, rfl⟩
  · exact ⟨takeSafeStep_curr_good P pr _ _ _ h, rfl⟩
  · exact ⟨h, rfl⟩

theorem lsUpdateInCandidate_same (dir : Direction D α) (s : LS α D) :
    (lsUpdateInCandidate dir s).curr = s.curr ∧ (lsUpdateInCandidate dir s).next = s.next ∧
    (lsUpdateInCandidate dir s).fuelOut = s.fuelOut := by
  unfold lsUpdateInCandidate
  split_ifs <;> exact ⟨rfl, rfl, rfl⟩

/-- One pass of the line-search body: the current iterate stays good; on `break` the candidate
    is good too. -/
theorem lsPass_good (P : Problem α) (dir : Direction D α) (pr : Params α) (q : Vec α) (tauInit : α)
    (s : LS α D) (h : Good P pr s.curr) :
    match lsPass P dir pr q tauInit s with
    | .done s' => Good P pr s'.curr ∧ Good P pr s'.next ∧ s'.fuelOut = s.fuelOut
    | .again s' => Good P pr s'.curr ∧ s'.fuelOut = s.fuelOut := by
  have h1 := lsRecompute_good P pr q s h
  unfold lsPass
  simp only []
  split_ifs <;>
    first
    | exact ⟨h1.1, h1.2⟩
    | exact ⟨by rw [(lsUpdateInCandidate_same dir _).1]; exact h1.1,
             by rw [(lsUpdateInCandidate_same dir _).2.2]; exact h1.2⟩
    | exact ⟨by rw [(lsUpdateInCandidate_same dir _).1]; exact h1.1,
             by rw [(lsUpdateInCandidate_same dir _).2.1]; exact good_evalStep P pr _,
             by rw [(lsUpdateInCandidate_same dir _).2.2]; exact h1.2⟩

/-- The whole line search: `curr` stays good; if the loop was left through `break` (no fuel-out,
    and — since a stop request leaves the state untouched — whenever the stop flag is still clear
    at the end) the candidate is good. -/
theorem lineSearch_good (P : Problem α) (dir : Direction D α) (pr : Params α) (stop : Nat → Bool)
    (q : Vec α) (tauInit : α) (fuel : Nat) (s : LS α D) (h : Good P pr s.curr)
    (hf : s.fuelOut = false) :
    Good P pr (lineSearch P dir pr stop q tauInit fuel s).curr ∧
    ((lineSearch P dir pr stop q tauInit fuel s).fuelOut = false →
      stop (lineSearch P dir pr stop q tauInit fuel s).tick = false →
      Good P pr (lineSearch P dir pr stop q tauInit fuel s).next) := by
  induction fuel generalizing s with
  | zero => simp [lineSearch, h]
  | succ f ih =>
    unfold lineSearch
    by_cases hst : stop s.tick
    · simp only [hst, if_true]
      exact ⟨h, fun _ h2 => absurd h2 (by decide)⟩
    · simp only [hst, Bool.false_eq_true, if_false]
      have hp := lsPass_good P dir pr q tauInit s h
      cases hpass : lsPass P dir pr q tauInit s with
      | done s' =>
        rw [hpass] at hp
        exact ⟨hp.1, fun _ _ => hp.2.1⟩
      | again s' =>
        rw [hpass] at hp
        exact ih s' hp.1 (by rw [hp.2, hf])

theorem initQub_good (P : Problem α) (pr : Params α) (stop : Nat → Bool) (f : Nat) (c : Iterate α)
    (t b : Nat) (h : Good P pr c) : Good P pr (initQub P pr stop f c t b).1 := by
  induction f generalizing c t b with
  | zero => simpa [initQub] using h
  | succ f ih =>
    unfold initQub
    split_ifs
    · exact h
    · exact ih _ _ _ (good_evalStep P pr _)
    · exact h

theorem initState_good (P : Problem α) (d0 : D) (pr : Params α) (stop : Nat → Bool) (x0 gV : Vec α)
    (gS iS : α) (s : St α D) (h : initState P d0 pr stop x0 gV gS iS = .inr s) : Good P pr s.curr := by
  unfold initState at h
  simp only [] at h
  split_ifs at h
  all_goals first
    | (injection h with h; subst h; exact initQub_good P pr stop _ _ _ _ (good_evalStep P pr _))
    | (exact absurd h (by simp))

/-! ### Main loop -/

/-- the head's `ŷ` evaluation only writes `ŷx̂` -/
theorem headEvalYhat_fields (P : Problem α) (pr : Params α) (c : Iterate α) :
    (headEvalYhat P pr c).1.x = c.x ∧ (headEvalYhat P pr c).1.xhat = c.xhat ∧
    (headEvalYhat P pr c).1.gradPsi = c.gradPsi ∧ (headEvalYhat P pr c).1.p = c.p ∧
    (headEvalYhat P pr c).1.gamma = c.gamma ∧ (headEvalYhat P pr c).1.hxhat = c.hxhat ∧
    (headEvalYhat P pr c).1.haveGradHat = c.haveGradHat ∧
    (headEvalYhat P pr c).1.gradPsiHat = c.gradPsiHat ∧ (headEvalYhat P pr c).2 ≤ 1 := by
  unfold headEvalYhat
  split_ifs <;> exact ⟨rfl, rfl, rfl, rfl, rfl, rfl, rfl, rfl, by simp⟩

theorem headEvalYhat_good (P : Problem α) (pr : Params α) (c : Iterate α) (h : Good P pr c) :
    Good P pr (headEvalYhat P pr c).1 := by
  unfold headEvalYhat
  split_ifs
  · exact ⟨h.1, fun _ => rfl⟩
  · exact h

/-- After the head's evaluation `ŷx̂ = ŷ(x̂)` whenever `have_ŷx̂` says so: with lazy evaluation always,
    with eager evaluation when the head evaluated it. -/
theorem headEvalYhat_valid (P : Problem α) (pr : Params α) (c : Iterate α) (h : Good P pr c)
    (hv : headYhatValid pr c = true) :
    (headEvalYhat P pr c).1.yhat = (P.psi (headEvalYhat P pr c).1.xhat).2 := by
  unfold headYhatValid at hv
  unfold headEvalYhat
  by_cases he : pr.eagerGradientEval = true
  · have hr : headReadsYhat pr c = true := by simpa [he] using hv
    simp only [he, hr, Bool.and_self, if_true]
  · have he' : pr.eagerGradientEval = false := by simpa using he
    simp only [he', Bool.false_and, Bool.false_eq_true, if_false]
    exact h.2 (Or.inl he')

theorem headStep_curr (P : Problem α) (pr : Params α) (stop : Nat → Bool) (oot : Bool) (s : St α D) :
    (headStep P pr stop oot s).1.curr =
      (if requiresGradHat pr.stopCrit && !(headEvalYhat P pr s.curr).1.haveGradHat
        then evalGradPsiHat P (headEvalYhat P pr s.curr).1 else (headEvalYhat P pr s.curr).1) ∧
    (headStep P pr stop oot s).1.yhatValid = headYhatValid pr s.curr ∧
    (headStep P pr stop oot s).1.fuelOut = s.fuelOut := by
  unfold headStep
  simp only []
  split_ifs <;> exact ⟨by first | rfl | trivial, by first | rfl | trivial, by first | rfl | trivial⟩

theorem headStep_good (P : Problem α) (pr : Params α) (stop : Nat → Bool) (oot : Bool) (s : St α D)
    (h : Good P pr s.curr) :
    Good P pr (headStep P pr stop oot s).1.curr ∧ (headStep P pr stop oot s).1.fuelOut = s.fuelOut := by
  have hc := headStep_curr P pr stop oot s
  rw [hc.1]
  refine ⟨?_, hc.2.2⟩
  split_ifs
  · exact good_evalGradPsiHat P pr _ (headEvalYhat_good P pr _ h)
  · exact headEvalYhat_good P pr _ h

/-- At the state a loop head leaves, `ŷx̂ = ŷ(x̂)` whenever `have_ŷx̂` is set. -/
theorem headStep_yhatValid (P : Problem α) (pr : Params α) (stop : Nat → Bool) (oot : Bool) (s : St α D)
    (h : Good P pr s.curr) :
    (headStep P pr stop oot s).1.yhatValid = true →
      (headStep P pr stop oot s).1.curr.yhat = (P.psi (headStep P pr stop oot s).1.curr.xhat).2 := by
  have hc := headStep_curr P pr stop oot s
  rw [hc.1, hc.2.1]
  intro hv
  have hy := headEvalYhat_valid P pr s.curr h hv
  split_ifs
  · exact hy
  · exact hy

/-- What one pass of the loop body leaves as the *current* iterate is good, for every direction
    provider and every stop schedule — unless the model's line-search fuel ran out. -/
theorem iterBody_good (P : Problem α) (dir : Direction D α) (pr : Params α) (stop : Nat → Bool)
    (s : St α D) (eps : α) (h : Good P pr s.curr) (hf : s.fuelOut = false)
    (hf' : (iterBody P dir pr stop s eps).fuelOut = false) :
    Good P pr (iterBody P dir pr stop s eps).curr := by
  unfold iterBody at hf' ⊢
  simp only [] at hf' ⊢
  generalize hls : lineSearch P dir pr stop (directionStage dir s).2.2.1 (directionStage dir s).2.2.2.1
      pr.lsFuel _ = ls at hf' ⊢
  have hgood := lineSearch_good P dir pr stop (directionStage dir s).2.2.1
      (directionStage dir s).2.2.2.1 pr.lsFuel
      { curr := s.curr, next := { s.next with gamma := s.curr.gamma, L := s.curr.L },
        d := (directionStage dir s).1, tick := (directionStage dir s).2.1,
        tau := (directionStage dir s).2.2.2.1, tauPrev := -1, updInLs := pr.updateDirInCandidate,
        updated := false, dirRejected := true, lsBacktracks := 0, stepsizeBacktracks := 0,
        lbfgsRejected := 0 } h rfl
  rw [hls] at hgood
  by_cases hst : stop ls.tick
  · simp only [hst, if_true] at hf' ⊢
    exact hgood.1
  · simp only [hst, Bool.false_eq_true, if_false] at hf' ⊢
    have hlsf : ls.fuelOut = false := by
      rw [hf] at hf'; simpa using hf'
    exact hgood.2 hlsf (by simpa using hst)

theorem iterBody_fuelOut_mono (P : Problem α) (dir : Direction D α) (pr : Params α)
    (stop : Nat → Bool) (s : St α D) (eps : α) (hf : s.fuelOut = true) :
    (iterBody P dir pr stop s eps).fuelOut = true := by
  unfold iterBody
  simp only []
  split_ifs <;> simp [hf]

/-- Exit contract of a solve (what the caller's `x`, `y`, `err_z` hold afterwards). -/
def ExitOK (P : Problem α) (x0 y Sig errz0 : Vec α) (r : Result α D) : Prop :=
  (r.wrote = true →
      (∃ γ x g, r.x = (P.prox γ x g).2.1) ∧ r.y = (P.psi r.x).2 ∧
      r.errz = (if errz0.length > 0 then vdiv (vsub r.y y) Sig else errz0)) ∧
  (r.wrote = false → r.x = x0 ∧ r.y = y ∧ r.errz = errz0)

theorem exitBlock_ok (P : Problem α) (pr : Params α) (s : St α D) (eps : α) (status : SolverStatus)
    (x0 y Sig errz0 : Vec α) (h : Good P pr s.curr)
    (hyv : s.yhatValid = true → s.curr.yhat = (P.psi s.curr.xhat).2) :
    ExitOK P x0 y Sig errz0 (exitBlock P pr s eps status x0 y Sig errz0) ∧
    (exitBlock P pr s eps status x0 y Sig errz0).wrote =
      (status == .Converged || status == .Interrupted || pr.alwaysOverwrite) ∧
    (exitBlock P pr s eps status x0 y Sig errz0).stats.status = status ∧
    (exitBlock P pr s eps status x0 y Sig errz0).stats.iterations = s.k ∧
    (exitBlock P pr s eps status x0 y Sig errz0).stats.eps = eps := by
  unfold exitBlock ExitOK
  simp only []
  refine ⟨⟨?_, ?_⟩, ?_, ?_, ?_, ?_⟩ <;> try (first | rfl | trivial)
  · intro hw
    simp only [hw, Bool.true_and, if_true]
    by_cases he : s.yhatValid = true
    · simp only [he, Bool.not_true, Bool.false_eq_true, if_false]
      refine ⟨⟨_, _, _, h.1.2.1⟩, ?_, by first | rfl | trivial⟩
      exact hyv he
    · have he' : s.yhatValid = false := by simpa using he
      simp only [he', Bool.not_false, if_true]
      exact ⟨⟨_, _, _, h.1.2.1⟩, by first | rfl | trivial, by first | rfl | trivial⟩
  · intro hw
    simp only [hw, Bool.false_eq_true, if_false, Bool.false_and]
    exact ⟨by first | rfl | trivial, by first | rfl | trivial, by first | rfl | trivial⟩

theorem mainLoop_fuelOut_mono (P : Problem α) (dir : Direction D α) (pr : Params α)
    (stop : Nat → Bool) (oot : Bool) (x0 y Sig errz0 : Vec α) (fuel : Nat) (s : St α D)
    (hf : s.fuelOut = true) : (mainLoop P dir pr stop oot x0 y Sig errz0 fuel s).fuelOut = true := by
  induction fuel generalizing s with
  | zero => simp [mainLoop]
  | succ f ih =>
    unfold mainLoop
    simp only []
    split_ifs
    · unfold exitBlock; simp only []
      rw [(headStep_good_fuel P pr stop oot s)]; exact hf
    · apply ih
      apply iterBody_fuelOut_mono
      rw [(headStep_good_fuel P pr stop oot s)]; exact hf
where
  headStep_good_fuel (P : Problem α) (pr : Params α) (stop : Nat → Bool) (oot : Bool) (s : St α D) :
      (headStep P pr stop oot s).1.fuelOut = s.fuelOut := by
    unfold headStep; simp only []

/-- **Exit contract of the main loop**, for all oracles, stop schedules, budgets. -/
theorem mainLoop_ok (P : Problem α) (dir : Direction D α) (pr : Params α) (stop : Nat → Bool)
    (oot : Bool) (x0 y Sig errz0 : Vec α) (fuel : Nat) (s : St α D) (h : Good P pr s.curr)
    (hf : s.fuelOut = false)
    (hr : (mainLoop P dir pr stop oot x0 y Sig errz0 fuel s).fuelOut = false) :
    ExitOK P x0 y Sig errz0 (mainLoop P dir pr stop oot x0 y Sig errz0 fuel s) := by
  induction fuel generalizing s with
  | zero => simp [mainLoop] at hr
  | succ f ih =>
    unfold mainLoop at hr ⊢
    simp only [] at hr ⊢
    have hh := headStep_good P pr stop oot s h
    split_ifs at hr ⊢ with hb
    · exact (exitBlock_ok P pr _ _ _ x0 y Sig errz0 hh.1 (headStep_yhatValid P pr stop oot s h)).1
    · have hf1 : (headStep P pr stop oot s).1.fuelOut = false := by rw [hh.2]; exact hf
      have hf2 : (iterBody P dir pr stop (headStep P pr stop oot s).1 (headStep P pr stop oot s).2.1).fuelOut
          = false := by
        rcases Bool.eq_false_or_eq_true
          (iterBody P dir pr stop (headStep P pr stop oot s).1 (headStep P pr stop oot s).2.1).fuelOut
          with hc | hc
        · have := mainLoop_fuelOut_mono P dir pr stop oot x0 y Sig errz0 f _ hc
          rw [this] at hr; exact absurd hr (by decide)
        · exact hc
      exact ih _ (iterBody_good P dir pr stop _ _ hh.1 hf1 hf2) hf2 hr

end Alpaqa.Panoc
