/-
  C10 helper lemmas, part 3: `scale_R`, `reset`, the constructor — what they do to the ring
  invariant, to the represented window and to orthonormality.
-/
import Alpaqa.Proofs.C10Basic

namespace Alpaqa.C10
open Finset Alpaqa Alpaqa.Gen
set_option linter.unusedSectionVars false
set_option linter.unusedSimpArgs false
set_option linter.unusedVariables false

section
variable {α : Type} [Field α] [LinearOrder α] [IsStrictOrderedRing α] [RealLike α]

/-! ### scale_R -/

/-- `for (auto [i, c] : ring_iter()) R.col(c).topRows(i + 1) *= scal` over pairs with pairwise
    distinct storage columns: exactly the entries `(k, c)`, `k ≤ i`, are multiplied, once. -/
theorem scaleLoop_eq (scal : α) :
    ∀ (l : List (ℕ × ℕ)) (R : ℕ → ℕ → α), (l.map (·.2)).Nodup → ∀ k j,
      scaleLoop scal l R k j = if (∃ p ∈ l, j = p.2 ∧ k ≤ p.1) then R k j * scal else R k j := by
  intro l
  induction l with
  | nil => intro R _ k j; simp [scaleLoop]
  | cons p rest ih =>
    intro R hnd k j
    obtain ⟨i, c⟩ := p
    simp only [List.map_cons, List.nodup_cons] at hnd
    simp only [scaleLoop]
    rw [ih _ hnd.2]
    by_cases h1 : j = c ∧ k ≤ i
    · have hno : ¬ ∃ p ∈ rest, j = p.2 ∧ k ≤ p.1 := by
        rintro ⟨p, hp, hj, _⟩
        apply hnd.1
        rw [← h1.1, hj]
        exact List.mem_map_of_mem hp
      have hyes : ∃ p ∈ (i, c) :: rest, j = p.2 ∧ k ≤ p.1 := ⟨(i, c), List.mem_cons_self, h1⟩
      rw [if_neg hno, if_pos h1, if_pos hyes]
    · rw [if_neg h1]
      have : (∃ p ∈ (i, c) :: rest, j = p.2 ∧ k ≤ p.1) ↔ ∃ p ∈ rest, j = p.2 ∧ k ≤ p.1 := by
        constructor
        · rintro ⟨p, hp, hh⟩
          rcases List.mem_cons.mp hp with rfl | hp
          · exact absurd hh h1
          · exact ⟨p, hp, hh⟩
        · rintro ⟨p, hp, hh⟩
          exact ⟨p, List.mem_cons_of_mem _ hp, hh⟩
      simp only [this]

theorem ringFwd_nodup (s : LMQR α) (h : RingInv s) : (s.ringFwd.map (·.2)).Nodup := by
  rw [ringFwd_eq s h, List.map_map]
  apply List.Nodup.map_on _ List.nodup_range
  intro a ha b hb hab
  simp only [List.mem_range] at ha hb
  simp only [Function.comp] at hab
  by_contra hne
  rcases Nat.lt_or_gt_of_ne hne with hlt | hlt
  · exact slot_inj hlt (by have := h.cap; omega) hab
  · exact slot_inj hlt (by have := h.cap; omega) hab.symm

theorem scaleR_idx (s : LMQR α) (c : α) :
    (s.scaleR c).qIdx = s.qIdx ∧ (s.scaleR c).rStart = s.rStart ∧ (s.scaleR c).rEnd = s.rEnd ∧
    (s.scaleR c).n = s.n ∧ (s.scaleR c).m = s.m ∧ (s.scaleR c).Q = s.Q := by
  simp [LMQR.scaleR, LMQR.updateEig]

theorem scaleR_ring (s : LMQR α) (h : RingInv s) (c : α) : RingInv (s.scaleR c) := by
  obtain ⟨e1, e2, e3, e4, e5, e6⟩ := scaleR_idx s c
  exact ⟨by rw [e5]; exact h.mpos, by rw [e1, e5]; exact h.cap, by rw [e2, e5]; exact h.start_lt,
    by rw [e3, e2, e1, e5]; exact h.end_eq⟩

/-- every entry of `get_R()` is multiplied by `scal` -/
theorem scaleR_getR (s : LMQR α) (h : RingInv s) (c : α) {i k : ℕ} (hk : k < s.qIdx) :
    (s.scaleR c).getR i k = s.getR i k * c := by
  obtain ⟨e1, e2, e3, e4, e5, e6⟩ := scaleR_idx s c
  unfold LMQR.getR
  have hslot : (s.scaleR c).slot k = s.slot k := by simp [LMQR.slot, e2, e5]
  rw [hslot]
  split_ifs with hik
  · have hi : i < s.m := by have := h.cap; omega
    have hσ : s.slot k < s.m := Nat.mod_lt _ h.mpos
    have : (s.scaleR c).R.get i (s.slot k) = scaleLoop c s.ringFwd s.R.get i (s.slot k) := by
      simp only [LMQR.scaleR, LMQR.updateEig]
      rw [Mat.get_ofFn_lt _ hi hσ]
    rw [this, scaleLoop_eq c _ _ (ringFwd_nodup s h), if_pos]
    refine ⟨(k, s.slot k), ?_, rfl, hik⟩
    rw [ringFwd_eq s h]
    exact List.mem_map.mpr ⟨k, List.mem_range.mpr hk, rfl⟩
  · ring

theorem scaleR_represents (s : LMQR α) (h : RingInv s) (c : α) (A : ℕ → ℕ → α)
    (hA : Represents s A) : Represents (s.scaleR c) (fun k j => A k j * c) := by
  obtain ⟨e1, e2, e3, e4, e5, e6⟩ := scaleR_idx s c
  intro k hk j hj
  rw [e1] at hk
  rw [e4] at hj
  change _ = A k j * c
  rw [← hA k hk j hj]
  unfold colSum
  rw [e1, e6, Finset.sum_mul]
  apply Finset.sum_congr rfl
  intro i _
  rw [scaleR_getR s h c hk]; ring

theorem scaleR_orth (s : LMQR α) (c : α) (hO : Orth s) : Orth (s.scaleR c) := by
  obtain ⟨e1, e2, e3, e4, e5, e6⟩ := scaleR_idx s c
  intro a ha b hb
  rw [e1] at ha hb
  rw [e4, e6]
  exact hO a ha b hb

/-! ### reset / constructor -/

theorem reset_idx (inf : α) (s : LMQR α) :
    (s.reset inf).qIdx = 0 ∧ (s.reset inf).rStart = 0 ∧ (s.reset inf).rEnd = 0 ∧
    (s.reset inf).n = s.n ∧ (s.reset inf).m = s.m ∧ (s.reset inf).reorth = 0 := by
  simp [LMQR.reset, lmqrResetIdx, lmqrResetEig]

theorem reset_ring (inf : α) (s : LMQR α) (hm : 0 < s.m) : RingInv (s.reset inf) := by
  obtain ⟨e1, e2, e3, e4, e5, _⟩ := reset_idx inf s
  exact ⟨by rw [e5]; exact hm, by rw [e1]; omega, by rw [e2, e5]; exact hm, by rw [e3, e2, e1]; simp⟩

theorem reset_represents (inf : α) (s : LMQR α) (A : ℕ → ℕ → α) : Represents (s.reset inf) A := by
  intro k hk; rw [(reset_idx inf s).1] at hk; omega

theorem reset_orth (inf : α) (s : LMQR α) : Orth (s.reset inf) := by
  intro a ha; rw [(reset_idx inf s).1] at ha; omega

theorem new_idx (inf : α) (n m : ℕ) :
    (LMQR.new inf n m).qIdx = 0 ∧ (LMQR.new inf n m).n = n ∧ (LMQR.new inf n m).m = m := by
  simp [LMQR.new, LMQR.reset, lmqrResetIdx, lmqrResetEig]

theorem new_ring (inf : α) (n m : ℕ) (hm : 0 < m) : RingInv (LMQR.new inf n m) := by
  unfold LMQR.new; exact reset_ring inf _ hm

end
end Alpaqa.C10
