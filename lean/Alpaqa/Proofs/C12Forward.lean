/-
  C12 — `OCPEvaluator::forward` on the flat storage vector: every write goes to a segment that
  is disjoint from everything read later (layout theorem), so the loop simulates the dynamics
  from `x_init` and accumulates Σ stage costs + penalties.
-/
import Alpaqa.Model.C12
import Alpaqa.Proofs.C12Vec
import Alpaqa.Proofs.C12Layout
import Alpaqa.Proofs.C12Seg

namespace Alpaqa.C12
open Alpaqa Alpaqa.Gen.C12 OCPVars
variable {α : Type} [Field α] [LinearOrder α]

/-- The trajectory simulated from the initial state: `x₀ = x_init`, `x_{t+1} = f_t(x_t, u_t)`. -/
def traj (P : OCP α) (x0 : Vec α) (U : Nat → Vec α) : Nat → Vec α
  | 0 => x0
  | t + 1 => P.f t (traj P x0 U t) (U t)

/-- Output dimensions of the user functions. -/
structure WellDim (P : OCP α) (dx dh dc dhN dcN : Nat) : Prop where
  f : ∀ t x u, (P.f t x u).length = dx
  h : ∀ t x u, (P.h t x u).length = dh
  hN : ∀ x, (P.hN x).length = dhN
  c : ∀ t x, (P.c t x).length = dc
  cN : ∀ x, (P.cN x).length = dcN

section
variable (N dx du dh dc dhN dcN : Nat)

local notation "𝓥" => OCPVars.ofProblem N dx du dh dc dhN dcN

/-- Writing one valid segment keeps the size, reads back, and leaves every other segment alone. -/
theorem frame (st vals : Vec α) (k : Kind) (t : Nat)
    (hlen : st.length = (𝓥).createSize) (hv : segValid N k t)
    (hvals : vals.length = segLen 𝓥 k t) :
    (setSeg st (segStart 𝓥 k t) vals).length = (𝓥).createSize ∧
    getSeg (setSeg st (segStart 𝓥 k t) vals) (segStart 𝓥 k t) (segLen 𝓥 k t) = vals ∧
    ∀ k' t', segValid N k' t' → (k' ≠ k ∨ t' ≠ t) →
      getSeg (setSeg st (segStart 𝓥 k t) vals) (segStart 𝓥 k' t') (segLen 𝓥 k' t')
        = getSeg st (segStart 𝓥 k' t') (segLen 𝓥 k' t') := by
  have hin := layout_inbounds N dx du dh dc dhN dcN k t hv
  have hin' : segStart 𝓥 k t + vals.length ≤ st.length := by rw [hvals, hlen]; exact hin
  refine ⟨by rw [length_setSeg _ _ _ hin', hlen], ?_, ?_⟩
  · rw [← hvals]; exact getSeg_setSeg_same _ _ _ hin'
  · intro k' t' hv' hne
    apply getSeg_setSeg_disj _ _ _ _ _ hin'
    rw [hvals]
    exact layout_disjoint N dx du dh dc dhN dcN k k' t t' hv hv'
      (by rcases hne with h | h
          · exact Or.inl (fun e => h e.symm)
          · exact Or.inr (fun e => h e.symm))

/-! ### the three sub-steps of a stage -/

theorem outStep_spec (P : OCP α) (hw : WellDim P dx dh dc dhN dcN) (t : Nat) (ht : t < N)
    (st : Vec α) (V : α) (x u : Vec α)
    (hlen : st.length = (𝓥).createSize)
    (hx : getSeg st ((𝓥).xkStart t) ((𝓥).xkLen t) = x)
    (hu : getSeg st ((𝓥).ukStart t) ((𝓥).ukLen t) = u) :
    (outStep P 𝓥 t (st, V)).2 = V + (if dh > 0 then P.l t (P.h t x u) else P.l t (x ++ u)) ∧
    (outStep P 𝓥 t (st, V)).1.length = (𝓥).createSize ∧
    (∀ k' t', segValid N k' t' → (k' ≠ Kind.h ∨ t' ≠ t) →
      getSeg (outStep P 𝓥 t (st, V)).1 (segStart 𝓥 k' t') (segLen 𝓥 k' t')
        = getSeg st (segStart 𝓥 k' t') (segLen 𝓥 k' t')) ∧
    (dh > 0 → getSeg (outStep P 𝓥 t (st, V)).1 ((𝓥).hkStart t) ((𝓥).hkLen t) = P.h t x u) := by
  unfold outStep
  simp only [nh_ofProblem]
  by_cases hd : dh > 0
  · simp only [if_pos hd]
    rw [hx, hu]
    have hvals : (P.h t x u).length = segLen 𝓥 Kind.h t := by
      simp [segLen, hkLen_ofProblem, ht, hw.h]
    obtain ⟨f1, f2, f3⟩ := frame N dx du dh dc dhN dcN st (P.h t x u) Kind.h t hlen
      (Nat.le_of_lt ht) hvals
    simp only [segStart, segLen] at f1 f2
    exact ⟨by rw [f2], f1, f3, fun _ => f2⟩
  · simp only [if_neg hd]
    refine ⟨?_, hlen, fun _ _ _ _ => trivial, fun h => absurd h hd⟩
    have hc := xuk_contiguous N dx du dh dc dhN dcN t
    rw [hc.1, xukLen_ofProblem, getSeg_add, ← hc.2]
    rw [xkLen_ofProblem] at hx; rw [ukLen_ofProblem] at hu
    rw [hx, hu]

theorem conStep_spec (P : OCP α) (hw : WellDim P dx dh dc dhN dcN) (D : Box α) (μ y : Vec α)
    (t : Nat) (ht : t < N) (st : Vec α) (V : α) (x : Vec α)
    (hlen : st.length = (𝓥).createSize)
    (hx : getSeg st ((𝓥).xkStart t) ((𝓥).xkLen t) = x) :
    (conStep P 𝓥 D μ y t (st, V)).2 = V + (if dc > 0 then
        penaltyTerm (P.c t x) D (getSeg μ (t * dc) dc) (getSeg y (t * dc) dc) else 0) ∧
    (conStep P 𝓥 D μ y t (st, V)).1.length = (𝓥).createSize ∧
    (∀ k' t', segValid N k' t' → (k' ≠ Kind.c ∨ t' ≠ t) →
      getSeg (conStep P 𝓥 D μ y t (st, V)).1 (segStart 𝓥 k' t') (segLen 𝓥 k' t')
        = getSeg st (segStart 𝓥 k' t') (segLen 𝓥 k' t')) ∧
    (dc > 0 → getSeg (conStep P 𝓥 D μ y t (st, V)).1 ((𝓥).ckStart t) ((𝓥).ckLen t) = P.c t x) := by
  unfold conStep
  simp only [nc_ofProblem]
  by_cases hd : dc > 0
  · simp only [if_pos hd]
    rw [hx]
    have hvals : (P.c t x).length = segLen 𝓥 Kind.c t := by
      simp [segLen, ckLen_ofProblem, ht, hw.c]
    obtain ⟨f1, f2, f3⟩ := frame N dx du dh dc dhN dcN st (P.c t x) Kind.c t hlen
      (Nat.le_of_lt ht) hvals
    simp only [segStart, segLen] at f1 f2
    exact ⟨by rw [f2], f1, f3, fun _ => f2⟩
  · simp only [if_neg hd]
    exact ⟨by simp, hlen, fun _ _ _ _ => trivial, fun h => absurd h hd⟩

theorem dynStep_spec (P : OCP α) (hw : WellDim P dx dh dc dhN dcN)
    (t : Nat) (ht : t < N) (st : Vec α) (V : α) (x u : Vec α)
    (hlen : st.length = (𝓥).createSize)
    (hx : getSeg st ((𝓥).xkStart t) ((𝓥).xkLen t) = x)
    (hu : getSeg st ((𝓥).ukStart t) ((𝓥).ukLen t) = u) :
    (dynStep P 𝓥 t (st, V)).2 = V ∧
    (dynStep P 𝓥 t (st, V)).1.length = (𝓥).createSize ∧
    (∀ k' t', segValid N k' t' → (k' ≠ Kind.x ∨ t' ≠ t + 1) →
      getSeg (dynStep P 𝓥 t (st, V)).1 (segStart 𝓥 k' t') (segLen 𝓥 k' t')
        = getSeg st (segStart 𝓥 k' t') (segLen 𝓥 k' t')) ∧
    getSeg (dynStep P 𝓥 t (st, V)).1 ((𝓥).xkStart (t + 1)) ((𝓥).xkLen (t + 1)) = P.f t x u := by
  unfold dynStep
  rw [hx, hu]
  have hvals : (P.f t x u).length = segLen 𝓥 Kind.x (t + 1) := by simp [segLen, hw.f]
  obtain ⟨f1, f2, f3⟩ := frame N dx du dh dc dhN dcN st (P.f t x u) Kind.x (t + 1) hlen
    (Nat.succ_le_of_lt ht) hvals
  simp only [segStart, segLen] at f1 f2
  exact ⟨rfl, f1, f3, f2⟩

/-! ### a whole stage, the loop, the terminal part -/

/-- What the storage holds after `t` stages of `forward`. -/
structure FwdInv (P : OCP α) (x0 : Vec α) (U : Nat → Vec α) (t : Nat) (st : Vec α) : Prop where
  len : st.length = (𝓥).createSize
  u : ∀ s < N, getSeg st ((𝓥).ukStart s) ((𝓥).ukLen s) = U s
  x : ∀ s ≤ t, getSeg st ((𝓥).xkStart s) ((𝓥).xkLen s) = traj P x0 U s
  h : dh > 0 → ∀ s < t, getSeg st ((𝓥).hkStart s) ((𝓥).hkLen s) = P.h s (traj P x0 U s) (U s)
  c : dc > 0 → ∀ s < t, getSeg st ((𝓥).ckStart s) ((𝓥).ckLen s) = P.c s (traj P x0 U s)

/-- stage cost + penalty as the property states them. -/
def stageCost (P : OCP α) (dh dc : Nat) (D : Box α) (μ y : Vec α) (t : Nat) (x u : Vec α) : α :=
  (if dh > 0 then P.l t (P.h t x u) else P.l t (x ++ u)) +
  (if dc > 0 then penaltyTerm (P.c t x) D (getSeg μ (t * dc) dc) (getSeg y (t * dc) dc) else 0)

theorem forwardStage_spec (P : OCP α) (hw : WellDim P dx dh dc dhN dcN) (D : Box α) (μ y : Vec α)
    (x0 : Vec α) (U : Nat → Vec α) (t : Nat) (ht : t < N) (st : Vec α) (V : α)
    (inv : FwdInv N dx du dh dc dhN dcN P x0 U t st) :
    FwdInv N dx du dh dc dhN dcN P x0 U (t + 1) (forwardStage P 𝓥 D μ y (st, V) t).1 ∧
    (forwardStage P 𝓥 D μ y (st, V) t).2 = V + stageCost P dh dc D μ y t (traj P x0 U t) (U t) := by
  unfold forwardStage
  have hx0 := inv.x t (Nat.le_refl t)
  have hu0 := inv.u t ht
  obtain ⟨o1, o2, o3, o4⟩ := outStep_spec N dx du dh dc dhN dcN P hw t ht st V _ _ inv.len hx0 hu0
  rcases hs1 : outStep P 𝓥 t (st, V) with ⟨st1, V1⟩
  rw [hs1] at o1 o2 o3 o4
  simp only at o1 o2 o3 o4
  have hx1 : getSeg st1 ((𝓥).xkStart t) ((𝓥).xkLen t) = traj P x0 U t := by
    have := o3 Kind.x t (Nat.le_of_lt ht) (Or.inl (by decide))
    simp only [segStart, segLen] at this; rw [this, hx0]
  obtain ⟨c1, c2, c3, c4⟩ := conStep_spec N dx du dh dc dhN dcN P hw D μ y t ht st1 V1 _ o2 hx1
  rcases hs2 : conStep P 𝓥 D μ y t (st1, V1) with ⟨st2, V2⟩
  rw [hs2] at c1 c2 c3 c4
  simp only at c1 c2 c3 c4
  have hx2 : getSeg st2 ((𝓥).xkStart t) ((𝓥).xkLen t) = traj P x0 U t := by
    have := c3 Kind.x t (Nat.le_of_lt ht) (Or.inl (by decide))
    simp only [segStart, segLen] at this; rw [this, hx1]
  have hu2 : getSeg st2 ((𝓥).ukStart t) ((𝓥).ukLen t) = U t := by
    have a := c3 Kind.u t ht (Or.inl (by decide))
    have b := o3 Kind.u t ht (Or.inl (by decide))
    simp only [segStart, segLen] at a b; rw [a, b, hu0]
  obtain ⟨d1, d2, d3, d4⟩ := dynStep_spec N dx du dh dc dhN dcN P hw t ht st2 V2 _ _ c2 hx2 hu2
  rcases hs3 : dynStep P 𝓥 t (st2, V2) with ⟨st3, V3⟩
  rw [hs3] at d1 d2 d3 d4
  simp only at d1 d2 d3 d4
  -- a segment other than h(t), c(t), x(t+1) is the same in st3 and st
  have keep : ∀ k' t', segValid N k' t' → (k' ≠ Kind.h ∨ t' ≠ t) → (k' ≠ Kind.c ∨ t' ≠ t) →
      (k' ≠ Kind.x ∨ t' ≠ t + 1) →
      getSeg st3 (segStart 𝓥 k' t') (segLen 𝓥 k' t') = getSeg st (segStart 𝓥 k' t') (segLen 𝓥 k' t') := by
    intro k' t' hv h1 h2 h3
    rw [d3 k' t' hv h3, c3 k' t' hv h2, o3 k' t' hv h1]
  refine ⟨⟨d2, ?_, ?_, ?_, ?_⟩, ?_⟩
  · intro s hs
    have := keep Kind.u s hs (Or.inl (by decide)) (Or.inl (by decide)) (Or.inl (by decide))
    simp only [segStart, segLen] at this; rw [this, inv.u s hs]
  · intro s hs
    by_cases he : s = t + 1
    · subst he; rw [d4]; rfl
    · have := keep Kind.x s (by simp only [segValid]; omega) (Or.inl (by decide)) (Or.inl (by decide)) (Or.inr he)
      simp only [segStart, segLen] at this; rw [this, inv.x s (by omega)]
  · intro hd s hs
    by_cases he : s = t
    · subst he
      have a := d3 Kind.h s (Nat.le_of_lt ht) (Or.inl (by decide))
      have b := c3 Kind.h s (Nat.le_of_lt ht) (Or.inl (by decide))
      simp only [segStart, segLen] at a b; rw [a, b, o4 hd]
    · have := keep Kind.h s (by simp only [segValid]; omega) (Or.inr he) (Or.inl (by decide)) (Or.inl (by decide))
      simp only [segStart, segLen] at this; rw [this, inv.h hd s (by omega)]
  · intro hd s hs
    by_cases he : s = t
    · subst he
      have a := d3 Kind.c s (Nat.le_of_lt ht) (Or.inl (by decide))
      simp only [segStart, segLen] at a; rw [a, c4 hd]
    · have := keep Kind.c s (by simp only [segValid]; omega) (Or.inl (by decide)) (Or.inr he) (Or.inl (by decide))
      simp only [segStart, segLen] at this; rw [this, inv.c hd s (by omega)]
  · rw [d1, c1, o1]; unfold stageCost; ring

theorem forwardLoop_spec (P : OCP α) (hw : WellDim P dx dh dc dhN dcN) (D : Box α) (μ y : Vec α)
    (x0 : Vec α) (U : Nat → Vec α) (st : Vec α)
    (inv0 : FwdInv N dx du dh dc dhN dcN P x0 U 0 st) :
    ∀ n ≤ N,
      FwdInv N dx du dh dc dhN dcN P x0 U n
        ((List.range n).foldl (forwardStage P 𝓥 D μ y) (st, 0)).1 ∧
      ((List.range n).foldl (forwardStage P 𝓥 D μ y) (st, 0)).2 =
        ∑ t ∈ Finset.range n, stageCost P dh dc D μ y t (traj P x0 U t) (U t) := by
  intro n
  induction n with
  | zero => intro _; simpa using inv0
  | succ n ih =>
    intro hn
    obtain ⟨i1, i2⟩ := ih (by omega)
    rw [List.range_succ, List.foldl_append, List.foldl_cons, List.foldl_nil]
    rcases hs : (List.range n).foldl (forwardStage P 𝓥 D μ y) (st, 0) with ⟨st', V'⟩
    rw [hs] at i1 i2
    obtain ⟨j1, j2⟩ := forwardStage_spec N dx du dh dc dhN dcN P hw D μ y x0 U n (by omega) st' V' i1
    refine ⟨j1, ?_⟩
    rw [j2, Finset.sum_range_succ]
    simp only at i2
    rw [i2]

/-- terminal cost + penalty as the property states them. -/
def terminalCost (P : OCP α) (N dc dhN dcN : Nat) (DN : Box α) (μ y : Vec α) (x : Vec α) : α :=
  (if dhN > 0 then P.lN (P.hN x) else P.lN x) +
  (if dcN > 0 then penaltyTerm (P.cN x) DN (getSeg μ (N * dc) dcN) (getSeg y (N * dc) dcN) else 0)

theorem forwardTerminal_spec (P : OCP α) (hw : WellDim P dx dh dc dhN dcN) (DN : Box α)
    (μ y : Vec α) (st : Vec α) (V : α) (x : Vec α)
    (hlen : st.length = (𝓥).createSize)
    (hx : getSeg st ((𝓥).xkStart N) ((𝓥).xkLen N) = x) :
    (forwardTerminal P 𝓥 DN μ y (st, V)).2 = V + terminalCost P N dc dhN dcN DN μ y x ∧
    (forwardTerminal P 𝓥 DN μ y (st, V)).1.length = (𝓥).createSize ∧
    (∀ k' t', segValid N k' t' → (k' ≠ Kind.h ∨ t' ≠ N) → (k' ≠ Kind.c ∨ t' ≠ N) →
      getSeg (forwardTerminal P 𝓥 DN μ y (st, V)).1 (segStart 𝓥 k' t') (segLen 𝓥 k' t')
        = getSeg st (segStart 𝓥 k' t') (segLen 𝓥 k' t')) ∧
    (dhN > 0 → getSeg (forwardTerminal P 𝓥 DN μ y (st, V)).1 ((𝓥).hkStart N) ((𝓥).hkLen N) = P.hN x) ∧
    (dcN > 0 → getSeg (forwardTerminal P 𝓥 DN μ y (st, V)).1 ((𝓥).ckStart N) ((𝓥).ckLen N) = P.cN x) := by
  unfold forwardTerminal
  -- outputs
  have o : (outStepN P 𝓥 (st, V)).2 = V + (if dhN > 0 then P.lN (P.hN x) else P.lN x) ∧
      (outStepN P 𝓥 (st, V)).1.length = (𝓥).createSize ∧
      (∀ k' t', segValid N k' t' → (k' ≠ Kind.h ∨ t' ≠ N) →
        getSeg (outStepN P 𝓥 (st, V)).1 (segStart 𝓥 k' t') (segLen 𝓥 k' t')
          = getSeg st (segStart 𝓥 k' t') (segLen 𝓥 k' t')) ∧
      (dhN > 0 → getSeg (outStepN P 𝓥 (st, V)).1 ((𝓥).hkStart N) ((𝓥).hkLen N) = P.hN x) := by
    unfold outStepN
    simp only [nh_N_ofProblem, N_ofProblem]
    by_cases hd : dhN > 0
    · simp only [if_pos hd]
      rw [hx]
      have hvals : (P.hN x).length = segLen 𝓥 Kind.h N := by
        simp [segLen, hkLen_ofProblem, hw.hN]
      obtain ⟨f1, f2, f3⟩ := frame N dx du dh dc dhN dcN st (P.hN x) Kind.h N hlen
        (Nat.le_refl N) hvals
      simp only [segStart, segLen] at f1 f2
      exact ⟨by rw [f2], f1, f3, fun _ => f2⟩
    · simp only [if_neg hd]
      rw [hx]
      exact ⟨rfl, hlen, fun _ _ _ _ => trivial, fun h => absurd h hd⟩
  obtain ⟨o1, o2, o3, o4⟩ := o
  rcases hs1 : outStepN P 𝓥 (st, V) with ⟨st1, V1⟩
  rw [hs1] at o1 o2 o3 o4
  simp only at o1 o2 o3 o4
  have hx1 : getSeg st1 ((𝓥).xkStart N) ((𝓥).xkLen N) = x := by
    have := o3 Kind.x N (Nat.le_refl N) (Or.inl (by decide))
    simp only [segStart, segLen] at this; rw [this, hx]
  unfold conStepN
  simp only [nc_N_ofProblem, nc_ofProblem, N_ofProblem]
  by_cases hd : dcN > 0
  · simp only [if_pos hd]
    rw [hx1]
    have hvals : (P.cN x).length = segLen 𝓥 Kind.c N := by
      simp [segLen, ckLen_ofProblem, hw.cN]
    obtain ⟨f1, f2, f3⟩ := frame N dx du dh dc dhN dcN st1 (P.cN x) Kind.c N o2
      (Nat.le_refl N) hvals
    simp only [segStart, segLen] at f1 f2
    refine ⟨?_, f1, ?_, ?_, fun _ => f2⟩
    · rw [f2, o1]; unfold terminalCost; rw [if_pos hd]; ring
    · intro k' t' hv h1 h2
      have := f3 k' t' hv h2
      simp only [segStart] at this ⊢
      rw [this]; exact o3 k' t' hv h1
    · intro hh
      have := f3 Kind.h N (Nat.le_refl N) (Or.inl (by decide))
      simp only [segStart, segLen] at this; rw [this, o4 hh]
  · simp only [if_neg hd]
    refine ⟨?_, o2, ?_, o4, fun h => absurd h hd⟩
    · rw [o1]; unfold terminalCost; rw [if_neg hd]; ring
    · intro k' t' hv h1 _; exact o3 k' t' hv h1

/-- **forward = spec** (cost part and what the storage holds afterwards). -/
theorem forward_spec (P : OCP α) (hw : WellDim P dx dh dc dhN dcN) (D DN : Box α) (μ y : Vec α)
    (st : Vec α) (x0 : Vec α) (U : Nat → Vec α)
    (hlen : st.length = (𝓥).createSize)
    (hx0 : getSeg st ((𝓥).xkStart 0) ((𝓥).xkLen 0) = x0)
    (hU : ∀ t < N, getSeg st ((𝓥).ukStart t) ((𝓥).ukLen t) = U t) :
    (forward P 𝓥 D DN μ y st).2 =
      ∑ t ∈ Finset.range N, stageCost P dh dc D μ y t (traj P x0 U t) (U t)
        + terminalCost P N dc dhN dcN DN μ y (traj P x0 U N) ∧
    FwdInv N dx du dh dc dhN dcN P x0 U N (forward P 𝓥 D DN μ y st).1 ∧
    (dhN > 0 → getSeg (forward P 𝓥 D DN μ y st).1 ((𝓥).hkStart N) ((𝓥).hkLen N)
        = P.hN (traj P x0 U N)) ∧
    (dcN > 0 → getSeg (forward P 𝓥 D DN μ y st).1 ((𝓥).ckStart N) ((𝓥).ckLen N)
        = P.cN (traj P x0 U N)) := by
  have inv0 : FwdInv N dx du dh dc dhN dcN P x0 U 0 st :=
    ⟨hlen, hU, fun s hs => by
        have h0 : s = 0 := by omega
        subst h0; exact hx0,
     fun _ s hs => absurd hs (Nat.not_lt_zero s), fun _ s hs => absurd hs (Nat.not_lt_zero s)⟩
  obtain ⟨i1, i2⟩ := forwardLoop_spec N dx du dh dc dhN dcN P hw D μ y x0 U st inv0 N (Nat.le_refl N)
  unfold forward
  simp only [N_ofProblem]
  rcases hs : (List.range N).foldl (forwardStage P 𝓥 D μ y) (st, 0) with ⟨st', V'⟩
  rw [hs] at i1 i2
  simp only at i2
  obtain ⟨t1, t2, t3, t4, t5⟩ := forwardTerminal_spec N dx du dh dc dhN dcN P hw DN μ y st' V' _
    i1.len (i1.x N (Nat.le_refl N))
  refine ⟨by rw [t1, i2], ⟨t2, ?_, ?_, ?_, ?_⟩, t4, t5⟩
  · intro s hs
    have := t3 Kind.u s hs (Or.inl (by decide)) (Or.inl (by decide))
    simp only [segStart, segLen] at this; rw [this, i1.u s hs]
  · intro s hs
    have := t3 Kind.x s hs (Or.inl (by decide)) (Or.inl (by decide))
    simp only [segStart, segLen] at this; rw [this, i1.x s hs]
  · intro hd s hs
    have := t3 Kind.h s (by simp only [segValid]; omega) (Or.inr (by omega)) (Or.inl (by decide))
    simp only [segStart, segLen] at this; rw [this, i1.h hd s hs]
  · intro hd s hs
    have := t3 Kind.c s (by simp only [segValid]; omega) (Or.inl (by decide)) (Or.inr (by omega))
    simp only [segStart, segLen] at this; rw [this, i1.c hd s hs]

end

end Alpaqa.C12
