/-
  ZeroFPR loop model: what the whole-run theorems over the callback list need from the stages
  (`Props/C05_Zerofpr.lean`, `Props/C06_Zerofpr.lean`).

  Structural part (any carrier): `StepCons` — the scalars `‖p‖²`, `∇ψᵀp` of an iterate are the
  reductions of its own `p`, `∇ψ` —, which fields a pass of the line-search body writes
  (`lsPass_shape`), the reported `x` of a completed iteration, `run_cases` (how a solve ends), and the
  list of "iterate unchanged" flags of consecutive reported iterates (`pairFlags`).

  Ordered-field part: the line-search invariant `LsInv` (`τ ≥ 0`; after `take_safe_step` the
  candidate sits at `x̂ₖ` with `ψ(x̂ₖ)`, `∇ψ(x̂ₖ)` copied from the current iterate / `*prox`) and what
  a `break` guarantees on top of the acceptance tests (`LsDone`).
-/
import Mathlib.Algebra.Order.Field.Basic
import Mathlib.Tactic.Ring
import Mathlib.Tactic.Linarith
import Alpaqa.Proofs.Basic
import Alpaqa.Proofs.ZerofprStep
import Alpaqa.Proofs.ZerofprFuel

namespace Alpaqa.Zerofpr
open Alpaqa Alpaqa.Gen
set_option linter.unusedSectionVars false
set_option linter.unusedVariables false

/-! ### Structural part (any carrier) -/
section structural
variable {α D : Type} [Add α] [Sub α] [Mul α] [Div α] [Neg α] [LT α] [LE α] [DecidableLT α]
  [DecidableLE α] [BEq α] [RealLike α] [NatCast α] [OfScientific α]
  [OfNat α 0] [OfNat α 1] [OfNat α 2] [OfNat α 100]

/-- The iterate's prox step is the oracle's answer at its own `(γ, x, ∇ψ)` and its scalars `‖p‖²`,
    `∇ψᵀp` are the reductions of its own `p`, `∇ψ`. -/
def StepCons (P : Problem α) (i : Iterate α) : Prop :=
  ProxCons P i ∧ i.pTp = sqNorm i.p ∧ i.gradPsiTp = dot i.p i.gradPsi

theorem stepCons_evalStep (P : Problem α) (i : Iterate α) :
    StepCons P (evalCostInProx P (evalProxGradStep P i)) := by
  unfold StepCons ProxCons evalCostInProx evalProxGradStep
  simp

/-- `take_safe_step` has been the last recomputation: the candidate sits at `x̂ₖ`, with `ψ(x̂ₖ)`
    copied from the current iterate and `∇ψ(x̂ₖ)` from `*prox`. -/
def SafeF (c : Iterate α) (px : ProxIterate α) (n : Iterate α) : Prop :=
  n.x = c.xhat ∧ n.psix = c.psixhat ∧ n.gradPsi = px.gradPsi

theorem lsUpdateInCandidate_tauPrev (dir : Direction D α) (pr : Params α) (c : Iterate α)
    (px : ProxIterate α) (s : LS α D) :
    (lsUpdateInCandidate dir pr c px s).tauPrev = s.tauPrev := by
  unfold lsUpdateInCandidate
  split_ifs <;> rfl

/-- Which fields one pass of the line-search body writes, relative to the state after the step
    recomputation: the candidate's `x`, `ψ(x)`, `∇ψ(x)` and `τ_prev` are not touched; `τ` is kept,
    zeroed, reset to `τ_init`, or halved (only if it was positive); a `break` keeps `τ` and leaves the
    candidate with a freshly evaluated prox step. -/
theorem lsPass_shape (P : Problem α) (dir : Direction D α) (pr : Params α) (c : Iterate α)
    (px : ProxIterate α) (q : Vec α) (tauInit : α) (s : LS α D) :
    (lsPass P dir pr c px q tauInit s).st.next.x = (lsRecompute P c px q s).next.x ∧
    (lsPass P dir pr c px q tauInit s).st.next.psix = (lsRecompute P c px q s).next.psix ∧
    (lsPass P dir pr c px q tauInit s).st.next.gradPsi = (lsRecompute P c px q s).next.gradPsi ∧
    (lsPass P dir pr c px q tauInit s).st.tauPrev = (lsRecompute P c px q s).tauPrev ∧
    ((lsPass P dir pr c px q tauInit s).st.tau = (lsRecompute P c px q s).tau ∨
     (lsPass P dir pr c px q tauInit s).st.tau = 0 ∨
     (lsPass P dir pr c px q tauInit s).st.tau = tauInit ∨
     ((lsRecompute P c px q s).tau > 0 ∧
      (lsPass P dir pr c px q tauInit s).st.tau = (lsRecompute P c px q s).tau / 2)) ∧
    (∀ s', lsPass P dir pr c px q tauInit s = .done s' →
      s'.tau = (lsRecompute P c px q s).tau ∧
      s'.next = evalCostInProx P (evalProxGradStep P (lsRecompute P c px q s).next)) := by
  unfold lsPass
  simp only []
  generalize lsRecompute P c px q s = s1
  have hu := lsUpdateInCandidate_same dir pr c px
    { s1 with next := evalCostInProx P (evalProxGradStep P s1.next), tick := s1.tick + 2 }
  have hup := lsUpdateInCandidate_tauPrev dir pr c px
    { s1 with next := evalCostInProx P (evalProxGradStep P s1.next), tick := s1.tick + 2 }
  have hx := congrArg Iterate.x hu.1
  have hpsi := congrArg Iterate.psix hu.1
  have hg := congrArg Iterate.gradPsi hu.1
  split_ifs with ha hb hc hd he
  · -- failed accelerated step
    exact ⟨rfl, rfl, rfl, rfl, .inr (.inl rfl), fun s' h => by cases h⟩
  · -- step-size backtrack, τ > 0
    exact ⟨rfl, rfl, rfl, rfl, .inr (.inr (.inl rfl)), fun s' h => by cases h⟩
  · -- step-size backtrack, τ = 0
    exact ⟨rfl, rfl, rfl, rfl, .inl rfl, fun s' h => by cases h⟩
  · -- line-search backtrack below τ_min
    exact ⟨hx, hpsi, hg, hup,
      .inr (.inl rfl), fun s' h => by cases h⟩
  · -- line-search backtrack
    simp only [Bool.and_eq_true, decide_eq_true_eq] at hd
    have h0 := hd.1
    rw [hu.2.2] at h0
    exact ⟨hx, hpsi, hg, hup,
      .inr (.inr (.inr ⟨h0, congrArg (· / 2) hu.2.2⟩)), fun s' h => by cases h⟩
  · -- break
    refine ⟨hx, hpsi, hg, hup,
      .inl hu.2.2, fun s' h => ?_⟩
    injection h with h; subst h; exact ⟨hu.2.2, hu.1⟩

/-- What the step recomputation at the top of a pass does to `τ_prev` and to the candidate
    (`BEq` must decide equality: the model's `τ != τ_prev`). -/
theorem lsRecompute_safe [LawfulBEq α] (P : Problem α) (c : Iterate α) (px : ProxIterate α) (q : Vec α)
    (s : LS α D) :
    (lsRecompute P c px q s).tauPrev = (lsRecompute P c px q s).tau ∧
    (lsRecompute P c px q s).tau = s.tau ∧
    ((lsRecompute P c px q s).tauPrev = 0 → (s.tauPrev = 0 → SafeF c px s.next) →
      SafeF c px (lsRecompute P c px q s).next) := by
  unfold lsRecompute
  split_ifs with h1 h2
  · refine ⟨rfl, rfl, fun h0 _ => ?_⟩
    exact absurd h0 (by simpa using h2)
  · exact ⟨rfl, rfl, fun _ _ => ⟨rfl, rfl, rfl⟩⟩
  · have e : s.tau = s.tauPrev := by simpa using h1
    exact ⟨e.symm, rfl, fun h0 hs => hs h0⟩

/-- The iterate handed to the progress callback of a completed iteration has the current iterate's
    `x` (the update stage rewrites at most `γ`, `L`). -/
theorem updateStage_x (P : Problem α) (dir : Direction D α) (pr : Params α) (c : Iterate α)
    (px : ProxIterate α) (ls : LS α D) : (updateStage P dir pr c px ls).1.x = c.x := by
  rcases updateStage_curr P dir pr c px ls with h | h <;> rw [h]

/-- `∇ψ(x̂ₖ)` (the `grad_ψ` member of `*prox`) is not touched by the update stage. -/
theorem updateStage_gradHat (P : Problem α) (dir : Direction D α) (pr : Params α) (c : Iterate α)
    (px : ProxIterate α) (ls : LS α D) : (updateStage P dir pr c px ls).2.1.gradPsi = px.gradPsi := by
  unfold updateStage evalProxGradStepInProx
  split_ifs <;> rfl

/-- Without `recompute_last_prox_step_after_stepsize_change` the reported iterate *is* the current
    one. -/
theorem updateStage_norecomp (P : Problem α) (dir : Direction D α) (pr : Params α) (c : Iterate α)
    (px : ProxIterate α) (ls : LS α D) (h : pr.recomputeLastProx = false) :
    (updateStage P dir pr c px ls).1 = c := by
  unfold updateStage
  split_ifs with h1 h2 h3
  all_goals first | rfl | (rw [h] at h3; exact absurd h3 (by decide))

/-- The callback of a completed iteration, all fields. -/
theorem iterBody_callback (P : Problem α) (dir : Direction D α) (pr : Params α)
    (stop : Nat → Bool) (s : St α D) (eps : α) (h : stop (lsOf P dir pr stop s).tick = false) :
    ∃ cb : Callback α, (iterBody P dir pr stop s eps).cbs = cb :: s.cbs ∧
      cb.tau = (lsOf P dir pr stop s).tau ∧ cb.k = s.k ∧ cb.eps = eps ∧ cb.status = .Busy ∧
      cb.it = (updateStage P dir pr s.curr s.prox (lsOf P dir pr stop s)).1 ∧
      cb.fbe = cb.it.fbe ∧
      cb.gradPsiHat = (updateStage P dir pr s.curr s.prox (lsOf P dir pr stop s)).2.1.gradPsi := by
  unfold iterBody
  simp only [h, Bool.false_eq_true, if_false]
  exact ⟨_, rfl, rfl, rfl, rfl, rfl, rfl, rfl, rfl⟩

/-- **How a solve ends**: the early `NotFinite` return, or — for every invariant `I` of "loop head,
    `Busy`, loop body" that the initialisation establishes — the exit block of a loop head whose
    status is not `Busy`, in a state satisfying `I` (given that the model's fuel did not run out). -/
theorem run_cases (P : Problem α) (dir : Direction D α) (d0 : D) (pr : Params α) (stop : Nat → Bool)
    (oot : Bool) (x0 y Sig errz0 gV : Vec α) (gS iS : α) (I : St α D → Prop)
    (hinit : ∀ s, initState P d0 pr stop x0 gV gS = .inr s → I s)
    (hstep : ∀ s, I s → (headStep P pr stop oot s).2.2 = .Busy →
      I (iterBody P dir pr stop (headStep P pr stop oot s).1 (headStep P pr stop oot s).2.1))
    (hfuel : (run P dir d0 pr stop oot x0 y Sig errz0 gV gS iS).fuelOut = false) :
    (∃ t, initState P d0 pr stop x0 gV gS = .inl t) ∨
    ∃ s', I s' ∧ (headStep P pr stop oot s').2.2 ≠ .Busy ∧
      run P dir d0 pr stop oot x0 y Sig errz0 gV gS iS =
        exitBlock pr (headStep P pr stop oot s').1 (headStep P pr stop oot s').2.1
          (headStep P pr stop oot s').2.2 x0 y Sig errz0 := by
  unfold run at hfuel ⊢
  cases hi : initState P d0 pr stop x0 gV gS with
  | inl t => exact .inl ⟨t, rfl⟩
  | inr s =>
    simp only [hi] at hfuel ⊢
    rcases mainLoop_cases P dir pr stop oot x0 y Sig errz0 I hstep (pr.maxIter + 2) s (hinit s hi)
      with ⟨s', hI, hnb, he⟩ | ⟨s', _, he⟩
    · exact .inr ⟨s', hI, hnb, he⟩
    · rw [he] at hfuel; simp at hfuel

/-- Callbacks of an exit: everything recorded so far, then the final one, which reports the current
    iterate, the head's `∇ψ(x̂)`, `ε` and the exit status. -/
theorem exitBlock_callbacks (pr : Params α) (s : St α D) (eps : α) (status : SolverStatus)
    (x0 y Sig errz0 : Vec α) :
    (exitBlock pr s eps status x0 y Sig errz0).callbacks =
      s.cbs.reverse ++ [{ k := s.k, status := status, it := s.curr, fbe := s.curr.fbe,
                          gradPsiHat := s.prox.gradPsi, q := [], tau := -1, eps := eps }] := by
  unfold exitBlock
  simp only [List.reverse_cons]

/-! ### "Iterate unchanged" flags of a list of reported points -/

/-- `aᵢ == aᵢ₊₁` for consecutive elements. -/
def pairFlags {β : Type} [BEq β] : List β → List Bool
  | a :: b :: r => (a == b) :: pairFlags (b :: r)
  | _ => []

theorem pairFlags_snoc {β : Type} [BEq β] (l : List β) (a b : β) :
    pairFlags (l ++ [a] ++ [b]) = pairFlags (l ++ [a]) ++ [a == b] := by
  induction l with
  | nil => simp [pairFlags]
  | cons x l ih =>
    cases l with
    | nil => simp [pairFlags]
    | cons y l =>
      simp only [List.cons_append, pairFlags] at ih ⊢
      rw [ih]

theorem pairFlags_length {β : Type} [BEq β] (l : List β) (a : β) :
    (pairFlags (l ++ [a])).length = l.length := by
  induction l with
  | nil => simp [pairFlags]
  | cons x l ih =>
    cases l with
    | nil => simp [pairFlags]
    | cons y l =>
      simp only [List.cons_append, pairFlags, List.length_cons] at ih ⊢
      rw [ih]

end structural

/-! ### Ordered-field part: the line search -/
section field
variable {α D : Type} [Field α] [LinearOrder α] [IsStrictOrderedRing α] [RealLike α]

/-- Invariant of the line-search state: `τ ≥ 0`, and if the last step recomputation was
    `take_safe_step` (`τ_prev = 0`) the candidate sits at `x̂ₖ`. -/
def LsInv (c : Iterate α) (px : ProxIterate α) (s : LS α D) : Prop :=
  0 ≤ s.tau ∧ (s.tauPrev = 0 → SafeF c px s.next)

/-- What a line search that ended through `break` guarantees. -/
structure LsDone (P : Problem α) (pr : Params α) (c : Iterate α) (px : ProxIterate α) (s : LS α D) :
    Prop where
  step : StepCons P s.next
  good : Good P s.next
  acc : Accepted pr c s
  tau_nonneg : 0 ≤ s.tau
  safe : s.tau = 0 → SafeF c px s.next

/-- One pass of the line-search body preserves the invariant; at a `break`, `τ_prev = τ` and the
    candidate carries a freshly evaluated prox step. -/
theorem lsPass_inv (P : Problem α) (dir : Direction D α) (pr : Params α) (c : Iterate α)
    (px : ProxIterate α) (q : Vec α) (tauInit : α) (hti : 0 ≤ tauInit) (s : LS α D)
    (h : LsInv c px s) :
    LsInv c px (lsPass P dir pr c px q tauInit s).st ∧
    (∀ s', lsPass P dir pr c px q tauInit s = .done s' →
      s'.tauPrev = s'.tau ∧ StepCons P s'.next) := by
  have hr := lsRecompute_safe P c px q s
  have hs := lsPass_shape P dir pr c px q tauInit s
  obtain ⟨hx, hpsi, hg, hprev, htau, hdone⟩ := hs
  have h1 : 0 ≤ (lsRecompute P c px q s).tau := by rw [hr.2.1]; exact h.1
  refine ⟨⟨?_, fun h0 => ?_⟩, fun s' hpass => ?_⟩
  · rcases htau with e | e | e | ⟨hpos, e⟩
    · rw [e]; exact h1
    · rw [e]
    · rw [e]; exact hti
    · rw [e]; linarith
  · rw [hprev] at h0
    have := hr.2.2 h0 h.2
    exact ⟨hx.trans this.1, hpsi.trans this.2.1, hg.trans this.2.2⟩
  · have hd := hdone s' hpass
    rw [hpass] at hprev
    simp only [Pass.st] at hprev
    exact ⟨by rw [hprev, hr.1, hd.1], by rw [hd.2]; exact stepCons_evalStep P _⟩

/-- The whole line search, left through `break`. -/
theorem lineSearch_lsDone (P : Problem α) (dir : Direction D α) (pr : Params α) (stop : Nat → Bool)
    (c : Iterate α) (px : ProxIterate α) (q : Vec α) (tauInit : α) (hti : 0 ≤ tauInit)
    (fuel : Nat) (s : LS α D) (h : LsInv c px s) (hf : s.fuelOut = false)
    (hr : (lineSearch P dir pr stop c px q tauInit fuel s).fuelOut = false)
    (hs : stop (lineSearch P dir pr stop c px q tauInit fuel s).tick = false) :
    LsDone P pr c px (lineSearch P dir pr stop c px q tauInit fuel s) := by
  induction fuel generalizing s with
  | zero => simp [lineSearch] at hr
  | succ f ih =>
    unfold lineSearch at hr hs ⊢
    by_cases hst : stop s.tick
    · simp [hst] at hs
    · simp only [hst, Bool.false_eq_true, if_false] at hr hs ⊢
      have hi := lsPass_inv P dir pr c px q tauInit hti s h
      cases hpass : lsPass P dir pr c px q tauInit s with
      | done s' =>
        simp only []
        have hd := lsPass_done P dir pr c px q tauInit s s' hpass
        have h2 := hi.2 s' hpass
        have h1 := hi.1
        rw [hpass] at h1
        simp only [Pass.st] at h1
        exact ⟨h2.2, hd.1, hd.2.1, h1.1, fun h0 => h1.2 (by rw [h2.1]; exact h0)⟩
      | again s' =>
        have hp := lsPass_again P dir pr c px q tauInit s s' hpass
        have h1 := hi.1
        rw [hpass] at h1
        simp only [Pass.st] at h1
        simp only [hpass] at hr hs ⊢
        exact ih s' h1 (by rw [hp, hf]) hr hs

/-- The line search of an iteration, left through `break` (no stop request visible at its end, fuel
    not exhausted). -/
theorem lsOf_lsDone (P : Problem α) (dir : Direction D α) (pr : Params α) (stop : Nat → Bool)
    (s : St α D) (hf : (lsOf P dir pr stop s).fuelOut = false)
    (hs : stop (lsOf P dir pr stop s).tick = false) :
    LsDone P pr s.curr s.prox (lsOf P dir pr stop s) := by
  unfold lsOf at hf hs ⊢
  have hti : (0 : α) ≤ (directionStage dir s).2.2.2.1 := by
    rcases directionStage_tau dir s with h | h <;> rw [h]
    exact zero_le_one
  refine lineSearch_lsDone P dir pr stop _ _ _ _ hti _ _ ⟨hti, fun h0 => ?_⟩
    (lsInit_fuelOut _ _ _ _ _) hf hs
  have : (-1 : α) = 0 := h0
  exact absurd this (by norm_num)

end field
end Alpaqa.Zerofpr
