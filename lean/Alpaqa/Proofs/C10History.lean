/-
  C10 helper lemmas, part 5: invariants over whole operation histories.
  `QRInv` (sizes, ring refinement, `QR = window`) is preserved by every LimitedMemoryQR operation
  within capacity; `AAInv` (the same for the QR inside AndersonAccel, plus the alignment of the
  `G` ring with the `R` ring and the stored last residual) by every AndersonAccel operation.
-/
import Alpaqa.Proofs.C10Add
import Alpaqa.Proofs.C10Misc
import Alpaqa.Proofs.C10Remove
import Alpaqa.Proofs.C10Solve
import Alpaqa.Proofs.C10Anderson
import Alpaqa.Proofs.C10Pivot
import Alpaqa.Proofs.C10Trunc
import Alpaqa.Proofs.C10Givens
import Alpaqa.Proofs.C10Dead

namespace Alpaqa.C10
open Finset Alpaqa Alpaqa.Gen
set_option linter.unusedSectionVars false
set_option linter.unusedSimpArgs false
set_option linter.unusedVariables false

section
variable {α : Type} [Field α] [LinearOrder α] [IsStrictOrderedRing α] [RealLike α]

/-! ### windows as lists of columns (oldest first) -/

def winFn (A : List (ℕ → α)) : ℕ → ℕ → α := fun k => A.getD k (fun _ => 0)

theorem winFn_append_lt (A : List (ℕ → α)) (v : ℕ → α) {k : ℕ} (hk : k < A.length) :
    winFn (A ++ [v]) k = winFn A k := by
  unfold winFn
  simp [List.getD_eq_getElem?_getD, List.getElem?_append_left hk]

theorem winFn_append_eq (A : List (ℕ → α)) (v : ℕ → α) : winFn (A ++ [v]) A.length = v := by
  unfold winFn
  simp [List.getD_eq_getElem?_getD]

theorem winFn_tail (A : List (ℕ → α)) (k : ℕ) : winFn A.tail k = winFn A (k + 1) := by
  unfold winFn
  cases A <;> simp [List.getD_eq_getElem?_getD]

theorem winFn_map_mul (A : List (ℕ → α)) (c : α) {k : ℕ} (hk : k < A.length) (j : ℕ) :
    winFn (A.map fun col j => col j * c) k j = winFn A k j * c := by
  unfold winFn
  simp [List.getD_eq_getElem?_getD, List.getElem?_map, List.getElem?_eq_getElem hk]

theorem represents_congr (s : LMQR α) (A B : ℕ → ℕ → α)
    (h : ∀ k < s.qIdx, ∀ j < s.n, A k j = B k j) (hA : Represents s A) : Represents s B := by
  intro k hk j hj; rw [← h k hk j hj]; exact hA k hk j hj

/-! ### LimitedMemoryQR: the invariant and its preservation -/

/-- sizes, ring refinement and `Q · get_R() = A` for the window `A` (oldest column first) -/
structure QRInv (n m : ℕ) (s : LMQR α) (A : List (ℕ → α)) : Prop where
  hn : s.n = n
  hm : s.m = m
  len : s.qIdx = A.length
  ring : RingInv s
  repr : Represents s (winFn A)

theorem QRInv.new (inf : α) (n m : ℕ) (hm : 0 < m) : QRInv n m (LMQR.new inf n m) [] := by
  obtain ⟨e1, e2, e3⟩ := new_idx inf n m
  refine ⟨e2, e3, by rw [e1]; rfl, new_ring inf n m hm, ?_⟩
  intro k hk; rw [e1] at hk; omega

theorem QRInv.reset (inf : α) {n m : ℕ} {s : LMQR α} {A : List (ℕ → α)} (h : QRInv n m s A) :
    QRInv n m (s.reset inf) [] := by
  obtain ⟨e1, e2, e3, e4, e5, _⟩ := reset_idx inf s
  exact ⟨by rw [e4]; exact h.hn, by rw [e5]; exact h.hm, by rw [e1]; rfl,
    reset_ring inf s h.ring.mpos, reset_represents inf s _⟩

theorem QRInv.add (hs : SqrtLaw α) (hsn : SqrtNonneg α) (fuel : ℕ) {n m : ℕ} {s : LMQR α}
    {A : List (ℕ → α)} (h : QRInv n m s A) (hK : s.qIdx < m) (v : ℕ → α) :
    QRInv n m (s.addColumn fuel v) (A ++ [v]) := by
  obtain ⟨e1, e2, e3, e4, e5⟩ := addColumn_idx fuel s v
  have hK' : s.qIdx < s.m := by rw [h.hm]; exact hK
  refine ⟨by rw [e4]; exact h.hn, by rw [e5]; exact h.hm, by rw [e1, h.len]; simp,
    addColumn_ring fuel s h.ring hK' v, ?_⟩
  apply represents_congr _ _ _ _ (addColumn_represents hs hsn fuel s h.ring hK' v _ h.repr)
  intro k hk j _
  rw [e1] at hk
  by_cases hkK : k = s.qIdx
  · rw [if_pos hkK, hkK, h.len, winFn_append_eq]
  · rw [if_neg hkK, winFn_append_lt _ _ (by rw [← h.len]; omega)]

theorem QRInv.remove (giv : α → α → α × α × α) (hg : GivensOK giv) {n m : ℕ} {s : LMQR α}
    {A : List (ℕ → α)} (h : QRInv n m s A) (hK : 0 < s.qIdx) :
    QRInv n m (s.removeColumn giv) A.tail := by
  obtain ⟨e1, e2, e3, e4, e5⟩ := removeColumn_idx giv s h.ring hK
  refine ⟨by rw [e4]; exact h.hn, by rw [e5]; exact h.hm, by rw [e1, h.len]; simp,
    removeColumn_ring giv s h.ring hK, ?_⟩
  apply represents_congr _ _ _ _ (removeColumn_represents giv hg s h.ring hK _ h.repr)
  intro k _ j _
  rw [winFn_tail]

theorem QRInv.scale {n m : ℕ} {s : LMQR α} {A : List (ℕ → α)} (h : QRInv n m s A) (c : α) :
    QRInv n m (s.scaleR c) (A.map fun col j => col j * c) := by
  obtain ⟨e1, e2, e3, e4, e5, e6⟩ := scaleR_idx s c
  refine ⟨by rw [e4]; exact h.hn, by rw [e5]; exact h.hm, by rw [e1, h.len]; simp,
    scaleR_ring s h.ring c, ?_⟩
  apply represents_congr _ _ _ _ (scaleR_represents s h.ring c _ h.repr)
  intro k hk j _
  rw [e1, h.len] at hk
  rw [winFn_map_mul _ _ hk]

/-! ### AndersonAccel: the invariant and its preservation -/

/-- State invariant of `AndersonAccel` after `initialize`: `W` = the residual differences in the QR
    window (oldest first), `gs` = the `W.length + 1` function values that go with them (the last one
    is the newest `g`), `rl` = the last residual.  `galign`: column `slot i` of `G` holds `gs[i]`; when
    the ring is full the tail slot coincides with the head slot, which then already holds the newest
    value — hence the side condition for `i = 0`. -/
structure AAInv (n mAA : ℕ) (a : AA α) (W gs : List (ℕ → α)) (rl : ℕ → α) : Prop where
  an : a.n = n
  init : a.initialized = true
  qr : QRInv n mAA a.qr W
  glen : gs.length = W.length + 1
  galign : ∀ i ≤ W.length, (0 < i ∨ W.length < mAA) → ∀ j < n,
    a.G.get j (a.qr.slot i) = winFn gs i j
  rlast : ∀ j < n, readV a.rLast j = rl j

theorem AA.new_sizes (inf : α) (memory : ℕ) (mdf : α) (n : ℕ) :
    (AA.new inf memory mdf n).n = n ∧ (AA.new inf memory mdf n).qr.n = n ∧
    (AA.new inf memory mdf n).qr.m = Nat.min n memory := by
  simp [AA.new, aaMem, new_idx]

/-- `initialize(g₀, r₀)` on an accelerator of consistent sizes -/
theorem AAInv.initialize (inf : α) {n mAA : ℕ} (hm : 0 < mAA) (a : AA α) (han : a.n = n)
    (hqn : a.qr.n = n) (hqm : a.qr.m = mAA) (g0 r0 : ℕ → α) :
    AAInv n mAA (a.initialize inf g0 r0) [] [g0] r0 := by
  have hq : QRInv n mAA (a.qr.reset inf) [] := by
    obtain ⟨e1, e2, e3, e4, e5, _⟩ := reset_idx inf a.qr
    exact ⟨by rw [e4]; exact hqn, by rw [e5]; exact hqm, by rw [e1]; rfl,
      reset_ring inf _ (by rw [hqm]; exact hm), reset_represents inf _ _⟩
  refine ⟨han, rfl, hq, rfl, ?_, ?_⟩
  · intro i hi _ j hj
    simp only [List.length_nil, Nat.le_zero] at hi
    subst hi
    have hs : ((a.initialize inf g0 r0).qr).slot 0 = 0 := by
      simp [AA.initialize, LMQR.slot, (reset_idx inf a.qr).2.1]
    rw [hs]
    simp only [AA.initialize]
    rw [Mat.get_ofFn_lt _ (by rw [han]; exact hj) (by rw [hqm]; exact hm), if_pos rfl]
    simp [winFn]
  · intro j hj
    simp only [AA.initialize]
    exact readV_freezeV_lt _ (by rw [han]; exact hj)

theorem AAInv.reset (inf : α) {n mAA : ℕ} {a : AA α} {W gs : List (ℕ → α)} {rl : ℕ → α}
    (h : AAInv n mAA a W gs rl) :
    AAInv n mAA (a.reset inf) [] [winFn gs W.length] rl := by
  have hmpos : 0 < mAA := by rw [← h.qr.hm]; exact h.qr.ring.mpos
  refine ⟨h.an, h.init, h.qr.reset inf, rfl, ?_, h.rlast⟩
  intro i hi _ j hj
  simp only [List.length_nil, Nat.le_zero] at hi
  subst hi
  have hs : ((a.reset inf).qr).slot 0 = 0 := by
    simp [AA.reset, LMQR.slot, (reset_idx inf a.qr).2.1]
  rw [hs]
  have hnew : a.qr.rEnd = a.qr.slot W.length := by
    rw [h.qr.ring.end_eq, h.qr.len]; rfl
  have hold : a.G.get j a.qr.rEnd = winFn gs W.length j := by
    rw [hnew]
    apply h.galign W.length (le_refl _) _ j hj
    by_cases h0 : 0 < W.length
    · exact Or.inl h0
    · right; omega
  have hw : winFn [winFn gs W.length] 0 j = winFn gs W.length j := by simp [winFn]
  rw [hw]
  simp only [AA.reset, lmqrRingTail, aaResetCopies]
  by_cases hz : a.qr.rEnd = 0
  · simp only [hz, bne_self_eq_false, Bool.false_eq_true, if_false]
    rw [← hz]; exact hold
  · have : (a.qr.rEnd != 0) = true := by simpa using hz
    simp only [this, if_true]
    rw [Mat.get_ofFn_lt _ (by rw [h.an]; exact hj) (by rw [h.qr.hm]; exact hmpos), if_pos rfl]
    exact hold

theorem AAInv.scale {n mAA : ℕ} {a : AA α} {W gs : List (ℕ → α)} {rl : ℕ → α}
    (h : AAInv n mAA a W gs rl) (c : α) :
    AAInv n mAA (a.scaleR c) (W.map fun col j => col j * c) gs rl := by
  obtain ⟨e1, e2, e3, e4, e5, e6⟩ := scaleR_idx a.qr c
  refine ⟨h.an, h.init, h.qr.scale c, by rw [h.glen]; simp, ?_, h.rlast⟩
  intro i hi hside j hj
  rw [List.length_map] at hi hside
  have hs : ((a.scaleR c).qr).slot i = a.qr.slot i := by
    simp [AA.scaleR, LMQR.slot, e2, e5]
  rw [hs]
  exact h.galign i hi hside j hj

/-- the window / function values after one `compute(g, r)` -/
def aaNextW (mAA : ℕ) (W : List (ℕ → α)) (rl r : ℕ → α) : List (ℕ → α) :=
  (if W.length = mAA then W.tail else W) ++ [fun j => r j - rl j]
def aaNextG (mAA : ℕ) (W gs : List (ℕ → α)) (g : ℕ → α) : List (ℕ → α) :=
  (if W.length = mAA then gs.tail else gs) ++ [g]

theorem aaNextW_length (mAA : ℕ) (hm : 0 < mAA) (W : List (ℕ → α)) (hW : W.length ≤ mAA)
    (rl r : ℕ → α) : (aaNextW mAA W rl r).length = Nat.min (W.length + 1) mAA := by
  unfold aaNextW
  split_ifs with h
  · simp [h]; omega
  · simp; omega

/-- the QR object inside `compute` before the new column is added, and what it represents -/
theorem aa_qr1 (giv : α → α → α × α × α) (hg : GivensOK giv) {n mAA : ℕ} {a : AA α}
    {W gs : List (ℕ → α)} {rl : ℕ → α} (h : AAInv n mAA a W gs rl) :
    QRInv n mAA
      (if aaFull (lmqrNumColumns a.qr.qIdx a.qr.rStart a.qr.rEnd) a.qr.m
        then a.qr.removeColumn giv else a.qr)
      (if W.length = mAA then W.tail else W) := by
  have hmpos : 0 < mAA := by rw [← h.qr.hm]; exact h.qr.ring.mpos
  have hfull : aaFull (lmqrNumColumns a.qr.qIdx a.qr.rStart a.qr.rEnd) a.qr.m = true ↔
      W.length = mAA := by
    simp [aaFull, lmqrNumColumns, h.qr.len, h.qr.hm]
  by_cases hf : W.length = mAA
  · rw [if_pos (hfull.mpr hf), if_pos hf]
    exact h.qr.remove giv hg (by rw [h.qr.len, hf]; exact hmpos)
  · have : ¬ aaFull (lmqrNumColumns a.qr.qIdx a.qr.rStart a.qr.rEnd) a.qr.m = true := by
      rw [hfull]; exact hf
    rw [if_neg this, if_neg hf]
    exact h.qr


/-- the QR object inside `compute` after the conditional removal -/
def AA.qr1 (giv : α → α → α × α × α) (a : AA α) : LMQR α :=
  if aaFull (lmqrNumColumns a.qr.qIdx a.qr.rStart a.qr.rEnd) a.qr.m then a.qr.removeColumn giv else a.qr

theorem AA.qrNext_eq (fuel : ℕ) (giv : α → α → α × α × α) (a : AA α) (r : ℕ → α) :
    a.qrNext fuel giv r = (a.qr1 giv).addColumn fuel fun j => r j - readV a.rLast j := rfl

theorem QRInv.congr_last {n m : ℕ} {s : LMQR α} {A : List (ℕ → α)} {v v' : ℕ → α}
    (h : QRInv n m s (A ++ [v])) (hv : ∀ j < n, v j = v' j) : QRInv n m s (A ++ [v']) := by
  refine ⟨h.hn, h.hm, by rw [h.len]; simp, h.ring, ?_⟩
  apply represents_congr _ _ _ _ h.repr
  intro k hk j hj
  rw [h.len, List.length_append, List.length_singleton] at hk
  rw [h.hn] at hj
  by_cases hkA : k = A.length
  · rw [hkA, winFn_append_eq, winFn_append_eq]; exact hv j hj
  · rw [winFn_append_lt _ _ (by omega), winFn_append_lt _ _ (by omega)]

/-- `compute(g, r)` keeps the invariant: the QR window slides, the `G` ring stays aligned. -/
theorem AAInv.compute (hs : SqrtLaw α) (hsn : SqrtNonneg α) (fuel : ℕ) (giv : α → α → α × α × α)
    (hg : GivensOK giv) {n mAA : ℕ} {a : AA α}
    {W gs : List (ℕ → α)} {rl : ℕ → α} (h : AAInv n mAA a W gs rl) (g r : ℕ → α) :
    AAInv n mAA (a.computeCore fuel giv g r).1 (aaNextW mAA W rl r) (aaNextG mAA W gs g) r := by
  have hmpos : 0 < mAA := by rw [← h.qr.hm]; exact h.qr.ring.mpos
  have hcap : W.length ≤ mAA := by rw [← h.qr.len, ← h.qr.hm]; exact h.qr.ring.cap
  have h1 : QRInv n mAA (a.qr1 giv) (if W.length = mAA then W.tail else W) := aa_qr1 giv hg h
  have hK1 : (a.qr1 giv).qIdx < mAA := by
    rw [h1.len]; split_ifs with hf
    · rw [List.length_tail, hf]; omega
    · omega
  have h2 := (h1.add hs hsn fuel hK1 _).congr_last (v' := fun j => r j - rl j)
    (fun j hj => by show r j - readV a.rLast j = r j - rl j; rw [h.rlast j hj])
  have hqr : (a.computeCore fuel giv g r).1.qr = (a.qr1 giv).addColumn fuel fun j => r j - readV a.rLast j :=
    rfl
  obtain ⟨e1, e2, e3, e4, e5⟩ := addColumn_idx fuel (a.qr1 giv) fun j => r j - readV a.rLast j
  -- alignment for qr1 (no side condition any more: its window is shorter than the capacity)
  have hal1 : ∀ i ≤ (if W.length = mAA then W.tail else W).length, ∀ j < n,
      a.G.get j ((a.qr1 giv).slot i) = winFn (if W.length = mAA then gs.tail else gs) i j := by
    intro i hi j hj
    by_cases hf : W.length = mAA
    · rw [if_pos hf] at hi ⊢
      rw [winFn_tail]
      rw [List.length_tail] at hi
      have hfull : aaFull (lmqrNumColumns a.qr.qIdx a.qr.rStart a.qr.rEnd) a.qr.m = true := by
        simp [aaFull, lmqrNumColumns, h.qr.len, h.qr.hm, hf]
      have hpos : 0 < a.qr.qIdx := by rw [h.qr.len, hf]; exact hmpos
      obtain ⟨r1, r2, r3, r4, r5⟩ := removeColumn_idx giv a.qr h.qr.ring hpos
      have hslot : (a.qr1 giv).slot i = a.qr.slot (i + 1) := by
        unfold AA.qr1; rw [if_pos hfull]
        unfold LMQR.slot
        rw [r2, r5, Nat.add_mod, Nat.mod_mod, ← Nat.add_mod]
        congr 1; omega
      rw [hslot]
      exact h.galign (i + 1) (by omega) (Or.inl (by omega)) j hj
    · rw [if_neg hf] at hi ⊢
      have hnf : ¬ aaFull (lmqrNumColumns a.qr.qIdx a.qr.rStart a.qr.rEnd) a.qr.m = true := by
        simp [aaFull, lmqrNumColumns, h.qr.len, h.qr.hm, hf]
      have hslot : (a.qr1 giv).slot i = a.qr.slot i := by unfold AA.qr1; rw [if_neg hnf]
      rw [hslot]
      exact h.galign i hi (Or.inr (by omega)) j hj
  have hg1len : (if W.length = mAA then gs.tail else gs).length =
      (if W.length = mAA then W.tail else W).length + 1 := by
    split_ifs with hf
    · rw [List.length_tail, List.length_tail, h.glen]; omega
    · exact h.glen
  refine ⟨h.an, h.init, ?_, ?_, ?_, ?_⟩
  · rw [hqr]; exact h2
  · unfold aaNextW aaNextG
    simp only [List.length_append, List.length_singleton, hg1len]
  · -- alignment after storing g in the tail column
    intro i hi hside j hj
    unfold aaNextW at hi hside
    rw [List.length_append, List.length_singleton] at hi hside
    have hslot : ((a.computeCore fuel giv g r).1.qr).slot i = (a.qr1 giv).slot i := by
      rw [hqr]; unfold LMQR.slot; rw [e2, e5]
    have hring2 : RingInv ((a.qr1 giv).addColumn fuel fun j => r j - readV a.rLast j) := h2.ring
    have hend : ((a.qr1 giv).addColumn fuel fun j => r j - readV a.rLast j).rEnd =
        (a.qr1 giv).slot ((if W.length = mAA then W.tail else W).length + 1) := by
      rw [hring2.end_eq, e1, e2, e5, h1.len]; rfl
    have hGet : (a.computeCore fuel giv g r).1.G.get j ((a.qr1 giv).slot i) =
        if (a.qr1 giv).slot i = (a.qrNext fuel giv r).rEnd then g j else a.G.get j ((a.qr1 giv).slot i) :=
      computeCore_G fuel giv a g r (by rw [h.an]; exact hj)
        (by unfold LMQR.slot; rw [h.qr.hm, h1.hm]; exact Nat.mod_lt _ hmpos)
    rw [hslot, hGet, AA.qrNext_eq, hend]
    unfold aaNextG
    by_cases hiK : i = (if W.length = mAA then W.tail else W).length + 1
    · rw [hiK, if_pos rfl, ← hg1len, winFn_append_eq]
    · have hne : (a.qr1 giv).slot i ≠
          (a.qr1 giv).slot ((if W.length = mAA then W.tail else W).length + 1) := by
        unfold LMQR.slot
        apply slot_inj (by omega)
        rw [h1.hm]
        rcases hside with hpos | hlt
        · have : (if W.length = mAA then W.tail else W).length + 1 ≤ mAA := by rw [← h1.len]; omega
          omega
        · omega
      rw [if_neg hne, winFn_append_lt _ _ (by rw [hg1len]; omega)]
      exact hal1 i (by omega) j hj
  · intro j hj
    exact computeCore_rLast fuel giv a g r (by rw [h.an]; exact hj)

/-- `compute(g, r)`: the accelerated iterate is the affine combination of the last `K' + 1`
    function values (`K'` = new window length) with the telescoped coefficients of γ_LS. -/
theorem AAInv.compute_output (hs : SqrtLaw α) (hsn : SqrtNonneg α) (fuel : ℕ)
    (giv : α → α → α × α × α) (hg : GivensOK giv) {n mAA : ℕ}
    {a : AA α} {W gs : List (ℕ → α)} {rl : ℕ → α} (h : AAInv n mAA a W gs rl) (g r : ℕ → α) :
    (∑ i ∈ range ((aaNextW mAA W rl r).length + 1),
        aaCoef (readV (a.computeCore fuel giv g r).1.gamLS) (aaNextW mAA W rl r).length i = 1) ∧
    ∀ j < n, readV (a.computeCore fuel giv g r).2 j =
      ∑ i ∈ range ((aaNextW mAA W rl r).length + 1),
        aaCoef (readV (a.computeCore fuel giv g r).1.gamLS) (aaNextW mAA W rl r).length i *
          winFn (aaNextG mAA W gs g) i j := by
  have hnext := h.compute hs hsn fuel giv hg g r
  have hlen : (a.qrNext fuel giv r).qIdx = (aaNextW mAA W rl r).length := hnext.qr.len
  have hm2 : (a.qrNext fuel giv r).m = mAA := hnext.qr.hm
  have hring2 : RingInv (a.qrNext fuel giv r) := hnext.qr.ring
  have hpos : 0 < (a.qrNext fuel giv r).qIdx := by
    rw [hlen]; unfold aaNextW; rw [List.length_append]; simp
  obtain ⟨hsum, hx⟩ := computeCore_affine fuel giv a g r hnext.qr.ring hpos
  rw [hlen] at hsum hx
  refine ⟨hsum, ?_⟩
  intro j hj
  rw [hx j (by rw [h.an]; exact hj), Finset.sum_range_succ]
  -- old storage columns hold the old function values; the last term is g itself
  have hmpos : 0 < mAA := by rw [← h.qr.hm]; exact h.qr.ring.mpos
  have hcap : W.length ≤ mAA := by rw [← h.qr.len, ← h.qr.hm]; exact h.qr.ring.cap
  have hg1len : (if W.length = mAA then gs.tail else gs).length = (aaNextW mAA W rl r).length := by
    unfold aaNextW
    rw [List.length_append, List.length_singleton]
    split_ifs with hf
    · rw [List.length_tail, List.length_tail, h.glen]; omega
    · exact h.glen
  congr 1
  · apply Finset.sum_congr rfl
    intro i hi
    rw [Finset.mem_range] at hi
    congr 1
    -- G before the store, at the slot of logical column i of the new ring
    have hGnew := hnext.galign i (by omega)
    by_cases hside : 0 < i ∨ (aaNextW mAA W rl r).length < mAA
    · have e := hnext.galign i (by omega) hside j hj
      have hslotlt : (a.qrNext fuel giv r).slot i < a.qr.m := by
        unfold LMQR.slot; rw [hm2, h.qr.hm]; exact Nat.mod_lt _ hmpos
      have hG := computeCore_G fuel giv a g r (i := j) (j := (a.qrNext fuel giv r).slot i)
        (by rw [h.an]; exact hj) hslotlt
      have hne : (a.qrNext fuel giv r).slot i ≠ (a.qrNext fuel giv r).rEnd := by
        rw [hring2.end_eq, hlen]
        unfold LMQR.slot
        apply slot_inj hi
        rw [hm2]
        rcases hside with hp | hl
        · have : (aaNextW mAA W rl r).length ≤ mAA := by
            rw [← hlen, ← hm2]; exact hring2.cap
          omega
        · omega
      rw [if_neg hne] at hG
      rw [← hG]; exact e
    · -- i = 0 and the new ring is full: slot 0 is the tail slot, but G *before* the store is read
      have hi0 : i = 0 := by omega
      have hfullnew : (aaNextW mAA W rl r).length = mAA := by
        have : (aaNextW mAA W rl r).length ≤ mAA := by
          rw [← hlen, ← hm2]; exact hring2.cap
        omega
      subst hi0
      unfold aaNextG
      rw [winFn_append_lt _ _ (by rw [hg1len]; omega)]
      -- the old alignment at the corresponding old position
      have hslot0 : (a.qrNext fuel giv r).slot 0 = (a.qr1 giv).slot 0 := by
        rw [AA.qrNext_eq]
        obtain ⟨e1, e2, e3, e4, e5⟩ := addColumn_idx fuel (a.qr1 giv) fun j => r j - readV a.rLast j
        unfold LMQR.slot; rw [e2, e5]
      rw [hslot0]
      by_cases hf : W.length = mAA
      · rw [if_pos hf, winFn_tail]
        have hfull : aaFull (lmqrNumColumns a.qr.qIdx a.qr.rStart a.qr.rEnd) a.qr.m = true := by
          simp [aaFull, lmqrNumColumns, h.qr.len, h.qr.hm, hf]
        have hposK : 0 < a.qr.qIdx := by rw [h.qr.len, hf]; exact hmpos
        obtain ⟨r1, r2, r3, r4, r5⟩ := removeColumn_idx giv a.qr h.qr.ring hposK
        have hs : (a.qr1 giv).slot 0 = a.qr.slot (0 + 1) := by
          unfold AA.qr1; rw [if_pos hfull]
          unfold LMQR.slot
          rw [r2, r5, Nat.add_mod, Nat.mod_mod, ← Nat.add_mod]
        rw [hs]
        exact h.galign 1 (by omega) (Or.inl (by omega)) j hj
      · rw [if_neg hf]
        have hnf : ¬ aaFull (lmqrNumColumns a.qr.qIdx a.qr.rStart a.qr.rEnd) a.qr.m = true := by
          simp [aaFull, lmqrNumColumns, h.qr.len, h.qr.hm, hf]
        have hs : (a.qr1 giv).slot 0 = a.qr.slot 0 := by unfold AA.qr1; rw [if_neg hnf]
        rw [hs]
        exact h.galign 0 (by omega) (Or.inr (by omega)) j hj
  · unfold aaNextG
    rw [← hg1len, winFn_append_eq]


/-! ### orthonormality of the Q inside AndersonAccel, and γ_LS as a least-squares minimiser -/

theorem AAInv.compute_orth (hs : SqrtLaw α) (fuel : ℕ) (giv : α → α → α × α × α) (hg : GivensOK giv)
    {n mAA : ℕ} {a : AA α} {W gs : List (ℕ → α)} {rl : ℕ → α} (h : AAInv n mAA a W gs rl) (g r : ℕ → α)
    (hnz : 0 < (addCore fuel (a.qr1 giv) (fun j => r j - readV a.rLast j)).2.2.1) (hO : Orth a.qr) :
    Orth (a.computeCore fuel giv g r).1.qr := by
  have hmpos : 0 < mAA := by rw [← h.qr.hm]; exact h.qr.ring.mpos
  have hcap : W.length ≤ mAA := by rw [← h.qr.len, ← h.qr.hm]; exact h.qr.ring.cap
  have h1 : QRInv n mAA (a.qr1 giv) (if W.length = mAA then W.tail else W) := aa_qr1 giv hg h
  have hK1 : (a.qr1 giv).qIdx < (a.qr1 giv).m := by
    rw [h1.len, h1.hm]; split_ifs with hf
    · rw [List.length_tail, hf]; omega
    · omega
  have hO1 : Orth (a.qr1 giv) := by
    unfold AA.qr1
    split_ifs with hf
    · have hfull : W.length = mAA := by
        simpa [aaFull, lmqrNumColumns, h.qr.len, h.qr.hm] using hf
      exact removeColumn_orth giv hg a.qr h.qr.ring (by rw [h.qr.len, hfull]; exact hmpos) hO
    · exact hO
  exact addColumn_orth hs fuel (a.qr1 giv) h1.ring hK1 _ hnz hO1

/-- the coefficients γ_LS stored by `compute` minimise `‖ΔR γ − rₖ‖²` over the new window, when no
    pivot is below the threshold `max_eig · min_div_fac` -/
theorem AAInv.compute_ls (hs : SqrtLaw α) (hsn : SqrtNonneg α) (fuel : ℕ) (giv : α → α → α × α × α) (hg : GivensOK giv)
    {n mAA : ℕ} {a : AA α} {W gs : List (ℕ → α)} {rl : ℕ → α} (h : AAInv n mAA a W gs rl) (g r : ℕ → α)
    (hnz : 0 < (addCore fuel (a.qr1 giv) (fun j => r j - readV a.rLast j)).2.2.1) (hO : Orth a.qr)
    (hp : ∀ k < (aaNextW mAA W rl r).length,
      ¬ |(a.qrNext fuel giv r).getR k k| ≤ aaTol (a.qrNext fuel giv r).maxEig a.minDivFac ∧
        (a.qrNext fuel giv r).getR k k ≠ 0) :
    ∀ z : ℕ → α,
      ∑ j ∈ range n, (∑ k ∈ range (aaNextW mAA W rl r).length,
          winFn (aaNextW mAA W rl r) k j * readV (a.computeCore fuel giv g r).1.gamLS k - r j) ^ 2 ≤
      ∑ j ∈ range n, (∑ k ∈ range (aaNextW mAA W rl r).length,
          winFn (aaNextW mAA W rl r) k j * z k - r j) ^ 2 := by
  have hnext := h.compute hs hsn fuel giv hg g r
  have hO2 : Orth (a.qrNext fuel giv r) := h.compute_orth hs fuel giv hg g r hnz hO
  have hlen : (a.qrNext fuel giv r).qIdx = (aaNextW mAA W rl r).length := hnext.qr.len
  have hn2 : (a.qrNext fuel giv r).n = n := hnext.qr.hn
  have hring2 : RingInv (a.qrNext fuel giv r) := hnext.qr.ring
  have hrepr : Represents (a.qrNext fuel giv r) (winFn (aaNextW mAA W rl r)) := hnext.qr.repr
  intro z
  have key := solveCol_ls (a.qrNext fuel giv r) hring2 _ hrepr hO2 r (readV a.gamLS)
    (aaTol (a.qrNext fuel giv r).maxEig a.minDivFac) (by rw [hlen]; exact hp) z
  rw [hn2, hlen] at key
  have e : ∀ j ∈ range n, (∑ k ∈ range (aaNextW mAA W rl r).length,
        winFn (aaNextW mAA W rl r) k j * readV (a.computeCore fuel giv g r).1.gamLS k - r j) ^ 2 =
      (∑ k ∈ range (aaNextW mAA W rl r).length, winFn (aaNextW mAA W rl r) k j *
        (a.qrNext fuel giv r).solveCol r (readV a.gamLS)
          (aaTol (a.qrNext fuel giv r).maxEig a.minDivFac) k - r j) ^ 2 := by
    intro j _
    congr 2
    apply Finset.sum_congr rfl
    intro k hk
    rw [Finset.mem_range] at hk
    rw [computeCore_gam fuel giv a g r (by have := hring2.cap; omega)]
  rw [Finset.sum_congr rfl e]
  exact key

/-! ### pivots, independence and truncated solves inside AndersonAccel -/

theorem aa_qr1_orth (giv : α → α → α × α × α) (hg : GivensOK giv) {n mAA : ℕ} {a : AA α}
    {W gs : List (ℕ → α)} {rl : ℕ → α} (h : AAInv n mAA a W gs rl) (hO : Orth a.qr) :
    Orth (a.qr1 giv) := by
  have hmpos : 0 < mAA := by rw [← h.qr.hm]; exact h.qr.ring.mpos
  unfold AA.qr1
  split_ifs with hf
  · have hfull : W.length = mAA := by
      simpa [aaFull, lmqrNumColumns, h.qr.len, h.qr.hm] using hf
    exact removeColumn_orth giv hg a.qr h.qr.ring (by rw [h.qr.len, hfull]; exact hmpos) hO
  · exact hO

theorem aa_qr1_pivnz (giv : α → α → α × α × α) (hg : GivensOK giv) {n mAA : ℕ} {a : AA α}
    {W gs : List (ℕ → α)} {rl : ℕ → α} (h : AAInv n mAA a W gs rl) (hP : PivNZ a.qr) :
    PivNZ (a.qr1 giv) := by
  have hmpos : 0 < mAA := by rw [← h.qr.hm]; exact h.qr.ring.mpos
  unfold AA.qr1
  split_ifs with hf
  · have hfull : W.length = mAA := by
      simpa [aaFull, lmqrNumColumns, h.qr.len, h.qr.hm] using hf
    exact removeColumn_pivnz giv hg a.qr h.qr.ring (by rw [h.qr.len, hfull]; exact hmpos) hP
  · exact hP

theorem aa_qr1_lt (giv : α → α → α × α × α) (hg : GivensOK giv) {n mAA : ℕ} {a : AA α}
    {W gs : List (ℕ → α)} {rl : ℕ → α} (h : AAInv n mAA a W gs rl) :
    (a.qr1 giv).qIdx < (a.qr1 giv).m := by
  have hmpos : 0 < mAA := by rw [← h.qr.hm]; exact h.qr.ring.mpos
  have hcap : W.length ≤ mAA := by rw [← h.qr.len, ← h.qr.hm]; exact h.qr.ring.cap
  have h1 : QRInv n mAA (a.qr1 giv) (if W.length = mAA then W.tail else W) := aa_qr1 giv hg h
  rw [h1.len, h1.hm]; split_ifs with hf
  · rw [List.length_tail, hf]; omega
  · omega

/-- `compute` keeps the pivots nonzero -/
theorem AAInv.compute_pivnz (fuel : ℕ) (giv : α → α → α × α × α) (hg : GivensOK giv) {n mAA : ℕ}
    {a : AA α} {W gs : List (ℕ → α)} {rl : ℕ → α} (h : AAInv n mAA a W gs rl) (g r : ℕ → α)
    (hnz : (addCore fuel (a.qr1 giv) (fun j => r j - readV a.rLast j)).2.2.1 ≠ 0) (hP : PivNZ a.qr) :
    PivNZ (a.computeCore fuel giv g r).1.qr :=
  addColumn_pivnz fuel (a.qr1 giv) (aa_qr1 giv hg h).ring (aa_qr1_lt giv hg h) _ hnz
    (aa_qr1_pivnz giv hg h hP)

/-- the `norm_q` of `compute`'s `add_column` is nonzero when the new residual difference is not in the
    span of the residual differences that stay in the window -/
theorem AAInv.compute_hnz (hs : SqrtLaw α) (fuel : ℕ) (giv : α → α → α × α × α) (hg : GivensOK giv)
    {n mAA : ℕ} {a : AA α} {W gs : List (ℕ → α)} {rl : ℕ → α} (h : AAInv n mAA a W gs rl) (r : ℕ → α)
    (hO : Orth a.qr) (hP : PivNZ a.qr)
    (hind : ¬ ∃ z : ℕ → α, ∀ j < n, r j - rl j =
      ∑ k ∈ range (if W.length = mAA then W.tail else W).length,
        winFn (if W.length = mAA then W.tail else W) k j * z k) :
    (addCore fuel (a.qr1 giv) (fun j => r j - readV a.rLast j)).2.2.1 ≠ 0 := by
  have h1 : QRInv n mAA (a.qr1 giv) (if W.length = mAA then W.tail else W) := aa_qr1 giv hg h
  apply addCore_norm_ne_zero hs fuel (a.qr1 giv) h1.ring _ h1.repr (aa_qr1_orth giv hg h hO)
    (aa_qr1_pivnz giv hg h hP)
  rintro ⟨z, hz⟩
  apply hind
  refine ⟨z, fun j hj => ?_⟩
  have := hz j (by rw [h1.hn]; exact hj)
  rw [h1.len] at this
  rw [← this, h.rlast j hj]

/-- **γ_LS for any pivots**: the components of pivots below `max_eig · min_div_fac` are 0, the residual
    `ΔR γ − rₖ` is orthogonal to `q_k` for every other pivot, and γ_LS is a least-squares minimiser for the
    deflated window (see `solveCol_truncated`). -/
theorem AAInv.compute_trunc (hs : SqrtLaw α) (hsn : SqrtNonneg α) (fuel : ℕ) (giv : α → α → α × α × α) (hg : GivensOK giv)
    {n mAA : ℕ} {a : AA α} {W gs : List (ℕ → α)} {rl : ℕ → α} (h : AAInv n mAA a W gs rl) (g r : ℕ → α)
    (hnz : 0 < (addCore fuel (a.qr1 giv) (fun j => r j - readV a.rLast j)).2.2.1) (hO : Orth a.qr)
    (hpz : ∀ k < (aaNextW mAA W rl r).length,
      ¬ |(a.qrNext fuel giv r).getR k k| ≤ aaTol (a.qrNext fuel giv r).maxEig a.minDivFac →
        (a.qrNext fuel giv r).getR k k ≠ 0) :
    (∀ k < (aaNextW mAA W rl r).length,
      |(a.qrNext fuel giv r).getR k k| ≤ aaTol (a.qrNext fuel giv r).maxEig a.minDivFac →
        readV (a.computeCore fuel giv g r).1.gamLS k = 0) ∧
    (∀ k < (aaNextW mAA W rl r).length,
      ¬ |(a.qrNext fuel giv r).getR k k| ≤ aaTol (a.qrNext fuel giv r).maxEig a.minDivFac →
        ∑ j ∈ range n, (a.qrNext fuel giv r).Q.get j k *
          (∑ i ∈ range (aaNextW mAA W rl r).length,
            winFn (aaNextW mAA W rl r) i j * readV (a.computeCore fuel giv g r).1.gamLS i - r j) = 0) ∧
    ∀ z : ℕ → α,
      ∑ j ∈ range n, (∑ k ∈ range (aaNextW mAA W rl r).length,
          deflated (a.qrNext fuel giv r) (aaTol (a.qrNext fuel giv r).maxEig a.minDivFac) k j *
            readV (a.computeCore fuel giv g r).1.gamLS k - r j) ^ 2 ≤
      ∑ j ∈ range n, (∑ k ∈ range (aaNextW mAA W rl r).length,
          deflated (a.qrNext fuel giv r) (aaTol (a.qrNext fuel giv r).maxEig a.minDivFac) k j * z k
            - r j) ^ 2 := by
  have hnext := h.compute hs hsn fuel giv hg g r
  have hO2 : Orth (a.qrNext fuel giv r) := h.compute_orth hs fuel giv hg g r hnz hO
  have hlen : (a.qrNext fuel giv r).qIdx = (aaNextW mAA W rl r).length := hnext.qr.len
  have hn2 : (a.qrNext fuel giv r).n = n := hnext.qr.hn
  have hring2 : RingInv (a.qrNext fuel giv r) := hnext.qr.ring
  have hrepr : Represents (a.qrNext fuel giv r) (winFn (aaNextW mAA W rl r)) := hnext.qr.repr
  obtain ⟨t1, t2, t3⟩ := solveCol_truncated (a.qrNext fuel giv r) hring2 _ hrepr hO2 r (readV a.gamLS)
    (aaTol (a.qrNext fuel giv r).maxEig a.minDivFac) (by rw [hlen]; exact hpz)
  rw [hn2, hlen] at t2 t3
  rw [hlen] at t1
  have hgam : ∀ k < (aaNextW mAA W rl r).length, readV (a.computeCore fuel giv g r).1.gamLS k =
      (a.qrNext fuel giv r).solveCol r (readV a.gamLS)
        (aaTol (a.qrNext fuel giv r).maxEig a.minDivFac) k := by
    intro k hk
    exact computeCore_gam fuel giv a g r (by have := hring2.cap; omega)
  refine ⟨fun k hk ht => by rw [hgam k hk]; exact t1 k hk ht, fun k hk ht => ?_, fun z => ?_⟩
  · rw [← t2 k hk ht]
    apply Finset.sum_congr rfl; intro j _
    congr 2
    apply Finset.sum_congr rfl; intro i hi
    rw [Finset.mem_range] at hi
    rw [hgam i hi]
  · have e : ∀ j ∈ range n, (∑ k ∈ range (aaNextW mAA W rl r).length,
          deflated (a.qrNext fuel giv r) (aaTol (a.qrNext fuel giv r).maxEig a.minDivFac) k j *
            readV (a.computeCore fuel giv g r).1.gamLS k - r j) ^ 2 =
        (∑ k ∈ range (aaNextW mAA W rl r).length,
          deflated (a.qrNext fuel giv r) (aaTol (a.qrNext fuel giv r).maxEig a.minDivFac) k j *
            (a.qrNext fuel giv r).solveCol r (readV a.gamLS)
              (aaTol (a.qrNext fuel giv r).maxEig a.minDivFac) k - r j) ^ 2 := by
      intro j _
      congr 2
      apply Finset.sum_congr rfl; intro k hk
      rw [Finset.mem_range] at hk
      rw [hgam k hk]
    rw [Finset.sum_congr rfl e]
    exact t3 z

/-! ### dependent residual differences: `POrth` inside AndersonAccel -/

theorem aa_qr1_porth (giv : α → α → α × α × α) (hg : GivensOK0 giv) {n mAA : ℕ} {a : AA α}
    {W gs : List (ℕ → α)} {rl : ℕ → α} (h : AAInv n mAA a W gs rl) (hO : POrth a.qr) :
    POrth (a.qr1 giv) := by
  have hmpos : 0 < mAA := by rw [← h.qr.hm]; exact h.qr.ring.mpos
  unfold AA.qr1
  split_ifs with hf
  · have hfull : W.length = mAA := by
      simpa [aaFull, lmqrNumColumns, h.qr.len, h.qr.hm] using hf
    exact removeColumn_porth giv hg a.qr h.qr.ring (by rw [h.qr.len, hfull]; exact hmpos) hO
  · exact hO

/-- `compute` keeps `POrth`, for any data -/
theorem AAInv.compute_porth (hs : SqrtLaw α) (hsn : SqrtNonneg α) (fuel : ℕ) (giv : α → α → α × α × α)
    (hg : GivensOK0 giv) {n mAA : ℕ} {a : AA α} {W gs : List (ℕ → α)} {rl : ℕ → α}
    (h : AAInv n mAA a W gs rl) (g r : ℕ → α) (hO : POrth a.qr) :
    POrth (a.computeCore fuel giv g r).1.qr :=
  addColumn_porth hs hsn fuel (a.qr1 giv) (aa_qr1 giv hg.1 h).ring (aa_qr1_lt giv hg.1 h) _
    (aa_qr1_porth giv hg h hO)

/-- γ_LS for any data (dependent residual differences included): the statements of `compute_trunc` -/
theorem AAInv.compute_trunc_p (hs : SqrtLaw α) (hsn : SqrtNonneg α) (fuel : ℕ) (giv : α → α → α × α × α)
    (hg : GivensOK0 giv) {n mAA : ℕ} {a : AA α} {W gs : List (ℕ → α)} {rl : ℕ → α}
    (h : AAInv n mAA a W gs rl) (g r : ℕ → α) (hO : POrth a.qr)
    (hpz : ∀ k < (aaNextW mAA W rl r).length,
      ¬ |(a.qrNext fuel giv r).getR k k| ≤ aaTol (a.qrNext fuel giv r).maxEig a.minDivFac →
        (a.qrNext fuel giv r).getR k k ≠ 0) :
    (∀ k < (aaNextW mAA W rl r).length,
      |(a.qrNext fuel giv r).getR k k| ≤ aaTol (a.qrNext fuel giv r).maxEig a.minDivFac →
        readV (a.computeCore fuel giv g r).1.gamLS k = 0) ∧
    (∀ k < (aaNextW mAA W rl r).length,
      ¬ |(a.qrNext fuel giv r).getR k k| ≤ aaTol (a.qrNext fuel giv r).maxEig a.minDivFac →
        ∑ j ∈ range n, (a.qrNext fuel giv r).Q.get j k *
          (∑ i ∈ range (aaNextW mAA W rl r).length,
            winFn (aaNextW mAA W rl r) i j * readV (a.computeCore fuel giv g r).1.gamLS i - r j) = 0) ∧
    ∀ z : ℕ → α,
      ∑ j ∈ range n, (∑ k ∈ range (aaNextW mAA W rl r).length,
          deflated (a.qrNext fuel giv r) (aaTol (a.qrNext fuel giv r).maxEig a.minDivFac) k j *
            readV (a.computeCore fuel giv g r).1.gamLS k - r j) ^ 2 ≤
      ∑ j ∈ range n, (∑ k ∈ range (aaNextW mAA W rl r).length,
          deflated (a.qrNext fuel giv r) (aaTol (a.qrNext fuel giv r).maxEig a.minDivFac) k j * z k
            - r j) ^ 2 := by
  have hnext := h.compute hs hsn fuel giv hg.1 g r
  have hO2 : POrth (a.qrNext fuel giv r) := h.compute_porth hs hsn fuel giv hg g r hO
  have hlen : (a.qrNext fuel giv r).qIdx = (aaNextW mAA W rl r).length := hnext.qr.len
  have hn2 : (a.qrNext fuel giv r).n = n := hnext.qr.hn
  have hring2 : RingInv (a.qrNext fuel giv r) := hnext.qr.ring
  have hrepr : Represents (a.qrNext fuel giv r) (winFn (aaNextW mAA W rl r)) := hnext.qr.repr
  obtain ⟨t1, t2, t3⟩ := solveCol_truncated_p (a.qrNext fuel giv r) hring2 _ hrepr hO2 r (readV a.gamLS)
    (aaTol (a.qrNext fuel giv r).maxEig a.minDivFac) (by rw [hlen]; exact hpz)
  rw [hn2, hlen] at t2 t3
  rw [hlen] at t1
  have hgam : ∀ k < (aaNextW mAA W rl r).length, readV (a.computeCore fuel giv g r).1.gamLS k =
      (a.qrNext fuel giv r).solveCol r (readV a.gamLS)
        (aaTol (a.qrNext fuel giv r).maxEig a.minDivFac) k := by
    intro k hk
    exact computeCore_gam fuel giv a g r (by have := hring2.cap; omega)
  refine ⟨fun k hk ht => by rw [hgam k hk]; exact t1 k hk ht, fun k hk ht => ?_, fun z => ?_⟩
  · rw [← t2 k hk ht]
    apply Finset.sum_congr rfl; intro j _
    congr 2
    apply Finset.sum_congr rfl; intro i hi
    rw [Finset.mem_range] at hi
    rw [hgam i hi]
  · have e : ∀ j ∈ range n, (∑ k ∈ range (aaNextW mAA W rl r).length,
          deflated (a.qrNext fuel giv r) (aaTol (a.qrNext fuel giv r).maxEig a.minDivFac) k j *
            readV (a.computeCore fuel giv g r).1.gamLS k - r j) ^ 2 =
        (∑ k ∈ range (aaNextW mAA W rl r).length,
          deflated (a.qrNext fuel giv r) (aaTol (a.qrNext fuel giv r).maxEig a.minDivFac) k j *
            (a.qrNext fuel giv r).solveCol r (readV a.gamLS)
              (aaTol (a.qrNext fuel giv r).maxEig a.minDivFac) k - r j) ^ 2 := by
      intro j _
      congr 2
      apply Finset.sum_congr rfl; intro k hk
      rw [Finset.mem_range] at hk
      rw [hgam k hk]
    rw [Finset.sum_congr rfl e]
    exact t3 z

end
end Alpaqa.C10
