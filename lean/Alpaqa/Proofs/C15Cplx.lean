/-
  C15, complex ℓ1 norm: the generated `soft_thres` lambdas of `L1NormComplex::prox`
  (`Gen.cplxSoftScalarW` / `Gen.cplxSoftVectorW`, regenerated from l1-norm.hpp on every run) return
  the minimiser of `λ‖u‖ + ‖u − v‖²/(2γ)` over `u ∈ ℝ²`.  Carrier: a linearly ordered field whose
  `sqrt` is lawful on non-negative arguments (`LawfulSqrt`; `ℝ` with `Real.sqrt` is an instance,
  constructed in `Props/C15.lean`).  The proof is the Cauchy–Schwarz reduction to one dimension.
-/
import Alpaqa.Proofs.Basic
import Mathlib.Tactic.LinearCombination
import Alpaqa.Gen.C15
import Alpaqa.Model.C15

namespace Alpaqa.C15
open Alpaqa Alpaqa.Gen
set_option linter.unusedSectionVars false

variable {α : Type} [Field α] [LinearOrder α] [IsStrictOrderedRing α] [RealLike α]

structure LawfulSqrt (α : Type) [Field α] [LinearOrder α] [RealLike α] : Prop where
  sqrt_nonneg : ∀ a : α, 0 ≤ a → 0 ≤ RealLike.sqrt a
  sqrt_mul_self : ∀ a : α, 0 ≤ a → RealLike.sqrt a * RealLike.sqrt a = a

theorem mag2_nonneg (a b : α) : 0 ≤ a * a + b * b := by nlinarith [mul_self_nonneg a, mul_self_nonneg b]

theorem cauchy2 (u1 u2 a b n r : α) (hn : 0 ≤ n) (hr : 0 ≤ r)
    (hn2 : n * n = u1 * u1 + u2 * u2) (hr2 : r * r = a * a + b * b) :
    u1 * a + u2 * b ≤ n * r := by
  have h1 : (u1 * a + u2 * b) ^ 2 ≤ (n * r) ^ 2 := by
    have : (n * r) ^ 2 = (u1 * u1 + u2 * u2) * (a * a + b * b) := by rw [← hn2, ← hr2]; ring
    rw [this]; nlinarith [sq_nonneg (u1 * b - u2 * a)]
  exact le_trans (le_abs_self _) (abs_le_of_sq_le_sq h1 (mul_nonneg hn hr))

/-- `sqrt` is determined by its two laws. -/
theorem sqrt_eq_of_mul_self (hs : LawfulSqrt α) (x y : α) (hx : 0 ≤ x) (h : x * x = y) :
    RealLike.sqrt y = x := by
  have hy : 0 ≤ y := h ▸ mul_self_nonneg x
  have h1 := hs.sqrt_nonneg y hy
  have h2 := hs.sqrt_mul_self y hy
  exact (mul_self_inj_of_nonneg h1 hx).mp (h2.trans h.symm)

/-- dead-zone case, norms as atoms (inequality multiplied by `2γ`). -/
theorem cplx_core_zero (γ lam a b u1 u2 n r : α) (hγ : 0 < γ) (hl : 0 ≤ lam)
    (hn : 0 ≤ n) (hr : 0 ≤ r) (hn2 : n * n = u1 * u1 + u2 * u2) (hr2 : r * r = a * a + b * b)
    (hle : r * r ≤ (γ * lam) * (γ * lam)) :
    ((0 - a) ^ 2 + (0 - b) ^ 2) + ((u1 - 0) ^ 2 + (u2 - 0) ^ 2)
      ≤ 2 * γ * (lam * n) + ((u1 - a) ^ 2 + (u2 - b) ^ 2) := by
  have ht : 0 ≤ γ * lam := mul_nonneg hγ.le hl
  have hrt : r ≤ γ * lam := by
    by_contra hc; rw [not_le] at hc
    nlinarith [mul_self_lt_mul_self ht hc]
  have hcs := cauchy2 u1 u2 a b n r hn hr hn2 hr2
  nlinarith [mul_le_mul_of_nonneg_left hrt hn]

/-- shrink case, norms as atoms: `c·r = r − t`, output `(a c, b c)` of norm `r − t`. -/
theorem cplx_core_shrink (t a b u1 u2 n r c : α) (ht : 0 ≤ t)
    (hn : 0 ≤ n) (hr : 0 < r) (hn2 : n * n = u1 * u1 + u2 * u2) (hr2 : r * r = a * a + b * b)
    (hc : c * r = r - t) :
    2 * t * (r - t) + ((a * c - a) ^ 2 + (b * c - b) ^ 2) + ((u1 - a * c) ^ 2 + (u2 - b * c) ^ 2)
      ≤ 2 * t * n + ((u1 - a) ^ 2 + (u2 - b) ^ 2) := by
  have hcs := cauchy2 u1 u2 a b n r hn hr.le hn2 hr2
  have key : r * (2 * t * n + ((u1 - a) ^ 2 + (u2 - b) ^ 2)
      - (2 * t * (r - t) + ((a * c - a) ^ 2 + (b * c - b) ^ 2) + ((u1 - a * c) ^ 2 + (u2 - b * c) ^ 2)))
      = 2 * t * (n * r - (u1 * a + u2 * b)) := by
    linear_combination (2 * (u1 * a + u2 * b - c * (a * a + b * b)) + 2 * t * r) * hc - 2 * t * c * hr2
  have hnn : 0 ≤ r * (2 * t * n + ((u1 - a) ^ 2 + (u2 - b) ^ 2)
      - (2 * t * (r - t) + ((a * c - a) ^ 2 + (b * c - b) ^ 2) + ((u1 - a * c) ^ 2 + (u2 - b * c) ^ 2))) := by
    rw [key]; exact mul_nonneg (mul_nonneg (by norm_num) ht) (sub_nonneg.mpr hcs)
  have := (mul_nonneg_iff_of_pos_left hr).mp hnn
  linarith


theorem cplxSoft_closed (γ lam a b : α) :
    cplxSoftScalarW γ lam a b =
      if a * a + b * b ≤ (γ * lam) * (γ * lam) then (0, 0)
      else (a * (1 - (γ * lam) / RealLike.sqrt (a * a + b * b)),
            b * (1 - (γ * lam) / RealLike.sqrt (a * a + b * b))) := by
  simp only [cplxSoftScalarW, cplxSoftScalarW_re, cplxSoftScalarW_im, decide_eq_true_eq]
  split_ifs <;> rfl

/-- from the `2γ`-multiplied form to the divided form. -/
theorem div_form (γ L X Y R Z : α) (hγ : 0 < γ) (h : 2 * γ * L + X + Y ≤ 2 * γ * R + Z) :
    L + X / (2 * γ) + Y / (2 * γ) ≤ R + Z / (2 * γ) := by
  have h2γ : (0:α) < 2 * γ := by linarith
  have e1 : L + X / (2 * γ) + Y / (2 * γ) = (2 * γ * L + X + Y) / (2 * γ) := by field_simp
  have e2 : R + Z / (2 * γ) = (2 * γ * R + Z) / (2 * γ) := by field_simp
  rw [e1, e2]; exact (div_le_div_iff_of_pos_right h2γ).mpr h

/-- **Strong optimality** of the generated complex soft-threshold: with `s = soft_thres(v)`,
    `φ(s) + ‖u − s‖²/(2γ) ≤ φ(u)` for every `u ∈ ℝ²`, `φ(u) = λ‖u‖ + ‖u − v‖²/(2γ)`. -/
theorem cplxSoft_strong (hs : LawfulSqrt α) (γ lam a b u1 u2 : α) (hγ : 0 < γ) (hl : 0 ≤ lam) :
    lam * RealLike.sqrt ((cplxSoftScalarW γ lam a b).1 * (cplxSoftScalarW γ lam a b).1
          + (cplxSoftScalarW γ lam a b).2 * (cplxSoftScalarW γ lam a b).2)
        + (((cplxSoftScalarW γ lam a b).1 - a) ^ 2 + ((cplxSoftScalarW γ lam a b).2 - b) ^ 2) / (2 * γ)
        + ((u1 - (cplxSoftScalarW γ lam a b).1) ^ 2 + (u2 - (cplxSoftScalarW γ lam a b).2) ^ 2) / (2 * γ)
      ≤ lam * RealLike.sqrt (u1 * u1 + u2 * u2) + ((u1 - a) ^ 2 + (u2 - b) ^ 2) / (2 * γ) := by
  have hn := hs.sqrt_nonneg _ (mag2_nonneg u1 u2)
  have hn2 := hs.sqrt_mul_self _ (mag2_nonneg u1 u2)
  have hr := hs.sqrt_nonneg _ (mag2_nonneg a b)
  have hr2 := hs.sqrt_mul_self _ (mag2_nonneg a b)
  have ht : 0 ≤ γ * lam := mul_nonneg hγ.le hl
  rw [cplxSoft_closed]
  generalize RealLike.sqrt (u1 * u1 + u2 * u2) = n at hn hn2
  split_ifs with h
  · have h0 : RealLike.sqrt ((0:α) * 0 + 0 * 0) = 0 := sqrt_eq_of_mul_self hs 0 _ le_rfl (by ring)
    simp only [h0]
    apply div_form _ _ _ _ _ _ hγ
    have := cplx_core_zero γ lam a b u1 u2 n _ hγ hl hn hr hn2 hr2 (by rw [hr2]; exact h)
    linarith
  · rw [not_le] at h
    generalize RealLike.sqrt (a * a + b * b) = r at hr hr2
    have hrt : γ * lam < r := by
      by_contra hc; rw [not_lt] at hc
      have := mul_self_le_mul_self hr hc
      rw [hr2] at this; exact absurd h (not_lt.mpr this)
    have hrpos : 0 < r := lt_of_le_of_lt ht hrt
    have hc : (1 - γ * lam / r) * r = r - γ * lam := by field_simp
    generalize (1 - γ * lam / r) = c at hc
    have hm : RealLike.sqrt (a * c * (a * c) + b * c * (b * c)) = r - γ * lam := by
      apply sqrt_eq_of_mul_self hs _ _ (by linarith)
      rw [← hc]; linear_combination c * c * hr2
    simp only [hm]
    apply div_form _ _ _ _ _ _ hγ
    have := cplx_core_shrink (γ * lam) a b u1 u2 n r c ht hn hrpos hn2 hr2 hc
    linarith

end Alpaqa.C15
