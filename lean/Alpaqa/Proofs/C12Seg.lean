import Alpaqa.Model.C12
import Alpaqa.Proofs.C12Layout

namespace Alpaqa.C12
variable {β : Type}

theorem getElem?_getSeg (st : List β) (s len i : Nat) :
    (getSeg st s len)[i]? = if i < len then st[s + i]? else none := by
  unfold getSeg
  rw [List.getElem?_take]
  split_ifs <;> simp [List.getElem?_drop]

theorem length_getSeg (st : List β) (s len : Nat) (h : s + len ≤ st.length) :
    (getSeg st s len).length = len := by
  unfold getSeg; simp; omega

theorem length_setSeg (st : List β) (s : Nat) (vals : List β) (h : s + vals.length ≤ st.length) :
    (setSeg st s vals).length = st.length := by
  unfold setSeg; simp; omega

theorem getElem?_setSeg (st : List β) (s : Nat) (vals : List β) (h : s + vals.length ≤ st.length)
    (i : Nat) :
    (setSeg st s vals)[i]? = if s ≤ i ∧ i < s + vals.length then vals[i - s]? else st[i]? := by
  unfold setSeg
  have hs : s ≤ st.length := by omega
  rw [List.append_assoc, List.getElem?_append]
  simp only [List.length_take, Nat.min_eq_left hs]
  by_cases h1 : i < s
  · simp [h1]
  · simp only [h1, if_false]
    rw [List.getElem?_append]
    by_cases h2 : i - s < vals.length
    · have : s ≤ i ∧ i < s + vals.length := by omega
      simp [h2, this]
    · have : ¬ (s ≤ i ∧ i < s + vals.length) := by omega
      simp only [h2, this, if_false, List.getElem?_drop]
      congr 1; omega

theorem getSeg_setSeg_same (st : List β) (s : Nat) (vals : List β)
    (h : s + vals.length ≤ st.length) : getSeg (setSeg st s vals) s vals.length = vals := by
  apply List.ext_getElem?
  intro i
  rw [getElem?_getSeg, getElem?_setSeg _ _ _ h]
  by_cases hi : i < vals.length
  · have : s ≤ s + i ∧ s + i < s + vals.length := by omega
    simp [hi, this]
  · simp [hi]

theorem getSeg_setSeg_disj (st : List β) (s : Nat) (vals : List β) (s' len' : Nat)
    (h : s + vals.length ≤ st.length) (hd : segDisj s vals.length s' len') :
    getSeg (setSeg st s vals) s' len' = getSeg st s' len' := by
  apply List.ext_getElem?
  intro i
  rw [getElem?_getSeg, getElem?_getSeg, getElem?_setSeg _ _ _ h]
  by_cases hi : i < len'
  · have : ¬ (s ≤ s' + i ∧ s' + i < s + vals.length) := by unfold segDisj at hd; omega
    simp [hi, this]
  · simp [hi]

theorem getSeg_add (st : List β) (s a b : Nat) :
    getSeg st s (a + b) = getSeg st s a ++ getSeg st (s + a) b := by
  unfold getSeg
  rw [List.take_add, List.drop_drop]

theorem getSeg_zero_len (st : List β) (s : Nat) : getSeg st s 0 = [] := by simp [getSeg]

end Alpaqa.C12
