/-
  Fuel sufficiency for the PANTR loop model (`Model/Pantr.lean`): under explicit, checkable
  hypotheses on the parameters (`FuelOK pr N`) no loop of the model ever runs out of its fuel, for
  EVERY stop schedule — so `fuelOut = false` need not be assumed by the property theorems over an
  ordered field.

  pantr.tpp has exactly one inner loop, `backtrack_qub`
      `while (!stop_requested() && i.L < L_max && qub_violated(i)) { i.γ /= 2; i.L *= 2; … }`
  (called once in the initialisation and up to twice per iteration); there is NO retry loop inside an
  iteration (one trust-region attempt; a rejected candidate falls back to the forward-backward step
  and `k` advances) and the main loop never `continue`s.  Hence
  * the main-loop fuel `max_iter + 1` of `run` suffices unconditionally (`mainLoop_exit_at_head` in
    `Proofs/PantrInv.lean`: every return is a head exit; any carrier, any stop schedule);
  * a `backtrack_qub` entered with `L_max ≤ L·2ᴺ` makes at most `N` passes (every pass needs
    `L < L_max` and doubles `L`): `backtrackQub_fuel`.  No positivity is needed for that;
  * the `L` of every iterate that is handed to `backtrack_qub` is the initial `L` (the user's `L_0 > 0`,
    or the finite-difference estimate clamped to `[L_min, L_max]`) times a power of two `≥ 1`
    (`GL` in `Proofs/PantrOrd.lean`), so `L_max ≤ L·2ᴺ` stays true once it holds (`LOK`, needs `L > 0`).

  None of the hypotheses of `FuelOK` can be dropped in the model *or in the C++* (no parameter is
  validated there): with `L_min = 0` and a zero finite-difference estimate (`L = 0`) doubling never
  reaches `L_max`; the loop still polls the stop flag.  The field need not be Archimedean: `N` is
  explicit.
-/
import Mathlib.Algebra.Order.Field.Basic
import Mathlib.Tactic.Ring
import Mathlib.Tactic.Linarith
import Mathlib.Tactic.Positivity
import Alpaqa.Proofs.PantrOrd

namespace Alpaqa.Pantr
open Alpaqa Alpaqa.Gen
set_option linter.unusedSectionVars false
set_option linter.unusedVariables false

variable {α D : Type} [Field α] [LinearOrder α] [IsStrictOrderedRing α] [RealLike α]

/-! ### `backtrack_qub` -/

/-- **`backtrack_qub` terminates**: entered with `L_max ≤ L·2ᴺ`, `N + 1` units of fuel suffice (at most
    `N` passes: a pass needs `L < L_max` and doubles `L`).  Every stop schedule, every problem. -/
theorem backtrackQub_fuel (P : Problem α) (pr : Params α) (stop : Nat → Bool) (N : Nat) :
    ∀ (f : Nat) (c : Iterate α) (t b : Nat), pr.Lmax ≤ c.L * 2 ^ N → N < f →
      (backtrackQub P pr stop f c t b).2.2.2 = false := by
  induction N with
  | zero =>
    intro f c t b hN hf
    cases f with
    | zero => omega
    | succ f =>
      unfold backtrackQub
      split_ifs with h1 h2
      · rfl
      · simp only [Bool.and_eq_true, decide_eq_true_eq] at h2
        rw [pow_zero, mul_one] at hN
        exact absurd h2.1 (not_lt.mpr hN)
      · rfl
  | succ N ih =>
    intro f c t b hN hf
    cases f with
    | zero => omega
    | succ f =>
      unfold backtrackQub
      split_ifs with h1 h2
      · rfl
      · apply ih
        · have hL : (backtrackStep P c).L = c.L * 2 := by
            simp [backtrackStep, evalPsiHat, evalProxGradStep]
          rw [hL, mul_assoc, ← pow_succ']
          exact hN
        · omega
      · rfl

/-! ### The invariant `L > 0 ∧ L_max ≤ L·2ᴺ` -/

/-- `L` is positive and within `N` doublings of `L_max`. -/
def LOK (pr : Params α) (N : Nat) (i : Iterate α) : Prop := 0 < i.L ∧ pr.Lmax ≤ i.L * 2 ^ N

theorem LOK.of_GL {pr : Params α} {N : Nat} {a b : Iterate α} (h : LOK pr N a) (hg : GL a b) :
    LOK pr N b := by
  obtain ⟨n, -, hn⟩ := hg
  have h2 : (1 : α) ≤ 2 ^ n := one_le_pow₀ (by norm_num)
  have hN : (0 : α) < 2 ^ N := by positivity
  refine ⟨by rw [hn]; exact mul_pos h.1 (by positivity), ?_⟩
  rw [hn]
  calc pr.Lmax ≤ a.L * 2 ^ N := h.2
    _ = a.L * 1 * 2 ^ N := by ring
    _ ≤ a.L * 2 ^ n * 2 ^ N :=
        mul_le_mul_of_nonneg_right (mul_le_mul_of_nonneg_left h2 h.1.le) hN.le

theorem LOK.of_L_eq {pr : Params α} {N : Nat} {a b : Iterate α} (h : LOK pr N a) (he : b.L = a.L) :
    LOK pr N b := by
  unfold LOK at *; rw [he]; exact h

/-- The parameter bundle under which no `backtrack_qub` of a solve runs out of fuel: `L_min`, `L_max`
    positive, the initial Lipschitz constant (`L_0` if positive, else the estimate clamped to
    `[L_min, L_max]`, which is `≥ L_min` or `= L_max`) within `N` doublings of `L_max`, and `N` below
    the model's fuel `Params.qubFuel`. -/
structure FuelOK (pr : Params α) (N : Nat) : Prop where
  lmin : 0 < pr.Lmin
  lmax : 0 < pr.Lmax
  l0 : pr.Lmax ≤ (if pr.L0 ≤ 0 then pr.Lmin else pr.L0) * 2 ^ N
  fuel : N < pr.qubFuel

/-- What `eclamp` returns: a value `≥ lo`, or `hi` itself. -/
theorem eclamp_cases (v lo hi : α) : lo ≤ eclamp v lo hi ∨ eclamp v lo hi = hi := by
  unfold eclamp
  split_ifs with h1 h2
  · exact .inl (le_refl _)
  · exact .inr rfl
  · exact .inl (not_lt.mp h1)

/-- The Lipschitz constant the initialisation starts from: `L_0` if positive, else the clamped
    finite-difference estimate. -/
theorem lipschitzStage_L (co : Consts α) (P : Problem α) (pr : Params α) (x0 gV : Vec α) :
    (0 < pr.L0 ∧ (lipschitzStage co P pr x0 gV).1.L = pr.L0) ∨
    (pr.L0 ≤ 0 ∧ (pr.Lmin ≤ (lipschitzStage co P pr x0 gV).1.L ∨
      (lipschitzStage co P pr x0 gV).1.L = pr.Lmax)) := by
  unfold lipschitzStage
  simp only []
  split_ifs with h
  · refine .inr ⟨h, ?_⟩
    unfold initialLipschitz
    simp only []
    exact eclamp_cases _ _ _
  · exact .inl ⟨not_le.mp h, by simp [evalPsiGradPsi]⟩

/-- … is positive when `L_min`, `L_max` are. -/
theorem lipschitzStage_L_pos (co : Consts α) (P : Problem α) (pr : Params α) (x0 gV : Vec α)
    (hmin : 0 < pr.Lmin) (hmax : 0 < pr.Lmax) : 0 < (lipschitzStage co P pr x0 gV).1.L := by
  rcases lipschitzStage_L co P pr x0 gV with ⟨h, he⟩ | ⟨-, h | h⟩
  · rw [he]; exact h
  · exact lt_of_lt_of_le hmin h
  · rw [h]; exact hmax

theorem lipschitzStage_LOK (co : Consts α) (P : Problem α) (pr : Params α) (x0 gV : Vec α) (N : Nat)
    (hF : FuelOK pr N) : LOK pr N (lipschitzStage co P pr x0 gV).1 := by
  refine ⟨lipschitzStage_L_pos co P pr x0 gV hF.lmin hF.lmax, ?_⟩
  have hN : (0 : α) < 2 ^ N := by positivity
  have h1 : (1 : α) ≤ 2 ^ N := one_le_pow₀ (by norm_num)
  have hl0 := hF.l0
  rcases lipschitzStage_L co P pr x0 gV with ⟨h, he⟩ | ⟨h0, h | h⟩
  · rw [he]; rw [if_neg (not_le.mpr h)] at hl0; exact hl0
  · rw [if_pos h0] at hl0
    exact le_trans hl0 (mul_le_mul_of_nonneg_right h hN.le)
  · rw [h]
    calc pr.Lmax = pr.Lmax * 1 := (mul_one _).symm
      _ ≤ pr.Lmax * 2 ^ N := mul_le_mul_of_nonneg_left h1 hF.lmax.le

/-! ### Stage by stage -/

theorem initState_fuel (co : Consts α) (P : Problem α) (d0 : D) (pr : Params α) (stop : Nat → Bool)
    (x0 gV : Vec α) (N : Nat) (hF : FuelOK pr N) (s : St α D)
    (hi : initState co P d0 pr stop x0 gV = .inr s) : s.fuelOut = false ∧ LOK pr N s.curr := by
  have hL := lipschitzStage_LOK co P pr x0 gV N hF
  unfold initState at hi
  simp only [] at hi
  split_ifs at hi
  injection hi with hi; subst hi
  have h1 : LOK pr N (firstStep P pr (lipschitzStage co P pr x0 gV).1) :=
    hL.of_L_eq (by simp [firstStep, evalPsiHat, evalProxGradStep])
  exact ⟨backtrackQub_fuel P pr stop N _ _ _ _ h1.2 hF.fuel,
    h1.of_GL (backtrackQub_GL P pr stop _ _ _ _)⟩

theorem candidateFbe_fuel (P : Problem α) (pr : Params α) (stop : Nat → Bool) (prox cand : Iterate α)
    (q : Vec α) (t N : Nat) (h : LOK pr N prox) (hf : N < pr.qubFuel) :
    (candidateFbe P pr stop prox cand q t).2.2.2 = false := by
  unfold candidateFbe
  simp only []
  split_ifs
  · apply backtrackQub_fuel P pr stop N _ _ _ _ _ hf
    have : (evalPsiHat P (evalProxGradStep P
        { (evalPsiGradPsi P { cand with x := vadd prox.x q }) with gamma := prox.gamma, L := prox.L })).L
        = prox.L := by simp [evalPsiHat, evalProxGradStep]
    rw [this]; exact h.2
  · rfl

theorem trStage_fuel (co : Consts α) (P : Problem α) (dir : Direction D α) (pr : Params α)
    (stop : Nat → Bool) (s : St α D) (N : Nat) (h : LOK pr N s.curr) (hf : N < pr.qubFuel) :
    (trStage co P dir pr stop s).fuelOut = false := by
  have hp : LOK pr N (fbsStep P pr s).1 :=
    h.of_L_eq (by simp [fbsStep, evalProxGradStep, evalPsiGradPsi])
  unfold trStage
  simp only []
  split_ifs
  · unfold trAttempt
    simp only []
    split_ifs
    · exact candidateFbe_fuel P pr stop _ _ _ _ N hp hf
    · rfl
  · rfl

theorem acceptStage_fuel (P : Problem α) (dir : Direction D α) (pr : Params α) (stop : Nat → Bool)
    (m : Mid α D) (t0 N : Nat) (h : LOK pr N m.cand) (hf : N < pr.qubFuel) :
    (acceptStage P dir pr stop m t0).fuelOut = false := by
  unfold acceptStage
  simp only []
  split_ifs
  · exact backtrackQub_fuel P pr stop N _ _ _ _ (by simpa [evalPsiHat] using h.2) hf
  · rfl

theorem rejectStage_fuel (P : Problem α) (dir : Direction D α) (pr : Params α) (stop : Nat → Bool)
    (m : Mid α D) (t0 N : Nat) (h : LOK pr N m.prox) (hf : N < pr.qubFuel) :
    (rejectStage P dir pr stop m t0).fuelOut = false := by
  unfold rejectStage
  simp only []
  exact backtrackQub_fuel P pr stop N _ _ _ _ (by simpa [evalPsiHat] using h.2) hf

/-- One iteration: no `backtrack_qub` runs out of fuel, and the invariant is handed on. -/
theorem iterBody_fuel (co : Consts α) (P : Problem α) (dir : Direction D α) (pr : Params α)
    (stop : Nat → Bool) (s : St α D) (eps : α) (N : Nat) (h : LOK pr N s.curr) (hf : N < pr.qubFuel)
    (hs : s.fuelOut = false) :
    (iterBody co P dir pr stop s eps).fuelOut = false ∧ LOK pr N (iterBody co P dir pr stop s eps).curr := by
  refine ⟨?_, h.of_GL (iterBody_GL co P dir pr stop s eps)⟩
  have hg := trStage_GL co P dir pr stop s
  have h1 := trStage_fuel co P dir pr stop s N h hf
  unfold iterBody
  simp only []
  rw [hs, h1]
  by_cases ha : (trStage co P dir pr stop s).accept
  · simp only [ha, if_true, Bool.false_or]
    exact acceptStage_fuel P dir pr stop _ _ N (h.of_GL (hg.2 ha)) hf
  · simp only [ha, Bool.false_eq_true, if_false, Bool.false_or]
    exact rejectStage_fuel P dir pr stop _ _ N (h.of_GL hg.1) hf

/-- A `Busy` head has `k ≠ max_iter`. -/
theorem headStep_busy_k_ne (P : Problem α) (pr : Params α) (stop : Nat → Bool) (oot : Bool)
    (s : St α D) (hb : (headStep P pr stop oot s).2.2 = .Busy) : s.k ≠ pr.maxIter := by
  unfold headStep statusOf at hb
  simp only [] at hb
  intro he
  unfold statusChain at hb
  simp only [he] at hb
  split_ifs at hb <;> simp_all

/-- **The main loop never runs out of fuel** (`max_iter + 1` passes, of which every one that does not
    exit advances `k`; the step-size loops by `FuelOK`). -/
theorem mainLoop_fuel (co : Consts α) (P : Problem α) (dir : Direction D α) (pr : Params α)
    (stop : Nat → Bool) (oot : Bool) (x0 y Sig errz0 : Vec α) (N : Nat) (hf : N < pr.qubFuel)
    (fuel : Nat) (s : St α D) (hk : s.k + fuel = pr.maxIter + 1) (hpos : 0 < fuel)
    (h : LOK pr N s.curr) (hs : s.fuelOut = false) :
    (mainLoop co P dir pr stop oot x0 y Sig errz0 fuel s).fuelOut = false := by
  induction fuel generalizing s with
  | zero => omega
  | succ f ih =>
    have hh := headStep_same P pr stop oot s
    unfold mainLoop
    simp only []
    split_ifs with hb
    · rw [(exitBlock_fields co pr _ _ _ x0 y Sig errz0).2.2.2.2.2.2, hh.2.1]; exact hs
    · have hbusy : (headStep P pr stop oot s).2.2 = .Busy := by simpa using hb
      have hne := headStep_busy_k_ne P pr stop oot s hbusy
      have hb' := iterBody_fuel co P dir pr stop (headStep P pr stop oot s).1
        (headStep P pr stop oot s).2.1 N (by rw [hh.1]; exact h) hf (by rw [hh.2.1]; exact hs)
      have hk' := (iterBody_spec co P dir pr stop (headStep P pr stop oot s).1
        (headStep P pr stop oot s).2.1).2.2.1
      exact ih _ (by rw [hk', hh.2.2.1]; omega) (by omega) hb'.2 hb'.1

/-- **Fuel sufficiency for a whole solve**: under `FuelOK pr N` the model's fuel flag is never set —
    for every problem, direction provider, budget and EVERY stop schedule (no monotonicity of the
    flag is needed: PANTR has no interrupted-iteration `continue`). -/
theorem pantr_fuel_suffices (co : Consts α) (P : Problem α) (dir : Direction D α) (d0 : D)
    (pr : Params α) (stop : Nat → Bool) (oot : Bool) (x0 y Sig errz0 gV : Vec α) (N : Nat)
    (hF : FuelOK pr N) : (run co P dir d0 pr stop oot x0 y Sig errz0 gV).fuelOut = false := by
  unfold run
  cases hi : initState co P d0 pr stop x0 gV with
  | inl t => rfl
  | inr s =>
    simp only []
    have h0 := initState_fuel co P d0 pr stop x0 gV N hF s hi
    have hk := (initState_good co P d0 pr stop x0 gV s hi).2.2.1
    exact mainLoop_fuel co P dir pr stop oot x0 y Sig errz0 N hF.fuel _ s (by rw [hk]; omega)
      (by omega) h0.2 h0.1

end Alpaqa.Pantr
