/-
  Invariants of the PANTR loop model (`Alpaqa/Model/Pantr.lean`).

  * `Good`: the current iterate always carries a *consistent* forward-backward step —
    `(h(x̂), x̂, p)` is the prox oracle's answer at the iterate's own `(γ, x, ∇ψ)` and `ŷx̂` is the
    ψ oracle's answer at `x̂` — through the accept path (`std::swap(curr, cand)`), the reject path
    (`std::swap(curr, prox)`), both placements of the candidate's quadratic-upper-bound
    backtracking, and both `recompute_last_prox_step_after_direction_reset` settings.
  * `QubOK`: it satisfies the quadratic upper bound unless `L ≥ L_max`.
  * exit contract, iteration bound, "every exit is a head exit", tick accounting.

  Purely structural: any carrier (IEEE doubles included), arbitrary oracles, arbitrary direction
  provider, arbitrary stop schedule.
-/
import Mathlib.Tactic.SplitIfs
import Mathlib.Tactic.Basic
import Alpaqa.Model.Pantr

namespace Alpaqa.Pantr
open Alpaqa Alpaqa.Gen
set_option linter.unusedSectionVars false

variable {α D : Type} [Add α] [Sub α] [Mul α] [Div α] [Neg α] [LT α] [LE α] [DecidableLT α]
  [DecidableLE α] [BEq α] [RealLike α] [NatCast α] [OfScientific α]
  [OfNat α 0] [OfNat α 1] [OfNat α 2] [OfNat α 100]

/-- closes goals that are `a = a` or were already turned into `True` by `simp only []` -/
local macro "triv" : tactic => `(tactic| first | rfl | trivial)

/-- `(h(x̂), x̂, p)` is the prox oracle's answer at the iterate's own `(γ, x, ∇ψ)`. -/
def ProxCons (P : Problem α) (i : Iterate α) : Prop :=
  i.hxhat = (P.prox i.gamma i.x i.gradPsi).1 ∧ i.xhat = (P.prox i.gamma i.x i.gradPsi).2.1 ∧
  i.p = (P.prox i.gamma i.x i.gradPsi).2.2

/-- `ψ(x̂)`, `ŷx̂` are the ψ oracle's answer at `x̂`. -/
def YhatCons (P : Problem α) (i : Iterate α) : Prop :=
  i.psixhat = (P.psi i.xhat).1 ∧ i.yhat = (P.psi i.xhat).2

def Good (P : Problem α) (i : Iterate α) : Prop := ProxCons P i ∧ YhatCons P i

/-- The quadratic upper bound holds unless `L` reached `L_max` (exit condition of `backtrack_qub`). -/
def QubOK (pr : Params α) (i : Iterate α) : Prop :=
  (decide (i.L < pr.Lmax) && qubViolated pr i) = false

theorem proxCons_evalProxGradStep (P : Problem α) (i : Iterate α) :
    ProxCons P (evalProxGradStep P i) := by
  unfold ProxCons evalProxGradStep; simp

theorem good_evalPsiHat (P : Problem α) (i : Iterate α) (h : ProxCons P i) :
    Good P (evalPsiHat P i) := by
  unfold Good ProxCons YhatCons evalPsiHat at *; simpa using h

theorem good_backtrackStep (P : Problem α) (i : Iterate α) : Good P (backtrackStep P i) :=
  good_evalPsiHat P _ (proxCons_evalProxGradStep P _)

theorem backtrackQub_good (P : Problem α) (pr : Params α) (stop : Nat → Bool) (f : Nat)
    (c : Iterate α) (t b : Nat)
    (h : Good P c) : Good P (backtrackQub P pr stop f c t b).1 := by
  induction f generalizing c t b with
  | zero => simpa [backtrackQub] using h
  | succ f ih =>
    unfold backtrackQub
    split_ifs
    · exact h
    · exact ih _ _ _ (good_backtrackStep P c)
    · exact h

/-- `backtrack_qub` ends with the quadratic upper bound met (or `L ≥ L_max`) — unless it was left
    through its stop poll, i.e. the flag is visible at the tick the loop ends at. -/
theorem backtrackQub_qubOK (P : Problem α) (pr : Params α) (stop : Nat → Bool) (f : Nat)
    (c : Iterate α) (t b : Nat)
    (hf : (backtrackQub P pr stop f c t b).2.2.2 = false)
    (hs : stop (backtrackQub P pr stop f c t b).2.1 = false) :
    QubOK pr (backtrackQub P pr stop f c t b).1 := by
  induction f generalizing c t b with
  | zero => simp [backtrackQub] at hf
  | succ f ih =>
    unfold backtrackQub at hf hs ⊢
    split_ifs at hf hs ⊢ with hst hc
    · simp only [] at hs; rw [hst] at hs; exact absurd hs (by decide)
    · exact ih _ _ _ hf hs
    · unfold QubOK; simpa using hc

/-- **Once the flag is visible `backtrack_qub` makes no further call.** -/
theorem backtrackQub_stop_noop (P : Problem α) (pr : Params α) (stop : Nat → Bool) (f : Nat)
    (c : Iterate α) (t b : Nat) (h : stop t = true) :
    backtrackQub P pr stop (f + 1) c t b = (c, t, b, false) := by
  unfold backtrackQub; simp [h]

/-- `backtrack_qub` never touches `x`, `ψ(x)`, `∇ψ(x)`. -/
theorem backtrackQub_same (P : Problem α) (pr : Params α) (stop : Nat → Bool) (f : Nat)
    (c : Iterate α) (t b : Nat) :
    (backtrackQub P pr stop f c t b).1.x = c.x ∧ (backtrackQub P pr stop f c t b).1.psix = c.psix ∧
    (backtrackQub P pr stop f c t b).1.gradPsi = c.gradPsi := by
  induction f generalizing c t b with
  | zero => simp [backtrackQub]
  | succ f ih =>
    unfold backtrackQub
    split_ifs
    · exact ⟨rfl, rfl, rfl⟩
    · have := ih (backtrackStep P c) (t + 2) (b + 1)
      simpa [backtrackStep, evalPsiHat, evalProxGradStep] using this
    · exact ⟨rfl, rfl, rfl⟩

/-- Tick accounting of `backtrack_qub`: two evaluations per counted backtrack. -/
theorem backtrackQub_tick (P : Problem α) (pr : Params α) (stop : Nat → Bool) (f : Nat)
    (c : Iterate α) (t b : Nat) :
    (backtrackQub P pr stop f c t b).2.1 + 2 * b = t + 2 * (backtrackQub P pr stop f c t b).2.2.1 ∧
    b ≤ (backtrackQub P pr stop f c t b).2.2.1 := by
  induction f generalizing c t b with
  | zero => simp [backtrackQub]
  | succ f ih =>
    unfold backtrackQub
    split_ifs
    · simp
    · have := ih (backtrackStep P c) (t + 2) (b + 1)
      omega
    · simp

/-- The stop flag is never lowered during a solve. -/
def StopMono (stop : Nat → Bool) : Prop := ∀ a b, a ≤ b → stop a = true → stop b = true

/-- No stop request is visible up to (and including) tick `t`. -/
def Quiet (stop : Nat → Bool) (t : Nat) : Prop := ∀ t', t' ≤ t → stop t' = false

theorem Quiet.mono {stop : Nat → Bool} {a b : Nat} (h : Quiet stop b) (hab : a ≤ b) : Quiet stop a :=
  fun t' ht => h t' (Nat.le_trans ht hab)

theorem Quiet.here {stop : Nat → Bool} {t : Nat} (h : Quiet stop t) : stop t = false :=
  h t (Nat.le_refl t)

theorem quiet_of_mono {stop : Nat → Bool} (hm : StopMono stop) {t : Nat} (h : stop t = false) :
    Quiet stop t := by
  intro t' ht
  cases hs : stop t'
  · rfl
  · rw [hm t' t ht hs] at h; exact absurd h (by decide)

/-- With a flag that is never lowered and visible from tick `t₀` on, `backtrack_qub` entered at tick
    `t` is left at tick `≤ max t (t₀ + 1)`: a pass (2 calls) is only started while the flag is
    invisible (tick `< t₀`) — whatever the number of passes the quadratic upper bound would ask for. -/
theorem backtrackQub_tick_bound (P : Problem α) (pr : Params α) (stop : Nat → Bool)
    (hm : StopMono stop) (t0 : Nat) (h0 : stop t0 = true) (f : Nat) (c : Iterate α) (t b : Nat) :
    (backtrackQub P pr stop f c t b).2.1 ≤ max t (t0 + 1) := by
  induction f generalizing c t b with
  | zero => simp only [backtrackQub]; omega
  | succ f ih =>
    unfold backtrackQub
    by_cases hst : stop t
    · simp only [hst, if_true]; omega
    · simp only [hst, Bool.false_eq_true, if_false]
      have hlt : t < t0 := by
        apply Nat.lt_of_not_le
        intro hc
        exact hst (hm t0 t hc h0)
      split_ifs
      · have := ih (backtrackStep P c) (t + 2) (b + 1)
        omega
      · simp only []; omega

theorem initState_good (co : Consts α) (P : Problem α) (d0 : D) (pr : Params α) (stop : Nat → Bool)
    (x0 gV : Vec α) (s : St α D) (h : initState co P d0 pr stop x0 gV = .inr s) :
    Good P s.curr ∧ (s.fuelOut = false → stop s.tick = false → QubOK pr s.curr) ∧ s.k = 0 ∧
    s.cbs = [] := by
  unfold initState at h
  simp only [] at h
  split_ifs at h
  injection h with h; subst h
  exact ⟨backtrackQub_good P pr stop _ _ _ _ (good_evalPsiHat P _ (proxCons_evalProxGradStep P _)),
         fun hf hs => backtrackQub_qubOK P pr stop _ _ _ _ hf hs, rfl, rfl⟩

/-! ### One iteration -/

theorem headStep_same (P : Problem α) (pr : Params α) (stop : Nat → Bool) (oot : Bool) (s : St α D) :
    (headStep P pr stop oot s).1.curr = s.curr ∧ (headStep P pr stop oot s).1.fuelOut = s.fuelOut ∧
    (headStep P pr stop oot s).1.k = s.k ∧ s.tick ≤ (headStep P pr stop oot s).1.tick ∧
    (headStep P pr stop oot s).1.tick ≤ s.tick + 2 ∧
    (headStep P pr stop oot s).1.stats = s.stats ∧ (headStep P pr stop oot s).1.Delta = s.Delta := by
  unfold headStep epsTicks
  simp only []
  refine ⟨by triv, by triv, by triv, ?_, ?_, by triv, by triv⟩ <;> split_ifs <;> cases pr.stopCrit <;> simp <;> omega

/-! #### ticks (events) per stage -/

theorem fbsStep_tick (P : Problem α) (pr : Params α) (s : St α D) :
    s.tick + 2 ≤ (fbsStep P pr s).2.2 ∧ (fbsStep P pr s).2.2 ≤ s.tick + 3 := by
  unfold fbsStep; simp only []; split_ifs <;> dsimp only <;> omega

theorem dirInit_tick (dir : Direction D α) (s : St α D) (prox : Iterate α) (t : Nat) :
    t ≤ (dirInit dir s prox t).2.2 ∧ (dirInit dir s prox t).2.2 ≤ t + 2 := by
  unfold dirInit; simp only []; split_ifs <;> dsimp only <;> omega

theorem trustRegionStep_tick (co : Consts α) (dir : Direction D α) (d : D) (t : Nat) (prox : Iterate α)
    (Delta : α) (q : Vec α) :
    t + 1 ≤ (trustRegionStep co dir d t prox Delta q).2.1 ∧
    (trustRegionStep co dir d t prox Delta q).2.1 ≤ t + 2 := by
  unfold trustRegionStep; simp only []; split_ifs <;> dsimp only <;> omega

theorem candidateFbe_tick (P : Problem α) (pr : Params α) (stop : Nat → Bool) (prox cand : Iterate α)
    (q : Vec α) (t : Nat) :
    t + 2 ≤ (candidateFbe P pr stop prox cand q t).2.1 ∧
    (candidateFbe P pr stop prox cand q t).2.1 ≤ t + 3 + 2 * (candidateFbe P pr stop prox cand q t).2.2.1 := by
  unfold candidateFbe
  simp only []
  split_ifs
  · generalize evalPsiHat P _ = c0
    have := backtrackQub_tick P pr stop pr.qubFuel c0 (t + 3) 0
    omega
  · dsimp only; omega

theorem trStage_tick (co : Consts α) (P : Problem α) (dir : Direction D α) (pr : Params α)
    (stop : Nat → Bool) (s : St α D) :
    s.tick + 2 ≤ (trStage co P dir pr stop s).tick ∧
    (trStage co P dir pr stop s).tick ≤ s.tick + 10 + 2 * (trStage co P dir pr stop s).backtracks := by
  have h1 := fbsStep_tick P pr s
  have h2 := dirInit_tick dir s (fbsStep P pr s).1 (fbsStep P pr s).2.2
  unfold trStage
  simp only []
  split_ifs
  · unfold trAttempt
    simp only []
    generalize htr : trustRegionStep co dir _ _ _ _ _ = tr
    have h3 := trustRegionStep_tick co dir (dirInit dir s (fbsStep P pr s).1 (fbsStep P pr s).2.2).1
      (dirInit dir s (fbsStep P pr s).1 (fbsStep P pr s).2.2).2.2 (fbsStep P pr s).1 s.Delta s.q
    rw [htr] at h3
    split_ifs
    · have h4 := candidateFbe_tick P pr stop (fbsStep P pr s).1 s.cand tr.2.2.1 tr.2.1
      simp only []
      omega
    · simp only []; omega
  · simp only []; omega

theorem acceptStage_tick (P : Problem α) (dir : Direction D α) (pr : Params α) (stop : Nat → Bool)
    (m : Mid α D) (t0 : Nat) :
    t0 + 1 ≤ (acceptStage P dir pr stop m t0).tick ∧
    (acceptStage P dir pr stop m t0).tick ≤ t0 + 4 + 2 * (acceptStage P dir pr stop m t0).backtracks := by
  unfold acceptStage
  simp only []
  by_cases hc : pr.computeRatioUsingNewStepsize
  · simp only [hc, Bool.not_true, Bool.false_eq_true, if_false]
    split_ifs <;> dsimp only <;> omega
  · simp only [hc, Bool.not_false, if_true]
    have := backtrackQub_tick P pr stop pr.qubFuel (evalPsiHat P m.cand) (t0 + 1) 0
    split_ifs <;> dsimp only <;> omega

theorem rejectStage_tick (P : Problem α) (dir : Direction D α) (pr : Params α) (stop : Nat → Bool)
    (m : Mid α D) (t0 : Nat) :
    t0 + 1 ≤ (rejectStage P dir pr stop m t0).tick ∧
    (rejectStage P dir pr stop m t0).tick ≤ t0 + 4 + 2 * (rejectStage P dir pr stop m t0).backtracks := by
  unfold rejectStage
  simp only []
  have := backtrackQub_tick P pr stop pr.qubFuel (evalPsiHat P m.prox) (t0 + 1) 0
  split_ifs <;> dsimp only <;> omega

/-- The step-size loop of the accept stage (when it runs there) ends no later than the stage. -/
theorem acceptStage_bt_le (P : Problem α) (dir : Direction D α) (pr : Params α) (stop : Nat → Bool)
    (m : Mid α D) (t0 : Nat) (hc : pr.computeRatioUsingNewStepsize = false) :
    (backtrackQub P pr stop pr.qubFuel (evalPsiHat P m.cand) (t0 + 1) 0).2.1
      ≤ (acceptStage P dir pr stop m t0).tick := by
  unfold acceptStage
  simp only [hc, Bool.not_false, if_true]
  split_ifs <;> dsimp only <;> omega

/-- The step-size loop of the reject stage ends no later than the stage. -/
theorem rejectStage_bt_le (P : Problem α) (dir : Direction D α) (pr : Params α) (stop : Nat → Bool)
    (m : Mid α D) (t0 : Nat) :
    (backtrackQub P pr stop pr.qubFuel (evalPsiHat P m.prox) (t0 + 1) 0).2.1
      ≤ (rejectStage P dir pr stop m t0).tick := by
  unfold rejectStage
  simp only []
  split_ifs <;> dsimp only <;> omega

/-- What an *accepted* candidate is known to carry: a consistent prox step, and — when the ratio
    is computed with the new step size — also `ψ(x̂)`, `ŷ` and the quadratic upper bound (unless its
    `backtrack_qub` was left through the stop poll: `tick` is the tick that loop ended at). -/
def CandOK (P : Problem α) (pr : Params α) (stop : Nat → Bool) (cand : Iterate α) (fuelOut : Bool)
    (tick : Nat) : Prop :=
  if pr.computeRatioUsingNewStepsize then
    Good P cand ∧ (fuelOut = false → stop tick = false → QubOK pr cand)
  else ProxCons P cand

theorem candidateFbe_spec (P : Problem α) (pr : Params α) (stop : Nat → Bool) (prox cand : Iterate α)
    (q : Vec α) (t : Nat) :
    CandOK P pr stop (candidateFbe P pr stop prox cand q t).1 (candidateFbe P pr stop prox cand q t).2.2.2
      (candidateFbe P pr stop prox cand q t).2.1 ∧
    (candidateFbe P pr stop prox cand q t).1.x = vadd prox.x q := by
  unfold candidateFbe CandOK
  by_cases hc : pr.computeRatioUsingNewStepsize
  · simp only [hc, if_true]
    refine ⟨⟨backtrackQub_good P pr stop _ _ _ _ (good_evalPsiHat P _ (proxCons_evalProxGradStep P _)),
      fun hf hs => backtrackQub_qubOK P pr stop _ _ _ _ hf hs⟩, ?_⟩
    rw [(backtrackQub_same P pr stop _ _ _ _).1]
    simp [evalPsiHat, evalProxGradStep, evalPsiGradPsi]
  · simp only [hc, Bool.false_eq_true, if_false]
    exact ⟨proxCons_evalProxGradStep P _, by simp [evalProxGradStep, evalPsiGradPsi]⟩

theorem trAttempt_spec (co : Consts α) (P : Problem α) (dir : Direction D α) (pr : Params α)
    (stop : Nat → Bool) (b : Mid α D) (hb : b.accept = false) :
    (trAttempt co P dir pr stop b).curr = b.curr ∧ (trAttempt co P dir pr stop b).prox = b.prox ∧
    ((trAttempt co P dir pr stop b).accept = true →
      CandOK P pr stop (trAttempt co P dir pr stop b).cand (trAttempt co P dir pr stop b).fuelOut
        (trAttempt co P dir pr stop b).tick ∧
      (trAttempt co P dir pr stop b).cand.x = vadd b.prox.x (trAttempt co P dir pr stop b).q) := by
  unfold trAttempt
  simp only []
  split_ifs
  · exact ⟨by triv, by triv, fun _ => candidateFbe_spec P pr stop _ _ _ _⟩
  · exact ⟨by triv, by triv, fun h => absurd h (by simp [hb])⟩

/-- What `trStage` guarantees: the current iterate is untouched, `prox` carries a consistent prox
    step at `x = curr.x̂`, and an *accepted* candidate is `CandOK` at `x = x̂ₖ + q`. -/
theorem trStage_spec (co : Consts α) (P : Problem α) (dir : Direction D α) (pr : Params α)
    (stop : Nat → Bool) (s : St α D) :
    (trStage co P dir pr stop s).curr = s.curr ∧ ProxCons P (trStage co P dir pr stop s).prox ∧
    (trStage co P dir pr stop s).prox.x = s.curr.xhat ∧
    ((trStage co P dir pr stop s).accept = true →
      CandOK P pr stop (trStage co P dir pr stop s).cand (trStage co P dir pr stop s).fuelOut
        (trStage co P dir pr stop s).tick ∧
      (trStage co P dir pr stop s).cand.x = vadd s.curr.xhat (trStage co P dir pr stop s).q) := by
  have hx : (fbsStep P pr s).1.x = s.curr.xhat := by
    simp [fbsStep, evalProxGradStep, evalPsiGradPsi]
  have hp : ProxCons P (fbsStep P pr s).1 := by
    unfold fbsStep; exact proxCons_evalProxGradStep P _
  unfold trStage
  simp only []
  split_ifs
  · have := trAttempt_spec co P dir pr stop
      { curr := s.curr, prox := (fbsStep P pr s).1, cand := s.cand, gradPsiHat := (fbsStep P pr s).2.1,
        q := s.q, d := (dirInit dir s (fbsStep P pr s).1 (fbsStep P pr s).2.2).1,
        tick := (dirInit dir s (fbsStep P pr s).1 (fbsStep P pr s).2.2).2.2, accept := false,
        accelerated := (dirInit dir s (fbsStep P pr s).1 (fbsStep P pr s).2.2).2.1, Delta := s.Delta,
        rho := s.rho, failures := 0, backtracks := 0, fuelOut := false } rfl
    refine ⟨this.1, by rw [this.2.1]; exact hp, by rw [this.2.1]; exact hx, fun h => ?_⟩
    have h2 := this.2.2 h
    rw [← hx]; exact h2
  · exact ⟨by triv, hp, hx, fun h => absurd h (by simp)⟩

theorem acceptStage_good (P : Problem α) (dir : Direction D α) (pr : Params α) (stop : Nat → Bool)
    (m : Mid α D) (t0 : Nat) (h : CandOK P pr stop m.cand m.fuelOut m.tick) (ht : m.tick ≤ t0) :
    Good P (acceptStage P dir pr stop m t0).curr ∧
    (m.fuelOut = false → (acceptStage P dir pr stop m t0).fuelOut = false →
      Quiet stop (acceptStage P dir pr stop m t0).tick → QubOK pr (acceptStage P dir pr stop m t0).curr) ∧
    (acceptStage P dir pr stop m t0).curr.x = m.cand.x := by
  have htk := (acceptStage_tick P dir pr stop m t0).1
  by_cases hc : pr.computeRatioUsingNewStepsize
  · unfold CandOK at h
    simp only [hc, if_true] at h
    have hcurr : (acceptStage P dir pr stop m t0).curr = m.cand := by
      unfold acceptStage; simp only [hc, Bool.not_true, Bool.false_eq_true, if_false]
    rw [hcurr]
    exact ⟨h.1, fun h1 _ hq => h.2 h1 (hq m.tick (by omega)), rfl⟩
  · have hc' : pr.computeRatioUsingNewStepsize = false := by simpa using hc
    have hle := acceptStage_bt_le P dir pr stop m t0 hc'
    unfold CandOK at h
    simp only [hc, Bool.false_eq_true, if_false] at h
    have hcurr : (acceptStage P dir pr stop m t0).curr =
        (backtrackQub P pr stop pr.qubFuel (evalPsiHat P m.cand) (t0 + 1) 0).1 := by
      unfold acceptStage; simp only [hc, Bool.false_eq_true, Bool.not_false, if_true]
    have hfo : (acceptStage P dir pr stop m t0).fuelOut =
        (backtrackQub P pr stop pr.qubFuel (evalPsiHat P m.cand) (t0 + 1) 0).2.2.2 := by
      unfold acceptStage; simp only [hc, Bool.false_eq_true, Bool.not_false, if_true]
    rw [hcurr, hfo]
    refine ⟨backtrackQub_good P pr stop _ _ _ _ (good_evalPsiHat P _ h),
      fun _ hf hq => backtrackQub_qubOK P pr stop _ _ _ _ hf (hq _ hle), ?_⟩
    rw [(backtrackQub_same P pr stop _ _ _ _).1]; rfl

theorem rejectStage_good (P : Problem α) (dir : Direction D α) (pr : Params α) (stop : Nat → Bool)
    (m : Mid α D) (t0 : Nat) (h : ProxCons P m.prox) :
    Good P (rejectStage P dir pr stop m t0).curr ∧
    ((rejectStage P dir pr stop m t0).fuelOut = false → Quiet stop (rejectStage P dir pr stop m t0).tick →
      QubOK pr (rejectStage P dir pr stop m t0).curr) ∧
    (rejectStage P dir pr stop m t0).curr.x = m.prox.x := by
  have hle := rejectStage_bt_le P dir pr stop m t0
  have hcurr : (rejectStage P dir pr stop m t0).curr =
      (backtrackQub P pr stop pr.qubFuel (evalPsiHat P m.prox) (t0 + 1) 0).1 := by
    unfold rejectStage; simp only []
  have hfo : (rejectStage P dir pr stop m t0).fuelOut =
      (backtrackQub P pr stop pr.qubFuel (evalPsiHat P m.prox) (t0 + 1) 0).2.2.2 := by
    unfold rejectStage; simp only []
  rw [hcurr, hfo]
  refine ⟨backtrackQub_good P pr stop _ _ _ _ (good_evalPsiHat P _ h),
    fun hf hq => backtrackQub_qubOK P pr stop _ _ _ _ hf (hq _ hle), ?_⟩
  rw [(backtrackQub_same P pr stop _ _ _ _).1]; rfl

/-- **One pass of the loop body**: whatever the direction provider returned and whichever path was
    taken, the iterate that is current afterwards carries a consistent prox step and ŷ; it
    satisfies the quadratic upper bound unless `L ≥ L_max` (if no model fuel ran out and no stop
    request was visible up to the end of the pass — a visible request cuts `backtrack_qub` short);
    it is the candidate `x̂ₖ + q` when the candidate was accepted and the forward-backward point
    `x̂ₖ` otherwise; `k` advances by one. -/
theorem iterBody_spec (co : Consts α) (P : Problem α) (dir : Direction D α) (pr : Params α)
    (stop : Nat → Bool) (s : St α D) (eps : α) :
    Good P (iterBody co P dir pr stop s eps).curr ∧
    ((iterBody co P dir pr stop s eps).fuelOut = false → Quiet stop (iterBody co P dir pr stop s eps).tick →
      QubOK pr (iterBody co P dir pr stop s eps).curr) ∧
    (iterBody co P dir pr stop s eps).k = s.k + 1 ∧
    (iterBody co P dir pr stop s eps).curr.x =
      (if (iterBody co P dir pr stop s eps).accept then vadd s.curr.xhat (iterBody co P dir pr stop s eps).q
       else s.curr.xhat) := by
  have hs := trStage_spec co P dir pr stop s
  unfold iterBody
  simp only []
  by_cases ha : (trStage co P dir pr stop s).accept
  · simp only [ha, if_true]
    have hc := hs.2.2.2 ha
    have := acceptStage_good P dir pr stop (trStage co P dir pr stop s)
      ((trStage co P dir pr stop s).tick + 1) hc.1 (Nat.le_succ _)
    refine ⟨this.1, fun hf hq => ?_, by triv, ?_⟩
    · simp only [Bool.or_eq_false_iff] at hf
      exact this.2.1 hf.1.2 hf.2 hq
    · rw [this.2.2]; exact hc.2
  · simp only [ha, Bool.false_eq_true, if_false]
    have := rejectStage_good P dir pr stop (trStage co P dir pr stop s)
      ((trStage co P dir pr stop s).tick + 1) hs.2.1
    refine ⟨this.1, fun hf hq => ?_, by triv, ?_⟩
    · simp only [Bool.or_eq_false_iff] at hf
      exact this.2.1 hf.2 hq
    · rw [this.2.2]; exact hs.2.2.1

theorem iterBody_fuelOut_mono (co : Consts α) (P : Problem α) (dir : Direction D α) (pr : Params α)
    (stop : Nat → Bool) (s : St α D) (eps : α) (hf : s.fuelOut = true) :
    (iterBody co P dir pr stop s eps).fuelOut = true := by
  unfold iterBody; simp [hf]

/-! ### Exit block and main loop -/

/-- Exit contract of a solve (what the caller's `x`, `y`, `err_z` hold afterwards). -/
def ExitOK (P : Problem α) (x0 y Sig errz0 : Vec α) (r : Result α D) : Prop :=
  (r.wrote = true →
      (∃ γ x g, r.x = (P.prox γ x g).2.1) ∧ r.y = (P.psi r.x).2 ∧
      r.errz = (if errz0.length > 0 then vdiv (vsub r.y y) Sig else errz0)) ∧
  (r.wrote = false → r.x = x0 ∧ r.y = y ∧ r.errz = errz0)

theorem exitBlock_ok (co : Consts α) (P : Problem α) (pr : Params α) (s : St α D) (eps : α)
    (status : SolverStatus) (x0 y Sig errz0 : Vec α) (h : Good P s.curr) :
    ExitOK P x0 y Sig errz0 (exitBlock co pr s eps status x0 y Sig errz0) := by
  unfold exitBlock ExitOK
  simp only []
  refine ⟨?_, ?_⟩
  · intro hw
    simp only [hw, if_true]
    exact ⟨⟨_, _, _, h.1.2.1⟩, h.2.2, by triv⟩
  · intro hw
    simp only [hw, Bool.false_eq_true, if_false]
    exact ⟨by triv, by triv, by triv⟩

theorem exitBlock_fields (co : Consts α) (pr : Params α) (s : St α D) (eps : α)
    (status : SolverStatus) (x0 y Sig errz0 : Vec α) :
    (exitBlock co pr s eps status x0 y Sig errz0).wrote =
      (status == .Converged || status == .Interrupted || pr.alwaysOverwrite) ∧
    (exitBlock co pr s eps status x0 y Sig errz0).stats.status = status ∧
    (exitBlock co pr s eps status x0 y Sig errz0).stats.iterations = s.k ∧
    (exitBlock co pr s eps status x0 y Sig errz0).stats.eps = eps ∧
    (exitBlock co pr s eps status x0 y Sig errz0).final = some s.curr ∧
    (exitBlock co pr s eps status x0 y Sig errz0).ticks = s.tick + 1 ∧
    (exitBlock co pr s eps status x0 y Sig errz0).fuelOut = s.fuelOut := by
  unfold exitBlock; exact ⟨rfl, rfl, rfl, rfl, rfl, rfl, rfl⟩

theorem mainLoop_fuelOut_mono (co : Consts α) (P : Problem α) (dir : Direction D α) (pr : Params α)
    (stop : Nat → Bool) (oot : Bool) (x0 y Sig errz0 : Vec α) (fuel : Nat) (s : St α D)
    (hf : s.fuelOut = true) :
    (mainLoop co P dir pr stop oot x0 y Sig errz0 fuel s).fuelOut = true := by
  induction fuel generalizing s with
  | zero => simp [mainLoop]
  | succ f ih =>
    unfold mainLoop
    simp only []
    split_ifs
    · rw [(exitBlock_fields co pr _ _ _ x0 y Sig errz0).2.2.2.2.2.2, (headStep_same P pr stop oot s).2.1]
      exact hf
    · apply ih
      apply iterBody_fuelOut_mono
      rw [(headStep_same P pr stop oot s).2.1]; exact hf

/-- **Exit contract of the main loop**, for all oracles, stop schedules, budgets. -/
theorem mainLoop_ok (co : Consts α) (P : Problem α) (dir : Direction D α) (pr : Params α)
    (stop : Nat → Bool) (oot : Bool) (x0 y Sig errz0 : Vec α) (fuel : Nat) (s : St α D)
    (h : Good P s.curr)
    (hr : (mainLoop co P dir pr stop oot x0 y Sig errz0 fuel s).fuelOut = false) :
    ExitOK P x0 y Sig errz0 (mainLoop co P dir pr stop oot x0 y Sig errz0 fuel s) := by
  induction fuel generalizing s with
  | zero => simp [mainLoop] at hr
  | succ f ih =>
    unfold mainLoop at hr ⊢
    simp only [] at hr ⊢
    have hh := headStep_same P pr stop oot s
    split_ifs at hr ⊢ with hb
    · exact exitBlock_ok co P pr _ _ _ x0 y Sig errz0 (by rw [hh.1]; exact h)
    · exact ih _ (iterBody_spec co P dir pr stop _ _).1 hr

/-- **Every exit is a head exit** (the model's own loop fuel `max_iter + 1` never runs out), and the
    head it exits from has `k ≤ max_iter`, a current iterate that is `Good` and — if no
    `backtrack_qub` fuel ran out — `QubOK`. -/
theorem mainLoop_exit_at_head (co : Consts α) (P : Problem α) (dir : Direction D α) (pr : Params α)
    (stop : Nat → Bool) (oot : Bool) (x0 y Sig errz0 : Vec α) (fuel : Nat) (s : St α D)
    (hk : s.k + fuel = pr.maxIter + 1) (hf : 0 < fuel) (hg : Good P s.curr) :
    ∃ s' : St α D, s'.k ≤ pr.maxIter ∧ s.k ≤ s'.k ∧ Good P s'.curr ∧
      (headStep P pr stop oot s').2.2 ≠ .Busy ∧
      mainLoop co P dir pr stop oot x0 y Sig errz0 fuel s =
        exitBlock co pr (headStep P pr stop oot s').1 (headStep P pr stop oot s').2.1
          (headStep P pr stop oot s').2.2 x0 y Sig errz0 := by
  induction fuel generalizing s with
  | zero => omega
  | succ f ih =>
    unfold mainLoop
    simp only []
    by_cases hb : (headStep P pr stop oot s).2.2 = .Busy
    · simp only [hb, bne_self_eq_false, Bool.false_eq_true, if_false]
      have hh := headStep_same P pr stop oot s
      have hne : s.k ≠ pr.maxIter := by
        have hb' := hb
        unfold headStep statusOf at hb'
        simp only [] at hb'
        intro he
        unfold statusChain at hb'
        simp only [he] at hb'
        split_ifs at hb' <;> simp_all
      have hspec := iterBody_spec co P dir pr stop (headStep P pr stop oot s).1 (headStep P pr stop oot s).2.1
      have hk' : (iterBody co P dir pr stop (headStep P pr stop oot s).1 (headStep P pr stop oot s).2.1).k + f
          = pr.maxIter + 1 := by rw [hspec.2.2.1, hh.2.2.1]; omega
      obtain ⟨s', h1, h2, h3, h4, h5⟩ := ih _ hk' (by omega) hspec.1
      refine ⟨s', h1, ?_, h3, h4, h5⟩
      rw [hspec.2.2.1, hh.2.2.1] at h2; omega
    · refine ⟨s, by omega, Nat.le_refl _, hg, hb, ?_⟩
      simp [hb]

/-! ### Reported iterates, acceptance test, tick accounting -/

theorem headStep_cbs (P : Problem α) (pr : Params α) (stop : Nat → Bool) (oot : Bool) (s : St α D) :
    (headStep P pr stop oot s).1.cbs = s.cbs ∧ (headStep P pr stop oot s).1.accept = s.accept ∧
    (headStep P pr stop oot s).1.q = s.q ∧ (headStep P pr stop oot s).1.rho = s.rho := by
  unfold headStep; exact ⟨rfl, rfl, rfl, rfl⟩

/-- The status the head hands on is the generated chain evaluated at this head's `k`, `ε` and the
    stop flag polled at this head's tick (`no_progress` is the constant 0 in pantr.tpp). -/
theorem headStep_status (P : Problem α) (pr : Params α) (stop : Nat → Bool) (oot : Bool) (s : St α D) :
    (headStep P pr stop oot s).2.2 =
      statusChain pr.tolerance pr.maxIter pr.maxNoProgress (headStep P pr stop oot s).1.k
        (headStep P pr stop oot s).2.1 0 oot (stop (headStep P pr stop oot s).1.tick) := by
  unfold headStep statusOf; rfl

/-- The `ε` of a head is the generated criterion of the *current* iterate, with `∇ψ(x̂)` freshly
    evaluated at `(x̂, ŷ)` whenever the criterion reads it. -/
theorem headStep_eps (P : Problem α) (pr : Params α) (stop : Nat → Bool) (oot : Bool) (s : St α D) :
    (headStep P pr stop oot s).2.1 = epsOf P pr s.curr (headStep P pr stop oot s).1.gradPsiHat ∧
    (requiresGradHat pr.stopCrit = true →
      (headStep P pr stop oot s).1.gradPsiHat = P.gradL s.curr.xhat s.curr.yhat) := by
  unfold headStep
  simp only []
  refine ⟨by triv, fun h => ?_⟩
  simp [h]

theorem iterBody_cbs (co : Consts α) (P : Problem α) (dir : Direction D α) (pr : Params α)
    (stop : Nat → Bool)
    (s : St α D) (eps : α) :
    ∃ cb : Callback α, (iterBody co P dir pr stop s eps).cbs = cb :: s.cbs ∧ cb.it = s.curr ∧
      cb.k = s.k ∧ cb.status = .Busy ∧ cb.eps = eps := by
  unfold iterBody
  simp only []
  exact ⟨_, rfl, (trStage_spec co P dir pr stop s).1, rfl, rfl, rfl⟩

/-- Every iterate handed to the progress callback carries a consistent prox step and ŷ — for every
    stop schedule. -/
theorem mainLoop_callbacks_good (co : Consts α) (P : Problem α) (dir : Direction D α) (pr : Params α)
    (stop : Nat → Bool) (oot : Bool) (x0 y Sig errz0 : Vec α) (fuel : Nat) (s : St α D)
    (h : Good P s.curr) (hc : ∀ cb ∈ s.cbs, Good P cb.it)
    (hr : (mainLoop co P dir pr stop oot x0 y Sig errz0 fuel s).fuelOut = false) :
    ∀ cb ∈ (mainLoop co P dir pr stop oot x0 y Sig errz0 fuel s).callbacks, Good P cb.it := by
  induction fuel generalizing s with
  | zero => simp [mainLoop] at hr
  | succ f ih =>
    unfold mainLoop at hr ⊢
    simp only [] at hr ⊢
    have hh := headStep_same P pr stop oot s
    have hcb := headStep_cbs P pr stop oot s
    split_ifs at hr ⊢ with hb
    · intro cb hmem
      unfold exitBlock at hmem
      simp only [List.mem_reverse, List.mem_cons] at hmem
      rcases hmem with rfl | hmem
      · simp only [hh.1]; exact h
      · rw [hcb.1] at hmem; exact hc cb hmem
    · have hspec := iterBody_spec co P dir pr stop (headStep P pr stop oot s).1 (headStep P pr stop oot s).2.1
      obtain ⟨cb0, hcbs, hit, -, -, -⟩ :=
        iterBody_cbs co P dir pr stop (headStep P pr stop oot s).1 (headStep P pr stop oot s).2.1
      refine ih _ hspec.1 ?_ hr
      intro cb hmem
      rw [hcbs, List.mem_cons] at hmem
      rcases hmem with rfl | hmem
      · rw [hit, hh.1]; exact h
      · rw [hcb.1] at hmem; exact hc cb hmem

/-- A `Busy` head saw no stop request. -/
theorem headStep_busy_no_stop (P : Problem α) (pr : Params α) (stop : Nat → Bool) (oot : Bool)
    (s : St α D) (hb : (headStep P pr stop oot s).2.2 = .Busy) :
    stop (headStep P pr stop oot s).1.tick = false := by
  cases hst : stop (headStep P pr stop oot s).1.tick
  · rfl
  · exfalso
    rw [headStep_status, hst] at hb
    unfold statusChain at hb
    simp only [] at hb
    split_ifs at hb

/-- **Every iterate handed to the progress callback** (Busy callbacks and the final one) carries a
    consistent prox step and ŷ, and satisfies the quadratic upper bound unless `L ≥ L_max` — with one
    exception since `backtrack_qub` polls the stop flag (C19): the iterate of the *final* callback,
    when a stop request was visible at the final loop-head check (tick `ticks − 1`, the exit block
    adds the callback) — that request may have cut the last step-size loop short.  The flag is
    never lowered (`StopMono`). -/
theorem mainLoop_callbacks (co : Consts α) (P : Problem α) (dir : Direction D α) (pr : Params α)
    (stop : Nat → Bool) (hm : StopMono stop) (oot : Bool) (x0 y Sig errz0 : Vec α) (fuel : Nat)
    (s : St α D)
    (h : Good P s.curr) (hq : s.fuelOut = false → Quiet stop s.tick → QubOK pr s.curr)
    (hc : ∀ cb ∈ s.cbs, Good P cb.it ∧ QubOK pr cb.it)
    (hr : (mainLoop co P dir pr stop oot x0 y Sig errz0 fuel s).fuelOut = false) :
    ∀ cb ∈ (mainLoop co P dir pr stop oot x0 y Sig errz0 fuel s).callbacks,
      Good P cb.it ∧ (QubOK pr cb.it ∨ (cb.status ≠ .Busy ∧
        stop ((mainLoop co P dir pr stop oot x0 y Sig errz0 fuel s).ticks - 1) = true)) := by
  have hsf : s.fuelOut = false := by
    cases hf : s.fuelOut
    · rfl
    · rw [mainLoop_fuelOut_mono co P dir pr stop oot x0 y Sig errz0 fuel s hf] at hr
      exact absurd hr (by decide)
  induction fuel generalizing s with
  | zero => simp [mainLoop] at hr
  | succ f ih =>
    unfold mainLoop at hr ⊢
    simp only [] at hr ⊢
    have hh := headStep_same P pr stop oot s
    have hcb := headStep_cbs P pr stop oot s
    split_ifs at hr ⊢ with hb
    · intro cb hmem
      have htk := (exitBlock_fields co pr (headStep P pr stop oot s).1 (headStep P pr stop oot s).2.1
        (headStep P pr stop oot s).2.2 x0 y Sig errz0).2.2.2.2.2.1
      rw [htk, Nat.add_sub_cancel]
      unfold exitBlock at hmem
      simp only [List.mem_reverse, List.mem_cons] at hmem
      rcases hmem with rfl | hmem
      · simp only [hh.1]
        refine ⟨h, ?_⟩
        cases hst : stop (headStep P pr stop oot s).1.tick
        · exact .inl (hq hsf ((quiet_of_mono hm hst).mono hh.2.2.2.1))
        · exact .inr ⟨by simpa using hb, rfl⟩
      · rw [hcb.1] at hmem; exact ⟨(hc cb hmem).1, .inl (hc cb hmem).2⟩
    · have hbusy : (headStep P pr stop oot s).2.2 = .Busy := by simpa using hb
      have hns := headStep_busy_no_stop P pr stop oot s hbusy
      have hspec := iterBody_spec co P dir pr stop (headStep P pr stop oot s).1 (headStep P pr stop oot s).2.1
      obtain ⟨cb0, hcbs, hit, -, -, -⟩ :=
        iterBody_cbs co P dir pr stop (headStep P pr stop oot s).1 (headStep P pr stop oot s).2.1
      have hf2 : (iterBody co P dir pr stop (headStep P pr stop oot s).1 (headStep P pr stop oot s).2.1).fuelOut
          = false := by
        cases hf : (iterBody co P dir pr stop (headStep P pr stop oot s).1 (headStep P pr stop oot s).2.1).fuelOut
        · rfl
        · rw [mainLoop_fuelOut_mono co P dir pr stop oot x0 y Sig errz0 f _ hf] at hr
          exact absurd hr (by decide)
      refine ih _ hspec.1 hspec.2.1 ?_ hr hf2
      intro cb hmem
      rw [hcbs, List.mem_cons] at hmem
      rcases hmem with rfl | hmem
      · rw [hit, hh.1]; exact ⟨h, hq hsf ((quiet_of_mono hm hns).mono hh.2.2.2.1)⟩
      · rw [hcb.1] at hmem; exact hc cb hmem

/-- An accepted candidate passed the generated ratio test: the model value handed to the ratio is
    negative and `ρ ≥ ratio_threshold_acceptable`, with `ρ` the generated `pantr_candidateRatio` of
    `prox` (the forward-backward point `x̂ₖ`) and the candidate as they are at that moment. -/
theorem trStage_accept_ratio (co : Consts α) (P : Problem α) (dir : Direction D α) (pr : Params α)
    (stop : Nat → Bool)
    (s : St α D) (ha : (trStage co P dir pr stop s).accept = true) :
    ∃ qModel : α, qModel < 0 ∧
      (trStage co P dir pr stop s).rho
        = candidateRatio pr (trStage co P dir pr stop s).prox (trStage co P dir pr stop s).cand qModel ∧
      (trStage co P dir pr stop s).rho ≥ pr.ratioThresholdAcceptable ∧
      (trStage co P dir pr stop s).Delta
        = updatedRadius pr (trStage co P dir pr stop s).q (trStage co P dir pr stop s).rho s.Delta := by
  unfold trStage at ha ⊢
  simp only [] at ha ⊢
  by_cases h1 : ((dirInit dir s (fbsStep P pr s).1 (fbsStep P pr s).2.2).2.1 && !pr.disableAcceleration) = true
  · simp only [h1, if_true] at ha ⊢
    unfold trAttempt at ha ⊢
    simp only [] at ha ⊢
    by_cases h2 : (trustRegionStep co dir (dirInit dir s (fbsStep P pr s).1 (fbsStep P pr s).2.2).1
        (dirInit dir s (fbsStep P pr s).1 (fbsStep P pr s).2.2).2.2 (fbsStep P pr s).1 s.Delta s.q).2.2.2.1 < 0
    · simp only [h2, if_true] at ha ⊢
      exact ⟨_, h2, by triv, by simpa using ha, by triv⟩
    · simp only [h2, if_false] at ha
      exact absurd ha (by simp)
  · simp only [h1, if_false] at ha
    exact absurd ha (by simp)

/-- The trust radius after `trStage` is either unchanged or the generated update floored at
    `min_radius` by `std::fmax`. -/
theorem trStage_Delta (co : Consts α) (P : Problem α) (dir : Direction D α) (pr : Params α)
    (stop : Nat → Bool)
    (s : St α D) :
    (trStage co P dir pr stop s).Delta = s.Delta ∨
    ∃ q rho, (trStage co P dir pr stop s).Delta = updatedRadius pr q rho s.Delta := by
  unfold trStage
  simp only []
  split_ifs
  · unfold trAttempt
    simp only []
    split_ifs
    · exact .inr ⟨_, _, by triv⟩
    · exact .inl (by triv)
  · exact .inl (by triv)

theorem iterBody_Delta (co : Consts α) (P : Problem α) (dir : Direction D α) (pr : Params α)
    (stop : Nat → Bool)
    (s : St α D) (eps : α) :
    (iterBody co P dir pr stop s eps).Delta = (trStage co P dir pr stop s).Delta ∧
    (iterBody co P dir pr stop s eps).accept = (trStage co P dir pr stop s).accept ∧
    (iterBody co P dir pr stop s eps).q = (trStage co P dir pr stop s).q := by
  unfold iterBody; exact ⟨rfl, rfl, rfl⟩

/-- **Work of one iteration**, in events (problem evaluations by the solver, direction calls, the
    callback): at least 4, at most `15 + 2·(step-size backtracks of this iteration)`. -/
theorem iterBody_tick (co : Consts α) (P : Problem α) (dir : Direction D α) (pr : Params α)
    (stop : Nat → Bool)
    (s : St α D) (eps : α) :
    s.tick + 4 ≤ (iterBody co P dir pr stop s eps).tick ∧
    (iterBody co P dir pr stop s eps).tick + 2 * s.stats.stepsizeBacktracks
      ≤ s.tick + 15 + 2 * (iterBody co P dir pr stop s eps).stats.stepsizeBacktracks := by
  have h1 := trStage_tick co P dir pr stop s
  have h2 := acceptStage_tick P dir pr stop (trStage co P dir pr stop s) ((trStage co P dir pr stop s).tick + 1)
  have h3 := rejectStage_tick P dir pr stop (trStage co P dir pr stop s) ((trStage co P dir pr stop s).tick + 1)
  unfold iterBody
  simp only []
  split_ifs <;> omega

end Alpaqa.Pantr
