/-
  C04 helper lemmas: projection onto an interval with optional (infinite) sides, the
  multiplier-estimate kernel `ŷ = σ(ζ − Πζ)`, and the error-form lemmas reused by C01.
-/
import Alpaqa.Proofs.C04Vec

namespace Alpaqa.C04
open Alpaqa
set_option linter.unusedSectionVars false

variable {α : Type} [Field α] [LinearOrder α] [IsStrictOrderedRing α]

/-- `z ∈ [l, u]` (a `none` side is infinite). -/
def InBnd (l u : Bnd α) (z : α) : Prop := (∀ a, l = some a → a ≤ z) ∧ (∀ b, u = some b → z ≤ b)

/-- the interval is non-empty: finite lower bound ≤ finite upper bound (equal bounds allowed). -/
def BndOK (l u : Bnd α) : Prop := ∀ a b, l = some a → u = some b → a ≤ b

/-- `ŷ_i = σ(ζ − Π_[l,u] ζ)`, `ζ = g + y/σ`: one component of the multiplier estimate. -/
def yhat1 (σ : α) (l u : Bnd α) (g y : α) : α := σ * pd1 l u (g + y / σ)

theorem proj1_none_none (z : α) : proj1 (none : Bnd α) none z = z := rfl
theorem proj1_some_none (a z : α) : proj1 (some a) none z = max z a := by
  simp [proj1, maxLb, minUb]
theorem proj1_none_some (b z : α) : proj1 none (some b) z = min z b := by
  simp [proj1, maxLb, minUb]
theorem proj1_some_some (a b z : α) : proj1 (some a) (some b) z = min (max z a) b := by
  simp [proj1, maxLb, minUb]

/-- finite bounds: the model's `pd1` is the generated `BoxConstrProblem::eval_proj_diff_g` kernel
    (`projecting_difference` ∘ `project` of box.hpp). -/
theorem pd1_eq_generated (a b z : α) :
    pd1 (some a) (some b) z = Gen.C04.boxEvalProjDiffG z a b := by
  simp [pd1, proj1, maxLb, minUb, Gen.C04.boxEvalProjDiffG, Gen.C04.projectingDifference,
    Gen.C04.projectBox]

theorem proj1_in (l u : Bnd α) (h : BndOK l u) (z : α) : InBnd l u (proj1 l u z) := by
  rcases l with _ | a <;> rcases u with _ | b
  · exact ⟨(fun _ h => nomatch h), (fun _ h => nomatch h)⟩
  · rw [proj1_none_some]
    refine ⟨(fun _ h => nomatch h), ?_⟩
    intro b' h'; cases h'; exact min_le_right _ _
  · rw [proj1_some_none]
    refine ⟨?_, (fun _ h => nomatch h)⟩
    intro a' h'; cases h'; exact le_max_right _ _
  · rw [proj1_some_some]
    have hab : a ≤ b := h a b rfl rfl
    refine ⟨?_, ?_⟩
    · intro a' h'; cases h'; exact le_min (le_max_right _ _) hab
    · intro b' h'; cases h'; exact min_le_right _ _

theorem proj1_fix (l u : Bnd α) (z : α) (h : InBnd l u z) : proj1 l u z = z := by
  rcases l with _ | a <;> rcases u with _ | b
  · rfl
  · rw [proj1_none_some]; exact min_eq_left (h.2 b rfl)
  · rw [proj1_some_none]; exact max_eq_left (h.1 a rfl)
  · rw [proj1_some_some, max_eq_left (h.1 a rfl)]; exact min_eq_left (h.2 b rfl)

/-- `Πz` is the closest point of the interval: `(z − Πz)² ≤ (z − w)²` for every `w ∈ [l,u]`. -/
theorem proj1_closest (l u : Bnd α) (h : BndOK l u) (z w : α) (hw : InBnd l u w) :
    (pd1 l u z) ^ 2 ≤ (z - w) ^ 2 := by
  unfold pd1
  rcases l with _ | a <;> rcases u with _ | b
  · rw [proj1_none_none]; nlinarith [sq_nonneg (z - w)]
  · rw [proj1_none_some]
    have hwb := hw.2 b rfl
    rcases le_total z b with h1 | h1
    · rw [min_eq_left h1]; nlinarith [sq_nonneg (z - w)]
    · rw [min_eq_right h1]; nlinarith
  · rw [proj1_some_none]
    have hwa := hw.1 a rfl
    rcases le_total a z with h1 | h1
    · rw [max_eq_left h1]; nlinarith [sq_nonneg (z - w)]
    · rw [max_eq_right h1]; nlinarith
  · rw [proj1_some_some]
    have hwa := hw.1 a rfl
    have hwb := hw.2 b rfl
    rcases le_total a z with h1 | h1
    · rw [max_eq_left h1]
      rcases le_total z b with h2 | h2
      · rw [min_eq_left h2]; nlinarith [sq_nonneg (z - w)]
      · rw [min_eq_right h2]; nlinarith
    · rw [max_eq_right h1, min_eq_left (h a b rfl rfl)]; nlinarith

/-! ### error-form lemmas (C01 reuses these) -/

/-- `(ŷ − y)/σ = g − Π_D ζ`: the ALM constraint-violation vector `e` is `g(x)` minus the
    projected shifted constraint value. -/
theorem yhat1_errz (σ : α) (l u : Bnd α) (g y : α) (hσ : σ ≠ 0) :
    (yhat1 σ l u g y - y) / σ = g - proj1 l u (g + y / σ) := by
  unfold yhat1 pd1
  field_simp
  ring

/-- both sides infinite ⇒ `ŷ = 0`. -/
theorem yhat1_free (σ g y : α) : yhat1 σ none none g y = 0 := by
  unfold yhat1 pd1; rw [proj1_none_none]; ring

/-- `ŷ > 0` ⇒ the upper bound is finite and active: `Πζ = ub`, hence `(ŷ−y)/σ = g − ub`. -/
theorem yhat1_pos (σ : α) (l u : Bnd α) (g y : α) (hσ : 0 < σ) (h : 0 < yhat1 σ l u g y) :
    ∃ b, u = some b ∧ proj1 l u (g + y / σ) = b ∧ (yhat1 σ l u g y - y) / σ = g - b := by
  have hd : 0 < pd1 l u (g + y / σ) := by
    unfold yhat1 at h
    by_contra hn
    have := mul_nonpos_of_nonneg_of_nonpos hσ.le (not_lt.mp hn)
    linarith
  unfold pd1 at hd
  have key : ∃ b, u = some b ∧ proj1 l u (g + y / σ) = b := by
    rcases u with _ | b
    · exfalso
      rcases l with _ | a
      · rw [proj1_none_none] at hd; linarith
      · rw [proj1_some_none] at hd; have := le_max_left (g + y / σ) a; linarith
    · refine ⟨b, rfl, ?_⟩
      rcases l with _ | a
      · rw [proj1_none_some] at hd ⊢
        rcases min_choice (g + y / σ) b with h1 | h1
        · rw [h1] at hd; linarith
        · exact h1
      · rw [proj1_some_some] at hd ⊢
        rcases min_choice (max (g + y / σ) a) b with h1 | h1
        · rw [h1] at hd; have := le_max_left (g + y / σ) a; linarith
        · exact h1
  obtain ⟨b, hb, hp⟩ := key
  exact ⟨b, hb, hp, by rw [yhat1_errz σ l u g y hσ.ne', hp]⟩

/-- `ŷ < 0` ⇒ the lower bound is finite and active: `Πζ = lb`, hence `(ŷ−y)/σ = g − lb`. -/
theorem yhat1_neg (σ : α) (l u : Bnd α) (g y : α) (hσ : 0 < σ) (hok : BndOK l u)
    (h : yhat1 σ l u g y < 0) :
    ∃ a, l = some a ∧ proj1 l u (g + y / σ) = a ∧ (yhat1 σ l u g y - y) / σ = g - a := by
  have hd : pd1 l u (g + y / σ) < 0 := by
    unfold yhat1 at h
    by_contra hn
    have := mul_nonneg hσ.le (not_lt.mp hn)
    linarith
  unfold pd1 at hd
  have key : ∃ a, l = some a ∧ proj1 l u (g + y / σ) = a := by
    rcases l with _ | a
    · exfalso
      rcases u with _ | b
      · rw [proj1_none_none] at hd; linarith
      · rw [proj1_none_some] at hd; have := min_le_left (g + y / σ) b; linarith
    · refine ⟨a, rfl, ?_⟩
      rcases u with _ | b
      · rw [proj1_some_none] at hd ⊢
        rcases max_choice (g + y / σ) a with h1 | h1
        · rw [h1] at hd; linarith
        · exact h1
      · rw [proj1_some_some] at hd ⊢
        have hab : a ≤ b := hok a b rfl rfl
        rcases max_choice (g + y / σ) a with h1 | h1
        · rw [h1] at hd; have := min_le_left (g + y / σ) b; linarith
        · rw [h1]; exact min_eq_left hab
  obtain ⟨a, ha, hp⟩ := key
  exact ⟨a, ha, hp, by rw [yhat1_errz σ l u g y hσ.ne', hp]⟩

/-- `|e| ≤ δ` ⇒ `g` is within `δ` of the interval. -/
theorem errz_dist (σ : α) (l u : Bnd α) (g y δ : α) (hσ : σ ≠ 0) (hok : BndOK l u)
    (h : |(yhat1 σ l u g y - y) / σ| ≤ δ) : ∃ w, InBnd l u w ∧ |g - w| ≤ δ :=
  ⟨proj1 l u (g + y / σ), proj1_in l u hok _, by rwa [yhat1_errz σ l u g y hσ] at h⟩

/-! ### the box as a vector operator -/

theorem length_boxProjDiff (D : BoxD α) (z : Vec α) :
    (boxProjDiff D z).length = min z.length D.length := by simp [boxProjDiff]

theorem vget_boxProjDiff (D : BoxD α) (z : Vec α) (i : Nat) (hz : i < z.length)
    (hD : i < D.length) :
    vget (boxProjDiff D z) i = pd1 (lbAt D i) (ubAt D i) (vget z i) := by
  unfold boxProjDiff
  rw [vget_lt _ _ (by simp; omega), vget_lt z i hz]
  simp only [List.getElem_zipWith]
  unfold lbAt ubAt
  simp [List.getD, hD]

end Alpaqa.C04
