/-
  ZeroFPR loop model: the current iterate's `∇ψ(x)` member *is* the gradient oracle at its own `x`
  (`GradAt`), through the accelerated step (`eval_ψ_grad_ψ`), the safeguarded step (which copies
  `∇ψ(x̂ₖ)` from `*prox`, evaluated by `eval_grad_L(x̂ₖ, ŷ(x̂ₖ))`), the step-size backtracking and the
  interrupted-line-search `continue`.  Needs the problem's gradient oracles to agree (`GradOracles`:
  the three entry points `eval_ψ_grad_ψ`, `eval_grad_ψ`, `eval_grad_L(·, ŷ(·))` return the same
  gradient) — they are independent functions in the model.  Together with `Good` (prox / ŷ
  consistency) and `γ > 0` this is `DocInv`, the invariant behind
  `Props/C06_Zerofpr.zerofpr_eps_is_documented`.
-/
import Alpaqa.Proofs.ZerofprChain

namespace Alpaqa.Zerofpr
open Alpaqa Alpaqa.Gen
set_option linter.unusedSectionVars false
set_option linter.unusedVariables false

variable {α D : Type} [Field α] [LinearOrder α] [IsStrictOrderedRing α] [RealLike α]

/-- The problem's gradient entry points agree: `eval_ψ_grad_ψ(x)` returns `∇ψ(x)`, and so does
    `eval_grad_L(x, ŷ(x))` with the `ŷ(x)` that `eval_ψ(x)` returns. -/
structure GradOracles (P : Problem α) : Prop where
  pgp : ∀ x, (P.psiGradPsi x).2.1 = P.gradPsi x
  gradL : ∀ x, P.gradL x (P.psi x).2 = P.gradPsi x

/-- The iterate's `∇ψ(x)` member is the gradient oracle at its own `x`. -/
def GradAt (P : Problem α) (i : Iterate α) : Prop := i.gradPsi = P.gradPsi i.x

theorem gradAt_evalStep (P : Problem α) (i : Iterate α) (h : GradAt P i) :
    GradAt P (evalCostInProx P (evalProxGradStep P i)) := h

theorem lsRecompute_gradAt (P : Problem α) (hO : GradOracles P) (c : Iterate α) (px : ProxIterate α)
    (q : Vec α) (hy : YhatCons P c) (hpx : px.gradPsi = P.gradL c.xhat c.yhat) (s : LS α D)
    (h : s.tau = s.tauPrev → GradAt P s.next) : GradAt P (lsRecompute P c px q s).next := by
  unfold lsRecompute
  split_ifs with h1 h2
  · unfold takeAcceleratedStep evalPsiGradPsi GradAt
    exact hO.pgp _
  · unfold takeSafeStep GradAt
    simp only []
    rw [hpx, hy]; exact hO.gradL _
  · exact h (by simpa using h1)

/-- After one pass of the line-search body the candidate's `∇ψ(x)` is the gradient at its `x`. -/
theorem lsPass_gradAt (P : Problem α) (hO : GradOracles P) (dir : Direction D α) (pr : Params α)
    (c : Iterate α) (px : ProxIterate α) (q : Vec α) (tauInit : α) (hy : YhatCons P c)
    (hpx : px.gradPsi = P.gradL c.xhat c.yhat) (s : LS α D)
    (h : s.tau = s.tauPrev → GradAt P s.next) :
    GradAt P (lsPass P dir pr c px q tauInit s).st.next := by
  have h1 := lsRecompute_gradAt P hO c px q hy hpx s h
  obtain ⟨hx, _, hg, _, _, _⟩ := lsPass_shape P dir pr c px q tauInit s
  unfold GradAt at h1 ⊢
  rw [hx, hg]; exact h1

theorem lineSearch_gradAt (P : Problem α) (hO : GradOracles P) (dir : Direction D α) (pr : Params α)
    (stop : Nat → Bool) (c : Iterate α) (px : ProxIterate α) (q : Vec α) (tauInit : α)
    (hy : YhatCons P c) (hpx : px.gradPsi = P.gradL c.xhat c.yhat) (fuel : Nat) (s : LS α D)
    (h : s.tau = s.tauPrev → GradAt P s.next)
    (hr : (lineSearch P dir pr stop c px q tauInit fuel s).fuelOut = false)
    (hs : stop (lineSearch P dir pr stop c px q tauInit fuel s).tick = false) :
    GradAt P (lineSearch P dir pr stop c px q tauInit fuel s).next := by
  induction fuel generalizing s with
  | zero => simp [lineSearch] at hr
  | succ f ih =>
    unfold lineSearch at hr hs ⊢
    by_cases hst : stop s.tick
    · simp [hst] at hs
    · simp only [hst, Bool.false_eq_true, if_false] at hr hs ⊢
      have hp := lsPass_gradAt P hO dir pr c px q tauInit hy hpx s h
      cases hpass : lsPass P dir pr c px q tauInit s with
      | done s' => rw [hpass] at hp; exact hp
      | again s' =>
        rw [hpass] at hp
        simp only [hpass] at hr hs ⊢
        exact ih s' (fun _ => hp) hr hs

/-- A completed or interrupted pass of the loop body (from the state after the loop head, whose
    `*prox` holds `∇ψ(x̂ₖ) = eval_grad_L(x̂ₖ, ŷₖ)`) keeps `GradAt` of the current iterate. -/
theorem iterBody_gradAt (P : Problem α) (hO : GradOracles P) (dir : Direction D α) (pr : Params α)
    (stop : Nat → Bool) (s : St α D) (eps : α) (hg : GradAt P s.curr) (hy : YhatCons P s.curr)
    (hpx : s.prox.gradPsi = P.gradL s.curr.xhat s.curr.yhat)
    (hf : (lsOf P dir pr stop s).fuelOut = false) :
    GradAt P (iterBody P dir pr stop s eps).curr := by
  by_cases hst : stop (lsOf P dir pr stop s).tick = true
  · rw [(iterBody_interrupted P dir pr stop s eps hst).1]; exact hg
  · have hst' : stop (lsOf P dir pr stop s).tick = false := by simpa using hst
    rw [(iterBody_completed P dir pr stop s eps hst').1]
    unfold lsOf at hf hst' ⊢
    refine lineSearch_gradAt P hO dir pr stop _ _ _ _ hy hpx _ _ (fun he => ?_) hf hst'
    exfalso
    have he' : (directionStage dir s).2.2.2.1 = (-1 : α) := he
    rcases directionStage_tau dir s with h0 | h0 <;> rw [h0] at he' <;> norm_num at he'

theorem initQub_gradAt (P : Problem α) (pr : Params α) (stop : Nat → Bool) (f : Nat) (c : Iterate α)
    (t b : Nat) (h : GradAt P c) : GradAt P (initQub P pr stop f c t b).1 := by
  induction f generalizing c t b with
  | zero => simpa [initQub] using h
  | succ f ih =>
    unfold initQub
    split_ifs
    · exact h
    · exact ih _ _ _ h
    · exact h

theorem initState_gradAt (P : Problem α) (hO : GradOracles P) (d0 : D) (pr : Params α)
    (stop : Nat → Bool) (x0 gV : Vec α) (gS : α) (s : St α D)
    (hi : initState P d0 pr stop x0 gV gS = .inr s) : GradAt P s.curr := by
  have h0 : GradAt P (initLipschitz P pr x0 gV gS).1 := by
    unfold initLipschitz GradAt
    simp only []
    split_ifs
    · unfold initialLipschitz; simp only []; exact hO.pgp _
    · unfold evalPsiGradPsi; simp only []; exact hO.pgp _
  unfold initState at hi
  simp only [] at hi
  split_ifs at hi
  injection hi with hi; subst hi
  exact initQub_gradAt P pr stop _ _ _ _ h0

/-- Invariant behind `eps_is_documented`: the current iterate carries a consistent prox step and ŷ,
    its `∇ψ(x)` is the gradient at its `x`, and `γ > 0`. -/
structure DocInv (P : Problem α) (s : St α D) : Prop where
  good : Good P s.curr
  grad : GradAt P s.curr
  gpos : 0 < s.curr.gamma

theorem docInv_step (P : Problem α) (hO : GradOracles P) (dir : Direction D α) (pr : Params α)
    (stop : Nat → Bool) (oot : Bool) (s : St α D) (h : DocInv P s)
    (hf : (iterBody P dir pr stop (headStep P pr stop oot s).1 (headStep P pr stop oot s).2.1).fuelOut
      = false) :
    DocInv P (iterBody P dir pr stop (headStep P pr stop oot s).1 (headStep P pr stop oot s).2.1) := by
  have hs := headStep_same P pr stop oot s
  have hp := (headStep_spec P pr stop oot s).1
  have hlsf : (lsOf P dir pr stop (headStep P pr stop oot s).1).fuelOut = false := by
    rw [iterBody_fuelOut] at hf
    cases hx : (lsOf P dir pr stop (headStep P pr stop oot s).1).fuelOut
    · rfl
    · rw [hx] at hf; simp at hf
  refine ⟨iterBody_good P dir pr stop _ _ (by rw [hs.1]; exact h.good) hf,
    iterBody_gradAt P hO dir pr stop _ _ (by rw [hs.1]; exact h.grad) (by rw [hs.1]; exact h.good.2)
      (by rw [hs.1]; exact hp) hlsf,
    (iterBody_GL P dir pr stop _ _ (by rw [hs.1]; exact h.gpos)).1⟩

end Alpaqa.Zerofpr
