/-
  PANOC-OCP loop model: where a solve can end.  `mainLoop_spec` — every result of the main loop that is
  not an exception is the exit block evaluated at a loop head whose current iterate is `Good`, whose
  iteration counter is at most `max_iter`, with ε the generated criterion of that iterate and the status
  the generated chain at that head.  Everything in `Props/C06_Ocp`, `Props/C13` is read off this.
-/
import Alpaqa.Proofs.OcpInv
import Alpaqa.Props.C06

namespace Alpaqa.Ocp
open Alpaqa Alpaqa.Gen
set_option linter.unusedSectionVars false
set_option linter.unusedVariables false

variable {α D : Type} [Add α] [Sub α] [Mul α] [Div α] [Neg α] [LT α] [LE α] [DecidableLT α]
  [DecidableLE α] [BEq α] [RealLike α] [NatCast α] [OfScientific α]
  [OfNat α 0] [OfNat α 1] [OfNat α 2] [OfNat α 100]

theorem headStep_snd (P : Prob α) (pr : Params α) (stop : Nat → Bool) (oot : Bool) (s : St α D) :
    (headStep P pr stop oot s).2 =
      (epsOf P pr s.curr).map fun eps => (eps, statusOf pr s.k eps s.noProgress oot (stop s.tick)) := by
  unfold headStep
  simp only []
  cases epsOf P pr s.curr <;> rfl

theorem statusOf_busy_k (pr : Params α) (k : Nat) (eps : α) (np : Nat) (oot intr : Bool)
    (h : statusOf pr k eps np oot intr = .Busy) : k ≠ pr.maxIter := by
  unfold statusOf at h
  rw [Props.C06.chains_agree] at h
  exact (Props.C06.busy_only_if _ _ _ _ _ _ _ _ h).2.2.1

theorem statusOf_stop_not_busy (pr : Params α) (k : Nat) (eps : α) (np : Nat) (oot : Bool) :
    statusOf pr k eps np oot true ≠ .Busy := by
  unfold statusOf
  rw [Props.C06.chains_agree]
  exact Props.C06.stop_requested_not_busy _ _ _ _ _ _ _

/-- `k` after one pass of the loop body: unchanged (exception / interrupted line search) or `k + 1`. -/
theorem iterBody_k (O : Oracles α) (dir : Dir D α) (P : Prob α) (pr : Params α) (stop : Nat → Bool)
    (s : St α D) (eps : α) :
    (iterBody O dir P pr stop s eps).1.k = s.k ∨ (iterBody O dir P pr stop s eps).1.k = s.k + 1 := by
  unfold iterBody
  simp only []
  split_ifs
  · left; rfl
  · left; rfl
  · right; exact (acceptStep_fields dir pr s _ _ _ eps).2.2.1

/-- A result of the loop that is the exit block at a consistent loop head. -/
def ExitAtHead (O : Oracles α) (P : Prob α) (pr : Params α) (stop : Nat → Bool) (oot : Bool)
    (u0 y mu errz0 : Vec α) (r : Result α D) : Prop :=
  ∃ (sh : St α D) (eps : α) (status : SolverStatus),
    Good O P sh.curr ∧ sh.k ≤ pr.maxIter ∧ epsOf P pr sh.curr = some eps ∧
    status = statusOf pr sh.k eps sh.noProgress oot (stop sh.tick) ∧ status ≠ .Busy ∧
    r = exitBlock P pr sh eps status u0 y mu errz0

theorem mainLoop_spec (O : Oracles α) (dir : Dir D α) (P : Prob α) (pr : Params α) (stop : Nat → Bool)
    (oot : Bool) (u0 y mu errz0 : Vec α) (fuel : Nat) (s : St α D) (h : Good O P s.curr)
    (hk : s.k ≤ pr.maxIter) (hτ : TauSentinelOK α) (hf : s.fuelOut = false)
    (hr : (mainLoop O dir P pr stop oot u0 y mu errz0 fuel s).fuelOut = false) :
    (mainLoop O dir P pr stop oot u0 y mu errz0 fuel s).exc ≠ .none ∨
    ExitAtHead O P pr stop oot u0 y mu errz0 (mainLoop O dir P pr stop oot u0 y mu errz0 fuel s) := by
  induction fuel generalizing s with
  | zero => simp [mainLoop] at hr
  | succ f ih =>
    unfold mainLoop at hr ⊢
    have hh := headStep_curr P pr stop oot s
    have hsnd := headStep_snd P pr stop oot s
    have hg : Good O P (headStep P pr stop oot s).1.curr := by rw [hh.1]; exact h
    have hfs : (headStep P pr stop oot s).1.fuelOut = false := by rw [hh.2.1]; exact hf
    cases hes : (headStep P pr stop oot s).2 with
    | none => left; simp [excResult]
    | some es =>
      simp only [hes] at hr ⊢
      rw [hes] at hsnd
      cases hep : epsOf P pr s.curr with
      | none => rw [hep] at hsnd; simp at hsnd
      | some e0 =>
        rw [hep] at hsnd
        simp only [Option.map_some, Option.some.injEq] at hsnd
        split_ifs at hr ⊢ with hb hx
        · right
          refine ⟨(headStep P pr stop oot s).1, es.1, es.2, hg, ?_, ?_, ?_, ?_, rfl⟩
          · rw [hh.2.2.1]; exact hk
          · rw [hh.1, hep, hsnd]
          · rw [hh.2.2.1, hh.2.2.2.1, hh.2.2.2.2, hsnd]
          · simpa using hb
        · left
          simpa [excResult] using hx
        · have hf2 : (iterBody O dir P pr stop (headStep P pr stop oot s).1 es.1).1.fuelOut = false := by
            rcases Bool.eq_false_or_eq_true
              (iterBody O dir P pr stop (headStep P pr stop oot s).1 es.1).1.fuelOut with hc' | hc'
            · have := mainLoop_fuelOut_mono O dir P pr stop oot u0 y mu errz0 f _ hc'
              rw [this] at hr; exact absurd hr (by decide)
            · exact hc'
          have hbusy : es.2 = .Busy := by simpa using hb
          have hkne : s.k ≠ pr.maxIter := by
            apply statusOf_busy_k pr s.k e0 s.noProgress oot (stop s.tick)
            rw [← hbusy, hsnd]
          have hk2 : (iterBody O dir P pr stop (headStep P pr stop oot s).1 es.1).1.k ≤ pr.maxIter := by
            rcases iterBody_k O dir P pr stop (headStep P pr stop oot s).1 es.1 with hkk | hkk <;>
              rw [hkk, hh.2.2.1] <;> omega
          exact ih _ (iterBody_good O dir P pr stop _ es.1 hg hτ hfs hf2) hk2 hf2 hr

end Alpaqa.Ocp
