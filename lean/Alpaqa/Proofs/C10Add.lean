/-
  C10 helper lemmas, part 2: `add_column` — the Modified Gram–Schmidt bookkeeping identity
  `q + Σ_{i<K} r(i) Q_i = v` through the first pass and every reorthogonalisation pass (for *any*
  Q, orthonormal or not, and any number of passes), hence `[A v] = Q'R'`; and, for orthonormal Q and
  a lawful square root, orthonormality of the extended Q.
-/
import Alpaqa.Proofs.C10Basic
import Mathlib.Algebra.Order.BigOperators.Ring.Finset
import Mathlib.Algebra.BigOperators.Field

namespace Alpaqa.C10
open Finset Alpaqa Alpaqa.Gen
set_option linter.unusedSectionVars false
set_option linter.unusedSimpArgs false
set_option linter.unusedVariables false

section field
variable {α : Type} [Field α]

/-! ### one pass, pointwise in the row `j` -/

/-- first pass (`r(i) = s`): after `k` steps `q_j + Σ_{i<k} r_i Q_{ji} = v_j`. -/
theorem mgsPass_first (n : ℕ) (Q : ℕ → ℕ → α) (v r0 : ℕ → α) (j : ℕ) :
    ∀ k, (mgsPass n Q false k (v, r0)).1 j +
        ∑ i ∈ range k, (mgsPass n Q false k (v, r0)).2 i * Q j i = v j := by
  intro k
  induction k with
  | zero => simp [mgsPass]
  | succ k ih =>
    simp only [mgsPass, mgsStep]
    rw [Finset.sum_range_succ]
    have e : ∑ i ∈ range k, (if i = k then sumTo n (fun j => Q j k * (mgsPass n Q false k (v, r0)).1 j)
          else (mgsPass n Q false k (v, r0)).2 i) * Q j i =
        ∑ i ∈ range k, (mgsPass n Q false k (v, r0)).2 i * Q j i := by
      apply Finset.sum_congr rfl
      intro i hi
      rw [Finset.mem_range] at hi
      rw [if_neg (by omega)]
    simp only [Bool.false_eq_true, if_false, if_true] at e ⊢
    rw [e]
    linear_combination ih

/-- the first pass leaves `r(i)`, `i ≥ k`, alone -/
theorem mgsPass_r_ge (n : ℕ) (Q : ℕ → ℕ → α) (acc : Bool) (q r : ℕ → α) :
    ∀ k i, k ≤ i → (mgsPass n Q acc k (q, r)).2 i = r i := by
  intro k
  induction k with
  | zero => intro i _; rfl
  | succ k ih =>
    intro i hi
    simp only [mgsPass, mgsStep]
    rw [if_neg (by omega)]
    exact ih i (by omega)

/-- accumulating pass (`r(i) += s`): every step keeps `q_j + Σ_{i<K} r_i Q_{ji}`. -/
theorem mgsPass_acc (n K : ℕ) (Q : ℕ → ℕ → α) (q r : ℕ → α) (j : ℕ) :
    ∀ k, k ≤ K → (mgsPass n Q true k (q, r)).1 j +
        ∑ i ∈ range K, (mgsPass n Q true k (q, r)).2 i * Q j i =
      q j + ∑ i ∈ range K, r i * Q j i := by
  intro k
  induction k with
  | zero => intro _; rfl
  | succ k ih =>
    intro hk
    simp only [mgsPass, mgsStep, if_true]
    rw [sum_range_update K k (by omega)]
    linear_combination ih (by omega)

end field

section ordered
variable {α : Type} [Field α] [LinearOrder α] [IsStrictOrderedRing α] [RealLike α]

/-- bookkeeping invariant on the frozen `(q, r)` -/
def MgsInv (n K : ℕ) (Q : ℕ → ℕ → α) (v : ℕ → α) (q r : Array α) : Prop :=
  ∀ j < n, readV q j + ∑ i ∈ range K, readV r i * Q j i = v j

theorem reorthLoop_inv (n m K : ℕ) (hK : K ≤ m) (Q : ℕ → ℕ → α) (η : α) (v : ℕ → α) :
    ∀ fuel (q r : Array α) (nq nv : α) (cnt : ℕ), MgsInv n K Q v q r →
      MgsInv n K Q v (reorthLoop n m K Q η fuel q r nq nv cnt).1
        (reorthLoop n m K Q η fuel q r nq nv cnt).2.1 := by
  intro fuel
  induction fuel with
  | zero => intro q r nq nv cnt h; simpa [reorthLoop] using h
  | succ f ih =>
    intro q r nq nv cnt h
    unfold reorthLoop
    split_ifs with hc
    · apply ih
      intro j hj
      rw [readV_freezeV_lt _ hj]
      have e : ∑ i ∈ range K, readV (freezeV m (mgsPass n Q true K (readV q, readV r)).2) i * Q j i =
          ∑ i ∈ range K, (mgsPass n Q true K (readV q, readV r)).2 i * Q j i := by
        apply Finset.sum_congr rfl
        intro i hi
        rw [Finset.mem_range] at hi
        rw [readV_freezeV_lt _ (by omega)]
      rw [e, mgsPass_acc n K Q (readV q) (readV r) j K (le_refl _)]
      exact h j hj
    · exact h

/-- what `add_column` has when it normalises: `q + Σ_{i<K} r(i) Q_i = v` on rows `< n`. -/
theorem addCore_inv (fuel : ℕ) (s : LMQR α) (hK : s.qIdx ≤ s.m) (v : ℕ → α) :
    MgsInv s.n s.qIdx s.Q.get v (addCore fuel s v).1 (addCore fuel s v).2.1 := by
  unfold addCore
  apply reorthLoop_inv _ _ _ hK
  intro j hj
  rw [readV_freezeV_lt _ hj]
  have e : ∑ i ∈ range s.qIdx,
      readV (freezeV s.m (mgsPass s.n s.Q.get false s.qIdx (v, fun i => s.R.get i s.rEnd)).2) i *
        s.Q.get j i =
      ∑ i ∈ range s.qIdx, (mgsPass s.n s.Q.get false s.qIdx (v, fun i => s.R.get i s.rEnd)).2 i *
        s.Q.get j i := by
    apply Finset.sum_congr rfl
    intro i hi
    rw [Finset.mem_range] at hi
    rw [readV_freezeV_lt _ (by omega)]
  rw [e]
  exact mgsPass_first s.n s.Q.get v _ j s.qIdx

/-- `sqrt a * sqrt a = a` for `a ≥ 0` — what the theorems use of `std::sqrt`. -/
def SqrtLaw (α : Type) [Mul α] [LE α] [OfNat α 0] [RealLike α] : Prop :=
  ∀ a : α, 0 ≤ a → RealLike.sqrt a * RealLike.sqrt a = a

/-- `sqrt a ≥ 0` for `a ≥ 0` — needed since `add_column` tests `norm_q > 0`. -/
def SqrtNonneg (α : Type) [LE α] [OfNat α 0] [RealLike α] : Prop :=
  ∀ a : α, 0 ≤ a → 0 ≤ RealLike.sqrt a

/-- the loop returns `norm_q = ‖q‖` of the `q` it returns (no orthogonality needed) -/
theorem reorthLoop_norm (n m K : ℕ) (Q : ℕ → ℕ → α) (η : α) :
    ∀ fuel (q r : Array α) (nq nv : α) (cnt : ℕ), nq = normTo n (readV q) →
      (reorthLoop n m K Q η fuel q r nq nv cnt).2.2.1 =
        normTo n (readV (reorthLoop n m K Q η fuel q r nq nv cnt).1) := by
  intro fuel
  induction fuel with
  | zero => intro q r nq nv cnt h2; simpa [reorthLoop] using h2
  | succ f ih =>
    intro q r nq nv cnt h2
    unfold reorthLoop
    split_ifs with hc
    · exact ih _ _ _ _ _ rfl
    · exact h2

theorem addCore_norm (fuel : ℕ) (s : LMQR α) (v : ℕ → α) :
    (addCore fuel s v).2.2.1 = normTo s.n (readV (addCore fuel s v).1) := by
  unfold addCore
  exact reorthLoop_norm _ _ _ _ _ _ _ _ _ _ _ rfl

/-- `norm_q² = Σ q_j²` (lawful `sqrt`) -/
theorem addCore_norm_sq (hs : SqrtLaw α) (fuel : ℕ) (s : LMQR α) (v : ℕ → α) :
    (addCore fuel s v).2.2.1 * (addCore fuel s v).2.2.1 =
      ∑ j ∈ range s.n, readV (addCore fuel s v).1 j * readV (addCore fuel s v).1 j := by
  rw [addCore_norm]; unfold normTo; rw [sumTo_eq_sum]
  apply hs
  apply Finset.sum_nonneg
  intro j _; exact mul_self_nonneg _

theorem addCore_norm_nonneg (hsn : SqrtNonneg α) (fuel : ℕ) (s : LMQR α) (v : ℕ → α) :
    0 ≤ (addCore fuel s v).2.2.1 := by
  rw [addCore_norm]; unfold normTo; rw [sumTo_eq_sum]
  apply hsn
  apply Finset.sum_nonneg
  intro j _; exact mul_self_nonneg _

/-- the `else` branch of the normalisation guard: `norm_q ≤ 0` only if `q = 0` -/
theorem addCore_q_zero (hs : SqrtLaw α) (hsn : SqrtNonneg α) (fuel : ℕ) (s : LMQR α) (v : ℕ → α)
    (h0 : ¬ 0 < (addCore fuel s v).2.2.1) : ∀ j < s.n, readV (addCore fuel s v).1 j = 0 := by
  have hz : (addCore fuel s v).2.2.1 = 0 :=
    le_antisymm (not_lt.mp h0) (addCore_norm_nonneg hsn fuel s v)
  have hsq := addCore_norm_sq hs fuel s v
  rw [hz, mul_zero] at hsq
  intro j hj
  have := (Finset.sum_eq_zero_iff_of_nonneg (fun j _ => mul_self_nonneg _)).mp hsq.symm j
    (Finset.mem_range.mpr hj)
  exact mul_self_eq_zero.mp this

/-! ### the state after `add_column` -/

theorem addColumn_idx (fuel : ℕ) (s : LMQR α) (v : ℕ → α) :
    (s.addColumn fuel v).qIdx = s.qIdx + 1 ∧ (s.addColumn fuel v).rStart = s.rStart ∧
    (s.addColumn fuel v).rEnd = lmqrSucc s.m s.rEnd ∧ (s.addColumn fuel v).n = s.n ∧
    (s.addColumn fuel v).m = s.m := by
  simp [LMQR.addColumn, lmqrAddIdx, lmqrAddEig]

theorem addColumn_Q (fuel : ℕ) (s : LMQR α) (v : ℕ → α) {i j : ℕ} (hi : i < s.n) (hj : j < s.m) :
    (s.addColumn fuel v).Q.get i j =
      if j = s.qIdx then
        (if 0 < (addCore fuel s v).2.2.1 then readV (addCore fuel s v).1 i / (addCore fuel s v).2.2.1 else 0)
      else s.Q.get i j := by
  simp only [LMQR.addColumn, lmqrAddIdx, lmqrAddEig, lmqrAddNormalize, gt_iff_lt, decide_eq_true_eq]
  rw [Mat.get_ofFn_lt _ hi hj]

theorem addColumn_R (fuel : ℕ) (s : LMQR α) (v : ℕ → α) {i j : ℕ} (hi : i < s.m) (hj : j < s.m) :
    (s.addColumn fuel v).R.get i j =
      if j = s.rEnd then (if i = s.qIdx then (addCore fuel s v).2.2.1 else readV (addCore fuel s v).2.1 i)
      else s.R.get i j := by
  simp only [LMQR.addColumn, lmqrAddIdx, lmqrAddEig]
  rw [Mat.get_ofFn_lt _ hi hj]

/-- ring refinement is preserved by `add_column` within capacity -/
theorem addColumn_ring (fuel : ℕ) (s : LMQR α) (h : RingInv s) (hK : s.qIdx < s.m) (v : ℕ → α) :
    RingInv (s.addColumn fuel v) := by
  obtain ⟨e1, e2, e3, e4, e5⟩ := addColumn_idx fuel s v
  refine ⟨by rw [e5]; exact h.mpos, by rw [e1, e5]; omega, by rw [e2, e5]; exact h.start_lt, ?_⟩
  rw [e3, e2, e1, e5, h.end_eq, lmqrSucc_eq (Nat.mod_lt _ h.mpos), mod_succ_step]

/-- `add_column`: `[A v] = Q'R'` as a bookkeeping identity — no orthogonality of `Q` is used, any
    number of reorthogonalisation passes, any `v` (also in the span of the window: then `norm_q = 0`,
    `q = 0`, and the stored zero column with zero pivot still gives `Q'R' = [A v]`). -/
theorem addColumn_represents (hs : SqrtLaw α) (hsn : SqrtNonneg α) (fuel : ℕ) (s : LMQR α)
    (h : RingInv s) (hK : s.qIdx < s.m)
    (v : ℕ → α) (A : ℕ → ℕ → α) (hA : Represents s A) :
    Represents (s.addColumn fuel v) (fun k => if k = s.qIdx then v else A k) := by
  obtain ⟨e1, e2, e3, e4, e5⟩ := addColumn_idx fuel s v
  intro k hk j hj
  rw [e1] at hk
  rw [e4] at hj
  change _ = (if k = s.qIdx then v else A k) j
  rw [colSum_trunc _ (by rw [e1]; exact hk)]
  have hslot : (s.addColumn fuel v).slot k = s.slot k := by simp [LMQR.slot, e2, e5]
  rw [hslot]
  have hσ : s.slot k < s.m := Nat.mod_lt _ h.mpos
  by_cases hkK : k = s.qIdx
  · -- the new column
    subst hkK
    have hend : s.slot s.qIdx = s.rEnd := by rw [h.end_eq]; rfl
    rw [hend, Finset.sum_range_succ, if_pos rfl]
    rw [addColumn_Q fuel s v hj hK, if_pos rfl, addColumn_R fuel s v hK (by rw [← hend]; exact hσ),
      if_pos rfl, if_pos rfl]
    have e : ∑ i ∈ range s.qIdx, (s.addColumn fuel v).Q.get j i * (s.addColumn fuel v).R.get i s.rEnd =
        ∑ i ∈ range s.qIdx, readV (addCore fuel s v).2.1 i * s.Q.get j i := by
      apply Finset.sum_congr rfl
      intro i hi
      rw [Finset.mem_range] at hi
      rw [addColumn_Q fuel s v hj (by omega), if_neg (by omega),
        addColumn_R fuel s v (by omega) (by rw [← hend]; exact hσ), if_pos rfl, if_neg (by omega)]
      ring
    have := addCore_inv fuel s (by omega) v j hj
    by_cases hpos : 0 < (addCore fuel s v).2.2.1
    · rw [e, if_pos hpos, div_mul_cancel₀ _ (ne_of_gt hpos)]
      linear_combination this
    · rw [e, if_neg hpos, zero_mul]
      rw [addCore_q_zero hs hsn fuel s v hpos j hj] at this
      linear_combination this
  · -- an old column: its storage column is not the one written
    have hk' : k < s.qIdx := by omega
    rw [if_neg hkK, ← hA k hk' j hj, colSum_trunc s hk']
    apply Finset.sum_congr rfl
    intro i hi
    rw [Finset.mem_range] at hi
    have hne : s.slot k ≠ s.rEnd := by
      rw [h.end_eq]; exact slot_inj hk' (by omega)
    rw [addColumn_Q fuel s v hj (by omega), if_neg (by omega),
      addColumn_R fuel s v (by omega) hσ, if_neg hne]

/-! ### orthonormality (exact arithmetic; needs a lawful square root) -/

/-- `q ⟂ Q_a` for every stored column `a < K` (rows `< n`). -/
def PerpQ (n K : ℕ) (Q : ℕ → ℕ → α) (q : ℕ → α) : Prop :=
  ∀ a < K, ∑ j ∈ range n, Q j a * q j = 0

def OrthF (n K : ℕ) (Q : ℕ → ℕ → α) : Prop :=
  ∀ a < K, ∀ b < K, ∑ j ∈ range n, Q j a * Q j b = if a = b then 1 else 0

/-- with orthonormal `Q`, after `k` steps of a pass `q ⟂ Q_a` for `a < k`, and directions already
    orthogonal stay so -/
theorem mgsPass_perp (n K : ℕ) (Q : ℕ → ℕ → α) (hO : OrthF n K Q) (acc : Bool) (q r : ℕ → α) :
    ∀ k, k ≤ K → ∀ a < K, (a < k ∨ ∑ j ∈ range n, Q j a * q j = 0) →
      ∑ j ∈ range n, Q j a * (mgsPass n Q acc k (q, r)).1 j = 0 := by
  intro k
  induction k with
  | zero =>
    intro _ a _ h
    rcases h with h | h
    · omega
    · exact h
  | succ k ih =>
    intro hk a ha h
    simp only [mgsPass, mgsStep]
    rw [sumTo_eq_sum]
    have e : ∑ j ∈ range n, Q j a * ((mgsPass n Q acc k (q, r)).1 j -
          (∑ i ∈ range n, Q i k * (mgsPass n Q acc k (q, r)).1 i) * Q j k) =
        ∑ j ∈ range n, Q j a * (mgsPass n Q acc k (q, r)).1 j -
          (∑ i ∈ range n, Q i k * (mgsPass n Q acc k (q, r)).1 i) * ∑ j ∈ range n, Q j a * Q j k := by
      rw [Finset.mul_sum, ← Finset.sum_sub_distrib]
      apply Finset.sum_congr rfl
      intro j _; ring
    rw [e, hO a ha k (by omega)]
    by_cases hak : a = k
    · subst hak; simp
    · rw [if_neg hak]
      have : ∑ j ∈ range n, Q j a * (mgsPass n Q acc k (q, r)).1 j = 0 := by
        apply ih (by omega) a ha
        rcases h with h | h
        · left; omega
        · right; exact h
      rw [this]; ring

theorem perp_freeze (n K : ℕ) (Q : ℕ → ℕ → α) (q : ℕ → α) (h : PerpQ n K Q q) :
    PerpQ n K Q (readV (freezeV n q)) := by
  intro a ha
  rw [← h a ha]
  apply Finset.sum_congr rfl
  intro j hj
  rw [Finset.mem_range] at hj
  rw [readV_freezeV_lt _ hj]

/-- the loop returns `norm_q = ‖q‖` of the `q` it returns, and `q ⟂ Q` is kept -/
theorem reorthLoop_perp (n m K : ℕ) (Q : ℕ → ℕ → α) (hO : OrthF n K Q) (η : α) :
    ∀ fuel (q r : Array α) (nq nv : α) (cnt : ℕ), PerpQ n K Q (readV q) → nq = normTo n (readV q) →
      PerpQ n K Q (readV (reorthLoop n m K Q η fuel q r nq nv cnt).1) ∧
      (reorthLoop n m K Q η fuel q r nq nv cnt).2.2.1 =
        normTo n (readV (reorthLoop n m K Q η fuel q r nq nv cnt).1) := by
  intro fuel
  induction fuel with
  | zero => intro q r nq nv cnt h1 h2; simpa [reorthLoop] using ⟨h1, h2⟩
  | succ f ih =>
    intro q r nq nv cnt h1 h2
    unfold reorthLoop
    split_ifs with hc
    · apply ih
      · apply perp_freeze
        intro a ha
        exact mgsPass_perp n K Q hO true (readV q) (readV r) K (le_refl _) a ha (Or.inr (h1 a ha))
      · rfl
    · exact ⟨h1, h2⟩

theorem addCore_perp (fuel : ℕ) (s : LMQR α) (hO : Orth s) (v : ℕ → α) :
    PerpQ s.n s.qIdx s.Q.get (readV (addCore fuel s v).1) ∧
    (addCore fuel s v).2.2.1 = normTo s.n (readV (addCore fuel s v).1) := by
  unfold addCore
  apply reorthLoop_perp _ _ _ _ hO
  · apply perp_freeze
    intro a ha
    exact mgsPass_perp s.n s.qIdx s.Q.get hO false v _ s.qIdx (le_refl _) a ha (Or.inl ha)
  · rfl

/-- `add_column` keeps `QᵀQ = I` (exact arithmetic, lawful `sqrt`, positive `norm_q`). -/
theorem addColumn_orth (hs : SqrtLaw α) (fuel : ℕ) (s : LMQR α) (h : RingInv s) (hK : s.qIdx < s.m)
    (v : ℕ → α) (hpos : 0 < (addCore fuel s v).2.2.1) (hO : Orth s) : Orth (s.addColumn fuel v) := by
  have hn : (addCore fuel s v).2.2.1 ≠ 0 := ne_of_gt hpos
  obtain ⟨e1, e2, e3, e4, e5⟩ := addColumn_idx fuel s v
  obtain ⟨hperp, hnorm⟩ := addCore_perp fuel s hO v
  have hsq : (addCore fuel s v).2.2.1 * (addCore fuel s v).2.2.1 =
      ∑ j ∈ range s.n, readV (addCore fuel s v).1 j * readV (addCore fuel s v).1 j := by
    rw [hnorm]; unfold normTo; rw [sumTo_eq_sum]
    apply hs
    apply Finset.sum_nonneg
    intro j _; exact mul_self_nonneg _
  intro a ha b hb
  rw [e1] at ha hb
  rw [e4]
  have hQ : ∀ c, c < s.qIdx + 1 → ∀ j ∈ range s.n, (s.addColumn fuel v).Q.get j c =
      if c = s.qIdx then readV (addCore fuel s v).1 j / (addCore fuel s v).2.2.1 else s.Q.get j c := by
    intro c hc j hj
    rw [Finset.mem_range] at hj
    rw [addColumn_Q fuel s v hj (by omega), if_pos hpos]
  rw [Finset.sum_congr rfl (fun j hj => by rw [hQ a ha j hj, hQ b hb j hj])]
  by_cases haK : a = s.qIdx <;> by_cases hbK : b = s.qIdx
  · subst haK; subst hbK
    simp only [if_true]
    have : ∑ j ∈ range s.n, readV (addCore fuel s v).1 j / (addCore fuel s v).2.2.1 *
        (readV (addCore fuel s v).1 j / (addCore fuel s v).2.2.1) =
        (∑ j ∈ range s.n, readV (addCore fuel s v).1 j * readV (addCore fuel s v).1 j) /
          ((addCore fuel s v).2.2.1 * (addCore fuel s v).2.2.1) := by
      rw [Finset.sum_div]
      apply Finset.sum_congr rfl
      intro j _; field_simp
    rw [this, ← hsq, div_self (mul_ne_zero hn hn)]
  · subst haK
    simp only [if_true, if_neg hbK, if_neg (Ne.symm hbK)]
    have : ∑ j ∈ range s.n, readV (addCore fuel s v).1 j / (addCore fuel s v).2.2.1 * s.Q.get j b =
        (∑ j ∈ range s.n, s.Q.get j b * readV (addCore fuel s v).1 j) / (addCore fuel s v).2.2.1 := by
      rw [Finset.sum_div]
      apply Finset.sum_congr rfl
      intro j _; field_simp
    rw [this, hperp b (by omega), zero_div]
  · subst hbK
    simp only [if_true, if_neg haK]
    have : ∑ j ∈ range s.n, s.Q.get j a * (readV (addCore fuel s v).1 j / (addCore fuel s v).2.2.1) =
        (∑ j ∈ range s.n, s.Q.get j a * readV (addCore fuel s v).1 j) / (addCore fuel s v).2.2.1 := by
      rw [Finset.sum_div]
      apply Finset.sum_congr rfl
      intro j _; field_simp
    rw [this, hperp a (by omega), zero_div]
  · simp only [if_neg haK, if_neg hbK]
    exact hO a (by omega) b (by omega)

end ordered
end Alpaqa.C10
