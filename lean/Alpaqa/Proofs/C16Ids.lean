/-
  C16 helper lemmas, part 2: the id-level invariant `InvI` (every payload id handed out is
  either alive at exactly one registered location with destruction count 0, or dead with
  destruction count 1) and its preservation by every ghost-heap primitive.  Unlike `InvS`, `InvI`
  holds at every intermediate state, so operations are handled as chains of primitives.
-/
import Alpaqa.Proofs.C16Inv

namespace Alpaqa.Proofs.C16
open Alpaqa.Gen.C16 Alpaqa.C16

structure InvI (s : State) : Prop where
  /-- a registered id is below `nextId`, has never been destroyed, and its object is there -/
  idLive : ∀ id l, s.where_ id = some l →
    id < s.nextId ∧ s.dcnt id = 0 ∧ ∃ o, objAt s l = some o ∧ o.id = id
  /-- an unregistered id was destroyed exactly once if it was ever handed out, never otherwise -/
  idDead : ∀ id, s.where_ id = none → s.dcnt id = if id < s.nextId then 1 else 0
  /-- every object is registered at the location it lives in (so ids are unique) -/
  objReg : ∀ l o, objAt s l = some o → s.where_ o.id = some l
  freshObj : ∀ b, s.nblk ≤ b → (s.blk b).obj = none ∧ (s.blk b).live = false
  /-- every id handed out was constructed exactly once, no other id ever -/
  ctorOnce : ∀ id, s.ccnt id = if id < s.nextId then 1 else 0

/-! ### `fail`, `emit`: only `err` / `log` change -/

section fields
variable (s : State) (m : String) (e : Ev)
@[simp] theorem fail_cfg : (fail s m).cfg = s.cfg := by cases h : s.err <;> simp [fail, h]
@[simp] theorem fail_wr : (fail s m).wr = s.wr := by cases h : s.err <;> simp [fail, h]
@[simp] theorem fail_blk : (fail s m).blk = s.blk := by cases h : s.err <;> simp [fail, h]
@[simp] theorem fail_nblk : (fail s m).nblk = s.nblk := by cases h : s.err <;> simp [fail, h]
@[simp] theorem fail_env : (fail s m).env = s.env := by cases h : s.err <;> simp [fail, h]
@[simp] theorem fail_nextId : (fail s m).nextId = s.nextId := by cases h : s.err <;> simp [fail, h]
@[simp] theorem fail_ccnt : (fail s m).ccnt = s.ccnt := by cases h : s.err <;> simp [fail, h]
@[simp] theorem fail_dcnt : (fail s m).dcnt = s.dcnt := by cases h : s.err <;> simp [fail, h]
@[simp] theorem fail_where : (fail s m).where_ = s.where_ := by cases h : s.err <;> simp [fail, h]
@[simp] theorem emit_cfg : (emit s e).cfg = s.cfg := rfl
@[simp] theorem emit_wr : (emit s e).wr = s.wr := rfl
@[simp] theorem emit_blk : (emit s e).blk = s.blk := rfl
@[simp] theorem emit_nblk : (emit s e).nblk = s.nblk := rfl
@[simp] theorem emit_env : (emit s e).env = s.env := rfl
@[simp] theorem emit_nextId : (emit s e).nextId = s.nextId := rfl
@[simp] theorem emit_ccnt : (emit s e).ccnt = s.ccnt := rfl
@[simp] theorem emit_dcnt : (emit s e).dcnt = s.dcnt := rfl
@[simp] theorem emit_where : (emit s e).where_ = s.where_ := rfl
@[simp] theorem emit_err : (emit s e).err = s.err := rfl
end fields

/-- `objAt` only reads `wr`, `blk`, `env`. -/
theorem objAt_congr {s s' : State} (h1 : s'.wr = s.wr) (h2 : s'.blk = s.blk) (h3 : s'.env = s.env)
    (l : Loc) : objAt s' l = objAt s l := by
  cases l <;> simp [objAt, h1, h2, h3]

/-! ### Core lemmas: how `InvI` follows from a description of the change -/

theorem invI_same {s s' : State} (h : InvI s) (ho : ∀ l, objAt s' l = objAt s l)
    (hw : s'.where_ = s.where_) (hd : s'.dcnt = s.dcnt) (hn : s'.nextId = s.nextId)
    (hc : s'.ccnt = s.ccnt)
    (hf : ∀ b, s'.nblk ≤ b → (s'.blk b).obj = none ∧ (s'.blk b).live = false) : InvI s' := by
  obtain ⟨a, b, c, _, cc⟩ := h
  constructor
  · intro id l hl; rw [hw] at hl; rw [hn, hd, ho]; exact a id l hl
  · intro id hl; rw [hw] at hl; rw [hn, hd]; exact b id hl
  · intro l o hl; rw [ho] at hl; rw [hw]; exact c l o hl
  · exact hf
  · intro id; rw [hc, hn]; exact cc id

theorem invI_construct {s s' : State} (h : InvI s) (l : Loc) (v t : Nat) (hl : objAt s l = none)
    (ho : ∀ l', objAt s' l' = if l' = l then some ⟨s.nextId, v, t⟩ else objAt s l')
    (hw : s'.where_ = upd s.where_ s.nextId (some l)) (hd : s'.dcnt = s.dcnt)
    (hn : s'.nextId = s.nextId + 1)
    (hc : s'.ccnt = upd s.ccnt s.nextId (s.ccnt s.nextId + 1))
    (hf : ∀ b, s'.nblk ≤ b → (s'.blk b).obj = none ∧ (s'.blk b).live = false) : InvI s' := by
  obtain ⟨a, b, c, _, cc⟩ := h
  have hnone : s.where_ s.nextId = none := by
    cases hq : s.where_ s.nextId with
    | none => rfl
    | some l0 => have := (a _ _ hq).1; omega
  constructor
  · intro id l' hl'
    rw [hw] at hl'; simp only [upd] at hl'
    rw [hn, hd, ho]
    split at hl'
    · rename_i hid; subst hid; cases hl'
      have := b _ hnone
      simp at this
      exact ⟨by omega, this, ⟨⟨s.nextId, v, t⟩, by simp, rfl⟩⟩
    · obtain ⟨p1, p2, o, p3, p4⟩ := a id l' hl'
      have hne : l' ≠ l := by intro e; subst e; rw [hl] at p3; cases p3
      exact ⟨by omega, p2, o, by simp [hne, p3], p4⟩
  · intro id hl'
    rw [hw] at hl'; simp only [upd] at hl'
    rw [hn, hd]
    split at hl'
    · cases hl'
    · rename_i hid
      have := b id hl'
      rw [this]
      by_cases hlt : id < s.nextId
      · simp [hlt]; omega
      · have : ¬ id < s.nextId + 1 := by omega
        simp [hlt, this]
  · intro l' o hl'
    rw [ho] at hl'; rw [hw]
    split at hl'
    · rename_i e; subst e; cases hl'; simp
    · have hq := c l' o hl'
      have := (a _ _ hq).1
      have hne : o.id ≠ s.nextId := by omega
      simp [upd, hne, hq]
  · exact hf
  · intro id
    rw [hc, hn]; simp only [upd]
    have c1 := cc id
    have c2 := cc s.nextId
    simp only [Nat.lt_irrefl, if_false] at c2
    split
    · rename_i e; subst e; rw [c2]; simp
    · rename_i e
      rw [c1]
      by_cases hlt : id < s.nextId
      · have : id < s.nextId + 1 := by omega
        simp [hlt, this]
      · have : ¬ id < s.nextId + 1 := by omega
        simp [hlt, this]

theorem invI_destroy {s s' : State} (h : InvI s) (l : Loc) (o : Obj) (hl : objAt s l = some o)
    (ho : ∀ l', objAt s' l' = if l' = l then none else objAt s l')
    (hw : s'.where_ = upd s.where_ o.id none) (hd : s'.dcnt = upd s.dcnt o.id (s.dcnt o.id + 1))
    (hn : s'.nextId = s.nextId) (hc : s'.ccnt = s.ccnt)
    (hf : ∀ b, s'.nblk ≤ b → (s'.blk b).obj = none ∧ (s'.blk b).live = false) : InvI s' := by
  obtain ⟨a, b, c, _, cc⟩ := h
  have hreg := c l o hl
  obtain ⟨q1, q2, _⟩ := a _ _ hreg
  constructor
  · intro id l' hl'
    rw [hw] at hl'; simp only [upd] at hl'
    rw [hn, hd, ho]
    split at hl'
    · cases hl'
    · rename_i hid
      obtain ⟨p1, p2, o2, p3, p4⟩ := a id l' hl'
      have hne : l' ≠ l := by
        intro e; subst e; rw [hl] at p3; cases p3; exact hid p4.symm
      exact ⟨p1, by simp [upd, hid, p2], o2, by simp [hne, p3], p4⟩
  · intro id hl'
    rw [hw] at hl'; simp only [upd] at hl'
    rw [hn, hd]
    split at hl'
    · rename_i hid; subst hid; simp [upd, q1, q2]
    · rename_i hid; simp only [upd, hid, if_false]; exact b id hl'
  · intro l' o2 hl'
    rw [ho] at hl'; rw [hw]
    split at hl'
    · cases hl'
    · rename_i hne
      have hq := c l' o2 hl'
      have : o2.id ≠ o.id := by
        intro e; rw [e, hreg] at hq; cases hq; exact hne rfl
      simp [upd, this, hq]
  · exact hf
  · intro id; rw [hc, hn]; exact cc id

theorem invI_setVal {s s' : State} (h : InvI s) (l : Loc) (o o' : Obj) (hl : objAt s l = some o)
    (hid : o'.id = o.id) (ho : ∀ l', objAt s' l' = if l' = l then some o' else objAt s l')
    (hw : s'.where_ = s.where_) (hd : s'.dcnt = s.dcnt) (hn : s'.nextId = s.nextId)
    (hc : s'.ccnt = s.ccnt)
    (hf : ∀ b, s'.nblk ≤ b → (s'.blk b).obj = none ∧ (s'.blk b).live = false) : InvI s' := by
  obtain ⟨a, b, c, _, cc⟩ := h
  constructor
  · intro id l' hl'
    rw [hw] at hl'; rw [hn, hd, ho]
    obtain ⟨p1, p2, o2, p3, p4⟩ := a id l' hl'
    refine ⟨p1, p2, ?_⟩
    by_cases e : l' = l
    · subst e; rw [hl] at p3; cases p3; exact ⟨o', by simp, by rw [hid]; exact p4⟩
    · exact ⟨o2, by simp [e, p3], p4⟩
  · intro id hl'; rw [hw] at hl'; rw [hn, hd]; exact b id hl'
  · intro l' o2 hl'
    rw [ho] at hl'; rw [hw]
    split at hl'
    · rename_i e; subst e; cases hl'; rw [hid]; exact c _ _ hl
    · exact c l' o2 hl'
  · exact hf
  · intro id; rw [hc, hn]; exact cc id

/-! ### `objAt` after the state-changing primitives -/

theorem objAt_modW {s : State} {i : Nat} {f : Wrapper → Wrapper}
    (hf : ∀ w, (f w).bufObj = w.bufObj) (l : Loc) : objAt (modW s i f) l = objAt s l := by
  unfold modW
  cases hw : s.wr i with
  | none => exact objAt_congr (by simp) (by simp) (by simp) l
  | some w =>
    cases l with
    | buf j =>
      simp only [objAt, upd]
      by_cases e : j = i
      · subst e; simp [hw, hf]
      · simp [e]
    | blk b => rfl
    | env k => rfl

theorem objAt_setObj {s : State} {l : Loc} (hu : ∀ i, l = .buf i → (s.wr i).isSome = true)
    (o : Option Obj) (l' : Loc) : objAt (setObj s l o) l' = if l' = l then o else objAt s l' := by
  cases l with
  | buf i =>
    obtain ⟨w, hw⟩ := Option.isSome_iff_exists.mp (hu i rfl)
    simp only [setObj, modW, hw]
    cases l' with
    | buf j =>
      simp only [objAt, upd]
      by_cases e : j = i
      · subst e; simp
      · simp [e]
    | blk b => simp [objAt]
    | env k => simp [objAt]
  | blk b =>
    simp only [setObj]
    cases l' with
    | buf j => simp [objAt]
    | blk b' =>
      simp only [objAt, upd]
      by_cases e : b' = b
      · subst e; simp
      · simp [e]
    | env k => simp [objAt]
  | env k =>
    simp only [setObj]
    cases l' with
    | buf j => simp [objAt]
    | blk b' => simp [objAt]
    | env k' =>
      simp only [objAt, upd]
      by_cases e : k' = k
      · subst e; simp
      · simp [e]

theorem wr_some_of_objAt {s : State} {l : Loc} {o : Obj} (h : objAt s l = some o) :
    ∀ i, l = .buf i → (s.wr i).isSome = true := by
  intro i e; subst e
  simp only [objAt] at h
  cases hw : s.wr i with
  | none => simp [hw] at h
  | some w => rfl

/-- `setObj` keeps every field but `wr` / `blk` / `env`. -/
theorem setObj_fields (s : State) (l : Loc) (o : Option Obj) :
    (setObj s l o).where_ = s.where_ ∧ (setObj s l o).dcnt = s.dcnt ∧
    (setObj s l o).nextId = s.nextId ∧ (setObj s l o).nblk = s.nblk ∧ (setObj s l o).cfg = s.cfg ∧
    (setObj s l o).ccnt = s.ccnt := by
  cases l with
  | buf i =>
    simp only [setObj, modW]
    cases s.wr i <;> simp
  | blk b => simp [setObj]
  | env k => simp [setObj]

/-- blocks at or above `nblk` after `setObj`, provided a block location touched is an old one or
    is emptied -/
theorem fresh_setObj {s : State} (h : InvI s) {l : Loc} {o : Option Obj}
    (hb : ∀ b, l = .blk b → b < s.nblk ∨ o = none) :
    ∀ b, (setObj s l o).nblk ≤ b → ((setObj s l o).blk b).obj = none ∧ ((setObj s l o).blk b).live = false := by
  intro b hb'
  rw [(setObj_fields s l o).2.2.2.1] at hb'
  cases l with
  | buf i =>
    simp only [setObj, modW]
    cases s.wr i <;> simpa using h.freshObj b hb'
  | blk b0 =>
    simp only [setObj, upd]
    by_cases e : b = b0
    · subst e
      rcases hb b rfl with h1 | h1
      · omega
      · simpa [h1] using (h.freshObj b hb').2
    · simpa [e] using h.freshObj b hb'
  | env k => simpa [setObj] using h.freshObj b hb'

/-! ### Every primitive preserves `InvI` -/

theorem invI_fail {s : State} (h : InvI s) (m : String) : InvI (fail s m) :=
  invI_same h (objAt_congr (by simp) (by simp) (by simp)) (by simp) (by simp) (by simp) (by simp)
    (by simpa using h.freshObj)

theorem invI_emit {s : State} (h : InvI s) (e : Ev) : InvI (emit s e) :=
  invI_same h (objAt_congr rfl rfl rfl) rfl rfl rfl rfl h.freshObj

theorem modW_fields (s : State) (i : Nat) (f : Wrapper → Wrapper) :
    (modW s i f).where_ = s.where_ ∧ (modW s i f).dcnt = s.dcnt ∧
    (modW s i f).nextId = s.nextId ∧ (modW s i f).nblk = s.nblk ∧ (modW s i f).blk = s.blk ∧
    (modW s i f).cfg = s.cfg ∧ (modW s i f).env = s.env ∧ (modW s i f).ccnt = s.ccnt := by
  simp only [modW]; cases s.wr i <;> simp

theorem invI_modW {s : State} (h : InvI s) (i : Nat) (f : Wrapper → Wrapper)
    (hf : ∀ w, (f w).bufObj = w.bufObj) : InvI (modW s i f) := by
  obtain ⟨a, b, c, d, e, _, _, g⟩ := modW_fields s i f
  exact invI_same h (objAt_modW hf) a b c g (by rw [d, e]; exact h.freshObj)

theorem invI_constructAt {s : State} (h : InvI s) (l : Loc) (v t : Nat) (ev : Nat → Ev) :
    InvI (constructAt s l v t ev) := by
  unfold constructAt
  split
  · exact invI_fail h _
  · rename_i hu
    split
    · exact invI_fail h _
    · rename_i hn
      have hu' : usable s l = true := by simpa using hu
      have hl : objAt s l = none := by
        cases hq : objAt s l with
        | none => rfl
        | some o => simp [hq] at hn
      have hwr : ∀ i, l = .buf i → (s.wr i).isSome = true := by
        intro i e; subst e; simpa [usable] using hu'
      obtain ⟨f1, f2, f3, f4, _, f5⟩ := setObj_fields s l (some ⟨s.nextId, v, t⟩)
      refine invI_construct h l v t hl ?_ ?_ ?_ ?_ ?_ ?_
      · intro l'
        rw [← objAt_setObj hwr]
        exact objAt_congr rfl rfl rfl l'
      · show upd (setObj s l _).where_ _ _ = _
        rw [f1]
      · exact f2
      · rfl
      · show upd (setObj s l _).ccnt _ _ = _
        rw [f5]
      · have := fresh_setObj h (l := l) (o := some ⟨s.nextId, v, t⟩) (by
          intro b e; subst e
          left
          have hlive : (s.blk b).live = true := by simpa [usable] using hu'
          cases Nat.lt_or_ge b s.nblk with
          | inl h1 => exact h1
          | inr h1 => have := (h.freshObj b h1).2; rw [hlive] at this; cases this)
        exact this

theorem invI_destroyAt {s : State} (h : InvI s) (l : Loc) : InvI (destroyAt s l) := by
  unfold destroyAt
  split
  · exact invI_fail h _
  · rename_i o hl
    obtain ⟨f1, f2, f3, f4, _, f5⟩ := setObj_fields s l none
    refine invI_destroy h l o hl ?_ ?_ ?_ ?_ ?_ ?_
    · intro l'
      rw [← objAt_setObj (wr_some_of_objAt hl)]
      exact objAt_congr rfl rfl rfl l'
    · show upd (setObj s l none).where_ _ _ = _
      rw [f1]
    · show upd (setObj s l none).dcnt _ _ = _
      rw [f2]
    · exact f3
    · exact f5
    · exact fresh_setObj h (by intro b _; right; rfl)

/-- overwrite the value of a live object (same id) -/
theorem invI_setObjVal {s : State} (h : InvI s) {l : Loc} {o : Obj} (hl : objAt s l = some o)
    (o' : Obj) (hid : o'.id = o.id) : InvI (setObj s l (some o')) := by
  obtain ⟨f1, f2, f3, f4, _, f5⟩ := setObj_fields s l (some o')
  refine invI_setVal h l o o' hl hid (objAt_setObj (wr_some_of_objAt hl) _) f1 f2 f3 f5 ?_
  apply fresh_setObj h
  intro b e; subst e; left
  cases Nat.lt_or_ge b s.nblk with
  | inl h1 => exact h1
  | inr h1 =>
    have := (h.freshObj b h1).1
    simp only [objAt] at hl
    rw [this] at hl; cases hl

theorem invI_copyConstruct {s : State} (h : InvI s) (src dst : Option Loc) :
    InvI (copyConstruct s src dst) := by
  unfold copyConstruct
  split
  · split
    · exact invI_constructAt h _ _ _ _
    · exact invI_fail h _
  · exact invI_fail h _

/-- a live object elsewhere is untouched by a construction -/
theorem objAt_constructAt_of_some {s : State} {p : Loc} {o : Obj} (h : objAt s p = some o)
    (q : Loc) (v t : Nat) (ev : Nat → Ev) : objAt (constructAt s q v t ev) p = some o := by
  unfold constructAt
  split
  · rw [objAt_congr (s := s) (by simp) (by simp) (by simp)]; exact h
  · rename_i hu
    split
    · rw [objAt_congr (s := s) (by simp) (by simp) (by simp)]; exact h
    · rename_i hn
      have hu' : usable s q = true := by simpa using hu
      have hwr : ∀ i, q = .buf i → (s.wr i).isSome = true := by
        intro i e; subst e; simpa [usable] using hu'
      have hne : p ≠ q := by
        intro e; subst e; simp [h] at hn
      have := objAt_setObj hwr (some ⟨s.nextId, v, t⟩) p
      rw [if_neg hne, h] at this
      rw [← this]
      exact objAt_congr rfl rfl rfl p

theorem invI_moveConstruct {s : State} (h : InvI s) (src dst : Option Loc) :
    InvI (moveConstruct s src dst) := by
  unfold moveConstruct
  split
  · split
    · rename_i o hl
      exact invI_setObjVal (invI_constructAt h _ _ _ _) (objAt_constructAt_of_some hl _ _ _ _)
        { o with val := 0 } rfl
    · exact invI_fail h _
  · exact invI_fail h _

theorem invI_heapAlloc {s : State} (h : InvI s) (a sz ow : Nat) : InvI (heapAlloc s a sz ow).1 := by
  simp only [heapAlloc]
  refine invI_same h ?_ rfl rfl rfl rfl ?_
  · intro l
    cases l with
    | buf j => rfl
    | blk b =>
      simp only [objAt, emit, upd]
      by_cases e : b = s.nblk
      · subst e; simp [(h.freshObj _ (Nat.le_refl _)).1]
      · simp [e]
    | env k => rfl
  · intro b hb
    simp only [emit] at hb ⊢
    have : b ≠ s.nblk := by omega
    simp only [upd, this, if_false]
    exact h.freshObj b (by omega)

theorem invI_heapFree {s : State} (h : InvI s) (a : Nat) (p : Option Loc) : InvI (heapFree s a p) := by
  unfold heapFree
  split
  · rename_i b
    simp only
    split
    · exact invI_fail h _
    · split
      · exact invI_fail h _
      · split
        · exact invI_fail h _
        · refine invI_same h ?_ rfl rfl rfl rfl ?_
          · intro l
            cases l with
            | buf j => rfl
            | blk b' =>
              simp only [objAt, emit, upd]
              by_cases e : b' = b
              · subst e; simp
              · simp [e]
            | env k => rfl
          · intro b' hb
            simp only [emit] at hb ⊢
            simp only [upd]
            by_cases e : b' = b
            · subst e; simp [(h.freshObj _ hb).1]
            · simp only [e, if_false]; exact h.freshObj b' hb
  · exact invI_fail h _

theorem invI_wAllocate {s : State} (h : InvI s) (i sz : Nat) : InvI (wAllocate s i sz) := by
  unfold wAllocate
  split
  · exact invI_modW h _ _ (fun _ => rfl)
  · exact invI_modW (invI_heapAlloc h _ _ _) _ _ (fun _ => rfl)

theorem invI_wDeallocate {s : State} (h : InvI s) (i : Nat) : InvI (wDeallocate s i) := by
  unfold wDeallocate
  simp only
  split
  · exact invI_modW (invI_heapFree h _ _) _ _ (fun _ => rfl)
  · exact invI_modW h _ _ (fun _ => rfl)

theorem invI_wCleanup {s : State} (h : InvI s) (i : Nat) : InvI (wCleanup s i) := by
  unfold wCleanup
  simp only
  split
  · exact invI_modW h _ _ (fun _ => rfl)
  · split
    · exact invI_wDeallocate (invI_destroyAt h _) _
    · exact h

theorem invI_steal {s : State} (h : InvI s) (i k : Nat) : InvI (steal s i k) := by
  unfold steal
  simp only
  have h2 := invI_modW (invI_modW h i (fun w => { w with self := (getW s k).self }) (fun _ => rfl))
    k (fun w => { w with self := none }) (fun _ => rfl)
  split
  · rename_i b _
    refine invI_same h2 ?_ rfl rfl rfl rfl ?_
    · intro l
      cases l with
      | buf j => rfl
      | blk b' =>
        simp only [objAt, upd]
        by_cases e : b' = b
        · subst e; simp
        · simp [e]
      | env k' => rfl
    · intro b' hb
      simp only [upd]
      by_cases e : b' = b
      · subst e; simpa using h2.freshObj _ hb
      · simp only [e, if_false]; exact h2.freshObj b' hb
  · exact h2

theorem invI_moveSmall {s : State} (h : InvI s) (i k : Nat) : InvI (moveSmall s i k) := by
  unfold moveSmall
  simp only
  have h1 : InvI (modW s i fun w => { w with self := some (.buf i) }) :=
    invI_modW h _ _ (fun _ => rfl)
  have h2 := invI_moveConstruct h1
    (getW (modW s i fun w => { w with self := some (.buf i) }) k).self (some (.buf i))
  refine invI_modW ?_ _ _ (fun _ => rfl)
  split
  · exact invI_destroyAt h2 _
  · exact invI_fail h2 _

theorem invI_moveRealloc {s : State} (h : InvI s) (i j a : Nat) (v : Bool) :
    InvI (moveRealloc s i j a v) := by
  unfold moveRealloc
  simp only
  have h1 := invI_moveConstruct
    (invI_modW (invI_heapAlloc h (getW s i).alloc (getW s i).size i) i
      (fun w => { w with self := some (.blk (heapAlloc s (getW s i).alloc (getW s i).size i).2) })
      (fun _ => rfl)) (getW s j).self (some (.blk (heapAlloc s (getW s i).alloc (getW s i).size i).2))
  split
  · split
    · exact invI_wDeallocate (invI_destroyAt h1 _) _
    · exact invI_wDeallocate (invI_fail h1 _) _
  · split
    · exact invI_modW (invI_heapFree (invI_destroyAt h1 _) _ _) _ _ (fun _ => rfl)
    · exact invI_modW (invI_heapFree (invI_fail h1 _) _ _) _ _ (fun _ => rfl)

theorem invI_doCopyAssign {s : State} (h : InvI s) (c : Bool) (i k : Nat) (thr : Bool) :
    InvI (doCopyAssign s c i k thr).1 := by
  unfold Alpaqa.C16.doCopyAssign
  simp only
  have h0 : InvI (if (c && s.cfg.pocca) = true then
      modW s i fun w => { w with alloc := (getW s k).alloc } else s) := by
    split
    · exact invI_modW h _ _ (fun _ => rfl)
    · exact h
  split
  · exact h0
  · split
    · exact invI_modW h0 _ _ (fun _ => rfl)
    · split
      · exact invI_wDeallocate (invI_emit (invI_wAllocate h0 _ _) _) _
      · exact invI_copyConstruct (invI_wAllocate h0 _ _) _ _

theorem invI_newW {s : State} (h : InvI s) {i : Nat} (hf : s.wr i = none) (a vt : Nat) :
    InvI (newW s i a vt) := by
  refine invI_same h ?_ rfl rfl rfl rfl h.freshObj
  intro l
  cases l with
  | buf j =>
    simp only [objAt, newW, upd]
    by_cases e : j = i
    · subst e; simp [hf, blankW]
    · simp [e]
  | blk b => rfl
  | env k => rfl

theorem invI_dropW {s : State} (h : InvI s) {i : Nat}
    (hb : ∀ w, s.wr i = some w → w.bufObj = none) : InvI (dropW s i) := by
  unfold dropW
  simp only
  have key : ∀ s1 : State, InvI s1 → s1.wr = s.wr → InvI { s1 with wr := upd s1.wr i none } := by
    intro s1 h1 e
    refine invI_same h1 ?_ rfl rfl rfl rfl h1.freshObj
    intro l
    cases l with
    | buf j =>
      simp only [objAt, upd]
      by_cases e' : j = i
      · subst e'
        rw [e]
        cases hw : s.wr j with
        | none => simp
        | some w => simp [hb w hw]
      · simp [e']
    | blk b => rfl
    | env k => rfl
  split
  · exact key _ (invI_fail h _) (by simp)
  · split
    · exact key _ (invI_fail h _) (by simp)
    · exact key _ h rfl

end Alpaqa.Proofs.C16
