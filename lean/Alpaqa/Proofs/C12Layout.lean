/-
  C12 — storage layout of `OCPVariables` (generated formulas, `Alpaqa/Gen/C12.lean`):
  segments of different (kind, stage) are disjoint and in bounds; values of the dimension
  accessors; contiguity of `xuk = xk ++ uk`, `qrk = qk ++ rk`, `ABk = Ak ++ Bk`.
-/
import Alpaqa.Gen.C12
import Mathlib.Tactic.Ring
import Mathlib.Tactic.Linarith

namespace Alpaqa.C12
open Alpaqa.Gen.C12 OCPVars

/-- The four kinds of per-stage segments of the storage vector. -/
inductive Kind | x | u | h | c
  deriving DecidableEq, Repr

def segStart (v : OCPVars) : Kind → Nat → Nat
  | .x, t => v.xkStart t
  | .u, t => v.ukStart t
  | .h, t => v.hkStart t
  | .c, t => v.ckStart t
def segLen (v : OCPVars) : Kind → Nat → Nat
  | .x, t => v.xkLen t
  | .u, t => v.ukLen t
  | .h, t => v.hkLen t
  | .c, t => v.ckLen t
/-- `xk hk ck` exist for `t ≤ N`, `uk` for `t < N`. -/
def segValid (N : Nat) : Kind → Nat → Prop
  | .u, t => t < N
  | _, t => t ≤ N

/-- two half-open index ranges `[s₁, s₁+l₁)`, `[s₂, s₂+l₂)` do not meet -/
def segDisj (s₁ l₁ s₂ l₂ : Nat) : Prop := s₁ + l₁ ≤ s₂ ∨ s₂ + l₂ ≤ s₁

theorem segDisj_symm {a b c d : Nat} (h : segDisj a b c d) : segDisj c d a b := Or.symm h

private theorem succ_mul_le {t t' S : Nat} (h : t < t') : t * S + S ≤ t' * S := by
  have := Nat.mul_le_mul_right S (Nat.succ_le_of_lt h)
  rwa [Nat.succ_mul] at this

theorem layout_core (N dx du dh dc dhN dcN : Nat) (k k' : Kind) (t t' : Nat)
    (hv : segValid N k t) (hv' : segValid N k' t') (hne : k ≠ k' ∨ t ≠ t') :
    segDisj (segStart (OCPVars.ofProblem N dx du dh dc dhN dcN) k t)
            (segLen (OCPVars.ofProblem N dx du dh dc dhN dcN) k t)
            (segStart (OCPVars.ofProblem N dx du dh dc dhN dcN) k' t')
            (segLen (OCPVars.ofProblem N dx du dh dc dhN dcN) k' t') ∧
    segStart (OCPVars.ofProblem N dx du dh dc dhN dcN) k t +
      segLen (OCPVars.ofProblem N dx du dh dc dhN dcN) k t ≤
      (OCPVars.ofProblem N dx du dh dc dhN dcN).createSize := by
  have hs1 : t < t' → t * (dx + du + dh + dc) + (dx + du + dh + dc) ≤ t' * (dx + du + dh + dc) :=
    succ_mul_le
  have hs2 : t' < t → t' * (dx + du + dh + dc) + (dx + du + dh + dc) ≤ t * (dx + du + dh + dc) :=
    succ_mul_le
  have hN1 : t < N → t * (dx + du + dh + dc) + (dx + du + dh + dc) ≤ N * (dx + du + dh + dc) :=
    succ_mul_le
  have hN2 : t' < N → t' * (dx + du + dh + dc) + (dx + du + dh + dc) ≤ N * (dx + du + dh + dc) :=
    succ_mul_le
  have hE : t = t' → t * (dx + du + dh + dc) = t' * (dx + du + dh + dc) := by intro h; rw [h]
  have hN3 : t = N → t * (dx + du + dh + dc) = N * (dx + du + dh + dc) := by intro h; rw [h]
  have hN4 : t' = N → t' * (dx + du + dh + dc) = N * (dx + du + dh + dc) := by intro h; rw [h]
  cases k <;> cases k' <;>
  simp only [segValid, segStart, segLen, segDisj, OCPVars.ofProblem, OCPVars.mk', partialSum,
    partialSumFrom, xkStart, xkLen, ukStart, ukLen, hkStart, hkLen, ckStart, ckLen, createSize,
    OCPVars.nu, OCPVars.nh, OCPVars.nc, OCPVars.nx, OCPVars.nh_N, OCPVars.nc_N, OCPVars.size,
    OCPVars.size_N, i_u, i_h, i_c, i_h_N, i_c_N, List.getD_cons_zero, List.getD_cons_succ,
    List.getLastD, List.getLast, Nat.zero_add, decide_eq_true_eq, ne_eq, not_true_eq_false,
    false_or] at * <;>
  generalize hS : dx + du + dh + dc = S at * <;>
  generalize t * S = a at * <;> generalize t' * S = b at * <;> generalize N * S = c at * <;>
  first | omega | (split_ifs <;> omega)

theorem layout_inbounds (N dx du dh dc dhN dcN : Nat) (k : Kind) (t : Nat) (hv : segValid N k t) :
    segStart (OCPVars.ofProblem N dx du dh dc dhN dcN) k t +
      segLen (OCPVars.ofProblem N dx du dh dc dhN dcN) k t ≤
      (OCPVars.ofProblem N dx du dh dc dhN dcN).createSize := by
  have hN1 : t < N → t * (dx + du + dh + dc) + (dx + du + dh + dc) ≤ N * (dx + du + dh + dc) :=
    succ_mul_le
  have hN3 : t = N → t * (dx + du + dh + dc) = N * (dx + du + dh + dc) := by intro h; rw [h]
  cases k <;>
  simp only [segValid, segStart, segLen, OCPVars.ofProblem, OCPVars.mk', partialSum,
    partialSumFrom, xkStart, xkLen, ukStart, ukLen, hkStart, hkLen, ckStart, ckLen, createSize,
    OCPVars.nu, OCPVars.nh, OCPVars.nc, OCPVars.nx, OCPVars.nh_N, OCPVars.nc_N, OCPVars.size,
    OCPVars.size_N, i_u, i_h, i_c, i_h_N, i_c_N, List.getD_cons_zero, List.getD_cons_succ,
    List.getLastD, List.getLast, Nat.zero_add, decide_eq_true_eq] at * <;>
  generalize hS : dx + du + dh + dc = S at * <;>
  generalize t * S = a at * <;> generalize N * S = c at * <;>
  first | omega | (split_ifs <;> omega)

theorem layout_disjoint (N dx du dh dc dhN dcN : Nat) (k k' : Kind) (t t' : Nat)
    (hv : segValid N k t) (hv' : segValid N k' t') (hne : k ≠ k' ∨ t ≠ t') :
    segDisj (segStart (OCPVars.ofProblem N dx du dh dc dhN dcN) k t)
            (segLen (OCPVars.ofProblem N dx du dh dc dhN dcN) k t)
            (segStart (OCPVars.ofProblem N dx du dh dc dhN dcN) k' t')
            (segLen (OCPVars.ofProblem N dx du dh dc dhN dcN) k' t') :=
  (layout_core N dx du dh dc dhN dcN k k' t t' hv hv' hne).1

/-! ### values of the accessors on `ofProblem` -/
section vals
variable (N dx du dh dc dhN dcN t : Nat)

@[simp] theorem nx_ofProblem : (OCPVars.ofProblem N dx du dh dc dhN dcN).nx = dx := by
  simp [OCPVars.ofProblem, OCPVars.mk', partialSum, partialSumFrom, OCPVars.nx]
@[simp] theorem nu_ofProblem : (OCPVars.ofProblem N dx du dh dc dhN dcN).nu = du := by
  simp [OCPVars.ofProblem, OCPVars.mk', partialSum, partialSumFrom, OCPVars.nu, OCPVars.size, i_u]
@[simp] theorem nh_ofProblem : (OCPVars.ofProblem N dx du dh dc dhN dcN).nh = dh := by
  simp [OCPVars.ofProblem, OCPVars.mk', partialSum, partialSumFrom, OCPVars.nh, OCPVars.size, i_h]
@[simp] theorem nc_ofProblem : (OCPVars.ofProblem N dx du dh dc dhN dcN).nc = dc := by
  simp [OCPVars.ofProblem, OCPVars.mk', partialSum, partialSumFrom, OCPVars.nc, OCPVars.size, i_c]
@[simp] theorem nh_N_ofProblem : (OCPVars.ofProblem N dx du dh dc dhN dcN).nh_N = dhN := by
  simp [OCPVars.ofProblem, OCPVars.mk', partialSum, partialSumFrom, OCPVars.nh_N, OCPVars.size_N,
    i_h_N]
@[simp] theorem nc_N_ofProblem : (OCPVars.ofProblem N dx du dh dc dhN dcN).nc_N = dcN := by
  simp [OCPVars.ofProblem, OCPVars.mk', partialSum, partialSumFrom, OCPVars.nc_N, OCPVars.size_N,
    i_c_N]
@[simp] theorem nx_N_ofProblem : (OCPVars.ofProblem N dx du dh dc dhN dcN).nx_N = dx := by
  simp [OCPVars.ofProblem, OCPVars.mk', partialSum, partialSumFrom, OCPVars.nx_N]
@[simp] theorem nxu_ofProblem : (OCPVars.ofProblem N dx du dh dc dhN dcN).nxu = dx + du := by
  simp [OCPVars.nxu]
@[simp] theorem N_ofProblem : (OCPVars.ofProblem N dx du dh dc dhN dcN).N = N := rfl

@[simp] theorem xkLen_ofProblem : (OCPVars.ofProblem N dx du dh dc dhN dcN).xkLen t = dx := by
  simp [xkLen]
@[simp] theorem ukLen_ofProblem : (OCPVars.ofProblem N dx du dh dc dhN dcN).ukLen t = du := by
  simp [ukLen]
@[simp] theorem xukLen_ofProblem : (OCPVars.ofProblem N dx du dh dc dhN dcN).xukLen t = dx + du := by
  simp [xukLen]
theorem hkLen_ofProblem :
    (OCPVars.ofProblem N dx du dh dc dhN dcN).hkLen t = if t < N then dh else dhN := by
  unfold hkLen; simp only [nh_ofProblem, nh_N_ofProblem, N_ofProblem]
  by_cases h : t < N <;> simp [h]
theorem ckLen_ofProblem :
    (OCPVars.ofProblem N dx du dh dc dhN dcN).ckLen t = if t < N then dc else dcN := by
  unfold ckLen; simp only [nc_ofProblem, nc_N_ofProblem, N_ofProblem]
  by_cases h : t < N <;> simp [h]

/-- `xuk(t)` is `xk(t)` immediately followed by `uk(t)`. -/
theorem xuk_contiguous :
    (OCPVars.ofProblem N dx du dh dc dhN dcN).xukStart t =
      (OCPVars.ofProblem N dx du dh dc dhN dcN).xkStart t ∧
    (OCPVars.ofProblem N dx du dh dc dhN dcN).ukStart t =
      (OCPVars.ofProblem N dx du dh dc dhN dcN).xkStart t + dx := by
  simp [xukStart, xkStart, ukStart, OCPVars.ofProblem, OCPVars.mk', partialSum, partialSumFrom]

theorem xkStart_zero : (OCPVars.ofProblem N dx du dh dc dhN dcN).xkStart 0 = 0 := by
  simp [xkStart]

end vals

/-! ### the `qr` vector and the `AB` matrix -/

/-- `qk(t)` (`t ≤ N`) and `rk(t)` (`t < N`): start, length. `b = false` is `q`, `true` is `r`. -/
def qrStart (v : OCPVars) : Bool → Nat → Nat
  | false, t => v.qkStart t
  | true, t => v.rkStart t
def qrLen (v : OCPVars) : Bool → Nat → Nat
  | false, t => v.qkLen t
  | true, t => v.rkLen t
def qrValid (N : Nat) : Bool → Nat → Prop
  | false, t => t ≤ N
  | true, t => t < N
/-- column blocks `Ak(t)` (`false`) and `Bk(t)` (`true`) of `AB`, `t < N`. -/
def abStart (v : OCPVars) : Bool → Nat → Nat
  | false, t => v.AkStart t
  | true, t => v.BkStart t
def abLen (v : OCPVars) : Bool → Nat → Nat
  | false, t => v.AkLen t
  | true, t => v.BkLen t

theorem qr_layout_core (N dx du dh dc dhN dcN : Nat) (k k' : Bool) (t t' : Nat)
    (hv : qrValid N k t) (hv' : qrValid N k' t') (hne : k ≠ k' ∨ t ≠ t') :
    segDisj (qrStart (OCPVars.ofProblem N dx du dh dc dhN dcN) k t)
            (qrLen (OCPVars.ofProblem N dx du dh dc dhN dcN) k t)
            (qrStart (OCPVars.ofProblem N dx du dh dc dhN dcN) k' t')
            (qrLen (OCPVars.ofProblem N dx du dh dc dhN dcN) k' t') ∧
    qrStart (OCPVars.ofProblem N dx du dh dc dhN dcN) k t +
      qrLen (OCPVars.ofProblem N dx du dh dc dhN dcN) k t ≤
      (OCPVars.ofProblem N dx du dh dc dhN dcN).createQrSize := by
  have hs1 : t < t' → t * (dx + du) + (dx + du) ≤ t' * (dx + du) := succ_mul_le
  have hs2 : t' < t → t' * (dx + du) + (dx + du) ≤ t * (dx + du) := succ_mul_le
  have hN1 : t < N → t * (dx + du) + (dx + du) ≤ N * (dx + du) := succ_mul_le
  have hE : t = t' → t * (dx + du) = t' * (dx + du) := by intro h; rw [h]
  have hN3 : t = N → t * (dx + du) = N * (dx + du) := by intro h; rw [h]
  cases k <;> cases k' <;>
  simp only [qrValid, qrStart, qrLen, segDisj, qkStart, qkLen, rkStart, rkLen, createQrSize,
    nxu_ofProblem, nx_ofProblem, nu_ofProblem, N_ofProblem, ne_eq, not_true_eq_false, false_or,
    reduceCtorEq, not_false_eq_true, true_or] at * <;>
  generalize t * (dx + du) = a at * <;> generalize t' * (dx + du) = b at * <;>
  generalize N * (dx + du) = c at * <;> omega

theorem ab_layout_core (N dx du dh dc dhN dcN : Nat) (k k' : Bool) (t t' : Nat)
    (hv : t < N) (hv' : t' < N) (hne : k ≠ k' ∨ t ≠ t') :
    segDisj (abStart (OCPVars.ofProblem N dx du dh dc dhN dcN) k t)
            (abLen (OCPVars.ofProblem N dx du dh dc dhN dcN) k t)
            (abStart (OCPVars.ofProblem N dx du dh dc dhN dcN) k' t')
            (abLen (OCPVars.ofProblem N dx du dh dc dhN dcN) k' t') ∧
    abStart (OCPVars.ofProblem N dx du dh dc dhN dcN) k t +
      abLen (OCPVars.ofProblem N dx du dh dc dhN dcN) k t ≤
      (OCPVars.ofProblem N dx du dh dc dhN dcN).createABCols ∧
    (OCPVars.ofProblem N dx du dh dc dhN dcN).createABRows = dx := by
  have hs1 : t < t' → t * (dx + du) + (dx + du) ≤ t' * (dx + du) := succ_mul_le
  have hs2 : t' < t → t' * (dx + du) + (dx + du) ≤ t * (dx + du) := succ_mul_le
  have hN1 : t * (dx + du) + (dx + du) ≤ (dx + du) * N := by
    rw [Nat.mul_comm (dx + du) N]; exact succ_mul_le hv
  have hE : t = t' → t * (dx + du) = t' * (dx + du) := by intro h; rw [h]
  cases k <;> cases k' <;>
  simp only [abStart, abLen, segDisj, AkStart, AkLen, BkStart, BkLen, createABCols, createABRows,
    nxu_ofProblem, nx_ofProblem, nu_ofProblem, N_ofProblem, ne_eq, not_true_eq_false, false_or,
    reduceCtorEq, not_false_eq_true, true_or, and_true] at * <;>
  generalize t * (dx + du) = a at * <;> generalize t' * (dx + du) = b at * <;>
  generalize (dx + du) * N = c at * <;> omega

end Alpaqa.C12
