/-
  C16 helper lemmas, part 1: the structural invariant `InvS` of the wrapper pool over the
  checked ghost heap, its frame lemmas, and `cleanup()` / destruction.
  (Property theorems are in `Alpaqa/Props/C16.lean`.)
-/
import Alpaqa.Gen.C16
import Alpaqa.Model.C16

namespace Alpaqa.Proofs.C16
open Alpaqa.Gen.C16 Alpaqa.C16

@[simp] theorem upd_same {β} (f : Nat → β) (i : Nat) (v : β) : upd f i v i = v := by simp [upd]
theorem upd_ne {β} (f : Nat → β) {i j : Nat} (v : β) (h : j ≠ i) : upd f i v j = f j := by
  simp [upd, h]
theorem upd_upd {β} (f : Nat → β) (i : Nat) (a b : β) : upd (upd f i a) i b = upd f i b := by
  funext j; simp only [upd]; split <;> rfl
theorem upd_comm {β} (f : Nat → β) {i k : Nat} (a b : β) (h : i ≠ k) :
    upd (upd f i a) k b = upd (upd f k b) i a := by
  funext j; simp only [upd]; split <;> split <;> simp_all

theorem large_iff_not_small (sz sbs : Nat) :
    deallocateUsesAllocator sz sbs = !allocateUsesSmallBuffer sz sbs ∧
    moveCtorLarge sz sbs = !allocateUsesSmallBuffer sz sbs ∧
    moveCtorAllocLarge sz sbs = !allocateUsesSmallBuffer sz sbs ∧
    moveAssignLarge sz sbs = !allocateUsesSmallBuffer sz sbs := by
  simp only [deallocateUsesAllocator, moveCtorLarge, moveCtorAllocLarge, moveAssignLarge,
    allocateUsesSmallBuffer]
  by_cases h : sz ≤ sbs <;> simp [h] <;> omega

theorem refSize_spec (c : Bool) :
    ownsReferencedObject (refSize c) = false ∧ referencedObjectIsConst (refSize c) = c := by
  cases c <;> decide

/-- What slot `i`'s wrapper must satisfy: empty ⇒ its buffer holds nothing; pointing into a
    small buffer ⇒ it is its *own* buffer, which holds a live object, and the size says
    "owned, small"; pointing to a block ⇒ the block is live, recorded for this slot, allocated by
    an allocator equal to the one this wrapper will deallocate with, holds a live object, and
    the size says "owned, large"; pointing outside ⇒ size says "not owned" and the target lives. -/
def WOk (s : State) (i : Nat) (w : Wrapper) : Prop :=
  (w.self = none → w.bufObj = none) ∧
  (∀ j, w.self = some (.buf j) → j = i ∧ w.bufObj.isSome = true ∧
      ownsReferencedObject w.size = true ∧ allocateUsesSmallBuffer w.size s.cfg.sbs = true) ∧
  (∀ b, w.self = some (.blk b) → w.bufObj = none ∧ ownsReferencedObject w.size = true ∧
      allocateUsesSmallBuffer w.size s.cfg.sbs = false ∧ (s.blk b).live = true ∧
      (s.blk b).owner = i ∧ cls (s.blk b).alloc = cls w.alloc ∧ (s.blk b).obj.isSome = true) ∧
  (∀ k, w.self = some (.env k) → w.bufObj = none ∧ ownsReferencedObject w.size = false ∧
      (s.env k).isSome = true)

structure InvS (s : State) : Prop where
  /-- no ghost-heap check has failed: no double destroy, no destroy of an unconstructed object,
      no construction over a live object, no double free, no free through an unequal allocator,
      no dangling dispatch, no wrapper storage released with a live payload -/
  noErr : s.err = none
  wok : ∀ i w, s.wr i = some w → WOk s i w
  /-- every live block is pointed to by the wrapper recorded as its owner (no leak; together
      with `wok` two wrappers never point to the same block) -/
  blkOwner : ∀ b, (s.blk b).live = true →
    ∃ w, s.wr (s.blk b).owner = some w ∧ w.self = some (.blk b)
  deadEmpty : ∀ b, (s.blk b).live = false → (s.blk b).obj = none
  fresh : ∀ b, s.nblk ≤ b → (s.blk b).live = false
  /-- a block that is no longer live was returned through an allocator equal to its origin -/
  freedOk : ∀ b, b < s.nblk → (s.blk b).live = false →
    ∃ a, (s.blk b).freedBy = some a ∧ cls a = cls (s.blk b).alloc
  /-- the environment's objects have a genuine `sizeof` as type (not a sentinel) -/
  envTy : ∀ k o, s.env k = some o → ownsReferencedObject o.ty = true

theorem inv_init (cfg : Cfg) (a b : Nat) (ha : ownsReferencedObject a = true)
    (hb : ownsReferencedObject b = true) : InvS (initState cfg a b) := by
  constructor <;> simp [initState, deadBlock]
  intro k o
  split
  · intro h; cases h; exact ha
  · split
    · intro h; cases h; exact hb
    · intro h; cases h

/-- Two distinct slots never point to the same heap block. -/
theorem blocks_not_shared {s : State} (h : InvS s) {i j b : Nat} {wi wj : Wrapper}
    (hi : s.wr i = some wi) (hj : s.wr j = some wj)
    (si : wi.self = some (.blk b)) (sj : wj.self = some (.blk b)) : i = j := by
  have a := ((h.wok i wi hi).2.2.1 b si).2.2.2.2.1
  have c := ((h.wok j wj hj).2.2.1 b sj).2.2.2.2.1
  omega

/-- No wrapper's `self` points into another wrapper's small buffer. -/
theorem buffers_not_shared {s : State} (h : InvS s) {i j : Nat} {w : Wrapper}
    (hi : s.wr i = some w) (si : w.self = some (.buf j)) : j = i :=
  ((h.wok i w hi).2.1 j si).1

/-- `dispatch_own_object`: under the invariant a call through a non-empty wrapper is never
    dangling; it reaches the object living in the wrapper's own buffer, in the block this slot
    owns, or the referenced environment object — and returns that object's id and value. -/
theorem dispatch_own_object {s : State} (h : InvS s) {i : Nat} {w : Wrapper} {p : Loc}
    (hw : s.wr i = some w) (hs : w.self = some p) :
    ∃ o, objAt s p = some o ∧ (opGet s i).2 = .val o.id o.val ∧ (opGet s i).1.err = none ∧
      (match p with
       | .buf j => j = i ∧ w.bufObj = some o
       | .blk b => (s.blk b).owner = i ∧ (s.blk b).live = true
       | .env _ => ownsReferencedObject w.size = false) := by
  have k := h.wok i w hw
  cases p with
  | buf j =>
    obtain ⟨rfl, h2, _, _⟩ := k.2.1 j hs
    obtain ⟨o, ho⟩ := Option.isSome_iff_exists.mp h2
    exact ⟨o, by simp [objAt, hw, ho], by simp [opGet, deref, getW, hw, hs, objAt, ho],
      by simp [opGet, deref, getW, hw, hs, objAt, ho, emit, h.noErr], rfl, ho⟩
  | blk b =>
    obtain ⟨_, _, _, h5, h6, _, h8⟩ := k.2.2.1 b hs
    obtain ⟨o, ho⟩ := Option.isSome_iff_exists.mp h8
    exact ⟨o, by simp [objAt, ho], by simp [opGet, deref, getW, hw, hs, objAt, ho],
      by simp [opGet, deref, getW, hw, hs, objAt, ho, emit, h.noErr], h6, h5⟩
  | env k' =>
    obtain ⟨_, h3, h4⟩ := k.2.2.2 k' hs
    obtain ⟨o, ho⟩ := Option.isSome_iff_exists.mp h4
    exact ⟨o, by simp [objAt, ho], by simp [opGet, deref, getW, hw, hs, objAt, ho],
      by simp [opGet, deref, getW, hw, hs, objAt, ho, emit, h.noErr], h3⟩

/-! #### Frame lemmas -/

/-- `InvS` does not read the ghost counters, ids or the log. -/
theorem inv_ghost {s s' : State} (h : InvS s) (h1 : s'.cfg = s.cfg) (h2 : s'.wr = s.wr)
    (h3 : s'.blk = s.blk) (h4 : s'.env = s.env) (h5 : s'.nblk = s.nblk) (h6 : s'.err = s.err) :
    InvS s' := by
  obtain ⟨a, b, c, d, e, f, g⟩ := h
  constructor
  · rw [h6]; exact a
  · intro i w hw; rw [h2] at hw; have := b i w hw; simpa [WOk, h1, h3, h4] using this
  · intro b' hb; rw [h3] at hb ⊢; rw [h2]; exact c b' hb
  · intro b'; rw [h3]; exact d b'
  · intro b'; rw [h3, h5]; exact e b'
  · intro b'; rw [h3, h5]; exact f b'
  · intro k o; rw [h4]; exact g k o

/-- Replace the wrapper of slot `i` (or create it) by one that is fine w.r.t. the *same* heap and
    still points to every live block recorded for slot `i`. -/
theorem inv_setSlot {s : State} (h : InvS s) {i : Nat} (w' : Wrapper) (hok : WOk s i w')
    (hblk : ∀ b, (s.blk b).live = true → (s.blk b).owner = i → w'.self = some (.blk b)) :
    InvS { s with wr := upd s.wr i (some w') } := by
  obtain ⟨a, b, c, d, e, f, g⟩ := h
  constructor
  · exact a
  · intro j w hj
    simp only [upd] at hj
    split at hj
    · cases hj; subst_vars; exact hok
    · exact b j w hj
  · intro b' hb
    obtain ⟨w, hw1, hw2⟩ := c b' hb
    by_cases ho : (s.blk b').owner = i
    · exact ⟨w', by simp [upd, ho], hblk b' hb ho⟩
    · exact ⟨w, by simp [upd, ho, hw1], hw2⟩
  · exact d
  · exact e
  · exact f
  · exact g

/-- The owner wrapper of a live block recorded for slot `i` is the wrapper in slot `i`. -/
theorem owner_points {s : State} (h : InvS s) {i b : Nat} {w : Wrapper} (hw : s.wr i = some w)
    (hb : (s.blk b).live = true) (ho : (s.blk b).owner = i) : w.self = some (.blk b) := by
  obtain ⟨w2, h1, h2⟩ := h.blkOwner b hb
  rw [ho, hw] at h1; cases h1; exact h2

/-- A wrapper whose `self` is null (and buffer empty) can go away. -/
theorem inv_dropSlot {s : State} (h : InvS s) {i : Nat} {w : Wrapper} (hw : s.wr i = some w)
    (hs : w.self = none) : InvS { s with wr := upd s.wr i none } := by
  have hp := fun b hb ho => owner_points h hw (b := b) hb ho
  obtain ⟨a, b, c, d, e, f, g⟩ := h
  constructor
  · exact a
  · intro j w2 hj
    simp only [upd] at hj
    split at hj
    · cases hj
    · exact b j w2 hj
  · intro b' hb
    obtain ⟨w2, hw1, hw2⟩ := c b' hb
    by_cases ho : (s.blk b').owner = i
    · have := hp b' hb ho; rw [hs] at this; cases this
    · exact ⟨w2, by simp [upd, ho, hw1], hw2⟩
  · exact d
  · exact e
  · exact f
  · exact g

/-- Free the block slot `i` points to (after its object is gone) and null `self`. -/
theorem inv_freeBlock {s : State} (h : InvS s) {i b : Nat} {w : Wrapper} (hw : s.wr i = some w)
    (hs : w.self = some (.blk b)) (B : Block) (hB : B.live = false) (hO : B.obj = none)
    (hF : ∃ a, B.freedBy = some a ∧ cls a = cls B.alloc) :
    InvS { s with wr := upd s.wr i (some { w with self := none }), blk := upd s.blk b B } := by
  have hk := (h.wok i w hw).2.2.1 b hs
  have hns : ∀ {j w2}, s.wr j = some w2 → w2.self = some (.blk b) → j = i :=
    fun hj sj => blocks_not_shared h hj hw sj hs
  have hp := fun b' hb ho => owner_points h hw (b := b') hb ho
  obtain ⟨a, bb, c, d, e, f, g⟩ := h
  constructor
  · exact a
  · intro j w2 hj
    simp only [upd] at hj
    split at hj
    · cases hj
      refine ⟨fun _ => hk.1, ?_, ?_, ?_⟩ <;> intro x hx <;> simp at hx
    · rename_i hne
      have k2 := bb j w2 hj
      refine ⟨k2.1, k2.2.1, ?_, k2.2.2.2⟩
      intro b' hb'
      have hbb : b' ≠ b := by
        intro e'; subst e'; exact hne (hns hj hb')
      simpa [upd, hbb] using k2.2.2.1 b' hb'
  · intro b' hb
    by_cases hbb : b' = b
    · subst hbb; simp [upd, hB] at hb
    · simp only [upd, hbb, if_false] at hb ⊢
      obtain ⟨w2, hw1, hw2⟩ := c b' hb
      by_cases ho : (s.blk b').owner = i
      · have := hp b' hb ho; rw [hs] at this; cases this; exact absurd rfl hbb
      · exact ⟨w2, by simp [ho, hw1], hw2⟩
  · intro b' hb
    by_cases hbb : b' = b
    · subst hbb; simp [upd, hO]
    · simp only [upd, hbb, if_false] at hb ⊢; exact d b' hb
  · intro b' hb
    by_cases hbb : b' = b
    · subst hbb; simp [upd, hB]
    · simp only [upd, hbb, if_false]; exact e b' hb
  · intro b' hb hl
    by_cases hbb : b' = b
    · subst hbb; simpa [upd] using hF
    · simp only [upd, hbb, if_false] at hl ⊢; exact f b' hb hl
  · exact g

/-- `cleanup()` keeps the invariant and leaves the wrapper empty (buffer empty, `self` null);
    other slots are untouched. -/
theorem inv_wCleanup {s : State} (h : InvS s) {i : Nat} {w : Wrapper} (hw : s.wr i = some w) :
    InvS (wCleanup s i) ∧ (∃ w', (wCleanup s i).wr i = some w' ∧ w'.self = none ∧
      w'.alloc = w.alloc) ∧ ∀ j, j ≠ i → (wCleanup s i).wr j = s.wr j := by
  have hk := h.wok i w hw
  cases hs : w.self with
  | none =>
    have hb := hk.1 hs
    by_cases ho : ownsReferencedObject w.size = true
    · simp only [wCleanup, getW, hw, Option.getD_some, ho, hs]
      exact ⟨by simpa using h, ⟨w, by simpa using hw, hs, rfl⟩, fun j _ => by simp⟩
    · simp only [wCleanup, getW, hw, Option.getD_some, ho, modW]
      have ho' : ownsReferencedObject w.size = false := by simpa using ho
      simp only [Bool.not_false, ite_true]
      refine ⟨?_, ⟨_, upd_same _ _ _, rfl, rfl⟩, fun j hj => by simp [upd, hj]⟩
      apply inv_setSlot h
      · exact ⟨fun _ => hb, by simp, by simp, by simp⟩
      · intro b hb' ho'; have := owner_points h hw hb' ho'; rw [hs] at this; cases this
  | some p =>
    cases p with
    | buf j =>
      obtain ⟨rfl, h2, h3, h4⟩ := hk.2.1 j hs
      obtain ⟨o, ho⟩ := Option.isSome_iff_exists.mp h2
      have hd : deallocateUsesAllocator w.size s.cfg.sbs = false := by
        rw [(large_iff_not_small _ _).1, h4]; rfl
      simp only [wCleanup, getW, hw, Option.getD_some, h3, hs, destroyAt, objAt, ho, setObj, modW,
        emit, wDeallocate, upd_same, hd, upd_upd, Bool.not_true, Bool.false_eq_true, ite_false]
      refine ⟨?_, ⟨{ w with self := none, bufObj := none }, rfl, rfl, rfl⟩,
        fun j hj => by simp [upd, hj]⟩
      have hI := inv_setSlot h (i := j) { w with self := none, bufObj := none }
        ⟨fun _ => rfl, by simp, by simp, by simp⟩
        (by intro b hb' ho'; have := owner_points h hw hb' ho'; rw [hs] at this; cases this)
      exact inv_ghost hI rfl rfl rfl rfl rfl rfl
    | blk b =>
      obtain ⟨h2, h3, h4, h5, h6, h7, h8⟩ := hk.2.2.1 b hs
      obtain ⟨o, ho⟩ := Option.isSome_iff_exists.mp h8
      have hd : deallocateUsesAllocator w.size s.cfg.sbs = true := by
        rw [(large_iff_not_small _ _).1, h4]; rfl
      simp only [wCleanup, getW, hw, Option.getD_some, h3, hs, destroyAt, objAt, ho, setObj, modW,
        emit, wDeallocate, upd_same, hd, upd_upd, heapFree, h5, h7, Bool.not_true,
        Bool.false_eq_true, ite_false, ite_true, bne_self_eq_false, Option.isSome_none]
      refine ⟨?_, ⟨{ w with self := none }, rfl, rfl, rfl⟩, fun j hj => by simp [upd, hj]⟩
      have hI := inv_freeBlock h hw hs
        ⟨(s.blk b).alloc, (s.blk b).size, false, none, (s.blk b).owner, some w.alloc⟩ rfl rfl
        ⟨w.alloc, rfl, h7.symm⟩
      exact inv_ghost hI rfl rfl rfl rfl rfl rfl
    | env k =>
      obtain ⟨h2, h3, h4⟩ := hk.2.2.2 k hs
      simp only [wCleanup, getW, hw, Option.getD_some, h3, modW, Bool.not_false, ite_true]
      refine ⟨?_, ⟨_, upd_same _ _ _, rfl, rfl⟩, fun j hj => by simp [upd, hj]⟩
      apply inv_setSlot h
      · exact ⟨fun _ => h2, by simp, by simp, by simp⟩
      · intro b hb' ho'; have := owner_points h hw hb' ho'; rw [hs] at this; cases this

/-- Destroying a wrapper (`~TypeErased`: cleanup, then the storage goes away). -/
theorem inv_opDel {s : State} (h : InvS s) {i : Nat} {w : Wrapper} (hw : s.wr i = some w) :
    InvS (opDel s i).1 ∧ (opDel s i).1.wr i = none ∧ ∀ j, j ≠ i → (opDel s i).1.wr j = s.wr j := by
  obtain ⟨hI, ⟨w', hw', hs', _⟩, hfr⟩ := inv_wCleanup h hw
  have hb := (hI.wok i w' hw').1 hs'
  simp only [opDel, dropW, getW, hw', Option.getD_some, hb, hs', Option.isSome_none,
    Bool.false_eq_true, ite_false]
  exact ⟨inv_dropSlot hI hw' hs', by simp, fun j hj => by simp [upd, hj, hfr j hj]⟩

theorem inv_emit {s : State} (h : InvS s) (e : Ev) : InvS (emit s e) :=
  inv_ghost h rfl rfl rfl rfl rfl rfl

theorem inv_newW {s : State} (h : InvS s) {i : Nat} (hf : s.wr i = none) (w' : Wrapper)
    (hok : WOk s i w') : InvS { s with wr := upd s.wr i (some w') } := by
  apply inv_setSlot h w' hok
  intro b hb ho
  obtain ⟨w, hw1, _⟩ := h.blkOwner b hb
  rw [ho, hf] at hw1; cases hw1

theorem inv_deref {s : State} (h : InvS s) {i : Nat} {w : Wrapper} (hw : s.wr i = some w) :
    InvS (deref s w).1 := by
  cases hs : w.self with
  | none => simpa [deref, hs] using h
  | some p =>
    obtain ⟨o, ho, _, _, _⟩ := dispatch_own_object h hw hs
    simpa [deref, hs, ho] using inv_emit h _

theorem inv_opAccess {s : State} (h : InvS s) (gs : List Guard) {i : Nat} (ty : Nat) {w : Wrapper}
    (hw : s.wr i = some w) : InvS (opAccess s gs i ty).1 := by
  simp only [opAccess, getW, hw, Option.getD_some]
  split
  · exact h
  · split
    · exact inv_deref h hw
    · exact h


end Alpaqa.Proofs.C16
