/-
  C11: the carrier assumptions (`Lawful`) are satisfiable — `ℝ` with `Real.sqrt` and the usual
  `copysign` is an instance, so none of the C11 theorems is vacuous.
-/
import Mathlib.Analysis.Real.Sqrt
import Alpaqa.Proofs.C11Scalar

namespace Alpaqa.C11
open Alpaqa

/-- `ℝ` as a carrier of the model: `sqrt = Real.sqrt`, nothing is NaN, everything is finite. -/
noncomputable scoped instance realLikeReal : RealLike ℝ := ⟨Real.sqrt, fun _ => false, fun _ => true⟩

/-- `std::copysign` on `ℝ` (`y = 0` counts as positive). -/
noncomputable def csReal (x y : ℝ) : ℝ := if y < 0 then -|x| else |x|

theorem lawful_real : Lawful csReal where
  sqrt_mul_self := fun a ha => Real.mul_self_sqrt ha
  sqrt_nonneg := fun a _ => Real.sqrt_nonneg a
  not_nan := fun _ => rfl
  finite := fun _ => rfl
  cs_pos := by intro x y hy; simp [csReal, not_lt.mpr hy.le]
  cs_neg := by intro x y hy; simp [csReal, hy]
  cs_abs := by intro x y; unfold csReal; split_ifs <;> simp

end Alpaqa.C11
