/-
  C11 helper lemmas, part 5: the reduced Hessian operator of Newton-TR, `v ↦ (H (scatter_J v))_J`, is
  linear and symmetric whenever `H` is — so every Steihaug theorem applies to the run inside
  `NewtonTRDirection::apply`.
-/
import Alpaqa.Proofs.C11Step
import Mathlib.Algebra.BigOperators.Group.Finset.Basic
import Mathlib.Algebra.BigOperators.Ring.Finset
namespace Alpaqa.C11
open Alpaqa Alpaqa.Gen.C11
set_option linter.unusedSectionVars false
set_option linter.unusedVariables false

section restricted
variable {α : Type} [Field α]

theorem vget_cons_zero (x : α) (a : List α) : vget (x :: a) 0 = x := rfl
theorem vget_cons_succ (x : α) (a : List α) (i : Nat) : vget (x :: a) (i + 1) = vget a i := rfl
theorem vget_nil (i : Nat) : vget ([] : List α) i = 0 := rfl

theorem vget_vadd (x y : List α) (h : x.length = y.length) (i : Nat) :
    vget (vadd x y) i = vget x i + vget y i := by
  induction x generalizing y i with
  | nil => cases y with
    | nil => simp [vget_nil]
    | cons _ _ => simp at h
  | cons a x ih => cases y with
    | nil => simp at h
    | cons b y => cases i with
      | zero => simp [vget_cons_zero]
      | succ i => simp only [vadd_cons, vget_cons_succ]; exact ih y (by simpa using h) i

theorem vget_smul (c : α) (x : List α) (i : Nat) : vget (smul c x) i = c * vget x i := by
  induction x generalizing i with
  | nil => simp [vget_nil]
  | cons a x ih => cases i with
    | zero => simp [vget_cons_zero]
    | succ i => simp only [smul_cons, vget_cons_succ]; exact ih i

theorem vget_zeros (n i : Nat) : vget (zeros n : List α) i = 0 := by
  simp only [vget, zeros, List.getD_eq_getElem?_getD, List.getElem?_replicate]
  split_ifs <;> rfl

theorem gather_vadd (J : List Nat) (x y : List α) (h : x.length = y.length) :
    gather J (vadd x y) = vadd (gather J x) (gather J y) := by
  induction J with
  | nil => rfl
  | cons j J ih => simp only [gather, List.map_cons, vadd_cons, vget_vadd x y h] at ih ⊢; rw [ih]

theorem gather_smul (J : List Nat) (c : α) (x : List α) :
    gather J (smul c x) = smul c (gather J x) := by
  induction J with
  | nil => rfl
  | cons j J ih => simp only [gather, List.map_cons, smul_cons, vget_smul] at ih ⊢; rw [ih]

theorem vadd_map (l : List Nat) (f g : Nat → α) :
    vadd (l.map f) (l.map g) = l.map (fun i => f i + g i) := by
  induction l with
  | nil => rfl
  | cons a l ih => simp only [List.map_cons, vadd_cons, ih]

theorem smul_map (l : List Nat) (c : α) (f : Nat → α) :
    smul c (l.map f) = l.map (fun i => c * f i) := by
  induction l with
  | nil => rfl
  | cons a l ih => simp only [List.map_cons, smul_cons, ih]

theorem overlay_zeros_vadd (n : Nat) (J : List Nat) (u v : List α) (h : u.length = v.length) :
    overlay (zeros n) J (vadd u v) = vadd (overlay (zeros n) J u) (overlay (zeros n) J v) := by
  unfold overlay
  rw [vadd_map]
  apply List.map_congr_left
  intro i _
  cases J.findIdx? (· == i) with
  | none => simp [vget_zeros]
  | some k => simp [vget_vadd u v h]

theorem overlay_zeros_smul (n : Nat) (J : List Nat) (c : α) (v : List α) :
    overlay (zeros n) J (smul c v) = smul c (overlay (zeros n) J v) := by
  unfold overlay
  rw [smul_map]
  apply List.map_congr_left
  intro i _
  cases J.findIdx? (· == i) with
  | none => simp [vget_zeros]
  | some k => simp [vget_smul]

open Finset in
theorem dot_eq_sum (n : Nat) (a b : List α) (ha : a.length = n) (hb : b.length = n) :
    dot a b = ∑ i ∈ range n, vget a i * vget b i := by
  induction a generalizing b n with
  | nil => subst ha; simp
  | cons x a ih => cases b with
    | nil => subst ha; simp at hb
    | cons y b =>
      cases n with
      | zero => simp at ha
      | succ m =>
        rw [dot_cons, Finset.sum_range_succ', ih m b (by simpa using ha) (by simpa using hb)]
        simp only [vget_cons_succ, vget_cons_zero]; ring


theorem getD_of_lt (J : List Nat) (k d : Nat) (hk : k < J.length) : J.getD k d = J[k] := by
  simp [List.getD_eq_getElem?_getD, List.getElem?_eq_getElem hk]

theorem vget_gather (J : List Nat) (x : List α) (k : Nat) (hk : k < J.length) :
    vget (gather J x) k = vget x J[k] := by
  simp [gather, vget, List.getD_eq_getElem?_getD, List.getElem?_map, List.getElem?_eq_getElem hk]

theorem vget_scatter (n : Nat) (J : List Nat) (v : List α) (i : Nat) (hi : i < n) :
    vget (overlay (zeros n) J v) i =
      match J.findIdx? (· == i) with
      | some k => vget v k
      | none => 0 := by
  simp only [overlay, vget, length_zeros, List.getD_eq_getElem?_getD, List.getElem?_map,
    List.getElem?_range hi, Option.map_some, Option.getD_some]
  cases J.findIdx? (· == i) with
  | none => exact vget_zeros n i
  | some k => rfl

open Finset in
/-- For a duplicate-free `J` the scattered vector is `∑ₖ vₖ · e_{J k}`. -/
theorem scatter_eq_sum (J : List Nat) (hn : J.Nodup) (v : List α) (i : Nat) :
    (match J.findIdx? (· == i) with
      | some k => vget v k
      | none => (0 : α)) = ∑ k ∈ range J.length, if J.getD k i.succ = i then vget v k else 0 := by
  cases hf : J.findIdx? (· == i) with
  | none =>
    rw [List.findIdx?_eq_none_iff] at hf
    symm; apply Finset.sum_eq_zero
    intro k hk
    have hk' : k < J.length := Finset.mem_range.mp hk
    have : J.getD k i.succ ≠ i := by
      rw [getD_of_lt _ _ _ hk']
      intro h
      have := hf J[k] (List.getElem_mem hk')
      simp [h] at this
    rw [if_neg this]
  | some k0 =>
    rw [List.findIdx?_eq_some_iff_getElem] at hf
    obtain ⟨hk0, he, _⟩ := hf
    have he' : J[k0] = i := by simpa using he
    symm
    rw [Finset.sum_eq_single k0]
    · rw [if_pos (by rw [getD_of_lt _ _ _ hk0]; exact he')]
    · intro k hk hne
      have hk' : k < J.length := Finset.mem_range.mp hk
      have : J.getD k i.succ ≠ i := by
        rw [getD_of_lt _ _ _ hk']
        intro h
        exact hne ((hn.getElem_inj_iff).mp (h.trans he'.symm))
      rw [if_neg this]
    · intro h; exact absurd (Finset.mem_range.mpr hk0) h

open Finset in
/-- `⟨x_J, v⟩ = ⟨x, scatter v⟩`: gathering and scattering are adjoint. -/
theorem gather_scatter_adjoint (n : Nat) (J : List Nat) (hn : J.Nodup) (hJ : ∀ j ∈ J, j < n)
    (x v : List α) (hx : x.length = n) (hv : v.length = J.length) :
    dot (gather J x) v = dot x (overlay (zeros n) J v) := by
  rw [dot_eq_sum J.length _ _ (by simp [gather]) hv,
      dot_eq_sum n _ _ hx (by simp [overlay])]
  have h2 : ∀ i ∈ range n, vget x i * vget (overlay (zeros n) J v) i =
      ∑ k ∈ range J.length, if J.getD k i.succ = i then vget x i * vget v k else 0 := by
    intro i hi
    rw [vget_scatter n J v i (Finset.mem_range.mp hi), scatter_eq_sum J hn v i, Finset.mul_sum]
    apply Finset.sum_congr rfl
    intro k _; split_ifs <;> simp
  rw [Finset.sum_congr rfl h2, Finset.sum_comm]
  apply Finset.sum_congr rfl
  intro k hk
  have hk' : k < J.length := Finset.mem_range.mp hk
  have hlt : J[k] < n := hJ _ (List.getElem_mem hk')
  rw [vget_gather J x k hk', Finset.sum_eq_single J[k]]
  · rw [if_pos (getD_of_lt _ _ _ hk')]
  · intro i _ hne
    have : J.getD k i.succ ≠ i := by
      rw [getD_of_lt _ _ _ hk']; exact fun h => hne h.symm
    rw [if_neg this]
  · intro h; exact absurd (Finset.mem_range.mpr hlt) h


theorem length_gather (J : List Nat) (x : List α) : (gather J x).length = J.length := by simp [gather]
theorem length_overlay' (base : List α) (J : List Nat) (w : List α) :
    (overlay base J w).length = base.length := by simp [overlay]

/-- The reduced operator `hess_vec_mult` of `NewtonTRDirection::apply` inherits linearity and symmetry. -/
theorem restricted_symLin {n : Nat} {H : Vec α → Vec α} (hH : SymLin n H) (J : List Nat)
    (hn : J.Nodup) (hJ : ∀ j ∈ J, j < n) :
    SymLin J.length (fun v => gather J (H (overlay (zeros n) J v))) where
  len := fun v _ => length_gather J _
  add := by
    intro u v hu hv
    have lu : (overlay (zeros n) J u).length = n := by rw [length_overlay', length_zeros]
    have lv : (overlay (zeros n) J v).length = n := by rw [length_overlay', length_zeros]
    show gather J (H (overlay (zeros n) J (vadd u v))) = _
    rw [overlay_zeros_vadd n J u v (by rw [hu, hv]), hH.add _ _ lu lv,
        gather_vadd J _ _ (by rw [hH.len _ lu, hH.len _ lv])]
  smul := by
    intro c v hv
    have lv : (overlay (zeros n) J v).length = n := by rw [length_overlay', length_zeros]
    show gather J (H (overlay (zeros n) J (smul c v))) = _
    rw [overlay_zeros_smul, hH.smul c _ lv, gather_smul]
  sym := by
    intro u v hu hv
    have lu : (overlay (zeros n) J u).length = n := by rw [length_overlay', length_zeros]
    have lv : (overlay (zeros n) J v).length = n := by rw [length_overlay', length_zeros]
    show dot u (gather J (H (overlay (zeros n) J v))) = dot (gather J (H (overlay (zeros n) J u))) v
    rw [dot_comm u, gather_scatter_adjoint n J hn hJ _ u (hH.len _ lv) hu,
        gather_scatter_adjoint n J hn hJ _ v (hH.len _ lu) hv,
        dot_comm, hH.sym _ _ lu lv]

end restricted
/-! ### the index-set split `J` / `K = complement J`: partition of unity, gather ∘ overlay -/
section full
variable {α : Type} [Field α]

theorem complement_nodup (J : List Nat) (n : Nat) : (complement J n).Nodup := by
  unfold complement
  exact List.Nodup.filter _ List.nodup_range

theorem mem_complement' (J : List Nat) (n i : Nat) : i ∈ complement J n ↔ i < n ∧ i ∉ J := by
  simp [complement]

theorem complement_lt (J : List Nat) (n : Nat) : ∀ j ∈ complement J n, j < n :=
  fun j hj => ((mem_complement' J n j).mp hj).1

theorem findIdx?_of_not_mem (J : List Nat) (i : Nat) (h : i ∉ J) : J.findIdx? (· == i) = none := by
  rw [List.findIdx?_eq_none_iff]
  intro x hx
  exact beq_eq_false_iff_ne.mpr (fun he => h (he ▸ hx))

theorem findIdx?_of_mem (J : List Nat) (i : Nat) (h : i ∈ J) :
    ∃ k, ∃ hk : k < J.length, J.findIdx? (· == i) = some k ∧ J[k] = i := by
  cases hf : J.findIdx? (· == i) with
  | none =>
    rw [List.findIdx?_eq_none_iff] at hf
    have := hf i h
    simp at this
  | some k =>
    rw [List.findIdx?_eq_some_iff_getElem] at hf
    obtain ⟨hk, he, _⟩ := hf
    exact ⟨k, hk, rfl, by simpa using he⟩

/-- Coordinates of `overlay base J w` (for `w` as long as `J`). -/
theorem vget_overlay (base : List α) (J : List Nat) (w : List α) (i : Nat) (hi : i < base.length) :
    vget (overlay base J w) i =
      match J.findIdx? (· == i) with
      | some k => vget w k
      | none => vget base i := by
  simp only [overlay, vget, List.getD_eq_getElem?_getD, List.getElem?_map,
    List.getElem?_range hi, Option.map_some, Option.getD_some]
  cases J.findIdx? (· == i) <;> rfl

theorem vec_eq_map_range (x : List α) : x = (List.range x.length).map (vget x) := by
  apply List.ext_getElem
  · simp
  · intro i h1 h2
    simp [vget, List.getD_eq_getElem?_getD, List.getElem?_eq_getElem h1]

/-- Partition of unity: a vector is the sum of its `J`-part and its `K`-part scattered back. -/
theorem scatter_partition (J : List Nat) (n : Nat) (x : List α) (hx : x.length = n) :
    vadd (overlay (zeros n) J (gather J x)) (overlay (zeros n) (complement J n) (gather (complement J n) x))
      = x := by
  conv_rhs => rw [vec_eq_map_range x, hx]
  unfold overlay
  rw [length_zeros, vadd_map]
  apply List.map_congr_left
  intro i hi
  have hin : i < n := List.mem_range.mp hi
  by_cases hJ : i ∈ J
  · obtain ⟨k, hk, hf, he⟩ := findIdx?_of_mem J i hJ
    have hK : i ∉ complement J n := fun h => ((mem_complement' J n i).mp h).2 hJ
    rw [hf, findIdx?_of_not_mem _ i hK]
    simp only [vget_zeros, add_zero]
    rw [vget_gather J x k hk, he]
  · have hK : i ∈ complement J n := (mem_complement' J n i).mpr ⟨hin, hJ⟩
    obtain ⟨k, hk, hf, he⟩ := findIdx?_of_mem _ i hK
    rw [hf, findIdx?_of_not_mem _ i hJ]
    simp only [vget_zeros, zero_add]
    rw [vget_gather _ x k hk, he]

/-- `q⁰ = overlay p J 0` (the code's `q(K) = p(K); q(J) = 0`) is the `K`-part of `p` scattered. -/
theorem overlay_zero_eq_scatterK (J : List Nat) (p : List α) :
    overlay p J (zeros J.length)
      = overlay (zeros p.length) (complement J p.length) (gather (complement J p.length) p) := by
  unfold overlay
  rw [length_zeros]
  apply List.map_congr_left
  intro i hi
  have hin : i < p.length := List.mem_range.mp hi
  by_cases hJ : i ∈ J
  · obtain ⟨k, hk, hf, he⟩ := findIdx?_of_mem J i hJ
    have hK : i ∉ complement J p.length := fun h => ((mem_complement' J _ i).mp h).2 hJ
    rw [hf, findIdx?_of_not_mem _ i hK]
    simp [vget_zeros]
  · have hK : i ∈ complement J p.length := (mem_complement' J _ i).mpr ⟨hin, hJ⟩
    obtain ⟨k, hk, hf, he⟩ := findIdx?_of_mem _ i hK
    rw [hf, findIdx?_of_not_mem _ i hJ]
    simp only
    rw [vget_gather _ p k hk, he]

/-- Gathering what was overlaid on `J` gives it back (duplicate-free, in-range `J`). -/
theorem gather_overlay_self (base : List α) (J : List Nat) (w : List α) (hn : J.Nodup)
    (hJ : ∀ j ∈ J, j < base.length) (hw : w.length = J.length) : gather J (overlay base J w) = w := by
  apply List.ext_getElem
  · simp [gather, hw]
  · intro k h1 h2
    have hk : k < J.length := by simpa [gather] using h1
    have hlt : J[k] < base.length := hJ _ (List.getElem_mem hk)
    have h3 : vget (gather J (overlay base J w)) k = vget w k := by
      rw [vget_gather _ _ k hk, vget_overlay base J w _ hlt]
      have hsome : J.findIdx? (· == J[k]) = some k := by
        rw [List.findIdx?_eq_some_iff_getElem]
        refine ⟨hk, by simp, ?_⟩
        intro j hj
        simp only [beq_iff_eq]
        intro h
        have := (hn.getElem_inj_iff).mp h
        omega
      rw [hsome]
    simpa [vget, List.getD_eq_getElem?_getD, List.getElem?_eq_getElem h1, List.getElem?_eq_getElem h2] using h3

/-- Gathering on the complement sees only the base. -/
theorem gather_overlay_compl (base : List α) (J : List Nat) (w : List α) :
    gather (complement J base.length) (overlay base J w) = gather (complement J base.length) base := by
  unfold gather
  apply List.map_congr_left
  intro i hi
  obtain ⟨hlt, hnot⟩ := (mem_complement' J _ i).mp hi
  rw [vget_overlay base J w i hlt, findIdx?_of_not_mem _ i hnot]

end full

end Alpaqa.C11
