/-
  C10, `LimitedMemoryQR::remove_column()`: the Givens sweep that re-triangularises the ring-ordered
  `R` after the oldest column is dropped.  Closed form of the inner column loop (`innerLoop_spec`),
  effect of one trip of the sweep (`sweepStep_spec`), the sweep invariants (`ReprInv`, `OrthInv`)
  and the four theorems `removeColumn_idx / _ring / _represents / _orth`.
-/
import Alpaqa.Proofs.C10Basic
namespace Alpaqa.C10
open Finset Alpaqa Alpaqa.Gen
set_option linter.unusedSectionVars false
set_option linter.unusedVariables false
variable {α : Type} [Field α] [LinearOrder α] [IsStrictOrderedRing α] [RealLike α]

theorem rotPair_eq (c s x y : α) : rotPair c s x y = (c * x - s * y, s * x + c * y) := by
  unfold rotPair
  split_ifs with h
  · simp only [Bool.and_eq_true, beq_iff_eq] at h
    obtain ⟨h1, h2⟩ := h
    subst h1; subst h2
    simp
  · rfl

theorem rotRows_apply (c s : α) (t cc : ℕ) (R : ℕ → ℕ → α) (i j : ℕ) :
    rotRows c s t cc R i j =
      if j = cc then (if i = t then c * R t cc - s * R (t + 1) cc
        else if i = t + 1 then s * R t cc + c * R (t + 1) cc else R i j) else R i j := by
  simp only [rotRows, rotPair_eq]

theorem rotCols_apply (c s : α) (t : ℕ) (Q : ℕ → ℕ → α) (i j : ℕ) :
    rotCols c s t Q i j =
      if j = t then c * Q i t - s * Q i (t + 1)
      else if j = t + 1 then s * Q i t + c * Q i (t + 1) else Q i j := by
  simp only [rotCols, rotPair_eq]

theorem succ_slot (m rs k : ℕ) (hm : 0 < m) :
    lmqrSucc m ((rs + k) % m) = (rs + (k + 1)) % m := by
  rw [lmqrSucc_eq (Nat.mod_lt _ hm), mod_succ_step]

/-- closed form of the inner `for (cc = …; cc != r_idx_end; cc = r_succ(cc))` loop: rows `t`, `t+1`
    of the storage columns of the logical columns `lo … K-1` are rotated, nothing else changes. -/
theorem innerLoop_spec (m rs K : ℕ) (hm : 0 < m) (c s : α) (t : ℕ) :
    ∀ d lo fuel (R : ℕ → ℕ → α), lo + d = K → d < m → d < fuel →
      (∀ i j, (∀ k, lo ≤ k → k < K → j ≠ (rs + k) % m) →
        innerLoop m ((rs + K) % m) c s t fuel ((rs + lo) % m) R i j = R i j) ∧
      (∀ k, lo ≤ k → k < K → ∀ i,
        innerLoop m ((rs + K) % m) c s t fuel ((rs + lo) % m) R i ((rs + k) % m) =
          if i = t then c * R t ((rs + k) % m) - s * R (t + 1) ((rs + k) % m)
          else if i = t + 1 then s * R t ((rs + k) % m) + c * R (t + 1) ((rs + k) % m)
          else R i ((rs + k) % m)) := by
  intro d
  induction d with
  | zero =>
    intro lo fuel R hK _ hf
    obtain ⟨f, rfl⟩ : ∃ f, fuel = f + 1 := ⟨fuel - 1, by omega⟩
    have e : lo = K := by omega
    subst e
    refine ⟨fun i j _ => ?_, fun k h1 h2 => by omega⟩
    simp [innerLoop, lmqrInnerCond]
  | succ d ih =>
    intro lo fuel R hK hd hf
    obtain ⟨f, rfl⟩ : ∃ f, fuel = f + 1 := ⟨fuel - 1, by omega⟩
    have hne : (rs + lo) % m ≠ (rs + K) % m := slot_inj (by omega) (by omega)
    have hstep : ∀ R' : ℕ → ℕ → α,
        innerLoop m ((rs + K) % m) c s t (f + 1) ((rs + lo) % m) R' =
        innerLoop m ((rs + K) % m) c s t f ((rs + (lo + 1)) % m)
          (rotRows c s t ((rs + lo) % m) R') := by
      intro R'
      rw [innerLoop]
      simp only [lmqrInnerCond, bne_iff_ne, ne_eq, hne, not_false_eq_true, if_true, lmqrInnerStep,
        succ_slot m rs lo hm]
    obtain ⟨ia, ib⟩ := ih (lo + 1) f (rotRows c s t ((rs + lo) % m) R) (by omega) (by omega) (by omega)
    rw [hstep]
    refine ⟨fun i j hj => ?_, fun k h1 h2 i => ?_⟩
    · rw [ia i j (fun k h1 h2 => hj k (by omega) h2), rotRows_apply,
        if_neg (hj lo (le_refl _) (by omega))]
    · by_cases hk : k = lo
      · subst hk
        rw [ia i _ (fun k' h1' h2' => slot_inj (by omega) (by omega)), rotRows_apply, if_pos rfl]
      · have hne' : (rs + k) % m ≠ (rs + lo) % m := (slot_inj (by omega) (by omega)).symm
        rw [ib k (by omega) h2 i]
        simp only [rotRows_apply, if_neg hne']

/-- the Givens triple `sweepStep` uses -/
def sweepGiv (giv : α → α → α × α × α) (w : Sweep α) : α × α × α :=
  giv (w.R w.r w.c) (w.R (w.r + 1) w.c)

theorem sweepStep_spec (giv : α → α → α × α × α) (m rs K : ℕ) (hm : 0 < m) (hKm : K ≤ m)
    (w : Sweep α) (ht : w.r + 1 < K) (hc : w.c = (rs + (w.r + 1)) % m) :
    (sweepStep giv m ((rs + K) % m) w).r = w.r + 1 ∧
    (sweepStep giv m ((rs + K) % m) w).c = (rs + (w.r + 2)) % m ∧
    (∀ i j, (sweepStep giv m ((rs + K) % m) w).Q i j =
      if j = w.r then (sweepGiv giv w).1 * w.Q i w.r - (sweepGiv giv w).2.1 * w.Q i (w.r + 1)
      else if j = w.r + 1 then
        (sweepGiv giv w).2.1 * w.Q i w.r + (sweepGiv giv w).1 * w.Q i (w.r + 1)
      else w.Q i j) ∧
    (∀ i, (sweepStep giv m ((rs + K) % m) w).R i ((rs + (w.r + 1)) % m) =
      if i = w.r then (sweepGiv giv w).2.2 else w.R i ((rs + (w.r + 1)) % m)) ∧
    (∀ k, w.r + 2 ≤ k → k < K → ∀ i, (sweepStep giv m ((rs + K) % m) w).R i ((rs + k) % m) =
      if i = w.r then (sweepGiv giv w).1 * w.R w.r ((rs + k) % m) -
          (sweepGiv giv w).2.1 * w.R (w.r + 1) ((rs + k) % m)
      else if i = w.r + 1 then (sweepGiv giv w).2.1 * w.R w.r ((rs + k) % m) +
          (sweepGiv giv w).1 * w.R (w.r + 1) ((rs + k) % m)
      else w.R i ((rs + k) % m)) ∧
    (∀ k, k ≤ w.r → ∀ i, (sweepStep giv m ((rs + K) % m) w).R i ((rs + k) % m) =
      w.R i ((rs + k) % m)) := by
  have hsp := innerLoop_spec m rs K hm (sweepGiv giv w).1 (sweepGiv giv w).2.1 w.r
    (K - (w.r + 2)) (w.r + 2) m
    (fun i j => if i = w.r ∧ j = w.c then (sweepGiv giv w).2.2 else w.R i j)
    (by omega) (by omega) (by omega)
  obtain ⟨ha, hb⟩ := hsp
  have hinit : lmqrInnerInit m w.c = (rs + (w.r + 2)) % m := by
    rw [lmqrInnerInit, hc, succ_slot m rs _ hm]
  have hR : (sweepStep giv m ((rs + K) % m) w).R =
      innerLoop m ((rs + K) % m) (sweepGiv giv w).1 (sweepGiv giv w).2.1 w.r m
        ((rs + (w.r + 2)) % m)
        (fun i j => if i = w.r ∧ j = w.c then (sweepGiv giv w).2.2 else w.R i j) := by
    simp only [sweepStep, sweepGiv, hinit]
  refine ⟨?_, ?_, ?_, ?_, ?_, ?_⟩
  · simp only [sweepStep, lmqrRemoveAdvance]
  · simp only [sweepStep, lmqrRemoveAdvance, hc, succ_slot m rs _ hm]
  · intro i j
    simp only [sweepStep, sweepGiv, rotCols_apply]
  · intro i
    rw [hR, ha i _ (fun k h1 h2 => slot_inj (by omega) (by omega)), hc]
    simp only [and_true]
  · intro k h1 h2 i
    have hne : (rs + k) % m ≠ w.c := by rw [hc]; exact (slot_inj (by omega) (by omega)).symm
    rw [hR, hb k h1 h2 i]
    simp only [hne, and_false, if_false]
  · intro k h1 i
    have hne : (rs + k) % m ≠ w.c := by rw [hc]; exact slot_inj (by omega) (by omega)
    rw [hR, ha i _ (fun k' h1' h2' => slot_inj (by omega) (by omega))]
    simp only [hne, and_false, if_false]

/-- changing two adjacent terms of a sum without changing their total -/
theorem sum_range_pair (n t : ℕ) (h : t + 1 < n) (f f' : ℕ → α)
    (hne : ∀ i, i ≠ t → i ≠ t + 1 → f' i = f i) (hp : f' t + f' (t + 1) = f t + f (t + 1)) :
    ∑ i ∈ range n, f' i = ∑ i ∈ range n, f i := by
  obtain ⟨d, rfl⟩ : ∃ d, n = (t + 2) + d := ⟨n - (t + 2), by omega⟩
  rw [Finset.sum_range_add, Finset.sum_range_add f, Finset.sum_range_succ, Finset.sum_range_succ,
    Finset.sum_range_succ f, Finset.sum_range_succ f]
  have e1 : ∑ x ∈ range t, f' x = ∑ x ∈ range t, f x :=
    Finset.sum_congr rfl fun i hi => by
      simp only [Finset.mem_range] at hi; exact hne i (by omega) (by omega)
  have e2 : ∑ x ∈ range d, f' (t + 2 + x) = ∑ x ∈ range d, f (t + 2 + x) :=
    Finset.sum_congr rfl fun i _ => hne _ (by omega) (by omega)
  rw [e1, e2]
  linear_combination hp

/-- Sweep invariant for `Q R = A`: after `t` rotations the logical columns `1 … t` are already
    triangular (only rows `< k` are used), the later ones still Hessenberg (rows `≤ k`). -/
def ReprInv (m rs K t : ℕ) (Q R B : ℕ → ℕ → α) : Prop :=
  ∀ k, 1 ≤ k → k < K → ∀ j,
    ∑ i ∈ range (if k ≤ t then k else k + 1), Q j i * R i ((rs + k) % m) = B k j

theorem reprInv_step (m rs K t : ℕ) (Q R Q' R' B : ℕ → ℕ → α) (c s ρ : α)
    (hcs : c * c + s * s = 1)
    (hρ : ρ = c * R t ((rs + (t + 1)) % m) - s * R (t + 1) ((rs + (t + 1)) % m))
    (h0 : s * R t ((rs + (t + 1)) % m) + c * R (t + 1) ((rs + (t + 1)) % m) = 0)
    (hQ : ∀ i j, Q' i j = if j = t then c * Q i t - s * Q i (t + 1)
      else if j = t + 1 then s * Q i t + c * Q i (t + 1) else Q i j)
    (hR1 : ∀ i, R' i ((rs + (t + 1)) % m) = if i = t then ρ else R i ((rs + (t + 1)) % m))
    (hR2 : ∀ k, t + 2 ≤ k → k < K → ∀ i, R' i ((rs + k) % m) =
      if i = t then c * R t ((rs + k) % m) - s * R (t + 1) ((rs + k) % m)
      else if i = t + 1 then s * R t ((rs + k) % m) + c * R (t + 1) ((rs + k) % m)
      else R i ((rs + k) % m))
    (hR3 : ∀ k, k ≤ t → ∀ i, R' i ((rs + k) % m) = R i ((rs + k) % m))
    (hI : ReprInv m rs K t Q R B) : ReprInv m rs K (t + 1) Q' R' B := by
  intro k h1 h2 j
  rcases Nat.lt_trichotomy k (t + 1) with hk | hk | hk
  · rw [← hI k h1 h2 j, if_pos (by omega), if_pos (by omega)]
    refine Finset.sum_congr rfl fun i hi => ?_
    simp only [Finset.mem_range] at hi
    rw [hQ, if_neg (by omega), if_neg (by omega), hR3 k (by omega)]
  · subst hk
    rw [← hI (t + 1) h1 h2 j, if_pos (le_refl _), if_neg (by omega), Finset.sum_range_succ,
      Finset.sum_range_succ _ (t + 1), Finset.sum_range_succ _ t]
    have e1 : ∑ x ∈ range t, Q' j x * R' x ((rs + (t + 1)) % m) =
        ∑ x ∈ range t, Q j x * R x ((rs + (t + 1)) % m) :=
      Finset.sum_congr rfl fun i hi => by
        simp only [Finset.mem_range] at hi
        rw [hQ, if_neg (by omega), if_neg (by omega), hR1, if_neg (by omega)]
    rw [e1, hQ, if_pos rfl, hR1, if_pos rfl, hρ]
    linear_combination (Q j t * R t ((rs + (t + 1)) % m) +
        Q j (t + 1) * R (t + 1) ((rs + (t + 1)) % m)) * hcs +
      (-(s * Q j t) - c * Q j (t + 1)) * h0
  · rw [← hI k h1 h2 j, if_neg (by omega), if_neg (by omega)]
    apply sum_range_pair (k + 1) t (by omega)
    · intro i hi1 hi2
      rw [hQ, if_neg hi1, if_neg hi2, hR2 k (by omega) h2, if_neg hi1, if_neg hi2]
    · rw [hQ, if_pos rfl, hQ j (t + 1), if_neg (by omega), if_pos rfl, hR2 k (by omega) h2,
        if_pos rfl, hR2 k (by omega) h2, if_neg (by omega), if_pos rfl]
      linear_combination (Q j t * R t ((rs + k) % m) +
        Q j (t + 1) * R (t + 1) ((rs + k) % m)) * hcs

/-- generic invariant rule for the `while (r < q_idx - 1)` sweep: it runs exactly `K - 1 - r` trips -/
theorem sweepLoop_inv (giv : α → α → α × α × α) (m rEnd K : ℕ) (P : ℕ → Sweep α → Prop)
    (hr : ∀ t w, P t w → w.r = t)
    (hstep : ∀ t w, t + 1 < K → P t w → P (t + 1) (sweepStep giv m rEnd w)) :
    ∀ d t fuel w, t + d + 1 = K → d ≤ fuel → P t w →
      P (K - 1) (sweepLoop giv m rEnd K fuel w) := by
  intro d
  induction d with
  | zero =>
    intro t fuel w hK _ hP
    have e : K - 1 = t := by omega
    have hwr := hr t w hP
    cases fuel with
    | zero => rw [sweepLoop, e]; exact hP
    | succ f =>
      rw [sweepLoop, e]
      have : ¬ (w.r < K - 1) := by omega
      simp only [lmqrRemoveCond, this, decide_false, Bool.false_eq_true, if_false]
      exact hP
  | succ d ih =>
    intro t fuel w hK hf hP
    have hwr := hr t w hP
    obtain ⟨f, rfl⟩ : ∃ f, fuel = f + 1 := ⟨fuel - 1, by omega⟩
    rw [sweepLoop]
    have : w.r < K - 1 := by omega
    simp only [lmqrRemoveCond, this, decide_true, if_true]
    exact ih (t + 1) f _ (by omega) (by omega) (hstep t w (by omega) hP)

theorem sweep_reprInv (giv : α → α → α × α × α) (hg : GivensOK giv) (m rs K : ℕ) (hm : 0 < m)
    (hKm : K ≤ m) (B : ℕ → ℕ → α) (t : ℕ) (w : Sweep α) (ht : t + 1 < K)
    (hP : w.r = t ∧ w.c = (rs + (t + 1)) % m ∧ ReprInv m rs K t w.Q w.R B) :
    (sweepStep giv m ((rs + K) % m) w).r = t + 1 ∧
    (sweepStep giv m ((rs + K) % m) w).c = (rs + (t + 1 + 1)) % m ∧
    ReprInv m rs K (t + 1) (sweepStep giv m ((rs + K) % m) w).Q
      (sweepStep giv m ((rs + K) % m) w).R B := by
  obtain ⟨hr, hc, hI⟩ := hP
  subst hr
  obtain ⟨s1, s2, s3, s4, s5, s6⟩ := sweepStep_spec giv m rs K hm hKm w ht hc
  obtain ⟨g1, g2, g3⟩ := hg (w.R w.r w.c) (w.R (w.r + 1) w.c)
  rw [hc] at g2 g3
  refine ⟨s1, s2, ?_⟩
  exact reprInv_step m rs K w.r w.Q w.R _ _ B (sweepGiv giv w).1 (sweepGiv giv w).2.1
    (sweepGiv giv w).2.2 (by rw [sweepGiv]; exact g1) (by rw [sweepGiv, hc]; exact g2)
    (by rw [sweepGiv, hc]; exact g3) s3 s4 s5 s6 hI

theorem removeColumn_idx (giv : α → α → α × α × α) (s : LMQR α) (h : RingInv s) (hK : 0 < s.qIdx) :
    (s.removeColumn giv).qIdx = s.qIdx - 1 ∧ (s.removeColumn giv).rStart = (s.rStart + 1) % s.m ∧
    (s.removeColumn giv).rEnd = s.rEnd ∧ (s.removeColumn giv).n = s.n ∧
    (s.removeColumn giv).m = s.m := by
  simp only [LMQR.removeColumn, LMQR.updateEig, LMQR.removeCore, lmqrRemoveIdx, lmqrRemoveInit,
    lmqrSucc_eq h.start_lt, and_self]

theorem removeColumn_ring (giv : α → α → α × α × α) (s : LMQR α) (h : RingInv s) (hK : 0 < s.qIdx) :
    RingInv (s.removeColumn giv) := by
  obtain ⟨e1, e2, e3, e4, e5⟩ := removeColumn_idx giv s h hK
  refine ⟨by rw [e5]; exact h.mpos, by rw [e1, e5]; have := h.cap; omega,
    by rw [e2, e5]; exact Nat.mod_lt _ h.mpos, ?_⟩
  rw [e1, e2, e3, e5, h.end_eq, Nat.mod_add_mod]
  congr 1; omega

theorem removeColumn_Q (giv : α → α → α × α × α) (s : LMQR α) :
    (s.removeColumn giv).Q = Mat.ofFn s.n s.m (sweepLoop giv s.m s.rEnd s.qIdx s.m
      { r := 0, c := lmqrSucc s.m s.rStart, Q := s.Q.get, R := s.R.get, minEig := s.minEig,
        maxEig := s.maxEig }).Q := by
  simp only [LMQR.removeColumn, LMQR.updateEig, LMQR.removeCore, lmqrRemoveIdx, lmqrRemoveInit]

theorem removeColumn_R (giv : α → α → α × α × α) (s : LMQR α) :
    (s.removeColumn giv).R = Mat.ofFn s.m s.m (sweepLoop giv s.m s.rEnd s.qIdx s.m
      { r := 0, c := lmqrSucc s.m s.rStart, Q := s.Q.get, R := s.R.get, minEig := s.minEig,
        maxEig := s.maxEig }).R := by
  simp only [LMQR.removeColumn, LMQR.updateEig, LMQR.removeCore, lmqrRemoveIdx, lmqrRemoveInit]

/-- Q'R' = A without its first column; R' is used only through its upper triangle (`getR`). -/
theorem removeColumn_represents (giv : α → α → α × α × α) (hg : GivensOK giv) (s : LMQR α)
    (h : RingInv s) (hK : 0 < s.qIdx) (A : ℕ → ℕ → α) (hA : Represents s A) :
    Represents (s.removeColumn giv) (fun k => A (k + 1)) := by
  obtain ⟨e1, e2, e3, e4, e5⟩ := removeColumn_idx giv s h hK
  have hm := h.mpos
  have hcap := h.cap
  -- the sweep invariant at exit
  have hfin := sweepLoop_inv giv s.m s.rEnd s.qIdx
    (fun t w => w.r = t ∧ w.c = (s.rStart + (t + 1)) % s.m ∧
      ReprInv s.m s.rStart s.qIdx t w.Q w.R
        (fun k j => ∑ i ∈ range (k + 1), s.Q.get j i * s.R.get i ((s.rStart + k) % s.m)))
    (fun t w hP => hP.1)
    (fun t w ht hP => by
      rw [h.end_eq]; exact sweep_reprInv giv hg s.m s.rStart s.qIdx hm hcap _ t w ht hP)
    (s.qIdx - 1) 0 s.m
    { r := 0, c := lmqrSucc s.m s.rStart, Q := s.Q.get, R := s.R.get, minEig := s.minEig,
      maxEig := s.maxEig } (by omega) (by omega)
    ⟨rfl, by simp only [lmqrSucc_eq h.start_lt], by
      intro k h1 h2 j
      rw [if_neg (by omega)]⟩
  obtain ⟨_, _, hI⟩ := hfin
  intro k hk j hj
  rw [e1] at hk
  rw [e4] at hj
  rw [colSum_trunc _ (by rw [e1]; exact hk)]
  have hslot : (s.removeColumn giv).slot k = (s.rStart + (k + 1)) % s.m := by
    rw [LMQR.slot, e2, e5, Nat.mod_add_mod]; congr 1; omega
  have hI' := hI (k + 1) (by omega) (by omega) j
  rw [if_pos (by omega)] at hI'
  beta_reduce at hI'
  show _ = A (k + 1) j
  rw [hslot, ← hA (k + 1) (by omega) j hj, colSum_trunc s (by omega), LMQR.slot, ← hI']
  refine Finset.sum_congr rfl fun i hi => ?_
  simp only [Finset.mem_range] at hi
  rw [removeColumn_Q, removeColumn_R, Mat.get_ofFn_lt _ hj (by omega),
    Mat.get_ofFn_lt _ (by omega) (Nat.mod_lt _ hm)]

/-- `QᵀQ = I` on the first `K` columns, for a plain function -/
def OrthInv (n K : ℕ) (Q : ℕ → ℕ → α) : Prop :=
  ∀ a < K, ∀ b < K, ∑ j ∈ range n, Q j a * Q j b = if a = b then 1 else 0

theorem gram_lin (n K : ℕ) (Q : ℕ → ℕ → α) (hO : OrthInv n K Q) (p q p' q' : α) (x y x' y' : ℕ)
    (hx : x < K) (hy : y < K) (hx' : x' < K) (hy' : y' < K) :
    ∑ j ∈ range n, (p * Q j x + q * Q j y) * (p' * Q j x' + q' * Q j y') =
      p * p' * (if x = x' then 1 else 0) + p * q' * (if x = y' then 1 else 0) +
      q * p' * (if y = x' then 1 else 0) + q * q' * (if y = y' then 1 else 0) := by
  rw [← hO x hx x' hx', ← hO x hx y' hy', ← hO y hy x' hx', ← hO y hy y' hy']
  simp only [Finset.mul_sum, ← Finset.sum_add_distrib]
  exact Finset.sum_congr rfl fun j _ => by ring

theorem orthInv_step (n K t : ℕ) (ht : t + 1 < K) (Q Q' : ℕ → ℕ → α) (c s : α)
    (hcs : c * c + s * s = 1)
    (hQ : ∀ i j, Q' i j = if j = t then c * Q i t - s * Q i (t + 1)
      else if j = t + 1 then s * Q i t + c * Q i (t + 1) else Q i j)
    (hO : OrthInv n K Q) : OrthInv n K Q' := by
  have hQt : ∀ j, Q' j t = c * Q j t + (-s) * Q j (t + 1) := by
    intro j; rw [hQ, if_pos rfl]; ring
  have hQt1 : ∀ j, Q' j (t + 1) = s * Q j t + c * Q j (t + 1) := by
    intro j; rw [hQ, if_neg (by omega), if_pos rfl]
  have hQo : ∀ a, a ≠ t → a ≠ t + 1 → ∀ j, Q' j a = 1 * Q j a + 0 * Q j a := by
    intro a h1 h2 j; rw [hQ, if_neg h1, if_neg h2]; ring
  have htK : t < K := by omega
  intro a ha b hb
  by_cases a1 : a = t
  · subst a1
    by_cases b1 : b = a
    · subst b1
      simp only [hQt]
      rw [gram_lin n K Q hO _ _ _ _ _ _ _ _ htK ht htK ht]
      simp
      linear_combination hcs
    · by_cases b2 : b = a + 1
      · subst b2
        simp only [hQt, hQt1]
        rw [gram_lin n K Q hO _ _ _ _ _ _ _ _ htK ht htK ht]
        simp
        ring
      · simp only [hQt, hQo b b1 b2]
        rw [gram_lin n K Q hO _ _ _ _ _ _ _ _ htK ht hb hb]
        simp [Ne.symm b1, Ne.symm b2]
  · by_cases a2 : a = t + 1
    · subst a2
      by_cases b1 : b = t
      · subst b1
        simp only [hQt, hQt1]
        rw [gram_lin n K Q hO _ _ _ _ _ _ _ _ htK ht htK ht]
        simp
        ring
      · by_cases b2 : b = t + 1
        · subst b2
          simp only [hQt1]
          rw [gram_lin n K Q hO _ _ _ _ _ _ _ _ htK ht htK ht]
          simp
          linear_combination hcs
        · simp only [hQt1, hQo b b1 b2]
          rw [gram_lin n K Q hO _ _ _ _ _ _ _ _ htK ht hb hb]
          simp [Ne.symm b1, Ne.symm b2]
    · by_cases b1 : b = t
      · subst b1
        simp only [hQt, hQo a a1 a2]
        rw [gram_lin n K Q hO _ _ _ _ _ _ _ _ ha ha htK ht]
        simp [a1, a2]
      · by_cases b2 : b = t + 1
        · subst b2
          simp only [hQt1, hQo a a1 a2]
          rw [gram_lin n K Q hO _ _ _ _ _ _ _ _ ha ha htK ht]
          simp [a1, a2]
        · simp only [hQo a a1 a2, hQo b b1 b2]
          rw [gram_lin n K Q hO _ _ _ _ _ _ _ _ ha ha hb hb]
          simp

theorem sweep_orthInv (giv : α → α → α × α × α) (hg : GivensOK giv) (n m rs K : ℕ) (hm : 0 < m)
    (hKm : K ≤ m) (t : ℕ) (w : Sweep α) (ht : t + 1 < K)
    (hP : w.r = t ∧ w.c = (rs + (t + 1)) % m ∧ OrthInv n K w.Q) :
    (sweepStep giv m ((rs + K) % m) w).r = t + 1 ∧
    (sweepStep giv m ((rs + K) % m) w).c = (rs + (t + 1 + 1)) % m ∧
    OrthInv n K (sweepStep giv m ((rs + K) % m) w).Q := by
  obtain ⟨hr, hc, hI⟩ := hP
  subst hr
  obtain ⟨s1, s2, s3, _, _, _⟩ := sweepStep_spec giv m rs K hm hKm w ht hc
  obtain ⟨g1, _, _⟩ := hg (w.R w.r w.c) (w.R (w.r + 1) w.c)
  exact ⟨s1, s2, orthInv_step n K w.r ht w.Q _ (sweepGiv giv w).1 (sweepGiv giv w).2.1
    (by rw [sweepGiv]; exact g1) s3 hI⟩

/-- the rotations keep the remaining columns of Q orthonormal -/
theorem removeColumn_orth (giv : α → α → α × α × α) (hg : GivensOK giv) (s : LMQR α)
    (h : RingInv s) (hK : 0 < s.qIdx) (hO : Orth s) : Orth (s.removeColumn giv) := by
  obtain ⟨e1, e2, e3, e4, e5⟩ := removeColumn_idx giv s h hK
  have hm := h.mpos
  have hcap := h.cap
  have hfin := sweepLoop_inv giv s.m s.rEnd s.qIdx
    (fun t w => w.r = t ∧ w.c = (s.rStart + (t + 1)) % s.m ∧ OrthInv s.n s.qIdx w.Q)
    (fun t w hP => hP.1)
    (fun t w ht hP => by
      rw [h.end_eq]; exact sweep_orthInv giv hg s.n s.m s.rStart s.qIdx hm hcap t w ht hP)
    (s.qIdx - 1) 0 s.m
    { r := 0, c := lmqrSucc s.m s.rStart, Q := s.Q.get, R := s.R.get, minEig := s.minEig,
      maxEig := s.maxEig } (by omega) (by omega)
    ⟨rfl, by simp only [lmqrSucc_eq h.start_lt], hO⟩
  obtain ⟨_, _, hI⟩ := hfin
  intro a ha b hb
  rw [e1] at ha hb
  rw [e4, ← hI a (by omega) b (by omega)]
  refine Finset.sum_congr rfl fun j hj => ?_
  simp only [Finset.mem_range] at hj
  rw [removeColumn_Q, Mat.get_ofFn_lt _ hj (by omega), Mat.get_ofFn_lt _ hj (by omega)]
end Alpaqa.C10
