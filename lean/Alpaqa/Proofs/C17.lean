/-
  C17 helper lemmas: list identities for the sliding window, canonical reader states
  (`Ready`, `Shifted`) and the two step lemmas (`chunkPhase_shifted`, `readParse_*`).
-/
import Alpaqa.Model.C17
import Mathlib.Tactic.Ring
import Mathlib.Data.List.Basic

namespace Alpaqa.Proofs.C17
set_option linter.unusedSimpArgs false
open Alpaqa.C17 Alpaqa.Gen.C17

/-- no newline in a list -/
def NoNL (l : List Char) : Prop := ∀ c ∈ l, c ≠ '\n'

/-- what follows a line in the stream: end of file, or a newline and the following lines -/
def TailOK (tail : List Char) : Prop := tail = [] ∨ ∃ t, tail = '\n' :: t

theorem line_append (m tail : List Char) (hm : NoNL m) (ht : TailOK tail) :
    IStream.line '\n' (m ++ tail) = m := by
  induction m with
  | nil =>
    rcases ht with rfl | ⟨t, rfl⟩ <;> simp [IStream.line]
  | cons c m ih =>
    have hc : c ≠ '\n' := hm c (by simp)
    have := ih (fun d hd => hm d (by simp [hd]))
    simp only [IStream.line] at this ⊢
    simp [hc, this]

theorem window_slide (L : List Char) (a j k : Nat) (h : j ≤ a) :
    (L.take a).drop j ++ (L.drop a).take k = (L.drop j).take (a - j + k) := by
  induction L generalizing a j with
  | nil => simp
  | cons x xs ih =>
    cases j with
    | zero => simp [List.take_add]
    | succ j' =>
      cases a with
      | zero => omega
      | succ a' =>
        have := ih a' j' (by omega)
        simpa [Nat.succ_sub_succ] using this

/-! ### canonical reader states -/

def streamOf (L tail : List Char) : IStream :=
  ⟨L.drop 64 ++ tail, decide (L.length ≤ 64) && tail.isEmpty, decide (L.length ≤ 64) && tail.isEmpty⟩

def shifted (L : List Char) (j : Nat) : Reader :=
  ⟨(L.take 64).drop j, min 64 L.length - j, decide (64 < L.length)⟩

theorem NoNL.drop {L : List Char} (h : NoNL L) (n : Nat) : NoNL (L.drop n) :=
  fun c hc => h c (List.mem_of_mem_drop hc)

theorem chunkPhase_short (L tail : List Char) (j : Nat) (h : L.length ≤ 64) :
    chunkPhase (shifted L j) (streamOf L tail) = (.ok (), shifted (L.drop j) 0, streamOf (L.drop j) tail) := by
  have h1 : ¬ (64 < L.length) := by omega
  have h2 : ¬ (64 < L.length - j) := by omega
  have h3 : L.length - j ≤ 64 := by omega
  simp [chunkPhase, readCallsChunk, shifted, streamOf, h1, h2, h3, h, List.take_of_length_le,
    List.drop_eq_nil_of_le]



theorem readChunk_fill (w m tail : List Char) (keep : Bool) (hw : w.length < 64) (hm : m ≠ [])
    (hNL : NoNL m) (ht : TailOK tail) :
    readChunk ⟨w, w.length, keep⟩ ⟨m ++ tail, false, false⟩ =
      (.ok (), ⟨w ++ m.take (64 - w.length), w.length + min (64 - w.length) m.length,
                decide (64 - w.length < m.length)⟩,
       ⟨m.drop (64 - w.length) ++ tail, decide (m.length ≤ 64 - w.length) && tail.isEmpty,
        decide (m.length ≤ 64 - w.length) && tail.isEmpty⟩) := by
  have hline : IStream.line '\n' (m ++ tail) = m := line_append _ _ hNL ht
  have e1 : ¬ (64 = w.length) := by omega
  have e2 : ¬ (64 - w.length = 0) := by omega
  have e3 : m.length ≠ 0 := by simpa using hm
  have e4 : ¬ (m = []) := hm
  by_cases hk : m.length ≤ 64 - w.length
  · have hd : m.drop (64 - w.length) = [] := List.drop_eq_nil_of_le hk
    have htk : m.take (64 - w.length) = m := List.take_of_length_le hk
    have hmin : min (64 - w.length) m.length = m.length := by omega
    have hnlt : ¬ (64 - w.length < m.length) := by omega
    rcases ht with rfl | ⟨t, rfl⟩
    · have hline : IStream.line '\n' m = m := by simpa using hline
      simp [readChunk, chunkInvalid, IStream.ok, chunkFull, bufmaxsize, IStream.getN, IStream.good,
        chunkGetCount, chunkGetDelim, endCh, hline, chunkGetFailed, chunkGetPos, chunkBufidx,
        chunkKeepEvalsPeek, chunkKeep, e1, e2, e3, e4, hd, htk, hmin, hnlt, hk, IStream.peek]
    · simp [readChunk, chunkInvalid, IStream.ok, chunkFull, bufmaxsize, IStream.getN, IStream.good,
        chunkGetCount, chunkGetDelim, endCh, hline, chunkGetFailed, chunkGetPos, chunkBufidx,
        chunkKeepEvalsPeek, chunkKeep, e1, e2, e3, e4, hd, htk, hmin, hnlt, hk, IStream.peek]
  · have hlt : 64 - w.length < m.length := by omega
    have hmin : min (64 - w.length) m.length = 64 - w.length := by omega
    obtain ⟨c, r, hcr⟩ : ∃ c r, m.drop (64 - w.length) = c :: r := by
      cases hd : m.drop (64 - w.length) with
      | nil => have := List.drop_eq_nil_iff.mp hd; omega
      | cons c r => exact ⟨c, r, rfl⟩
    have hc : c ≠ '\n' := hNL c (List.mem_of_mem_drop (by rw [hcr]; simp))
    have hdd : (m ++ tail).drop (64 - w.length) = c :: (r ++ tail) := by
      rw [List.drop_append_of_le_length (by omega), hcr]; simp
    have htne : ¬ (m.take (64 - w.length) = []) := by
      intro h
      have h2 : (m.take (64 - w.length)).length = 64 - w.length := by rw [List.length_take]; omega
      rw [h] at h2; simp at h2; omega
    simp [readChunk, chunkInvalid, IStream.ok, chunkFull, bufmaxsize, IStream.getN, IStream.good,
      chunkGetCount, chunkGetDelim, endCh, hline, chunkGetFailed, chunkGetPos, chunkBufidx,
      chunkKeepEvalsPeek, chunkKeep, e1, e2, e3, e4, hmin, hlt, hk, IStream.peek, hdd, hcr, hc, htne]


theorem chunkPhase_long (L tail : List Char) (j : Nat) (h : 64 < L.length) (hj : j ≤ 64)
    (hL : NoNL L) (ht : TailOK tail) :
    chunkPhase (shifted L j) (streamOf L tail) = (.ok (), shifted (L.drop j) 0, streamOf (L.drop j) tail) := by
  have h1 : ¬ (L.length ≤ 64) := by omega
  by_cases hj0 : j = 0
  · subst hj0
    simp [chunkPhase, readCallsChunk, shifted, streamOf, h, h1, readChunk, chunkInvalid, IStream.ok,
      chunkFull, bufmaxsize]
    omega
  · have hw : ((L.take 64).drop j).length = 64 - j := by
      simp [List.length_drop, List.length_take]; omega
    have hm : L.drop 64 ≠ [] := by
      intro h'; have := List.drop_eq_nil_iff.mp h'; omega
    have hfill := readChunk_fill ((L.take 64).drop j) (L.drop 64) tail true (by omega) hm (hL.drop 64) ht
    have hsh : shifted L j = ⟨(L.take 64).drop j, ((L.take 64).drop j).length, true⟩ := by
      simp [shifted, hw, h]; omega
    have hst : streamOf L tail = ⟨L.drop 64 ++ tail, false, false⟩ := by simp [streamOf, h1]
    have hslide := window_slide L 64 j j hj
    have e1 : 64 - (64 - j) = j := by omega
    rw [hsh, hst]
    simp only [chunkPhase, readCallsChunk, if_true]
    rw [hfill, hw, e1, hslide]
    simp [shifted, streamOf, List.length_drop, Nat.add_comm]
    have e2 : j + (64 - j) = 64 := by omega
    rw [e2]
    refine ⟨rfl, ?_, ?_⟩
    · rcases Nat.le_total j (L.length - 64) with h' | h'
      · rw [Nat.min_eq_left h', Nat.min_eq_left (by omega)]; omega
      · rw [Nat.min_eq_right h', Nat.min_eq_right (by omega)]; omega
    · omega


theorem chunkPhase_shifted (L tail : List Char) (j : Nat) (hj : j ≤ min 64 L.length)
    (hL : NoNL L) (ht : TailOK tail) :
    chunkPhase (shifted L j) (streamOf L tail) = (.ok (), shifted (L.drop j) 0, streamOf (L.drop j) tail) := by
  by_cases h : 64 < L.length
  · exact chunkPhase_long L tail j h (by omega) hL ht
  · exact chunkPhase_short L tail j (by omega)

/-- `tok` is a token the number oracle consumes entirely (value `v`) when it is followed by the
    separator or by the end of the window — the `from_chars` longest-valid-prefix contract. -/
def TokOK {V : Type} (P : List Char → Option (V × Nat)) (sep : Char) (tok : List Char) (v : V) : Prop :=
  ∀ rest : List Char, (rest = [] ∨ ∃ t, rest = sep :: t) →
    readSingle P (tok ++ rest) 0 (tok ++ rest).length = some (v, tok.length)

theorem take64_tok_sep (tok L' : List Char) (c : Char) (h : tok.length ≤ 63) :
    (tok ++ c :: L').take 64 = tok ++ c :: L'.take (63 - tok.length) := by
  rw [List.take_append, List.take_of_length_le (by omega)]
  have : 64 - tok.length = (63 - tok.length) + 1 := by omega
  rw [this, List.take_succ_cons]

theorem readParse_sep {V : Type} (P : List Char → Option (V × Nat)) (sep : Char) (tok L' : List Char) (v : V)
    (hlen : tok.length ≤ 63) (hok : TokOK P sep tok v) :
    readParse P (shifted (tok ++ sep :: L') 0) sep = (.ok v, shifted (tok ++ sep :: L') (tok.length + 1)) := by
  have hW := take64_tok_sep tok L' sep hlen
  have hrs := hok (sep :: L'.take (63 - tok.length)) (Or.inr ⟨_, rfl⟩)
  have hlenW : min 64 (tok ++ sep :: L').length = (tok ++ sep :: L'.take (63 - tok.length)).length := by
    rw [← hW, List.length_take]
  simp only [readParse, shifted, readBufend, readSingleBegin, Nat.zero_add, List.drop_zero, Nat.sub_zero, hW,
    hlenW, hrs]
  have hne : tok.length ≠ (tok ++ sep :: L'.take (63 - tok.length)).length := by simp
  have hget : (tok ++ sep :: L'.take (63 - tok.length)).getD tok.length ' ' = sep := by
    simp [List.getD_eq_getElem?_getD]
  simp [readSepBad, readShift, readLong, hne, hget, readCopyTo, readCopyFrom, readCopyDest, readBufidxShift,
    List.take_of_length_le]

theorem readParse_last {V : Type} (P : List Char → Option (V × Nat)) (sep : Char) (tok : List Char) (v : V)
    (hlen : tok.length ≤ 64) (hok : TokOK P sep tok v) :
    readParse P (shifted tok 0) sep = (.ok v, shifted tok tok.length) := by
  have hrs := hok [] (Or.inl rfl)
  simp only [List.append_nil] at hrs
  have hmin : min 64 tok.length = tok.length := by omega
  have hk : ¬ (64 < tok.length) := by omega
  simp [readParse, shifted, readBufend, readSingleBegin, List.take_of_length_le hlen, hmin, hrs, readSepBad,
    readShift, readLong, hk, Reader.setBufidx, readBufidxElse]


/-- one `read` of a token that is followed by the separator, from any canonical state -/
theorem read_tok {V : Type} (P : List Char → Option (V × Nat)) (sep : Char) (L tail tok L' : List Char)
    (j : Nat) (v : V) (hj : j ≤ min 64 L.length) (hL : NoNL L) (ht : TailOK tail)
    (hd : L.drop j = tok ++ sep :: L') (hlen : tok.length ≤ 63) (hok : TokOK P sep tok v) :
    read P (shifted L j) (streamOf L tail) sep =
      (.ok v, shifted (L.drop j) (tok.length + 1), streamOf (L.drop j) tail) := by
  simp only [Alpaqa.C17.read, chunkPhase_shifted L tail j hj hL ht]
  rw [hd, readParse_sep P sep tok L' v hlen hok]

/-- one `read` of the last token of the line -/
theorem read_last {V : Type} (P : List Char → Option (V × Nat)) (sep : Char) (L tail tok : List Char)
    (j : Nat) (v : V) (hj : j ≤ min 64 L.length) (hL : NoNL L) (ht : TailOK tail)
    (hd : L.drop j = tok) (hlen : tok.length ≤ 64) (hok : TokOK P sep tok v) :
    read P (shifted L j) (streamOf L tail) sep =
      (.ok v, shifted (L.drop j) tok.length, streamOf (L.drop j) tail) := by
  simp only [Alpaqa.C17.read, chunkPhase_shifted L tail j hj hL ht]
  rw [hd, readParse_last P sep tok v hlen hok]

/-- canonical state whose logical remainder is empty -/
theorem shifted_done (L tail : List Char) (j : Nat) (hj : j ≤ min 64 L.length) (hd : L.drop j = []) :
    shifted L j = ⟨[], 0, false⟩ ∧ streamOf L tail = ⟨tail, tail.isEmpty, tail.isEmpty⟩ := by
  have h1 : L.length ≤ j := List.drop_eq_nil_iff.mp hd
  have h2 : L.length ≤ 64 := by omega
  have h3 : ¬ (64 < L.length) := by omega
  constructor
  · simp [shifted, h3, List.take_of_length_le h2, List.drop_eq_nil_of_le h1]; omega
  · simp [streamOf, h2, List.drop_eq_nil_of_le h2]

/-- the line made of tokens separated by `sep` -/
def lineOf (sep : Char) : List (List Char) → List Char
  | [] => []
  | [t] => t
  | t :: t' :: r => t ++ sep :: lineOf sep (t' :: r)

theorem readFields_tokens {V : Type} (P : List Char → Option (V × Nat)) (sep : Char)
    (tv : List (List Char × V)) (tail : List Char) (ht : TailOK tail)
    (hlen : ∀ p ∈ tv, p.1.length ≤ 63) (hok : ∀ p ∈ tv, TokOK P sep p.1 p.2) :
    ∀ (L : List Char) (j : Nat), j ≤ min 64 L.length → NoNL L → L.drop j = lineOf sep (tv.map (·.1)) →
      readFields P tv.length (shifted L j) (streamOf L tail) sep =
        (.ok (tv.map (·.2)), ⟨[], 0, false⟩, ⟨tail, tail.isEmpty, tail.isEmpty⟩) := by
  induction tv with
  | nil =>
    intro L j hj hL hd
    obtain ⟨h1, h2⟩ := shifted_done L tail j hj (by simpa [lineOf] using hd)
    simp [readFields, h1, h2]
  | cons p rest ih =>
    intro L j hj hL hd
    have hp1 := hlen p (by simp)
    have hp2 := hok p (by simp)
    have ih' := ih (fun q hq => hlen q (by simp [hq])) (fun q hq => hok q (by simp [hq]))
    cases rest with
    | nil =>
      have hd' : L.drop j = p.1 := by simpa [lineOf] using hd
      have hr := read_last P sep L tail p.1 j p.2 hj hL ht hd' (by omega) hp2
      have hj2 : p.1.length ≤ min 64 (L.drop j).length := by rw [hd']; omega
      have hdd : (L.drop j).drop p.1.length = [] := by rw [hd']; simp
      obtain ⟨h1, h2⟩ := shifted_done (L.drop j) tail p.1.length hj2 hdd
      simp [readFields, hr, h1, h2]
    | cons q rest' =>
      have hd' : L.drop j = p.1 ++ sep :: lineOf sep ((q :: rest').map (·.1)) := by
        simpa [lineOf] using hd
      have hr := read_tok P sep L tail p.1 _ j p.2 hj hL ht hd' hp1 hp2
      have hj2 : p.1.length + 1 ≤ min 64 (L.drop j).length := by
        rw [hd', List.length_append, List.length_cons]; omega
      have hdd : (L.drop j).drop (p.1.length + 1) = lineOf sep ((q :: rest').map (·.1)) := by
        rw [hd', List.drop_append, List.drop_eq_nil_of_le (by omega)]
        simp
      have := ih' (L.drop j) (p.1.length + 1) hj2 (hL.drop j) hdd
      simp only [List.length_cons] at this ⊢
      rw [readFields, hr]
      simp only [this, List.map_cons]

/-- `skip_comments` on a non-empty line that is not a comment: loads the first chunk. -/
theorem skipComments_data_line (line tail : List Char) (c : Char) (l : List Char) (hl : line = c :: l)
    (hc : c ≠ '#') (hL : NoNL line) (ht : TailOK tail) :
    skipComments {} ⟨line ++ tail, false, false⟩ = (.ok (), shifted line 0, streamOf line tail) := by
  have hcn : c ≠ '\n' := hL c (by simp [hl])
  have hfill := readChunk_fill [] line tail true (by simp) (by simp [hl]) hL ht
  simp only [List.length_nil, Nat.sub_zero, List.nil_append, Nat.zero_add] at hfill
  have hr0 : ({} : Reader) = ⟨[], 0, true⟩ := rfl
  have hlen : 0 < line.length := by simp [hl]
  have hmin0 : ¬ (min 64 line.length = 0) := by omega
  have hfront : (line.take 64).getD 0 ' ' = c := by simp [hl]
  simp only [skipComments, skipEarlyEvalsPeek, skipEarly, IStream.peek, IStream.good, hl, List.cons_append,
    endCh, skipOuterLoop, skipLoop]
  simp [hcn]
  rw [hr0, ← List.cons_append, ← hl, hfill]
  simp [skipBreak, hmin0, hfront, hc, shifted, streamOf]
  intro h
  exfalso; apply hc; simpa [hl] using h

theorem nextLine_done (tail : List Char) (ht : TailOK tail) :
    nextLine ⟨[], 0, false⟩ ⟨tail, tail.isEmpty, tail.isEmpty⟩ =
      (.ok (), match tail with | [] => ⟨[], true, true⟩ | _ :: t => ⟨t, false, false⟩) := by
  rcases ht with rfl | ⟨t, rfl⟩
  · simp [nextLine, nextLineThrowsEvalsGetc, nextLineThrows]
  · simp [nextLine, nextLineThrowsEvalsGetc, nextLineThrows, IStream.get1, IStream.good, endCh]

/-! ### comment skipping -/

/-- comment lines `#body\n`, concatenated -/
def commentText : List (List Char) → List Char
  | [] => []
  | b :: r => '#' :: b ++ '\n' :: commentText r

theorem commentText_length (cs : List (List Char)) : cs.length ≤ (commentText cs).length := by
  induction cs with
  | nil => simp [commentText]
  | cons b r ih => simp [commentText]; omega

/-- the test `if (is.eof() || is.peek() == end) return;` followed by the loop: the shape of
    `skip_comments` at its entry and again after every skipped comment line -/
def afterTest (f : Nat) (r : Reader) (is : IStream) : Res Unit × Reader × IStream :=
  let p := if !is.eof then is.peek else (none, is)
  if is.eof || p.1 == some '\n' then (.ok (), r, p.2) else skipOuterLoop f r p.2

theorem peek_rest (is : IStream) : is.peek.2.rest = is.rest := by
  unfold IStream.peek
  split
  · split <;> simp_all
  · rfl

theorem skipComments_eq (r : Reader) (is : IStream) :
    skipComments r is = afterTest (is.rest.length + 1) r is := by
  unfold skipComments afterTest
  by_cases he : is.eof
  · simp [skipEarlyEvalsPeek, skipEarly, he, endCh]
  · simp [skipEarlyEvalsPeek, skipEarly, he, endCh, peek_rest]

theorem afterTest_empty (f : Nat) (r : Reader) (t : List Char) :
    afterTest f r ⟨'\n' :: t, false, false⟩ = (.ok (), r, ⟨'\n' :: t, false, false⟩) := by
  simp [afterTest, IStream.peek, IStream.good]

theorem afterTest_eof (f : Nat) (r : Reader) :
    afterTest (f + 1) r ⟨[], false, false⟩ = (.ok (), r, ⟨[], true, false⟩) := by
  simp [afterTest, IStream.peek, IStream.good, skipOuterLoop, skipLoop]

theorem afterTest_data (f : Nat) (k : Bool) (line tail : List Char) (c : Char) (l : List Char)
    (hl : line = c :: l) (hc : c ≠ '#') (hL : NoNL line) (ht : TailOK tail) :
    afterTest (f + 1) ⟨[], 0, k⟩ ⟨line ++ tail, false, false⟩ = (.ok (), shifted line 0, streamOf line tail) := by
  have hcn : c ≠ '\n' := hL c (by simp [hl])
  have hfill := readChunk_fill [] line tail k (by simp) (by simp [hl]) hL ht
  simp only [List.length_nil, Nat.sub_zero, List.nil_append, Nat.zero_add] at hfill
  have hlen : 0 < line.length := by simp [hl]
  have hmin0 : ¬ (min 64 line.length = 0) := by omega
  have hfront : (line.take 64).getD 0 ' ' = c := by simp [hl]
  have hpk : (⟨line ++ tail, false, false⟩ : IStream).peek = (some c, ⟨line ++ tail, false, false⟩) := by
    simp [IStream.peek, IStream.good, hl]
  simp only [afterTest, Bool.not_false, if_true, hpk, Bool.false_or]
  simp [hcn, skipOuterLoop, skipLoop, hfill, skipBreak, hmin0, hfront, hc, shifted, streamOf]
  intro h
  exfalso; apply hc; simpa [hl] using h

theorem streamOf_nl (M t : List Char) :
    streamOf M ('\n' :: t) = ⟨M.drop 64 ++ '\n' :: t, false, false⟩ := by simp [streamOf]

theorem skipInner_comment (t : List Char) :
    ∀ (f : Nat) (M : List Char), NoNL M → (M.drop 64).length + 1 ≤ f →
      ∃ r2, skipInnerLoop f (shifted M 0) (streamOf M ('\n' :: t)) = (.ok (), r2, ⟨'\n' :: t, false, false⟩) ∧
        r2.setBufidx 0 = ⟨[], 0, false⟩ := by
  intro f
  induction f with
  | zero => intro M _ hf; omega
  | succ f ih =>
    intro M hM hf
    by_cases h : 64 < M.length
    · have hm : M.drop 64 ≠ [] := by
        intro h'; have := List.drop_eq_nil_iff.mp h'; omega
      have hfill := readChunk_fill [] (M.drop 64) ('\n' :: t) true (by simp) hm (hM.drop 64) (Or.inr ⟨t, rfl⟩)
      simp only [List.length_nil, Nat.sub_zero, List.nil_append, Nat.zero_add, List.isEmpty_cons,
        Bool.and_false] at hfill
      have hlen : 1 ≤ (M.drop 64).length := by
        rcases hd : M.drop 64 with _ | ⟨a, b⟩
        · exact absurd hd hm
        · simp
      obtain ⟨r2, h1, h2⟩ := ih (M.drop 64) (hM.drop 64) (by simp only [List.length_drop] at hf hlen ⊢; omega)
      refine ⟨r2, ?_, h2⟩
      rw [streamOf_nl] at h1 ⊢
      have hs : (shifted M 0).setBufidx skipInnerBufidx = ⟨[], 0, true⟩ := by
        simp [shifted, Reader.setBufidx, skipInnerBufidx, h]
      have hk : (shifted M 0).keep = true := by simp [shifted, h]
      rw [skipInnerLoop]
      simp only [skipInner, hk, if_true, hs, hfill]
      have : (⟨(M.drop 64).take 64, min 64 (M.drop 64).length, decide (64 < (M.drop 64).length)⟩ : Reader) =
          shifted (M.drop 64) 0 := by simp [shifted]
      rw [this]
      exact h1
    · refine ⟨shifted M 0, ?_, ?_⟩
      · have hd : M.drop 64 = [] := List.drop_eq_nil_of_le (by omega)
        rw [skipInnerLoop]
        simp [skipInner, shifted, h, streamOf, hd]
      · simp [shifted, Reader.setBufidx, h]

theorem comment_step (b rest : List Char) (k : Bool) (f : Nat) (hb : NoNL b) :
    afterTest (f + 1) ⟨[], 0, k⟩ ⟨'#' :: b ++ '\n' :: rest, false, false⟩ =
      afterTest f ⟨[], 0, false⟩ ⟨rest, false, false⟩ := by
  have hC : NoNL ('#' :: b) := by
    intro c hc; simp at hc; rcases hc with rfl | hc
    · decide
    · exact hb c hc
  have hfill := readChunk_fill [] ('#' :: b) ('\n' :: rest) k (by simp) (by simp) hC (Or.inr ⟨rest, rfl⟩)
  simp only [List.length_nil, Nat.sub_zero, List.nil_append, Nat.zero_add, List.isEmpty_cons,
    Bool.and_false] at hfill
  have hR : (⟨('#' :: b).take 64, min 64 ('#' :: b).length, decide (64 < ('#' :: b).length)⟩ : Reader) =
      shifted ('#' :: b) 0 := by simp [shifted]
  rw [hR, ← streamOf_nl] at hfill
  obtain ⟨r2, h1, h2⟩ := skipInner_comment rest ((streamOf ('#' :: b) ('\n' :: rest)).rest.length + 1)
    ('#' :: b) hC (by rw [streamOf_nl]; simp only [List.length_append]; omega)
  have hnl := nextLine_done ('\n' :: rest) (Or.inr ⟨rest, rfl⟩)
  simp only [List.isEmpty_cons] at hnl
  have hpk : (⟨'#' :: b ++ '\n' :: rest, false, false⟩ : IStream).peek =
      (some '#', ⟨'#' :: b ++ '\n' :: rest, false, false⟩) := by
    simp [IStream.peek, IStream.good]
  have hbrk : skipBreak (shifted ('#' :: b) 0).bufidx ((shifted ('#' :: b) 0).s.getD 0 ' ') = false := by
    simp [skipBreak, shifted]
  conv_lhs => unfold afterTest
  simp only [Bool.not_false, if_true, hpk, Bool.false_or]
  have hne : ((some '#' : Option Char) == some '\n') = false := by decide
  simp only [hne, Bool.false_eq_true, if_false]
  rw [skipOuterLoop]
  simp only [skipLoop, Bool.not_false, if_true, List.cons_append] at hfill ⊢
  rw [hfill]
  simp only [hbrk, Bool.false_eq_true, if_false, h1, skipAfterBufidx] 
  have h2' : r2.setBufidx 0 = ⟨[], 0, false⟩ := h2
  simp only [h2', hnl]
  simp [afterTest, skipAgainEvalsPeek, skipAgain, endCh]

theorem comments_skipped (rest : List Char) :
    ∀ (cs : List (List Char)) (k : Bool) (F : Nat), cs.length + 1 ≤ F → (∀ b ∈ cs, NoNL b) →
      ∃ k', afterTest F ⟨[], 0, k⟩ ⟨commentText cs ++ rest, false, false⟩ =
        afterTest (F - cs.length) ⟨[], 0, k'⟩ ⟨rest, false, false⟩ := by
  intro cs
  induction cs with
  | nil => intro k F _ _; exact ⟨k, by simp [commentText]⟩
  | cons b r ih =>
    intro k F hF hb
    obtain ⟨F', rfl⟩ : ∃ F', F = F' + 1 := ⟨F - 1, by simp at hF; omega⟩
    obtain ⟨k', hk'⟩ := ih false F' (by simp at hF; omega) (fun x hx => hb x (by simp [hx]))
    refine ⟨k', ?_⟩
    have := comment_step b (commentText r ++ rest) k F' (hb b (by simp))
    simp only [commentText, List.cons_append, List.append_assoc] at this ⊢
    rw [this, hk']
    congr 1
    simp

end Alpaqa.Proofs.C17
