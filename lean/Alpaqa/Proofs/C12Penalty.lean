/-
  C12 — the ALM penalty kernels of `forward` / `backward`: `ζ − Π_D ζ` is the (signed) distance to
  the box, `penaltyTerm = ½ Σ μᵢ dist²`, and `μ ∘ (ζ − Π_D ζ)` is its derivative.
-/
import Alpaqa.Proofs.C12Forward

namespace Alpaqa.C12
open Alpaqa
variable {α : Type} [Field α] [LinearOrder α] [IsStrictOrderedRing α]

/-- `w` lies in the (possibly one- or two-sided infinite) interval `b`. -/
def inBnd (w : α) (b : Bnd α × Bnd α) : Prop :=
  (∀ l, b.1 = some l → l ≤ w) ∧ (∀ u, b.2 = some u → w ≤ u)

/-- `ζ − Π(ζ)` is the signed distance to the interval: the projection is in the interval (when
    it is non-empty) and no point of the interval is closer. -/
theorem projDiff1_dist (z : α) (b : Bnd α × Bnd α)
    (hne : ∀ l u, b.1 = some l → b.2 = some u → l ≤ u) :
    inBnd (z - projDiff1 z b) b ∧ ∀ w, inBnd w b → (projDiff1 z b) ^ 2 ≤ (z - w) ^ 2 := by
  obtain ⟨lb, ub⟩ := b
  cases lb with
  | none => cases ub with
    | none =>
      simp only [projDiff1, maxLb, minUb, inBnd]
      refine ⟨⟨by simp, by simp⟩, fun w _ => ?_⟩
      rw [sub_self]; nlinarith [sq_nonneg (z - w)]
    | some u =>
      simp only [projDiff1, maxLb, minUb, inBnd, emin_eq_min]
      refine ⟨⟨by simp, by intro u' h; cases h; simp⟩, fun w hw => ?_⟩
      have hwu := hw.2 u rfl
      rcases le_total z u with h | h
      · rw [min_eq_left h, sub_self]; nlinarith [sq_nonneg (z - w)]
      · rw [min_eq_right h]; nlinarith
  | some l => cases ub with
    | none =>
      simp only [projDiff1, maxLb, minUb, inBnd, emax_eq_max]
      refine ⟨⟨by intro l' h; cases h; simp, by simp⟩, fun w hw => ?_⟩
      have hwl := hw.1 l rfl
      rcases le_total z l with h | h
      · rw [max_eq_right h]; nlinarith
      · rw [max_eq_left h, sub_self]; nlinarith [sq_nonneg (z - w)]
    | some u =>
      have hlu := hne l u rfl rfl
      simp only [projDiff1, maxLb, minUb, inBnd, emax_eq_max, emin_eq_min]
      refine ⟨⟨by intro l' h; cases h; simp [hlu], by intro u' h; cases h; simp⟩, fun w hw => ?_⟩
      have hwl := hw.1 l rfl
      have hwu := hw.2 u rfl
      rcases le_total z l with h | h
      · rw [max_eq_right h, min_eq_left hlu]; nlinarith
      · rw [max_eq_left h]
        rcases le_total z u with h2 | h2
        · rw [min_eq_left h2, sub_self]; nlinarith [sq_nonneg (z - w)]
        · rw [min_eq_right h2]; nlinarith

omit [LinearOrder α] [IsStrictOrderedRing α] in
theorem dot_weighted (d μ : Vec α) :
    dot d (vmul μ d) = (List.zipWith (fun m x => m * x ^ 2) μ d).sum := by
  rw [dot_eq_sum]
  induction d generalizing μ with
  | nil => simp [vmul, vzip]
  | cons x xs ih => cases μ with
    | nil => simp [vmul, vzip]
    | cons m ms =>
      have := ih ms
      simp only [vmul, vzip, List.zipWith_cons_cons, List.sum_cons] at this ⊢
      rw [this]; ring

/-- `penaltyTerm = ½ · Σᵢ μᵢ · (ζᵢ − Π_D ζᵢ)²`, `ζ = c + y/μ`. -/
theorem penaltyTerm_eq (c : Vec α) (D : Box α) (μ y : Vec α) :
    penaltyTerm c D μ y
      = 1 / 2 * (List.zipWith (fun m d => m * d ^ 2) μ (projDiff (zeta c μ y) D)).sum := by
  unfold penaltyTerm distSqW; rw [dot_weighted]

/-- closed form of one component of `ζ − Π_D ζ` -/
theorem projDiff1_cases (z : α) (lb ub : Bnd α) :
    projDiff1 z (lb, ub) =
      z - (match ub with
           | none => (match lb with | none => z | some l => max z l)
           | some u => min (match lb with | none => z | some l => max z l) u) := by
  cases lb <;> cases ub <;> simp [projDiff1, maxLb, minUb]

/-- `m·(ζ − Πζ)` is the derivative of `ζ ↦ ½·m·(ζ − Πζ)²` (what `backward` feeds into
    `eval_grad_constr_prod`): the first-order remainder is between `0` and `½·m·(Δζ)²`. -/
theorem penalty_grad_bound (z z' m : α) (b : Bnd α × Bnd α) (hm : 0 ≤ m)
    (hne : ∀ l u, b.1 = some l → b.2 = some u → l ≤ u) :
    0 ≤ 1 / 2 * m * (projDiff1 z' b) ^ 2 - 1 / 2 * m * (projDiff1 z b) ^ 2
          - m * projDiff1 z b * (z' - z) ∧
    1 / 2 * m * (projDiff1 z' b) ^ 2 - 1 / 2 * m * (projDiff1 z b) ^ 2
          - m * projDiff1 z b * (z' - z) ≤ 1 / 2 * m * (z' - z) ^ 2 := by
  have key : ∀ d d' Δ : α, 0 ≤ d' ^ 2 - d ^ 2 - 2 * d * Δ → d' ^ 2 - d ^ 2 - 2 * d * Δ ≤ Δ ^ 2 →
      0 ≤ 1 / 2 * m * d' ^ 2 - 1 / 2 * m * d ^ 2 - m * d * Δ ∧
      1 / 2 * m * d' ^ 2 - 1 / 2 * m * d ^ 2 - m * d * Δ ≤ 1 / 2 * m * Δ ^ 2 := by
    intro d d' Δ h1 h2
    constructor
    · have := mul_nonneg hm h1; nlinarith
    · have := mul_nonneg hm (sub_nonneg.mpr h2); nlinarith
  apply key
  all_goals
    obtain ⟨lb, ub⟩ := b
    cases lb with
    | none => cases ub with
      | none => simp [projDiff1, maxLb, minUb]; try positivity
      | some u =>
        simp only [projDiff1, maxLb, minUb, emin_eq_min]
        rcases le_total z u with h | h <;> rcases le_total z' u with h' | h' <;>
          simp only [min_eq_left, min_eq_right, h, h'] <;> nlinarith [sq_nonneg (z' - z)]
    | some l => cases ub with
      | none =>
        simp only [projDiff1, maxLb, minUb, emax_eq_max]
        rcases le_total z l with h | h <;> rcases le_total z' l with h' | h' <;>
          simp only [max_eq_left, max_eq_right, h, h'] <;> nlinarith [sq_nonneg (z' - z)]
      | some u =>
        have hlu := hne l u rfl rfl
        simp only [projDiff1, maxLb, minUb, emax_eq_max, emin_eq_min]
        rcases le_total z l with h | h <;> rcases le_total z' l with h' | h' <;>
        rcases le_total z u with k | k <;> rcases le_total z' u with k' | k' <;>
          simp only [max_eq_left, max_eq_right, min_eq_left, min_eq_right, h, h', k, k', hlu] <;>
          nlinarith [sq_nonneg (z' - z)]

end Alpaqa.C12
