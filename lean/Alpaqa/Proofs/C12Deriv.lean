/-
  C12 — "the gradient of `backward` is the derivative of the cost of `forward`" for a named class:
  **affine-quadratic optimal-control problems** (`AffQuad`: affine dynamics, affine constraints,
  stage / terminal costs quadratic in `(x, u)`, derivative oracles that return the documented
  transposed-Jacobian products).  For that class the chain rule over the `N`-fold composition is
  exact: the perturbed trajectory is the trajectory plus the linearised roll-out (`traj_affine`),
  every stage cost has an exact second-order expansion (`stageCost_expand`; the ALM penalty is `C¹`
  only: its remainder is trapped in `[0, ½ μ δζ²]`, `penalty_expand`), and the adjoint identity
  `backward_adjoint_core` turns the sum of the first-order terms into `⟨g, δU⟩`.  Result:
  `cost_expansion` (two-sided second-order bound for every `δU`) and
  `cost_directional_derivative` (`|V(U+εδU) − V(U) − ε⟨g,δU⟩| ≤ K ε²` with `K` independent of `ε`).
-/
import Alpaqa.Proofs.C12Forward
import Alpaqa.Proofs.C12Adjoint
import Alpaqa.Proofs.C12Penalty
import Mathlib.Tactic.Linarith
import Mathlib.Tactic.Ring
import Mathlib.Algebra.BigOperators.Ring.Finset

namespace Alpaqa.C12
open Alpaqa Alpaqa.Gen.C12 OCPVars
set_option linter.unusedSectionVars false
variable {α : Type} [Field α] [LinearOrder α] [IsStrictOrderedRing α]

/-! ### list-vector algebra -/

theorem vadd_replicate_zero (a : Vec α) : vadd a (List.replicate a.length (0 : α)) = a := by
  induction a with
  | nil => rfl
  | cons x xs ih =>
    simp only [List.length_cons, List.replicate_succ, vadd, vzip, List.zipWith_cons_cons, add_zero]
    congr 1

theorem length_smul (ε : α) (a : Vec α) : (smul ε a).length = a.length := by simp [smul]

theorem smul_replicate_zero (ε : α) (n : Nat) : smul ε (List.replicate n (0 : α)) = List.replicate n 0 := by
  simp [smul]

theorem dot_smul_right (ε : α) (a b : Vec α) : dot a (smul ε b) = ε * dot a b := by
  induction a generalizing b with
  | nil => simp
  | cons x xs ih => cases b with
    | nil => simp [smul]
    | cons y ys =>
      have := ih ys
      simp only [smul, List.map_cons, dot_cons] at this ⊢
      rw [this]; ring

/-- weighted sum of squares `Σ mᵢ dᵢ²` -/
def wsq (μ d : Vec α) : α := (List.zipWith (fun m x => m * x ^ 2) μ d).sum

theorem wsq_smul (ε : α) (μ d : Vec α) : wsq μ (smul ε d) = ε ^ 2 * wsq μ d := by
  unfold wsq
  induction μ generalizing d with
  | nil => simp
  | cons m ms ih => cases d with
    | nil => simp [smul]
    | cons x xs =>
      have := ih xs
      simp only [smul, List.map_cons, List.zipWith_cons_cons, List.sum_cons] at this ⊢
      rw [this]; ring

theorem wsq_nonneg (μ d : Vec α) (hμ : ∀ m ∈ μ, 0 ≤ m) : 0 ≤ wsq μ d := by
  unfold wsq
  induction μ generalizing d with
  | nil => simp
  | cons m ms ih => cases d with
    | nil => simp
    | cons x xs =>
      simp only [List.zipWith_cons_cons, List.sum_cons]
      have h1 := ih xs (fun m' h' => hμ m' (List.mem_cons_of_mem _ h'))
      have h2 := mul_nonneg (hμ m (List.mem_cons_self ..)) (sq_nonneg x)
      linarith

/-- **first-order expansion of the ALM penalty** along `c ↦ c + δc`: the remainder is between `0`
    and `½ Σ μᵢ δcᵢ²` (all five lists of the same length, `μ ≥ 0`, non-empty intervals). -/
theorem penalty_expand (c δc : Vec α) (D : Box α) (μ y : Vec α)
    (h1 : δc.length = c.length) (h2 : D.length = c.length) (h3 : μ.length = c.length)
    (h4 : y.length = c.length) (hμ : ∀ m ∈ μ, 0 ≤ m)
    (hD : ∀ b ∈ D, ∀ l u, b.1 = some l → b.2 = some u → l ≤ u) :
    0 ≤ penaltyTerm (vadd c δc) D μ y - penaltyTerm c D μ y - dot (penGrad (zeta c μ y) D μ) δc ∧
    penaltyTerm (vadd c δc) D μ y - penaltyTerm c D μ y - dot (penGrad (zeta c μ y) D μ) δc
      ≤ 1 / 2 * wsq μ δc := by
  rw [penaltyTerm_eq, penaltyTerm_eq]
  unfold wsq
  induction c generalizing δc D μ y with
  | nil =>
    have : δc = [] := List.eq_nil_of_length_eq_zero (by simpa using h1)
    subst this
    simp [zeta, vadd, vzip, projDiff, penGrad, vmul]
  | cons c0 cs ih =>
    cases δc with
    | nil => simp at h1
    | cons d0 ds =>
    cases D with
    | nil => simp at h2
    | cons b0 bs =>
    cases μ with
    | nil => simp at h3
    | cons m0 ms =>
    cases y with
    | nil => simp at h4
    | cons y0 ys =>
    have hrec := ih ds bs ms ys (by simpa using h1) (by simpa using h2) (by simpa using h3)
      (by simpa using h4) (fun m' h' => hμ m' (List.mem_cons_of_mem _ h'))
      (fun b h' => hD b (List.mem_cons_of_mem _ h'))
    have h0 := penalty_grad_bound (c0 + 1 / m0 * y0) (c0 + d0 + 1 / m0 * y0) m0 b0
      (hμ m0 (List.mem_cons_self ..)) (hD b0 (List.mem_cons_self ..))
    have e : c0 + d0 + 1 / m0 * y0 - (c0 + 1 / m0 * y0) = d0 := by ring
    rw [e] at h0
    simp only [zeta, vadd, vzip, vmul, projDiff, penGrad, List.map_cons, List.zipWith_cons_cons,
      List.sum_cons, dot_cons] at hrec h0 ⊢
    constructor <;> nlinarith [hrec.1, hrec.2, h0.1, h0.2]

/-! ### the class of affine-quadratic optimal-control problems -/

/-- composite stage cost `(x, u) ↦ ℓ_t(h_t(x, u))` (`ℓ_t(x; u)` when there are no outputs) -/
def stageL (P : OCP α) (dh t : Nat) (x u : Vec α) : α :=
  if dh > 0 then P.l t (P.h t x u) else P.l t (x ++ u)
/-- what `forward` leaves in `hk(t)` -/
def stageH (P : OCP α) (dh t : Nat) (x u : Vec α) : Vec α := if dh > 0 then P.h t x u else []
def termL (P : OCP α) (dhN : Nat) (x : Vec α) : α := if dhN > 0 then P.lN (P.hN x) else P.lN x
def termH (P : OCP α) (dhN : Nat) (x : Vec α) : Vec α := if dhN > 0 then P.hN x else []

/-- **Affine-quadratic OCP** (`AffQuad`): affine dynamics `f_t`, affine constraints `c_t`, `c_N`,
    and stage / terminal costs `ℓ_t∘h_t`, `ℓ_N∘h_N` that are quadratic in `(x, u)` (e.g. affine
    outputs and quadratic `ℓ`), with derivative oracles that return what their documentation says:
    * `f_t(x+a, u+b) = f_t(x,u) + jac_t(a,b)` with `jac_t` independent of `(x,u)` and homogeneous,
      and `eval_grad_f_prod(t,x,u,p)` is its transpose applied to `p`;
    * `ℓ_t(h_t(x+a,u+b)) = ℓ_t(h_t(x,u)) + ⟨eval_qr(t,(x;u),h_t(x,u)), (a;b)⟩ + lq_t(a,b)` with
      `lq_t` homogeneous of degree 2 (the second-order part `½(a;b)ᵀ∇²(a;b)`); same at `N` with
      `eval_q_N`;
    * `c_t(x+a) = c_t(x) + cJ_t(a)`, `eval_grad_constr_prod(t,x,p) = cJ_tᵀp`; same at `N`. -/
structure AffQuad (P : OCP α) (dx du dh dc dhN dcN : Nat) where
  jac : Nat → Vec α → Vec α → Vec α
  cJ : Nat → Vec α → Vec α
  cJN : Vec α → Vec α
  lq : Nat → Vec α → Vec α → α
  lqN : Vec α → α
  jac_len : ∀ t a b, a.length = dx → b.length = du → (jac t a b).length = dx
  cJ_len : ∀ t a, a.length = dx → (cJ t a).length = dc
  cJN_len : ∀ a, a.length = dx → (cJN a).length = dcN
  f_aff : ∀ t x u a b, x.length = dx → u.length = du → a.length = dx → b.length = du →
    P.f t (vadd x a) (vadd u b) = vadd (P.f t x u) (jac t a b)
  f_adj : ∀ t x u lam a b, lam.length = dx → a.length = dx → b.length = du →
    dot (P.gradFProd t x u lam) (a ++ b) = dot lam (jac t a b)
  l_quad : ∀ t x u a b, x.length = dx → u.length = du → a.length = dx → b.length = du →
    stageL P dh t (vadd x a) (vadd u b)
      = stageL P dh t x u + dot (P.qr t (x ++ u) (stageH P dh t x u)) (a ++ b) + lq t a b
  lN_quad : ∀ x a, x.length = dx → a.length = dx →
    termL P dhN (vadd x a) = termL P dhN x + dot (P.qN x (termH P dhN x)) a + lqN a
  c_aff : ∀ t x a, x.length = dx → a.length = dx → P.c t (vadd x a) = vadd (P.c t x) (cJ t a)
  c_adj : ∀ t x p a, p.length = dc → a.length = dx → dot (P.gradCProd t x p) a = dot p (cJ t a)
  cN_aff : ∀ x a, x.length = dx → a.length = dx → P.cN (vadd x a) = vadd (P.cN x) (cJN a)
  cN_adj : ∀ x p a, p.length = dcN → a.length = dx → dot (P.gradCProdN x p) a = dot p (cJN a)
  jac_smul : ∀ t (ε : α) a b, jac t (smul ε a) (smul ε b) = smul ε (jac t a b)
  cJ_smul : ∀ t (ε : α) a, cJ t (smul ε a) = smul ε (cJ t a)
  cJN_smul : ∀ (ε : α) a, cJN (smul ε a) = smul ε (cJN a)
  lq_smul : ∀ t (ε : α) a b, lq t (smul ε a) (smul ε b) = ε ^ 2 * lq t a b
  lqN_smul : ∀ (ε : α) a, lqN (smul ε a) = ε ^ 2 * lqN a

/-- the cost the property speaks about, as a function of the inputs -/
def ocpCost (P : OCP α) (N dh dc dhN dcN : Nat) (D DN : Box α) (μ y x0 : Vec α) (U : Nat → Vec α) : α :=
  ∑ t ∈ Finset.range N, stageCost P dh dc D μ y t (traj P x0 U t) (U t)
    + terminalCost P N dc dhN dcN DN μ y (traj P x0 U N)

section expand
variable (N dx du dh dc dhN dcN : Nat)
local notation "𝓥" => OCPVars.ofProblem N dx du dh dc dhN dcN
variable (P : OCP α) (A : AffQuad P dx du dh dc dhN dcN)

/-- affine dynamics: the perturbed trajectory is the trajectory plus the linearised roll-out. -/
theorem traj_affine (hw : WellDim P dx dh dc dhN dcN) (x0 : Vec α) (U δU : Nat → Vec α)
    (hx0 : x0.length = dx) (hU : ∀ t < N, (U t).length = du) (hδ : ∀ t < N, (δU t).length = du) :
    ∀ t ≤ N, traj P x0 (fun s => vadd (U s) (δU s)) t
      = vadd (traj P x0 U t) (tangent A.jac δU dx t) ∧ (traj P x0 U t).length = dx := by
  intro t
  induction t with
  | zero =>
    intro _
    refine ⟨?_, hx0⟩
    simp only [traj, tangent]
    rw [← hx0, vadd_replicate_zero]
  | succ t ih =>
    intro ht
    obtain ⟨e, hl⟩ := ih (by omega)
    refine ⟨?_, hw.f _ _ _⟩
    have hT := tangent_length A.jac dx du N δU (fun t _ a b => A.jac_len t a b) hδ t (by omega)
    simp only [traj, tangent]
    rw [e, A.f_aff t _ _ _ _ hl (hU t (by omega)) hT (hδ t (by omega))]

theorem dot_take_drop_append (g a b : Vec α) (n : Nat) (ha : a.length = n) (hg : n ≤ g.length) :
    dot (g.take n) a + dot (g.drop n) b = dot g (a ++ b) := by
  conv_rhs => rw [← List.take_append_drop n g]
  rw [dot_append _ _ _ _ (by simp [ha, hg])]

/-- one stage: what `backward` leaves in `qr(t)`, paired with a direction `(a; b)`. -/
theorem stageQR_dot (hg : GradDim P dx du) (D : Box α) (μ y st : Vec α) (t : Nat) (ht : t < N)
    (x u a b : Vec α) (ha : a.length = dx) (hb : b.length = du)
    (hlμ : (getSeg μ (t * dc) dc).length = dc) (hlD : D.length = dc)
    (hcl : (P.c t x).length = dc) (hyl : (getSeg y (t * dc) dc).length = dc)
    (hx : getSeg st ((𝓥).xkStart t) ((𝓥).xkLen t) = x)
    (hu : getSeg st ((𝓥).ukStart t) ((𝓥).ukLen t) = u)
    (hh : dh > 0 → getSeg st ((𝓥).hkStart t) ((𝓥).hkLen t) = P.h t x u)
    (hc : dc > 0 → getSeg st ((𝓥).ckStart t) ((𝓥).ckLen t) = P.c t x) :
    dot (stageQR P 𝓥 D μ y st t).1 a + dot (stageQR P 𝓥 D μ y st t).2 b
      = dot (P.qr t (x ++ u) (stageH P dh t x u)) (a ++ b)
        + (if dc > 0 then
            dot (penGrad (zeta (P.c t x) (getSeg μ (t * dc) dc) (getSeg y (t * dc) dc)) D
              (getSeg μ (t * dc) dc)) (A.cJ t a) else 0) := by
  have hxu : getSeg st ((𝓥).xukStart t) ((𝓥).xukLen t) = x ++ u := by
    have hcn := xuk_contiguous N dx du dh dc dhN dcN t
    rw [hcn.1, xukLen_ofProblem, getSeg_add, ← hcn.2]
    rw [xkLen_ofProblem] at hx; rw [ukLen_ofProblem] at hu
    rw [hx, hu]
  have hhk : getSeg st ((𝓥).hkStart t) ((𝓥).hkLen t) = stageH P dh t x u := by
    unfold stageH
    by_cases hd : dh > 0
    · rw [if_pos hd]; exact hh hd
    · rw [if_neg hd, hkLen_ofProblem, if_pos ht, show dh = 0 by omega, getSeg_zero_len]
  unfold stageQR
  simp only [nx_ofProblem, nu_ofProblem, nc_ofProblem, hxu, hhk, hx]
  have hql := hg.qr t (x ++ u) (stageH P dh t x u)
  have e1 : (P.qr t (x ++ u) (stageH P dh t x u)).length - du = dx := by omega
  rw [e1]
  by_cases hd : dc > 0
  · simp only [if_pos hd]
    rw [hc hd]
    rw [dot_vadd_left _ _ _ (by simp [hql, hg.gc])]
    have hpl : (penGrad (zeta (P.c t x) (getSeg μ (t * dc) dc) (getSeg y (t * dc) dc)) D
        (getSeg μ (t * dc) dc)).length = dc := by
      simp [penGrad, vmul, vzip, projDiff, zeta, vadd, hlμ, hlD, hcl, hyl]
    rw [A.c_adj t x _ a hpl ha]
    rw [← dot_take_drop_append _ a b dx ha (by omega)]
    ring
  · simp only [if_neg hd, add_zero]
    exact dot_take_drop_append _ a b dx ha (by omega)

/-- one stage of the cost along `(x, u) ↦ (x + a, u + b)`: first-order term as `backward` computes
    it, second-order remainder between `lq` and `lq + ½ Σ μ (cJ a)²`. -/
theorem stageCost_expand (D : Box α) (μ y : Vec α) (t : Nat) (x u a b : Vec α)
    (hx : x.length = dx) (hu : u.length = du) (ha : a.length = dx) (hb : b.length = du)
    (hcl : (P.c t x).length = dc)
    (hlμ : (getSeg μ (t * dc) dc).length = dc) (hlD : D.length = dc)
    (hyl : (getSeg y (t * dc) dc).length = dc)
    (hμ : ∀ m ∈ getSeg μ (t * dc) dc, 0 ≤ m)
    (hD : ∀ bd ∈ D, ∀ l u, bd.1 = some l → bd.2 = some u → l ≤ u) :
    A.lq t a b ≤ stageCost P dh dc D μ y t (vadd x a) (vadd u b) - stageCost P dh dc D μ y t x u
        - (dot (P.qr t (x ++ u) (stageH P dh t x u)) (a ++ b)
          + (if dc > 0 then
              dot (penGrad (zeta (P.c t x) (getSeg μ (t * dc) dc) (getSeg y (t * dc) dc)) D
                (getSeg μ (t * dc) dc)) (A.cJ t a) else 0)) ∧
    stageCost P dh dc D μ y t (vadd x a) (vadd u b) - stageCost P dh dc D μ y t x u
        - (dot (P.qr t (x ++ u) (stageH P dh t x u)) (a ++ b)
          + (if dc > 0 then
              dot (penGrad (zeta (P.c t x) (getSeg μ (t * dc) dc) (getSeg y (t * dc) dc)) D
                (getSeg μ (t * dc) dc)) (A.cJ t a) else 0))
      ≤ A.lq t a b + (if dc > 0 then 1 / 2 * wsq (getSeg μ (t * dc) dc) (A.cJ t a) else 0) := by
  have hl := A.l_quad t x u a b hx hu ha hb
  have e : ∀ x u, stageCost P dh dc D μ y t x u = stageL P dh t x u +
      (if dc > 0 then penaltyTerm (P.c t x) D (getSeg μ (t * dc) dc) (getSeg y (t * dc) dc) else 0) :=
    fun _ _ => rfl
  rw [e, e, hl]
  by_cases hd : dc > 0
  · simp only [if_pos hd]
    rw [A.c_aff t x a hx ha]
    have hp := penalty_expand (P.c t x) (A.cJ t a) D (getSeg μ (t * dc) dc) (getSeg y (t * dc) dc)
      (by rw [A.cJ_len t a ha, hcl]) (by rw [hlD, hcl]) (by rw [hlμ, hcl]) (by rw [hyl, hcl]) hμ hD
    constructor <;> linarith [hp.1, hp.2]
  · simp only [if_neg hd]
    constructor <;> linarith

/-- the terminal costate `q_N` paired with a direction. -/
theorem termQ_dot (hg : GradDim P dx du) (DN : Box α) (μ y st : Vec α)
    (x a : Vec α) (ha : a.length = dx)
    (hlμ : (getSeg μ (N * dc) dcN).length = dcN) (hlD : DN.length = dcN)
    (hcl : (P.cN x).length = dcN) (hyl : (getSeg y (N * dc) dcN).length = dcN)
    (hx : getSeg st ((𝓥).xkStart N) ((𝓥).xkLen N) = x)
    (hh : dhN > 0 → getSeg st ((𝓥).hkStart N) ((𝓥).hkLen N) = P.hN x)
    (hc : dcN > 0 → getSeg st ((𝓥).ckStart N) ((𝓥).ckLen N) = P.cN x) :
    dot (backwardTerminal P 𝓥 DN μ y st) a
      = dot (P.qN x (termH P dhN x)) a
        + (if dcN > 0 then
            dot (penGrad (zeta (P.cN x) (getSeg μ (N * dc) dcN) (getSeg y (N * dc) dcN)) DN
              (getSeg μ (N * dc) dcN)) (A.cJN a) else 0) := by
  have hhk : getSeg st ((𝓥).hkStart N) ((𝓥).hkLen N) = termH P dhN x := by
    unfold termH
    by_cases hd : dhN > 0
    · rw [if_pos hd]; exact hh hd
    · rw [if_neg hd, hkLen_ofProblem, if_neg (Nat.lt_irrefl N), show dhN = 0 by omega, getSeg_zero_len]
  unfold backwardTerminal
  simp only [N_ofProblem, nc_ofProblem, nc_N_ofProblem, hhk, hx]
  by_cases hd : dcN > 0
  · simp only [if_pos hd]
    rw [hc hd, dot_vadd_left _ _ _ (by simp [hg.qN, hg.gcN])]
    have hpl : (penGrad (zeta (P.cN x) (getSeg μ (N * dc) dcN) (getSeg y (N * dc) dcN)) DN
        (getSeg μ (N * dc) dcN)).length = dcN := by
      simp [penGrad, vmul, vzip, projDiff, zeta, vadd, hlμ, hlD, hcl, hyl]
    rw [A.cN_adj x _ a hpl ha]
  · simp only [if_neg hd, add_zero]

theorem terminalCost_expand (DN : Box α) (μ y : Vec α) (x a : Vec α)
    (hx : x.length = dx) (ha : a.length = dx)
    (hcl : (P.cN x).length = dcN)
    (hlμ : (getSeg μ (N * dc) dcN).length = dcN) (hlD : DN.length = dcN)
    (hyl : (getSeg y (N * dc) dcN).length = dcN)
    (hμ : ∀ m ∈ getSeg μ (N * dc) dcN, 0 ≤ m)
    (hD : ∀ bd ∈ DN, ∀ l u, bd.1 = some l → bd.2 = some u → l ≤ u) :
    A.lqN a ≤ terminalCost P N dc dhN dcN DN μ y (vadd x a) - terminalCost P N dc dhN dcN DN μ y x
        - (dot (P.qN x (termH P dhN x)) a
          + (if dcN > 0 then
              dot (penGrad (zeta (P.cN x) (getSeg μ (N * dc) dcN) (getSeg y (N * dc) dcN)) DN
                (getSeg μ (N * dc) dcN)) (A.cJN a) else 0)) ∧
    terminalCost P N dc dhN dcN DN μ y (vadd x a) - terminalCost P N dc dhN dcN DN μ y x
        - (dot (P.qN x (termH P dhN x)) a
          + (if dcN > 0 then
              dot (penGrad (zeta (P.cN x) (getSeg μ (N * dc) dcN) (getSeg y (N * dc) dcN)) DN
                (getSeg μ (N * dc) dcN)) (A.cJN a) else 0))
      ≤ A.lqN a + (if dcN > 0 then 1 / 2 * wsq (getSeg μ (N * dc) dcN) (A.cJN a) else 0) := by
  have hl := A.lN_quad x a hx ha
  have e : ∀ x, terminalCost P N dc dhN dcN DN μ y x = termL P dhN x +
      (if dcN > 0 then penaltyTerm (P.cN x) DN (getSeg μ (N * dc) dcN) (getSeg y (N * dc) dcN) else 0) :=
    fun _ => rfl
  rw [e, e, hl]
  by_cases hd : dcN > 0
  · simp only [if_pos hd]
    rw [A.cN_aff x a hx ha]
    have hp := penalty_expand (P.cN x) (A.cJN a) DN (getSeg μ (N * dc) dcN) (getSeg y (N * dc) dcN)
      (by rw [A.cJN_len a ha, hcl]) (by rw [hlD, hcl]) (by rw [hlμ, hcl]) (by rw [hyl, hcl]) hμ hD
    constructor <;> linarith [hp.1, hp.2]
  · simp only [if_neg hd]
    constructor <;> linarith

theorem mem_of_mem_getSeg {β : Type} (st : List β) (s len : Nat) (m : β) (h : m ∈ getSeg st s len) : m ∈ st :=
  List.mem_of_mem_drop (List.mem_of_mem_take h)

theorem seg_len_stage (μ : Vec α) (t : Nat) (ht : t < N) (hl : μ.length = N * dc + dcN) :
    (getSeg μ (t * dc) dc).length = dc := by
  apply length_getSeg
  have := Nat.mul_le_mul_right dc (Nat.succ_le_of_lt ht)
  rw [Nat.succ_mul] at this
  omega

theorem seg_len_term (μ : Vec α) (hl : μ.length = N * dc + dcN) :
    (getSeg μ (N * dc) dcN).length = dcN := by
  apply length_getSeg; omega

/-- second-order part of the smooth costs along the linearised roll-out `T = tangent jac δU` -/
def quadPart (δU : Nat → Vec α) : α :=
  ∑ t ∈ Finset.range N, A.lq t (tangent A.jac δU dx t) (δU t) + A.lqN (tangent A.jac δU dx N)

/-- cap of the penalty remainders: `½ Σ_t Σ_i μ_{t,i} (cJ_t T_t)_i²` (+ terminal) -/
def penCap (μ : Vec α) (δU : Nat → Vec α) : α :=
  ∑ t ∈ Finset.range N,
      (if dc > 0 then 1 / 2 * wsq (getSeg μ (t * dc) dc) (A.cJ t (tangent A.jac δU dx t)) else 0)
    + (if dcN > 0 then 1 / 2 * wsq (getSeg μ (N * dc) dcN) (A.cJN (tangent A.jac δU dx N)) else 0)

/-- **Exact second-order expansion of the OCP cost around the adjoint gradient.**  For an
    affine-quadratic problem, `st` the storage after `forward` at the inputs `U`, `g` the gradient
    `backward` computes from it, and every perturbation `δU`:
      `quadPart δU ≤ V(U + δU) − V(U) − ⟨g, δU⟩ ≤ quadPart δU + penCap δU`. -/
theorem cost_expansion (hw : WellDim P dx dh dc dhN dcN) (hg : GradDim P dx du)
    (D DN : Box α) (μ y st x0 : Vec α) (U δU : Nat → Vec α)
    (hx0 : x0.length = dx) (hU : ∀ t < N, (U t).length = du) (hδ : ∀ t < N, (δU t).length = du)
    (hμl : μ.length = N * dc + dcN) (hyl : y.length = N * dc + dcN) (hμ : ∀ m ∈ μ, 0 < m)
    (hDl : D.length = dc) (hDNl : DN.length = dcN)
    (hD : ∀ bd ∈ D, ∀ l u, bd.1 = some l → bd.2 = some u → l ≤ u)
    (hDN : ∀ bd ∈ DN, ∀ l u, bd.1 = some l → bd.2 = some u → l ≤ u)
    (inv : FwdInv N dx du dh dc dhN dcN P x0 U N st)
    (hhN : dhN > 0 → getSeg st ((𝓥).hkStart N) ((𝓥).hkLen N) = P.hN (traj P x0 U N))
    (hcN : dcN > 0 → getSeg st ((𝓥).ckStart N) ((𝓥).ckLen N) = P.cN (traj P x0 U N)) :
    quadPart N dx du dh dc dhN dcN P A δU
      ≤ ocpCost P N dh dc dhN dcN D DN μ y x0 (fun s => vadd (U s) (δU s))
          - ocpCost P N dh dc dhN dcN D DN μ y x0 U
          - dot (backward P 𝓥 D DN μ y st).g ((List.range N).map δU).flatten ∧
    ocpCost P N dh dc dhN dcN D DN μ y x0 (fun s => vadd (U s) (δU s))
          - ocpCost P N dh dc dhN dcN D DN μ y x0 U
          - dot (backward P 𝓥 D DN μ y st).g ((List.range N).map δU).flatten
      ≤ quadPart N dx du dh dc dhN dcN P A δU + penCap N dx du dh dc dhN dcN P A μ δU := by
  have hT := tangent_length A.jac dx du N δU (fun t _ a b => A.jac_len t a b) hδ
  have htr := traj_affine N dx du dh dc dhN dcN P A hw x0 U δU hx0 hU hδ
  have hμ0 : ∀ s len, ∀ m ∈ getSeg μ s len, 0 ≤ m := fun s len m hm =>
    (hμ m (mem_of_mem_getSeg μ s len m hm)).le
  -- the gradient, stage by stage
  obtain ⟨hb, -, -⟩ := backward_adjoint_core N dx du dh dc dhN dcN P hg D DN μ y st A.jac
    (fun t _ a b => A.jac_len t a b) (fun t _ lam a b h1 h2 h3 => A.f_adj t _ _ lam a b h1 h2 h3) δU hδ
  have hstage : ∀ t ∈ Finset.range N,
      dot (stageQR P 𝓥 D μ y st t).1 (tangent A.jac δU dx t) + dot (stageQR P 𝓥 D μ y st t).2 (δU t)
      = dot (P.qr t (traj P x0 U t ++ U t) (stageH P dh t (traj P x0 U t) (U t)))
            (tangent A.jac δU dx t ++ δU t)
        + (if dc > 0 then
            dot (penGrad (zeta (P.c t (traj P x0 U t)) (getSeg μ (t * dc) dc) (getSeg y (t * dc) dc)) D
              (getSeg μ (t * dc) dc)) (A.cJ t (tangent A.jac δU dx t)) else 0) := by
    intro t ht
    have ht := Finset.mem_range.mp ht
    exact stageQR_dot N dx du dh dc dhN dcN P A hg D μ y st t ht _ _ _ _ (hT t ht.le) (hδ t ht)
      (seg_len_stage N dc dcN μ t ht hμl) hDl (hw.c _ _) (seg_len_stage N dc dcN y t ht hyl)
      (inv.x t ht.le) (inv.u t ht) (fun h => inv.h h t ht) (fun h => inv.c h t ht)
  have hterm := termQ_dot N dx du dh dc dhN dcN P A hg DN μ y st (traj P x0 U N)
    (tangent A.jac δU dx N) (hT N le_rfl) (seg_len_term N dc dcN μ hμl) hDNl (hw.cN _)
    (seg_len_term N dc dcN y hyl) (inv.x N le_rfl) hhN hcN
  rw [hb, Finset.sum_congr rfl hstage, hterm]
  -- the cost difference, stage by stage
  have hS : ∀ t ∈ Finset.range N, _ := fun t ht =>
    stageCost_expand dx du dh dc dhN dcN P A D μ y t (traj P x0 U t) (U t) (tangent A.jac δU dx t) (δU t)
      (htr t (Finset.mem_range.mp ht).le).2 (hU t (Finset.mem_range.mp ht))
      (hT t (Finset.mem_range.mp ht).le) (hδ t (Finset.mem_range.mp ht)) (hw.c _ _)
      (seg_len_stage N dc dcN μ t (Finset.mem_range.mp ht) hμl) hDl
      (seg_len_stage N dc dcN y t (Finset.mem_range.mp ht) hyl) (hμ0 _ _) hD
  have hTm := terminalCost_expand N dx du dh dc dhN dcN P A DN μ y (traj P x0 U N) (tangent A.jac δU dx N)
    (htr N le_rfl).2 (hT N le_rfl) (hw.cN _) (seg_len_term N dc dcN μ hμl) hDNl
    (seg_len_term N dc dcN y hyl) (hμ0 _ _) hDN
  have hlo := Finset.sum_le_sum (fun t ht => (hS t ht).1)
  have hhi := Finset.sum_le_sum (fun t ht => (hS t ht).2)
  have hcost : ∀ t ∈ Finset.range N,
      stageCost P dh dc D μ y t (traj P x0 (fun s => vadd (U s) (δU s)) t) (vadd (U t) (δU t))
        = stageCost P dh dc D μ y t (vadd (traj P x0 U t) (tangent A.jac δU dx t)) (vadd (U t) (δU t)) :=
    fun t ht => by rw [(htr t (Finset.mem_range.mp ht).le).1]
  unfold ocpCost quadPart penCap
  rw [Finset.sum_congr rfl hcost, (htr N le_rfl).1]
  simp only [Finset.sum_sub_distrib, Finset.sum_add_distrib] at hlo hhi ⊢
  constructor <;> linarith [hTm.1, hTm.2]

/-! ### scaling the direction: `g` is the directional derivative in every direction -/

theorem tangent_smul (ε : α) (δU : Nat → Vec α) :
    ∀ t, tangent A.jac (fun s => smul ε (δU s)) dx t = smul ε (tangent A.jac δU dx t) := by
  intro t
  induction t with
  | zero => simp only [tangent, smul_replicate_zero]
  | succ t ih => simp only [tangent]; rw [ih, A.jac_smul]

theorem quadPart_smul (ε : α) (δU : Nat → Vec α) :
    quadPart N dx du dh dc dhN dcN P A (fun s => smul ε (δU s))
      = ε ^ 2 * quadPart N dx du dh dc dhN dcN P A δU := by
  unfold quadPart
  simp only [tangent_smul, A.lq_smul, A.lqN_smul]
  rw [mul_add, Finset.mul_sum]

theorem penCap_smul (μ : Vec α) (ε : α) (δU : Nat → Vec α) :
    penCap N dx du dh dc dhN dcN P A μ (fun s => smul ε (δU s))
      = ε ^ 2 * penCap N dx du dh dc dhN dcN P A μ δU := by
  unfold penCap
  simp only [tangent_smul, A.cJ_smul, A.cJN_smul, wsq_smul]
  rw [mul_add, Finset.mul_sum]
  congr 1
  · apply Finset.sum_congr rfl; intro t _; split_ifs <;> ring
  · split_ifs <;> ring

theorem penCap_nonneg (μ : Vec α) (hμ : ∀ m ∈ μ, 0 < m) (δU : Nat → Vec α) :
    0 ≤ penCap N dx du dh dc dhN dcN P A μ δU := by
  have hμ0 : ∀ s len, ∀ m ∈ getSeg μ s len, 0 ≤ m := fun s len m hm =>
    (hμ m (mem_of_mem_getSeg μ s len m hm)).le
  unfold penCap
  apply add_nonneg
  · apply Finset.sum_nonneg; intro t _
    split_ifs
    · exact mul_nonneg (by norm_num) (wsq_nonneg _ _ (hμ0 _ _))
    · exact le_rfl
  · split_ifs
    · exact mul_nonneg (by norm_num) (wsq_nonneg _ _ (hμ0 _ _))
    · exact le_rfl

theorem flatten_smul (ε : α) (δU : Nat → Vec α) (l : List Nat) :
    (l.map fun s => smul ε (δU s)).flatten = smul ε (l.map δU).flatten := by
  unfold smul
  rw [List.map_flatten, List.map_map]; rfl

/-- **`g` is the derivative of the cost in every direction** (affine-quadratic class): for every
    direction `δU` there is a constant `K = |quadPart δU| + penCap δU`, independent of the step `ε`,
    with `|V(U + ε·δU) − V(U) − ε·⟨g, δU⟩| ≤ K·ε²` for all `ε`. -/
theorem cost_directional_derivative (hw : WellDim P dx dh dc dhN dcN) (hg : GradDim P dx du)
    (D DN : Box α) (μ y st x0 : Vec α) (U δU : Nat → Vec α)
    (hx0 : x0.length = dx) (hU : ∀ t < N, (U t).length = du) (hδ : ∀ t < N, (δU t).length = du)
    (hμl : μ.length = N * dc + dcN) (hyl : y.length = N * dc + dcN) (hμ : ∀ m ∈ μ, 0 < m)
    (hDl : D.length = dc) (hDNl : DN.length = dcN)
    (hD : ∀ bd ∈ D, ∀ l u, bd.1 = some l → bd.2 = some u → l ≤ u)
    (hDN : ∀ bd ∈ DN, ∀ l u, bd.1 = some l → bd.2 = some u → l ≤ u)
    (inv : FwdInv N dx du dh dc dhN dcN P x0 U N st)
    (hhN : dhN > 0 → getSeg st ((𝓥).hkStart N) ((𝓥).hkLen N) = P.hN (traj P x0 U N))
    (hcN : dcN > 0 → getSeg st ((𝓥).ckStart N) ((𝓥).ckLen N) = P.cN (traj P x0 U N)) (ε : α) :
    |ocpCost P N dh dc dhN dcN D DN μ y x0 (fun s => vadd (U s) (smul ε (δU s)))
        - ocpCost P N dh dc dhN dcN D DN μ y x0 U
        - ε * dot (backward P 𝓥 D DN μ y st).g ((List.range N).map δU).flatten|
      ≤ (|quadPart N dx du dh dc dhN dcN P A δU| + penCap N dx du dh dc dhN dcN P A μ δU) * ε ^ 2 := by
  have h := cost_expansion N dx du dh dc dhN dcN P A hw hg D DN μ y st x0 U (fun s => smul ε (δU s))
    hx0 hU (fun t ht => by rw [length_smul]; exact hδ t ht) hμl hyl hμ hDl hDNl hD hDN inv hhN hcN
  rw [quadPart_smul, penCap_smul, flatten_smul, dot_smul_right] at h
  have hC := penCap_nonneg N dx du dh dc dhN dcN P A μ hμ δU
  have hε : 0 ≤ ε ^ 2 := sq_nonneg ε
  have h1 := le_abs_self (quadPart N dx du dh dc dhN dcN P A δU)
  have h2 := neg_abs_le (quadPart N dx du dh dc dhN dcN P A δU)
  rw [abs_le]
  constructor
  · nlinarith [h.1, mul_nonneg hε hC]
  · nlinarith [h.2, mul_nonneg hε hC]
end expand
end Alpaqa.C12
