/-
  A closed instance of the PANTR loop model over `ℚ`, used by the `example`s next to the
  ordered-field theorems of `Props/C0x_Pantr.lean` (`FuelOK` forms, whole-run chain theorems) to show
  that ALL their hypotheses are satisfiable together on a non-trivial run (`decide +kernel`
  evaluates the run inside the kernel):

  one variable, `ψ(x) = x²/2`, `C = [−1, 10]` (`h = δ_C`), one constraint row with `ŷ(x) = x` (`y = 5`,
  `Σ = 2`, `err_z` pre-filled with `7`), start `x₀ = 4`, user's `L_0 = 1/2` (half the
  true curvature: the initial `backtrack_qub` halves the step size once), `Lγ_factor = 1/2`,
  `max_iter = 2`, criterion `ProjGradNorm`; a direction provider whose first proposal `q = −1`
  (model value `−1`) is ACCEPTED (`ρ = 3/4 ≥ 1/5`) and whose second proposal `q = +3` is REJECTED
  (`ρ = −3`).  Callbacks: `k = 0` (`x = 4`, `τ = 1`), `k = 1` (`x = 1`, `τ = 0`), final `k = 2`
  (`x = 1/2`, `MaxIter`); envelope values `4, 1/4, 1/16`.

  The prox step is the exact box projection step `(0, Π_C(x − γg), Π_C(x − γg) − x)`, written at vector
  level (so that `Props/C06.ProxIsProj PCq …` holds for all lists); `prox_sized` proves the sized prox contract
  `ProxContract.Sized 1 (fun _ => 0) domq Pq.prox` for it directly.
-/
import Mathlib.Tactic.NormNum.Basic
import Mathlib.Tactic.Linarith
import Mathlib.Tactic.Ring
import Mathlib.Algebra.Order.Field.Rat
import Alpaqa.Proofs.PantrChain
import Alpaqa.Proofs.PantrDoc
import Alpaqa.Proofs.PantrSized

namespace Alpaqa.Pantr.ExampleQ
open Alpaqa Alpaqa.Pantr Alpaqa.Gen

/-- no libm on `ℚ`: `sqrt` is only used for the trust radius update (`‖q‖`), which no theorem
    instantiated here speaks about -/
scoped instance : RealLike ℚ := ⟨id, fun _ => false, fun _ => true⟩

def clampQ (v : ℚ) : ℚ := if v < -1 then -1 else if 10 < v then 10 else v

/-- the projection onto `C = [−1, 10]ⁿ`, componentwise -/
def PCq (v : Vec ℚ) : Vec ℚ := v.map clampQ

/-- ψ(x) = x²/2, C = [−1, 10], one variable, one constraint row with ŷ(x) = x -/
def Pq : Problem ℚ where
  psiGradPsi x := ((x.headD 0) * (x.headD 0) / 2, [x.headD 0], [x.headD 0])
  psi x := ((x.headD 0) * (x.headD 0) / 2, [x.headD 0])
  gradPsi x := [x.headD 0]
  gradL x _ := [x.headD 0]
  prox γ x g := (0, PCq (vsub x (smul γ g)), vsub (PCq (vsub x (smul γ g))) x)

/-- the provider counts its `apply` calls: first proposal `q = −1`, every later one `q = +3`; the
    model value it claims is `−1` both times -/
def dirq : Direction Nat ℚ where
  init d _ _ _ _ _ := d
  hasInitial _ := true
  apply d _ _ _ _ _ _ _ := (d + 1, -1, if d = 0 then [-1] else [3])
  update d _ _ _ _ _ _ _ _ := (d, true)
  changedGamma d _ _ := d
  reset d := d

def prq : Params ℚ :=
  { L0 := 1/2, lipEps := 1/1000, lipDelta := 1/1000, LgammaFactor := 1/2, maxIter := 2,
    Lmin := 1/10, Lmax := 100, stopCrit := .ProjGradNorm, maxNoProgress := 10, qubTol := 0, trTol := 0,
    ratioThresholdAcceptable := 1/5, ratioThresholdGood := 4/5, radiusFactorRejected := 7/20,
    radiusFactorAcceptable := 999/1000, radiusFactorGood := 5/2, initialRadius := 5,
    minRadius := 1/100, computeRatioUsingNewStepsize := false, updateDirectionOnProxStep := true,
    recomputeLastProx := false, disableAcceleration := false, ratioApproxFbe := false,
    alwaysOverwrite := false, tolerance := 1/1000, qubFuel := 16 }

def coq : Consts ℚ := ⟨1000000, -1000000⟩

/-- stop flag visible from tick `t` on (`none`: never) -/
def stopAt (t0 : Option Nat) : Nat → Bool := fun t => match t0 with
  | none => false
  | some k => decide (k ≤ t)

/-- the solve from `x₀ = 4` with `y = [5]`, `Σ = [2]`, `err_z` pre-filled with `[7]` -/
def rq (t0 : Option Nat) : Result ℚ Nat :=
  run coq Pq dirq 0 prq (stopAt t0) false [4] [5] [2] [7] [0]

/-- `dom h = C` as a predicate on vectors: the 1-vectors with component in `[−1, 10]` -/
def domq (u : Vec ℚ) : Prop := ∃ a : ℚ, u = [a] ∧ -1 ≤ a ∧ a ≤ 10

theorem clampQ_mem (v : ℚ) : -1 ≤ clampQ v ∧ clampQ v ≤ 10 := by
  unfold clampQ; split_ifs <;> constructor <;> linarith

/-- the projection onto `[−1, 10]` is the nearest point of the interval -/
theorem clampQ_nearest (v c : ℚ) (h1 : -1 ≤ c) (h2 : c ≤ 10) :
    (clampQ v - v) * (clampQ v - v) ≤ (c - v) * (c - v) := by
  unfold clampQ; split_ifs <;> nlinarith

/-- **The sized prox contract holds for the example's prox oracle** (`n = 1`, `h = δ_C`). -/
theorem prox_sized : ProxContract.Sized 1 (fun _ => (0 : ℚ)) domq Pq.prox := by
  intro γ x g hγ hx hg
  obtain ⟨a, rfl⟩ := List.length_eq_one_iff.mp hx
  obtain ⟨b, rfl⟩ := List.length_eq_one_iff.mp hg
  have hm := clampQ_mem (a - γ * b)
  refine ⟨rfl, ?_, rfl, ⟨_, rfl, hm.1, hm.2⟩, ?_⟩
  · simp [Pq, vsub, vzip]
  · rintro u ⟨c, rfl, h1, h2⟩ -
    have hn := clampQ_nearest (a - γ * b) c h1 h2
    simp only [Pq, PCq, smul, sqNorm, dot, vsum, redux, vmul, vsub, vzip, List.zipWith_cons_cons,
      List.zipWith_nil_right, List.map_cons, List.map_nil, List.foldl_nil, zero_add]
    have h2γ : (0 : ℚ) < 2 * γ := by linarith
    rw [div_add' _ _ _ h2γ.ne', div_add' _ _ _ h2γ.ne', div_le_div_iff_of_pos_right h2γ]
    nlinarith

theorem descHyp : DescHyp 1 (fun _ => (0 : ℚ)) domq Pq prq :=
  ⟨prox_sized, fun _ => rfl, fun h => by simp [prq] at h⟩

/-- the problem oracles are sized (`n = 1`, `m = 1`) -/
theorem problemSized : ProblemSized 1 1 Pq := by
  refine ⟨fun _ _ => rfl, fun _ _ => rfl, fun _ _ => rfl, fun _ _ => rfl, fun _ _ _ _ => rfl, ?_, ?_⟩
  · intro γ x g hx hg
    simp [Pq, PCq, vsub, vzip, smul, hx, hg]
  · intro γ x g hx hg
    simp [Pq, PCq, vsub, vzip, smul, hx, hg]

/-- the provider's state is a call counter (no vectors): the trivial invariant; every proposal is a
    1-vector -/
theorem dirSized : DirSized 1 dirq (fun _ => True) := by
  refine ⟨fun _ _ _ _ _ _ _ _ _ _ _ => trivial, fun _ _ _ _ _ _ _ _ _ _ _ _ _ => trivial, ?_,
    fun _ _ _ _ _ _ _ _ _ _ _ _ _ _ _ _ => trivial, fun _ _ _ _ => trivial, fun _ _ => trivial⟩
  intro d γ x xh p g Δ q _ _ _ _ _ _
  simp only [dirq]
  split_ifs <;> rfl

/-- the three gradient oracles of the example agree -/
theorem gradOracles : GradOracles Pq := ⟨fun _ => rfl, fun _ => rfl⟩

theorem paramsOK : ParamsOK prq := ⟨by norm_num [prq], by norm_num [prq], by norm_num [prq]⟩

/-- `L_max = 100 ≤ L_0·2⁸ = 128`, and `8 < qubFuel = 16` -/
theorem fuelOK : FuelOK prq 8 :=
  ⟨by norm_num [prq], by norm_num [prq], by norm_num [prq], by norm_num [prq]⟩

/-! ### The library's default `PANTRParams` (pantr.hpp, lipschitz.hpp), over `ℚ` -/

/-- `PANTRParams{}` with `LipschitzEstimateParams{}`: `L_0 = 0` (finite-difference estimate), `ε = 1e-6`,
    `δ = 1e-12`, `Lγ_factor = 0.95`, `max_iter = 100`, `L_min = 1e-5`, `L_max = 1e20`, `ApproxKKT`,
    `max_no_progress = 10`, tolerance factors `10·2⁻⁵²`, thresholds `0.2 / 0.8`, radius factors
    `0.35 / 0.999 / 2.5`, `initial_radius = NaN` (any value here: `0` selects the same branch),
    `min_radius = 100·2⁻⁵²`, flags as in the header; `InnerSolveOptions`: `always_overwrite_results = true`,
    `tolerance = 1e-8`; the model's `backtrack_qub` fuel as the replay driver passes it (4096). -/
def defaultParams : Params ℚ :=
  { L0 := 0, lipEps := 1/1000000, lipDelta := 1/1000000000000, LgammaFactor := 19/20, maxIter := 100,
    Lmin := 1/100000, Lmax := 100000000000000000000, stopCrit := .ApproxKKT, maxNoProgress := 10,
    qubTol := 10 / 2^52, trTol := 10 / 2^52, ratioThresholdAcceptable := 1/5,
    ratioThresholdGood := 4/5, radiusFactorRejected := 7/20, radiusFactorAcceptable := 999/1000,
    radiusFactorGood := 5/2, initialRadius := 0, minRadius := 100 / 2^52,
    computeRatioUsingNewStepsize := false, updateDirectionOnProxStep := true, recomputeLastProx := false,
    disableAcceleration := false, ratioApproxFbe := true, alwaysOverwrite := true,
    tolerance := 1/100000000, qubFuel := 4096 }

/-- **`FuelOK` holds for the library defaults** with `N = 84`: `1e20 ≤ 1e-5·2⁸⁴` (`2⁸⁴ ≈ 1.93e25`), and
    `84 < 4096`. -/
theorem defaultParams_fuelOK : FuelOK defaultParams 84 :=
  ⟨by norm_num [defaultParams], by norm_num [defaultParams], by norm_num [defaultParams],
    by norm_num [defaultParams]⟩

theorem defaultParams_paramsOK : ParamsOK defaultParams :=
  ⟨by norm_num [defaultParams], by norm_num [defaultParams], by norm_num [defaultParams]⟩

/-- … and the defaults satisfy the remaining parameter hypotheses of the C05 theorems:
    `ratio_approx_fbe_quadratic_model → Lγ_factor < 1`, `0 ≤ ratio_threshold_acceptable`. -/
theorem defaultParams_approx : (defaultParams.ratioApproxFbe = true → defaultParams.LgammaFactor < 1) ∧
    0 ≤ defaultParams.ratioThresholdAcceptable :=
  ⟨fun _ => by norm_num [defaultParams], by norm_num [defaultParams]⟩

end Alpaqa.Pantr.ExampleQ
