/-
  C07: the hypotheses of the property theorems (`ValidParams`, `SigmaLen`, `SigmaLeMax`, `SizeOK`), the loop
  invariants and the helper lemmas about `Alpaqa.C07.run` that `Props/C07.lean` builds on
  (path split of `run`, invariant at every loop pass, data flow between consecutive inner solves).
-/
import Alpaqa.Proofs.C07
import Alpaqa.Props.C15

namespace Alpaqa.Props.C07
open Alpaqa Alpaqa.Gen Alpaqa.C07 Alpaqa.Proofs.C07
set_option linter.unusedSectionVars false

variable {α A S : Type} [Field α] [LinearOrder α] [IsStrictOrderedRing α] [RealLike α] [NoNaN α]

/-- Parameter validity: what the theorems still have to assume after the repairs
    C07-penalty-never-decreases / C07-initial-tolerance-not-below-final /
    C07-single-penalty-factor-nonuniform-sigma / C07-nonpositive-user-sigma.  Each conjunct is forced
    by a theorem; at the excluded point the property fails on the model *and* on the real code
    (open finding `C07-alm-params-not-validated`: the C++ validates no parameter):
    * `0 ≤ tolerance`, `tolerance_update_factor ≤ 1` — `tolerance_antitone_ge_final`
      (otherwise `fmax(ρ·ε, tolerance)` increases ε);
    * `0 < min_penalty ≤ max_penalty` — `penalty_pos`, `penalty_le_max` for the automatic initial
      penalty (`std::clamp` with `hi < lo` is undefined behaviour in the C++);
    * `initial_penalty ≤ max_penalty` — `penalty_le_max` only: this *is* the property's exemption
      "unless the caller's initial ones do";
    * `0 ≤ max_multiplier` — `multipliers_in_bounds_signed`.
    No longer needed: `tolerance ≤ initial_tolerance`, `penalty_update_factor ≥ 1`. -/
def ValidParams (P : ALMParams α) : Prop :=
  0 ≤ P.tolerance ∧ P.tolerance_update_factor ≤ 1 ∧
  0 < P.min_penalty ∧ P.min_penalty ≤ P.max_penalty ∧ P.initial_penalty ≤ P.max_penalty ∧
  0 ≤ P.max_multiplier

instance (P : ALMParams α) : Decidable (ValidParams P) := by unfold ValidParams; infer_instance

/-- The caller's optional initial penalties have `m` entries (a C++ precondition: `Σ_curr = *Σ`). -/
def SigmaLen (m : Nat) : Option (Vec α) → Prop
  | none => True
  | some Sg => Sg.length = m

instance (m : Nat) (o : Option (Vec α)) : Decidable (SigmaLen (α := α) m o) := by
  cases o <;> unfold SigmaLen <;> infer_instance

/-- "unless the caller's initial ones do": the caller's optional initial penalties do not exceed
    `max_penalty` (needed by `penalty_le_max` only).  No longer needed: componentwise positivity (a
    Σ with a non-positive component is now rejected like a non-finite one) and uniformity in
    single-factor mode (the largest component is used for all). -/
def SigmaLeMax (P : ALMParams α) : Option (Vec α) → Prop
  | none => True
  | some Sg => ∀ σ ∈ Sg, σ ≤ P.max_penalty

instance (P : ALMParams α) (o : Option (Vec α)) : Decidable (SigmaLeMax P o) := by
  cases o <;> unfold SigmaLeMax <;> infer_instance

theorem SigmaLen.hlen {m : Nat} {o : Option (Vec α)} (h : SigmaLen m o) :
    ∀ Sg, o = some Sg → Sg.length = m := by
  intro Sg e; subst e; exact h

/-- A well-sized inner call for a problem with `n` variables and `m` constraints: `x` has `n`
    entries, `y`, `Σ` and the `err_z` buffer have `m`.  The ALM loop is *proved* to make only such
    calls (`step_call_sized`, from `x.length = n`, `y.length = m`, `SigmaLen`), so nothing below is
    assumed about what an inner solver does when it is handed ill-sized buffers. -/
structure SizedCall (n m : Nat) (c : InnerCall α) : Prop where
  x : c.x.length = n
  y : c.y.length = m
  sigma : c.sigma.length = m
  errBuf : c.errBuf.length = m

/-- The inner solver writes `x`, `y`, `err_z` in place (`rvec`, fixed size): on a well-sized call it
    hands them back with the sizes it got.  Only well-sized calls are constrained. -/
structure SizeOK (n m : Nat) (inner : InnerCall α → InnerResult α S) : Prop where
  errz : ∀ c, SizedCall n m c → (inner c).errz.length = m
  x : ∀ c, SizedCall n m c → (inner c).x.length = n
  y : ∀ c, SizedCall n m c → (inner c).y.length = m

variable (nan inf : α) (acc0 : A) (accAdd : A → S → A) (P : ALMParams α) (prob : Problem α)
  (x y : Vec α) (Sig0 : Option (Vec α)) (inner : InnerCall α → InnerResult α S)

local notation "RUN" => run nan inf acc0 accAdd P prob x y Sig0 inner

local notation "LOOP" => loop P prob accAdd (Option.isSome Sig0) (Option.getD Sig0 []) inner

local notation "STEP" => mkStep P prob accAdd (Option.isSome Sig0) (Option.getD Sig0 []) inner

local notation "INIT" => almInit P nan inf acc0 prob.m (Option.isSome Sig0) (Option.getD Sig0 []) prob.f0 prob.g0

/-- The three paths of `operator()`. -/
theorem run_cases :
    (P.max_iter = 0 ∧ RUN = ⟨almMaxIter0 inf acc0, x, y, Sig0, [], [], false⟩) ∨
    (P.max_iter ≠ 0 ∧ prob.m = 0 ∧
      RUN = ⟨almM0 accAdd (inner ⟨x, y, [], [], almInnerOptsM0 P⟩).status
                (inner ⟨x, y, [], [], almInnerOptsM0 P⟩).eps (inner ⟨x, y, [], [], almInnerOptsM0 P⟩).stats
                (ALMStats.default inf acc0),
              (inner ⟨x, y, [], [], almInnerOptsM0 P⟩).x,
              (inner ⟨x, y, [], [], almInnerOptsM0 P⟩).y, Sig0,
              [(⟨x, y, [], [], almInnerOptsM0 P⟩, inner ⟨x, y, [], [], almInnerOptsM0 P⟩)],
              [], false⟩) ∨
    (P.max_iter ≠ 0 ∧ prob.m ≠ 0 ∧ RUN = LOOP P.max_iter 0 INIT x y) := by
  unfold run almMaxIter0Cond
  by_cases h1 : P.max_iter = 0
  · left; simp [h1]
  · right
    by_cases h2 : prob.m = 0
    · left; simp [h1, h2]
    · right; simp [h1, h2, almLoopInit]

/-- buffer sizes (Σ, err_z and its copy all have `m` entries) -/
def LenInv (m : Nat) (st : LoopState α A) : Prop :=
  st.Sig_curr.length = m ∧ st.error.length = m ∧ st.error_old.length = m

theorem eclamp_mem (v lo hi : α) (h : lo ≤ hi) : lo ≤ eclamp v lo hi ∧ eclamp v lo hi ≤ hi := by
  unfold eclamp; split_ifs with h1 h2
  · exact ⟨le_refl _, h⟩
  · exact ⟨by linarith, le_refl _⟩
  · exact ⟨not_lt.mp h1, not_lt.mp h2⟩

/-- Σ selected before the loop, before the single-factor `setConstant(maxCoeff())`:
    the caller's Σ if given, finite and componentwise positive; else `initial_penalty` if positive;
    else `initialize_penalty`. -/
def initSig0 (P : ALMParams α) (nan : α) (m : Nat) (has : Bool) (Sg : Vec α) (f0 : α) (g0 : Vec α) :
    Vec α :=
  if (has && vallFinite Sg && decide (redux emin 0 Sg > 0)) = true then Sg
  else if P.initial_penalty > 0 then (List.replicate m nan).map (fun _ => P.initial_penalty)
  else initializePenalty P (List.replicate m nan) f0 g0

/-- single-factor mode: `Σ_curr.setConstant(Σ_curr.maxCoeff())` -/
def uniformize (P : ALMParams α) (v : Vec α) : Vec α :=
  if P.single_penalty_factor = true then v.map (fun _ => redux emax 0 v) else v

local notation "SIG0" => initSig0 P nan prob.m (Option.isSome Sig0) (Option.getD Sig0 []) prob.f0 prob.g0

theorem almInit_Sig : (INIT).Sig_curr = uniformize P SIG0 := by
  unfold almInit initSig0 uniformize
  simp only [decide_eq_true_eq, gt_iff_lt]

theorem almInit_eps : (INIT).eps = max P.initial_tolerance P.tolerance := by
  unfold almInit; simp only [fmaxS_eq_max]

theorem uniformize_len (v : Vec α) : (uniformize P v).length = v.length := by
  unfold uniformize; split_ifs <;> simp

theorem uniformize_uniform (v : Vec α) : Uniform P (uniformize P v) := by
  intro h σ hσ τ hτ
  unfold uniformize at hσ hτ
  rw [if_pos h, List.mem_map] at hσ hτ
  obtain ⟨_, _, rfl⟩ := hσ; obtain ⟨_, _, rfl⟩ := hτ; rfl

theorem uniformize_pos (v : Vec α) (h : AllPos v) : AllPos (uniformize P v) := by
  unfold uniformize; split_ifs
  · intro σ hσ
    rw [List.mem_map] at hσ
    obtain ⟨a, ha, rfl⟩ := hσ
    exact lt_of_lt_of_le (h a ha) (le_redux_emax v a ha)
  · exact h

theorem uniformize_le (v : Vec α) (h : AllLe P v) : AllLe P (uniformize P v) := by
  unfold uniformize; split_ifs
  · intro σ hσ
    rw [List.mem_map] at hσ
    obtain ⟨a, ha, rfl⟩ := hσ
    exact redux_emax_le v _ (List.ne_nil_of_mem ha) h
  · exact h

theorem initSig0_len (hlen : ∀ Sg, Sig0 = some Sg → Sg.length = prob.m) : (SIG0).length = prob.m := by
  unfold initSig0
  split_ifs with h1 h2
  · cases Sig0 with
    | none => simp at h1
    | some Sg => simpa using hlen Sg rfl
  · simp
  · simp [initializePenalty]

/-- the penalties the loop starts with are positive: a caller's Σ is only taken if
    `minCoeff() > 0`; forced for the automatic penalty: `0 < min_penalty ≤ max_penalty` -/
theorem initSig0_pos (hmin : 0 < P.min_penalty) (hmm : P.min_penalty ≤ P.max_penalty) :
    AllPos SIG0 := by
  unfold initSig0
  split_ifs with h1 h2
  · simp only [Bool.and_eq_true, decide_eq_true_eq, gt_iff_lt] at h1
    intro σ hσ
    exact lt_of_lt_of_le h1.2 (redux_emin_le _ σ hσ)
  · intro σ hσ; rw [List.mem_map] at hσ; obtain ⟨_, _, rfl⟩ := hσ; exact h2
  · unfold initializePenalty
    simp only []
    intro σ hσ; rw [List.mem_map] at hσ; obtain ⟨_, _, rfl⟩ := hσ
    exact lt_of_lt_of_le hmin (eclamp_mem _ _ _ hmm).1

theorem initSig0_le (hmm : P.min_penalty ≤ P.max_penalty) (hip : P.initial_penalty ≤ P.max_penalty)
    (hs : SigmaLeMax P Sig0) : AllLe P SIG0 := by
  unfold initSig0
  split_ifs with h1 h2
  · cases Sig0 with
    | none => simp at h1
    | some Sg => exact hs
  · intro σ hσ; rw [List.mem_map] at hσ; obtain ⟨_, _, rfl⟩ := hσ; exact hip
  · unfold initializePenalty
    simp only []
    intro σ hσ; rw [List.mem_map] at hσ; obtain ⟨_, _, rfl⟩ := hσ
    exact (eclamp_mem _ _ _ hmm).2

theorem almInit_len (hlen : ∀ Sg, Sig0 = some Sg → Sg.length = prob.m) : LenInv prob.m INIT := by
  refine ⟨?_, ?_, ?_⟩
  · rw [almInit_Sig, uniformize_len]; exact initSig0_len nan P prob Sig0 hlen
  · unfold almInit; simp
  · unfold almInit; simp

theorem projMult_len (y : Vec α) (M : α) : (projMult prob y M).length = y.length := by
  unfold projMult C15.projMultipliers; simp

/-- sizes carried around the loop: the buffers (`LenInv`) and the in/out arguments `x`, `y` -/
def SzInv (n m : Nat) (st : LoopState α A) (x y : Vec α) : Prop :=
  LenInv m st ∧ x.length = n ∧ y.length = m

/-- **The ALM loop makes only well-sized inner calls** (the multiplier projection keeps the size). -/
theorem step_call_sized (n i : Nat) (st : LoopState α A) (x y : Vec α) (h : SzInv n prob.m st x y) :
    SizedCall n prob.m (STEP i st x y).call := by
  rw [mkStep_call]
  exact ⟨h.2.1, by simp only []; rw [projMult_len]; exact h.2.2, h.1.1, h.1.2.1⟩

theorem step_errz_len {n : Nat} (hin : SizeOK n prob.m inner) (i : Nat) (st : LoopState α A) (x y : Vec α)
    (h : SzInv n prob.m st x y) : (STEP i st x y).res.errz.length = st.Sig_curr.length := by
  rw [mkStep_res, hin.errz _ (step_call_sized accAdd P prob Sig0 inner n i st x y h), h.1.1]

theorem lenInv_step {n : Nat} (hin : SizeOK n prob.m inner) (i : Nat) (st st' : LoopState α A) (x y : Vec α)
    (h : SzInv n prob.m st x y) (hc : (STEP i st x y).out = .cont st') : LenInv prob.m st' := by
  have hl := step_errz_len accAdd P prob Sig0 inner hin i st x y h
  rw [(step_cont P prob accAdd _ _ inner hc).2.2.2.2]
  exact ⟨by simp only []; rw [upw_length _ _ _ _ _ _ _ _ hl, h.1.1], h.1.2.2, by rw [hl, h.1.1]⟩

theorem szInv_step {n : Nat} (hin : SizeOK n prob.m inner) (i : Nat) (st st' : LoopState α A) (x y : Vec α)
    (h : SzInv n prob.m st x y) (hc : (STEP i st x y).out = .cont st') :
    SzInv n prob.m st' (STEP i st x y).res.x (STEP i st x y).res.y :=
  ⟨lenInv_step accAdd P prob Sig0 inner hin i st st' x y h hc,
   by rw [mkStep_res]; exact hin.x _ (step_call_sized accAdd P prob Sig0 inner n i st x y h),
   by rw [mkStep_res]; exact hin.y _ (step_call_sized accAdd P prob Sig0 inner n i st x y h)⟩

/-- sizes + a property `Q` of Σ that `update_penalty_weights` preserves -/
def SigInv (Q : Vec α → Prop) (m : Nat) (st : LoopState α A) : Prop := LenInv m st ∧ Q st.Sig_curr

/-- `SigInv` together with the sizes of `x`, `y` -/
def SigSzInv (Q : Vec α → Prop) (n m : Nat) (st : LoopState α A) (x y : Vec α) : Prop :=
  SigInv Q m st ∧ x.length = n ∧ y.length = m

theorem SigSzInv.sz {Q : Vec α → Prop} {n m : Nat} {st : LoopState α A} {x y : Vec α}
    (h : SigSzInv Q n m st x y) : SzInv n m st x y := ⟨h.1.1, h.2⟩

theorem sigInv_step {n : Nat} (Q : Vec α → Prop)
    (hQ : ∀ Δ first e eo ne neo Sg, e.length = Sg.length → Q Sg →
      Q (updatePenaltyWeights P Δ first e eo ne neo Sg))
    (hin : SizeOK n prob.m inner) (i : Nat) (st st' : LoopState α A) (x y : Vec α)
    (h : SigSzInv Q n prob.m st x y) (hc : (STEP i st x y).out = .cont st') :
    SigSzInv Q n prob.m st' (STEP i st x y).res.x (STEP i st x y).res.y := by
  have hs := szInv_step accAdd P prob Sig0 inner hin i st st' x y h.sz hc
  refine ⟨⟨hs.1, ?_⟩, hs.2⟩
  rw [(step_cont P prob accAdd _ _ inner hc).2.2.2.2]
  exact hQ _ _ _ _ _ _ _ (step_errz_len accAdd P prob Sig0 inner hin i st x y h.sz) h.1.2

/-- every loop pass of a run starts with `m`-sized buffers, well-sized `x`, `y` and a Σ satisfying
    `Q`, for every property `Q` that holds initially and is preserved by the penalty update -/
theorem steps_sigInv {n : Nat} (Q : Vec α → Prop)
    (hQ : ∀ Δ first e eo ne neo Sg, e.length = Sg.length → Q Sg →
      Q (updatePenaltyWeights P Δ first e eo ne neo Sg))
    (hlen : ∀ Sg, Sig0 = some Sg → Sg.length = prob.m) (h0 : Q (INIT).Sig_curr)
    (hin : SizeOK n prob.m inner) (hx : x.length = n) (hy : y.length = prob.m)
    (fuel : Nat) : ∀ s ∈ (LOOP fuel 0 INIT x y).steps,
      ∃ x' y', SigSzInv Q n prob.m s.st x' y' ∧ s = STEP s.i s.st x' y' := by
  intro s hs'
  exact loop_steps_forall P prob accAdd _ _ inner (fun _ st x y => SigSzInv Q n prob.m st x y)
    (fun i st x y st' hI hc => sigInv_step accAdd P prob Sig0 inner Q hQ hin i st st' x y hI hc)
    fuel 0 INIT x y ⟨⟨almInit_len nan inf acc0 P prob Sig0 hlen, h0⟩, hx, hy⟩ s hs'

theorem map_eq_append_pair {β γ : Type} (f : β → γ) (l : List β) (pre : List γ) (a b : γ)
    (post : List γ) (h : l.map f = pre ++ a :: b :: post) :
    ∃ pre' a' b' post', l = pre' ++ a' :: b' :: post' ∧ f a' = a ∧ f b' = b ∧
      pre'.map f = pre ∧ post'.map f = post := by
  rw [List.map_eq_append_iff] at h
  obtain ⟨l1, l2, rfl, h1, h2⟩ := h
  rw [List.map_eq_cons_iff] at h2
  obtain ⟨a', l3, rfl, ha, h3⟩ := h2
  rw [List.map_eq_cons_iff] at h3
  obtain ⟨b', l4, rfl, hb, h4⟩ := h3
  exact ⟨l1, a', b', l4, rfl, ha, hb, h1, h4⟩

theorem map_eq_append_triple {β γ : Type} (f : β → γ) (l : List β) (pre : List γ) (z a b : γ)
    (post : List γ) (h : l.map f = pre ++ z :: a :: b :: post) :
    ∃ pre' z' a' b' post', l = pre' ++ z' :: a' :: b' :: post' ∧ f z' = z ∧ f a' = a ∧ f b' = b := by
  obtain ⟨pre', z', a', post1, rfl, hz, ha, _, h4⟩ := map_eq_append_pair f l pre z a (b :: post) h
  rw [List.map_eq_cons_iff] at h4
  obtain ⟨b', l4, rfl, hb, _⟩ := h4
  exact ⟨pre', z', a', b', l4, rfl, hz, ha, hb⟩

/-- Consecutive inner solves of the loop: data flow from one pass to the next, for any invariant
    `J` of the loop-carried state. -/
theorem history_pair (J : LoopState α A → Vec α → Vec α → Prop) (hJ0 : J INIT x y)
    (hJ : ∀ i st st' x y, J st x y → (STEP i st x y).out = .cont st' →
      J st' (STEP i st x y).res.x (STEP i st x y).res.y)
    (fuel : Nat) (pre : List (InnerCall α × InnerResult α S)) (a b : InnerCall α × InnerResult α S)
    (post : List (InnerCall α × InnerResult α S))
    (h : (LOOP fuel 0 INIT x y).history = pre ++ a :: b :: post) :
    ∃ (i : Nat) (st st' : LoopState α A) (x' y' : Vec α),
      J st x' y' ∧ (STEP i st x' y').out = .cont st' ∧
      a = ((STEP i st x' y').call, (STEP i st x' y').res) ∧
      b = ((STEP (i + 1) st' a.2.x a.2.y).call, (STEP (i + 1) st' a.2.x a.2.y).res) := by
  rw [loop_history_eq] at h
  obtain ⟨pre', a', b', post', hst, rfl, rfl, _, _⟩ := map_eq_append_pair _ _ _ _ _ _ h
  obtain ⟨x', y', hI, ha, hout, hbi, hb⟩ := loop_steps_pairs P prob accAdd _ _ inner
    (fun _ st x y => J st x y) (fun i st x y st' hI hc => hJ i st st' x y hI hc)
    fuel 0 INIT x y hJ0 pre' a' b' post' hst
  have hb' : b' = STEP (a'.i + 1) b'.st a'.res.x a'.res.y := by rw [← hbi]; exact hb
  refine ⟨a'.i, a'.st, b'.st, x', y', hI, ?_, ?_, ?_⟩
  · rw [← ha]; exact hout
  · rw [← ha]
  · simp only []; rw [← hb']

/-- Three consecutive inner solves. -/
theorem history_triple (J : LoopState α A → Vec α → Vec α → Prop) (hJ0 : J INIT x y)
    (hJ : ∀ i st st' x y, J st x y → (STEP i st x y).out = .cont st' →
      J st' (STEP i st x y).res.x (STEP i st x y).res.y)
    (fuel : Nat) (pre : List (InnerCall α × InnerResult α S)) (z a b : InnerCall α × InnerResult α S)
    (post : List (InnerCall α × InnerResult α S))
    (h : (LOOP fuel 0 INIT x y).history = pre ++ z :: a :: b :: post) :
    ∃ (i : Nat) (st st' st'' : LoopState α A) (x' y' : Vec α),
      J st x' y' ∧ (STEP i st x' y').out = .cont st' ∧
      z = ((STEP i st x' y').call, (STEP i st x' y').res) ∧
      (STEP (i + 1) st' z.2.x z.2.y).out = .cont st'' ∧
      a = ((STEP (i + 1) st' z.2.x z.2.y).call, (STEP (i + 1) st' z.2.x z.2.y).res) ∧
      b = ((STEP (i + 2) st'' a.2.x a.2.y).call, (STEP (i + 2) st'' a.2.x a.2.y).res) := by
  rw [loop_history_eq] at h
  obtain ⟨pre', z', a', b', post', hst, rfl, rfl, rfl⟩ := map_eq_append_triple _ _ _ _ _ _ _ h
  obtain ⟨x', y', hI, hz, hzout, hai, ha⟩ := loop_steps_pairs P prob accAdd _ _ inner
    (fun _ st x y => J st x y) (fun i st x y st' hI hc => hJ i st st' x y hI hc)
    fuel 0 INIT x y hJ0 pre' z' a' (b' :: post') hst
  have hst2 : (LOOP fuel 0 INIT x y).steps = (pre' ++ [z']) ++ a' :: b' :: post' := by
    rw [hst]; simp
  obtain ⟨_, _, _, _, haout, hbi, hb⟩ := loop_steps_pairs P prob accAdd _ _ inner
    (fun _ _ _ _ => True) (fun _ _ _ _ _ _ _ => trivial)
    fuel 0 INIT x y trivial (pre' ++ [z']) a' b' post' hst2
  have ha' : a' = STEP (z'.i + 1) a'.st z'.res.x z'.res.y := by rw [← hai]; exact ha
  have hb' : b' = STEP (z'.i + 2) b'.st a'.res.x a'.res.y := by
    have : b'.i = z'.i + 2 := by omega
    rw [← this]; exact hb
  refine ⟨z'.i, z'.st, a'.st, b'.st, x', y', hI, ?_, ?_, ?_, ?_, ?_⟩
  · rw [← hz]; exact hzout
  · rw [← hz]
  · simp only []; rw [← ha']; exact haout
  · simp only []; rw [← ha']
  · simp only []; rw [← hb']

/-- `eval_proj_multipliers_box`: every component within `±M`, sign as allowed by one-sided rows. -/
theorem projMultipliers_bounds (lbInf ubInf : List Bool) (split : Nat) (M : α) (y : Vec α)
    (hM : 0 ≤ M) (j : Nat) :
    -M ≤ vget (C15.projMultipliers lbInf ubInf split M y) j ∧
    vget (C15.projMultipliers lbInf ubInf split M y) j ≤ M ∧
    (lbInf.getD j false = true → 0 ≤ vget (C15.projMultipliers lbInf ubInf split M y) j) ∧
    (ubInf.getD j false = true → vget (C15.projMultipliers lbInf ubInf split M y) j ≤ 0) := by
  unfold C15.projMultipliers
  rw [vget_map_range]
  split_ifs with h1 h2
  · exact ⟨by linarith, hM, fun _ => le_refl _, fun _ => le_refl _⟩
  · have hb := Alpaqa.Props.C15.projMult1_bounds (lbInf.getD j false) (ubInf.getD j false) M (vget y j) hM
    have hs := Alpaqa.Props.C15.projMult1_sign (lbInf.getD j false) (ubInf.getD j false) M (vget y j) hM
    exact ⟨hb.1, hb.2, hs.1, hs.2⟩
  · exact ⟨by linarith, hM, fun _ => le_refl _, fun _ => le_refl _⟩

/-- The loop path ends with a returning pass. -/
theorem loop_path_last (hmi : P.max_iter ≠ 0) :
    ∃ (init : List (Step α A S)) (s : Step α A S) (stats : ALMStats α A) (Sg x' y' : Vec α),
      (LOOP P.max_iter 0 INIT x y).logicError = false ∧
      (LOOP P.max_iter 0 INIT x y).steps = init ++ [s] ∧ s = STEP s.i s.st x' y' ∧
      s.out = .done stats Sg ∧ (LOOP P.max_iter 0 INIT x y).stats = stats ∧
      (LOOP P.max_iter 0 INIT x y).sigmaOut = (if Sig0.isSome then some Sg else none) ∧
      (LOOP P.max_iter 0 INIT x y).history = init.map (fun s => (s.call, s.res)) ++ [(s.call, s.res)] ∧
      (LOOP P.max_iter 0 INIT x y).x = s.res.x ∧ (LOOP P.max_iter 0 INIT x y).y = s.res.y ∧
      ∀ t ∈ init, ∃ st', t.out = .cont st' := by
  have hne := loop_no_throw P prob accAdd Sig0.isSome (Sig0.getD []) inner P.max_iter 0 INIT x y
    (by omega) hmi
  obtain ⟨init, s, stats, Sg, h1, h2, h3, h4, h5, h6, _, h8⟩ :=
    loop_last P prob accAdd Sig0.isSome (Sig0.getD []) inner P.max_iter 0 INIT x y hne
  have hs : s ∈ (LOOP P.max_iter 0 INIT x y).steps := by rw [h1]; simp
  obtain ⟨x', y', _, hs'⟩ := loop_steps_forall P prob accAdd _ _ inner (fun _ _ _ _ => True)
    (fun _ _ _ _ _ _ _ => trivial) _ 0 INIT x y trivial s hs
  refine ⟨init, s, stats, Sg, x', y', hne, h1, hs', h2, h3, h4, ?_, h5, h6, h8⟩
  rw [loop_history_eq, h1]; simp

end Alpaqa.Props.C07
