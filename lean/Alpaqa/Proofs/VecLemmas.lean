/-
  Lemmas about the list-vector layer (`Alpaqa/Model/Vec.lean`) over a linearly ordered field:
  the left-fold reductions used for bit-exact execution are characterised order-theoretically.
-/
import Alpaqa.Proofs.Basic

namespace Alpaqa
variable {α : Type} [Field α] [LinearOrder α] [IsStrictOrderedRing α]

theorem foldl_emax_ge (l : List α) (a : α) : a ≤ l.foldl emax a := by
  induction l generalizing a with
  | nil => simp
  | cons x xs ih =>
    simp only [List.foldl_cons]
    exact le_trans (by rw [emax_eq_max]; exact le_max_left _ _) (ih _)

theorem foldl_emax_mem_le (l : List α) (a x : α) (hx : x ∈ l) : x ≤ l.foldl emax a := by
  induction l generalizing a with
  | nil => cases hx
  | cons y ys ih =>
    simp only [List.foldl_cons]
    rcases List.mem_cons.mp hx with h | h
    · subst h; exact le_trans (by rw [emax_eq_max]; exact le_max_right _ _) (foldl_emax_ge _ _)
    · exact ih _ h

theorem foldl_emax_le (l : List α) (a c : α) (ha : a ≤ c) (hl : ∀ x ∈ l, x ≤ c) :
    l.foldl emax a ≤ c := by
  induction l generalizing a with
  | nil => simpa
  | cons y ys ih =>
    simp only [List.foldl_cons]
    apply ih
    · rw [emax_eq_max]; exact max_le ha (hl y (List.mem_cons_self ..))
    · intro x hx; exact hl x (List.mem_cons_of_mem _ hx)

/-- every component is bounded by the ∞-norm. -/
theorem abs_le_normInf (v : List α) (x : α) (hx : x ∈ v) : |x| ≤ normInf v := by
  unfold normInf vabs redux
  cases v with
  | nil => cases hx
  | cons y ys =>
    simp only [List.map_cons]
    rcases List.mem_cons.mp hx with h | h
    · subst h; rw [eabs_eq_abs]; exact foldl_emax_ge _ _
    · apply foldl_emax_mem_le
      rw [List.mem_map]; exact ⟨x, h, eabs_eq_abs x⟩

theorem normInf_nonneg (v : List α) : 0 ≤ normInf v := by
  cases v with
  | nil => simp [normInf, vabs, redux]
  | cons y ys => exact le_trans (abs_nonneg y) (abs_le_normInf _ y (List.mem_cons_self ..))

/-- `‖v‖∞ ≤ c` iff every component is within `c` (for `c ≥ 0`; the empty vector has norm 0). -/
theorem normInf_le_iff (v : List α) (c : α) (hc : 0 ≤ c) :
    normInf v ≤ c ↔ ∀ x ∈ v, |x| ≤ c := by
  constructor
  · intro h x hx; exact le_trans (abs_le_normInf v x hx) h
  · intro h
    unfold normInf vabs redux
    cases v with
    | nil => simpa using hc
    | cons y ys =>
      simp only [List.map_cons]
      apply foldl_emax_le
      · rw [eabs_eq_abs]; exact h y (List.mem_cons_self ..)
      · intro x hx
        rw [List.mem_map] at hx
        obtain ⟨z, hz, rfl⟩ := hx
        rw [eabs_eq_abs]; exact h z (List.mem_cons_of_mem _ hz)

theorem normInf_eq_of_abs_eq (v w : List α) (h : v.map (|·|) = w.map (|·|)) :
    normInf v = normInf w := by
  have e : ∀ u : List α, vabs u = u.map (|·|) := by
    intro u; unfold vabs; apply List.map_congr_left; intro a _; exact eabs_eq_abs a
  unfold normInf; rw [e, e, h]

theorem normInf_vneg (v : List α) : normInf (vneg v) = normInf v := by
  apply normInf_eq_of_abs_eq
  unfold vneg; rw [List.map_map]; apply List.map_congr_left; intro a _; simp

end Alpaqa
