/-
  C08, analytic core: Beck–Teboulle's three-point lemma and the one-step Lyapunov inequalities of
  FISTA / proximal gradient, over an arbitrary module `V` with a symmetric positive-semidefinite
  bilinear form `ip` valued in a linearly ordered field (`IsIP`).  No topology, no limits.
  `Proofs/C08Vec.lean` instantiates `V` with the model's list vectors (`Fin n → α`, `ip = dot`).
-/
import Mathlib.Algebra.Module.Basic
import Mathlib.Algebra.Order.Field.Basic
import Mathlib.Tactic.Module
import Mathlib.Tactic.Abel
import Mathlib.Tactic.Linarith
import Mathlib.Tactic.Ring
import Mathlib.Tactic.FieldSimp

namespace Alpaqa.C08
set_option linter.unusedSectionVars false

variable {α V : Type} [Field α] [LinearOrder α] [IsStrictOrderedRing α] [AddCommGroup V] [Module α V]

/-- symmetric, bilinear, positive semidefinite -/
structure IsIP (ip : V → V → α) : Prop where
  add_left : ∀ a b c, ip (a + b) c = ip a c + ip b c
  smul_left : ∀ (r : α) a b, ip (r • a) b = r * ip a b
  comm : ∀ a b, ip a b = ip b a
  nonneg : ∀ a, 0 ≤ ip a a

namespace IsIP
variable {ip : V → V → α} (hip : IsIP ip)
include hip

theorem add_right (a b c : V) : ip a (b + c) = ip a b + ip a c := by
  rw [hip.comm, hip.add_left, hip.comm b, hip.comm c]
theorem smul_right (r : α) (a b : V) : ip a (r • b) = r * ip a b := by
  rw [hip.comm, hip.smul_left, hip.comm]
theorem zero_left (a : V) : ip 0 a = 0 := by
  have := hip.smul_left 0 a a; simpa using this
theorem zero_right (a : V) : ip a 0 = 0 := by rw [hip.comm, hip.zero_left]
theorem neg_left (a b : V) : ip (-a) b = -ip a b := by
  have := hip.smul_left (-1) a b; simpa using this
theorem neg_right (a b : V) : ip a (-b) = -ip a b := by rw [hip.comm, hip.neg_left, hip.comm]
theorem sub_left (a b c : V) : ip (a - b) c = ip a c - ip b c := by
  rw [sub_eq_add_neg, hip.add_left, hip.neg_left]; ring
theorem sub_right (a b c : V) : ip a (b - c) = ip a b - ip a c := by
  rw [hip.comm, hip.sub_left, hip.comm b, hip.comm c]
/-- `‖a + r b‖² = ‖a‖² + 2r⟨a,b⟩ + r²‖b‖²` -/
theorem add_smul_sq (a b : V) (r : α) :
    ip (a + r • b) (a + r • b) = ip a a + 2 * r * ip a b + r ^ 2 * ip b b := by
  rw [hip.add_left, hip.add_right, hip.add_right, hip.smul_left, hip.smul_left, hip.smul_right,
    hip.smul_right, hip.comm b a]; ring
theorem sub_sq (a b : V) : ip (a - b) (a - b) = ip a a - 2 * ip a b + ip b b := by
  rw [hip.sub_left, hip.sub_right, hip.sub_right, hip.comm b a]; ring
end IsIP

variable {ip : V → V → α}

/-- **`fb_three_point`** (Beck–Teboulle, Lemma 2.3; division-free form).  For a forward-backward
    step `x ↦ x̂` with step size `γ > 0`:
    * `hconv`: convexity of ψ between the evaluated point `x` and `z`,
    * `hqub`: the quadratic upper bound *with constant `1/γ`* at the accepted step, up to `m`,
    * `hprox`: the optimality (subgradient) inequality of the prox step towards `z`,
    then `2γ (F z − F x̂) ≥ ‖x̂ − x‖² + 2⟨x − z, x̂ − x⟩ − 2γ m`. -/
theorem fb_three_point (hip : IsIP ip) {ψx ψxh ψz hxh hz γ m : α} {g x xh z : V} (hγ : 0 < γ)
    (hconv : ψx + ip g (z - x) ≤ ψz)
    (hqub : 2 * γ * ψxh ≤ 2 * γ * (ψx + ip g (xh - x) + m) + ip (xh - x) (xh - x))
    (hprox : γ * hxh + ip (x - γ • g - xh) (z - xh) ≤ γ * hz) :
    ip (xh - x) (xh - x) + 2 * ip (x - z) (xh - x) - 2 * γ * m
      ≤ 2 * γ * ((ψz + hz) - (ψxh + hxh)) := by
  have e1 : x - γ • g - xh = -(xh - x) - γ • g := by abel
  have e2 : z - xh = (z - x) - (xh - x) := by abel
  have e3 : x - z = -(z - x) := by abel
  have aux : ∀ d e : V, ip (-d - γ • g) (e - d) = -ip d e + ip d d - γ * ip g e + γ * ip g d := by
    intro d e
    rw [hip.sub_left, hip.sub_right, hip.sub_right, hip.neg_left, hip.neg_left, hip.smul_left,
      hip.smul_left]
    ring
  rw [e1, e2, aux] at hprox
  rw [e3, hip.neg_left, hip.comm (z - x) (xh - x)]
  generalize ip (xh - x) (xh - x) = A at *
  generalize ip (xh - x) (z - x) = B at *
  generalize ip g (z - x) = C at *
  generalize ip g (xh - x) = D at *
  nlinarith [mul_le_mul_of_nonneg_left hconv hγ.le]

/-- **One-step Lyapunov inequality of FISTA.**  From the three-point inequality of the new step
    `x ↦ x̂` (step size `γ`) towards the previous proximal point `p` and towards `x⋆`, for a
    momentum parameter `t ≥ 1`:
    `2γ t² v₊ + ‖t x̂ − (t−1) p − x⋆‖² ≤ 2γ (t²−t) v + ‖t x − (t−1) p − x⋆‖² + 2γ t² m`,
    `v = F p − F⋆`, `v₊ = F x̂ − F⋆` (the inequality towards `p` is only needed when `t > 1`). -/
theorem lyapunov_step (hip : IsIP ip) {γ m t Fp Fxh Fs : α} {x xh p xs : V} (ht : 1 ≤ t)
    (h3p : 1 < t →
      ip (xh - x) (xh - x) + 2 * ip (x - p) (xh - x) - 2 * γ * m ≤ 2 * γ * (Fp - Fxh))
    (h3s : ip (xh - x) (xh - x) + 2 * ip (x - xs) (xh - x) - 2 * γ * m ≤ 2 * γ * (Fs - Fxh)) :
    2 * γ * t ^ 2 * (Fxh - Fs) + ip (t • xh - (t - 1) • p - xs) (t • xh - (t - 1) • p - xs)
      ≤ 2 * γ * (t ^ 2 - t) * (Fp - Fs) + ip (t • x - (t - 1) • p - xs) (t • x - (t - 1) • p - xs)
        + 2 * γ * t ^ 2 * m := by
  have eu : t • xh - (t - 1) • p - xs = (t • x - (t - 1) • p - xs) + t • (xh - x) := by module
  have ew : t • x - (t - 1) • p - xs = (t - 1) • (x - p) + (x - xs) := by module
  rw [eu, hip.add_smul_sq]
  have hw : ip (t • x - (t - 1) • p - xs) (xh - x) = (t - 1) * ip (x - p) (xh - x) + ip (x - xs) (xh - x) := by
    rw [ew, hip.add_left, hip.smul_left]
  rw [hw]
  generalize ip (t • x - (t - 1) • p - xs) (t • x - (t - 1) • p - xs) = W
  generalize ip (xh - x) (xh - x) = A at *
  generalize ip (x - p) (xh - x) = Pq at *
  generalize ip (x - xs) (xh - x) = Q at *
  have ht0 : 0 ≤ t := by linarith
  rcases eq_or_lt_of_le ht with h1 | h1
  · subst h1
    linarith
  · have ht1 : 0 ≤ t * (t - 1) := mul_nonneg (by linarith) (by linarith)
    nlinarith [mul_le_mul_of_nonneg_left (h3p h1) ht1, mul_le_mul_of_nonneg_left h3s ht0]

/-- The extrapolation identity: with `x₊ = x̂ + ((t−1)/t₊)(x̂ − p)` (the code's statement),
    `t₊ x₊ − (t₊−1) x̂ − x⋆ = t x̂ − (t−1) p − x⋆`. -/
theorem extrapolation_identity {t tn : α} (htn : tn ≠ 0) (xh p xs : V) :
    tn • (xh + ((t - 1) / tn) • (xh - p)) - (tn - 1) • xh - xs = t • xh - (t - 1) • p - xs := by
  have : tn • (((t - 1) / tn) • (xh - p)) = (t - 1) • (xh - p) := by
    rw [smul_smul, mul_div_cancel₀ _ htn]
  rw [smul_add, this]
  module

/-- Base step (`t₀ = 1`): `2γ v₀ + ‖x̂₀ − x⋆‖² ≤ ‖x₀ − x⋆‖² + 2γ m`. -/
theorem lyapunov_base (hip : IsIP ip) {γ m Fxh Fs : α} {x xh xs : V}
    (h3s : ip (xh - x) (xh - x) + 2 * ip (x - xs) (xh - x) - 2 * γ * m ≤ 2 * γ * (Fs - Fxh)) :
    2 * γ * (Fxh - Fs) + ip (xh - xs) (xh - xs) ≤ ip (x - xs) (x - xs) + 2 * γ * m := by
  have e : xh - xs = (x - xs) + (1 : α) • (xh - x) := by module
  rw [e, hip.add_smul_sq]
  linarith

/-- Monotonicity of the proximal-gradient step: three-point towards `z = x` itself. -/
theorem pg_descent (hip : IsIP ip) {γ m Fx Fxh : α} {x xh : V} (hγ : 0 < γ)
    (h3 : ip (xh - x) (xh - x) + 2 * ip (x - x) (xh - x) - 2 * γ * m ≤ 2 * γ * (Fx - Fxh)) :
    Fxh ≤ Fx + m := by
  rw [sub_self, hip.zero_left] at h3
  have := hip.nonneg (xh - x)
  by_contra hc
  rw [not_le] at hc
  nlinarith

/-- from `E_k ≤ D + M` and `t_k ≥ (k+2)/2` to the rate bound of the reported iterate -/
theorem rate_of_post {γ t v D M : α} {k : ℕ} (hγ : 0 < γ) (htk : ((k : α) + 2) / 2 ≤ t) (hv : 0 ≤ v)
    {W : α} (hW : 0 ≤ W) (hE : 2 * γ * t ^ 2 * v + W ≤ D + M) :
    v ≤ 2 * (D + M) / (γ * ((k : α) + 2) ^ 2) := by
  have hk : (0 : α) < (k : α) + 2 := by positivity
  rw [le_div_iff₀ (by positivity)]
  have h1 : ((k : α) + 2) ^ 2 ≤ 4 * t ^ 2 := by nlinarith
  have h2 : v * (γ * ((k : α) + 2) ^ 2) ≤ v * (γ * (4 * t ^ 2)) :=
    mul_le_mul_of_nonneg_left (mul_le_mul_of_nonneg_left h1 hγ.le) hv
  nlinarith

/-- **Prox optimality: minimiser form ⇒ subgradient form** (no limits needed).  If `x̂` minimises
    `u ↦ h(u) + ‖u − v‖²/(2γ)` along the segment towards `z` and `h` is convex on that segment, then
    `γ h(x̂) + ⟨v − x̂, z − x̂⟩ ≤ γ h(z)`. -/
theorem prox_sub_of_min (hip : IsIP ip) {hf : V → α} {v xh z : V} {γ : α} (hγ : 0 < γ)
    (hmin : ∀ s : α, 0 < s → s ≤ 1 →
      2 * γ * hf xh + ip (xh - v) (xh - v)
        ≤ 2 * γ * hf (xh + s • (z - xh)) + ip (xh + s • (z - xh) - v) (xh + s • (z - xh) - v))
    (hcv : ∀ s : α, 0 < s → s ≤ 1 → hf (xh + s • (z - xh)) ≤ (1 - s) * hf xh + s * hf z) :
    γ * hf xh + ip (v - xh) (z - xh) ≤ γ * hf z := by
  by_contra hc
  rw [not_le] at hc
  have hN := hip.nonneg (z - xh)
  set N := ip (z - xh) (z - xh) with hNdef
  set Δ := γ * hf xh + ip (v - xh) (z - xh) - γ * hf z with hΔ
  have hΔpos : 0 < Δ := by rw [hΔ]; linarith
  have hN1 : 0 < N + 1 := by linarith
  obtain ⟨s, hs0, hs1, hsΔ⟩ : ∃ s : α, 0 < s ∧ s ≤ 1 ∧ s * (N + 1) ≤ Δ := by
    refine ⟨min 1 (Δ / (N + 1)), lt_min one_pos (div_pos hΔpos hN1), min_le_left _ _, ?_⟩
    have := min_le_right (1 : α) (Δ / (N + 1))
    calc min 1 (Δ / (N + 1)) * (N + 1) ≤ Δ / (N + 1) * (N + 1) :=
          mul_le_mul_of_nonneg_right this hN1.le
      _ = Δ := div_mul_cancel₀ _ hN1.ne'
  have h1 := hmin s hs0 hs1
  have h2 := hcv s hs0 hs1
  have e : xh + s • (z - xh) - v = (xh - v) + s • (z - xh) := by abel
  rw [e, hip.add_smul_sq] at h1
  have e2 : ip (v - xh) (z - xh) = -ip (xh - v) (z - xh) := by
    rw [← hip.neg_left]; congr 1; abel
  rw [e2] at hΔ
  rw [← hNdef] at h1
  generalize ip (xh - v) (xh - v) = W at h1
  generalize ip (xh - v) (z - xh) = B at h1 hΔ
  generalize hf (xh + s • (z - xh)) = hu at h1 h2
  -- s·(2Δ) ≤ s·(s N)
  have h3 : s * (2 * Δ) ≤ s * (s * N) := by
    have := mul_le_mul_of_nonneg_left h2 (mul_pos (by norm_num : (0:α) < 2) hγ).le
    rw [hΔ]; nlinarith
  have h4 : 2 * Δ ≤ s * N := le_of_mul_le_mul_left h3 hs0
  nlinarith

end Alpaqa.C08
