/-
  Structural facts about the ZeroFPR loop model (`Alpaqa/Model/Zerofpr.lean`) that hold over *any*
  carrier (IEEE doubles included), for arbitrary problem oracles, direction providers and stop
  schedules:

  * `Good`: the current iterate always carries a consistent forward-backward step —
    `(h(x̂), x̂, p)` is the prox oracle's answer at `(γ, x, ∇ψ)` and `ŷx̂` is the ψ oracle's answer
    at `x̂` — through every branch of the line search and the interrupted-line-search `continue`;
  * `Accepted`: what leaves the line search through `break` satisfies the generated acceptance
    tests;
  * `mainLoop_cases`: a solve ends in the exit block of a loop head whose status is not `Busy`
    (or the model's fuel ran out), and every invariant of `headStep ; iterBody` holds there;
  * the interrupted-line-search `continue` leaves `curr`, `k`, the no-progress counter and the
    callback list untouched; a visible stop flag makes the line search a no-op.
-/
import Mathlib.Tactic.SplitIfs
import Mathlib.Tactic.Basic
import Alpaqa.Model.Zerofpr

namespace Alpaqa.Zerofpr
open Alpaqa Alpaqa.Gen
set_option linter.unusedSectionVars false

variable {α D : Type} [Add α] [Sub α] [Mul α] [Div α] [Neg α] [LT α] [LE α] [DecidableLT α]
  [DecidableLE α] [BEq α] [RealLike α] [NatCast α] [OfScientific α]
  [OfNat α 0] [OfNat α 1] [OfNat α 2] [OfNat α 100]

/-! ### The status chain (local copies of the two facts the loop theorems rest on) -/

theorem chain_busy_only_if (tol : α) (maxIter maxNP k : Nat) (ε : α) (np : Nat) (oot intr : Bool)
    (h : statusChain tol maxIter maxNP k ε np oot intr = .Busy) : k ≠ maxIter ∧ intr = false := by
  unfold statusChain at h; simp only [] at h; split_ifs at h <;> simp_all

/-- With the stop flag visible the chain returns what it would return without it, except that
    `Busy` becomes `Interrupted`. -/
theorem chain_stop (tol : α) (maxIter maxNP k : Nat) (ε : α) (np : Nat) (oot : Bool) :
    statusChain tol maxIter maxNP k ε np oot true =
      if statusChain tol maxIter maxNP k ε np oot false = .Busy then .Interrupted
      else statusChain tol maxIter maxNP k ε np oot false := by
  unfold statusChain; simp only []; split_ifs <;> simp_all

theorem chain_stop_not_busy (tol : α) (maxIter maxNP k : Nat) (ε : α) (np : Nat) (oot : Bool) :
    statusChain tol maxIter maxNP k ε np oot true ≠ .Busy := by
  rw [chain_stop]; split_ifs with h <;> simp [h]

theorem chain_converged_iff (tol : α) (maxIter maxNP k : Nat) (ε : α) (np : Nat) (oot intr : Bool) :
    statusChain tol maxIter maxNP k ε np oot intr = .Converged ↔
      ε ≤ (if tol > 0 then tol else (1e-8 : α)) := by
  unfold statusChain
  simp only [decide_eq_true_eq]
  by_cases h1 : tol > 0 <;> simp only [h1, if_true, if_false] <;>
  · constructor
    · intro hh; split_ifs at hh; assumption
    · intro hh; simp [hh]

theorem chain_only_if (tol : α) (maxIter maxNP k : Nat) (ε : α) (np : Nat) (oot intr : Bool) :
    (statusChain tol maxIter maxNP k ε np oot intr = .MaxTime → oot = true) ∧
    (statusChain tol maxIter maxNP k ε np oot intr = .MaxIter → k = maxIter) ∧
    (statusChain tol maxIter maxNP k ε np oot intr = .NotFinite → RealLike.isFinite ε = false) ∧
    (statusChain tol maxIter maxNP k ε np oot intr = .NoProgress → np > maxNP) ∧
    (statusChain tol maxIter maxNP k ε np oot intr = .Interrupted → intr = true) ∧
    statusChain tol maxIter maxNP k ε np oot intr ≠ .Exception := by
  unfold statusChain; simp only []
  refine ⟨?_, ?_, ?_, ?_, ?_, ?_⟩ <;> split_ifs <;> simp_all

/-! ### Consistency of an iterate -/

/-- `(h(x̂), x̂, p)` is the prox oracle's answer at the iterate's own `(γ, x, ∇ψ)`. -/
def ProxCons (P : Problem α) (i : Iterate α) : Prop :=
  i.hxhat = (P.prox i.gamma i.x i.gradPsi).1 ∧ i.xhat = (P.prox i.gamma i.x i.gradPsi).2.1 ∧
  i.p = (P.prox i.gamma i.x i.gradPsi).2.2

/-- `ŷx̂` is the ψ oracle's answer at `x̂`. -/
def YhatCons (P : Problem α) (i : Iterate α) : Prop := i.yhat = (P.psi i.xhat).2

def Good (P : Problem α) (i : Iterate α) : Prop := ProxCons P i ∧ YhatCons P i

theorem good_evalStep (P : Problem α) (i : Iterate α) :
    Good P (evalCostInProx P (evalProxGradStep P i)) := by
  unfold Good ProxCons YhatCons evalCostInProx evalProxGradStep
  simp

/-! ### The line search -/

theorem lsRecompute_same (P : Problem α) (c : Iterate α) (px : ProxIterate α) (q : Vec α)
    (s : LS α D) :
    (lsRecompute P c px q s).fuelOut = s.fuelOut ∧
    (lsRecompute P c px q s).next.gamma = s.next.gamma ∧
    (lsRecompute P c px q s).next.L = s.next.L ∧
    (lsRecompute P c px q s).tau = s.tau := by
  unfold lsRecompute takeAcceleratedStep takeSafeStep evalPsiGradPsi
  split_ifs <;> exact ⟨rfl, rfl, rfl, rfl⟩

theorem lsUpdateInCandidate_same (dir : Direction D α) (pr : Params α) (c : Iterate α)
    (px : ProxIterate α) (s : LS α D) :
    (lsUpdateInCandidate dir pr c px s).next = s.next ∧
    (lsUpdateInCandidate dir pr c px s).fuelOut = s.fuelOut ∧
    (lsUpdateInCandidate dir pr c px s).tau = s.tau := by
  unfold lsUpdateInCandidate
  split_ifs <;> exact ⟨rfl, rfl, rfl⟩

/-- What the `break` of the line-search loop guarantees about the candidate: the generated
    quadratic-upper-bound test passed (or `L` reached `L_max`), and — if an accelerated step is
    being accepted (`τ > 0`) — the generated line-search test passed. -/
def Accepted (pr : Params α) (c : Iterate α) (s : LS α D) : Prop :=
  (decide (s.next.L < pr.Lmax) && qubViolated pr s.next) = false ∧
  ((decide (s.tau > (0 : α)) && linesearchViolated pr c s.next) = false)

/-- One pass of the line-search body: on `break` the candidate is good and accepted. -/
theorem lsPass_done (P : Problem α) (dir : Direction D α) (pr : Params α) (c : Iterate α)
    (px : ProxIterate α) (q : Vec α) (tauInit : α) (s s' : LS α D)
    (h : lsPass P dir pr c px q tauInit s = .done s') :
    Good P s'.next ∧ Accepted pr c s' ∧ s'.fuelOut = s.fuelOut := by
  have h1 := lsRecompute_same P c px q s
  unfold lsPass at h
  simp only [] at h
  split_ifs at h with ha hb hc
  all_goals first | exact Pass.noConfusion h | skip
  injection h with h; subst h
  have hu := lsUpdateInCandidate_same dir pr c px
    { lsRecompute P c px q s with
      next := evalCostInProx P (evalProxGradStep P (lsRecompute P c px q s).next),
      tick := (lsRecompute P c px q s).tick + 2 }
  refine ⟨?_, ⟨?_, ?_⟩, ?_⟩
  · rw [hu.1]; exact good_evalStep P _
  · rw [hu.1]; exact Bool.eq_false_iff.mpr hb
  · exact Bool.eq_false_iff.mpr hc
  · exact hu.2.1.trans h1.1

theorem lsPass_again (P : Problem α) (dir : Direction D α) (pr : Params α) (c : Iterate α)
    (px : ProxIterate α) (q : Vec α) (tauInit : α) (s s' : LS α D)
    (h : lsPass P dir pr c px q tauInit s = .again s') : s'.fuelOut = s.fuelOut := by
  have h1 := lsRecompute_same P c px q s
  have hu := lsUpdateInCandidate_same dir pr c px
    { lsRecompute P c px q s with
      next := evalCostInProx P (evalProxGradStep P (lsRecompute P c px q s).next),
      tick := (lsRecompute P c px q s).tick + 2 }
  unfold lsPass at h
  simp only [] at h
  split_ifs at h
  all_goals first
    | exact Pass.noConfusion h
    | (injection h with h; subst h; exact h1.1)
    | (injection h with h; subst h; exact hu.2.1.trans h1.1)

/-- Any property that every `break` establishes holds for the result of the whole line search
    whenever the loop was left through `break`: no fuel-out and — since a stop request leaves the
    state untouched — the stop flag still clear at the end. -/
theorem lineSearch_done (P : Problem α) (dir : Direction D α) (pr : Params α) (stop : Nat → Bool)
    (c : Iterate α) (px : ProxIterate α) (q : Vec α) (tauInit : α) (Q : LS α D → Prop)
    (hQ : ∀ s s', lsPass P dir pr c px q tauInit s = .done s' → Q s')
    (fuel : Nat) (s : LS α D) (hf : s.fuelOut = false)
    (hr : (lineSearch P dir pr stop c px q tauInit fuel s).fuelOut = false)
    (hs : stop (lineSearch P dir pr stop c px q tauInit fuel s).tick = false) :
    Q (lineSearch P dir pr stop c px q tauInit fuel s) := by
  induction fuel generalizing s with
  | zero => simp [lineSearch] at hr
  | succ f ih =>
    unfold lineSearch at hr hs ⊢
    by_cases hst : stop s.tick
    · simp [hst] at hs
    · simp only [hst, Bool.false_eq_true, if_false] at hr hs ⊢
      cases hpass : lsPass P dir pr c px q tauInit s with
      | done s' => simp only [hpass]; exact hQ s s' hpass
      | again s' =>
        have hp := lsPass_again P dir pr c px q tauInit s s' hpass
        simp only [hpass] at hr hs ⊢
        exact ih s' (by rw [hp, hf]) hr hs

theorem lineSearch_good (P : Problem α) (dir : Direction D α) (pr : Params α) (stop : Nat → Bool)
    (c : Iterate α) (px : ProxIterate α) (q : Vec α) (tauInit : α)
    (fuel : Nat) (s : LS α D) (hf : s.fuelOut = false)
    (hr : (lineSearch P dir pr stop c px q tauInit fuel s).fuelOut = false)
    (hs : stop (lineSearch P dir pr stop c px q tauInit fuel s).tick = false) :
    Good P (lineSearch P dir pr stop c px q tauInit fuel s).next ∧
    Accepted pr c (lineSearch P dir pr stop c px q tauInit fuel s) := by
  refine lineSearch_done P dir pr stop c px q tauInit
    (fun s' => Good P s'.next ∧ Accepted pr c s') ?_ fuel s hf hr hs
  intro s s' h
  have hp := lsPass_done P dir pr c px q tauInit s s' h
  exact ⟨hp.1, hp.2.1⟩

/-- **No evaluation once the flag is visible**: with the stop flag set at its loop condition the
    line search returns its state unchanged — no problem evaluation, no direction call (the tick
    does not advance), no statistics update. -/
theorem lineSearch_stop_noop (P : Problem α) (dir : Direction D α) (pr : Params α)
    (stop : Nat → Bool) (c : Iterate α) (px : ProxIterate α) (q : Vec α) (tauInit : α)
    (fuel : Nat) (s : LS α D) (h : stop s.tick = true) :
    lineSearch P dir pr stop c px q tauInit (fuel + 1) s = s := by
  unfold lineSearch; simp [h]

/-- However the line search ends, with the stop flag visible at the end it made its last
    evaluation *before* the flag became visible: the pass that was running when the flag was
    raised is the last one. Formally: the result state is a fixed point of the loop. -/
theorem lineSearch_stopped_fixed (P : Problem α) (dir : Direction D α) (pr : Params α)
    (stop : Nat → Bool) (c : Iterate α) (px : ProxIterate α) (q : Vec α) (tauInit : α)
    (fuel fuel' : Nat) (s : LS α D)
    (h : stop (lineSearch P dir pr stop c px q tauInit fuel s).tick = true) :
    lineSearch P dir pr stop c px q tauInit (fuel' + 1)
      (lineSearch P dir pr stop c px q tauInit fuel s) =
      lineSearch P dir pr stop c px q tauInit fuel s :=
  lineSearch_stop_noop P dir pr stop c px q tauInit fuel' _ h

/-! ### Initialisation -/

theorem initQub_good (P : Problem α) (pr : Params α) (stop : Nat → Bool) (f : Nat) (c : Iterate α)
    (t b : Nat) (h : Good P c) : Good P (initQub P pr stop f c t b).1 := by
  induction f generalizing c t b with
  | zero => simpa [initQub] using h
  | succ f ih =>
    unfold initQub
    split_ifs
    · exact h
    · exact ih _ _ _ (good_evalStep P _)
    · exact h

/-- **Once the flag is visible the initial step-size loop makes no further call.** -/
theorem initQub_stop_noop (P : Problem α) (pr : Params α) (stop : Nat → Bool) (f : Nat)
    (c : Iterate α) (t b : Nat) (h : stop t = true) :
    initQub P pr stop (f + 1) c t b = (c, t, b, false) := by
  unfold initQub; simp [h]

/-- With a flag that is never lowered and visible from tick `t₀` on, the initial step-size loop
    entered at tick `t` is left at tick `≤ max t (t₀ + 1)` (a backtrack, 2 calls, is only started
    while the flag is invisible). -/
theorem initQub_tick_bound (P : Problem α) (pr : Params α) (stop : Nat → Bool)
    (hm : ∀ t t', t ≤ t' → stop t = true → stop t' = true) (t0 : Nat) (h0 : stop t0 = true)
    (f : Nat) (c : Iterate α) (t b : Nat) :
    (initQub P pr stop f c t b).2.1 ≤ max t (t0 + 1) := by
  induction f generalizing c t b with
  | zero => simp only [initQub]; omega
  | succ f ih =>
    unfold initQub
    by_cases hst : stop t
    · simp only [hst, if_true]; omega
    · simp only [hst, Bool.false_eq_true, if_false]
      have hlt : t < t0 := by
        apply Nat.lt_of_not_le
        intro hc
        exact hst (hm t0 t hc h0)
      split_ifs
      · have := ih (evalCostInProx P (evalProxGradStep P { c with gamma := c.gamma / 2, L := c.L * 2 }))
          (t + 2) (b + 1)
        omega
      · simp only []; omega

theorem initState_good (P : Problem α) (d0 : D) (pr : Params α) (stop : Nat → Bool) (x0 gV : Vec α)
    (gS : α) (s : St α D) (h : initState P d0 pr stop x0 gV gS = .inr s) :
    Good P s.curr ∧ s.k = 0 ∧ s.cbs = [] ∧ s.noProgress = 0 := by
  unfold initState at h
  simp only [] at h
  split_ifs at h
  injection h with h; subst h
  exact ⟨initQub_good P pr stop _ _ _ _ (good_evalStep P _), rfl, rfl, rfl⟩

/-! ### Main loop -/

/-- The loop head only writes `*prox` and advances the tick. -/
theorem headStep_same (P : Problem α) (pr : Params α) (stop : Nat → Bool) (oot : Bool) (s : St α D) :
    (headStep P pr stop oot s).1.curr = s.curr ∧ (headStep P pr stop oot s).1.k = s.k ∧
    (headStep P pr stop oot s).1.noProgress = s.noProgress ∧
    (headStep P pr stop oot s).1.cbs = s.cbs ∧
    (headStep P pr stop oot s).1.fuelOut = s.fuelOut ∧
    (headStep P pr stop oot s).1.tick = s.tick + 2 + epsTicks pr.stopCrit := by
  unfold headStep; exact ⟨rfl, rfl, rfl, rfl, rfl, rfl⟩

/-- What the head computes: `∇ψ(x̂ₖ)` from the ψ-gradient oracle at `(x̂ₖ, ŷ(x̂ₖ))`, the generated
    criterion of the current iterate's data, the generated chain. -/
theorem headStep_spec (P : Problem α) (pr : Params α) (stop : Nat → Bool) (oot : Bool) (s : St α D) :
    (headStep P pr stop oot s).1.prox.gradPsi = P.gradL s.curr.xhat s.curr.yhat ∧
    (headStep P pr stop oot s).2.1 = epsOf P pr s.curr (P.gradL s.curr.xhat s.curr.yhat) ∧
    (headStep P pr stop oot s).2.2 =
      statusChain pr.tolerance pr.maxIter pr.maxNoProgress s.k (headStep P pr stop oot s).2.1
        s.noProgress oot (stop (s.tick + 2 + epsTicks pr.stopCrit)) := by
  unfold headStep statusOf evalProxGradStepInProx evalGradInProx; exact ⟨rfl, rfl, rfl⟩

/-- The `continue` taken when the solver was interrupted during the line search discards the
    candidate: the current iterate, `*prox`, the iteration counter, the no-progress counter and
    the list of callbacks are exactly what they were at the loop head. -/
theorem iterBody_interrupted (P : Problem α) (dir : Direction D α) (pr : Params α)
    (stop : Nat → Bool) (s : St α D) (eps : α) (h : stop (lsOf P dir pr stop s).tick = true) :
    (iterBody P dir pr stop s eps).curr = s.curr ∧ (iterBody P dir pr stop s eps).prox = s.prox ∧
    (iterBody P dir pr stop s eps).k = s.k ∧
    (iterBody P dir pr stop s eps).noProgress = s.noProgress ∧
    (iterBody P dir pr stop s eps).cbs = s.cbs ∧
    (iterBody P dir pr stop s eps).tick = (lsOf P dir pr stop s).tick := by
  unfold iterBody
  simp only [h, if_true]
  refine ⟨?_, ?_, ?_, ?_, ?_, ?_⟩ <;> first | rfl | trivial

/-- A completed iteration: the accepted candidate becomes current, `k` advances, exactly one
    callback is made, carrying the accepted `τ`. -/
theorem iterBody_completed (P : Problem α) (dir : Direction D α) (pr : Params α)
    (stop : Nat → Bool) (s : St α D) (eps : α) (h : stop (lsOf P dir pr stop s).tick = false) :
    (iterBody P dir pr stop s eps).curr = (lsOf P dir pr stop s).next ∧
    (iterBody P dir pr stop s eps).k = s.k + 1 ∧
    (iterBody P dir pr stop s eps).noProgress =
      noProgressUpdate s.noProgress s.k pr.maxNoProgress (s.curr.x == (lsOf P dir pr stop s).next.x) ∧
    ∃ cb : Callback α, (iterBody P dir pr stop s eps).cbs = cb :: s.cbs ∧
      cb.tau = (lsOf P dir pr stop s).tau ∧ cb.k = s.k ∧ cb.eps = eps ∧ cb.status = .Busy ∧
      cb.it = (updateStage P dir pr s.curr s.prox (lsOf P dir pr stop s)).1 := by
  unfold iterBody
  simp only [h, Bool.false_eq_true, if_false]
  refine ⟨?_, ?_, ?_, ⟨_, rfl, ?_, ?_, ?_, ?_, ?_⟩⟩ <;> first | rfl | trivial

theorem iterBody_fuelOut (P : Problem α) (dir : Direction D α) (pr : Params α)
    (stop : Nat → Bool) (s : St α D) (eps : α) :
    (iterBody P dir pr stop s eps).fuelOut = (s.fuelOut || (lsOf P dir pr stop s).fuelOut) := by
  unfold iterBody
  simp only []
  split_ifs <;> rfl

theorem lsInit_fuelOut (pr : Params α) (s : St α D) (d : D) (t : Nat) (ti : α) :
    (lsInit pr s d t ti).fuelOut = false := rfl

/-- What one pass of the loop body leaves as the *current* iterate is good, for every direction
    provider and every stop schedule — unless the model's line-search fuel ran out. -/
theorem iterBody_good (P : Problem α) (dir : Direction D α) (pr : Params α) (stop : Nat → Bool)
    (s : St α D) (eps : α) (h : Good P s.curr)
    (hf' : (iterBody P dir pr stop s eps).fuelOut = false) :
    Good P (iterBody P dir pr stop s eps).curr := by
  rw [iterBody_fuelOut] at hf'
  have hlsf : (lsOf P dir pr stop s).fuelOut = false := by
    cases hx : (lsOf P dir pr stop s).fuelOut
    · rfl
    · rw [hx] at hf'; simp at hf'
  by_cases hst : stop (lsOf P dir pr stop s).tick = true
  · rw [(iterBody_interrupted P dir pr stop s eps hst).1]; exact h
  · have hst' : stop (lsOf P dir pr stop s).tick = false := by simpa using hst
    rw [(iterBody_completed P dir pr stop s eps hst').1]
    unfold lsOf at hlsf hst' ⊢
    exact (lineSearch_good P dir pr stop _ _ _ _ _ _ (lsInit_fuelOut _ _ _ _ _) hlsf hst').1

/-- Exit contract of a solve (what the caller's `x`, `y`, `err_z` hold afterwards). -/
def ExitOK (P : Problem α) (x0 y Sig errz0 : Vec α) (r : Result α D) : Prop :=
  (r.wrote = true →
      (∃ γ x g, r.x = (P.prox γ x g).2.1) ∧ r.y = (P.psi r.x).2 ∧
      r.errz = (if errz0.length > 0 then vdiv (vsub r.y y) Sig else errz0)) ∧
  (r.wrote = false → r.x = x0 ∧ r.y = y ∧ r.errz = errz0)

theorem exitBlock_spec (pr : Params α) (s : St α D) (eps : α) (status : SolverStatus)
    (x0 y Sig errz0 : Vec α) :
    (exitBlock pr s eps status x0 y Sig errz0).wrote =
      (status == .Converged || status == .Interrupted || pr.alwaysOverwrite) ∧
    (exitBlock pr s eps status x0 y Sig errz0).stats.status = status ∧
    (exitBlock pr s eps status x0 y Sig errz0).stats.iterations = s.k ∧
    (exitBlock pr s eps status x0 y Sig errz0).stats.eps = eps ∧
    (exitBlock pr s eps status x0 y Sig errz0).final = some s.curr ∧
    (exitBlock pr s eps status x0 y Sig errz0).fuelOut = s.fuelOut ∧
    (exitBlock pr s eps status x0 y Sig errz0).ticks = s.tick + 1 ∧
    (exitBlock pr s eps status x0 y Sig errz0).callbacks.reverse.tail = s.cbs := by
  unfold exitBlock
  simp

theorem exitBlock_ok (P : Problem α) (pr : Params α) (s : St α D) (eps : α) (status : SolverStatus)
    (x0 y Sig errz0 : Vec α) (h : Good P s.curr) :
    ExitOK P x0 y Sig errz0 (exitBlock pr s eps status x0 y Sig errz0) := by
  unfold exitBlock ExitOK
  simp only []
  refine ⟨?_, ?_⟩
  · intro hw
    simp only [hw, if_true]
    exact ⟨⟨_, _, _, h.1.2.1⟩, h.2, by first | rfl | trivial⟩
  · intro hw
    simp only [hw, Bool.false_eq_true, if_false]
    refine ⟨?_, ?_, ?_⟩ <;> first | rfl | trivial

/-- **How a solve ends.**  For every invariant `I` of "loop head, `Busy`, loop body": the main
    loop returns the exit block of a loop head whose status is not `Busy`, in a state satisfying
    `I` — or the model's fuel ran out (flagged). -/
theorem mainLoop_cases (P : Problem α) (dir : Direction D α) (pr : Params α) (stop : Nat → Bool)
    (oot : Bool) (x0 y Sig errz0 : Vec α) (I : St α D → Prop)
    (hstep : ∀ s, I s → (headStep P pr stop oot s).2.2 = .Busy →
      I (iterBody P dir pr stop (headStep P pr stop oot s).1 (headStep P pr stop oot s).2.1))
    (fuel : Nat) (s : St α D) (h : I s) :
    (∃ s', I s' ∧ (headStep P pr stop oot s').2.2 ≠ .Busy ∧
      mainLoop P dir pr stop oot x0 y Sig errz0 fuel s =
        exitBlock pr (headStep P pr stop oot s').1 (headStep P pr stop oot s').2.1
          (headStep P pr stop oot s').2.2 x0 y Sig errz0) ∨
    (∃ s', I s' ∧ mainLoop P dir pr stop oot x0 y Sig errz0 fuel s =
        { exitBlock pr s' s'.stats.eps .Exception x0 y Sig errz0 with fuelOut := true }) := by
  induction fuel generalizing s with
  | zero => exact .inr ⟨s, h, by simp [mainLoop]⟩
  | succ f ih =>
    unfold mainLoop
    simp only []
    by_cases hb : (headStep P pr stop oot s).2.2 = .Busy
    · simp only [hb, bne_self_eq_false, Bool.false_eq_true, if_false]
      exact ih _ (hstep s h hb)
    · have : ((headStep P pr stop oot s).2.2 != SolverStatus.Busy) = true := by simpa using hb
      simp only [this, if_true]
      exact .inl ⟨s, h, hb, rfl⟩

end Alpaqa.Zerofpr
