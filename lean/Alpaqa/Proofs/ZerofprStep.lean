/-
  Step-size bookkeeping of the ZeroFPR loop model over a linearly ordered field: every update of
  the pair `(γ, L)` is `γ /= 2; L *= 2` (or a reset to the current iterate's pair), so `γ` never
  increases, stays positive, and `γ·L` is constant — through `lsPass`, the whole line search, the
  loop body, the initial quadratic-upper-bound loop and a whole solve.
  Also: the quadratic-upper-bound test holds (or `L ≥ L_max`) for every iterate that becomes
  current — structural, any carrier.
-/
import Mathlib.Algebra.Order.Field.Basic
import Mathlib.Tactic.Ring
import Mathlib.Tactic.Linarith
import Mathlib.Tactic.FieldSimp
import Alpaqa.Proofs.Basic
import Alpaqa.Proofs.ZerofprInv

namespace Alpaqa.Zerofpr
open Alpaqa Alpaqa.Gen
set_option linter.unusedSectionVars false

/-! ### Structural part (any carrier) -/
section structural
variable {α D : Type} [Add α] [Sub α] [Mul α] [Div α] [Neg α] [LT α] [LE α] [DecidableLT α]
  [DecidableLE α] [BEq α] [RealLike α] [NatCast α] [OfScientific α]
  [OfNat α 0] [OfNat α 1] [OfNat α 2] [OfNat α 100]

/-- The state carried by either outcome of a pass. -/
def Pass.st : Pass α D → LS α D
  | .done s => s
  | .again s => s

/-- The quadratic upper bound holds for the iterate, or its `L` reached `L_max`
    (the condition under which both QUB loops stop). -/
def QubOK (pr : Params α) (i : Iterate α) : Prop :=
  (decide (i.L < pr.Lmax) && qubViolated pr i) = false

theorem evalStep_gammaL (P : Problem α) (i : Iterate α) :
    (evalCostInProx P (evalProxGradStep P i)).gamma = i.gamma ∧
    (evalCostInProx P (evalProxGradStep P i)).L = i.L := ⟨rfl, rfl⟩

/-- The iterate handed to the progress callback of a completed iteration is the current one,
    possibly with `(γ, L)` replaced by the candidate's
    (`recompute_last_prox_step_after_stepsize_change`). -/
theorem updateStage_curr (P : Problem α) (dir : Direction D α) (pr : Params α) (c : Iterate α)
    (px : ProxIterate α) (ls : LS α D) :
    (updateStage P dir pr c px ls).1 = c ∨
    (updateStage P dir pr c px ls).1 = { c with gamma := ls.next.gamma, L := ls.next.L } := by
  unfold updateStage
  split_ifs <;> first | exact .inl rfl | exact .inr rfl

/-- The initial step-size loop is left with the quadratic upper bound met (or `L ≥ L_max`) — unless
    it was left through its stop poll (the flag is visible at the tick the loop ends at). -/
theorem initQub_qubOK (P : Problem α) (pr : Params α) (stop : Nat → Bool) (f : Nat) (c : Iterate α)
    (t b : Nat) (h : (initQub P pr stop f c t b).2.2.2 = false)
    (hs : stop (initQub P pr stop f c t b).2.1 = false) : QubOK pr (initQub P pr stop f c t b).1 := by
  induction f generalizing c t b with
  | zero => simp [initQub] at h
  | succ f ih =>
    unfold initQub at h hs ⊢
    split_ifs at h hs ⊢ with hst hc
    · simp only [] at hs; rw [hst] at hs; exact absurd hs (by decide)
    · exact ih _ _ _ h hs
    · exact Bool.eq_false_iff.mpr hc

end structural

/-! ### Ordered-field part -/
section field
variable {α D : Type} [Field α] [LinearOrder α] [IsStrictOrderedRing α] [RealLike α]

/-- Relation of a candidate's `(γ, L)` to the current iterate's: positive, not larger, same
    product. -/
def GL (c n : Iterate α) : Prop :=
  0 < n.gamma ∧ n.gamma ≤ c.gamma ∧ n.gamma * n.L = c.gamma * c.L

theorem GL_halve (c n : Iterate α) (h : GL c n) (n' : Iterate α)
    (hγ : n'.gamma = n.gamma / 2) (hL : n'.L = n.L * 2) : GL c n' := by
  obtain ⟨h0, h1, h2⟩ := h
  refine ⟨?_, ?_, ?_⟩
  · rw [hγ]; linarith
  · rw [hγ]; linarith
  · rw [hγ, hL, ← h2]; ring

theorem GL_same (c n : Iterate α) (h : GL c n) (n' : Iterate α)
    (hγ : n'.gamma = n.gamma) (hL : n'.L = n.L) : GL c n' := by
  unfold GL at *; rw [hγ, hL]; exact h

/-- One pass of the line-search body keeps the candidate's `(γ, L)` in relation `GL`. -/
theorem lsPass_GL (P : Problem α) (dir : Direction D α) (pr : Params α) (c : Iterate α)
    (px : ProxIterate α) (q : Vec α) (tauInit : α) (s : LS α D) (hc : 0 < c.gamma)
    (h : GL c s.next) : GL c (lsPass P dir pr c px q tauInit s).st.next := by
  have h1 := lsRecompute_same P c px q s
  have hu := lsUpdateInCandidate_same dir pr c px
    { lsRecompute P c px q s with
      next := evalCostInProx P (evalProxGradStep P (lsRecompute P c px q s).next),
      tick := (lsRecompute P c px q s).tick + 2 }
  have h2 : GL c (evalCostInProx P (evalProxGradStep P (lsRecompute P c px q s).next)) :=
    GL_same c s.next h _ h1.2.1 h1.2.2.1
  unfold lsPass
  simp only []
  split_ifs
  all_goals simp only [Pass.st]
  all_goals first
    | exact ⟨hc, le_refl _, rfl⟩
    | exact GL_halve c _ h2 _ rfl rfl
    | (rw [hu.1]; exact h2)

theorem lineSearch_GL (P : Problem α) (dir : Direction D α) (pr : Params α) (stop : Nat → Bool)
    (c : Iterate α) (px : ProxIterate α) (q : Vec α) (tauInit : α) (fuel : Nat) (s : LS α D)
    (hc : 0 < c.gamma) (h : GL c s.next) :
    GL c (lineSearch P dir pr stop c px q tauInit fuel s).next := by
  induction fuel generalizing s with
  | zero => simpa [lineSearch] using h
  | succ f ih =>
    unfold lineSearch
    split_ifs
    · exact h
    · have hp := lsPass_GL P dir pr c px q tauInit s hc h
      cases hpass : lsPass P dir pr c px q tauInit s with
      | done s' => rw [hpass] at hp; exact hp
      | again s' => rw [hpass] at hp; exact ih s' hp

theorem lsOf_GL (P : Problem α) (dir : Direction D α) (pr : Params α) (stop : Nat → Bool)
    (s : St α D) (hc : 0 < s.curr.gamma) : GL s.curr (lsOf P dir pr stop s).next := by
  unfold lsOf
  exact lineSearch_GL P dir pr stop _ _ _ _ _ _ hc ⟨hc, le_refl _, rfl⟩

/-- **One pass of the loop body**: the new current iterate's step size is positive, not larger
    than the old one, and `γ·L` is unchanged. -/
theorem iterBody_GL (P : Problem α) (dir : Direction D α) (pr : Params α) (stop : Nat → Bool)
    (s : St α D) (eps : α) (hc : 0 < s.curr.gamma) :
    GL s.curr (iterBody P dir pr stop s eps).curr := by
  by_cases hst : stop (lsOf P dir pr stop s).tick = true
  · rw [(iterBody_interrupted P dir pr stop s eps hst).1]; exact ⟨hc, le_refl _, rfl⟩
  · rw [(iterBody_completed P dir pr stop s eps (by simpa using hst)).1]
    exact lsOf_GL P dir pr stop s hc

/-- Invariant of a whole solve, `κ = γ₀·L₀`: the current step size is positive with `γ·L = κ`;
    every iterate reported so far has `γ·L = κ` and a step size at least the current one; the
    reported step sizes are non-increasing in time (`cbs` is newest-first). -/
def GammaInv (κ : α) (s : St α D) : Prop :=
  0 < s.curr.gamma ∧ s.curr.gamma * s.curr.L = κ ∧
  (∀ cb ∈ s.cbs, s.curr.gamma ≤ cb.it.gamma ∧ cb.it.gamma * cb.it.L = κ) ∧
  s.cbs.Pairwise (fun a b => a.it.gamma ≤ b.it.gamma)

theorem gammaInv_step (P : Problem α) (dir : Direction D α) (pr : Params α) (stop : Nat → Bool)
    (oot : Bool) (κ : α) (s : St α D) (h : GammaInv κ s) :
    GammaInv κ (iterBody P dir pr stop (headStep P pr stop oot s).1 (headStep P pr stop oot s).2.1) := by
  have hs := headStep_same P pr stop oot s
  obtain ⟨h0, hκ, hall, hpw⟩ := h
  generalize hs' : (headStep P pr stop oot s).1 = s' at hs
  generalize (headStep P pr stop oot s).2.1 = eps
  have h0' : 0 < s'.curr.gamma := by rw [hs.1]; exact h0
  by_cases hst : stop (lsOf P dir pr stop s').tick = true
  · have hd := iterBody_interrupted P dir pr stop s' eps hst
    unfold GammaInv
    rw [hd.1, hd.2.2.2.2.1, hs.1, hs.2.2.2.1]
    exact ⟨h0, hκ, hall, hpw⟩
  · have hst' : stop (lsOf P dir pr stop s').tick = false := by simpa using hst
    have hd := iterBody_completed P dir pr stop s' eps hst'
    have hgl := lsOf_GL P dir pr stop s' h0'
    obtain ⟨cb, hcbs, _, _, _, _, hit⟩ := hd.2.2.2
    rw [hs.1] at hgl
    have hcb : (lsOf P dir pr stop s').next.gamma ≤ cb.it.gamma ∧ cb.it.gamma ≤ s.curr.gamma ∧
        cb.it.gamma * cb.it.L = κ := by
      rcases updateStage_curr P dir pr s'.curr s'.prox (lsOf P dir pr stop s') with hu | hu
      · rw [hit, hu, hs.1]; exact ⟨hgl.2.1, le_refl _, hκ⟩
      · rw [hit, hu]; exact ⟨le_refl _, hgl.2.1, by rw [← hκ]; exact hgl.2.2⟩
    unfold GammaInv
    rw [hd.1, hcbs, hs.2.2.2.1]
    refine ⟨hgl.1, by rw [← hκ]; exact hgl.2.2, ?_, ?_⟩
    · intro cb' hmem
      rcases List.mem_cons.mp hmem with rfl | hmem
      · exact ⟨hcb.1, hcb.2.2⟩
      · exact ⟨le_trans hgl.2.1 (hall cb' hmem).1, (hall cb' hmem).2⟩
    · exact List.pairwise_cons.mpr ⟨fun b hb => le_trans hcb.2.1 (hall b hb).1, hpw⟩

theorem initQub_GL (P : Problem α) (pr : Params α) (stop : Nat → Bool) (κ : α) (f : Nat)
    (c : Iterate α) (t b : Nat)
    (h : 0 < c.gamma ∧ c.gamma * c.L = κ) :
    0 < (initQub P pr stop f c t b).1.gamma ∧
    (initQub P pr stop f c t b).1.gamma * (initQub P pr stop f c t b).1.L = κ := by
  induction f generalizing c t b with
  | zero => simpa [initQub] using h
  | succ f ih =>
    unfold initQub
    split_ifs
    · exact h
    · apply ih
      rw [(evalStep_gammaL P _).1, (evalStep_gammaL P _).2]
      simp only []
      refine ⟨by linarith [h.1], ?_⟩
      rw [← h.2]; ring
    · exact h

theorem eclamp_pos (v lo hi : α) (hlo : 0 < lo) (hhi : 0 < hi) : 0 < eclamp v lo hi := by
  unfold eclamp
  split_ifs with h1 h2
  · exact hlo
  · exact hhi
  · exact lt_of_lt_of_le hlo (not_lt.mp h1)

/-- The Lipschitz estimate the solve starts from is positive (user-provided `L_0 > 0`, or the
    finite-difference estimate clamped to `[L_min, L_max]` with `0 < L_min`, `0 < L_max`). -/
theorem initLipschitz_pos (P : Problem α) (pr : Params α) (x0 gV : Vec α) (gS : α)
    (hmin : 0 < pr.Lmin) (hmax : 0 < pr.Lmax) : 0 < (initLipschitz P pr x0 gV gS).1.L := by
  unfold initLipschitz
  simp only []
  split_ifs with h
  · exact eclamp_pos _ _ _ hmin hmax
  · exact not_le.mp h

/-- The state the main loop starts from satisfies the step-size invariant with
    `κ = Lγ_factor`. -/
theorem initState_gammaInv (P : Problem α) (d0 : D) (pr : Params α) (stop : Nat → Bool)
    (x0 gV : Vec α) (gS : α)
    (hmin : 0 < pr.Lmin) (hmax : 0 < pr.Lmax) (hf : 0 < pr.LgammaFactor)
    (s : St α D) (h : initState P d0 pr stop x0 gV gS = .inr s) : GammaInv pr.LgammaFactor s := by
  have hL := initLipschitz_pos P pr x0 gV gS hmin hmax
  unfold initState at h
  simp only [] at h
  split_ifs at h
  injection h with h; subst h
  have := initQub_GL P pr stop pr.LgammaFactor pr.lsFuel
    (evalCostInProx P (evalProxGradStep P
      { (initLipschitz P pr x0 gV gS).1 with
        gamma := pr.LgammaFactor / (initLipschitz P pr x0 gV gS).1.L }))
    ((initLipschitz P pr x0 gV gS).2.2 + 2) 0
    (by
      rw [(evalStep_gammaL P _).1, (evalStep_gammaL P _).2]
      simp only []
      exact ⟨div_pos hf hL, div_mul_cancel₀ _ (ne_of_gt hL)⟩)
  exact ⟨this.1, this.2, by intro cb hcb; simp at hcb, List.Pairwise.nil⟩

end field
end Alpaqa.Zerofpr
