/-
  C08, scalar part: the momentum parameter.  `fista_tNext` is regenerated from fista.tpp's
  `real_t t_new = …` on every run (`Alpaqa/Gen/C08.lean`); the carrier is any linearly ordered
  field whose `sqrt` is lawful on non-negative arguments (`LawfulSqrt`; `ℝ` with `Real.sqrt` is an
  instance, see `Props/C08.lean`).
-/
import Alpaqa.Proofs.Basic
import Alpaqa.Gen.C08

namespace Alpaqa.C08
open Alpaqa Alpaqa.Gen

variable {α : Type} [Field α] [LinearOrder α] [IsStrictOrderedRing α] [RealLike α]

/-- What the theorems need from `std::sqrt`. -/
structure LawfulSqrt (α : Type) [Field α] [LinearOrder α] [RealLike α] : Prop where
  sqrt_nonneg : ∀ a : α, 0 ≤ a → 0 ≤ RealLike.sqrt a
  sqrt_mul_self : ∀ a : α, 0 ≤ a → RealLike.sqrt a * RealLike.sqrt a = a

/-- **`tNext_identity`**: the generated update satisfies `t₊² − t₊ = t²` (Beck–Teboulle's
    recurrence) — for every `t`.  This is the statement that does not compile against the
    unpatched source (`1 + 4·t` instead of `1 + 4·t·t`). -/
theorem tNext_identity (hs : LawfulSqrt α) (t : α) :
    fista_tNext t ^ 2 - fista_tNext t = t ^ 2 := by
  have h0 : (0 : α) ≤ 1 + 4 * t * t := by nlinarith [mul_self_nonneg t]
  have h := hs.sqrt_mul_self _ h0
  unfold fista_tNext
  simp only []
  generalize RealLike.sqrt (1 + 4 * t * t) = s at h
  field_simp
  nlinarith [h]

/-- `t₊ ≥ t + ½` (since `√(1+4t²) ≥ 2t`). -/
theorem tNext_ge (hs : LawfulSqrt α) (t : α) : t + 1 / 2 ≤ fista_tNext t := by
  have h0 : (0 : α) ≤ 1 + 4 * t * t := by nlinarith [mul_self_nonneg t]
  have h := hs.sqrt_mul_self _ h0
  have hn := hs.sqrt_nonneg _ h0
  unfold fista_tNext
  simp only []
  generalize RealLike.sqrt (1 + 4 * t * t) = s at h hn
  have h2 : 2 * t ≤ s := by
    by_contra hc
    rw [not_le] at hc
    nlinarith [mul_self_nonneg (2 * t - s)]
  rw [le_div_iff₀ (by norm_num : (0 : α) < 2)]
  linarith

theorem tNext_ge_one (hs : LawfulSqrt α) (t : α) (ht : 1 ≤ t) : 1 ≤ fista_tNext t :=
  le_trans (by linarith) (tNext_ge hs t)

theorem tNext_pos (hs : LawfulSqrt α) (t : α) (ht : 1 ≤ t) : 0 < fista_tNext t :=
  lt_of_lt_of_le one_pos (tNext_ge_one hs t ht)

/-- The momentum sequence of the solver: `t₀ = 1`, `tₖ₊₁ = t_new(tₖ)`. -/
def tSeq : Nat → α
  | 0 => 1
  | k + 1 => fista_tNext (tSeq k)

/-- **`t_ge`**: `tₖ ≥ (k+2)/2`. -/
theorem t_ge (hs : LawfulSqrt α) (k : Nat) : ((k : α) + 2) / 2 ≤ tSeq k := by
  induction k with
  | zero => simp [tSeq]
  | succ k ih =>
    have := tNext_ge hs (tSeq (α := α) k)
    simp only [tSeq, Nat.cast_succ]
    linarith

theorem tSeq_ge_one (hs : LawfulSqrt α) (k : Nat) : (1 : α) ≤ tSeq k := by
  have := t_ge (α := α) hs k
  have hk : (0 : α) ≤ (k : α) := Nat.cast_nonneg k
  linarith

end Alpaqa.C08
