/-
  `Proofs/C01Panoc.lean` (`HeadInv`, `mainLoop_exit_inv`, `run_exit_inv`) with the oracle consistency
  relativised to well-sized arguments: the invariants are `GoodOn n` / `GradHatConsOn n` of
  `Proofs/PanocInvOn.lean`, whose side condition `x̂.length = n` is discharged by the size invariant
  `Sized n m` that the same induction carries (`Proofs/PanocSized`).  Consumer:
  `Props/C01_Alm.panoc_satisfies_inner_contract_grad` (and its corollary `…_on`).
-/
import Alpaqa.Proofs.C01Panoc
import Alpaqa.Proofs.PanocInvOn

namespace Alpaqa.Panoc
open Alpaqa Alpaqa.Gen Alpaqa.Props.C05
set_option linter.unusedSectionVars false

variable {α D : Type} [Field α] [LinearOrder α] [IsStrictOrderedRing α] [RealLike α]

/-- What holds at every loop head of a solve (before the head's own `∇ψ(x̂)` evaluation), with the oracle
    consistency demanded on `ℝⁿ` only (`GoodOn`, `GradHatConsOn`; `sized` discharges their side
    condition `x̂.length = n`). -/
structure HeadInvOn (n m : Nat) (P : Problem α) (pr : Params α) (s : St α D) : Prop where
  loop : LoopInv False True P pr s
  good : GoodOn n P pr s.curr
  grad : GradHatConsOn n P pr s.curr
  /-- the buffer invariant against `ŷ(x̂)` (gradient half of the law only; `PanocInvOn.GradHatPsiOn`) -/
  gradPsi : GradHatPsiOn n P pr s.curr
  sized : Sized n m s.curr

theorem mainLoop_exit_inv_on {n m : Nat} (P : Problem α) (hPs : ProblemSized n m P)
    (dir : Direction D α) (d0 : D) (hD : DirSized n dir d0) (pr : Params α)
    (hmin : 0 ≤ pr.minLsCoef) (stop : Nat → Bool) (oot : Bool)
    (x0 y Sig errz0 : Vec α) (fuel : Nat) (s : St α D) (h : HeadInvOn n m P pr s)
    (hd : DirOK n dir d0 s.k s.d) (hf : s.fuelOut = false)
    (hr : (mainLoop P dir pr stop oot x0 y Sig errz0 fuel s).fuelOut = false) :
    ∃ s', HeadInvOn n m P pr s' ∧
      mainLoop P dir pr stop oot x0 y Sig errz0 fuel s =
        exitBlock P pr (headStep P pr stop oot s').1 (headStep P pr stop oot s').2.1
          (headStep P pr stop oot s').2.2 x0 y Sig errz0 := by
  induction fuel generalizing s with
  | zero => simp [mainLoop] at hr
  | succ f ih =>
    unfold mainLoop at hr ⊢
    simp only [] at hr ⊢
    have hfh : (headStep P pr stop oot s).1.fuelOut = false := by rw [headStep_fuelOut]; exact hf
    split_ifs at hr ⊢ with hb
    · exact ⟨s, h, rfl⟩
    · have hf2 : (iterBody P dir pr stop (headStep P pr stop oot s).1 (headStep P pr stop oot s).2.1).fuelOut
          = false := by
        rcases Bool.eq_false_or_eq_true
          (iterBody P dir pr stop (headStep P pr stop oot s).1 (headStep P pr stop oot s).2.1).fuelOut
          with hc | hc
        · have := mainLoop_fuelOut_mono P dir pr stop oot x0 y Sig errz0 f _ hc
          rw [this] at hr; exact absurd hr (by decide)
        · exact hc
      have hls : (iterLs P dir pr stop (headStep P pr stop oot s).1).fuelOut = false := by
        rw [iterBody_fuelOut, hfh] at hf2; simpa using hf2
      have hh : HeadInvOn n m P pr (headStep P pr stop oot s).1 :=
        ⟨headStep_inv False True P pr stop oot s h.loop, (headStep_good_on n P pr stop oot s h.good).1,
          (headStep_gh_on n P pr stop oot s h.good h.grad).1,
          (headStep_ghp n P pr stop oot s h.good h.sized.xhat h.gradPsi).1,
          headStep_sized hPs pr stop oot s h.sized⟩
      have hdh : DirOK n dir d0 (headStep P pr stop oot s).1.k (headStep P pr stop oot s).1.d := by
        rw [(headStep_d P pr stop oot s).1, (headStep_d P pr stop oot s).2]; exact hd
      exact ih _ ⟨iterBody_inv False True 0 0 (fun _ => 0) (fun _ => True) P dir d0 pr (fun hF => hF.elim) stop _ _
          (fun hF => hF.elim) (fun hF => hF.elim) hmin hh.loop hls,
        iterBody_good_on n P dir pr stop _ _ hh.good hfh hf2,
        iterBody_gh_on n P dir pr stop _ _ hh.grad hfh hf2,
        iterBody_ghp n P dir pr stop _ _ hh.gradPsi hfh hf2,
        (iterBody_sized hPs dir d0 hD pr stop _ _ hh.sized hdh hls).1⟩
        (Or.inr (iterBody_reach hPs dir d0 hD pr stop _ _ hh.sized hdh hls)) hf2 hr

/-- A solve either returns before the main loop (`NotFinite`, nothing written) or through the exit
    block at a loop head satisfying `HeadInv`. -/
theorem run_exit_inv_on {n m : Nat} (P : Problem α) (hPs : ProblemSized n m P)
    (dir : Direction D α) (d0 : D) (hD : DirSized n dir d0) (pr : Params α)
    (hp : ParamsOK pr) (stop : Nat → Bool) (oot : Bool) (x0 y Sig errz0 gV : Vec α) (gS iS : α)
    (hx0 : x0.length = n)
    (hfuel : (run P dir d0 pr stop oot x0 y Sig errz0 gV gS iS).fuelOut = false) :
    (run P dir d0 pr stop oot x0 y Sig errz0 gV gS iS).stats.status = .NotFinite ∨
    ∃ s', HeadInvOn n m P pr s' ∧
      run P dir d0 pr stop oot x0 y Sig errz0 gV gS iS =
        exitBlock P pr (headStep P pr stop oot s').1 (headStep P pr stop oot s').2.1
          (headStep P pr stop oot s').2.2 x0 y Sig errz0 := by
  have hi := initState_inv P d0 pr stop x0 gV gS iS hp
  have hz := initState_sized hPs d0 pr stop x0 gV gS iS hx0
  have hid := initState_d P d0 pr stop x0 gV gS iS
  unfold run at hfuel ⊢
  cases hs : initState P d0 pr stop x0 gV gS iS with
  | inl t => left; rfl
  | inr s =>
    right
    rw [hs] at hi hz hid
    simp only [hs] at hfuel ⊢
    have hf0 : s.fuelOut = false := by
      rcases Bool.eq_false_or_eq_true s.fuelOut with hc | hc
      · have := mainLoop_fuelOut_mono P dir pr stop oot x0 y Sig errz0 (pr.maxIter + 2) s hc
        rw [this] at hfuel; exact absurd hfuel (by decide)
      · exact hc
    exact mainLoop_exit_inv_on P hPs dir d0 hD pr hp.minLs stop oot x0 y Sig errz0 _ s
      ⟨hi hf0 False True (fun _ => trivial), initState_good_on n P d0 pr stop x0 gV gS iS s hs,
        initState_gh_on n P d0 pr stop x0 gV gS iS s hs, initState_ghp n P d0 pr stop x0 gV gS iS s hs, hz⟩ (Or.inl hid) hf0 hfuel

/-- `HeadInvOn` gives the unconditional facts at a head: `ŷx̂ = ŷ(x̂)` under `YhatModeOn`. -/
theorem HeadInvOn.yhat {n m : Nat} {P : Problem α} {pr : Params α} {s : St α D}
    (h : HeadInvOn n m P pr s) (hm : YhatModeOn n P pr) : s.curr.yhat = (P.psi s.curr.xhat).2 :=
  h.good.2 hm h.sized.xhat

/-- a buffer flagged valid holds `eval_grad_L(x̂, ŷ(x̂))` — from the gradient half of the law alone -/
theorem HeadInvOn.gradHatPsi {n m : Nat} {P : Problem α} {pr : Params α} {s : St α D}
    (h : HeadInvOn n m P pr s) (hm : GradModeOn n P pr) (hf : s.curr.haveGradHat = true) :
    s.curr.gradPsiHat = P.gradL s.curr.xhat (P.psi s.curr.xhat).2 :=
  h.gradPsi hm h.sized.xhat hf

/-- … and a buffer flagged valid holds `eval_grad_L(x̂, ŷx̂)`. -/
theorem HeadInvOn.gradHat {n m : Nat} {P : Problem α} {pr : Params α} {s : St α D}
    (h : HeadInvOn n m P pr s) (hm : YhatModeOn n P pr) (hf : s.curr.haveGradHat = true) :
    s.curr.gradPsiHat = P.gradL s.curr.xhat s.curr.yhat :=
  h.grad hm h.sized.xhat hf

end Alpaqa.Panoc
