/-
  C15: list / sum lemmas used by `Props/C15.lean` (vector lifts of the componentwise prox theorems,
  nuclear norm): Eigen's left-fold reductions are sums over an ordered field, `vget` on mapped
  ranges, monotonicity and truncation of `range`-indexed sums.
-/
import Alpaqa.Proofs.Basic
import Mathlib.Algebra.Order.BigOperators.Group.List
import Alpaqa.Gen.C15
import Alpaqa.Model.C15

namespace Alpaqa.C15
open Alpaqa Alpaqa.Gen
set_option linter.unusedSectionVars false

variable {α : Type} [Field α] [LinearOrder α] [IsStrictOrderedRing α]

theorem foldl_add_eq (xs : List α) (a : α) : xs.foldl (· + ·) a = a + xs.sum := by
  induction xs generalizing a with
  | nil => simp
  | cons y ys ih => simp only [List.foldl_cons, List.sum_cons, ih]; ring

/-- Eigen's left-fold sum is the sum. -/
theorem vsum_eq_sum (v : List α) : vsum v = v.sum := by
  cases v with
  | nil => rfl
  | cons x xs => simp only [vsum, redux, List.sum_cons]; exact foldl_add_eq xs x

theorem norm1_eq_sum_abs (v : List α) : norm1 v = (v.map (|·|)).sum := by
  unfold norm1; rw [vsum_eq_sum]; congr 1
  unfold vabs; apply List.map_congr_left; intro a _; exact eabs_eq_abs a

theorem vget_map_range (n : Nat) (f : Nat → α) (i : Nat) (hi : i < n) :
    vget ((List.range n).map f) i = f i := by
  simp [vget, List.getD_eq_getElem?_getD, hi]

theorem vget_map (f : α → α) (v : List α) (i : Nat) (hi : i < v.length) :
    vget (v.map f) i = f (vget v i) := by
  simp [vget, List.getD_eq_getElem?_getD, hi]

theorem vget_of_le (v : List α) (i : Nat) (hi : v.length ≤ i) : vget v i = 0 := by
  simp [vget, List.getD_eq_getElem?_getD, hi]

/-- a list is the `range`-indexed list of its `vget`s. -/
theorem eq_map_range_vget (v : List α) : v = (List.range v.length).map (vget v) := by
  apply List.ext_getElem
  · simp
  · intro i h1 h2
    simp [vget, List.getD_eq_getElem?_getD, h1]

theorem sum_range_le (n : Nat) (f g : Nat → α) (h : ∀ i < n, f i ≤ g i) :
    ((List.range n).map f).sum ≤ ((List.range n).map g).sum :=
  List.sum_le_sum (fun i hi => h i (List.mem_range.mp hi))

/-- terms that vanish from index `r` on do not contribute. -/
theorem sum_range_tail_zero (f : Nat → α) (r n : Nat) (hrn : r ≤ n) (h : ∀ k, r ≤ k → f k = 0) :
    ((List.range n).map f).sum = ((List.range r).map f).sum := by
  induction n, hrn using Nat.le_induction with
  | base => rfl
  | succ m hm ih =>
    rw [List.range_succ, List.map_append, List.sum_append, ih]
    simp [h m hm]

theorem zipWith_map_range (n : Nat) (f g : Nat → α) (op : α → α → α) :
    List.zipWith op ((List.range n).map f) ((List.range n).map g) = (List.range n).map fun i => op (f i) (g i) := by
  rw [List.zipWith_map]
  induction (List.range n) with
  | nil => rfl
  | cons a as ih => simp

theorem sum_map_mul_left_nat (l : List Nat) (r : α) (f : Nat → α) :
    (l.map fun b => r * f b).sum = r * (l.map f).sum := by
  induction l with
  | nil => simp
  | cons a as ih => simp only [List.map_cons, List.sum_cons, ih]; ring

theorem sum_map_range_congr (n : Nat) (f g : Nat → α) (h : ∀ i < n, f i = g i) :
    ((List.range n).map f).sum = ((List.range n).map g).sum := by
  congr 1; apply List.map_congr_left; intro i hi; exact h i (List.mem_range.mp hi)

end Alpaqa.C15
