/-
  C10 proofs: `min_eig` / `max_eig` ("minimum / maximum eigenvalue of R") are the extreme diagonal entries of the
  CURRENT `get_R()` after every operation: `add_column` updates them incrementally, `remove_column` and
  `scale_R` end with `update_eig_bounds()` (a loop over `ring_iter()`), `reset` restores `(+inf, −inf)`.
  `diagMin s` / `diagMax s` are the left folds of `min` / `max` over the pivots, started at `±inf<config_t>`.
-/
import Alpaqa.Proofs.C10Add
import Alpaqa.Proofs.C10Misc
import Alpaqa.Proofs.C10Remove
import Alpaqa.Proofs.C10Pivot

namespace Alpaqa.C10
open Finset Alpaqa Alpaqa.Gen
set_option linter.unusedSectionVars false
set_option linter.unusedSimpArgs false
set_option linter.unusedVariables false

section
variable {α : Type} [Field α] [LinearOrder α] [IsStrictOrderedRing α] [RealLike α]

/-- smallest pivot of the current window (`+inf` for the empty window) -/
def diagMin (s : LMQR α) : α := (List.range s.qIdx).foldl (fun acc k => min acc (s.getR k k)) s.infc
/-- largest pivot of the current window (`−inf` for the empty window) -/
def diagMax (s : LMQR α) : α := (List.range s.qIdx).foldl (fun acc k => max acc (s.getR k k)) (-s.infc)

/-- the stored bounds are those of the current window -/
def EigOK (s : LMQR α) : Prop := s.minEig = diagMin s ∧ s.maxEig = diagMax s

theorem foldl_max_ge (f : ℕ → α) : ∀ (l : List ℕ) (a : α), a ≤ l.foldl (fun acc k => max acc (f k)) a ∧
    ∀ k ∈ l, f k ≤ l.foldl (fun acc k => max acc (f k)) a := by
  intro l
  induction l with
  | nil => intro a; exact ⟨le_refl _, fun k hk => absurd hk (List.not_mem_nil)⟩
  | cons x rest ih =>
    intro a
    obtain ⟨h1, h2⟩ := ih (max a (f x))
    simp only [List.foldl_cons]
    refine ⟨le_trans (le_max_left _ _) h1, fun k hk => ?_⟩
    rcases List.mem_cons.mp hk with rfl | hk
    · exact le_trans (le_max_right _ _) h1
    · exact h2 k hk

theorem foldl_max_attained (f : ℕ → α) : ∀ (l : List ℕ) (a : α),
    l.foldl (fun acc k => max acc (f k)) a = a ∨ ∃ k ∈ l, l.foldl (fun acc k => max acc (f k)) a = f k := by
  intro l
  induction l with
  | nil => intro a; left; rfl
  | cons x rest ih =>
    intro a
    simp only [List.foldl_cons]
    rcases ih (max a (f x)) with h | ⟨k, hk, h⟩
    · rcases max_choice a (f x) with hm | hm
      · left; rw [h, hm]
      · right; exact ⟨x, List.mem_cons_self, by rw [h, hm]⟩
    · right; exact ⟨k, List.mem_cons_of_mem _ hk, h⟩

theorem foldl_min_le (f : ℕ → α) : ∀ (l : List ℕ) (a : α), l.foldl (fun acc k => min acc (f k)) a ≤ a ∧
    ∀ k ∈ l, l.foldl (fun acc k => min acc (f k)) a ≤ f k := by
  intro l
  induction l with
  | nil => intro a; exact ⟨le_refl _, fun k hk => absurd hk (List.not_mem_nil)⟩
  | cons x rest ih =>
    intro a
    obtain ⟨h1, h2⟩ := ih (min a (f x))
    simp only [List.foldl_cons]
    refine ⟨le_trans h1 (min_le_left _ _), fun k hk => ?_⟩
    rcases List.mem_cons.mp hk with rfl | hk
    · exact le_trans h1 (min_le_right _ _)
    · exact h2 k hk

theorem foldl_min_attained (f : ℕ → α) : ∀ (l : List ℕ) (a : α),
    l.foldl (fun acc k => min acc (f k)) a = a ∨ ∃ k ∈ l, l.foldl (fun acc k => min acc (f k)) a = f k := by
  intro l
  induction l with
  | nil => intro a; left; rfl
  | cons x rest ih =>
    intro a
    simp only [List.foldl_cons]
    rcases ih (min a (f x)) with h | ⟨k, hk, h⟩
    · rcases min_choice a (f x) with hm | hm
      · left; rw [h, hm]
      · right; exact ⟨x, List.mem_cons_self, by rw [h, hm]⟩
    · right; exact ⟨k, List.mem_cons_of_mem _ hk, h⟩

/-- `diagMax` bounds every pivot and, when `−inf` is below the pivots, is one of them: it is the largest pivot
    of the current window. -/
theorem diagMax_spec (s : LMQR α) :
    (∀ k < s.qIdx, s.getR k k ≤ diagMax s) ∧
    (0 < s.qIdx → (∀ k < s.qIdx, -s.infc ≤ s.getR k k) → ∃ k < s.qIdx, diagMax s = s.getR k k) := by
  unfold diagMax
  refine ⟨fun k hk => (foldl_max_ge (fun k => s.getR k k) _ _).2 k (List.mem_range.mpr hk), fun hK hlow => ?_⟩
  rcases foldl_max_attained (fun k => s.getR k k) (List.range s.qIdx) (-s.infc) with h | ⟨k, hk, h⟩
  · refine ⟨0, hK, ?_⟩
    apply le_antisymm
    · have := hlow 0 hK
      rw [h]; exact this
    · exact (foldl_max_ge (fun k => s.getR k k) _ _).2 0 (List.mem_range.mpr hK)
  · exact ⟨k, List.mem_range.mp hk, h⟩

theorem diagMin_spec (s : LMQR α) :
    (∀ k < s.qIdx, diagMin s ≤ s.getR k k) ∧
    (0 < s.qIdx → (∀ k < s.qIdx, s.getR k k ≤ s.infc) → ∃ k < s.qIdx, diagMin s = s.getR k k) := by
  unfold diagMin
  refine ⟨fun k hk => (foldl_min_le (fun k => s.getR k k) _ _).2 k (List.mem_range.mpr hk), fun hK hup => ?_⟩
  rcases foldl_min_attained (fun k => s.getR k k) (List.range s.qIdx) s.infc with h | ⟨k, hk, h⟩
  · refine ⟨0, hK, ?_⟩
    apply le_antisymm
    · exact (foldl_min_le (fun k => s.getR k k) _ _).2 0 (List.mem_range.mpr hK)
    · have := hup 0 hK
      rw [h]; exact this
  · exact ⟨k, List.mem_range.mp hk, h⟩

/-- the loop of `update_eig_bounds` over the pairs `(j, σ j)` is the pair of folds -/
theorem eigLoop_eq (R : ℕ → ℕ → α) (σ : ℕ → ℕ) : ∀ (l : List ℕ) (a b : α),
    eigLoop (l.map fun j => (j, σ j)) R (a, b) =
      (l.foldl (fun acc k => min acc (R k (σ k))) a, l.foldl (fun acc k => max acc (R k (σ k))) b) := by
  intro l
  induction l with
  | nil => intro a b; rfl
  | cons x rest ih =>
    intro a b
    simp only [List.map_cons, eigLoop, lmqrEigStep, emin_eq_min, emax_eq_max, List.foldl_cons]
    exact ih _ _

theorem updateEig_fields (s : LMQR α) :
    s.updateEig.qIdx = s.qIdx ∧ s.updateEig.rStart = s.rStart ∧ s.updateEig.rEnd = s.rEnd ∧
    s.updateEig.m = s.m ∧ s.updateEig.n = s.n ∧ s.updateEig.R = s.R ∧ s.updateEig.Q = s.Q ∧
    s.updateEig.infc = s.infc := ⟨rfl, rfl, rfl, rfl, rfl, rfl, rfl, rfl⟩

/-- **`update_eig_bounds()` establishes the bounds of the current window.** -/
theorem updateEig_ok (s : LMQR α) (h : RingInv s) : EigOK s.updateEig := by
  have hfwd := ringFwd_eq s h
  have hget : ∀ k, s.updateEig.getR k k = s.R.get k ((s.rStart + k) % s.m) := by
    intro k; unfold LMQR.getR LMQR.slot; rw [if_pos le_rfl]; rfl
  have hmin : s.updateEig.minEig =
      (eigLoop s.ringFwd s.R.get (lmqrEigInit s.infc)).1 := rfl
  have hmax : s.updateEig.maxEig =
      (eigLoop s.ringFwd s.R.get (lmqrEigInit s.infc)).2 := rfl
  have hloop := eigLoop_eq s.R.get (fun j => (s.rStart + j) % s.m) (List.range s.qIdx) s.infc (-s.infc)
  constructor
  · rw [hmin, hfwd]
    unfold diagMin
    simp only [lmqrEigInit, hloop, (updateEig_fields s).1, (updateEig_fields s).2.2.2.2.2.2.2, hget]
  · rw [hmax, hfwd]
    unfold diagMax
    simp only [lmqrEigInit, hloop, (updateEig_fields s).1, (updateEig_fields s).2.2.2.2.2.2.2, hget]

theorem removeColumn_eig (giv : α → α → α × α × α) (s : LMQR α) (h : RingInv s) (hK : 0 < s.qIdx) :
    EigOK (s.removeColumn giv) ∧ (s.removeColumn giv).infc = s.infc := by
  have hr := removeColumn_ring giv s h hK
  have hr' : RingInv (s.removeCore giv) := ⟨hr.mpos, hr.cap, hr.start_lt, hr.end_eq⟩
  refine ⟨updateEig_ok _ hr', ?_⟩
  simp only [LMQR.removeColumn, LMQR.updateEig, LMQR.removeCore, lmqrRemoveIdx, lmqrRemoveInit]

theorem scaleR_eig (s : LMQR α) (h : RingInv s) (c : α) :
    EigOK (s.scaleR c) ∧ (s.scaleR c).infc = s.infc := by
  have hr := scaleR_ring s h c
  refine ⟨?_, rfl⟩
  unfold LMQR.scaleR at hr ⊢
  exact updateEig_ok _ ⟨hr.mpos, hr.cap, hr.start_lt, hr.end_eq⟩

theorem reset_eig (inf : α) (s : LMQR α) (hi : s.infc = inf) :
    EigOK (s.reset inf) ∧ (s.reset inf).infc = inf := by
  refine ⟨?_, by simp [LMQR.reset, lmqrResetIdx, lmqrResetEig, hi]⟩
  unfold EigOK diagMin diagMax
  simp [LMQR.reset, lmqrResetIdx, lmqrResetEig, hi]

theorem new_eig (inf : α) (n m : ℕ) :
    EigOK (LMQR.new inf n m) ∧ (LMQR.new inf n m).infc = inf := by
  unfold LMQR.new
  exact reset_eig inf _ rfl

/-- `add_column` updates the bounds incrementally: exact when they were exact -/
theorem addColumn_eig (fuel : ℕ) (s : LMQR α) (h : RingInv s) (hK : s.qIdx < s.m) (v : ℕ → α)
    (hE : EigOK s) : EigOK (s.addColumn fuel v) ∧ (s.addColumn fuel v).infc = s.infc := by
  obtain ⟨e1, e2, e3, e4, e5⟩ := addColumn_idx fuel s v
  have hinf : (s.addColumn fuel v).infc = s.infc := by simp [LMQR.addColumn, lmqrAddIdx, lmqrAddEig]
  have hmin : (s.addColumn fuel v).minEig = min s.minEig (addCore fuel s v).2.2.1 := by
    simp [LMQR.addColumn, lmqrAddIdx, lmqrAddEig]
  have hmax : (s.addColumn fuel v).maxEig = max s.maxEig (addCore fuel s v).2.2.1 := by
    simp [LMQR.addColumn, lmqrAddIdx, lmqrAddEig]
  have hold : ∀ (g : α → α → α) (a : α),
      (List.range s.qIdx).foldl (fun acc k => g acc ((s.addColumn fuel v).getR k k)) a =
      (List.range s.qIdx).foldl (fun acc k => g acc (s.getR k k)) a := by
    intro g a
    apply List.foldl_ext
    intro acc k hk
    rw [addColumn_getR_old fuel s h hK v (List.mem_range.mp hk)]
  refine ⟨⟨?_, ?_⟩, hinf⟩
  · unfold diagMin
    rw [hmin, e1, hinf, List.range_succ, List.foldl_append, hold (fun a b => min a b)]
    simp only [List.foldl_cons, List.foldl_nil]
    rw [addColumn_getR_diag fuel s h hK v, hE.1]; rfl
  · unfold diagMax
    rw [hmax, e1, hinf, List.range_succ, List.foldl_append, hold (fun a b => max a b)]
    simp only [List.foldl_cons, List.foldl_nil]
    rw [addColumn_getR_diag fuel s h hK v, hE.2]; rfl

end
end Alpaqa.C10
