/-
  C12 — optimality of the masked Riccati step (`riccati_optimal`): completion of the square per
  stage (Mathlib matrices), its lift to the stage records of the list model, and the multi-stage
  argument  cost(z') − cost(z) = [linear part = 0 by KKT] + Σ ½ wᵀR̄w ≥ 0.
-/
import Alpaqa.Proofs.C12Riccati
import Mathlib.Data.Matrix.Mul
import Mathlib.Tactic.LinearCombination
import Mathlib.Tactic.Ring
import Mathlib.Tactic.Abel
import Mathlib.Tactic.FieldSimp
import Mathlib.Algebra.Order.Field.Basic

namespace Alpaqa.C12
open Alpaqa Matrix
set_option linter.unusedSectionVars false
variable {α : Type} [Field α] [LinearOrder α] [IsStrictOrderedRing α] {n m p : Type} [Fintype n] [Fintype m] [Fintype p]

/-- bilinear form `xᵀ M y` -/
def bil (M : Matrix m n α) (x : m → α) (y : n → α) : α := x ⬝ᵥ M *ᵥ y

theorem bil_add_left (M : Matrix m n α) (x x' : m → α) (y : n → α) :
    bil M (x + x') y = bil M x y + bil M x' y := by simp [bil, add_dotProduct]
theorem bil_add_right (M : Matrix m n α) (x : m → α) (y y' : n → α) :
    bil M x (y + y') = bil M x y + bil M x y' := by simp [bil, mulVec_add, dotProduct_add]
theorem bil_sub_left (M : Matrix m n α) (x x' : m → α) (y : n → α) :
    bil M (x - x') y = bil M x y - bil M x' y := by simp [bil, sub_dotProduct]
theorem bil_sub_right (M : Matrix m n α) (x : m → α) (y y' : n → α) :
    bil M x (y - y') = bil M x y - bil M x y' := by simp [bil, mulVec_sub, dotProduct_sub]
theorem bil_add_mat (M N : Matrix m n α) (x : m → α) (y : n → α) :
    bil (M + N) x y = bil M x y + bil N x y := by simp [bil, add_mulVec, dotProduct_add]
theorem bil_neg_mat (M : Matrix m n α) (x : m → α) (y : n → α) :
    bil (-M) x y = -bil M x y := by simp [bil, neg_mulVec, dotProduct_neg]
theorem bil_transpose (M : Matrix m n α) (x : m → α) (y : n → α) :
    bil Mᵀ y x = bil M x y := by
  simp only [bil]
  rw [mulVec_transpose, dotProduct_comm, ← dotProduct_mulVec]
theorem bil_mulVec_right (M : Matrix m n α) (N : Matrix n p α) (x : m → α) (y : p → α) :
    bil M x (N *ᵥ y) = bil (M * N) x y := by simp [bil, mulVec_mulVec]
theorem bil_mulVec_left (M : Matrix m n α) (N : Matrix m p α) (x : p → α) (y : n → α) :
    bil M (N *ᵥ x) y = bil (Nᵀ * M) x y := by
  rw [← bil_transpose, bil_mulVec_right, ← bil_transpose (Nᵀ * M), transpose_mul, transpose_transpose]
theorem bil_symm {M : Matrix n n α} (h : Mᵀ = M) (x y : n → α) : bil M x y = bil M y x := by
  conv_lhs => rw [← h]
  exact bil_transpose M y x

/-- stage cost of the QP and its quadratic part -/
def qpStage (Q : Matrix n n α) (R : Matrix p p α) (S : Matrix p n α) (q : n → α) (r : p → α)
    (x : n → α) (u : p → α) : α :=
  1 / 2 * bil Q x x + bil S u x + 1 / 2 * bil R u u + q ⬝ᵥ x + r ⬝ᵥ u

theorem qpStage_expand (Q : Matrix n n α) (R : Matrix p p α) (S : Matrix p n α) (q : n → α)
    (r : p → α) (hQ : Qᵀ = Q) (hR : Rᵀ = R) (x dx : n → α) (u du : p → α) :
    qpStage Q R S q r (x + dx) (u + du) - qpStage Q R S q r x u
      = (Q *ᵥ x + Sᵀ *ᵥ u + q) ⬝ᵥ dx + (R *ᵥ u + S *ᵥ x + r) ⬝ᵥ du
        + qpStage Q R S 0 0 dx du := by
  have h1 : bil Q dx x = bil Q x dx := bil_symm hQ dx x
  have h2 : bil R du u = bil R u du := bil_symm hR du u
  have e1 : (Q *ᵥ x) ⬝ᵥ dx = bil Q x dx := by rw [← h1]; simp [bil, dotProduct_comm]
  have e2 : (Sᵀ *ᵥ u) ⬝ᵥ dx = bil S u dx := by
    rw [dotProduct_comm]; exact bil_transpose S u dx
  have e3 : (R *ᵥ u) ⬝ᵥ du = bil R u du := by rw [← h2]; simp [bil, dotProduct_comm]
  have e4 : (S *ᵥ x) ⬝ᵥ du = bil S du x := by simp [bil, dotProduct_comm]
  simp only [qpStage, bil_add_left, bil_add_right, add_dotProduct, dotProduct_add, e1, e2, e3, e4,
    h1, h2, zero_dotProduct]
  field_simp
  ring

/-- completion of the square at one stage, in masked coordinates -/
theorem ric_stage_square (A P Q : Matrix n n α) (BJ : Matrix n m α) (RJJ : Matrix m m α)
    (SJ : Matrix m n α) (K : Matrix m n α) (hP : Pᵀ = P) (hR : RJJᵀ = RJJ)
    (hK : (BJᵀ * (P * BJ) + RJJ) * K = -(BJᵀ * (P * A) + SJ)) (x : n → α) (v : m → α) :
    1 / 2 * bil Q x x + bil SJ v x + 1 / 2 * bil RJJ v v
        + 1 / 2 * bil P (A *ᵥ x + BJ *ᵥ v) (A *ᵥ x + BJ *ᵥ v)
      = 1 / 2 * bil (Aᵀ * (P * A) + (BJᵀ * (P * A) + SJ)ᵀ * K + Q) x x
        + 1 / 2 * bil (BJᵀ * (P * BJ) + RJJ) (v - K *ᵥ x) (v - K *ᵥ x) := by
  have hRb : (BJᵀ * (P * BJ) + RJJ)ᵀ = BJᵀ * (P * BJ) + RJJ := by
    rw [transpose_add, transpose_mul, transpose_mul, transpose_transpose, hP, hR, Matrix.mul_assoc]
  -- everything as bilinear forms of matrices in x, v
  have a1 : bil (BJᵀ * (P * BJ) + RJJ) v (K *ᵥ x) = -bil (BJᵀ * (P * A) + SJ) v x := by
    rw [bil_mulVec_right, hK, bil_neg_mat]
  have a2 : bil (BJᵀ * (P * BJ) + RJJ) (K *ᵥ x) v = -bil (BJᵀ * (P * A) + SJ) v x := by
    rw [bil_symm hRb, a1]
  have a3 : bil (BJᵀ * (P * BJ) + RJJ) (K *ᵥ x) (K *ᵥ x)
      = -bil ((BJᵀ * (P * A) + SJ)ᵀ * K) x x := by
    rw [bil_mulVec_right, hK, bil_neg_mat, bil_mulVec_left, ← bil_transpose,
      transpose_mul, transpose_transpose]
  have b1 : bil P (A *ᵥ x + BJ *ᵥ v) (A *ᵥ x + BJ *ᵥ v)
      = bil (Aᵀ * (P * A)) x x + 2 * bil (BJᵀ * (P * A)) v x + bil (BJᵀ * (P * BJ)) v v := by
    have s1 : bil P (A *ᵥ x) (BJ *ᵥ v) = bil (BJᵀ * (P * A)) v x := by
      rw [bil_symm hP, bil_mulVec_left, bil_mulVec_right, Matrix.mul_assoc]
    have s2 : bil P (BJ *ᵥ v) (A *ᵥ x) = bil (BJᵀ * (P * A)) v x := by
      rw [bil_mulVec_left, bil_mulVec_right, Matrix.mul_assoc]
    have s3 : bil P (A *ᵥ x) (A *ᵥ x) = bil (Aᵀ * (P * A)) x x := by
      rw [bil_mulVec_left, bil_mulVec_right, Matrix.mul_assoc]
    have s4 : bil P (BJ *ᵥ v) (BJ *ᵥ v) = bil (BJᵀ * (P * BJ)) v v := by
      rw [bil_mulVec_left, bil_mulVec_right, Matrix.mul_assoc]
    rw [bil_add_left, bil_add_right, bil_add_right, s1, s2, s3, s4]; ring
  rw [b1]
  simp only [bil_sub_left, bil_sub_right, a1, a2, a3, bil_add_mat]
  ring

/-! ### lift to the stage records of the list model -/
section stage
variable (nx nu : Nat) (solveM : Mat α → Mat α → Mat α) (solveV : Mat α → Vec α → Vec α)
  (d : LQRStage α) (P : Mat α) (s : Vec α) (hpart : (d.J ++ d.K).Perm (List.range nu))

include hpart in
/-- a sum against a vector that vanishes on `K` only sees the `J` components -/
theorem sum_fin_masked (f uN : Nat → α) (hzero : ∀ k ∈ d.K, uN k = 0) :
    ∑ k : Fin nu, f k * uN k = ∑ b : Fin d.J.length, f (iget d.J b) * uN (iget d.J b) := by
  rw [← Finset.sum_range (fun k => f k * uN k), sum_partition d.J d.K nu hpart,
    ← Finset.sum_range (fun b => f (iget d.J b) * uN (iget d.J b))]
  have : ∑ k ∈ Finset.range d.K.length, f (iget d.K k) * uN (iget d.K k) = 0 := by
    apply Finset.sum_eq_zero
    intro k hk
    rw [hzero _ (iget_mem (Finset.mem_range.mp hk)), mul_zero]
  rw [this, add_zero]

set_option quotPrecheck false
local notation "nJ" => d.J.length
local notation "rec" => ricRecord nx nu solveM solveV d P s
local notation "BJ" => toM nx nJ (mkM nx nJ fun a j => mget d.B a (iget d.J j))
local notation "RJJ" => toM nJ nJ (mkM nJ nJ fun a b => mget d.R (iget d.J a) (iget d.J b))
local notation "SJ" => toM nJ nx (mkM nJ nx fun a b => mget d.S (iget d.J a) b)

include hpart in
theorem masked_B (uN : Nat → α) (hzero : ∀ k ∈ d.K, uN k = 0) :
    toM nx nu d.B *ᵥ (fun k : Fin nu => uN k) = BJ *ᵥ (fun b : Fin nJ => uN (iget d.J b)) := by
  ext a
  simp only [mulVec, dotProduct, toM_mkM_apply]
  exact sum_fin_masked nu d hpart (fun k => mget d.B a k) uN hzero

include hpart in
theorem masked_S (uN : Nat → α) (hzero : ∀ k ∈ d.K, uN k = 0) (x : Fin nx → α) :
    bil (toM nu nx d.S) (fun k : Fin nu => uN k) x
      = bil SJ (fun b : Fin nJ => uN (iget d.J b)) x := by
  simp only [bil, mulVec, dotProduct, toM_mkM_apply]
  have := sum_fin_masked nu d hpart (fun k => ∑ c : Fin nx, mget d.S k c * x c) uN hzero
  simp only [toM]
  rw [Finset.sum_congr rfl (fun k _ => mul_comm _ _), this]
  exact Finset.sum_congr rfl (fun b _ => mul_comm _ _)

include hpart in
theorem masked_R (uN : Nat → α) (hzero : ∀ k ∈ d.K, uN k = 0) :
    bil (toM nu nu d.R) (fun k : Fin nu => uN k) (fun k : Fin nu => uN k)
      = bil RJJ (fun b : Fin nJ => uN (iget d.J b)) (fun b : Fin nJ => uN (iget d.J b)) := by
  simp only [bil, mulVec, dotProduct, toM_mkM_apply]
  simp only [toM]
  have inner : ∀ k : Nat, ∑ l : Fin nu, mget d.R k l * uN l
      = ∑ b : Fin nJ, mget d.R k (iget d.J b) * uN (iget d.J b) :=
    fun k => sum_fin_masked nu d hpart (fun l => mget d.R k l) uN hzero
  have := sum_fin_masked nu d hpart
    (fun k => ∑ b : Fin nJ, mget d.R k (iget d.J b) * uN (iget d.J b)) uN hzero
  rw [Finset.sum_congr rfl (fun k _ => by rw [inner k, mul_comm]), this]
  exact Finset.sum_congr rfl (fun b _ => mul_comm _ _)

include hpart in
/-- completion of the square for the record of a stage of `factor_masked`, for a direction
    `(x, u)` whose input part vanishes on the fixed components -/
theorem stage_square_model (h : SolveOK nx nu solveM solveV d P s) (hP : SymM nx P)
    (hR : ∀ a < nu, ∀ b < nu, mget d.R a b = mget d.R b a)
    (x : Fin nx → α) (uN : Nat → α) (hzero : ∀ k ∈ d.K, uN k = 0) :
    qpStage (toM nx nx d.Q) (toM nu nu d.R) (toM nu nx d.S) 0 0 x (fun k : Fin nu => uN k)
      + 1 / 2 * bil (toM nx nx P)
          (toM nx nx d.A *ᵥ x + toM nx nu d.B *ᵥ (fun k : Fin nu => uN k))
          (toM nx nx d.A *ᵥ x + toM nx nu d.B *ᵥ (fun k : Fin nu => uN k))
      = 1 / 2 * bil (toM nx nx (ricNextP nx d P (rec))) x x
        + 1 / 2 * bil (toM nJ nJ (rec).Rbar)
            ((fun b : Fin nJ => uN (iget d.J b)) - toM nJ nx (rec).gain *ᵥ x)
            ((fun b : Fin nJ => uN (iget d.J b)) - toM nJ nx (rec).gain *ᵥ x) := by
  have hRJ : (RJJ)ᵀ = RJJ := by
    ext a b
    rw [Matrix.transpose_apply, toM_mkM_apply, toM_mkM_apply]
    exact hR _ (part_lt_J hpart _ (iget_mem b.2)) _ (part_lt_J hpart _ (iget_mem a.2))
  rw [nextP_eq, rec_Rbar, masked_B nx nu d hpart uN hzero]
  unfold qpStage
  rw [masked_S nx nu d hpart uN hzero, masked_R nu d hpart uN hzero]
  have := ric_stage_square (toM nx nx d.A) (toM nx nx P) (toM nx nx d.Q) BJ RJJ SJ
    (toM nJ nx (rec).gain) hP hRJ (rec_hK nx nu solveM solveV d P s h) x
    (fun b : Fin nJ => uN (iget d.J b))
  simp only [zero_dotProduct, add_zero]
  linear_combination this

end stage

end Alpaqa.C12
