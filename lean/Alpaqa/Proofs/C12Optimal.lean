/-
  C12 — optimality of the masked Riccati step (`riccati_optimal`): completion of the square per
  stage (Mathlib matrices), its lift to the stage records of the list model, and the multi-stage
  argument  cost(z') − cost(z) = [linear part = 0 by KKT] + Σ ½ wᵀR̄w ≥ 0.
-/
import Alpaqa.Proofs.C12Riccati
import Mathlib.Data.Matrix.Mul
import Mathlib.Tactic.LinearCombination
import Mathlib.Tactic.Ring
import Mathlib.Tactic.Abel
import Mathlib.Tactic.FieldSimp
import Mathlib.Algebra.Order.Field.Basic

namespace Alpaqa.C12
open Alpaqa Matrix
set_option linter.unusedSectionVars false
variable {α : Type} [Field α] [LinearOrder α] [IsStrictOrderedRing α] {n m p : Type} [Fintype n] [Fintype m] [Fintype p]

/-- bilinear form `xᵀ M y` -/
def bil (M : Matrix m n α) (x : m → α) (y : n → α) : α := x ⬝ᵥ M *ᵥ y

theorem bil_add_left (M : Matrix m n α) (x x' : m → α) (y : n → α) :
    bil M (x + x') y = bil M x y + bil M x' y := by simp [bil, add_dotProduct]
theorem bil_add_right (M : Matrix m n α) (x : m → α) (y y' : n → α) :
    bil M x (y + y') = bil M x y + bil M x y' := by simp [bil, mulVec_add, dotProduct_add]
theorem bil_sub_left (M : Matrix m n α) (x x' : m → α) (y : n → α) :
    bil M (x - x') y = bil M x y - bil M x' y := by simp [bil, sub_dotProduct]
theorem bil_sub_right (M : Matrix m n α) (x : m → α) (y y' : n → α) :
    bil M x (y - y') = bil M x y - bil M x y' := by simp [bil, mulVec_sub, dotProduct_sub]
theorem bil_add_mat (M N : Matrix m n α) (x : m → α) (y : n → α) :
    bil (M + N) x y = bil M x y + bil N x y := by simp [bil, add_mulVec, dotProduct_add]
theorem bil_neg_mat (M : Matrix m n α) (x : m → α) (y : n → α) :
    bil (-M) x y = -bil M x y := by simp [bil, neg_mulVec, dotProduct_neg]
theorem bil_transpose (M : Matrix m n α) (x : m → α) (y : n → α) :
    bil Mᵀ y x = bil M x y := by
  simp only [bil]
  rw [mulVec_transpose, dotProduct_comm, ← dotProduct_mulVec]
theorem bil_mulVec_right (M : Matrix m n α) (N : Matrix n p α) (x : m → α) (y : p → α) :
    bil M x (N *ᵥ y) = bil (M * N) x y := by simp [bil, mulVec_mulVec]
theorem bil_mulVec_left (M : Matrix m n α) (N : Matrix m p α) (x : p → α) (y : n → α) :
    bil M (N *ᵥ x) y = bil (Nᵀ * M) x y := by
  rw [← bil_transpose, bil_mulVec_right, ← bil_transpose (Nᵀ * M), transpose_mul, transpose_transpose]
theorem bil_symm {M : Matrix n n α} (h : Mᵀ = M) (x y : n → α) : bil M x y = bil M y x := by
  conv_lhs => rw [← h]
  exact bil_transpose M y x

/-- stage cost of the QP and its quadratic part -/
def qpStage (Q : Matrix n n α) (R : Matrix p p α) (S : Matrix p n α) (q : n → α) (r : p → α)
    (x : n → α) (u : p → α) : α :=
  1 / 2 * bil Q x x + bil S u x + 1 / 2 * bil R u u + q ⬝ᵥ x + r ⬝ᵥ u

theorem qpStage_expand (Q : Matrix n n α) (R : Matrix p p α) (S : Matrix p n α) (q : n → α)
    (r : p → α) (hQ : Qᵀ = Q) (hR : Rᵀ = R) (x dx : n → α) (u du : p → α) :
    qpStage Q R S q r (x + dx) (u + du) - qpStage Q R S q r x u
      = (Q *ᵥ x + Sᵀ *ᵥ u + q) ⬝ᵥ dx + (R *ᵥ u + S *ᵥ x + r) ⬝ᵥ du
        + qpStage Q R S 0 0 dx du := by
  have h1 : bil Q dx x = bil Q x dx := bil_symm hQ dx x
  have h2 : bil R du u = bil R u du := bil_symm hR du u
  have e1 : (Q *ᵥ x) ⬝ᵥ dx = bil Q x dx := by rw [← h1]; simp [bil, dotProduct_comm]
  have e2 : (Sᵀ *ᵥ u) ⬝ᵥ dx = bil S u dx := by
    rw [dotProduct_comm]; exact bil_transpose S u dx
  have e3 : (R *ᵥ u) ⬝ᵥ du = bil R u du := by rw [← h2]; simp [bil, dotProduct_comm]
  have e4 : (S *ᵥ x) ⬝ᵥ du = bil S du x := by simp [bil, dotProduct_comm]
  simp only [qpStage, bil_add_left, bil_add_right, add_dotProduct, dotProduct_add, e1, e2, e3, e4,
    h1, h2, zero_dotProduct]
  field_simp
  ring

/-- completion of the square at one stage, in masked coordinates -/
theorem ric_stage_square (A P Q : Matrix n n α) (BJ : Matrix n m α) (RJJ : Matrix m m α)
    (SJ : Matrix m n α) (K : Matrix m n α) (hP : Pᵀ = P) (hR : RJJᵀ = RJJ)
    (hK : (BJᵀ * (P * BJ) + RJJ) * K = -(BJᵀ * (P * A) + SJ)) (x : n → α) (v : m → α) :
    1 / 2 * bil Q x x + bil SJ v x + 1 / 2 * bil RJJ v v
        + 1 / 2 * bil P (A *ᵥ x + BJ *ᵥ v) (A *ᵥ x + BJ *ᵥ v)
      = 1 / 2 * bil (Aᵀ * (P * A) + (BJᵀ * (P * A) + SJ)ᵀ * K + Q) x x
        + 1 / 2 * bil (BJᵀ * (P * BJ) + RJJ) (v - K *ᵥ x) (v - K *ᵥ x) := by
  have hRb : (BJᵀ * (P * BJ) + RJJ)ᵀ = BJᵀ * (P * BJ) + RJJ := by
    rw [transpose_add, transpose_mul, transpose_mul, transpose_transpose, hP, hR, Matrix.mul_assoc]
  -- everything as bilinear forms of matrices in x, v
  have a1 : bil (BJᵀ * (P * BJ) + RJJ) v (K *ᵥ x) = -bil (BJᵀ * (P * A) + SJ) v x := by
    rw [bil_mulVec_right, hK, bil_neg_mat]
  have a2 : bil (BJᵀ * (P * BJ) + RJJ) (K *ᵥ x) v = -bil (BJᵀ * (P * A) + SJ) v x := by
    rw [bil_symm hRb, a1]
  have a3 : bil (BJᵀ * (P * BJ) + RJJ) (K *ᵥ x) (K *ᵥ x)
      = -bil ((BJᵀ * (P * A) + SJ)ᵀ * K) x x := by
    rw [bil_mulVec_right, hK, bil_neg_mat, bil_mulVec_left, ← bil_transpose,
      transpose_mul, transpose_transpose]
  have b1 : bil P (A *ᵥ x + BJ *ᵥ v) (A *ᵥ x + BJ *ᵥ v)
      = bil (Aᵀ * (P * A)) x x + 2 * bil (BJᵀ * (P * A)) v x + bil (BJᵀ * (P * BJ)) v v := by
    have s1 : bil P (A *ᵥ x) (BJ *ᵥ v) = bil (BJᵀ * (P * A)) v x := by
      rw [bil_symm hP, bil_mulVec_left, bil_mulVec_right, Matrix.mul_assoc]
    have s2 : bil P (BJ *ᵥ v) (A *ᵥ x) = bil (BJᵀ * (P * A)) v x := by
      rw [bil_mulVec_left, bil_mulVec_right, Matrix.mul_assoc]
    have s3 : bil P (A *ᵥ x) (A *ᵥ x) = bil (Aᵀ * (P * A)) x x := by
      rw [bil_mulVec_left, bil_mulVec_right, Matrix.mul_assoc]
    have s4 : bil P (BJ *ᵥ v) (BJ *ᵥ v) = bil (BJᵀ * (P * BJ)) v v := by
      rw [bil_mulVec_left, bil_mulVec_right, Matrix.mul_assoc]
    rw [bil_add_left, bil_add_right, bil_add_right, s1, s2, s3, s4]; ring
  rw [b1]
  simp only [bil_sub_left, bil_sub_right, a1, a2, a3, bil_add_mat]
  ring

theorem transpose_mulVec_dot (B : Matrix n m α) (lam : n → α) (du : m → α) :
    (Bᵀ *ᵥ lam) ⬝ᵥ du = lam ⬝ᵥ (B *ᵥ du) := by
  rw [dotProduct_comm]
  exact bil_transpose B lam du

theorem terminal_expand (Q : Matrix n n α) (q : n → α) (hQ : Qᵀ = Q) (x dx : n → α) :
    (1 / 2 * bil Q (x + dx) (x + dx) + q ⬝ᵥ (x + dx)) - (1 / 2 * bil Q x x + q ⬝ᵥ x)
      = (Q *ᵥ x + q) ⬝ᵥ dx + 1 / 2 * bil Q dx dx := by
  have h1 : bil Q dx x = bil Q x dx := bil_symm hQ dx x
  have e1 : (Q *ᵥ x) ⬝ᵥ dx = bil Q x dx := by rw [← h1]; simp [bil, dotProduct_comm]
  simp only [bil_add_left, bil_add_right, add_dotProduct, dotProduct_add, e1, h1]
  field_simp
  ring

/-! ### lift to the stage records of the list model -/
section stage
variable (nx nu : Nat) (solveM : Mat α → Mat α → Mat α) (solveV : Mat α → Vec α → Vec α)
  (d : LQRStage α) (P : Mat α) (s : Vec α) (hpart : (d.J ++ d.K).Perm (List.range nu))

include hpart in
/-- a sum against a vector that vanishes on `K` only sees the `J` components -/
theorem sum_fin_masked (f uN : Nat → α) (hzero : ∀ k ∈ d.K, uN k = 0) :
    ∑ k : Fin nu, f k * uN k = ∑ b : Fin d.J.length, f (iget d.J b) * uN (iget d.J b) := by
  rw [← Finset.sum_range (fun k => f k * uN k), sum_partition d.J d.K nu hpart,
    ← Finset.sum_range (fun b => f (iget d.J b) * uN (iget d.J b))]
  have : ∑ k ∈ Finset.range d.K.length, f (iget d.K k) * uN (iget d.K k) = 0 := by
    apply Finset.sum_eq_zero
    intro k hk
    rw [hzero _ (iget_mem (Finset.mem_range.mp hk)), mul_zero]
  rw [this, add_zero]

set_option quotPrecheck false
local notation "nJ" => d.J.length
local notation "rec" => ricRecord nx nu solveM solveV d P s
local notation "BJ" => toM nx nJ (mkM nx nJ fun a j => mget d.B a (iget d.J j))
local notation "RJJ" => toM nJ nJ (mkM nJ nJ fun a b => mget d.R (iget d.J a) (iget d.J b))
local notation "SJ" => toM nJ nx (mkM nJ nx fun a b => mget d.S (iget d.J a) b)

include hpart in
theorem masked_B (uN : Nat → α) (hzero : ∀ k ∈ d.K, uN k = 0) :
    toM nx nu d.B *ᵥ (fun k : Fin nu => uN k) = BJ *ᵥ (fun b : Fin nJ => uN (iget d.J b)) := by
  ext a
  simp only [mulVec, dotProduct, toM_mkM_apply]
  exact sum_fin_masked nu d hpart (fun k => mget d.B a k) uN hzero

include hpart in
theorem masked_S (uN : Nat → α) (hzero : ∀ k ∈ d.K, uN k = 0) (x : Fin nx → α) :
    bil (toM nu nx d.S) (fun k : Fin nu => uN k) x
      = bil SJ (fun b : Fin nJ => uN (iget d.J b)) x := by
  simp only [bil, mulVec, dotProduct, toM_mkM_apply]
  have := sum_fin_masked nu d hpart (fun k => ∑ c : Fin nx, mget d.S k c * x c) uN hzero
  simp only [toM]
  rw [Finset.sum_congr rfl (fun k _ => mul_comm _ _), this]
  exact Finset.sum_congr rfl (fun b _ => mul_comm _ _)

include hpart in
theorem masked_R (uN : Nat → α) (hzero : ∀ k ∈ d.K, uN k = 0) :
    bil (toM nu nu d.R) (fun k : Fin nu => uN k) (fun k : Fin nu => uN k)
      = bil RJJ (fun b : Fin nJ => uN (iget d.J b)) (fun b : Fin nJ => uN (iget d.J b)) := by
  simp only [bil, mulVec, dotProduct, toM_mkM_apply]
  simp only [toM]
  have inner : ∀ k : Nat, ∑ l : Fin nu, mget d.R k l * uN l
      = ∑ b : Fin nJ, mget d.R k (iget d.J b) * uN (iget d.J b) :=
    fun k => sum_fin_masked nu d hpart (fun l => mget d.R k l) uN hzero
  have := sum_fin_masked nu d hpart
    (fun k => ∑ b : Fin nJ, mget d.R k (iget d.J b) * uN (iget d.J b)) uN hzero
  rw [Finset.sum_congr rfl (fun k _ => by rw [inner k, mul_comm]), this]
  exact Finset.sum_congr rfl (fun b _ => mul_comm _ _)

include hpart in
/-- completion of the square for the record of a stage of `factor_masked`, for a direction
    `(x, u)` whose input part vanishes on the fixed components -/
theorem stage_square_model (h : SolveOK nx nu solveM solveV d P s) (hP : SymM nx P)
    (hR : ∀ a < nu, ∀ b < nu, mget d.R a b = mget d.R b a)
    (x : Fin nx → α) (uN : Nat → α) (hzero : ∀ k ∈ d.K, uN k = 0) :
    qpStage (toM nx nx d.Q) (toM nu nu d.R) (toM nu nx d.S) 0 0 x (fun k : Fin nu => uN k)
      + 1 / 2 * bil (toM nx nx P)
          (toM nx nx d.A *ᵥ x + toM nx nu d.B *ᵥ (fun k : Fin nu => uN k))
          (toM nx nx d.A *ᵥ x + toM nx nu d.B *ᵥ (fun k : Fin nu => uN k))
      = 1 / 2 * bil (toM nx nx (ricNextP nx d P (rec))) x x
        + 1 / 2 * bil (toM nJ nJ (rec).Rbar)
            ((fun b : Fin nJ => uN (iget d.J b)) - toM nJ nx (rec).gain *ᵥ x)
            ((fun b : Fin nJ => uN (iget d.J b)) - toM nJ nx (rec).gain *ᵥ x) := by
  have hRJ : (RJJ)ᵀ = RJJ := by
    ext a b
    rw [Matrix.transpose_apply, toM_mkM_apply, toM_mkM_apply]
    exact hR _ (part_lt_J hpart _ (iget_mem b.2)) _ (part_lt_J hpart _ (iget_mem a.2))
  rw [nextP_eq, rec_Rbar, masked_B nx nu d hpart uN hzero]
  unfold qpStage
  rw [masked_S nx nu d hpart uN hzero, masked_R nu d hpart uN hzero]
  have := ric_stage_square (toM nx nx d.A) (toM nx nx P) (toM nx nx d.Q) BJ RJJ SJ
    (toM nJ nx (rec).gain) hP hRJ (rec_hK nx nu solveM solveV d P s h) x
    (fun b : Fin nJ => uN (iget d.J b))
  simp only [zero_dotProduct, add_zero]
  linear_combination this

end stage

/-! ### the masked QP, its feasible set, and optimality of the Riccati step -/
section final
variable (N nx nu : Nat) (solveM : Mat α → Mat α → Mat α) (solveV : Mat α → Vec α → Vec α)
  (data : Nat → LQRStage α) (QN : Mat α) (qN : Vec α)

/-- cost of the masked QP along `(X_t)_{t ≤ N}`, `(U_t)_{t < N}`:
    `Σ_t [½xᵀQ_t x + uᵀS_t x + ½uᵀR_t u + q_tᵀx + r_tᵀu] + ½x_NᵀQ_N x_N + q_Nᵀx_N`. -/
def qpCost (X : Nat → Fin nx → α) (U : Nat → Fin nu → α) : α :=
  ∑ t ∈ Finset.range N,
      qpStage (toM nx nx (data t).Q) (toM nu nu (data t).R) (toM nu nx (data t).S)
        (toV nx (data t).q) (toV nu (data t).r) (X t) (U t)
    + (1 / 2 * bil (toM nx nx QN) (X N) (X N) + toV nx qN ⬝ᵥ X N)

/-- feasible set: `x₀ = 0`, linearised dynamics, fixed components at their prescribed values. -/
structure QPFeasible (X : Nat → Fin nx → α) (U : Nat → Fin nu → α) : Prop where
  x0 : X 0 = 0
  dyn : ∀ t < N, X (t + 1) = toM nx nx (data t).A *ᵥ X t + toM nx nu (data t).B *ᵥ U t
  fixed : ∀ t < N, ∀ k : Fin nu, (k : Nat) ∈ (data t).K → U t k = vget (data t).u k

local notation "XS" => fun t => toV nx (ricDx N nx nu solveM solveV data QN qN t)
local notation "US" => fun t => toV nu (ricDu N nx nu solveM solveV data QN qN t)
local notation "LS" => fun t => toV nx (ricLam N nx nu solveM solveV data QN qN t)

variable (hpart : ∀ i < N, ((data i).J ++ (data i).K).Perm (List.range nu))
  (hQ : ∀ i < N, SymM nx (data i).Q) (hQN : SymM nx QN)
  (hR : ∀ i < N, ∀ a < nu, ∀ b < nu, mget (data i).R a b = mget (data i).R b a)
  (hsolve : ∀ i < N, SolveOK nx nu solveM solveV (data i)
    (ricStg N nx nu solveM solveV data QN qN i).Pn (ricStg N nx nu solveM solveV data QN qN i).sn)

include hpart in
/-- the Riccati step is feasible -/
theorem ric_feasible :
    QPFeasible N nx nu data (XS) (US) := by
  refine ⟨?_, ?_, ?_⟩
  · ext a
    simp only [ric_dx0, toV_mkV_apply, Pi.zero_apply]
  · intro t ht
    simp only [ric_dynamics N nx nu solveM solveV data QN qN t ht, toV_addV, toV_mulMV]
  · intro t ht k hk
    exact ric_fixed N nx nu solveM solveV data QN qN hpart t ht k hk

include hpart hsolve in
theorem kkt_stationary (t : Nat) (ht : t < N) (k : Fin nu) (hk : (k : Nat) ∈ (data t).J) :
    (toM nu nu (data t).R *ᵥ (US) t + toM nu nx (data t).S *ᵥ (XS) t + toV nu (data t).r
      + (toM nx nu (data t).B)ᵀ *ᵥ (LS) (t + 1)) k = 0 := by
  have := ric_stationary N nx nu solveM solveV data QN qN hpart hsolve t ht k hk
  have e : toV nu (addV nu (addV nu (addV nu
      (mulMV nu nu (data t).R (ricDu N nx nu solveM solveV data QN qN t))
      (mulMV nu nx (data t).S (ricDx N nx nu solveM solveV data QN qN t))) (data t).r)
      (mulTV nu nx (data t).B (ricLam N nx nu solveM solveV data QN qN (t + 1)))) k = 0 := this
  simpa [toV_addV, toV_mulMV, toV_mulTV] using e

include hpart hQ hQN hR hsolve in
theorem kkt_costate (t : Nat) (h0 : 0 < t) (ht : t < N) :
    (LS) t = toM nx nx (data t).Q *ᵥ (XS) t + (toM nu nx (data t).S)ᵀ *ᵥ (US) t
      + toV nx (data t).q + (toM nx nx (data t).A)ᵀ *ᵥ (LS) (t + 1) := by
  have := congrArg (toV nx)
    (ric_costate N nx nu solveM solveV data QN qN hpart hQ hQN hR hsolve t h0 ht)
  simpa [toV_addV, toV_mulMV, toV_mulTV] using this

theorem kkt_terminal (hN : N > 0) :
    (LS) N = toM nx nx QN *ᵥ (XS) N + toV nx qN := by
  have := congrArg (toV nx) (ric_terminal N nx nu solveM solveV data QN qN hN)
  simpa [toV_addV, toV_mulMV] using this

section optimal
variable (X' : Nat → Fin nx → α) (U' : Nat → Fin nu → α)
  (hf : QPFeasible N nx nu data X' U')
  (hPSD : ∀ t < N, ∀ w : Fin (data t).J.length → α,
    0 ≤ bil (toM (data t).J.length (data t).J.length
      (ricStg N nx nu solveM solveV data QN qN t).Rbar) w w)

local notation "DX" => fun t => X' t - (XS) t
local notation "DU" => fun t => U' t - (US) t

include hpart hf in
theorem dir_props :
    (DX) 0 = 0 ∧
    (∀ t < N, (DX) (t + 1) = toM nx nx (data t).A *ᵥ (DX) t + toM nx nu (data t).B *ᵥ (DU) t) ∧
    (∀ t < N, ∀ k : Fin nu, (k : Nat) ∈ (data t).K → (DU) t k = 0) := by
  obtain ⟨r0, r1, r2⟩ := ric_feasible N nx nu solveM solveV data QN qN hpart
  refine ⟨?_, ?_, ?_⟩
  · simp only [hf.x0, r0, sub_self]
  · intro t ht
    simp only [hf.dyn t ht, r1 t ht, mulVec_sub]
    abel
  · intro t ht k hk
    simp only [Pi.sub_apply, hf.fixed t ht k hk, r2 t ht k hk, sub_self]

include hpart hsolve hf in
/-- by stationarity in `J` and `δu = 0` on `K`: `⟨Ru + Sx + r, δu⟩ = −⟨Bᵀλ⁺, δu⟩` -/
theorem lin_input (t : Nat) (ht : t < N) :
    (toM nu nu (data t).R *ᵥ (US) t + toM nu nx (data t).S *ᵥ (XS) t + toV nu (data t).r)
        ⬝ᵥ (DU) t
      = -(((toM nx nu (data t).B)ᵀ *ᵥ (LS) (t + 1)) ⬝ᵥ (DU) t) := by
  have hz := (dir_props N nx nu solveM solveV data QN qN hpart X' U' hf).2.2 t ht
  have h0 : (toM nu nu (data t).R *ᵥ (US) t + toM nu nx (data t).S *ᵥ (XS) t + toV nu (data t).r
      + (toM nx nu (data t).B)ᵀ *ᵥ (LS) (t + 1)) ⬝ᵥ (DU) t = 0 := by
    unfold dotProduct
    apply Finset.sum_eq_zero
    intro k _
    have hk : (k : Nat) ∈ (data t).J ++ (data t).K :=
      (hpart t ht).mem_iff.mpr (List.mem_range.mpr k.2)
    rcases List.mem_append.mp hk with hJ | hK
    · rw [kkt_stationary N nx nu solveM solveV data QN qN hpart hsolve t ht k hJ, zero_mul]
    · rw [hz k hK, mul_zero]
  rw [add_dotProduct] at h0
  linear_combination h0

include hpart hQ hQN hR hsolve hf in
/-- the linear part of `cost(z') − cost(z)` telescopes along the costates -/
theorem lin_telescope : ∀ n ≤ N,
    ∑ t ∈ Finset.range n,
      ((toM nx nx (data t).Q *ᵥ (XS) t + (toM nu nx (data t).S)ᵀ *ᵥ (US) t + toV nx (data t).q)
          ⬝ᵥ (DX) t
        + (toM nu nu (data t).R *ᵥ (US) t + toM nu nx (data t).S *ᵥ (XS) t + toV nu (data t).r)
          ⬝ᵥ (DU) t)
      = -((LS) n ⬝ᵥ (DX) n) := by
  obtain ⟨d0, d1, _⟩ := dir_props N nx nu solveM solveV data QN qN hpart X' U' hf
  intro n
  induction n with
  | zero => intro _; simp only [Finset.range_zero, Finset.sum_empty, d0, dotProduct_zero, neg_zero]
  | succ n ih =>
    intro hn
    have hnN : n < N := by omega
    rw [Finset.sum_range_succ, ih (by omega),
      lin_input N nx nu solveM solveV data QN qN hpart hsolve X' U' hf n hnN,
      transpose_mulVec_dot, d1 n hnN]
    by_cases h0 : n = 0
    · subst h0
      simp only [d0, dotProduct_zero, mulVec_zero, zero_add, neg_zero]
    · rw [kkt_costate N nx nu solveM solveV data QN qN hpart hQ hQN hR hsolve n (by omega) hnN]
      simp only [add_dotProduct, dotProduct_add, transpose_mulVec_dot]
      ring

/-- deviation of a feasible direction from the Riccati feedback at stage `t`:
    `w_t = δu_t[J] − K_t δx_t` -/
def ricW (t : Nat) : Fin (data t).J.length → α :=
  (fun b : Fin (data t).J.length =>
      (fun k => if h : k < nu then (DU) t ⟨k, h⟩ else 0) (iget (data t).J b))
    - toM (data t).J.length nx (ricStg N nx nu solveM solveV data QN qN t).gain *ᵥ (DX) t

include hpart hQ hQN hR hsolve hf in
/-- completion of squares along the horizon:
    `Σ_{t≤n} ℓ⁰_t(δx_t, δu_t) + ½‖δx_{n+1}‖²_{P_{n+1}} = Σ_{t≤n} ½ w_tᵀ R̄_t w_t` -/
theorem quad_exact : ∀ n, n < N →
    ∑ t ∈ Finset.range (n + 1),
          qpStage (toM nx nx (data t).Q) (toM nu nu (data t).R) (toM nu nx (data t).S) 0 0
            ((DX) t) ((DU) t)
        + 1 / 2 * bil (toM nx nx (ricStg N nx nu solveM solveV data QN qN n).Pn)
            ((DX) (n + 1)) ((DX) (n + 1))
      = ∑ t ∈ Finset.range (n + 1),
          1 / 2 * bil (toM (data t).J.length (data t).J.length
              (ricStg N nx nu solveM solveV data QN qN t).Rbar)
            (ricW N nx nu solveM solveV data QN qN X' U' t)
            (ricW N nx nu solveM solveV data QN qN X' U' t) := by
  obtain ⟨d0, d1, d2⟩ := dir_props N nx nu solveM solveV data QN qN hpart X' U' hf
  -- the stage identity, stated with the records `ricStg t`
  have stage : ∀ t, t < N →
      qpStage (toM nx nx (data t).Q) (toM nu nu (data t).R) (toM nu nx (data t).S) 0 0
          ((DX) t) ((DU) t)
        + 1 / 2 * bil (toM nx nx (ricStg N nx nu solveM solveV data QN qN t).Pn)
            ((DX) (t + 1)) ((DX) (t + 1))
      = 1 / 2 * bil (toM nx nx (ricNextP nx (data t)
            (ricStg N nx nu solveM solveV data QN qN t).Pn
            (ricStg N nx nu solveM solveV data QN qN t))) ((DX) t) ((DX) t)
        + 1 / 2 * bil (toM (data t).J.length (data t).J.length
              (ricStg N nx nu solveM solveV data QN qN t).Rbar)
            (ricW N nx nu solveM solveV data QN qN X' U' t)
            (ricW N nx nu solveM solveV data QN qN X' U' t) := by
    intro t ht
    have hs := hsolve t ht
    have hsym := ric_symm N nx nu solveM solveV data QN qN hpart hQ hQN hR hsolve (N - 1 - t) t
      (by omega)
    unfold ricW
    obtain ⟨Pi, si, hPi, hsi, hrec⟩ : ∃ Pi si,
        (ricStg N nx nu solveM solveV data QN qN t).Pn = Pi ∧
        (ricStg N nx nu solveM solveV data QN qN t).sn = si ∧
        ricStg N nx nu solveM solveV data QN qN t = ricRecord nx nu solveM solveV (data t) Pi si :=
      ⟨_, _, rfl, rfl, ric_records N nx nu solveM solveV data QN qN t ht⟩
    rw [hPi] at hs hsym ⊢
    rw [hsi] at hs
    rw [hrec]
    have key := stage_square_model nx nu solveM solveV (data t) Pi si (hpart t ht) hs hsym
      (hR t ht) ((DX) t) (fun k => if h : k < nu then (DU) t ⟨k, h⟩ else 0)
      (by
        intro k hk
        have hlt := part_lt_K (hpart t ht) k hk
        simp only [hlt, dif_pos]
        exact d2 t ht ⟨k, hlt⟩ hk)
    have hu : (fun k : Fin nu => if h : (k : Nat) < nu then (DU) t ⟨k, h⟩ else 0) = (DU) t := by
      ext k; simp [k.2]
    rw [hu] at key
    rw [d1 t ht]
    exact key
  intro n
  induction n with
  | zero =>
    intro hN
    rw [Finset.sum_range_one, Finset.sum_range_one, stage 0 hN]
    have hz : bil (toM nx nx (ricNextP nx (data 0) (ricStg N nx nu solveM solveV data QN qN 0).Pn
        (ricStg N nx nu solveM solveV data QN qN 0))) ((DX) 0) ((DX) 0) = 0 := by
      simp only [d0, bil, zero_dotProduct]
    rw [hz]; ring
  | succ n ih =>
    intro hN
    have hn := ih (by omega)
    have hch := (ric_chain N nx nu solveM solveV data QN qN n hN).1
    rw [Finset.sum_range_succ, Finset.sum_range_succ _ (n + 1), add_assoc, stage (n + 1) hN,
      ← hch, ← hn]
    ring

include hpart hQ hQN hR hsolve hf in
/-- **the cost gap is a sum of squares**:
    `cost(z') − cost(z_Riccati) = Σ_t ½ w_tᵀ R̄_t w_t` for every feasible `z'`. -/
theorem ric_cost_gap :
    qpCost N nx nu data QN qN X' U' - qpCost N nx nu data QN qN (XS) (US)
      = ∑ t ∈ Finset.range N,
          1 / 2 * bil (toM (data t).J.length (data t).J.length
              (ricStg N nx nu solveM solveV data QN qN t).Rbar)
            (ricW N nx nu solveM solveV data QN qN X' U' t)
            (ricW N nx nu solveM solveV data QN qN X' U' t) := by
  obtain ⟨d0, _, _⟩ := dir_props N nx nu solveM solveV data QN qN hpart X' U' hf
  have hQs : ∀ t < N, (toM nx nx (data t).Q)ᵀ = toM nx nx (data t).Q := fun t ht => hQ t ht
  have hRs : ∀ t < N, (toM nu nu (data t).R)ᵀ = toM nu nu (data t).R := by
    intro t ht; ext a b
    rw [Matrix.transpose_apply]; exact hR t ht _ b.2 _ a.2
  -- split the difference into its linear and quadratic parts
  have hX : ∀ t, X' t = (XS) t + (DX) t := fun t => by simp
  have hU : ∀ t, U' t = (US) t + (DU) t := fun t => by simp
  have hdiff : qpCost N nx nu data QN qN X' U' - qpCost N nx nu data QN qN (XS) (US)
      = ∑ t ∈ Finset.range N,
          ((toM nx nx (data t).Q *ᵥ (XS) t + (toM nu nx (data t).S)ᵀ *ᵥ (US) t + toV nx (data t).q)
              ⬝ᵥ (DX) t
            + (toM nu nu (data t).R *ᵥ (US) t + toM nu nx (data t).S *ᵥ (XS) t + toV nu (data t).r)
              ⬝ᵥ (DU) t)
        + (toM nx nx QN *ᵥ (XS) N + toV nx qN) ⬝ᵥ (DX) N
        + (∑ t ∈ Finset.range N,
            qpStage (toM nx nx (data t).Q) (toM nu nu (data t).R) (toM nu nx (data t).S) 0 0
              ((DX) t) ((DU) t)
          + 1 / 2 * bil (toM nx nx QN) ((DX) N) ((DX) N)) := by
    unfold qpCost
    have hsum : ∑ t ∈ Finset.range N,
          qpStage (toM nx nx (data t).Q) (toM nu nu (data t).R) (toM nu nx (data t).S)
            (toV nx (data t).q) (toV nu (data t).r) (X' t) (U' t)
        - ∑ t ∈ Finset.range N,
          qpStage (toM nx nx (data t).Q) (toM nu nu (data t).R) (toM nu nx (data t).S)
            (toV nx (data t).q) (toV nu (data t).r) ((XS) t) ((US) t)
        = ∑ t ∈ Finset.range N,
          (((toM nx nx (data t).Q *ᵥ (XS) t + (toM nu nx (data t).S)ᵀ *ᵥ (US) t
                + toV nx (data t).q) ⬝ᵥ (DX) t
            + (toM nu nu (data t).R *ᵥ (US) t + toM nu nx (data t).S *ᵥ (XS) t
                + toV nu (data t).r) ⬝ᵥ (DU) t)
            + qpStage (toM nx nx (data t).Q) (toM nu nu (data t).R) (toM nu nx (data t).S) 0 0
                ((DX) t) ((DU) t)) := by
      rw [← Finset.sum_sub_distrib]
      apply Finset.sum_congr rfl
      intro t ht
      have htN := Finset.mem_range.mp ht
      rw [hX t, hU t]
      exact qpStage_expand _ _ _ _ _ (hQs t htN) (hRs t htN) _ _ _ _
    have hterm := terminal_expand (toM nx nx QN) (toV nx qN) hQN ((XS) N) ((DX) N)
    rw [← hX N] at hterm
    rw [Finset.sum_add_distrib] at hsum
    linear_combination hsum + hterm
  have hlin := lin_telescope N nx nu solveM solveV data QN qN hpart hQ hQN hR hsolve X' U' hf N
    (Nat.le_refl N)
  by_cases hN : N = 0
  · have hDN : (DX) N = 0 := by
      have e : (DX) N = (DX) 0 := by simp only [hN]
      rw [e]; exact d0
    have hr : Finset.range N = ∅ := by simp only [hN, Finset.range_zero]
    rw [hdiff, hr]
    simp only [Finset.sum_empty, hDN, dotProduct_zero, bil, zero_dotProduct, mul_zero, add_zero]
  · have hNpos : N > 0 := Nat.pos_of_ne_zero hN
    have hq := quad_exact N nx nu solveM solveV data QN qN hpart hQ hQN hR hsolve X' U' hf
      (N - 1) (by omega)
    rw [show N - 1 + 1 = N by omega] at hq
    have htop := (ric_top N nx nu solveM solveV data QN qN hNpos).1
    have hPN : toM nx nx (ricStg N nx nu solveM solveV data QN qN (N - 1)).Pn = toM nx nx QN := by
      rw [htop]; ext a b
      rw [toM_addM, Matrix.add_apply, toM_mkM_apply, zero_add]
    rw [hPN] at hq
    have hterm := kkt_terminal N nx nu solveM solveV data QN qN hNpos
    have hl : ∑ t ∈ Finset.range N,
          ((toM nx nx (data t).Q *ᵥ (XS) t + (toM nu nx (data t).S)ᵀ *ᵥ (US) t + toV nx (data t).q)
              ⬝ᵥ (DX) t
            + (toM nu nu (data t).R *ᵥ (US) t + toM nu nx (data t).S *ᵥ (XS) t + toV nu (data t).r)
              ⬝ᵥ (DU) t)
        + (toM nx nx QN *ᵥ (XS) N + toV nx qN) ⬝ᵥ (DX) N = 0 := by
      rw [hlin, ← hterm]; ring
    rw [hdiff, hl, zero_add, hq]

include hpart hQ hQN hR hsolve hf hPSD in
/-- **optimality**: with positive-semidefinite reduced input Hessians no feasible point of the
    masked QP is cheaper than the Riccati step -/
theorem ric_optimal :
    qpCost N nx nu data QN qN (XS) (US) ≤ qpCost N nx nu data QN qN X' U' := by
  have hgap := ric_cost_gap N nx nu solveM solveV data QN qN hpart hQ hQN hR hsolve X' U' hf
  have hnn : 0 ≤ ∑ t ∈ Finset.range N,
      1 / 2 * bil (toM (data t).J.length (data t).J.length
          (ricStg N nx nu solveM solveV data QN qN t).Rbar)
        (ricW N nx nu solveM solveV data QN qN X' U' t)
        (ricW N nx nu solveM solveV data QN qN X' U' t) := by
    apply Finset.sum_nonneg
    intro t ht
    have := hPSD t (Finset.mem_range.mp ht) (ricW N nx nu solveM solveV data QN qN X' U' t)
    linarith
  linarith

include hpart hQ hQN hR hsolve hf in
/-- **uniqueness**: with positive-definite reduced input Hessians a feasible point with the same
    cost is the Riccati step itself -/
theorem ric_unique
    (hPD : ∀ t < N, ∀ w : Fin (data t).J.length → α, w ≠ 0 →
      0 < bil (toM (data t).J.length (data t).J.length
        (ricStg N nx nu solveM solveV data QN qN t).Rbar) w w)
    (heq : qpCost N nx nu data QN qN X' U' = qpCost N nx nu data QN qN (XS) (US)) :
    (∀ t ≤ N, X' t = (XS) t) ∧ (∀ t < N, U' t = (US) t) := by
  obtain ⟨d0, d1, d2⟩ := dir_props N nx nu solveM solveV data QN qN hpart X' U' hf
  have hgap := ric_cost_gap N nx nu solveM solveV data QN qN hpart hQ hQN hR hsolve X' U' hf
  rw [heq, sub_self] at hgap
  have hnn : ∀ t ∈ Finset.range N, 0 ≤ 1 / 2 * bil (toM (data t).J.length (data t).J.length
        (ricStg N nx nu solveM solveV data QN qN t).Rbar)
      (ricW N nx nu solveM solveV data QN qN X' U' t)
      (ricW N nx nu solveM solveV data QN qN X' U' t) := by
    intro t ht
    by_cases hw : ricW N nx nu solveM solveV data QN qN X' U' t = 0
    · rw [hw]; simp [bil]
    · have := hPD t (Finset.mem_range.mp ht) _ hw
      linarith
  have hzero := (Finset.sum_eq_zero_iff_of_nonneg hnn).mp hgap.symm
  have hw0 : ∀ t < N, ricW N nx nu solveM solveV data QN qN X' U' t = 0 := by
    intro t ht
    by_contra hw
    have h1 := hPD t ht _ hw
    have h2 := hzero t (Finset.mem_range.mpr ht)
    linarith
  have hind : ∀ t ≤ N, (DX) t = 0 ∧ ∀ s < t, (DU) s = 0 := by
    intro t
    induction t with
    | zero => intro _; exact ⟨d0, fun s hs => absurd hs (Nat.not_lt_zero s)⟩
    | succ t ih =>
      intro ht
      have htN : t < N := by omega
      obtain ⟨hx, hu⟩ := ih (by omega)
      have hwt := hw0 t htN
      have hdu : (DU) t = 0 := by
        ext k
        have hk : (k : Nat) ∈ (data t).J ++ (data t).K :=
          (hpart t htN).mem_iff.mpr (List.mem_range.mpr k.2)
        rcases List.mem_append.mp hk with hJ | hK
        · obtain ⟨b, hb, hbk⟩ := List.getElem_of_mem hJ
          have hjb : iget (data t).J b = k := by
            simp [iget, List.getD_eq_getElem?_getD, List.getElem?_eq_getElem hb, hbk]
          have := congrFun hwt ⟨b, hb⟩
          simp only [ricW, Pi.sub_apply, hx, mulVec_zero, Pi.zero_apply, sub_zero, hjb, k.2,
            dif_pos] at this
          exact this
        · exact d2 t htN k hK
      refine ⟨?_, ?_⟩
      · rw [d1 t htN, hx, hdu, mulVec_zero, mulVec_zero, add_zero]
      · intro s hs
        by_cases hst : s < t
        · exact hu s hst
        · have : s = t := by omega
          subst this; exact hdu
  refine ⟨fun t ht => ?_, fun t ht => ?_⟩
  · have := (hind t ht).1
    exact sub_eq_zero.mp this
  · have := (hind (t + 1) (by omega)).2 t (by omega)
    exact sub_eq_zero.mp this

end optimal

end final

end Alpaqa.C12
