/-
  PANOC-OCP loop model: sizes.  Under the size contract of the oracles (`SizeContract`: the backward sweep
  returns a gradient of `N·nu` entries for `N·nu` inputs, the Gauss-Newton block and the masked L-BFGS return a
  step of `N·nu` entries, the input box has `nu` bounds per stage) and an initial guess of `N·nu` entries,
  every iterate that is current at a loop head — hence every iterate handed to the progress callback and the
  final one — has `u`, `∇ψ`, `p`, `û` of exactly `N·nu` entries: no `zipWith` of the list model ever truncates
  (the C++ asserts / relies on these sizes).  Used to state the 2-norm criteria as `√(Σᵢ rᵢ²)`
  (`stageSumSq_eq_sumSq`) and the descent chain on full-length vectors.
-/
import Alpaqa.Proofs.OcpDescent

namespace Alpaqa.Ocp
open Alpaqa Alpaqa.Gen Alpaqa.Props
set_option linter.unusedSectionVars false
set_option linter.unusedVariables false

variable {α D : Type} [Field α] [LinearOrder α] [IsStrictOrderedRing α] [RealLike α]

/-- What the C++ asserts about sizes, as a contract on the oracles. -/
structure SizeContract (O : Oracles α) (dir : Dir D α) (P : Prob α) : Prop where
  ulb : P.Ulb.length = P.nu
  uub : P.Uub.length = P.nu
  bwd : ∀ u traj, u.length = P.N * P.nu → (O.bwd u traj).length = P.N * P.nu
  lqr : ∀ d traj mask qf, qf.length = P.N * P.nu → (dir.lqr d traj mask qf).2.1.length = P.N * P.nu
  apm : ∀ d q γ J, q.length = P.N * P.nu → (dir.applyMasked d q γ J).2.2.length = P.N * P.nu

theorem tile_length {β : Type} (N : Nat) (v : List β) : ((List.replicate N v).flatten).length = N * v.length := by
  induction N with
  | zero => simp
  | succ n ih => rw [List.replicate_succ, List.flatten_cons, List.length_append, ih, Nat.succ_mul]; omega

theorem projStepV_length (γ : α) (u g lb ub : Vec α) (n : Nat) (h1 : u.length = n) (h2 : g.length = n)
    (h3 : lb.length = n) (h4 : ub.length = n) : (projStepV γ u g lb ub).length = n := by
  induction u generalizing g lb ub n with
  | nil => simp at h1; subst h1; simp [projStepV]
  | cons x xs ih =>
    cases g with
    | nil => simp at h2; subst h2; simp at h1
    | cons gi gs =>
      cases lb with
      | nil => simp at h3; subst h3; simp at h1
      | cons l ls =>
        cases ub with
        | nil => simp at h4; subst h4; simp at h1
        | cons h hs =>
          simp only [projStepV, List.length_cons] at *
          cases n with
          | zero => omega
          | succ m => rw [ih gs ls hs m (by omega) (by omega) (by omega) (by omega)]

theorem gnActiveV_length (γ : α) (u g lb ub : Vec α) (n : Nat) (h1 : u.length = n) (h2 : g.length = n)
    (h3 : lb.length = n) (h4 : ub.length = n) : (gnActiveV γ u g lb ub).length = n := by
  induction u generalizing g lb ub n with
  | nil => simp at h1; subst h1; simp [gnActiveV]
  | cons x xs ih =>
    cases g with
    | nil => simp at h2; subst h2; simp at h1
    | cons gi gs =>
      cases lb with
      | nil => simp at h3; subst h3; simp at h1
      | cons l ls =>
        cases ub with
        | nil => simp at h4; subst h4; simp at h1
        | cons h hs =>
          simp only [gnActiveV, List.length_cons] at *
          cases n with
          | zero => omega
          | succ m => rw [ih gs ls hs m (by omega) (by omega) (by omega) (by omega)]

theorem lbfgsActiveV_length (γ : α) (u g p lb ub : Vec α) (n : Nat) (h1 : u.length = n) (h2 : g.length = n)
    (h5 : p.length = n) (h3 : lb.length = n) (h4 : ub.length = n) :
    (lbfgsActiveV γ u g p lb ub).length = n := by
  induction u generalizing g p lb ub n with
  | nil => simp at h1; subst h1; simp [lbfgsActiveV]
  | cons x xs ih =>
    cases g with
    | nil => simp at h2; subst h2; simp at h1
    | cons gi gs =>
      cases p with
      | nil => simp at h5; subst h5; simp at h1
      | cons pi ps =>
        cases lb with
        | nil => simp at h3; subst h3; simp at h1
        | cons l ls =>
          cases ub with
          | nil => simp at h4; subst h4; simp at h1
          | cons h hs =>
            simp only [lbfgsActiveV, List.length_cons] at *
            cases n with
            | zero => omega
            | succ m => rw [ih gs ps ls hs m (by omega) (by omega) (by omega) (by omega) (by omega)]

theorem vadd_length (a b : Vec α) (n : Nat) (h1 : a.length = n) (h2 : b.length = n) : (vadd a b).length = n := by
  simp [vadd, vzip, h1, h2]

theorem smul_length (c : α) (a : Vec α) : (smul c a).length = a.length := by simp [smul]

/-- all vectors of a consistent iterate have `N·nu` entries once `u` has -/
structure ItSized (P : Prob α) (i : Iterate α) : Prop where
  u : i.u.length = P.N * P.nu
  g : i.gradPsi.length = P.N * P.nu
  p : i.p.length = P.N * P.nu
  uhat : i.uhat.length = P.N * P.nu

theorem itSized_of_good (O : Oracles α) (dir : Dir D α) (P : Prob α) (hc : SizeContract O dir P)
    (i : Iterate α) (hg : Good O P i) (hu : i.u.length = P.N * P.nu) : ItSized P i := by
  have h1 : i.gradPsi.length = P.N * P.nu := by rw [hg.1.2.2]; exact hc.bwd _ _ hu
  have hl : (tile P.N P.Ulb).length = P.N * P.nu := by unfold tile; rw [tile_length, hc.ulb]
  have hh : (tile P.N P.Uub).length = P.N * P.nu := by unfold tile; rw [tile_length, hc.uub]
  have hp : i.p = projStepV i.gamma i.u i.gradPsi (tile P.N P.Ulb) (tile P.N P.Uub) :=
    congrArg (fun t => t.2.1) hg.2.1
  have hp' : i.p.length = P.N * P.nu := by rw [hp]; exact projStepV_length _ _ _ _ _ _ hu h1 hl hh
  have hx : i.uhat = vadd i.u (projStepV i.gamma i.u i.gradPsi (tile P.N P.Ulb) (tile P.N P.Uub)) :=
    congrArg Prod.fst hg.2.1
  exact ⟨hu, h1, hp', by rw [hx, ← hp]; exact vadd_length _ _ _ hu hp'⟩

/-! ### The direction and the line search -/

theorem directionStage_q_sized (O : Oracles α) (dir : Dir D α) (P : Prob α) (pr : Params α)
    (hc : SizeContract O dir P) (s : St α D) (hs : ItSized P s.curr)
    (hex : (directionStage dir P pr s).exc = .none)
    (hne : (directionStage dir P pr s).tauInit ≠ 0) :
    (directionStage dir P pr s).q.length = P.N * P.nu := by
  have hl : (tile P.N P.Ulb).length = P.N * P.nu := by unfold tile; rw [tile_length, hc.ulb]
  have hh : (tile P.N P.Uub).length = P.N * P.nu := by unfold tile; rw [tile_length, hc.uub]
  unfold directionStage directionRaw at hne hex ⊢
  simp only [] at hne hex ⊢
  split_ifs at hne hex ⊢ <;> (try simp only [] at hne hex) <;> (try exact absurd rfl hne)
  all_goals first
    | (exact absurd hex (by decide))
    | (apply hc.lqr; rw [List.length_map]; exact gnActiveV_length _ _ _ _ _ _ hs.u hs.g hl hh)
    | (apply hc.apm; rw [List.length_map]; exact lbfgsActiveV_length _ _ _ _ _ _ _ hs.u hs.g hs.p hl hh)
    | (simp at hne)

/-- line-search invariant: nothing computed yet (sentinel), or the candidate's inputs are sized; and with
    `τ_init = 0` the step is never an accelerated one -/
def LSz (P : Prob α) (tauInit : α) (s : LS α D) : Prop :=
  ((s.tauPrev = -1 ∧ (s.tau = 0 ∨ s.tau = 1)) ∨ s.next.u.length = P.N * P.nu) ∧ (tauInit = 0 → s.tau = 0)

theorem lsRecompute_sized (O : Oracles α) (P : Prob α) (c : Iterate α) (q : Vec α) (tauInit : α)
    (dn : Bool) (s : LS α D) (hc : ItSized P c) (hq : tauInit ≠ 0 → q.length = P.N * P.nu)
    (h : LSz P tauInit s) :
    (lsRecompute O P c q dn s).next.u.length = P.N * P.nu ∧ (lsRecompute O P c q dn s).tau = s.tau := by
  unfold lsRecompute
  by_cases h1 : (s.tau != s.tauPrev) = true
  · rw [if_pos h1]
    by_cases h2 : (s.tau != 0) = true
    · rw [if_pos h2]
      have hne : s.tau ≠ 0 := by simpa using h2
      have hql := hq (fun h0 => hne (h.2 h0))
      refine ⟨?_, rfl⟩
      show (takeAcceleratedStep O c s.next q s.tau).u.length = _
      unfold takeAcceleratedStep evalBackward evalForward
      simp only []
      split_ifs
      · exact vadd_length _ _ _ hc.u hql
      · exact vadd_length _ _ _ (vadd_length _ _ _ hc.u (by rw [smul_length]; exact hc.p))
          (by rw [smul_length]; exact hql)
    · rw [if_neg h2]
      exact ⟨hc.uhat, rfl⟩
  · rw [if_neg h1]
    have he : s.tau = s.tauPrev := by simpa using h1
    refine ⟨?_, rfl⟩
    rcases h.1 with ⟨hp, h0 | h1'⟩ | hs
    · exfalso; rw [hp, h0] at he; norm_num at he
    · exfalso; rw [hp, h1'] at he; norm_num at he
    · exact hs

theorem lsPass_sized (O : Oracles α) (dir : Dir D α) (P : Prob α) (pr : Params α) (c : Iterate α)
    (q : Vec α) (tauInit : α) (dn : Bool) (s : LS α D) (hc : ItSized P c)
    (hq : tauInit ≠ 0 → q.length = P.N * P.nu) (h : LSz P tauInit s) :
    match lsPass O dir P pr c q tauInit dn s with
    | .done s' => s'.next.u.length = P.N * P.nu
    | .again s' => LSz P tauInit s' := by
  obtain ⟨hu, ht⟩ := lsRecompute_sized O P c q tauInit dn s hc hq h
  have h0 := h.2
  unfold lsPass
  simp only []
  by_cases c1 : (decide ((lsRecompute O P c q dn s).tau > (0 : α)) &&
      (decide ((lsRecompute O P c q dn s).next.L ≥ pr.Lmax) ||
        !RealLike.isFinite (lsRecompute O P c q dn s).next.psiu)) = true
  · rw [if_pos c1]
    exact ⟨Or.inr hu, fun _ => rfl⟩
  · rw [if_neg c1]
    by_cases c2 : (decide ((evalStep O P (lsRecompute O P c q dn s).next).L < pr.Lmax) &&
        qubViolated pr (evalStep O P (lsRecompute O P c q dn s).next)) = true
    · rw [if_pos c2]
      refine ⟨Or.inr hu, fun hz => ?_⟩
      show (if (lsRecompute O P c q dn s).tau > 0 then tauInit else (lsRecompute O P c q dn s).tau) = 0
      split_ifs
      · exact hz
      · rw [ht]; exact h0 hz
    · rw [if_neg c2]
      by_cases c3 : (decide ((lsRecompute O P c q dn s).tau > (0 : α)) &&
          linesearchViolated pr c (evalStep O P (lsRecompute O P c q dn s).next)) = true
      · rw [if_pos c3]
        refine ⟨Or.inr hu, fun hz => ?_⟩
        exfalso
        have hpos : (lsRecompute O P c q dn s).tau > 0 := by
          have := (Bool.and_eq_true _ _).mp c3; exact of_decide_eq_true this.1
        rw [ht, h0 hz] at hpos
        exact lt_irrefl _ hpos
      · rw [if_neg c3]
        exact hu

theorem lineSearch_sized (O : Oracles α) (dir : Dir D α) (P : Prob α) (pr : Params α)
    (stop : Nat → Bool) (c : Iterate α) (q : Vec α) (tauInit : α) (dn : Bool) (hc : ItSized P c)
    (hq : tauInit ≠ 0 → q.length = P.N * P.nu) (fuel : Nat) (s : LS α D) (h : LSz P tauInit s) :
    (lineSearch O dir P pr stop c q tauInit dn fuel s).fuelOut = false →
      stop (lineSearch O dir P pr stop c q tauInit dn fuel s).tick = false →
      (lineSearch O dir P pr stop c q tauInit dn fuel s).next.u.length = P.N * P.nu := by
  induction fuel generalizing s with
  | zero => simp [lineSearch]
  | succ f ih =>
    unfold lineSearch
    by_cases hst : stop s.tick
    · simp only [hst, if_true]
      exact fun _ h2 => absurd h2 (by simp [hst])
    · simp only [hst, Bool.false_eq_true, if_false]
      have hp := lsPass_sized O dir P pr c q tauInit dn s hc hq h
      cases hpass : lsPass O dir P pr c q tauInit dn s with
      | done s' => rw [hpass] at hp; exact fun _ _ => hp
      | again s' => rw [hpass] at hp; exact ih s' hp

/-- One pass of the loop body keeps the current iterate's inputs sized. -/
theorem iterBody_sized (O : Oracles α) (dir : Dir D α) (P : Prob α) (pr : Params α) (stop : Nat → Bool)
    (hc : SizeContract O dir P) (s : St α D) (eps : α) (hg : Good O P s.curr)
    (hu : s.curr.u.length = P.N * P.nu) (hf : (iterLs O dir P pr stop s).fuelOut = false) :
    (iterBody O dir P pr stop s eps).1.curr.u.length = P.N * P.nu := by
  by_cases hna : (directionStage dir P pr s).exc ≠ .none ∨ stop (iterLs O dir P pr stop s).tick = true
  · rw [(iterBody_not_accepted O dir P pr stop s eps hna).1]; exact hu
  · have hex : (directionStage dir P pr s).exc = .none := by
      by_contra hcx; exact hna (Or.inl hcx)
    have hst : stop (iterLs O dir P pr stop s).tick = false := by
      cases hh : stop (iterLs O dir P pr stop s).tick
      · rfl
      · exact absurd (Or.inr hh) hna
    have hsz := itSized_of_good O dir P hc s.curr hg hu
    have hsc := (iterBody_accepted O dir P pr stop s eps hex hst).1
    rw [hsc.fields.1]
    have hti := directionStage_tauInit dir P pr s
    unfold iterLs at hf hst ⊢
    exact lineSearch_sized O dir P pr stop s.curr _ _ _ hsz
      (directionStage_q_sized O dir P pr hc s hsz hex) pr.lsFuel _
      ⟨Or.inl ⟨rfl, hti⟩, fun h => h⟩ hf hst

/-! ### The main loop -/

/-- loop-head invariant: the current iterate is consistent and sized, and so was every reported one -/
def SzInv (O : Oracles α) (P : Prob α) (s : St α D) : Prop :=
  Good O P s.curr ∧ s.curr.u.length = P.N * P.nu ∧ ∀ cb ∈ s.cbs, Good O P cb.it ∧ cb.it.u.length = P.N * P.nu

theorem mainLoop_sized (O : Oracles α) (dir : Dir D α) (P : Prob α) (pr : Params α) (stop : Nat → Bool)
    (oot : Bool) (u0 y mu errz0 : Vec α) (hc : SizeContract O dir P) (nL nτ : Nat) (hp : FuelOK pr nL nτ)
    (fuel : Nat) (s : St α D) (h : SzInv O P s) (hL : LBound pr nL s.curr.L) :
    ∀ cb ∈ (mainLoop O dir P pr stop oot u0 y mu errz0 fuel s).callbacks,
      Good O P cb.it ∧ cb.it.u.length = P.N * P.nu := by
  induction fuel generalizing s with
  | zero =>
    intro cb hcb
    simp only [mainLoop, excResult, List.mem_reverse] at hcb
    exact h.2.2 cb hcb
  | succ f ih =>
    unfold mainLoop
    have hcur := headStep_curr P pr stop oot s
    have hcbs := headStep_cbs P pr stop oot s
    have hh : SzInv O P (headStep P pr stop oot s).1 := by
      unfold SzInv; rw [hcur.1, hcbs]; exact h
    cases hes : (headStep P pr stop oot s).2 with
    | none =>
      intro cb hcb
      simp only [excResult, List.mem_reverse] at hcb
      exact hh.2.2 cb hcb
    | some es =>
      simp only []
      have hLh : LBound pr nL (headStep P pr stop oot s).1.curr.L := by rw [hcur.1]; exact hL
      have hls := iterLs_fuel O dir P pr stop nL nτ hp (headStep P pr stop oot s).1 hLh
      have hgood' : Good O P (iterBody O dir P pr stop (headStep P pr stop oot s).1 es.1).1.curr := by
        by_cases hna : (directionStage dir P pr (headStep P pr stop oot s).1).exc ≠ .none ∨
            stop (iterLs O dir P pr stop (headStep P pr stop oot s).1).tick = true
        · rw [(iterBody_not_accepted O dir P pr stop _ es.1 hna).1]; exact hh.1
        · have hex : (directionStage dir P pr (headStep P pr stop oot s).1).exc = .none := by
            by_contra hcx; exact hna (Or.inl hcx)
          have hst : stop (iterLs O dir P pr stop (headStep P pr stop oot s).1).tick = false := by
            cases hq : stop (iterLs O dir P pr stop (headStep P pr stop oot s).1).tick
            · rfl
            · exact absurd (Or.inr hq) hna
          have hsc := (iterBody_accepted O dir P pr stop _ es.1 hex hst).1
          have hF := hsc.fields
          obtain ⟨⟨a1, a2, a3⟩, a4, a5, a6⟩ :=
            (iterLs_facts O dir P pr stop (headStep P pr stop oot s).1 hh.1 hls.1 hst).1
          refine ⟨⟨?_, ?_, ?_⟩, ?_, ?_, ?_⟩
          · rw [hF.2.1, hF.1]; exact a1
          · rw [hF.2.2.2.2.2.2.1, hF.1]; exact a2
          · rw [hF.2.2.2.2.1, hF.1, hF.2.1]; exact a3
          · unfold ProxCons at a4 ⊢
            rw [hF.2.2.1, hF.2.2.2.2.2.1, hF.2.2.2.2.2.2.2.2.2.2.1, hF.2.2.2.2.2.2.2.2.2.2.2,
              hF.2.2.2.2.2.2.2.2.1, hF.1, hF.2.2.2.2.1]
            exact a4
          · rw [hF.2.2.2.1, hF.2.2.1]; exact a5
          · rw [hF.2.2.2.2.2.2.2.1, hF.2.2.1]; exact a6
      have hinv : SzInv O P (iterBody O dir P pr stop (headStep P pr stop oot s).1 es.1).1 := by
        refine ⟨hgood', iterBody_sized O dir P pr stop hc _ es.1 hh.1 hh.2.1 hls.1, ?_⟩
        by_cases hna : (directionStage dir P pr (headStep P pr stop oot s).1).exc ≠ .none ∨
            stop (iterLs O dir P pr stop (headStep P pr stop oot s).1).tick = true
        · rw [(iterBody_not_accepted O dir P pr stop _ es.1 hna).2.2]; exact hh.2.2
        · have hex : (directionStage dir P pr (headStep P pr stop oot s).1).exc = .none := by
            by_contra hcx; exact hna (Or.inl hcx)
          have hst : stop (iterLs O dir P pr stop (headStep P pr stop oot s).1).tick = false := by
            cases hq : stop (iterLs O dir P pr stop (headStep P pr stop oot s).1).tick
            · rfl
            · exact absurd (Or.inr hq) hna
          obtain ⟨_, _, cb, hcb, hit, _⟩ := iterBody_accepted O dir P pr stop _ es.1 hex hst
          intro c hcm
          rw [hcb] at hcm
          rcases List.mem_cons.mp hcm with rfl | hcm
          · rw [hit]; exact ⟨hh.1, hh.2.1⟩
          · exact hh.2.2 c hcm
      split_ifs with hb hx
      · intro cb hcb
        simp only [exitBlock, List.mem_reverse, List.mem_cons] at hcb
        rcases hcb with rfl | hcb
        · exact ⟨hh.1, hh.2.1⟩
        · exact hh.2.2 cb hcb
      · intro cb hcb
        simp only [excResult, List.mem_reverse] at hcb
        exact hinv.2.2 cb hcb
      · apply ih _ hinv
        have hbody := iterBody_eq O dir P pr stop (headStep P pr stop oot s).1 es.1
        have hex : (directionStage dir P pr (headStep P pr stop oot s).1).exc = .none := by
          by_contra hne
          exact hx (by simpa using (hbody.1 hne).1)
        obtain ⟨_, _, hint, hacc⟩ := hbody.2 hex
        by_cases hst : stop (iterLs O dir P pr stop (headStep P pr stop oot s).1).tick = true
        · rw [(hint hst).1]; exact hLh
        · rw [(hacc (by simpa using hst)).1]; exact hls.2

/-- **Every iterate handed to the progress callback (the final one included) is consistent and has `u`,
    `∇ψ`, `p`, `û` of exactly `N·nu` entries** — under the size contract of the oracles, an initial guess of
    `N·nu` entries and `FuelOK`. -/
theorem run_callbacks_sized (O : Oracles α) (dir : Dir D α) (P : Prob α) (d0 : D) (pr : Params α)
    (hc : SizeContract O dir P) (nL nτ : Nat) (hp : FuelOK pr nL nτ) (stop : Nat → Bool) (oot : Bool)
    (u0 y mu errz0 gV gQ : Vec α) (gS e0 : α) (hu0 : u0.length = P.N * P.nu) :
    ∀ cb ∈ (run O dir P d0 pr stop oot u0 y mu errz0 gV gQ gS e0).callbacks,
      Good O P cb.it ∧ ItSized P cb.it := by
  intro cb hcb
  unfold run at hcb
  cases hi : initState O P d0 pr stop u0 gV gQ gS e0 with
  | inl t => rw [hi] at hcb; simp at hcb
  | inr s =>
    rw [hi] at hcb
    simp only [] at hcb
    have hgood := (initState_good O P d0 pr stop u0 gV gQ gS e0 s hi).1
    have hlb := initIterates_lbound O P pr u0 gV gS nL nτ hp
    have hq := initQub_fuel O P pr stop pr.lsFuel
      (evalStep O P { (initIterates O P pr u0 gV gS).1 with
        gamma := pr.LgammaFactor / (initIterates O P pr u0 gV gS).1.L })
      ((initIterates O P pr u0 gV gS).2.2 + P.fwdTicks) 0 nL hlb.1 hlb.2
      (by have := hp.fuel; nlinarith)
    have hu : s.curr.u = u0 ∧ LBound pr nL s.curr.L := by
      unfold initState at hi
      simp only [] at hi
      split_ifs at hi
      injection hi with hi
      subst hi
      refine ⟨?_, hq.2.1, hq.2.2⟩
      have hk : ∀ (f : Nat) (c : Iterate α) (t b : Nat), (initQub O P pr stop f c t b).1.u = c.u := by
        intro f
        induction f with
        | zero => intro c t b; rfl
        | succ f ih =>
          intro c t b
          unfold initQub
          split_ifs
          · rfl
          · rw [ih]; rfl
          · rfl
      show (initQub O P pr stop pr.lsFuel _ _ 0).1.u = u0
      rw [hk]
      show (initIterates O P pr u0 gV gS).1.u = u0
      unfold initIterates
      simp only []
      split_ifs <;> rfl
    have := mainLoop_sized O dir P pr stop oot u0 y mu errz0 hc nL nτ hp (pr.maxIter + 2) s
      ⟨hgood, by rw [hu.1]; exact hu0, by
        have hcbs0 : s.cbs = [] := by
          unfold initState at hi
          simp only [] at hi
          split_ifs at hi
          injection hi with hi
          subst hi; rfl
        rw [hcbs0]; simp⟩ hu.2 cb hcb
    exact ⟨this.1, itSized_of_good O dir P hc cb.it this.1 this.2⟩

end Alpaqa.Ocp
