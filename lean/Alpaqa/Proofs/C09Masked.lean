/-
  C09 helper lemmas, part 3: the masked two-loop of `apply_masked_impl`.
  `G fJ J v` is the restriction of `v` to the index list `J` (the identity when `J` is "full");
  the masked kernels `dotJ / axmyJ / scalJ` are the ordinary vector operations on restricted
  vectors, and the two loops with skipping compute the dense operator of the restricted history
  of the pairs that are valid on `J`.
-/
import Alpaqa.Proofs.C09Ring

namespace Alpaqa.C09
open Alpaqa
set_option linter.unusedSectionVars false
set_option linter.unusedVariables false

section
variable {α : Type} [Field α] [LinearOrder α] [IsStrictOrderedRing α]
  [RealLike α] [PowLike α] [HasNaN α]

/-- Restriction of a vector to `J` (`fJ` = the code's `fullJ`: no restriction). -/
def G (fJ : Bool) (J : List Nat) (v : Vec α) : Vec α := if fJ then v else J.map (vget v)

/-- The acceptance test on the restricted pair, as `apply_masked_impl` evaluates it. -/
def validJ (p : Params α) (fJ : Bool) (J : List Nat) (c : Slot α) : Bool :=
  updateValid p (dotJ fJ J c.s c.y) (dotJ fJ J c.s c.s) 0

/-! ### in-place updates on the indices of `J` -/

/-- `for j in J: y(j) = f j (y(j))`. -/
def updJ (J : List Nat) (f : Nat → α → α) (y : Vec α) : Vec α :=
  J.foldl (fun y j => y.set j (f j (vget y j))) y

theorem updJ_cons (j : Nat) (J : List Nat) (f : Nat → α → α) (y : Vec α) :
    updJ (j :: J) f y = updJ J f (y.set j (f j (vget y j))) := rfl

theorem updJ_length (J : List Nat) (f : Nat → α → α) (y : Vec α) :
    (updJ J f y).length = y.length := by
  induction J generalizing y with
  | nil => rfl
  | cons j J ih => rw [updJ_cons, ih]; simp

theorem vget_set_ne (y : Vec α) (i j : Nat) (a : α) (h : i ≠ j) : vget (y.set i a) j = vget y j := by
  simp [vget, List.getD_eq_getElem?_getD, List.getElem?_set_ne h]

theorem vget_set_self (y : Vec α) (i : Nat) (a : α) (h : i < y.length) : vget (y.set i a) i = a := by
  simp [vget, List.getD_eq_getElem?_getD, h]

theorem updJ_frame (J : List Nat) (f : Nat → α → α) (y : Vec α) (j : Nat) (hj : j ∉ J) :
    vget (updJ J f y) j = vget y j := by
  induction J generalizing y with
  | nil => rfl
  | cons i J ih =>
    rw [updJ_cons, ih _ (fun h => hj (List.mem_cons_of_mem _ h))]
    exact vget_set_ne _ _ _ _ (fun h => hj (by simp [h]))

theorem updJ_hit (J : List Nat) (f : Nat → α → α) (y : Vec α) (hnd : J.Nodup)
    (hlt : ∀ j ∈ J, j < y.length) (j : Nat) (hj : j ∈ J) :
    vget (updJ J f y) j = f j (vget y j) := by
  induction J generalizing y with
  | nil => simp at hj
  | cons i J ih =>
    obtain ⟨hi, hnd'⟩ := List.nodup_cons.mp hnd
    rw [updJ_cons]
    rcases List.mem_cons.mp hj with rfl | hj'
    · rw [updJ_frame _ _ _ _ hi, vget_set_self _ _ _ (hlt j (by simp))]
    · have hne : i ≠ j := fun h => hi (h ▸ hj')
      rw [ih _ hnd' (by intro k hk; simp; exact hlt k (List.mem_cons_of_mem _ hk)) hj',
          vget_set_ne _ _ _ _ hne]

theorem map_updJ (J : List Nat) (f : Nat → α → α) (y : Vec α) (hnd : J.Nodup)
    (hlt : ∀ j ∈ J, j < y.length) :
    J.map (vget (updJ J f y)) = J.map fun j => f j (vget y j) :=
  List.map_congr_left fun j hj => updJ_hit J f y hnd hlt j hj

theorem vsub_smul_map (J : List Nat) (g h : Nat → α) (k : α) :
    vsub (J.map g) (smul k (J.map h)) = J.map fun j => g j - k * h j := by
  induction J with
  | nil => rfl
  | cons j J ih => simp [ih]

theorem smul_map (J : List Nat) (g : Nat → α) (k : α) :
    smul k (J.map g) = J.map fun j => k * g j := by
  induction J with
  | nil => rfl
  | cons j J ih => simp [ih]

/-! ### the masked kernels are the vector operations on restricted vectors -/

theorem axmyJ_false (J : List Nat) (k : α) (x y : Vec α) :
    axmyJ false J k x y = updJ J (fun j v => v - k * vget x j) y := rfl

theorem scalJ_false (J : List Nat) (k : α) (x : Vec α) :
    scalJ false J k x = updJ J (fun _ v => v * k) x := rfl

theorem dotJ_eq (fJ : Bool) (J : List Nat) (a b : Vec α) :
    dotJ fJ J a b = dot (G fJ J a) (G fJ J b) := by
  cases fJ
  · simp only [dotJ, G, Bool.false_eq_true, if_false]
    have : ∀ acc : α, J.foldl (fun acc j => acc + vget a j * vget b j) acc
        = acc + dot (J.map (vget a)) (J.map (vget b)) := by
      induction J with
      | nil => intro acc; simp
      | cons j J ih => intro acc; simp [ih, add_assoc]
    rw [this 0, zero_add]
  · simp [dotJ, G]

/-- Side condition on `J` (only needed when `J` is not full). -/
def JOK (fJ : Bool) (J : List Nat) (n : Nat) : Prop := fJ = false → J.Nodup ∧ ∀ j ∈ J, j < n

theorem G_axmyJ (fJ : Bool) (J : List Nat) (k : α) (x y : Vec α) (h : JOK fJ J y.length) :
    G fJ J (axmyJ fJ J k x y) = vsub (G fJ J y) (smul k (G fJ J x)) := by
  cases fJ
  · obtain ⟨hnd, hlt⟩ := h rfl
    simp only [G, Bool.false_eq_true, if_false, axmyJ_false]
    rw [map_updJ _ _ _ hnd hlt, vsub_smul_map]
  · simp [G, axmyJ]

theorem G_scalJ (fJ : Bool) (J : List Nat) (k : α) (x : Vec α) (h : JOK fJ J x.length) :
    G fJ J (scalJ fJ J k x) = smul k (G fJ J x) := by
  cases fJ
  · obtain ⟨hnd, hlt⟩ := h rfl
    simp only [G, Bool.false_eq_true, if_false, scalJ_false]
    rw [map_updJ _ _ _ hnd hlt, smul_map]
    exact List.map_congr_left fun j _ => mul_comm _ _
  · simp [G, scalJ]

theorem axmyJ_length (J : List Nat) (k : α) (x y : Vec α) :
    (axmyJ false J k x y).length = y.length := by rw [axmyJ_false]; exact updJ_length _ _ _

theorem scalJ_length (J : List Nat) (k : α) (x : Vec α) :
    (scalJ false J k x).length = x.length := by rw [scalJ_false]; exact updJ_length _ _ _

theorem JOK_axmyJ {fJ : Bool} {J : List Nat} (k : α) (x y : Vec α) (hy : JOK fJ J y.length) :
    JOK fJ J (axmyJ fJ J k x y).length := by
  intro hf; subst hf; rw [axmyJ_length]; exact hy rfl

/-! ### the two loops of `apply_masked_impl` as a structural recursion -/

/-- The masked two-loop on a list of slots given newest first, with skipping; `g` is the scaling
    used between the loops. -/
def mTwo (p : Params α) (fJ : Bool) (J : List Nat) (g : α) : List (Slot α) → Vec α → Vec α
  | [], q => scalJ fJ J g q
  | c :: older, q =>
    if !(validJ p fJ J c) then mTwo p fJ J g older q
    else
      let ρ := 1 / dotJ fJ J c.s c.y
      let a := ρ * dotJ fJ J c.s q
      let r := mTwo p fJ J g older (axmyJ fJ J a c.y q)
      let β := ρ * dotJ fJ J c.y r
      axmyJ fJ J (β - a) c.s r

/-- The marker `need_γ` and the scaling the first loop ends with (slots newest first): while the
    marker is set, the first pair valid on `J` supplies `1/(ρ_J·⟨y,y⟩_J)` — whatever its sign — and
    clears the marker; afterwards (or when it was never set) the scaling does not change. -/
def mGamma (p : Params α) (fJ : Bool) (J : List Nat) : List (Slot α) → Bool → α → Bool × α
  | [], need, γ => (need, γ)
  | c :: older, need, γ =>
    if !(validJ p fJ J c) then mGamma p fJ J older need γ
    else mGamma p fJ J older false
      (if need then 1 / (1 / dotJ fJ J c.s c.y * dotJ fJ J c.y c.y) else γ)

theorem mTwo_length (p : Params α) (J : List Nat) (g : α) (cs : List (Slot α)) (q : Vec α) :
    (mTwo p false J g cs q).length = q.length := by
  induction cs generalizing q with
  | nil => exact scalJ_length _ _ _
  | cons c cs ih =>
    simp only [mTwo]
    split_ifs
    · exact ih q
    · rw [axmyJ_length, ih, axmyJ_length]

theorem mTwo_offJ (p : Params α) (J : List Nat) (g : α) (cs : List (Slot α)) (q : Vec α) (j : Nat)
    (hj : j ∉ J) : vget (mTwo p false J g cs q) j = vget q j := by
  induction cs generalizing q with
  | nil => simp only [mTwo, scalJ_false]; exact updJ_frame _ _ _ _ hj
  | cons c cs ih =>
    simp only [mTwo]
    split_ifs
    · exact ih q
    · rw [axmyJ_false, updJ_frame _ _ _ _ hj, ih, axmyJ_false, updJ_frame _ _ _ _ hj]

/-- Restricted to `J`, the masked two-loop is the dense operator of the restricted history of the
    pairs valid on `J`. -/
theorem G_mTwo (p : Params α) (fJ : Bool) (J : List Nat) (g : α) (cs : List (Slot α)) (q : Vec α)
    (hJ : JOK fJ J q.length) :
    G fJ J (mTwo p fJ J g cs q)
      = Hrev g ((cs.filter (validJ p fJ J)).map fun c => (G fJ J c.s, G fJ J c.y)) (G fJ J q) := by
  induction cs generalizing q with
  | nil => simp only [mTwo, List.filter_nil, List.map_nil, Hrev]; exact G_scalJ _ _ _ _ hJ
  | cons c cs ih =>
    simp only [mTwo]
    by_cases hv : validJ p fJ J c = true
    · simp only [hv, Bool.not_true, Bool.false_eq_true, if_false, List.filter_cons_of_pos,
        List.map_cons, Hrev]
      have hρ : 1 / dotJ fJ J c.s c.y = 1 / dot (G fJ J c.y) (G fJ J c.s) := by
        rw [dotJ_eq, dot_comm]
      have ha : 1 / dotJ fJ J c.s c.y * dotJ fJ J c.s q
          = 1 / dot (G fJ J c.y) (G fJ J c.s) * dot (G fJ J c.s) (G fJ J q) := by
        rw [hρ, dotJ_eq]
      generalize 1 / dotJ fJ J c.s c.y * dotJ fJ J c.s q = a at ha ⊢
      rw [← ha]
      have hJ1 := JOK_axmyJ a c.y q hJ
      have hJ2 : JOK fJ J (mTwo p fJ J g cs (axmyJ fJ J a c.y q)).length := by
        intro hf; subst hf; rw [mTwo_length, axmyJ_length]; exact hJ rfl
      have hr : G fJ J (mTwo p fJ J g cs (axmyJ fJ J a c.y q))
          = Hrev g ((cs.filter (validJ p fJ J)).map fun c => (G fJ J c.s, G fJ J c.y))
              (vsub (G fJ J q) (smul a (G fJ J c.y))) := by
        rw [ih _ hJ1, G_axmyJ _ _ _ _ _ hJ]
      rw [G_axmyJ _ _ _ _ _ hJ2, vsub_smul_eq_vadd, dotJ_eq fJ J c.y, hr, hρ]
    · have hv' : validJ p fJ J c = false := by simpa using hv
      simp only [hv', Bool.not_false, if_true]
      rw [List.filter_cons_of_neg (by simp [hv'])]
      exact ih q hJ

/-! ### ring level: the folds over the index lists -/

theorem mrev_cons (p : Params α) (fJ : Bool) (J : List Nat) (slots : List (Slot α)) (i : Nat)
    (is : List Nat) (a : MaskAcc α) :
    (i :: is).foldl (maskedRevStep p fJ J slots) a
      = is.foldl (maskedRevStep p fJ J slots) (maskedRevStep p fJ J slots a i) := rfl

theorem mrevStep_frame (p : Params α) (fJ : Bool) (J : List Nat) (slots : List (Slot α))
    (a : MaskAcc α) (i j : Nat) (h : i ≠ j) :
    (maskedRevStep p fJ J slots a i).al.getD j 0 = a.al.getD j 0 ∧
    (maskedRevStep p fJ J slots a i).skip.getD j false = a.skip.getD j false := by
  simp only [maskedRevStep]
  split_ifs <;> simp [List.getD_eq_getElem?_getD, List.getElem?_set_ne h]

theorem mrevStep_length (p : Params α) (fJ : Bool) (J : List Nat) (slots : List (Slot α))
    (a : MaskAcc α) (i : Nat) :
    (maskedRevStep p fJ J slots a i).al.length = a.al.length ∧
    (maskedRevStep p fJ J slots a i).skip.length = a.skip.length := by
  simp only [maskedRevStep]
  split_ifs <;> simp

theorem mrev_frame (p : Params α) (fJ : Bool) (J : List Nat) (slots : List (Slot α))
    (is : List Nat) (a : MaskAcc α) (j : Nat) (hj : j ∉ is) :
    (is.foldl (maskedRevStep p fJ J slots) a).al.getD j 0 = a.al.getD j 0 ∧
    (is.foldl (maskedRevStep p fJ J slots) a).skip.getD j false = a.skip.getD j false := by
  induction is generalizing a with
  | nil => exact ⟨rfl, rfl⟩
  | cons i is ih =>
    rw [mrev_cons]
    have h1 := ih (maskedRevStep p fJ J slots a i) (fun h => hj (List.mem_cons_of_mem _ h))
    have h2 := mrevStep_frame p fJ J slots a i j (fun h => hj (by simp [h]))
    exact ⟨h1.1.trans h2.1, h1.2.trans h2.2⟩

theorem mrev_length (p : Params α) (fJ : Bool) (J : List Nat) (slots : List (Slot α))
    (is : List Nat) (a : MaskAcc α) :
    (is.foldl (maskedRevStep p fJ J slots) a).al.length = a.al.length ∧
    (is.foldl (maskedRevStep p fJ J slots) a).skip.length = a.skip.length := by
  induction is generalizing a with
  | nil => exact ⟨rfl, rfl⟩
  | cons i is ih =>
    rw [mrev_cons]
    have h1 := ih (maskedRevStep p fJ J slots a i)
    have h2 := mrevStep_length p fJ J slots a i
    exact ⟨h1.1.trans h2.1, h1.2.trans h2.2⟩

/-- The marker and the scaling after the first loop. -/
theorem mrev_gamma (p : Params α) (fJ : Bool) (J : List Nat) (slots : List (Slot α))
    (is : List Nat) (a : MaskAcc α) :
    ((is.foldl (maskedRevStep p fJ J slots) a).need, (is.foldl (maskedRevStep p fJ J slots) a).γ)
      = mGamma p fJ J (is.map fun i => slots.getD i default) a.need a.γ := by
  induction is generalizing a with
  | nil => rfl
  | cons i is ih =>
    rw [mrev_cons, ih, List.map_cons, mGamma]
    by_cases hv : validJ p fJ J (slots.getD i default) = true
    · have hv2 : updateValid p (dotJ fJ J (slots.getD i default).s (slots.getD i default).y)
          (dotJ fJ J (slots.getD i default).s (slots.getD i default).s) 0 = true := hv
      simp only [maskedRevStep, hv, hv2, Bool.not_true, Bool.false_eq_true, if_false,
        Gen.lbfgsMaskedSetGamma, Gen.lbfgsMaskedGammaOfPair]
      cases a.need <;> simp
    · have hv' : validJ p fJ J (slots.getD i default) = false := by simpa using hv
      have hv2 : updateValid p (dotJ fJ J (slots.getD i default).s (slots.getD i default).y)
          (dotJ fJ J (slots.getD i default).s (slots.getD i default).s) 0 = false := hv'
      simp only [maskedRevStep, hv', hv2, Bool.not_false, if_true]

/-- The two loops over a duplicate-free index list compute `mTwo` over the visited slots
    (`hnn`: the carrier has no NaN, so a valid pair is never mistaken for a skipped one). -/
theorem mpasses_eq_mTwo (p : Params α) (fJ : Bool) (J : List Nat) (slots : List (Slot α)) (g : α)
    (hnn : ∀ x : α, RealLike.isNaN x = false)
    (is : List Nat) (a : MaskAcc α) (hnd : is.Nodup)
    (hlt : ∀ i ∈ is, i < a.al.length ∧ i < a.skip.length) :
    is.reverse.foldl
        (maskedFwdStep fJ J slots (is.foldl (maskedRevStep p fJ J slots) a).al
          (is.foldl (maskedRevStep p fJ J slots) a).skip)
        (scalJ fJ J g (is.foldl (maskedRevStep p fJ J slots) a).q)
      = mTwo p fJ J g (is.map fun i => slots.getD i default) a.q := by
  induction is generalizing a with
  | nil => rfl
  | cons i is ih =>
    obtain ⟨hi, hnd'⟩ := List.nodup_cons.mp hnd
    have hil := hlt i (by simp)
    rw [mrev_cons, List.reverse_cons, List.foldl_append, List.map_cons]
    have hl1 := mrevStep_length p fJ J slots a i
    have hlt' : ∀ j ∈ is, j < (maskedRevStep p fJ J slots a i).al.length ∧
        j < (maskedRevStep p fJ J slots a i).skip.length := by
      intro j hj; rw [hl1.1, hl1.2]; exact hlt j (List.mem_cons_of_mem _ hj)
    rw [ih (maskedRevStep p fJ J slots a i) hnd' hlt']
    obtain ⟨fal, fsk⟩ := mrev_frame p fJ J slots is (maskedRevStep p fJ J slots a i) i hi
    simp only [List.foldl_cons, List.foldl_nil, maskedFwdStep, fal, fsk, mTwo]
    by_cases hv : validJ p fJ J (slots.getD i default) = true
    · have hv2 : updateValid p (dotJ fJ J (slots.getD i default).s (slots.getD i default).y)
          (dotJ fJ J (slots.getD i default).s (slots.getD i default).s) 0 = true := hv
      simp only [maskedRevStep, hv, hv2, Bool.not_true, Bool.false_eq_true, if_false, hnn]
      simp [List.getD_eq_getElem?_getD, hil.1, hil.2]
    · have hv' : validJ p fJ J (slots.getD i default) = false := by simpa using hv
      have hv2 : updateValid p (dotJ fJ J (slots.getD i default).s (slots.getD i default).y)
          (dotJ fJ J (slots.getD i default).s (slots.getD i default).s) 0 = false := hv'
      simp only [maskedRevStep, hv', hv2, Bool.not_false, if_true]
      simp [List.getD_eq_getElem?_getD, hil.2]

/-! ### what the marker and the scaling are -/

/-- `⟨s,y⟩_J / ⟨y,y⟩_J` of a slot. -/
def ratioJ (fJ : Bool) (J : List Nat) (c : Slot α) : α :=
  dot (G fJ J c.s) (G fJ J c.y) / dot (G fJ J c.y) (G fJ J c.y)

theorem gammaOfPair_eq_ratioJ (fJ : Bool) (J : List Nat) (c : Slot α) :
    1 / (1 / dotJ fJ J c.s c.y * dotJ fJ J c.y c.y) = ratioJ fJ J c := by
  simp [ratioJ, dotJ_eq, div_eq_mul_inv, mul_comm]

/-- Marker not set (an external `γ ≥ 0`): nothing changes. -/
theorem mGamma_of_not_need (p : Params α) (fJ : Bool) (J : List Nat) (cs : List (Slot α)) (γ : α) :
    mGamma p fJ J cs false γ = (false, γ) := by
  induction cs with
  | nil => rfl
  | cons c cs ih => simp only [mGamma, Bool.false_eq_true, if_false]; split_ifs <;> exact ih

/-- No pair valid on `J`: marker and scaling stay what they were. -/
theorem mGamma_no_valid (p : Params α) (fJ : Bool) (J : List Nat) (cs : List (Slot α)) (need : Bool)
    (γ : α) (h : ∀ c ∈ cs, validJ p fJ J c = false) : mGamma p fJ J cs need γ = (need, γ) := by
  induction cs with
  | nil => rfl
  | cons c cs ih =>
    simp only [mGamma, h c (by simp), Bool.not_false, if_true]
    exact ih fun c' hc' => h c' (by simp [hc'])

/-- Marker set: the scaling is `⟨s,y⟩_J/⟨y,y⟩_J` of the newest pair valid on `J` — **whatever its
    sign** — and the marker is cleared. -/
theorem mGamma_newest_valid (p : Params α) (fJ : Bool) (J : List Nat) (pre post : List (Slot α))
    (c : Slot α) (γ : α) (hpre : ∀ c' ∈ pre, validJ p fJ J c' = false)
    (hc : validJ p fJ J c = true) :
    mGamma p fJ J (pre ++ c :: post) true γ = (false, ratioJ fJ J c) := by
  induction pre with
  | nil =>
    simp only [List.nil_append, mGamma, hc, Bool.not_true, Bool.false_eq_true, if_false, if_true]
    rw [gammaOfPair_eq_ratioJ]
    exact mGamma_of_not_need _ _ _ _ _
  | cons c' pre ih =>
    simp only [List.cons_append, mGamma, hpre c' (by simp), Bool.not_false, if_true]
    exact ih fun c'' h => hpre c'' (by simp [h])

/-- The marker survives the loop exactly when it was set and no pair is valid on `J`. -/
theorem mGamma_need_iff (p : Params α) (fJ : Bool) (J : List Nat) (cs : List (Slot α)) (need : Bool)
    (γ : α) :
    (mGamma p fJ J cs need γ).1 = true ↔ need = true ∧ ∀ c ∈ cs, validJ p fJ J c = false := by
  induction cs generalizing need γ with
  | nil => simp [mGamma]
  | cons c cs ih =>
    by_cases hv : validJ p fJ J c = true
    · simp only [mGamma, hv, Bool.not_true, Bool.false_eq_true, if_false]
      rw [mGamma_of_not_need]
      simp [hv]
    · have hv' : validJ p fJ J c = false := by simpa using hv
      simp only [mGamma, hv', Bool.not_false, if_true]
      rw [ih]
      simp [hv']

/-- The first loop does not touch `q` when no visited pair is valid on `J`. -/
theorem mrev_q_no_valid (p : Params α) (fJ : Bool) (J : List Nat) (slots : List (Slot α))
    (is : List Nat) (a : MaskAcc α)
    (h : ∀ i ∈ is, validJ p fJ J (slots.getD i default) = false) :
    (is.foldl (maskedRevStep p fJ J slots) a).q = a.q := by
  induction is generalizing a with
  | nil => rfl
  | cons i is ih =>
    rw [List.foldl_cons, ih _ (fun k hk => h k (List.mem_cons_of_mem _ hk))]
    have hv := h i (List.mem_cons_self)
    unfold validJ at hv
    unfold maskedRevStep
    simp only [hv, Bool.not_false, if_true]

end
end Alpaqa.C09
