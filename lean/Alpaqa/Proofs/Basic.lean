/-
  Helper lemmas linking the executable scalar layer (`emax`, `emin`, `eabs`, `eclamp`) to the
  order structure of a linearly ordered field.
-/
import Mathlib.Algebra.Order.Field.Basic
import Mathlib.Tactic.Ring
import Mathlib.Tactic.Linarith
import Mathlib.Tactic.Positivity
import Mathlib.Tactic.FieldSimp
import Alpaqa.Model.Vec

namespace Alpaqa
section
variable {α : Type} [LinearOrder α]

@[simp] theorem emax_eq_max (a b : α) : emax a b = max a b := by
  unfold emax; split_ifs with h
  · exact (max_eq_right h.le).symm
  · exact (max_eq_left (not_lt.mp h)).symm

@[simp] theorem emin_eq_min (a b : α) : emin a b = min a b := by
  unfold emin; split_ifs with h
  · exact (min_eq_right h.le).symm
  · exact (min_eq_left (not_lt.mp h)).symm

end

variable {α : Type} [Field α] [LinearOrder α] [IsStrictOrderedRing α]

@[simp] theorem eabs_eq_abs (a : α) : eabs a = |a| := by
  unfold eabs; split_ifs with h
  · exact (abs_of_neg h).symm
  · rw [add_zero]; exact (abs_of_nonneg (not_lt.mp h)).symm

end Alpaqa
