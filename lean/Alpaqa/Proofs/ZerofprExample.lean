/-
  A concrete instance of the ZeroFPR loop model over `ℚ` (core `Rat`), used by the `example`s of
  `Props/C0x_Zerofpr.lean` to show that the hypotheses of the theorems are satisfiable and that the
  model computes (kernel-evaluated, `decide +kernel`):
  ψ(x) = x²/2 on C = [-1, 1], one constraint row with ŷ(x) = x, start x₀ = 3, y = 5, Σ = 2,
  `L_0 = 1`, `Lγ_factor = 1/2`, `max_iter = 3`, criterion `FPRNorm`, a direction provider that
  proposes `q = p̂`.
-/
import Alpaqa.Model.Zerofpr

namespace Alpaqa.Zerofpr.Example
open Alpaqa Alpaqa.Zerofpr Alpaqa.Gen

/-- no libm on `ℚ`: `sqrt` is not used by the `FPRNorm` criterion -/
scoped instance : RealLike Rat := ⟨id, fun _ => false, fun _ => true⟩

def clampQ (v : Rat) : Rat := if v < -1 then -1 else if 1 < v then 1 else v

def exP : Problem Rat where
  psiGradPsi x := ((x.headD 0) * (x.headD 0) / 2, x, [0])
  psi x := ((x.headD 0) * (x.headD 0) / 2, [x.headD 0])
  gradPsi x := x
  gradL x _ := x
  prox γ x g :=
    (0, [clampQ (x.headD 0 - γ * g.headD 0)], [clampQ (x.headD 0 - γ * g.headD 0) - x.headD 0])

def exDir : Direction Unit Rat where
  init d _ _ _ _ _ := d
  hasInitial _ := false
  apply d _ _ _ p _ _ := (d, true, p)
  update d _ _ _ _ _ _ _ _ := (d, true)
  changedGamma d _ _ := d
  reset d := d

def exPr : Params Rat :=
  { L0 := 1, lipEps := 0, lipDelta := 0, LgammaFactor := 1/2, maxIter := 3, minLsCoef := 1/256,
    forceLinesearch := false, lsStrictness := 1/2, Lmin := 1/10, Lmax := 100, stopCrit := .FPRNorm,
    maxNoProgress := 10, qubTol := 0, lsTol := 0, updateDirInCandidate := false,
    recomputeLastProx := false, updateDirFromProxStep := false, alwaysOverwrite := false,
    tolerance := 1/1000, lsFuel := 8 }

/-- the library's DEFAULT `ZeroFPRParams` (zerofpr.hpp, lipschitz.hpp) and `InnerSolveOptions`
    (`always_overwrite_results = true`, `tolerance = 0`), with the model's default fuel 4096;
    `10·2⁻⁵² = 10·ε_machine` -/
def defaultParams : Params Rat :=
  { L0 := 0, lipEps := 1/1000000, lipDelta := 1/1000000000000, LgammaFactor := 95/100, maxIter := 100,
    minLsCoef := 1/256, forceLinesearch := false, lsStrictness := 95/100, Lmin := 1/100000,
    Lmax := 100000000000000000000, stopCrit := .ApproxKKT, maxNoProgress := 10,
    qubTol := 10 / 4503599627370496, lsTol := 10 / 4503599627370496, updateDirInCandidate := false,
    recomputeLastProx := false, updateDirFromProxStep := false, alwaysOverwrite := true,
    tolerance := 0 }

/-- the solve with `x₀ = [3]`, `y = [5]`, `Σ = [2]`, `err_z` pre-filled with `[7]` -/
def exRun (stop : Nat → Bool) : Result Rat Unit :=
  run exP exDir () exPr stop false [3] [5] [2] [7] [] 0 1000000

/-- stop request raised during the 9th event (inside the first line search) -/
def stopAt9 : Nat → Bool := fun t => decide (t ≥ 9)

end Alpaqa.Zerofpr.Example
