/-
  Helper lemmas for C07 (ALM outer loop): real-number reading of the generated penalty update,
  one-pass lemmas for the generated loop body `almIter`, and the structural (induction) lemmas
  for the hand-written loop skeleton `Alpaqa.C07.loop`.  Property theorems: `Props/C07.lean`.
-/
import Alpaqa.Proofs.VecLemmas
import Alpaqa.Gen.C07
import Alpaqa.Model.C07
import Alpaqa.Props.C15
open Alpaqa Alpaqa.Gen Alpaqa.C07

namespace Alpaqa.Proofs.C07

/-- Real-number semantics: the carrier of the theorems has no NaN. -/
class NoNaN (α : Type) [RealLike α] : Prop where
  isNaN_false : ∀ x : α, RealLike.isNaN x = false

section
variable {α : Type} [LinearOrder α] [RealLike α] [NoNaN α]

@[simp] theorem fmaxS_eq_max (a b : α) : fmaxS a b = max a b := by
  unfold fmaxS; simp only [NoNaN.isNaN_false, Bool.false_eq_true, if_false]
  exact emax_eq_max a b

@[simp] theorem fminS_eq_min (a b : α) : fminS a b = min a b := by
  unfold fminS; simp only [NoNaN.isNaN_false, Bool.false_eq_true, if_false]
  exact emin_eq_min a b
end

section
variable {α : Type} [OfNat α 0]

theorem vget_lt (v : Vec α) (j : Nat) (h : j < v.length) : vget v j = v[j] := by
  unfold vget; simp [List.getD_eq_getElem?_getD, h]

theorem vget_ge (v : Vec α) (j : Nat) (h : v.length ≤ j) : vget v j = 0 := by
  unfold vget; simp [List.getD_eq_getElem?_getD, h]

theorem vget_mem (v : Vec α) (j : Nat) (h : j < v.length) : vget v j ∈ v := by
  rw [vget_lt v j h]; exact List.getElem_mem h

theorem vget_map_range (n : Nat) (f : Nat → α) (j : Nat) :
    vget ((List.range n).map f) j = if j < n then f j else 0 := by
  split_ifs with h
  · rw [vget_lt _ _ (by simpa using h)]; simp
  · rw [vget_ge _ _ (by simpa using h)]

theorem vget_map_const (v : Vec α) (c : α) (j : Nat) :
    vget (v.map fun _ => c) j = if j < v.length then c else 0 := by
  split_ifs with h
  · rw [vget_lt _ _ (by simpa using h)]; simp
  · rw [vget_ge _ _ (by simpa using h)]
end
section
variable {α : Type} [Field α] [LinearOrder α] [IsStrictOrderedRing α] [RealLike α] [NoNaN α]

/-- `update_penalty_weights` in mathematical notation (no NaN, `std::abs/fmin/fmax` = `|·|/min/max`):
    every new value is `max(old, min(max_penalty, factor·old))`. -/
theorem upw_eq (P : ALMParams α) (Δ : α) (first : Bool) (e eo : Vec α) (ne neo : α) (Sg : Vec α) :
    updatePenaltyWeights P Δ first e eo ne neo Sg =
      if ne ≤ P.dual_tolerance then Sg
      else if P.single_penalty_factor = true then
        (if first = true ∨ P.rel_penalty_increase_threshold * neo < ne then
          Sg.map (fun _ => max (vget Sg 0) (min P.max_penalty (max Δ 1 * vget Sg 0))) else Sg)
      else (List.range e.length).map fun i =>
        if first = true ∨ P.rel_penalty_increase_threshold * |vget eo i| < |vget e i| then
          max (vget Sg i) (min P.max_penalty (max (Δ * |vget e i| / ne) 1 * vget Sg i))
        else vget Sg i := by
  unfold updatePenaltyWeights
  simp only [fmaxS_eq_max, fminS_eq_min, eabs_eq_abs, decide_eq_true_eq, Bool.or_eq_true, gt_iff_lt]

/-- all components equal in single-factor mode -/
def Uniform (P : ALMParams α) (Sg : Vec α) : Prop :=
  P.single_penalty_factor = true → ∀ σ ∈ Sg, ∀ τ ∈ Sg, σ = τ
/-- all components positive -/
def AllPos (Sg : Vec α) : Prop := ∀ σ ∈ Sg, 0 < σ
/-- all components at most `max_penalty` -/
def AllLe (P : ALMParams α) (Sg : Vec α) : Prop := ∀ σ ∈ Sg, σ ≤ P.max_penalty

theorem upw_length (P : ALMParams α) (Δ : α) (first : Bool) (e eo : Vec α) (ne neo : α) (Sg : Vec α)
    (hl : e.length = Sg.length) :
    (updatePenaltyWeights P Δ first e eo ne neo Sg).length = Sg.length := by
  rw [upw_eq]; split_ifs <;> simp [hl]

/-- Componentwise description of the update. -/
theorem upw_vget (P : ALMParams α) (Δ : α) (first : Bool) (e eo : Vec α) (ne neo : α) (Sg : Vec α)
    (hl : e.length = Sg.length) (j : Nat) :
    vget (updatePenaltyWeights P Δ first e eo ne neo Sg) j =
      if ne ≤ P.dual_tolerance then vget Sg j
      else if P.single_penalty_factor = true then
        (if first = true ∨ P.rel_penalty_increase_threshold * neo < ne then
          (if j < Sg.length then max (vget Sg 0) (min P.max_penalty (max Δ 1 * vget Sg 0)) else 0)
         else vget Sg j)
      else if first = true ∨ P.rel_penalty_increase_threshold * |vget eo j| < |vget e j| then
          (if j < Sg.length then
            max (vget Sg j) (min P.max_penalty (max (Δ * |vget e j| / ne) 1 * vget Sg j)) else 0)
        else vget Sg j := by
  rw [upw_eq]
  by_cases h1 : ne ≤ P.dual_tolerance
  · simp only [h1, if_true]
  simp only [h1, if_false]
  by_cases h2 : P.single_penalty_factor = true
  · rw [if_pos h2, if_pos h2]
    by_cases h3 : first = true ∨ P.rel_penalty_increase_threshold * neo < ne
    · simp only [h3, if_true]; rw [vget_map_const]
    · simp only [h3, if_false]
  · rw [if_neg h2, if_neg h2]
    rw [vget_map_range, hl]
    by_cases hj : j < Sg.length
    · simp only [hj, if_true]
    · simp only [hj, if_false]
      rw [vget_ge _ _ (not_lt.mp hj)]; simp

/-- A component changes only if the slack error norm exceeds the dual tolerance and (first
    iteration, or the violation failed to shrink by the factor θ). -/
theorem upw_changed (P : ALMParams α) (Δ : α) (first : Bool) (e eo : Vec α) (ne neo : α) (Sg : Vec α)
    (hl : e.length = Sg.length) (j : Nat)
    (h : vget (updatePenaltyWeights P Δ first e eo ne neo Sg) j ≠ vget Sg j) :
    P.dual_tolerance < ne ∧ (first = true ∨
      if P.single_penalty_factor = true then P.rel_penalty_increase_threshold * neo < ne
      else P.rel_penalty_increase_threshold * |vget eo j| < |vget e j|) := by
  rw [upw_vget _ _ _ _ _ _ _ _ hl] at h
  split_ifs at h with h1 h2 h3 h4 h5 h6 <;> simp_all

/-- The update keeps a uniform Σ uniform (single-factor mode: `setConstant`). -/
theorem upw_uniform (P : ALMParams α) (Δ : α) (first : Bool) (e eo : Vec α) (ne neo : α) (Sg : Vec α)
    (h : Uniform P Sg) : Uniform P (updatePenaltyWeights P Δ first e eo ne neo Sg) := by
  intro h2
  rw [upw_eq]
  by_cases h1 : ne ≤ P.dual_tolerance
  · rw [if_pos h1]; exact h h2
  rw [if_neg h1, if_pos h2]
  split_ifs with h3
  · intro σ hσ τ hτ
    rw [List.mem_map] at hσ hτ
    obtain ⟨_, _, rfl⟩ := hσ
    obtain ⟨_, _, rfl⟩ := hτ
    rfl
  · exact h h2

/-- The update keeps positive penalties positive — for every Δ, every `max_penalty`. -/
theorem upw_pos (P : ALMParams α) (Δ : α) (first : Bool) (e eo : Vec α) (ne neo : α) (Sg : Vec α)
    (hl : e.length = Sg.length) (h : AllPos Sg) :
    AllPos (updatePenaltyWeights P Δ first e eo ne neo Sg) := by
  rw [upw_eq]
  by_cases h1 : ne ≤ P.dual_tolerance
  · rw [if_pos h1]; exact h
  rw [if_neg h1]
  by_cases h2 : P.single_penalty_factor = true
  · rw [if_pos h2]
    split_ifs with h3
    · intro σ hσ
      rw [List.mem_map] at hσ
      obtain ⟨a, ha, rfl⟩ := hσ
      have hne : 0 < Sg.length := List.length_pos_of_mem ha
      exact lt_of_lt_of_le (h _ (vget_mem Sg 0 hne)) (le_max_left _ _)
    · exact h
  · rw [if_neg h2]
    intro σ hσ
    rw [List.mem_map] at hσ
    obtain ⟨i, hi, rfl⟩ := hσ
    rw [List.mem_range, hl] at hi
    have hp := h _ (vget_mem Sg i hi)
    split_ifs with h3
    · exact lt_of_lt_of_le hp (le_max_left _ _)
    · exact hp

/-- The update never pushes a penalty above `max_penalty` that was not above it before. -/
theorem upw_le (P : ALMParams α) (Δ : α) (first : Bool) (e eo : Vec α) (ne neo : α) (Sg : Vec α)
    (hl : e.length = Sg.length) (h : AllLe P Sg) :
    AllLe P (updatePenaltyWeights P Δ first e eo ne neo Sg) := by
  rw [upw_eq]
  by_cases h1 : ne ≤ P.dual_tolerance
  · rw [if_pos h1]; exact h
  rw [if_neg h1]
  by_cases h2 : P.single_penalty_factor = true
  · rw [if_pos h2]
    split_ifs with h3
    · intro σ hσ
      rw [List.mem_map] at hσ
      obtain ⟨a, ha, rfl⟩ := hσ
      have hne : 0 < Sg.length := List.length_pos_of_mem ha
      exact max_le (h _ (vget_mem Sg 0 hne)) (min_le_left _ _)
    · exact h
  · rw [if_neg h2]
    intro σ hσ
    rw [List.mem_map] at hσ
    obtain ⟨i, hi, rfl⟩ := hσ
    rw [List.mem_range, hl] at hi
    have hp := h _ (vget_mem Sg i hi)
    split_ifs with h3
    · exact max_le hp (min_le_left _ _)
    · exact hp

/-- The update never decreases a component — for every Δ, every sign, every `max_penalty`
    (single-factor mode: for a uniform Σ, which `almInit` establishes). -/
theorem upw_mono (P : ALMParams α) (Δ : α) (first : Bool) (e eo : Vec α) (ne neo : α) (Sg : Vec α)
    (hl : e.length = Sg.length) (h : Uniform P Sg)
    (j : Nat) : vget Sg j ≤ vget (updatePenaltyWeights P Δ first e eo ne neo Sg) j := by
  rw [upw_vget _ _ _ _ _ _ _ _ hl]
  by_cases hj : j < Sg.length
  · simp only [hj, if_true]
    split_ifs with h1 h2 h3 h4
    · exact le_refl _
    · have : vget Sg j = vget Sg 0 := h h2 _ (vget_mem Sg j hj) _ (vget_mem Sg 0 (by omega))
      rw [this]; exact le_max_left _ _
    · exact le_refl _
    · exact le_max_left _ _
    · exact le_refl _
  · simp only [hj, if_false]
    rw [vget_ge Sg j (not_lt.mp hj)]
    split_ifs <;> exact le_refl _

end

/-! ### One pass through the generated loop body (`almIter`) — any carrier, IEEE doubles included -/
section
variable {α A S : Type} [Add α] [Sub α] [Mul α] [Div α] [Neg α] [LT α] [LE α] [DecidableLT α]
  [DecidableLE α] [BEq α] [RealLike α] [NatCast α] [OfScientific α] [OfNat α 0] [OfNat α 1]

/-- The termination test of the loop body. -/
def AlmConv (P : ALMParams α) (st : SolverStatus) (ε : α) (err : Vec α) : Prop :=
  ε ≤ P.tolerance ∧ st = .Converged ∧ normInf err ≤ P.dual_tolerance

theorem almIter_cont {P : ALMParams α} {accAdd : A → S → A} {m i : Nat} {has : Bool} {Sg : Vec α}
    {ooi oot sr : Bool} {st : SolverStatus} {ε : α} {ps : S} {Sc err eo : Vec α} {ne neo : α}
    {s : ALMStats α A} {eps : α} {st' : LoopState α A}
    (h : almIter P accAdd m i has Sg ooi oot sr st ε ps Sc err eo ne neo s eps = .cont st') :
    st ≠ .Interrupted ∧ ooi = false ∧ oot = false ∧ ¬ AlmConv P st ε err ∧
    st' = ⟨updatePenaltyWeights P P.penalty_update_factor (i == 0) err eo (normInf err) neo Sc,
           eo, err, normInf err, normInf err,
           { s with inner_convergence_failures := s.inner_convergence_failures + b2n (!(st == .Converged)),
                    inner := accAdd s.inner ps },
           fmaxS (P.tolerance_update_factor * eps) P.tolerance⟩ := by
  unfold almIter at h
  simp only [] at h
  split_ifs at h with h1 h2
  · simp only [Bool.or_eq_true, Bool.and_eq_true, decide_eq_true_eq, beq_iff_eq, not_or, not_and] at h1 h2
    injection h with h
    refine ⟨by simpa using h1, by simpa using h2.1.2, by simpa using h2.2, ?_, h.symm⟩
    intro hc; exact absurd hc.2.2 (h2.1.1.1 ⟨hc.1, hc.2.1⟩)

/-- A pass falls through to the next iteration only if ALM's stop flag was not visible. -/
theorem almIter_cont_stop {P : ALMParams α} {accAdd : A → S → A} {m i : Nat} {has : Bool} {Sg : Vec α}
    {ooi oot sr : Bool} {st : SolverStatus} {ε : α} {ps : S} {Sc err eo : Vec α} {ne neo : α}
    {s : ALMStats α A} {eps : α} {st' : LoopState α A}
    (h : almIter P accAdd m i has Sg ooi oot sr st ε ps Sc err eo ne neo s eps = .cont st') :
    sr = false := by
  unfold almIter at h
  simp only [] at h
  split_ifs at h with h1 h2
  · simp only [Bool.or_eq_true, not_or] at h2
    simpa using h2.1.1.2

theorem almIter_done {P : ALMParams α} {accAdd : A → S → A} {m i : Nat} {has : Bool} {Sg : Vec α}
    {ooi oot sr : Bool} {st : SolverStatus} {ε : α} {ps : S} {Sc err eo : Vec α} {ne neo : α}
    {s : ALMStats α A} {eps : α} {s' : ALMStats α A} {Sg' : Vec α}
    (h : almIter P accAdd m i has Sg ooi oot sr st ε ps Sc err eo ne neo s eps = .done s' Sg') :
    s'.eps = ε ∧ s'.delta = normInf err ∧ s'.outer_iterations = i + 1 ∧
    s'.inner = accAdd s.inner ps ∧
    s'.inner_convergence_failures = s.inner_convergence_failures + b2n (!(st == .Converged)) ∧
    s'.norm_penalty = norm2 Sc / RealLike.sqrt ((m : Nat) : α) ∧
    Sg' = (if has then Sc else Sg) ∧
    (st = .Interrupted → s'.status = .Interrupted) ∧
    (st ≠ .Interrupted →
      (AlmConv P st ε err → s'.status = .Converged) ∧
      (¬ AlmConv P st ε err → sr = true → s'.status = .Interrupted) ∧
      (¬ AlmConv P st ε err → sr = false → oot = true → s'.status = .MaxTime) ∧
      (¬ AlmConv P st ε err → sr = false → oot = false → ooi = true ∧ s'.status = .MaxIter)) := by
  unfold almIter at h
  simp only [] at h
  unfold AlmConv
  split at h
  next h1 =>
    injection h with h h'
    subst h h'
    simp only [beq_iff_eq] at h1
    exact ⟨rfl, rfl, rfl, rfl, rfl, rfl, rfl, fun _ => h1, fun hn => absurd h1 hn⟩
  next h1 =>
    simp only [beq_iff_eq] at h1
    split at h
    next h2 =>
      injection h with h h'
      subst h h'
      simp only [Bool.or_eq_true, Bool.and_eq_true, decide_eq_true_eq, beq_iff_eq] at h2
      have hcb : ¬ (ε ≤ P.tolerance ∧ st = .Converged ∧ normInf err ≤ P.dual_tolerance) →
          (decide (ε ≤ P.tolerance) && (st == SolverStatus.Converged) &&
            decide (normInf err ≤ P.dual_tolerance)) = false := by
        intro hc
        rw [Bool.eq_false_iff]; intro hh
        simp only [Bool.and_eq_true, decide_eq_true_eq, beq_iff_eq] at hh
        exact hc ⟨hh.1.1, hh.1.2, hh.2⟩
      refine ⟨rfl, rfl, rfl, rfl, rfl, rfl, rfl, fun hi => absurd hi h1, fun _ => ⟨?_, ?_, ?_, ?_⟩⟩
      · intro hc
        have : (decide (ε ≤ P.tolerance) && (st == SolverStatus.Converged) &&
            decide (normInf err ≤ P.dual_tolerance)) = true := by
          simp only [Bool.and_eq_true, decide_eq_true_eq, beq_iff_eq]; exact ⟨⟨hc.1, hc.2.1⟩, hc.2.2⟩
        simp only [this, if_true]
      · intro hc hs
        simp only [hcb hc, hs, if_true, Bool.false_eq_true, if_false]
      · intro hc hs ho
        simp only [hcb hc, hs, ho, if_true, Bool.false_eq_true, if_false]
      · intro hc hs ho
        have hooi : ooi = true := by
          rcases h2 with ((⟨⟨a, b⟩, c⟩ | h2) | h2) | h2
          · exact absurd ⟨a, b, c⟩ hc
          · rw [hs] at h2; cases h2
          · exact h2
          · rw [ho] at h2; cases h2
        exact ⟨hooi, by simp only [hcb hc, hs, ho, hooi, if_true, Bool.false_eq_true, if_false]⟩
    next h2 => cases h

/-! ### The loop skeleton: structural lemmas (any carrier) -/

variable (P : ALMParams α) (prob : Problem α) (accAdd : A → S → A) (hasSig : Bool) (SigU : Vec α)
  (inner : InnerCall α → InnerResult α S)

local notation "STEP" => mkStep P prob accAdd hasSig SigU inner
local notation "LOOP" => loop P prob accAdd hasSig SigU inner

theorem loop_zero (i : Nat) (st : LoopState α A) (x y : Vec α) :
    LOOP 0 i st x y = { stats := st.s, x := x, y := y, sigmaOut := if hasSig then some SigU else none,
                        history := [], steps := [], logicError := true } := rfl

theorem loop_done (fuel i : Nat) (st : LoopState α A) (x y : Vec α) (stats : ALMStats α A) (Sg : Vec α)
    (h : (STEP i st x y).out = .done stats Sg) :
    LOOP (fuel + 1) i st x y =
      { stats := stats, x := (STEP i st x y).res.x, y := (STEP i st x y).res.y,
        sigmaOut := if hasSig then some Sg else none,
        history := [((STEP i st x y).call, (STEP i st x y).res)], steps := [STEP i st x y],
        logicError := false } := by
  rw [loop]; simp only [h]

theorem loop_cont (fuel i : Nat) (st : LoopState α A) (x y : Vec α) (st' : LoopState α A)
    (h : (STEP i st x y).out = .cont st') :
    LOOP (fuel + 1) i st x y =
      { LOOP fuel (i + 1) st' (STEP i st x y).res.x (STEP i st x y).res.y with
        history := ((STEP i st x y).call, (STEP i st x y).res) ::
          (LOOP fuel (i + 1) st' (STEP i st x y).res.x (STEP i st x y).res.y).history,
        steps := STEP i st x y ::
          (LOOP fuel (i + 1) st' (STEP i st x y).res.x (STEP i st x y).res.y).steps } := by
  rw [loop]; simp only [h, almLoopStep]

theorem loop_induction {motive : Nat → Nat → LoopState α A → Vec α → Vec α → Result α A S → Prop}
    (h0 : ∀ i st x y, motive 0 i st x y (LOOP 0 i st x y))
    (hd : ∀ fuel i st x y stats Sg, (STEP i st x y).out = .done stats Sg →
      motive (fuel + 1) i st x y (LOOP (fuel + 1) i st x y))
    (hc : ∀ fuel i st x y st', (STEP i st x y).out = .cont st' →
      motive fuel (i + 1) st' (STEP i st x y).res.x (STEP i st x y).res.y
        (LOOP fuel (i + 1) st' (STEP i st x y).res.x (STEP i st x y).res.y) →
      motive (fuel + 1) i st x y (LOOP (fuel + 1) i st x y)) :
    ∀ fuel i st x y, motive fuel i st x y (LOOP fuel i st x y) := by
  intro fuel
  induction fuel with
  | zero => exact h0
  | succ n ih =>
    intro i st x y
    cases hout : (STEP i st x y).out with
    | done stats Sg => exact hd n i st x y stats Sg hout
    | cont st' => exact hc n i st x y st' hout (ih _ _ _ _)

theorem mkStep_i (i : Nat) (st : LoopState α A) (x y : Vec α) : (STEP i st x y).i = i := rfl
theorem mkStep_st (i : Nat) (st : LoopState α A) (x y : Vec α) : (STEP i st x y).st = st := rfl
theorem mkStep_call (i : Nat) (st : LoopState α A) (x y : Vec α) :
    (STEP i st x y).call = ⟨x, projMult prob y P.max_multiplier, st.Sig_curr, st.error,
      almInnerOpts st.eps i⟩ := rfl
theorem mkStep_res (i : Nat) (st : LoopState α A) (x y : Vec α) :
    (STEP i st x y).res = inner (STEP i st x y).call := rfl

/-- A pass that falls through to the next iteration. -/
theorem step_cont {i : Nat} {st st' : LoopState α A} {x y : Vec α}
    (h : (STEP i st x y).out = .cont st') :
    (STEP i st x y).res.status ≠ .Interrupted ∧ i + 1 ≠ P.max_iter ∧
    (STEP i st x y).res.outOfTime = false ∧
    ¬ AlmConv P (STEP i st x y).res.status (STEP i st x y).res.eps (STEP i st x y).res.errz ∧
    st' = ⟨updatePenaltyWeights P P.penalty_update_factor (i == 0) (STEP i st x y).res.errz
             st.error_old (normInf (STEP i st x y).res.errz) st.norm_e_old st.Sig_curr,
           st.error_old, (STEP i st x y).res.errz, normInf (STEP i st x y).res.errz,
           normInf (STEP i st x y).res.errz,
           { st.s with
             inner_convergence_failures := st.s.inner_convergence_failures +
               b2n (!((STEP i st x y).res.status == .Converged)),
             inner := accAdd st.s.inner (STEP i st x y).res.stats },
           fmaxS (P.tolerance_update_factor * st.eps) P.tolerance⟩ := by
  have := almIter_cont (P := P) (ne := st.norm_e) h
  refine ⟨this.1, ?_, this.2.2.1, this.2.2.2.1, this.2.2.2.2⟩
  have h2 := this.2.1
  simp only [almPreCall] at h2
  intro hh; rw [hh] at h2; simp at h2

/-- A pass falls through only if ALM's own stop flag was not visible after the inner solve. -/
theorem step_cont_stop {i : Nat} {st st' : LoopState α A} {x y : Vec α}
    (h : (STEP i st x y).out = .cont st') : (STEP i st x y).res.stopSeen = false :=
  almIter_cont_stop (P := P) (ne := st.norm_e) h

/-- A pass that returns. -/
theorem step_done {i : Nat} {st : LoopState α A} {x y : Vec α} {s' : ALMStats α A} {Sg' : Vec α}
    (h : (STEP i st x y).out = .done s' Sg') :
    s'.eps = (STEP i st x y).res.eps ∧ s'.delta = normInf (STEP i st x y).res.errz ∧
    s'.outer_iterations = i + 1 ∧
    s'.inner = accAdd st.s.inner (STEP i st x y).res.stats ∧
    s'.inner_convergence_failures = st.s.inner_convergence_failures +
      b2n (!((STEP i st x y).res.status == .Converged)) ∧
    s'.norm_penalty = norm2 st.Sig_curr / RealLike.sqrt ((prob.m : Nat) : α) ∧
    Sg' = (if hasSig then st.Sig_curr else SigU) ∧
    ((STEP i st x y).res.status = .Interrupted → s'.status = .Interrupted) ∧
    ((STEP i st x y).res.status ≠ .Interrupted →
      (AlmConv P (STEP i st x y).res.status (STEP i st x y).res.eps (STEP i st x y).res.errz →
        s'.status = .Converged) ∧
      (¬ AlmConv P (STEP i st x y).res.status (STEP i st x y).res.eps (STEP i st x y).res.errz →
        (STEP i st x y).res.stopSeen = true → s'.status = .Interrupted) ∧
      (¬ AlmConv P (STEP i st x y).res.status (STEP i st x y).res.eps (STEP i st x y).res.errz →
        (STEP i st x y).res.stopSeen = false →
        (STEP i st x y).res.outOfTime = true → s'.status = .MaxTime) ∧
      (¬ AlmConv P (STEP i st x y).res.status (STEP i st x y).res.eps (STEP i st x y).res.errz →
        (STEP i st x y).res.stopSeen = false →
        (STEP i st x y).res.outOfTime = false → i + 1 = P.max_iter ∧ s'.status = .MaxIter)) := by
  have := almIter_done (P := P) (ne := st.norm_e) h
  refine ⟨this.1, this.2.1, this.2.2.1, this.2.2.2.1, this.2.2.2.2.1, this.2.2.2.2.2.1,
    this.2.2.2.2.2.2.1, this.2.2.2.2.2.2.2.1, fun hn => ?_⟩
  have h3 := this.2.2.2.2.2.2.2.2 hn
  refine ⟨h3.1, h3.2.1, h3.2.2.1, fun hc hs ho => ?_⟩
  have h4 := h3.2.2.2 hc hs ho
  refine ⟨?_, h4.2⟩
  have h5 := h4.1
  simp only [almPreCall] at h5
  simpa using h5

theorem loop_history_eq (fuel i : Nat) (st : LoopState α A) (x y : Vec α) :
    (LOOP fuel i st x y).history = (LOOP fuel i st x y).steps.map fun s => (s.call, s.res) := by
  refine loop_induction P prob accAdd hasSig SigU inner
    (motive := fun _ _ _ _ _ r => r.history = r.steps.map fun s => (s.call, s.res)) ?_ ?_ ?_ fuel i st x y
  · intro i st x y; rfl
  · intro fuel i st x y stats Sg h; rw [loop_done _ _ _ _ _ _ _ _ _ _ _ _ _ h]; rfl
  · intro fuel i st x y st' h ih; rw [loop_cont _ _ _ _ _ _ _ _ _ _ _ _ h]
    simp only [List.map_cons, ih]

theorem loop_head (fuel i : Nat) (st : LoopState α A) (x y : Vec α) (b : Step α A S)
    (rest : List (Step α A S)) (h : (LOOP fuel i st x y).steps = b :: rest) : b = STEP i st x y := by
  cases fuel with
  | zero => rw [loop_zero] at h; cases h
  | succ n =>
    cases hout : (STEP i st x y).out with
    | done stats Sg =>
      rw [loop_done _ _ _ _ _ _ _ _ _ _ _ _ _ hout] at h; injection h with h1 _; exact h1.symm
    | cont st' =>
      rw [loop_cont _ _ _ _ _ _ _ _ _ _ _ _ hout] at h; injection h with h1 _; exact h1.symm

theorem loop_len (fuel i : Nat) (st : LoopState α A) (x y : Vec α) :
    (LOOP fuel i st x y).steps.length ≤ fuel := by
  refine loop_induction P prob accAdd hasSig SigU inner
    (motive := fun fuel _ _ _ _ r => r.steps.length ≤ fuel) ?_ ?_ ?_ fuel i st x y
  · intro i st x y; simp [loop_zero]
  · intro fuel i st x y stats Sg h; rw [loop_done _ _ _ _ _ _ _ _ _ _ _ _ _ h]; simp
  · intro fuel i st x y st' h ih; rw [loop_cont _ _ _ _ _ _ _ _ _ _ _ _ h]
    simp only [List.length_cons]; omega

/-- Invariant lifting: every loop pass starts in a state satisfying an invariant that the
    fall-through transition preserves. -/
theorem loop_steps_forall (Inv : Nat → LoopState α A → Vec α → Vec α → Prop)
    (hpres : ∀ i st x y st', Inv i st x y → (STEP i st x y).out = .cont st' →
      Inv (i + 1) st' (STEP i st x y).res.x (STEP i st x y).res.y)
    (fuel i : Nat) (st : LoopState α A) (x y : Vec α) (h0 : Inv i st x y) :
    ∀ s ∈ (LOOP fuel i st x y).steps, ∃ x' y', Inv s.i s.st x' y' ∧ s = STEP s.i s.st x' y' := by
  refine loop_induction P prob accAdd hasSig SigU inner
    (motive := fun _ i st x y r => Inv i st x y →
      ∀ s ∈ r.steps, ∃ x' y', Inv s.i s.st x' y' ∧ s = STEP s.i s.st x' y') ?_ ?_ ?_ fuel i st x y h0
  · intro i st x y _ s hs; rw [loop_zero] at hs; cases hs
  · intro fuel i st x y stats Sg h hI s hs
    rw [loop_done _ _ _ _ _ _ _ _ _ _ _ _ _ h] at hs
    simp only [List.mem_singleton] at hs
    subst hs; exact ⟨x, y, hI, rfl⟩
  · intro fuel i st x y st' h ih hI s hs
    rw [loop_cont _ _ _ _ _ _ _ _ _ _ _ _ h] at hs
    simp only [List.mem_cons] at hs
    rcases hs with rfl | hs
    · exact ⟨x, y, hI, rfl⟩
    · exact ih (hpres _ _ _ _ _ hI h) s hs

/-- Consecutive loop passes: the second starts in the state the first fell through to. -/
theorem loop_steps_pairs (Inv : Nat → LoopState α A → Vec α → Vec α → Prop)
    (hpres : ∀ i st x y st', Inv i st x y → (STEP i st x y).out = .cont st' →
      Inv (i + 1) st' (STEP i st x y).res.x (STEP i st x y).res.y)
    (fuel i : Nat) (st : LoopState α A) (x y : Vec α) (h0 : Inv i st x y)
    (pre : List (Step α A S)) (a b : Step α A S) (post : List (Step α A S))
    (hs : (LOOP fuel i st x y).steps = pre ++ a :: b :: post) :
    ∃ x' y', Inv a.i a.st x' y' ∧ a = STEP a.i a.st x' y' ∧ a.out = .cont b.st ∧ b.i = a.i + 1 ∧
      b = STEP b.i b.st a.res.x a.res.y := by
  revert pre
  refine loop_induction P prob accAdd hasSig SigU inner
    (motive := fun _ i st x y r => Inv i st x y → ∀ pre, r.steps = pre ++ a :: b :: post →
      ∃ x' y', Inv a.i a.st x' y' ∧ a = STEP a.i a.st x' y' ∧ a.out = .cont b.st ∧ b.i = a.i + 1 ∧
        b = STEP b.i b.st a.res.x a.res.y) ?_ ?_ ?_ fuel i st x y h0
  · intro i st x y _ pre hs; rw [loop_zero] at hs
    exact absurd (congrArg List.length hs) (by simp)
  · intro fuel i st x y stats Sg h _ pre hs
    rw [loop_done _ _ _ _ _ _ _ _ _ _ _ _ _ h] at hs
    exact absurd (congrArg List.length hs) (by simp; omega)
  · intro fuel i st x y st' h ih hI pre hs
    rw [loop_cont _ _ _ _ _ _ _ _ _ _ _ _ h] at hs
    cases pre with
    | nil =>
      simp only [List.nil_append] at hs
      injection hs with h1 h2
      have hb := loop_head P prob accAdd hasSig SigU inner _ _ _ _ _ b post h2
      subst h1
      refine ⟨x, y, hI, rfl, ?_, ?_, ?_⟩
      · rw [h, hb]; rfl
      · rw [hb]; rfl
      · rw [hb]; rfl
    | cons p pre' =>
      simp only [List.cons_append] at hs
      injection hs with _ h2
      exact ih (hpres _ _ _ _ _ hI h) pre' h2

/-- `throw std::logic_error` after the loop is unreachable: the pass with `i + 1 == max_iter`
    always returns. -/
theorem loop_no_throw (fuel i : Nat) (st : LoopState α A) (x y : Vec α)
    (hf : i + fuel = P.max_iter) (h0 : fuel ≠ 0) : (LOOP fuel i st x y).logicError = false := by
  refine loop_induction P prob accAdd hasSig SigU inner
    (motive := fun fuel i _ _ _ r => i + fuel = P.max_iter → fuel ≠ 0 → r.logicError = false)
    ?_ ?_ ?_ fuel i st x y hf h0
  · intro i st x y _ h; exact absurd rfl h
  · intro fuel i st x y stats Sg h _ _; rw [loop_done _ _ _ _ _ _ _ _ _ _ _ _ _ h]
  · intro fuel i st x y st' h ih hf _
    rw [loop_cont _ _ _ _ _ _ _ _ _ _ _ _ h]
    have := (step_cont P prob accAdd hasSig SigU inner h).2.1
    exact ih (by omega) (by omega)

/-- The run ends with a returning pass; all earlier passes fall through. -/
theorem loop_last (fuel i : Nat) (st : LoopState α A) (x y : Vec α)
    (hne : (LOOP fuel i st x y).logicError = false) :
    ∃ init s stats Sg, (LOOP fuel i st x y).steps = init ++ [s] ∧ s.out = .done stats Sg ∧
      (LOOP fuel i st x y).stats = stats ∧
      (LOOP fuel i st x y).sigmaOut = (if hasSig then some Sg else none) ∧
      (LOOP fuel i st x y).x = s.res.x ∧ (LOOP fuel i st x y).y = s.res.y ∧
      s.i + 1 = i + (LOOP fuel i st x y).steps.length ∧
      ∀ t ∈ init, ∃ st', t.out = .cont st' := by
  refine loop_induction P prob accAdd hasSig SigU inner
    (motive := fun _ i _ _ _ r => r.logicError = false →
      ∃ init s stats Sg, r.steps = init ++ [s] ∧ s.out = .done stats Sg ∧ r.stats = stats ∧
        r.sigmaOut = (if hasSig then some Sg else none) ∧ r.x = s.res.x ∧ r.y = s.res.y ∧
        s.i + 1 = i + r.steps.length ∧ ∀ t ∈ init, ∃ st', t.out = .cont st')
    ?_ ?_ ?_ fuel i st x y hne
  · intro i st x y h; rw [loop_zero] at h; cases h
  · intro fuel i st x y stats Sg h _
    rw [loop_done _ _ _ _ _ _ _ _ _ _ _ _ _ h]
    exact ⟨[], STEP i st x y, stats, Sg, rfl, h, rfl, rfl, rfl, rfl, rfl, fun t ht => by cases ht⟩
  · intro fuel i st x y st' h ih hl
    rw [loop_cont _ _ _ _ _ _ _ _ _ _ _ _ h] at hl ⊢
    obtain ⟨init, s, stats, Sg, h1, h2, h3, h4, h5, h6, h7, h8⟩ := ih hl
    refine ⟨STEP i st x y :: init, s, stats, Sg, ?_, h2, h3, h4, h5, h6, ?_, ?_⟩
    · simp only [h1, List.cons_append]
    · simp only [List.length_cons]; omega
    · intro t ht
      rcases List.mem_cons.mp ht with rfl | ht
      · exact ⟨st', h⟩
      · exact h8 t ht

/-- Accumulated statistics: one `+=` per inner solve, in order; failures counted. -/
theorem loop_acc (fuel i : Nat) (st : LoopState α A) (x y : Vec α) :
    (LOOP fuel i st x y).stats.inner =
      ((LOOP fuel i st x y).history.map (·.2.stats)).foldl accAdd st.s.inner ∧
    (LOOP fuel i st x y).stats.inner_convergence_failures =
      st.s.inner_convergence_failures +
        (LOOP fuel i st x y).history.countP (fun h => !(h.2.status == .Converged)) := by
  refine loop_induction P prob accAdd hasSig SigU inner
    (motive := fun _ _ st _ _ r =>
      r.stats.inner = (r.history.map (·.2.stats)).foldl accAdd st.s.inner ∧
      r.stats.inner_convergence_failures = st.s.inner_convergence_failures +
        r.history.countP (fun h => !(h.2.status == .Converged))) ?_ ?_ ?_ fuel i st x y
  · intro i st x y; rw [loop_zero]; simp
  · intro fuel i st x y stats Sg h
    rw [loop_done _ _ _ _ _ _ _ _ _ _ _ _ _ h]
    have hd := step_done P prob accAdd hasSig SigU inner h
    refine ⟨by simpa using hd.2.2.2.1, ?_⟩
    rw [hd.2.2.2.2.1]
    cases hc : ((STEP i st x y).res.status == SolverStatus.Converged) <;> simp [b2n, hc]
  · intro fuel i st x y st' h ih
    rw [loop_cont _ _ _ _ _ _ _ _ _ _ _ _ h]
    have hc := (step_cont P prob accAdd hasSig SigU inner h).2.2.2.2
    have e1 : st'.s.inner = accAdd st.s.inner (STEP i st x y).res.stats := by rw [hc]
    have e2 : st'.s.inner_convergence_failures = st.s.inner_convergence_failures +
        b2n (!((STEP i st x y).res.status == .Converged)) := by rw [hc]
    refine ⟨?_, ?_⟩
    · simp only [List.map_cons, List.foldl_cons]; rw [← e1]; exact ih.1
    · simp only []
      rw [ih.2, e2]
      cases hcv : ((STEP i st x y).res.status == SolverStatus.Converged) <;>
        simp [b2n, hcv, List.countP_cons] <;> omega

theorem loop_outer (fuel i : Nat) (st : LoopState α A) (x y : Vec α)
    (hne : (LOOP fuel i st x y).logicError = false) :
    (LOOP fuel i st x y).stats.outer_iterations = i + (LOOP fuel i st x y).history.length := by
  obtain ⟨init, s, stats, Sg, h1, h2, h3, _, _, _, h7, _⟩ :=
    loop_last P prob accAdd hasSig SigU inner fuel i st x y hne
  have hs : s ∈ (LOOP fuel i st x y).steps := by rw [h1]; simp
  obtain ⟨x', y', _, hs'⟩ := loop_steps_forall P prob accAdd hasSig SigU inner (fun _ _ _ _ => True)
    (fun _ _ _ _ _ _ _ => trivial) fuel i st x y trivial s hs
  rw [hs'] at h2
  have := (step_done P prob accAdd hasSig SigU inner h2).2.2.1
  rw [h3, this, loop_history_eq, List.length_map]
  exact h7

end
/-! ### `minCoeff` / `maxCoeff` (Eigen redux with `std::min` / `std::max`) -/
section
variable {α : Type} [Field α] [LinearOrder α] [IsStrictOrderedRing α]

theorem foldl_emin_le (l : List α) (a : α) : l.foldl emin a ≤ a := by
  induction l generalizing a with
  | nil => simp
  | cons x xs ih =>
    simp only [List.foldl_cons]
    exact le_trans (ih _) (by rw [emin_eq_min]; exact min_le_left _ _)

theorem foldl_emin_mem_le (l : List α) (a x : α) (hx : x ∈ l) : l.foldl emin a ≤ x := by
  induction l generalizing a with
  | nil => cases hx
  | cons y ys ih =>
    simp only [List.foldl_cons]
    rcases List.mem_cons.mp hx with h | h
    · subst h; exact le_trans (foldl_emin_le _ _) (by rw [emin_eq_min]; exact min_le_right _ _)
    · exact ih _ h

/-- `v.minCoeff() ≤` every coefficient -/
theorem redux_emin_le (v : Vec α) (x : α) (hx : x ∈ v) : redux emin 0 v ≤ x := by
  cases v with
  | nil => cases hx
  | cons y ys =>
    simp only [redux]
    rcases List.mem_cons.mp hx with h | h
    · subst h; exact foldl_emin_le _ _
    · exact foldl_emin_mem_le _ _ _ h

/-- every coefficient `≤ v.maxCoeff()` -/
theorem le_redux_emax (v : Vec α) (x : α) (hx : x ∈ v) : x ≤ redux emax 0 v := by
  cases v with
  | nil => cases hx
  | cons y ys =>
    simp only [redux]
    rcases List.mem_cons.mp hx with h | h
    · subst h; exact foldl_emax_ge _ _
    · exact foldl_emax_mem_le _ _ _ h

/-- `v.maxCoeff() ≤ c` when every coefficient is -/
theorem redux_emax_le (v : Vec α) (c : α) (hv : v ≠ []) (h : ∀ x ∈ v, x ≤ c) : redux emax 0 v ≤ c := by
  cases v with
  | nil => exact absurd rfl hv
  | cons y ys =>
    simp only [redux]
    exact foldl_emax_le _ _ _ (h y (List.mem_cons_self ..)) (fun x hx => h x (List.mem_cons_of_mem _ hx))

end

end Alpaqa.Proofs.C07
