/-
  C12 — the three algebraic facts behind the Riccati recursion of `StatefulLQRFactor`
  (DESIGN Appendix A.4), at the level of Mathlib matrices, all masked quantities being free
  variables.  Only the solve contract `R̄K = −S̄`, `R̄e = −t` is used of the factorisation.
-/
import Mathlib.Data.Matrix.Mul
import Mathlib.Tactic.LinearCombination
import Mathlib.Tactic.Module
import Mathlib.Tactic.Abel

namespace Alpaqa.C12

open Matrix
variable {α : Type} [Field α] {n m : Type} [Fintype n] [Fintype m]

theorem ric_stage_stationary (A P : Matrix n n α) (BJ : Matrix n m α) (RJJ : Matrix m m α)
    (SJ : Matrix m n α) (c s : n → α) (rJ rk : m → α) (K : Matrix m n α) (e : m → α) (δx : n → α)
    (hK : (BJᵀ * (P * BJ) + RJJ) * K = -(BJᵀ * (P * A) + SJ))
    (he : (BJᵀ * (P * BJ) + RJJ) *ᵥ e = -(BJᵀ *ᵥ (P *ᵥ c + s) + rJ + rk)) :
    RJJ *ᵥ (e + K *ᵥ δx) + rk + SJ *ᵥ δx + rJ
      + BJᵀ *ᵥ (P *ᵥ (A *ᵥ δx + (BJ *ᵥ (e + K *ᵥ δx) + c)) + s) = 0 := by
  have h1 : (BJᵀ * (P * BJ) + RJJ) *ᵥ (K *ᵥ δx) = -((BJᵀ * (P * A) + SJ) *ᵥ δx) := by
    rw [Matrix.mulVec_mulVec, hK, Matrix.neg_mulVec]
  simp only [Matrix.add_mulVec, Matrix.mulVec_add, ← Matrix.mulVec_mulVec] at h1 he ⊢
  linear_combination (exp := 1) h1 + he

theorem ric_stage_costate (A P Q : Matrix n n α) (BJ : Matrix n m α)
    (SJ : Matrix m n α) (c s q sk : n → α) (K : Matrix m n α) (e : m → α) (δx : n → α)
    (hP : Pᵀ = P) :
    (Aᵀ * (P * A) + (BJᵀ * (P * A) + SJ)ᵀ * K + Q) *ᵥ δx
        + ((BJᵀ * (P * A) + SJ)ᵀ *ᵥ e + Aᵀ *ᵥ (P *ᵥ c + s) + q + sk)
      = Q *ᵥ δx + (SJᵀ *ᵥ (e + K *ᵥ δx) + sk) + q
        + Aᵀ *ᵥ (P *ᵥ (A *ᵥ δx + (BJ *ᵥ (e + K *ᵥ δx) + c)) + s) := by
  have hS : (BJᵀ * (P * A) + SJ)ᵀ = Aᵀ * (P * BJ) + SJᵀ := by
    rw [Matrix.transpose_add, Matrix.transpose_mul, Matrix.transpose_mul, Matrix.transpose_transpose,
      hP, Matrix.mul_assoc]
  rw [hS]
  simp only [Matrix.add_mulVec, Matrix.mulVec_add, ← Matrix.mulVec_mulVec]
  abel

theorem ric_stage_symm (A P Q : Matrix n n α) (BJ : Matrix n m α) (RJJ : Matrix m m α)
    (SJ : Matrix m n α) (K : Matrix m n α)
    (hP : Pᵀ = P) (hQ : Qᵀ = Q) (hR : RJJᵀ = RJJ)
    (hK : (BJᵀ * (P * BJ) + RJJ) * K = -(BJᵀ * (P * A) + SJ)) :
    (Aᵀ * (P * A) + (BJᵀ * (P * A) + SJ)ᵀ * K + Q)ᵀ
      = Aᵀ * (P * A) + (BJᵀ * (P * A) + SJ)ᵀ * K + Q := by
  have hRb : (BJᵀ * (P * BJ) + RJJ)ᵀ = BJᵀ * (P * BJ) + RJJ := by
    rw [Matrix.transpose_add, Matrix.transpose_mul, Matrix.transpose_mul, Matrix.transpose_transpose,
      hP, hR, Matrix.mul_assoc]
  have hSK : (BJᵀ * (P * A) + SJ)ᵀ * K = -(Kᵀ * ((BJᵀ * (P * BJ) + RJJ) * K)) := by
    have : BJᵀ * (P * A) + SJ = -((BJᵀ * (P * BJ) + RJJ) * K) := by rw [hK, neg_neg]
    rw [this, Matrix.transpose_neg, Matrix.transpose_mul, hRb, Matrix.neg_mul, Matrix.mul_assoc]
  have hsym : (Kᵀ * ((BJᵀ * (P * BJ) + RJJ) * K))ᵀ = Kᵀ * ((BJᵀ * (P * BJ) + RJJ) * K) := by
    rw [Matrix.transpose_mul, Matrix.transpose_mul, Matrix.transpose_transpose, hRb, Matrix.mul_assoc]
  rw [hSK, Matrix.transpose_add, Matrix.transpose_add, Matrix.transpose_neg, hsym, hQ,
    Matrix.transpose_mul, Matrix.transpose_mul, Matrix.transpose_transpose, hP, Matrix.mul_assoc]

end Alpaqa.C12
