import Alpaqa.Model.C12
import Mathlib.Data.List.Sort
import Mathlib.Data.List.Perm.Basic
import Mathlib.Tactic.Ring
import Mathlib.Tactic.Linarith

namespace Alpaqa.C12
open Alpaqa.Gen.C12

theorem buildJLoop_eq (cond : Nat → Bool) (n : Nat) :
    ∀ (fuel c : Nat) (out : List Nat), c ≤ n → n - c + 1 ≤ fuel →
      buildJLoop cond n fuel c out = out ++ (List.range' c (n - c)).filter cond := by
  intro fuel
  induction fuel with
  | zero => intro c out _ h; omega
  | succ f ih =>
    intro c out hc hf
    unfold buildJLoop
    by_cases h : c < n
    · simp only [h, decide_true, if_true]
      rw [ih (c + 1) _ (by omega) (by omega)]
      have : n - c = (n - (c + 1)) + 1 := by omega
      rw [this, List.range'_succ, List.filter_cons]
      by_cases hcc : cond c <;> simp [hcc]
    · have : n - c = 0 := by omega
      simp [h, this]

theorem buildJ_eq (cond : Nat → Bool) (n : Nat) : buildJ cond n = (List.range n).filter cond := by
  unfold buildJ
  rw [buildJLoop_eq cond n (n + 2) 0 [] (Nat.zero_le _) (by omega), List.range_eq_range']
  simp

theorem complInner_eq (j : Nat) :
    ∀ (fuel c : Nat) (out : List Nat), j - c + 1 ≤ fuel →
      complInner j fuel c out = (max c j, out ++ List.range' c (j - c)) := by
  intro fuel
  induction fuel with
  | zero => intro c out h; omega
  | succ f ih =>
    intro c out hf
    unfold complInner
    by_cases h : c < j
    · simp only [h, decide_true, if_true]
      rw [ih (c + 1) _ (by omega)]
      have : j - c = (j - (c + 1)) + 1 := by omega
      rw [this, List.range'_succ]
      simp; omega
    · have : j - c = 0 := by omega
      simp [h, this]; omega

theorem complFinal_eq (n : Nat) :
    ∀ (fuel c : Nat) (out : List Nat), n - c + 1 ≤ fuel →
      complFinal n fuel c out = out ++ List.range' c (n - c) := by
  intro fuel
  induction fuel with
  | zero => intro c out h; omega
  | succ f ih =>
    intro c out hf
    unfold complFinal
    by_cases h : c < n
    · simp only [h, decide_true, if_true]
      rw [ih (c + 1) _ (by omega)]
      have : n - c = (n - (c + 1)) + 1 := by omega
      rw [this, List.range'_succ]
      simp
    · have : n - c = 0 := by omega
      simp [h, this]

/-- `compute_complement` started at component `c` with partial output `out`. -/
def complFrom (n : Nat) (J : List Nat) (c : Nat) (out : List Nat) : List Nat :=
  complFinal n (n + 2) (complOuter n J c out).1 (complOuter n J c out).2

theorem complFrom_skip (n : Nat) (J : List Nat) (c : Nat) (out : List Nat) (hc : c < n)
    (hJ : ∀ j ∈ J, c < j ∧ j < n) :
    complFrom n J c out = complFrom n J (c + 1) (out ++ [c]) := by
  cases J with
  | nil =>
    simp only [complFrom, complOuter]
    rw [complFinal_eq n _ _ _ (by omega), complFinal_eq n _ _ _ (by omega)]
    have : n - c = (n - (c + 1)) + 1 := by omega
    rw [this, List.range'_succ]; simp
  | cons j js =>
    have hj := hJ j (List.mem_cons_self ..)
    simp only [complFrom, complOuter]
    rw [complInner_eq j _ _ _ (by omega), complInner_eq j _ _ _ (by omega)]
    have : j - c = (j - (c + 1)) + 1 := by omega
    rw [this, List.range'_succ]
    have h1 : max c j = j := by omega
    have h2 : max (c + 1) j = j := by omega
    simp [h1, h2]

theorem complFrom_filter (cond : Nat → Bool) (n : Nat) :
    ∀ (m c : Nat) (out : List Nat), c + m = n →
      complFrom n ((List.range' c m).filter cond) c out
        = out ++ (List.range' c m).filter (fun i => !cond i) := by
  intro m
  induction m with
  | zero =>
    intro c out h
    simp only [List.range'_zero, List.filter_nil, complFrom, complOuter, List.append_nil]
    rw [complFinal_eq n _ _ _ (by omega)]
    have : n - c = 0 := by omega
    simp [this]
  | succ m ih =>
    intro c out h
    rw [List.range'_succ, List.filter_cons, List.filter_cons]
    by_cases hcc : cond c
    · simp only [hcc, if_true, Bool.not_true, Bool.false_eq_true, if_false]
      have : complFrom n (c :: (List.range' (c + 1) m).filter cond) c out
          = complFrom n ((List.range' (c + 1) m).filter cond) (c + 1) out := by
        simp only [complFrom, complOuter]
        rw [complInner_eq c _ _ _ (by omega)]
        simp
      rw [this, ih (c + 1) out (by omega)]
    · simp only [hcc, Bool.false_eq_true, if_false, Bool.not_false, if_true]
      rw [complFrom_skip n _ c out (by omega), ih (c + 1) _ (by omega)]
      · simp
      · intro j hj
        have := (List.mem_filter.mp hj).1
        rw [List.mem_range'_1] at this
        omega

theorem computeComplement_eq (cond : Nat → Bool) (n : Nat) :
    computeComplement ((List.range n).filter cond) n = (List.range n).filter (fun i => !cond i) := by
  have := complFrom_filter cond n n 0 [] (by omega)
  rw [List.range_eq_range']
  simpa [complFrom, computeComplement] using this

end Alpaqa.C12
