/-
  `Proofs/PanocInv.lean` and the `∇ψ(x̂)`-buffer invariant of `Proofs/C01Panoc.lean`, **relativised to
  well-sized arguments**.

  `OracleLaw P` (consistency of `eval_ψ_grad_ψ` with `eval_ψ` / `eval_grad_L`) quantifies over *every*
  list `x`, also of the wrong length — where neither the C++ (Eigen size assertion) nor the C04 vtable
  contract (`Sound`) says anything.  `OracleLawOn n P` is the same law for `x.length = n` only.  The
  invariants `Good` / `GradHatCons` consume the law at the iterate's own `x̂`; their relativised forms
  `GoodOn n` / `GradHatConsOn n` carry the side condition `x̂.length = n`, which the size invariant of
  the loop (`Proofs/PanocSized.Sized`) provides at every loop head.  Purely structural, any carrier;
  the combination with `Sized` is in `Proofs/C01PanocOn.lean`.

  Every theorem `foo` of `Proofs/PanocInv.lean` / `Proofs/C01Panoc.lean` that mentions `YhatMode` has a
  counterpart `foo_on` here with `YhatModeOn n`; `OracleLaw.on`, `YhatMode.on` go from the
  unrestricted law to the restricted one.

  Last section: the gradient half of the law alone (`GradLawOn`, `GradHatPsiOn`, lemmas `…_ghp`) — the
  `∇ψ(x̂)` buffer holds `eval_grad_L(x̂, ŷ(x̂))` whatever `eval_ψ_grad_ψ` left in its workspace `ŷx̂`; this is
  what `Props/C01_Alm.panoc_satisfies_inner_contract_grad` consumes.
-/
import Mathlib.Tactic.SplitIfs
import Mathlib.Tactic.Basic
import Alpaqa.Proofs.PanocInv

namespace Alpaqa.Panoc
open Alpaqa Alpaqa.Gen
set_option linter.unusedSectionVars false

variable {α D : Type} [Add α] [Sub α] [Mul α] [Div α] [Neg α] [LT α] [LE α] [DecidableLT α]
  [DecidableLE α] [BEq α] [RealLike α] [NatCast α] [OfScientific α]
  [OfNat α 0] [OfNat α 1] [OfNat α 2] [OfNat α 100]

/-- `OracleLaw` on the domain of the oracles: for `x` of size `n`, after
    `eval_ψ_grad_ψ(x, …, grad, work_n, work_m)` the workspace `work_m` holds `ŷ(x)` — what `eval_ψ`
    returns — and `grad = ∇L(x, ŷ(x))` — what `eval_grad_L(x, ŷ(x))` returns.  Nothing is said about
    arguments of another size. -/
def OracleLawOn (n : Nat) (P : Problem α) : Prop :=
  ∀ x, x.length = n →
    (P.psiGradPsi x).2.2 = (P.psi x).2 ∧ (P.psiGradPsi x).2.1 = P.gradL x (P.psi x).2

theorem OracleLaw.on {P : Problem α} (h : OracleLaw P) (n : Nat) : OracleLawOn n P := fun x _ => h x

/-- the unrestricted law is the restricted one at every size -/
theorem oracleLaw_iff_on (P : Problem α) : OracleLaw P ↔ ∀ n, OracleLawOn n P :=
  ⟨fun h n => h.on n, fun h x => h x.length x rfl⟩

/-- Lazy gradient evaluation (the default), or eager evaluation with oracles consistent on `ℝⁿ`. -/
def YhatModeOn (n : Nat) (P : Problem α) (pr : Params α) : Prop :=
  pr.eagerGradientEval = false ∨ OracleLawOn n P

theorem YhatMode.on {P : Problem α} {pr : Params α} (h : YhatMode P pr) (n : Nat) : YhatModeOn n P pr :=
  h.imp id (fun hl => hl.on n)

/-- `YhatModeOn` from a law that is only demanded in eager mode -/
theorem yhatModeOn_of_eager (n : Nat) (P : Problem α) (pr : Params α)
    (h : pr.eagerGradientEval = true → OracleLawOn n P) : YhatModeOn n P pr := by
  rcases Bool.eq_false_or_eq_true pr.eagerGradientEval with he | he
  · exact Or.inr (h he)
  · exact Or.inl he

/-- `ŷx̂` is the ψ oracle's answer at `x̂` — if `x̂` has size `n` (it always has: `Proofs/PanocSized`). -/
def YhatConsOn (n : Nat) (P : Problem α) (pr : Params α) (i : Iterate α) : Prop :=
  YhatModeOn n P pr → i.xhat.length = n → i.yhat = (P.psi i.xhat).2

def GoodOn (n : Nat) (P : Problem α) (pr : Params α) (i : Iterate α) : Prop :=
  ProxCons P i ∧ YhatConsOn n P pr i

/-- Whenever the `∇ψ(x̂)` buffer is flagged valid it holds `eval_grad_L(x̂, ŷ)` of the iterate's own
    `x̂`, `ŷ` — if `x̂` has size `n`. -/
def GradHatConsOn (n : Nat) (P : Problem α) (pr : Params α) (i : Iterate α) : Prop :=
  YhatModeOn n P pr → i.xhat.length = n → i.haveGradHat = true → i.gradPsiHat = P.gradL i.xhat i.yhat

/-! ### `Good`, relativised -/

theorem good_evalStep_on (n : Nat) (P : Problem α) (pr : Params α) (i : Iterate α) :
    GoodOn n P pr (evalPsiHat P pr (evalProxGradStep P i)) := by
  unfold GoodOn ProxCons YhatConsOn YhatModeOn evalPsiHat evalProxGradStep
  by_cases h : pr.eagerGradientEval
  · simp only [h, if_true]
    refine ⟨by simp, fun hm hl => ?_⟩
    rcases hm with hl' | hlaw
    · exact absurd hl' (by simp)
    · exact (hlaw _ hl).1
  · simp [h]

theorem good_of_same_on (n : Nat) (P : Problem α) (pr : Params α) (i j : Iterate α)
    (h : GoodOn n P pr i)
    (hx : j.x = i.x) (hxh : j.xhat = i.xhat) (hg : j.gradPsi = i.gradPsi) (hp : j.p = i.p)
    (hy : j.yhat = i.yhat) (hγ : j.gamma = i.gamma) (hh : j.hxhat = i.hxhat) : GoodOn n P pr j := by
  unfold GoodOn ProxCons YhatConsOn at *
  rw [hx, hxh, hg, hp, hy, hγ, hh]; exact h

theorem good_evalGradPsiHat_on (n : Nat) (P : Problem α) (pr : Params α) (i : Iterate α)
    (h : GoodOn n P pr i) : GoodOn n P pr (evalGradPsiHat P i) :=
  good_of_same_on n P pr i _ h rfl rfl rfl rfl rfl rfl rfl

theorem takeSafeStep_curr_good_on (n : Nat) (P : Problem α) (pr : Params α) (c nx : Iterate α) (t : Nat)
    (h : GoodOn n P pr c) : GoodOn n P pr (takeSafeStep P c nx t).1 := by
  unfold takeSafeStep
  by_cases hh : c.haveGradHat <;> simp only [hh, Bool.not_true, Bool.not_false, if_true, if_false] <;>
    first
    | exact good_of_same_on n P pr c _ h rfl rfl rfl rfl rfl rfl rfl
    | exact good_of_same_on n P pr _ _ (good_evalGradPsiHat_on n P pr c h) rfl rfl rfl rfl rfl rfl rfl

theorem lsRecompute_good_on (n : Nat) (P : Problem α) (pr : Params α) (q : Vec α) (s : LS α D)
    (h : GoodOn n P pr s.curr) :
    GoodOn n P pr (lsRecompute P q s).curr ∧ (lsRecompute P q s).fuelOut = s.fuelOut := by
  unfold lsRecompute
  split_ifs
  · exact ⟨h, rfl⟩
  · exact ⟨takeSafeStep_curr_good_on n P pr _ _ _ h, rfl⟩
  · exact ⟨h, rfl⟩

theorem lsPass_good_on (n : Nat) (P : Problem α) (dir : Direction D α) (pr : Params α) (q : Vec α)
    (tauInit : α) (s : LS α D) (h : GoodOn n P pr s.curr) :
    match lsPass P dir pr q tauInit s with
    | .done s' => GoodOn n P pr s'.curr ∧ GoodOn n P pr s'.next ∧ s'.fuelOut = s.fuelOut
    | .again s' => GoodOn n P pr s'.curr ∧ s'.fuelOut = s.fuelOut := by
  have h1 := lsRecompute_good_on n P pr q s h
  unfold lsPass
  simp only []
  split_ifs <;>
    first
    | exact ⟨h1.1, h1.2⟩
    | exact ⟨by rw [(lsUpdateInCandidate_same dir _).1]; exact h1.1,
             by rw [(lsUpdateInCandidate_same dir _).2.2]; exact h1.2⟩
    | exact ⟨by rw [(lsUpdateInCandidate_same dir _).1]; exact h1.1,
             by rw [(lsUpdateInCandidate_same dir _).2.1]; exact good_evalStep_on n P pr _,
             by rw [(lsUpdateInCandidate_same dir _).2.2]; exact h1.2⟩

theorem lineSearch_good_on (n : Nat) (P : Problem α) (dir : Direction D α) (pr : Params α)
    (stop : Nat → Bool) (q : Vec α) (tauInit : α) (fuel : Nat) (s : LS α D) (h : GoodOn n P pr s.curr)
    (hf : s.fuelOut = false) :
    GoodOn n P pr (lineSearch P dir pr stop q tauInit fuel s).curr ∧
    ((lineSearch P dir pr stop q tauInit fuel s).fuelOut = false →
      stop (lineSearch P dir pr stop q tauInit fuel s).tick = false →
      GoodOn n P pr (lineSearch P dir pr stop q tauInit fuel s).next) := by
  induction fuel generalizing s with
  | zero => simp [lineSearch, h]
  | succ f ih =>
    unfold lineSearch
    by_cases hst : stop s.tick
    · simp only [hst, if_true]
      exact ⟨h, fun _ h2 => absurd h2 (by decide)⟩
    · simp only [hst, Bool.false_eq_true, if_false]
      have hp := lsPass_good_on n P dir pr q tauInit s h
      cases hpass : lsPass P dir pr q tauInit s with
      | done s' =>
        rw [hpass] at hp
        exact ⟨hp.1, fun _ _ => hp.2.1⟩
      | again s' =>
        rw [hpass] at hp
        exact ih s' hp.1 (by rw [hp.2, hf])

theorem initQub_good_on (n : Nat) (P : Problem α) (pr : Params α) (stop : Nat → Bool) (f : Nat)
    (c : Iterate α) (t b : Nat) (h : GoodOn n P pr c) : GoodOn n P pr (initQub P pr stop f c t b).1 := by
  induction f generalizing c t b with
  | zero => simpa [initQub] using h
  | succ f ih =>
    unfold initQub
    split_ifs
    · exact h
    · exact ih _ _ _ (good_evalStep_on n P pr _)
    · exact h

theorem initState_good_on (n : Nat) (P : Problem α) (d0 : D) (pr : Params α) (stop : Nat → Bool)
    (x0 gV : Vec α) (gS iS : α) (s : St α D) (h : initState P d0 pr stop x0 gV gS iS = .inr s) :
    GoodOn n P pr s.curr := by
  unfold initState at h
  simp only [] at h
  split_ifs at h
  all_goals first
    | (injection h with h; subst h; exact initQub_good_on n P pr stop _ _ _ _ (good_evalStep_on n P pr _))
    | (exact absurd h (by simp))

theorem headEvalYhat_good_on (n : Nat) (P : Problem α) (pr : Params α) (c : Iterate α)
    (h : GoodOn n P pr c) : GoodOn n P pr (headEvalYhat P pr c).1 := by
  unfold headEvalYhat
  split_ifs
  · exact ⟨h.1, fun _ _ => rfl⟩
  · exact h

theorem headEvalYhat_valid_on (n : Nat) (P : Problem α) (pr : Params α) (c : Iterate α)
    (h : GoodOn n P pr c) (hl : c.xhat.length = n) (hv : headYhatValid pr c = true) :
    (headEvalYhat P pr c).1.yhat = (P.psi (headEvalYhat P pr c).1.xhat).2 := by
  unfold headYhatValid at hv
  unfold headEvalYhat
  by_cases he : pr.eagerGradientEval = true
  · have hr : headReadsYhat pr c = true := by simpa [he] using hv
    simp only [he, hr, Bool.and_self, if_true]
  · have he' : pr.eagerGradientEval = false := by simpa using he
    simp only [he', Bool.false_and, Bool.false_eq_true, if_false]
    exact h.2 (Or.inl he') hl

theorem headStep_good_on (n : Nat) (P : Problem α) (pr : Params α) (stop : Nat → Bool) (oot : Bool)
    (s : St α D) (h : GoodOn n P pr s.curr) :
    GoodOn n P pr (headStep P pr stop oot s).1.curr ∧
      (headStep P pr stop oot s).1.fuelOut = s.fuelOut := by
  have hc := headStep_curr P pr stop oot s
  rw [hc.1]
  refine ⟨?_, hc.2.2⟩
  split_ifs
  · exact good_evalGradPsiHat_on n P pr _ (headEvalYhat_good_on n P pr _ h)
  · exact headEvalYhat_good_on n P pr _ h

/-- At the state a loop head leaves, `ŷx̂ = ŷ(x̂)` whenever `have_ŷx̂` is set (`x̂` of size `n`). -/
theorem headStep_yhatValid_on (n : Nat) (P : Problem α) (pr : Params α) (stop : Nat → Bool) (oot : Bool)
    (s : St α D) (h : GoodOn n P pr s.curr) (hl : s.curr.xhat.length = n) :
    (headStep P pr stop oot s).1.yhatValid = true →
      (headStep P pr stop oot s).1.curr.yhat = (P.psi (headStep P pr stop oot s).1.curr.xhat).2 := by
  have hc := headStep_curr P pr stop oot s
  rw [hc.1, hc.2.1]
  intro hv
  have hy := headEvalYhat_valid_on n P pr s.curr h hl hv
  split_ifs
  · exact hy
  · exact hy

theorem iterBody_good_on (n : Nat) (P : Problem α) (dir : Direction D α) (pr : Params α)
    (stop : Nat → Bool) (s : St α D) (eps : α) (h : GoodOn n P pr s.curr) (hf : s.fuelOut = false)
    (hf' : (iterBody P dir pr stop s eps).fuelOut = false) :
    GoodOn n P pr (iterBody P dir pr stop s eps).curr := by
  unfold iterBody at hf' ⊢
  simp only [] at hf' ⊢
  generalize hls : lineSearch P dir pr stop (directionStage dir s).2.2.1 (directionStage dir s).2.2.2.1
      pr.lsFuel _ = ls at hf' ⊢
  have hgood := lineSearch_good_on n P dir pr stop (directionStage dir s).2.2.1
      (directionStage dir s).2.2.2.1 pr.lsFuel
      { curr := s.curr, next := { s.next with gamma := s.curr.gamma, L := s.curr.L },
        d := (directionStage dir s).1, tick := (directionStage dir s).2.1,
        tau := (directionStage dir s).2.2.2.1, tauPrev := -1, updInLs := pr.updateDirInCandidate,
        updated := false, dirRejected := true, lsBacktracks := 0, stepsizeBacktracks := 0,
        lbfgsRejected := 0 } h rfl
  rw [hls] at hgood
  by_cases hst : stop ls.tick
  · simp only [hst, if_true] at hf' ⊢
    exact hgood.1
  · simp only [hst, Bool.false_eq_true, if_false] at hf' ⊢
    have hlsf : ls.fuelOut = false := by
      rw [hf] at hf'; simpa using hf'
    exact hgood.2 hlsf (by simpa using hst)

/-- `exitBlock_ok` reads only the prox half of `Good`. -/
theorem exitBlock_ok_of_proxCons (P : Problem α) (pr : Params α) (s : St α D) (eps : α)
    (status : SolverStatus) (x0 y Sig errz0 : Vec α) (h : ProxCons P s.curr)
    (hyv : s.yhatValid = true → s.curr.yhat = (P.psi s.curr.xhat).2) :
    ExitOK P x0 y Sig errz0 (exitBlock P pr s eps status x0 y Sig errz0) ∧
    (exitBlock P pr s eps status x0 y Sig errz0).wrote =
      (status == .Converged || status == .Interrupted || pr.alwaysOverwrite) ∧
    (exitBlock P pr s eps status x0 y Sig errz0).stats.status = status ∧
    (exitBlock P pr s eps status x0 y Sig errz0).stats.iterations = s.k ∧
    (exitBlock P pr s eps status x0 y Sig errz0).stats.eps = eps := by
  unfold exitBlock ExitOK
  simp only []
  refine ⟨⟨?_, ?_⟩, ?_, ?_, ?_, ?_⟩ <;> try (first | rfl | trivial)
  · intro hw
    simp only [hw, Bool.true_and, if_true]
    by_cases he : s.yhatValid = true
    · simp only [he, Bool.not_true, Bool.false_eq_true, if_false]
      refine ⟨⟨_, _, _, h.2.1⟩, ?_, by first | rfl | trivial⟩
      exact hyv he
    · have he' : s.yhatValid = false := by simpa using he
      simp only [he', Bool.not_false, if_true]
      exact ⟨⟨_, _, _, h.2.1⟩, by first | rfl | trivial, by first | rfl | trivial⟩
  · intro hw
    simp only [hw, Bool.false_eq_true, if_false, Bool.false_and]
    exact ⟨by first | rfl | trivial, by first | rfl | trivial, by first | rfl | trivial⟩

/-! ### The `∇ψ(x̂)` buffer invariant, relativised -/

theorem gh_of_flag_false_on (n : Nat) (P : Problem α) (pr : Params α) (i : Iterate α)
    (h : i.haveGradHat = false) : GradHatConsOn n P pr i := by
  intro _ _ h2; rw [h] at h2; cases h2

theorem gh_evalStep_on (n : Nat) (P : Problem α) (pr : Params α) (i : Iterate α) :
    GradHatConsOn n P pr (evalPsiHat P pr (evalProxGradStep P i)) := by
  intro hm
  unfold evalPsiHat
  by_cases h : pr.eagerGradientEval
  · simp only [h, if_true]
    rcases hm with hl | hlaw
    · exact absurd hl (by simp [h])
    · intro hlen _
      show (P.psiGradPsi _).2.1 = P.gradL _ (P.psiGradPsi _).2.2
      rw [(hlaw _ hlen).1, (hlaw _ hlen).2]
  · simp [h]

theorem gh_evalGradPsiHat_on (n : Nat) (P : Problem α) (pr : Params α) (i : Iterate α) :
    GradHatConsOn n P pr (evalGradPsiHat P i) := fun _ _ _ => rfl

theorem takeSafeStep_curr_gh_on (n : Nat) (P : Problem α) (pr : Params α) (c nx : Iterate α) (t : Nat) :
    GradHatConsOn n P pr (takeSafeStep P c nx t).1 := by
  apply gh_of_flag_false_on
  unfold takeSafeStep
  by_cases hh : c.haveGradHat <;> simp

theorem lsRecompute_gh_on (n : Nat) (P : Problem α) (pr : Params α) (q : Vec α) (s : LS α D)
    (h : GradHatConsOn n P pr s.curr) : GradHatConsOn n P pr (lsRecompute P q s).curr := by
  unfold lsRecompute
  split_ifs
  · exact h
  · exact takeSafeStep_curr_gh_on n P pr _ _ _
  · exact h

theorem lsPass_gh_on (n : Nat) (P : Problem α) (dir : Direction D α) (pr : Params α) (q : Vec α)
    (tauInit : α) (s : LS α D) (h : GradHatConsOn n P pr s.curr) :
    match lsPass P dir pr q tauInit s with
    | .done s' => GradHatConsOn n P pr s'.curr ∧ GradHatConsOn n P pr s'.next
    | .again s' => GradHatConsOn n P pr s'.curr := by
  have h1 := lsRecompute_gh_on n P pr q s h
  unfold lsPass
  simp only []
  split_ifs <;>
    first
    | exact h1
    | (rw [(lsUpdateInCandidate_same dir _).1]; exact h1)
    | exact ⟨by rw [(lsUpdateInCandidate_same dir _).1]; exact h1,
             by rw [(lsUpdateInCandidate_same dir _).2.1]; exact gh_evalStep_on n P pr _⟩

theorem lineSearch_gh_on (n : Nat) (P : Problem α) (dir : Direction D α) (pr : Params α)
    (stop : Nat → Bool) (q : Vec α) (tauInit : α) (fuel : Nat) (s : LS α D)
    (h : GradHatConsOn n P pr s.curr) :
    GradHatConsOn n P pr (lineSearch P dir pr stop q tauInit fuel s).curr ∧
    ((lineSearch P dir pr stop q tauInit fuel s).fuelOut = false →
      stop (lineSearch P dir pr stop q tauInit fuel s).tick = false →
      GradHatConsOn n P pr (lineSearch P dir pr stop q tauInit fuel s).next) := by
  induction fuel generalizing s with
  | zero => simp [lineSearch, h]
  | succ f ih =>
    unfold lineSearch
    by_cases hst : stop s.tick
    · simp only [hst, if_true]
      exact ⟨h, fun _ h2 => absurd h2 (by decide)⟩
    · simp only [hst, Bool.false_eq_true, if_false]
      have hp := lsPass_gh_on n P dir pr q tauInit s h
      cases hpass : lsPass P dir pr q tauInit s with
      | done s' =>
        rw [hpass] at hp
        exact ⟨hp.1, fun _ _ => hp.2⟩
      | again s' =>
        rw [hpass] at hp
        exact ih s' hp

theorem initQub_gh_on (n : Nat) (P : Problem α) (pr : Params α) (stop : Nat → Bool) (f : Nat)
    (c : Iterate α) (t b : Nat) (h : GradHatConsOn n P pr c) :
    GradHatConsOn n P pr (initQub P pr stop f c t b).1 := by
  induction f generalizing c t b with
  | zero => simpa [initQub] using h
  | succ f ih =>
    unfold initQub
    split_ifs
    · exact h
    · exact ih _ _ _ (gh_evalStep_on n P pr _)
    · exact h

theorem initState_gh_on (n : Nat) (P : Problem α) (d0 : D) (pr : Params α) (stop : Nat → Bool)
    (x0 gV : Vec α) (gS iS : α) (s : St α D) (h : initState P d0 pr stop x0 gV gS iS = .inr s) :
    GradHatConsOn n P pr s.curr := by
  unfold initState at h
  simp only [] at h
  split_ifs at h
  all_goals first
    | (injection h with h; subst h; exact initQub_gh_on n P pr stop _ _ _ _ (gh_evalStep_on n P pr _))
    | (exact absurd h (by simp))

/-- the head's `ŷ` evaluation (eager mode) keeps the buffer invariant: under `YhatModeOn` the value
    written is the one `ŷx̂` already held -/
theorem headEvalYhat_gh_on (n : Nat) (P : Problem α) (pr : Params α) (c : Iterate α)
    (hg : GoodOn n P pr c) (h : GradHatConsOn n P pr c) :
    GradHatConsOn n P pr (headEvalYhat P pr c).1 := by
  unfold headEvalYhat
  split_ifs
  · intro hm hl hh
    show c.gradPsiHat = P.gradL c.xhat (P.psi c.xhat).2
    rw [← hg.2 hm hl]; exact h hm hl hh
  · exact h

theorem headStep_gh_on (n : Nat) (P : Problem α) (pr : Params α) (stop : Nat → Bool) (oot : Bool)
    (s : St α D) (hg : GoodOn n P pr s.curr) (h : GradHatConsOn n P pr s.curr) :
    GradHatConsOn n P pr (headStep P pr stop oot s).1.curr ∧
    (requiresGradHat pr.stopCrit = true → (headStep P pr stop oot s).1.curr.haveGradHat = true) := by
  have hy := headEvalYhat_gh_on n P pr s.curr hg h
  rw [(headStep_curr P pr stop oot s).1]
  by_cases hr : requiresGradHat pr.stopCrit = true
  · by_cases hh : (headEvalYhat P pr s.curr).1.haveGradHat = true
    · simp only [hr, hh, Bool.not_true, Bool.and_false, Bool.false_eq_true, if_false]
      exact ⟨hy, fun _ => by first | exact hh | trivial⟩
    · have hh' : (headEvalYhat P pr s.curr).1.haveGradHat = false := by simpa using hh
      simp only [hr, hh', Bool.not_false, Bool.and_true, if_true]
      exact ⟨gh_evalGradPsiHat_on n P pr _, fun _ => rfl⟩
  · have hr' : requiresGradHat pr.stopCrit = false := by simpa using hr
    simp only [hr', Bool.false_and, Bool.false_eq_true, if_false]
    exact ⟨hy, fun hc => absurd hc (by simp)⟩

theorem iterBody_gh_on (n : Nat) (P : Problem α) (dir : Direction D α) (pr : Params α)
    (stop : Nat → Bool) (s : St α D) (eps : α) (h : GradHatConsOn n P pr s.curr) (hf : s.fuelOut = false)
    (hf' : (iterBody P dir pr stop s eps).fuelOut = false) :
    GradHatConsOn n P pr (iterBody P dir pr stop s eps).curr := by
  unfold iterBody at hf' ⊢
  simp only [] at hf' ⊢
  generalize hls : lineSearch P dir pr stop (directionStage dir s).2.2.1 (directionStage dir s).2.2.2.1
      pr.lsFuel _ = ls at hf' ⊢
  have hgood := lineSearch_gh_on n P dir pr stop (directionStage dir s).2.2.1
      (directionStage dir s).2.2.2.1 pr.lsFuel
      { curr := s.curr, next := { s.next with gamma := s.curr.gamma, L := s.curr.L },
        d := (directionStage dir s).1, tick := (directionStage dir s).2.1,
        tau := (directionStage dir s).2.2.2.1, tauPrev := -1, updInLs := pr.updateDirInCandidate,
        updated := false, dirRejected := true, lsBacktracks := 0, stepsizeBacktracks := 0,
        lbfgsRejected := 0 } h
  rw [hls] at hgood
  by_cases hst : stop ls.tick
  · simp only [hst, if_true] at hf' ⊢
    exact hgood.1
  · simp only [hst, Bool.false_eq_true, if_false] at hf' ⊢
    have hlsf : ls.fuelOut = false := by
      rw [hf] at hf'; simpa using hf'
    exact hgood.2 hlsf (by simpa using hst)

/-! ### The gradient half of the law alone: nothing about the workspace

  `OracleLawOn`'s first half says that `eval_ψ_grad_ψ` leaves `ŷ(x)` in `work_m`.  PANOC does not rely on
  it: with `eager_gradient_eval` it treats `ŷx̂` as workspace (`have_ŷx̂ = !eager_gradient_eval`) and
  re-evaluates `eval_ψ` where `ŷ` is read (`headEvalYhat`, the exit block).  What the `∇ψ(x̂)` buffer
  needs is the second half only — `GradLawOn` —, with the buffer invariant stated against `ŷ(x̂)`
  instead of the content of `ŷx̂` (`GradHatPsiOn`). -/

/-- The gradient `eval_ψ_grad_ψ` returns at `x ∈ ℝⁿ` is `∇L(x, ŷ(x))` — `eval_grad_L` at the `ŷ` of
    `eval_ψ`.  Nothing about `work_m`. -/
def GradLawOn (n : Nat) (P : Problem α) : Prop :=
  ∀ x, x.length = n → (P.psiGradPsi x).2.1 = P.gradL x (P.psi x).2

theorem OracleLawOn.grad {n : Nat} {P : Problem α} (h : OracleLawOn n P) : GradLawOn n P :=
  fun x hx => (h x hx).2

/-- Lazy gradient evaluation, or eager evaluation with a consistent gradient on `ℝⁿ`. -/
def GradModeOn (n : Nat) (P : Problem α) (pr : Params α) : Prop :=
  pr.eagerGradientEval = false ∨ GradLawOn n P

theorem YhatModeOn.grad {n : Nat} {P : Problem α} {pr : Params α} (h : YhatModeOn n P pr) :
    GradModeOn n P pr := h.imp id OracleLawOn.grad

theorem gradModeOn_of_eager (n : Nat) (P : Problem α) (pr : Params α)
    (h : pr.eagerGradientEval = true → GradLawOn n P) : GradModeOn n P pr := by
  rcases Bool.eq_false_or_eq_true pr.eagerGradientEval with he | he
  · exact Or.inr (h he)
  · exact Or.inl he

/-- Whenever the `∇ψ(x̂)` buffer is flagged valid it holds `eval_grad_L(x̂, ŷ(x̂))` — `ŷ(x̂)` as `eval_ψ`
    returns it, whatever `ŷx̂` currently holds (`x̂` of size `n`). -/
def GradHatPsiOn (n : Nat) (P : Problem α) (pr : Params α) (i : Iterate α) : Prop :=
  GradModeOn n P pr → i.xhat.length = n → i.haveGradHat = true →
    i.gradPsiHat = P.gradL i.xhat (P.psi i.xhat).2

theorem ghp_of_flag_false (n : Nat) (P : Problem α) (pr : Params α) (i : Iterate α)
    (h : i.haveGradHat = false) : GradHatPsiOn n P pr i := by
  intro _ _ h2; rw [h] at h2; cases h2

theorem ghp_evalStep (n : Nat) (P : Problem α) (pr : Params α) (i : Iterate α) :
    GradHatPsiOn n P pr (evalPsiHat P pr (evalProxGradStep P i)) := by
  intro hm
  unfold evalPsiHat
  by_cases h : pr.eagerGradientEval
  · simp only [h, if_true]
    rcases hm with hl | hlaw
    · exact absurd hl (by simp [h])
    · intro hlen _
      exact hlaw _ hlen
  · simp [h]

/-- `eval_grad_ψx̂` on an iterate whose `ŷx̂` is `ŷ(x̂)` -/
theorem ghp_evalGradPsiHat (n : Nat) (P : Problem α) (pr : Params α) (i : Iterate α)
    (hy : i.yhat = (P.psi i.xhat).2) : GradHatPsiOn n P pr (evalGradPsiHat P i) := by
  intro _ _ _
  show P.gradL i.xhat i.yhat = P.gradL i.xhat (P.psi i.xhat).2
  rw [hy]

theorem takeSafeStep_curr_ghp (n : Nat) (P : Problem α) (pr : Params α) (c nx : Iterate α) (t : Nat) :
    GradHatPsiOn n P pr (takeSafeStep P c nx t).1 := by
  apply ghp_of_flag_false
  unfold takeSafeStep
  by_cases hh : c.haveGradHat <;> simp

theorem lsRecompute_ghp (n : Nat) (P : Problem α) (pr : Params α) (q : Vec α) (s : LS α D)
    (h : GradHatPsiOn n P pr s.curr) : GradHatPsiOn n P pr (lsRecompute P q s).curr := by
  unfold lsRecompute
  split_ifs
  · exact h
  · exact takeSafeStep_curr_ghp n P pr _ _ _
  · exact h

theorem lsPass_ghp (n : Nat) (P : Problem α) (dir : Direction D α) (pr : Params α) (q : Vec α)
    (tauInit : α) (s : LS α D) (h : GradHatPsiOn n P pr s.curr) :
    match lsPass P dir pr q tauInit s with
    | .done s' => GradHatPsiOn n P pr s'.curr ∧ GradHatPsiOn n P pr s'.next
    | .again s' => GradHatPsiOn n P pr s'.curr := by
  have h1 := lsRecompute_ghp n P pr q s h
  unfold lsPass
  simp only []
  split_ifs <;>
    first
    | exact h1
    | (rw [(lsUpdateInCandidate_same dir _).1]; exact h1)
    | exact ⟨by rw [(lsUpdateInCandidate_same dir _).1]; exact h1,
             by rw [(lsUpdateInCandidate_same dir _).2.1]; exact ghp_evalStep n P pr _⟩

theorem lineSearch_ghp (n : Nat) (P : Problem α) (dir : Direction D α) (pr : Params α)
    (stop : Nat → Bool) (q : Vec α) (tauInit : α) (fuel : Nat) (s : LS α D)
    (h : GradHatPsiOn n P pr s.curr) :
    GradHatPsiOn n P pr (lineSearch P dir pr stop q tauInit fuel s).curr ∧
    ((lineSearch P dir pr stop q tauInit fuel s).fuelOut = false →
      stop (lineSearch P dir pr stop q tauInit fuel s).tick = false →
      GradHatPsiOn n P pr (lineSearch P dir pr stop q tauInit fuel s).next) := by
  induction fuel generalizing s with
  | zero => simp [lineSearch, h]
  | succ f ih =>
    unfold lineSearch
    by_cases hst : stop s.tick
    · simp only [hst, if_true]
      exact ⟨h, fun _ h2 => absurd h2 (by decide)⟩
    · simp only [hst, Bool.false_eq_true, if_false]
      have hp := lsPass_ghp n P dir pr q tauInit s h
      cases hpass : lsPass P dir pr q tauInit s with
      | done s' =>
        rw [hpass] at hp
        exact ⟨hp.1, fun _ _ => hp.2⟩
      | again s' =>
        rw [hpass] at hp
        exact ih s' hp

theorem initQub_ghp (n : Nat) (P : Problem α) (pr : Params α) (stop : Nat → Bool) (f : Nat)
    (c : Iterate α) (t b : Nat) (h : GradHatPsiOn n P pr c) :
    GradHatPsiOn n P pr (initQub P pr stop f c t b).1 := by
  induction f generalizing c t b with
  | zero => simpa [initQub] using h
  | succ f ih =>
    unfold initQub
    split_ifs
    · exact h
    · exact ih _ _ _ (ghp_evalStep n P pr _)
    · exact h

theorem initState_ghp (n : Nat) (P : Problem α) (d0 : D) (pr : Params α) (stop : Nat → Bool)
    (x0 gV : Vec α) (gS iS : α) (s : St α D) (h : initState P d0 pr stop x0 gV gS iS = .inr s) :
    GradHatPsiOn n P pr s.curr := by
  unfold initState at h
  simp only [] at h
  split_ifs at h
  all_goals first
    | (injection h with h; subst h; exact initQub_ghp n P pr stop _ _ _ _ (ghp_evalStep n P pr _))
    | (exact absurd h (by simp))

/-- the head's `ŷ` evaluation only writes `ŷx̂`, which the invariant does not mention -/
theorem headEvalYhat_ghp (n : Nat) (P : Problem α) (pr : Params α) (c : Iterate α)
    (h : GradHatPsiOn n P pr c) : GradHatPsiOn n P pr (headEvalYhat P pr c).1 := by
  have hf := headEvalYhat_fields P pr c
  intro hm hl hh
  rw [hf.2.1] at hl ⊢
  rw [hf.2.2.2.2.2.2.1] at hh
  rw [hf.2.2.2.2.2.2.2.1]
  exact h hm hl hh

/-- At a loop head the buffer invariant is kept — where the head recomputes `∇ψ(x̂)` it has a valid `ŷ`:
    with lazy evaluation always (`GoodOn`), with eager evaluation because the head evaluated it just
    before (`headReadsYhat`) — and if the criterion reads `∇ψ(x̂)` the buffer is valid afterwards. -/
theorem headStep_ghp (n : Nat) (P : Problem α) (pr : Params α) (stop : Nat → Bool) (oot : Bool)
    (s : St α D) (hg : GoodOn n P pr s.curr) (hl : s.curr.xhat.length = n)
    (h : GradHatPsiOn n P pr s.curr) :
    GradHatPsiOn n P pr (headStep P pr stop oot s).1.curr ∧
    (requiresGradHat pr.stopCrit = true → (headStep P pr stop oot s).1.curr.haveGradHat = true) := by
  have hy := headEvalYhat_ghp n P pr s.curr h
  have hf := headEvalYhat_fields P pr s.curr
  rw [(headStep_curr P pr stop oot s).1]
  by_cases hr : requiresGradHat pr.stopCrit = true
  · by_cases hh : (headEvalYhat P pr s.curr).1.haveGradHat = true
    · simp only [hr, hh, Bool.not_true, Bool.and_false, Bool.false_eq_true, if_false]
      exact ⟨hy, fun _ => by first | exact hh | trivial⟩
    · have hh' : (headEvalYhat P pr s.curr).1.haveGradHat = false := by simpa using hh
      simp only [hr, hh', Bool.not_false, Bool.and_true, if_true]
      refine ⟨ghp_evalGradPsiHat n P pr _ ?_, fun _ => rfl⟩
      apply headEvalYhat_valid_on n P pr s.curr hg hl
      have hc : s.curr.haveGradHat = false := by rw [← hf.2.2.2.2.2.2.1]; exact hh'
      simp [headYhatValid, headReadsYhat, hr, hc]
  · have hr' : requiresGradHat pr.stopCrit = false := by simpa using hr
    simp only [hr', Bool.false_and, Bool.false_eq_true, if_false]
    exact ⟨hy, fun hc => absurd hc (by simp)⟩

theorem iterBody_ghp (n : Nat) (P : Problem α) (dir : Direction D α) (pr : Params α)
    (stop : Nat → Bool) (s : St α D) (eps : α) (h : GradHatPsiOn n P pr s.curr) (hf : s.fuelOut = false)
    (hf' : (iterBody P dir pr stop s eps).fuelOut = false) :
    GradHatPsiOn n P pr (iterBody P dir pr stop s eps).curr := by
  unfold iterBody at hf' ⊢
  simp only [] at hf' ⊢
  generalize hls : lineSearch P dir pr stop (directionStage dir s).2.2.1 (directionStage dir s).2.2.2.1
      pr.lsFuel _ = ls at hf' ⊢
  have hgood := lineSearch_ghp n P dir pr stop (directionStage dir s).2.2.1
      (directionStage dir s).2.2.2.1 pr.lsFuel
      { curr := s.curr, next := { s.next with gamma := s.curr.gamma, L := s.curr.L },
        d := (directionStage dir s).1, tick := (directionStage dir s).2.1,
        tau := (directionStage dir s).2.2.2.1, tauPrev := -1, updInLs := pr.updateDirInCandidate,
        updated := false, dirRejected := true, lsBacktracks := 0, stepsizeBacktracks := 0,
        lbfgsRejected := 0 } h
  rw [hls] at hgood
  by_cases hst : stop ls.tick
  · simp only [hst, if_true] at hf' ⊢
    exact hgood.1
  · simp only [hst, Bool.false_eq_true, if_false] at hf' ⊢
    have hlsf : ls.fuelOut = false := by
      rw [hf] at hf'; simpa using hf'
    exact hgood.2 hlsf (by simpa using hst)

end Alpaqa.Panoc
