/-
  C08: the model's list vectors as elements of the module `ℕ → α` (`toFn l i = l.getD i 0`), with
  the left-fold `dot` / `sqNorm` of `Model/Vec.lean` as the inner product `ipN n` (sum of the first
  `n` coordinate products).  For vectors of the common length `n` the list operations `vadd`,
  `vsub`, `smul` are the module operations and `dot` is `ipN n`.
-/
import Mathlib.Algebra.BigOperators.Group.Finset.Basic
import Mathlib.Algebra.BigOperators.Ring.Finset
import Mathlib.Algebra.Order.BigOperators.Ring.Finset
import Mathlib.Algebra.Module.Pi
import Alpaqa.Proofs.Basic
import Alpaqa.Proofs.C08Core

namespace Alpaqa.C08
open Alpaqa Finset
set_option linter.unusedSectionVars false

variable {α : Type} [Field α] [LinearOrder α] [IsStrictOrderedRing α]

/-- a list vector as a sequence (zero beyond its length) -/
def toFn (l : List α) : ℕ → α := fun i => l.getD i 0

/-- `⟨a, b⟩ = Σ_{i<n} aᵢ bᵢ` -/
def ipN (n : ℕ) (a b : ℕ → α) : α := ∑ i ∈ range n, a i * b i

theorem isIP_ipN (n : ℕ) : IsIP (ipN (α := α) n) where
  add_left a b c := by simp [ipN, add_mul, sum_add_distrib]
  smul_left r a b := by simp [ipN, mul_sum, mul_assoc]
  comm a b := by simp [ipN, mul_comm]
  nonneg a := sum_nonneg fun i _ => mul_self_nonneg (a i)

theorem getD_zipWith (f : α → α → α) (hf : f 0 0 = 0) (a b : List α) (h : a.length = b.length)
    (i : ℕ) : (List.zipWith f a b).getD i 0 = f (a.getD i 0) (b.getD i 0) := by
  induction a generalizing b i with
  | nil =>
    cases b with
    | nil => simp [hf]
    | cons y ys => simp at h
  | cons x xs ih =>
    cases b with
    | nil => simp at h
    | cons y ys =>
      cases i with
      | zero => simp
      | succ i => simpa using ih ys (by simpa using h) i

theorem toFn_vadd (a b : List α) (h : a.length = b.length) : toFn (vadd a b) = toFn a + toFn b := by
  funext i; exact getD_zipWith (· + ·) (by simp) a b h i

theorem toFn_vsub (a b : List α) (h : a.length = b.length) : toFn (vsub a b) = toFn a - toFn b := by
  funext i; exact getD_zipWith (· - ·) (by simp) a b h i

theorem toFn_smul (c : α) (a : List α) : toFn (smul c a) = c • toFn a := by
  funext i
  simp only [toFn, smul, Pi.smul_apply, smul_eq_mul]
  induction a generalizing i with
  | nil => simp
  | cons x xs ih =>
    cases i with
    | zero => simp
    | succ i => simpa using ih i

theorem length_vadd (a b : List α) (h : a.length = b.length) : (vadd a b).length = a.length := by
  simp [vadd, vzip, h]
theorem length_vsub (a b : List α) (h : a.length = b.length) : (vsub a b).length = a.length := by
  simp [vsub, vzip, h]
theorem length_smul (c : α) (a : List α) : (smul c a).length = a.length := by simp [smul]

theorem foldl_add_eq (xs : List α) (a : α) : xs.foldl (· + ·) a = a + xs.sum := by
  induction xs generalizing a with
  | nil => simp
  | cons x xs ih => simp [ih, add_assoc]

theorem vsum_eq_sum (l : List α) : vsum l = l.sum := by
  cases l with
  | nil => rfl
  | cons x xs => simp [vsum, redux, foldl_add_eq]

theorem list_sum_eq_range (l : List α) : l.sum = ∑ i ∈ range l.length, l.getD i 0 := by
  induction l with
  | nil => simp
  | cons x xs ih =>
    rw [List.sum_cons, List.length_cons, sum_range_succ', ih]
    simp [add_comm]

/-- the model's left-fold `dot` is the inner product of the common length -/
theorem dot_eq_ipN (a b : List α) (h : a.length = b.length) :
    dot a b = ipN a.length (toFn a) (toFn b) := by
  unfold dot vmul vzip
  rw [vsum_eq_sum, list_sum_eq_range]
  have hl : (List.zipWith (· * ·) a b).length = a.length := by simp [h]
  rw [hl]
  unfold ipN toFn
  apply sum_congr rfl
  intro i _
  exact getD_zipWith (· * ·) (by simp) a b h i

theorem sqNorm_eq_ipN (a : List α) : sqNorm a = ipN a.length (toFn a) (toFn a) := by
  have : sqNorm a = dot a a := by
    unfold sqNorm dot vmul vzip
    congr 1
    induction a with
    | nil => rfl
    | cons x xs ih => rw [List.map_cons, List.zipWith_cons_cons, ih]
  rw [this, dot_eq_ipN a a rfl]

end Alpaqa.C08
