/-
  A concrete instance of the PANOC loop model over ℚ, used by the non-vacuity `example`s of
  `Props/C05.lean`, `Props/C06_Panoc.lean`, `Props/C19_Panoc.lean`:
  ψ(x) = ½‖x‖², no constraints, h = 0 (so the prox step is the gradient step), a direction provider
  that never produces a direction (every step is the safeguarded one), `L₀ = 2`, `Lγ_factor = 19/20`,
  `L_max = 4` (so that `L_max ≤ L₀·2¹`: the fuel bound of `Proofs/PanocFuel` is met with `n = 1`,
  `K = 9`, and with `n = 6` for `L₀ = 1/16`).
  The run from `x₀ = [1]` with tolerance ½ on `‖p‖∞/γ` takes two iterations.

  Further instances (used by `Props/C03`, `C05`, `C06_Panoc`):
  * `Pm` — `n = 1`, `m = 1`: `f = ½(x−2)²`, `g(x) = x ≤ 1` (`y = 0`, `Σ = 1` closed over), box
    `C = [0, 3]` with the shipped prox step `C15.proxGradStep`;
  * `dirNewton` — a provider whose `apply` always succeeds with `q = −∇ψ(x)` (the Newton step of `Pq`,
    `Pbox`): the accelerated step `τ = 1` is accepted;
  * `Pstuck` — an oracle modelling absorption (`x ⊕ p = x` although `p ≠ 0`): the iterate never moves,
    the run ends `NoProgress`;
  * `rlBounded` — a `RealLike ℚ` whose `isFinite` is `|q| < 1000` (any carrier with any `RealLike` is an
    instance of the theorems): runs ending `NotFinite`, early and at a loop head.
-/
import Mathlib.Algebra.Order.Field.Rat
import Alpaqa.Model.Panoc
import Alpaqa.Model.C15

namespace Alpaqa.Panoc.Example
open Alpaqa Alpaqa.Panoc Alpaqa.Gen

instance instRealLikeRat : RealLike ℚ := ⟨id, fun _ => false, fun _ => true⟩

def Pq : Problem ℚ where
  psiGradPsi x := (sqNorm x / 2, x, [])
  psi x := (sqNorm x / 2, [])
  gradPsi x := x
  gradL x _ := x
  prox γ x g := (0, vsub x (smul γ g), smul (-γ) g)

def dirNoop : Direction Unit ℚ where
  init d _ _ _ _ _ := d
  hasInitial _ := false
  apply d _ _ _ _ _ q := (d, false, q)
  update d _ _ _ _ _ _ _ _ := (d, true)
  changedGamma d _ _ := d
  reset d := d

def prq : Params ℚ :=
  { L0 := 2, lipEps := 1/1000000, lipDelta := 1/1000000000000, LgammaFactor := 19/20, maxIter := 3,
    minLsCoef := 1/256, lsUpdateFactor := 1/2, forceLinesearch := false, lsStrictness := 19/20,
    Lmin := 1/100000, Lmax := 4, stopCrit := .FPRNorm, maxNoProgress := 10, qubTol := 0,
    lsTol := 0, updateDirInCandidate := false, recomputeLastProx := false, eagerGradientEval := false,
    alwaysOverwrite := true, tolerance := 1/2, lsFuel := 70 }

/-- the run with a stop flag that becomes visible at tick `t₀` (`none`: never) -/
def stopAt : Option Nat → Nat → Bool
  | none, _ => false
  | some t0, t => decide (t0 ≤ t)

def rq (t0 : Option Nat) : Result ℚ Unit := run Pq dirNoop () prq (stopAt t0) false [1] [] [] [] [] 0 0

/-- `ψ(x) = ½‖x‖²`, box `[-10, 10]`, prox = the shipped box step (`C15.proxGradStep`, no ℓ1 term). -/
def Pbox : Problem ℚ where
  psiGradPsi x := (sqNorm x / 2, x, [])
  psi x := (sqNorm x / 2, [])
  gradPsi x := x
  gradL x _ := x
  prox γ x g := C15.proxGradStep [] γ x g [-10] [10]

/-- a provider that always offers `q = −∇ψ(x)` (for `ψ = ½‖x‖²` the exact Newton step) -/
def dirNewton : Direction Unit ℚ where
  init d _ _ _ _ _ := d
  hasInitial _ := true
  apply d _ _ _ _ g _ := (d, true, vneg g)
  update d _ _ _ _ _ _ _ _ := (d, true)
  changedGamma d _ _ := d
  reset d := d

/-- `Pbox` with the Newton provider from `x₀ = [1]`: iteration 0 accepts `τ = 1` and lands on the
    minimiser, the next head converges. -/
def rn (t0 : Option Nat) : Result ℚ Unit :=
  run Pbox dirNewton () prq (stopAt t0) false [1] [] [] [] [] 0 0

/-- `n = 1`, `m = 1`: `f(x) = ½(x−2)²`, `g(x) = x`, `D = (−∞, 1]`, multipliers `y = [0]`,
    penalties `Σ = [1]` (closed over): `ŷ(x) = max(x − 1, 0)`, `ψ = f + ½ŷ²`, `∇ψ = x − 2 + ŷ`;
    `C = [0, 3]` through the shipped prox step. -/
def Pm : Problem ℚ where
  psiGradPsi x := ((vget x 0 - 2) ^ 2 / 2 + (max (vget x 0 - 1) 0) ^ 2 / 2,
    [vget x 0 - 2 + max (vget x 0 - 1) 0], [max (vget x 0 - 1) 0])
  psi x := ((vget x 0 - 2) ^ 2 / 2 + (max (vget x 0 - 1) 0) ^ 2 / 2, [max (vget x 0 - 1) 0])
  gradPsi x := [vget x 0 - 2 + max (vget x 0 - 1) 0]
  gradL x yh := [vget x 0 - 2 + vget yh 0]
  prox γ x g := C15.proxGradStep [] γ x g [0] [3]

/-- runs of `Pm` from `x₀ = [1]`, `y = [0]`, `Σ = [1]`, `err_z` buffer `[7]` -/
def rm (pr : Params ℚ) (t0 : Option Nat) : Result ℚ Unit :=
  run Pm dirNoop () pr (stopAt t0) false [1] [0] [1] [7] [] 0 0

/-- absorption: the prox step reports `p = [1]` but `x̂ = x` (what `x ⊕ p = x` does in floating point);
    `ψ` constant: every safeguarded step is accepted and the iterate never moves. -/
def Pstuck : Problem ℚ where
  psiGradPsi x := (0, x.map fun _ => 0, [])
  psi _ := (0, [])
  gradPsi x := x.map fun _ => 0
  gradL x _ := x.map fun _ => 0
  prox _ x _ := (0, x, x.map fun _ => 1)

/-- `isFinite q := |q| < 1000` -/
def rlBounded : RealLike ℚ := ⟨id, fun _ => false, fun q => decide (|q| < 1000)⟩

end Alpaqa.Panoc.Example
