/-
  A concrete instance of the PANOC loop model over ℚ, used by the non-vacuity `example`s of
  `Props/C05.lean`, `Props/C06_Panoc.lean`, `Props/C19_Panoc.lean`:
  ψ(x) = ½‖x‖², no constraints, h = 0 (so the prox step is the gradient step), a direction provider
  that never produces a direction (every step is the safeguarded one), `L₀ = 2`, `Lγ_factor = 19/20`.
  The run from `x₀ = [1]` with tolerance ½ on `‖p‖∞/γ` takes two iterations.
-/
import Mathlib.Algebra.Order.Field.Rat
import Alpaqa.Model.Panoc

namespace Alpaqa.Panoc.Example
open Alpaqa Alpaqa.Panoc Alpaqa.Gen

instance instRealLikeRat : RealLike ℚ := ⟨id, fun _ => false, fun _ => true⟩

def Pq : Problem ℚ where
  psiGradPsi x := (sqNorm x / 2, x, [])
  psi x := (sqNorm x / 2, [])
  gradPsi x := x
  gradL x _ := x
  prox γ x g := (0, vsub x (smul γ g), smul (-γ) g)

def dirNoop : Direction Unit ℚ where
  init d _ _ _ _ _ := d
  hasInitial _ := false
  apply d _ _ _ _ _ q := (d, false, q)
  update d _ _ _ _ _ _ _ _ := (d, true)
  changedGamma d _ _ := d
  reset d := d

def prq : Params ℚ :=
  { L0 := 2, lipEps := 1/1000000, lipDelta := 1/1000000000000, LgammaFactor := 19/20, maxIter := 3,
    minLsCoef := 1/256, lsUpdateFactor := 1/2, forceLinesearch := false, lsStrictness := 19/20,
    Lmin := 1/100000, Lmax := 100000000, stopCrit := .FPRNorm, maxNoProgress := 10, qubTol := 0,
    lsTol := 0, updateDirInCandidate := false, recomputeLastProx := false, eagerGradientEval := false,
    alwaysOverwrite := true, tolerance := 1/2, lsFuel := 8 }

/-- the run with a stop flag that becomes visible at tick `t₀` (`none`: never) -/
def stopAt : Option Nat → Nat → Bool
  | none, _ => false
  | some t0, t => decide (t0 ≤ t)

def rq (t0 : Option Nat) : Result ℚ Unit := run Pq dirNoop () prq (stopAt t0) false [1] [] [] [] [] 0 0

end Alpaqa.Panoc.Example
