/-
  C12 — `OCPEvaluator::forward_simulate(storage)` leaves exactly the storage `forward` leaves
  (it performs the same writes and accumulates no cost), so it establishes the precondition of
  `backward` just as `forward` does.
-/
import Alpaqa.Proofs.C12Forward
namespace Alpaqa.C12
open Alpaqa Alpaqa.Gen.C12 OCPVars
variable {α : Type} [Field α] [LinearOrder α]

theorem forwardStage_fst (P : OCP α) (v : OCPVars) (D : Box α) (μ y : Vec α) (st : Vec α) (V : α) (t : Nat) :
    (forwardStage P v D μ y (st, V) t).1 = simStage P v st t := by
  unfold forwardStage dynStep conStep outStep simStage
  by_cases h1 : v.nh > 0 <;> by_cases h2 : v.nc > 0 <;> simp [h1, h2]

theorem forwardLoop_fst (P : OCP α) (v : OCPVars) (D : Box α) (μ y : Vec α) (l : List Nat) :
    ∀ (st : Vec α) (V : α),
      (l.foldl (forwardStage P v D μ y) (st, V)).1 = l.foldl (simStage P v) st := by
  induction l with
  | nil => intro st V; rfl
  | cons t ts ih =>
    intro st V
    simp only [List.foldl_cons]
    have : forwardStage P v D μ y (st, V) t
        = ((forwardStage P v D μ y (st, V) t).1, (forwardStage P v D μ y (st, V) t).2) := rfl
    rw [this, ih, forwardStage_fst]

/-- `forward_simulate` leaves exactly the storage `forward` leaves (for every `D`, `D_N`, `μ`, `y`):
    it is a valid precondition of `backward`. -/
theorem forwardSimulate_eq (P : OCP α) (v : OCPVars) (D DN : Box α) (μ y st : Vec α) :
    forwardSimulate P v st = (forward P v D DN μ y st).1 := by
  unfold forwardSimulate forward forwardTerminal conStepN outStepN
  rw [← forwardLoop_fst P v D μ y (List.range v.N) st 0]
  by_cases h1 : v.nh_N > 0 <;> by_cases h2 : v.nc_N > 0 <;> simp [h1, h2]
end Alpaqa.C12
