/-
  C11 helper lemmas, part 4: the whole loop — reachable states satisfy the invariant, the run
  ends in a `return` of some reachable state (the recursion budget is never exhausted), the model
  value decreases along the run and stays below every feasible point of the steepest-descent ray.
-/
import Alpaqa.Proofs.C11Step

namespace Alpaqa.C11
open Alpaqa Alpaqa.Gen.C11
set_option linter.unusedSectionVars false
set_option linter.unusedVariables false

variable {α : Type} [Field α] [LinearOrder α] [IsStrictOrderedRing α] [RealLike α]
variable {cs : α → α → α}
variable {n : Nat} {B : Vec α → Vec α} {g : Vec α} {Δ tol : α} {maxIter : Int}

/-- States visited by the loop of `solve`: the initial one and every state reached by `continue`. -/
inductive Reach (cs : α → α → α) (B : Vec α → Vec α) (g : Vec α) (Δ tol : α) (maxIter : Int) :
    St α → Prop
  | start : Reach cs B g Δ tol maxIter (cgStart g)
  | step {st st' : St α} : Reach cs B g Δ tol maxIter st →
      cgStep cs B g Δ tol maxIter st = .inr st' → Reach cs B g Δ tol maxIter st'

theorem cgStart_eq (g : Vec α) : cgStart g = ⟨zeros g.length, g, vneg g, sqNorm g, 0⟩ := rfl

theorem vadd_zeros_right (a : List α) : vadd a (zeros a.length) = a := by
  induction a with
  | nil => rfl
  | cons x a ih =>
    have : (zeros (x :: a).length : List α) = 0 :: zeros a.length := by simp [zeros, List.replicate_succ]
    rw [this, vadd_cons, ih, add_zero]

theorem SymLin.map_zeros (hB : SymLin n B) : B (zeros n) = zeros n := by
  have h := hB.smul 0 (zeros n) (by simp)
  rw [smul_zero_eq_zeros, smul_zero_eq_zeros, length_zeros, hB.len _ (by simp)] at h
  exact h

/-- `g ≠ 0` in the form the proofs use. -/
theorem sqNorm_pos_of_ne_zeros (g : List α) (h : g ≠ zeros g.length) : 0 < sqNorm g := by
  rw [sqNorm_eq_dot]
  induction g with
  | nil => exact absurd rfl h
  | cons x g ih =>
    simp only [dot_cons]
    by_cases hx : x = 0
    · subst hx
      have : g ≠ zeros g.length := by
        intro h'; apply h
        show (0 : α) :: g = List.replicate (g.length + 1) 0
        rw [List.replicate_succ]; congr 1
      have := ih this
      linarith
    · have : 0 < x * x := mul_self_pos.mpr hx
      linarith [dot_self_nonneg g]

theorem inv_start (hB : SymLin n B) (hg : g.length = n) (hΔ : 0 < Δ) (hg0 : 0 < sqNorm g) :
    Inv n B g Δ (cgStart g) := by
  rw [cgStart_eq]
  exact
    { hz := by simp [hg], hr := hg, hd := by simp [hg]
      r_eq := by
        show g = vadd g (B (zeros g.length))
        rw [hg, hB.map_zeros, ← hg, vadd_zeros_right]
      rsq_eq := rfl
      rd := by
        show dot g (vneg g) = -sqNorm g
        rw [vneg_eq_smul, dot_smul_right, sqNorm_eq_dot]; ring
      inside := by
        show sqNorm (zeros g.length) < Δ * Δ
        rw [sqNorm_zeros]; exact mul_pos hΔ hΔ
      r_pos := hg0 }

section run
variable (L : Lawful cs) (hB : SymLin n B) (hg : g.length = n) (hΔ : 0 < Δ) (hg0 : 0 < sqNorm g)
include L hB hg hΔ hg0

theorem reach_inv {st : St α} (h : Reach cs B g Δ tol maxIter st) : Inv n B g Δ st := by
  induction h with
  | start => exact inv_start hB hg hΔ hg0
  | step _ hs ih =>
    have := cgStep_spec (tol := tol) (maxIter := maxIter) L hB hg hΔ ih
    rw [hs] at this
    exact this.inv

theorem reach_cont {st st' : St α} (h : Reach cs B g Δ tol maxIter st)
    (hs : cgStep cs B g Δ tol maxIter st = .inr st') : ContOK n B g Δ tol maxIter st st' := by
  have := cgStep_spec (tol := tol) (maxIter := maxIter) L hB hg hΔ (reach_inv L hB hg hΔ hg0 h)
  rw [hs] at this
  exact this

theorem reach_exit {st : St α} {res : Res α} (h : Reach cs B g Δ tol maxIter st)
    (hs : cgStep cs B g Δ tol maxIter st = .inl res) : ExitOK n B g Δ tol maxIter st res := by
  have := cgStep_spec (tol := tol) (maxIter := maxIter) L hB hg hΔ (reach_inv L hB hg hΔ hg0 h)
  rw [hs] at this
  exact this

/-- The loop ends with a `return` taken from a reachable state (budget never exhausted). -/
theorem cgLoop_exit (fuel : Nat) {st : St α} (h : Reach cs B g Δ tol maxIter st)
    (hf : 1 ≤ fuel ∧ maxIter + 2 ≤ (st.i : Int) + fuel) :
    ∃ st₁, Reach cs B g Δ tol maxIter st₁ ∧
      cgStep cs B g Δ tol maxIter st₁ = .inl (cgLoop cs B g Δ tol maxIter fuel st) := by
  induction fuel generalizing st with
  | zero => omega
  | succ f ih =>
    rw [cgLoop]
    cases hs : cgStep cs B g Δ tol maxIter st with
    | inl res => exact ⟨st, h, hs⟩
    | inr st' =>
      have hc := reach_cont L hB hg hΔ hg0 h hs
      have hi := hc.iters
      have hne : ¬ Int.ofNat st.i > maxIter := fun hh => hc.no_exit (Or.inr (Or.inr hh))
      have hne' : (st.i : Int) ≤ maxIter := by
        have : Int.ofNat st.i = (st.i : Int) := rfl
        omega
      apply ih (Reach.step h hs)
      constructor
      · omega
      · rw [hi]; push_cast; omega

theorem steihaugLoop_exit (tolMax tolScale tolRoot : α) :
    ∃ st₁, Reach cs B g Δ (cgTolerance tolMax tolScale tolRoot (norm2 g)) maxIter st₁ ∧
      cgStep cs B g Δ (cgTolerance tolMax tolScale tolRoot (norm2 g)) maxIter st₁ =
        .inl (steihaugLoop cs B g Δ tolMax tolScale tolRoot maxIter) := by
  apply cgLoop_exit L hB hg hΔ hg0 (cgFuel maxIter) Reach.start
  simp only [cgFuel, cgStart_eq]
  omega

omit hB hg hΔ hg0 in
/-- The zero-gradient test `‖g‖ == 0` of `solve` is `‖g‖² = 0`. -/
theorem cgZeroGrad_iff (g : Vec α) : cgZeroGrad (cgInit g).2.2.2 = true ↔ sqNorm g = 0 := by
  show (norm2 g == 0) = true ↔ _
  rw [beq_iff_eq]
  have h0 : 0 ≤ sqNorm g := sqNorm_nonneg g
  constructor
  · intro h
    have := L.sqrt_mul_self _ h0
    unfold norm2 at h
    rw [h, mul_zero] at this
    exact this.symm
  · intro h
    unfold norm2
    rw [h]
    have := L.sqrt_mul_self (0 : α) (le_refl _)
    exact mul_self_eq_zero.mp this

omit hB hg hΔ in
/-- For a non-zero gradient `solve` is its loop. -/
theorem steihaug_eq_loop (tolMax tolScale tolRoot : α) :
    steihaug cs B g Δ tolMax tolScale tolRoot maxIter
      = steihaugLoop cs B g Δ tolMax tolScale tolRoot maxIter := by
  unfold steihaug
  have : ¬ cgZeroGrad (cgInit g).2.2.2 = true := fun h => hg0.ne' ((cgZeroGrad_iff L g).mp h)
  rw [if_neg this]

omit hB hg hΔ hg0 in
/-- For a zero gradient `solve` returns the origin with value 0 before the loop. -/
theorem steihaug_zero_grad (tolMax tolScale tolRoot : α) (h : sqNorm g = 0) :
    steihaug cs B g Δ tolMax tolScale tolRoot maxIter = ⟨zeros g.length, 0, .zeroGrad, cgStart g, 0⟩ := by
  unfold steihaug
  rw [if_pos ((cgZeroGrad_iff L g).mpr h)]

theorem steihaug_exit (tolMax tolScale tolRoot : α) :
    ∃ st₁, Reach cs B g Δ (cgTolerance tolMax tolScale tolRoot (norm2 g)) maxIter st₁ ∧
      cgStep cs B g Δ (cgTolerance tolMax tolScale tolRoot (norm2 g)) maxIter st₁ =
        .inl (steihaug cs B g Δ tolMax tolScale tolRoot maxIter) := by
  rw [steihaug_eq_loop L hg0]
  exact steihaugLoop_exit L hB hg hΔ hg0 tolMax tolScale tolRoot

/-- Along the run the model value never exceeds `m(0) = 0`. -/
theorem reach_le_zero {st : St α} (h : Reach cs B g Δ tol maxIter st) : model B g st.z ≤ 0 := by
  induction h with
  | start => rw [cgStart_eq]; exact (model_zeros B g).le
  | step hr hs ih => exact le_trans (reach_cont L hB hg hΔ hg0 hr hs).le_prev ih

/-- After the first iteration the iterate beats every point of the steepest-descent ray. -/
theorem reach_ray {st : St α} (h : Reach cs B g Δ tol maxIter st) :
    st = cgStart g ∨ ∀ t : α, model B g st.z ≤ model B g (smul (-t) g) := by
  induction h with
  | start => exact Or.inl rfl
  | step hr hs ih =>
    right
    have hc := reach_cont L hB hg hΔ hg0 hr hs
    rcases ih with h0 | h1
    · intro t
      have := hc.ray t
      rw [h0, cgStart_eq] at this
      simp only at this
      rwa [ray_start] at this
    · intro t; exact le_trans hc.le_prev (h1 t)

end run
end Alpaqa.C11
