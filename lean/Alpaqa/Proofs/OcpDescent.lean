/-
  PANOC-OCP loop model over a linearly ordered field: what the progress callbacks of a whole solve
  satisfy (used by `Props/C05_Ocp`).

  * `GammaOK`: `γ > 0`, `L > 0`, `γ·L = Lγ_factor` — for every reported iterate; `γ` never grows.
  * `QubOK`: the reported iterate passed the generated quadratic-upper-bound test, or `L ≥ L_max` — except
    the initial iterate of a solve whose initial step-size loop was cut short by a stop request.
  * descent between consecutive callbacks: accelerated step (`τ > 0`) from the generated line-search test;
    safeguarded step (`τ = 0`) from the quadratic upper bound of the old iterate and the optimality of the
    projected-gradient step of the new one (`φγ(û) ≤ ψ(û)`: the zero step is feasible because `û ∈ U`).
    Unlike the general solvers the prox step is part of the model (`eval_prox_impl`), so its optimality
    is *proved* here (`evalProxImpl_model_le`), not assumed.
-/
import Alpaqa.Proofs.OcpLs
import Alpaqa.Proofs.OcpLoop
import Alpaqa.Proofs.OcpFuel
import Alpaqa.Proofs.C06Spec
import Mathlib.Data.List.Chain
import Alpaqa.Props.C03_Ocp

namespace Alpaqa.Ocp
open Alpaqa Alpaqa.Gen Alpaqa.Props
set_option linter.unusedSectionVars false
set_option linter.unusedVariables false

variable {α D : Type} [Field α] [LinearOrder α] [IsStrictOrderedRing α] [RealLike α]

/-! ### Optimality of the projected-gradient step -/

/-- One component: for `x ∈ [lb, ub]` (so that the zero step is feasible) the projected-gradient step `p`
    satisfies `p²/(2γ) + g·p ≤ 0` — the model of the step is not worse than that of the zero step. -/
theorem projStep1_model_le (hnn : ∀ x : α, RealLike.isNaN x = false) (γ g x lb ub : α) (hγ : 0 < γ)
    (hl : lb ≤ x) (hu : x ≤ ub) :
    projStep1 γ g x lb ub * projStep1 γ g x lb ub / (2 * γ) + g * projStep1 γ g x lb ub ≤ 0 := by
  have key : projStep1 γ g x lb ub * projStep1 γ g x lb ub + 2 * γ * (g * projStep1 γ g x lb ub) ≤ 0 := by
    unfold projStep1 fminS fmaxS
    simp only [hnn, Bool.false_eq_true, if_false]
    split_ifs <;> nlinarith
  have h2 : (0 : α) < 2 * γ := by linarith
  have e : projStep1 γ g x lb ub * projStep1 γ g x lb ub / (2 * γ) + g * projStep1 γ g x lb ub
      = (projStep1 γ g x lb ub * projStep1 γ g x lb ub + 2 * γ * (g * projStep1 γ g x lb ub)) / (2 * γ) := by
    field_simp
  rw [e]
  exact div_nonpos_of_nonpos_of_nonneg key h2.le

/-- pairs `(gᵢ, pᵢ)` of the gradient with the step all satisfy the componentwise inequality -/
theorem projStepV_pairs (hnn : ∀ x : α, RealLike.isNaN x = false) (γ : α) (hγ : 0 < γ)
    (u g lb ub : Vec α) (hbox : C03_Ocp.InBoxV lb ub u) :
    ∀ z ∈ List.zip g (projStepV γ u g lb ub), z.2 * z.2 / (2 * γ) + z.1 * z.2 ≤ 0 := by
  induction u generalizing g lb ub with
  | nil => intro z hz; simp [projStepV] at hz
  | cons x xs ih =>
    cases g with
    | nil => intro z hz; simp at hz
    | cons gi gs =>
      cases lb with
      | nil => intro z hz; simp [projStepV] at hz
      | cons l ls =>
        cases ub with
        | nil => intro z hz; simp [projStepV] at hz
        | cons h hs =>
          intro z hz
          simp only [projStepV, List.zip_cons_cons, List.mem_cons] at hz
          obtain ⟨h1, h2, h3⟩ := hbox
          rcases hz with rfl | hz
          · exact projStep1_model_le hnn γ gi x l h hγ h1 h2
          · exact ih gs ls hs h3 z hz

theorem projStepV_length_le (γ : α) (u g lb ub : Vec α) : (projStepV γ u g lb ub).length ≤ g.length := by
  induction u generalizing g lb ub with
  | nil => simp [projStepV]
  | cons x xs ih =>
    cases g with
    | nil => simp [projStepV]
    | cons gi gs =>
      cases lb with
      | nil => simp [projStepV]
      | cons l ls =>
        cases ub with
        | nil => simp [projStepV]
        | cons h hs => simp only [projStepV, List.length_cons]; have := ih gs ls hs; omega

theorem sqNorm_cons (a : α) (l : List α) : sqNorm (a :: l) = a * a + sqNorm l := by
  unfold sqNorm
  rw [C06Spec.vsum_eq_sum, C06Spec.vsum_eq_sum]
  simp

theorem dot_cons (a b : α) (l m : List α) : dot (a :: l) (b :: m) = a * b + dot l m := by
  unfold dot vmul vzip
  rw [C06Spec.vsum_eq_sum, C06Spec.vsum_eq_sum]
  simp

theorem dot_nil_right (l : List α) : dot l ([] : List α) = 0 := by
  unfold dot vmul vzip; simp [vsum, redux]

/-- a sum of componentwise inequalities: `‖p‖²/(2γ) + ⟨g, p⟩ ≤ 0` -/
theorem sq_dot_le (γ : α) (g p : List α) (hlen : p.length ≤ g.length)
    (h : ∀ z ∈ List.zip g p, z.2 * z.2 / (2 * γ) + z.1 * z.2 ≤ 0) :
    sqNorm p / (2 * γ) + dot g p ≤ 0 := by
  induction p generalizing g with
  | nil => rw [dot_nil_right]; simp [sqNorm, vsum, redux]
  | cons pi ps ih =>
    cases g with
    | nil => simp at hlen
    | cons gi gs =>
      rw [sqNorm_cons, dot_cons]
      have h1 := h (gi, pi) (by simp)
      have h2 := ih gs (by simpa using hlen) (fun z hz => h z (by simp [hz]))
      simp only [] at h1
      have e : (pi * pi + sqNorm ps) / (2 * γ) = pi * pi / (2 * γ) + sqNorm ps / (2 * γ) := by ring
      rw [e]; linarith

theorem zip_slice_mem (g p : List α) (k n : Nat) :
    ∀ z ∈ List.zip ((g.drop k).take n) ((p.drop k).take n), z ∈ List.zip g p := by
  intro z hz
  rw [List.zip_eq_zipWith, ← List.take_zipWith, ← List.drop_zipWith, ← List.zip_eq_zipWith] at hz
  exact List.mem_of_mem_drop (List.mem_of_mem_take hz)

/-- stage-wise accumulation as `eval_prox_impl` performs it -/
theorem stage_fold_le (γ : α) (fg fp : Nat → List α)
    (h : ∀ t, sqNorm (fp t) / (2 * γ) + dot (fg t) (fp t) ≤ 0) (ts : List Nat) (a b : α) :
    (ts.map fp).foldl (fun acc pt => acc + sqNorm pt) a / (2 * γ) +
      (List.zip (ts.map fg) (ts.map fp)).foldl (fun acc gp => acc + dot gp.1 gp.2) b
      ≤ a / (2 * γ) + b := by
  induction ts generalizing a b with
  | nil => simp
  | cons t ts ih =>
    simp only [List.map_cons, List.foldl_cons, List.zip_cons_cons]
    refine le_trans (ih _ _) ?_
    have := h t
    have e : (a + sqNorm (fp t)) / (2 * γ) = a / (2 * γ) + sqNorm (fp t) / (2 * γ) := by ring
    rw [e]; linarith

/-- **Optimality of `eval_prox_impl` against the zero step**: for `u ∈ U` (stage-wise box),
    `‖p‖²/(2γ) + ∇ψᵀp ≤ 0`, hence `φγ(u) ≤ ψ(u)`. -/
theorem evalProxImpl_model_le (hnn : ∀ x : α, RealLike.isNaN x = false) (P : Prob α) (γ : α)
    (hγ : 0 < γ) (u g : Vec α) (hbox : C03_Ocp.InBoxV (tile P.N P.Ulb) (tile P.N P.Uub) u) :
    (evalProxImpl P γ u g).2.2.1 / (2 * γ) + (evalProxImpl P γ u g).2.2.2 ≤ 0 := by
  unfold evalProxImpl stages
  simp only []
  have hp := projStepV_pairs hnn γ hγ u g _ _ hbox
  have hl := projStepV_length_le γ u g (tile P.N P.Ulb) (tile P.N P.Uub)
  have := stage_fold_le γ (fun t => (g.drop (t * P.nu)).take P.nu)
    (fun t => ((projStepV γ u g (tile P.N P.Ulb) (tile P.N P.Uub)).drop (t * P.nu)).take P.nu)
    (fun t => sq_dot_le γ _ _ (by simp only [List.length_take, List.length_drop]; omega)
      (fun z hz => hp z (zip_slice_mem _ _ _ _ z hz)))
    (List.range P.N) 0 0
  simpa using this

/-! ### Step-size bookkeeping -/

def GammaOK (pr : Params α) (i : Iterate α) : Prop :=
  0 < i.gamma ∧ 0 < i.L ∧ i.gamma * i.L = pr.LgammaFactor

/-- the generated quadratic-upper-bound test passed, or `L ≥ L_max` -/
def QubOK (pr : Params α) (i : Iterate α) : Prop := qubViolated pr i = false ∨ pr.Lmax ≤ i.L

theorem halveN_eq' (j : Nat) (g : α) : halveN j g = g / 2 ^ j := by
  induction j with
  | zero => simp [halveN]
  | succ j ih => simp only [halveN, ih, pow_succ]; field_simp

theorem doubleN_eq' (j : Nat) (L : α) : doubleN j L = L * 2 ^ j := by
  induction j with
  | zero => simp [doubleN]
  | succ j ih => simp only [doubleN, ih, pow_succ]; ring

theorem GammaOK.of_halved {pr : Params α} {c n : Iterate α} (hc : GammaOK pr c) (h : Halved c n) :
    GammaOK pr n ∧ n.gamma ≤ c.gamma := by
  obtain ⟨j, h1, h2⟩ := h
  obtain ⟨hg, hL, hgL⟩ := hc
  have hp : (0 : α) < 2 ^ j := by positivity
  rw [halveN_eq'] at h1
  rw [doubleN_eq'] at h2
  refine ⟨⟨by rw [h1]; positivity, by rw [h2]; positivity, ?_⟩, ?_⟩
  · rw [h1, h2, ← hgL]; field_simp
  · rw [h1]; exact div_le_self hg.le (one_le_pow₀ (by norm_num))

theorem qubOK_of_not (pr : Params α) (i : Iterate α)
    (h : (decide (i.L < pr.Lmax) && qubViolated pr i) = false) : QubOK pr i := by
  unfold QubOK
  by_cases hq : qubViolated pr i = true
  · right
    by_contra hlt
    have : (decide (i.L < pr.Lmax) && qubViolated pr i) = true := by
      simp only [Bool.and_eq_true, decide_eq_true_eq]; exact ⟨not_le.mp hlt, hq⟩
    rw [this] at h; exact absurd h (by decide)
  · left; simpa using hq

/-! ### The line search: an accepted `τ = 0` candidate is the safeguarded step -/

/-- the candidate is the safeguarded step from `c`: `next->xu = curr->xû`, `next->ψu = curr->ψû` -/
def SafeNext (c n : Iterate α) : Prop := n.u = c.uhat ∧ n.psiu = c.psiuhat

structure LSSafe (c : Iterate α) (s : LS α D) : Prop where
  tau_nonneg : 0 ≤ s.tau
  safe : s.tauPrev = 0 → SafeNext c s.next

theorem lsRecompute_safe (O : Oracles α) (P : Prob α) (c : Iterate α) (q : Vec α) (dn : Bool)
    (s : LS α D) (h : LSSafe c s) :
    (lsRecompute O P c q dn s).tau = s.tau ∧
    ((lsRecompute O P c q dn s).tau = 0 → SafeNext c (lsRecompute O P c q dn s).next) ∧
    ((lsRecompute O P c q dn s).tauPrev = 0 → SafeNext c (lsRecompute O P c q dn s).next) := by
  unfold lsRecompute
  by_cases h1 : (s.tau != s.tauPrev) = true
  · rw [if_pos h1]
    by_cases h2 : (s.tau != 0) = true
    · rw [if_pos h2]
      have hne : s.tau ≠ 0 := by simpa using h2
      exact ⟨by first | rfl | trivial, fun h0 => absurd h0 hne, fun h0 => absurd h0 hne⟩
    · rw [if_neg h2]
      exact ⟨by first | rfl | trivial, fun _ => ⟨rfl, rfl⟩, fun _ => ⟨rfl, rfl⟩⟩
  · rw [if_neg h1]
    have he : s.tau = s.tauPrev := by simpa using h1
    exact ⟨rfl, fun h0 => h.safe (by rw [← he]; exact h0), h.safe⟩

theorem lsPass_safe (O : Oracles α) (dir : Dir D α) (P : Prob α) (pr : Params α) (c : Iterate α)
    (q : Vec α) (tauInit : α) (dn : Bool) (hti : tauInit = 0 ∨ tauInit = 1) (s : LS α D)
    (h : LSSafe c s) :
    match lsPass O dir P pr c q tauInit dn s with
    | .done s' => 0 ≤ s'.tau ∧ (s'.tau = 0 → SafeNext c s'.next)
    | .again s' => LSSafe c s' := by
  obtain ⟨ht, h0, hp⟩ := lsRecompute_safe O P c q dn s h
  have hτ := h.tau_nonneg
  have hti0 : 0 ≤ tauInit := by rcases hti with h | h <;> rw [h] <;> norm_num
  unfold lsPass
  simp only []
  by_cases h1 : (decide ((lsRecompute O P c q dn s).tau > (0 : α)) &&
      (decide ((lsRecompute O P c q dn s).next.L ≥ pr.Lmax) ||
        !RealLike.isFinite (lsRecompute O P c q dn s).next.psiu)) = true
  · rw [if_pos h1]
    exact ⟨le_refl _, fun hz => hp hz⟩
  · rw [if_neg h1]
    by_cases h2 : (decide ((evalStep O P (lsRecompute O P c q dn s).next).L < pr.Lmax) &&
        qubViolated pr (evalStep O P (lsRecompute O P c q dn s).next)) = true
    · rw [if_pos h2]
      refine ⟨?_, fun hz => hp hz⟩
      show 0 ≤ (if (lsRecompute O P c q dn s).tau > 0 then tauInit else (lsRecompute O P c q dn s).tau)
      split_ifs
      · exact hti0
      · rw [ht]; exact hτ
    · rw [if_neg h2]
      by_cases h3 : (decide ((lsRecompute O P c q dn s).tau > (0 : α)) &&
          linesearchViolated pr c (evalStep O P (lsRecompute O P c q dn s).next)) = true
      · rw [if_pos h3]
        refine ⟨?_, fun hz => hp hz⟩
        show 0 ≤ (if (lsRecompute O P c q dn s).tau / 2 < pr.minLsCoef then 0
          else (lsRecompute O P c q dn s).tau / 2)
        split_ifs
        · exact le_refl _
        · rw [ht]; linarith
      · rw [if_neg h3]
        exact ⟨by show 0 ≤ (lsRecompute O P c q dn s).tau; rw [ht]; exact hτ, fun hz => h0 hz⟩

theorem lineSearch_safe (O : Oracles α) (dir : Dir D α) (P : Prob α) (pr : Params α)
    (stop : Nat → Bool) (c : Iterate α) (q : Vec α) (tauInit : α) (dn : Bool)
    (hti : tauInit = 0 ∨ tauInit = 1) (fuel : Nat) (s : LS α D) (h : LSSafe c s) :
    (lineSearch O dir P pr stop c q tauInit dn fuel s).fuelOut = false →
      stop (lineSearch O dir P pr stop c q tauInit dn fuel s).tick = false →
      0 ≤ (lineSearch O dir P pr stop c q tauInit dn fuel s).tau ∧
      ((lineSearch O dir P pr stop c q tauInit dn fuel s).tau = 0 →
        SafeNext c (lineSearch O dir P pr stop c q tauInit dn fuel s).next) := by
  induction fuel generalizing s with
  | zero => simp [lineSearch]
  | succ f ih =>
    unfold lineSearch
    by_cases hst : stop s.tick
    · simp only [hst, if_true]
      exact fun _ h2 => absurd h2 (by simp [hst])
    · simp only [hst, Bool.false_eq_true, if_false]
      have hp := lsPass_safe O dir P pr c q tauInit dn hti s h
      cases hpass : lsPass O dir P pr c q tauInit dn s with
      | done s' => rw [hpass] at hp; exact fun _ _ => hp
      | again s' => rw [hpass] at hp; exact ih s' hp

/-! ### An accepted pass of the loop body -/

theorem tauSentinelOK_field : TauSentinelOK α := by
  constructor <;> simp [bne_iff_ne] <;> norm_num

/-- Relation "same iterate up to `Iterate::u`" (what `updateStage` may change). -/
def SameCore (a b : Iterate α) : Prop := a = b ∨ a = { b with ul := b.u }

theorem SameCore.fields {a b : Iterate α} (h : SameCore a b) :
    a.u = b.u ∧ a.traj = b.traj ∧ a.uhat = b.uhat ∧ a.trajHat = b.trajHat ∧ a.gradPsi = b.gradPsi ∧
    a.p = b.p ∧ a.psiu = b.psiu ∧ a.psiuhat = b.psiuhat ∧ a.gamma = b.gamma ∧ a.L = b.L ∧
    a.pTp = b.pTp ∧ a.gradPsiTp = b.gradPsiTp := by
  rcases h with h | h <;> rw [h] <;> exact ⟨rfl, rfl, rfl, rfl, rfl, rfl, rfl, rfl, rfl, rfl, rfl, rfl⟩

/-- Structure of an accepted pass (no exception, flag invisible after the line search). -/
theorem iterBody_accepted (O : Oracles α) (dir : Dir D α) (P : Prob α) (pr : Params α)
    (stop : Nat → Bool) (s : St α D) (eps : α) (hex : (directionStage dir P pr s).exc = .none)
    (hst : stop (iterLs O dir P pr stop s).tick = false) :
    SameCore (iterBody O dir P pr stop s eps).1.curr (iterLs O dir P pr stop s).next ∧
    (iterBody O dir P pr stop s eps).1.k = s.k + 1 ∧
    ∃ cb : Callback α, (iterBody O dir P pr stop s eps).1.cbs = cb :: s.cbs ∧ cb.it = s.curr ∧
      cb.status = .Busy ∧ cb.k = s.k ∧ cb.tau = (iterLs O dir P pr stop s).tau ∧ cb.fbe = s.curr.fbe := by
  unfold iterBody iterLs at *
  simp only [] at hst ⊢
  rw [if_neg (by simp [hex]), if_neg (by simp [hst])]
  refine ⟨?_, (acceptStep_fields dir pr s _ _ _ eps).2.2.1, ?_⟩
  · rw [(acceptStep_fields dir pr s _ _ _ eps).2.1]
    exact updateStage_fields dir pr s.curr _ _ _ _
  · unfold acceptStep
    exact ⟨_, rfl, rfl, rfl, rfl, rfl, rfl⟩

theorem iterBody_not_accepted (O : Oracles α) (dir : Dir D α) (P : Prob α) (pr : Params α)
    (stop : Nat → Bool) (s : St α D) (eps : α)
    (h : (directionStage dir P pr s).exc ≠ .none ∨ stop (iterLs O dir P pr stop s).tick = true) :
    (iterBody O dir P pr stop s eps).1.curr = s.curr ∧ (iterBody O dir P pr stop s eps).1.k = s.k ∧
    (iterBody O dir P pr stop s eps).1.cbs = s.cbs := by
  unfold iterBody iterLs at *
  simp only [] at h ⊢
  by_cases hex : ((directionStage dir P pr s).exc != Exc.none) = true
  · rw [if_pos hex]; exact ⟨rfl, rfl, rfl⟩
  · rw [if_neg hex]
    have hex' : (directionStage dir P pr s).exc = .none := by simpa using hex
    rcases h with h | h
    · exact absurd hex' h
    · rw [if_pos h]; exact ⟨rfl, rfl, rfl⟩

/-- What the line search of an accepted pass guarantees about the candidate. -/
theorem iterLs_facts (O : Oracles α) (dir : Dir D α) (P : Prob α) (pr : Params α) (stop : Nat → Bool)
    (s : St α D) (hg : Good O P s.curr) (hf : (iterLs O dir P pr stop s).fuelOut = false)
    (hst : stop (iterLs O dir P pr stop s).tick = false) :
    Good O P (iterLs O dir P pr stop s).next ∧ Halved s.curr (iterLs O dir P pr stop s).next ∧
    Accepted pr s.curr (iterLs O dir P pr stop s) ∧ 0 ≤ (iterLs O dir P pr stop s).tau ∧
    ((iterLs O dir P pr stop s).tau = 0 → SafeNext s.curr (iterLs O dir P pr stop s).next) := by
  have hti := directionStage_tauInit dir P pr s
  unfold iterLs at *
  have h1 := lineSearch_good O dir P pr stop s.curr (directionStage dir P pr s).q
    (directionStage dir P pr s).tauInit
    (decide (pr.gnInterval > 0) && ((s.k + 1) % pr.gnInterval == 0) && !pr.disableAccel) pr.lsFuel _
    hg tauSentinelOK_field (Or.inl ⟨rfl, hti⟩) rfl hf hst
  have h2 := (lineSearch_accept O dir P pr stop s.curr (directionStage dir P pr s).q
    (directionStage dir P pr s).tauInit
    (decide (pr.gnInterval > 0) && ((s.k + 1) % pr.gnInterval == 0) && !pr.disableAccel) pr.lsFuel
    { next := { s.next with gamma := s.curr.gamma, L := s.curr.L }, d := (directionStage dir P pr s).d,
      tick := (directionStage dir P pr s).tick, tau := (directionStage dir P pr s).tauInit,
      tauPrev := -1,
      doGnStep := (decide (pr.gnInterval > 0) && ((s.k + 1) % pr.gnInterval == 0) && !pr.disableAccel)
        || (s.doGnStep && pr.gnSticky),
      lsBacktracks := 0, stepsizeBacktracks := 0 } ⟨0, rfl, rfl⟩ rfl).2 hf hst
  have h3 := lineSearch_safe O dir P pr stop s.curr (directionStage dir P pr s).q
    (directionStage dir P pr s).tauInit
    (decide (pr.gnInterval > 0) && ((s.k + 1) % pr.gnInterval == 0) && !pr.disableAccel) hti pr.lsFuel
    { next := { s.next with gamma := s.curr.gamma, L := s.curr.L }, d := (directionStage dir P pr s).d,
      tick := (directionStage dir P pr s).tick, tau := (directionStage dir P pr s).tauInit,
      tauPrev := -1,
      doGnStep := (decide (pr.gnInterval > 0) && ((s.k + 1) % pr.gnInterval == 0) && !pr.disableAccel)
        || (s.doGnStep && pr.gnSticky),
      lsBacktracks := 0, stepsizeBacktracks := 0 }
    ⟨by rcases hti with h | h <;> simp only [h] <;> norm_num,
      fun h => by simp only [] at h; exact absurd h (by norm_num)⟩ hf hst
  exact ⟨h1, h2.2, h2.1, h3.1, h3.2⟩

/-! ### Descent between consecutive reported iterates -/

/-- Relation between a loop callback `a` (iteration `k`: `φₖ, γₖ, Lₖ, ‖pₖ‖², τₖ`) and the envelope value `φ`
    of the next reported iterate: the property's inequality with `cₖ = (1−γₖLₖ)/(2γₖ)`, times the
    line-search strictness factor for accelerated steps. -/
def DescTo (pr : Params α) (a : Callback α) (φ : α) : Prop :=
  (0 < a.tau →
    φ ≤ a.fbe - pr.lsStrictness * (1 - a.it.gamma * a.it.L) / (2 * a.it.gamma) * a.it.pTp +
      (1 + |a.fbe|) * pr.lsTol) ∧
  (a.tau = 0 → qubViolated pr a.it = false →
    φ ≤ a.fbe - (1 - a.it.gamma * a.it.L) / (2 * a.it.gamma) * a.it.pTp +
      (1 + |a.it.psiu|) * pr.qubTol)

/-- the hypotheses under which the safeguarded-step descent is proved: no NaN in the carrier, a
    non-empty input box -/
def BoxHyp (P : Prob α) : Prop :=
  (∀ x : α, RealLike.isNaN x = false) ∧ C03_Ocp.BoxOK P.Ulb P.Uub ∧ P.Ulb.length = P.Uub.length

theorem fbe_def (i : Iterate α) : i.fbe = i.psiu + i.pTp / (2 * i.gamma) + i.gradPsiTp := rfl

/-- accelerated step: the generated line-search test -/
theorem desc_accelerated (pr : Params α) (c n : Iterate α) (h : linesearchViolated pr c n = false) :
    n.fbe ≤ c.fbe - pr.lsStrictness * (1 - c.gamma * c.L) / (2 * c.gamma) * c.pTp
      + (1 + |c.fbe|) * pr.lsTol := by
  unfold linesearchViolated ocp_linesearchViolated at h
  simp only [eabs_eq_abs, Bool.not_eq_false', decide_eq_true_eq] at h
  exact h

/-- safeguarded step: quadratic upper bound of `c` + optimality of the projected-gradient step of `n` -/
theorem desc_safeguarded (O : Oracles α) (P : Prob α) (pr : Params α) (hB : BoxHyp P) (c n : Iterate α)
    (hc : Good O P c) (hn : Good O P n) (hgc : GammaOK pr c) (hgn : GammaOK pr n) (hs : SafeNext c n)
    (hq : qubViolated pr c = false) :
    n.fbe ≤ c.fbe - (1 - c.gamma * c.L) / (2 * c.gamma) * c.pTp + (1 + |c.psiu|) * pr.qubTol := by
  obtain ⟨hnn, hbox, hlen⟩ := hB
  -- `n.u = c.û ∈ U`
  have hu : C03_Ocp.InBoxV (tile P.N P.Ulb) (tile P.N P.Uub) n.u := by
    rw [hs.1]
    have : c.uhat = (evalProxImpl P c.gamma c.u c.gradPsi).1 := congrArg Prod.fst hc.2.1
    rw [this]
    exact C03_Ocp.projStepV_feasible hnn c.gamma c.u c.gradPsi _ _ (C03_Ocp.boxOK_tile P.N _ _ hlen hbox)
  have hopt := evalProxImpl_model_le hnn P n.gamma hgn.1 n.u n.gradPsi hu
  have e1 : n.pTp = (evalProxImpl P n.gamma n.u n.gradPsi).2.2.1 := congrArg (fun t => t.2.2.1) hn.2.1
  have e2 : n.gradPsiTp = (evalProxImpl P n.gamma n.u n.gradPsi).2.2.2 := congrArg (fun t => t.2.2.2) hn.2.1
  rw [← e1, ← e2] at hopt
  unfold qubViolated ocp_qubViolated at hq
  simp only [eabs_eq_abs, Bool.not_eq_false', decide_eq_true_eq] at hq
  rw [fbe_def, fbe_def, hs.2]
  have hγ := hgc.1
  have e3 : c.pTp / (2 * c.gamma) - (1 - c.gamma * c.L) / (2 * c.gamma) * c.pTp = 0.5 * c.L * c.pTp := by
    field_simp; ring
  linarith

/-! ### Invariant of the callback stream -/

/-- What holds for every callback of a run.  `I` = "the initial step-size loop was cut short by a stop
    request": then the initial iterate (the one reported with `k = 0`) was never brought to satisfy the
    quadratic upper bound. -/
structure CbOK (I : Prop) (pr : Params α) (cb : Callback α) : Prop where
  gok : GammaOK pr cb.it
  qub : QubOK pr cb.it ∨ (I ∧ cb.k = 0)
  fbe : cb.fbe = cb.it.fbe
  tau : cb.status = .Busy → 0 ≤ cb.tau

/-- Relation between consecutive callbacks (`a` earlier, `b` later). -/
def Consec (G : Prop) (pr : Params α) (a b : Callback α) : Prop :=
  b.it.gamma ≤ a.it.gamma ∧ (G → DescTo pr a b.fbe)

structure LoopInv (G I : Prop) (O : Oracles α) (P : Prob α) (pr : Params α) (s : St α D) : Prop where
  gok : GammaOK pr s.curr
  qok : QubOK pr s.curr ∨ (I ∧ s.k = 0)
  good : Good O P s.curr
  cbs_ok : ∀ cb ∈ s.cbs, CbOK I pr cb
  chain : List.IsChain (fun newer older => Consec G pr older newer) s.cbs
  head : ∀ cb, s.cbs.head? = some cb → s.curr.gamma ≤ cb.it.gamma ∧ (G → DescTo pr cb s.curr.fbe)

theorem headStep_cbs (P : Prob α) (pr : Params α) (stop : Nat → Bool) (oot : Bool) (s : St α D) :
    (headStep P pr stop oot s).1.cbs = s.cbs := by
  unfold headStep; simp only []; split <;> rfl

theorem headStep_inv (G I : Prop) (O : Oracles α) (P : Prob α) (pr : Params α) (stop : Nat → Bool)
    (oot : Bool) (s : St α D) (h : LoopInv G I O P pr s) :
    LoopInv G I O P pr (headStep P pr stop oot s).1 := by
  have hc := headStep_curr P pr stop oot s
  have hcb := headStep_cbs P pr stop oot s
  exact ⟨by rw [hc.1]; exact h.gok, by rw [hc.1, hc.2.2.1]; exact h.qok, by rw [hc.1]; exact h.good,
    by rw [hcb]; exact h.cbs_ok, by rw [hcb]; exact h.chain, by rw [hcb, hc.1]; exact h.head⟩

theorem iterBody_inv (G I : Prop) (O : Oracles α) (dir : Dir D α) (P : Prob α) (pr : Params α)
    (hG : G → BoxHyp P) (stop : Nat → Bool) (s : St α D) (eps : α) (h : LoopInv G I O P pr s)
    (hf : (iterLs O dir P pr stop s).fuelOut = false) :
    LoopInv G I O P pr (iterBody O dir P pr stop s eps).1 := by
  by_cases hna : (directionStage dir P pr s).exc ≠ .none ∨ stop (iterLs O dir P pr stop s).tick = true
  · obtain ⟨e1, e2, e3⟩ := iterBody_not_accepted O dir P pr stop s eps hna
    exact ⟨by rw [e1]; exact h.gok, by rw [e1, e2]; exact h.qok, by rw [e1]; exact h.good,
      by rw [e3]; exact h.cbs_ok, by rw [e3]; exact h.chain, by rw [e3, e1]; exact h.head⟩
  · have hex : (directionStage dir P pr s).exc = .none := by
      by_contra hc; exact hna (Or.inl hc)
    have hst : stop (iterLs O dir P pr stop s).tick = false := by
      cases hh : stop (iterLs O dir P pr stop s).tick
      · rfl
      · exact absurd (Or.inr hh) hna
    obtain ⟨hsc, hk, cb, hcbs, hit, hstat, hck, htau, hfbe⟩ := iterBody_accepted O dir P pr stop s eps hex hst
    obtain ⟨hgood, hhalved, hacc, hτ0, hsafe⟩ := iterLs_facts O dir P pr stop s h.good hf hst
    have hF := hsc.fields
    generalize (iterBody O dir P pr stop s eps).1 = s' at *
    generalize iterLs O dir P pr stop s = ls at *
    have hgn : GammaOK pr ls.next ∧ ls.next.gamma ≤ s.curr.gamma := h.gok.of_halved hhalved
    have hgok' : GammaOK pr s'.curr := by
      unfold GammaOK; rw [hF.2.2.2.2.2.2.2.2.1, hF.2.2.2.2.2.2.2.2.2.1]; exact hgn.1
    have hgood' : Good O P s'.curr := by
      obtain ⟨⟨a1, a2, a3⟩, a4, a5, a6⟩ := hgood
      refine ⟨⟨?_, ?_, ?_⟩, ?_, ?_, ?_⟩
      · rw [hF.2.1, hF.1]; exact a1
      · rw [hF.2.2.2.2.2.2.1, hF.1]; exact a2
      · rw [hF.2.2.2.2.1, hF.1, hF.2.1]; exact a3
      · unfold ProxCons at a4 ⊢
        rw [hF.2.2.1, hF.2.2.2.2.2.1, hF.2.2.2.2.2.2.2.2.2.2.1, hF.2.2.2.2.2.2.2.2.2.2.2,
          hF.2.2.2.2.2.2.2.2.1, hF.1, hF.2.2.2.2.1]
        exact a4
      · rw [hF.2.2.2.1, hF.2.2.1]; exact a5
      · rw [hF.2.2.2.2.2.2.2.1, hF.2.2.1]; exact a6
    have hqub' : QubOK pr s'.curr := by
      have := qubOK_of_not pr ls.next hacc.1
      unfold QubOK qubViolated at this ⊢
      rw [hF.2.2.2.2.2.2.1, hF.2.2.2.2.2.2.2.1, hF.2.2.2.2.2.2.2.2.2.2.2, hF.2.2.2.2.2.2.2.2.2.1,
        hF.2.2.2.2.2.2.2.2.2.2.1]
      exact this
    have hfbe' : s'.curr.fbe = ls.next.fbe := by
      rw [fbe_def, fbe_def, hF.2.2.2.2.2.2.1, hF.2.2.2.2.2.2.2.2.2.2.1, hF.2.2.2.2.2.2.2.2.1,
        hF.2.2.2.2.2.2.2.2.2.2.2]
    have hdesc : G → DescTo pr cb s'.curr.fbe := by
      intro hg
      rw [hfbe']
      constructor
      · intro hτ
        rw [htau] at hτ
        have hl : linesearchViolated pr s.curr ls.next = false := by
          have := hacc.2
          simpa [hτ] using this
        rw [hfbe, hit]
        exact desc_accelerated pr s.curr ls.next hl
      · intro hτ hq
        rw [htau] at hτ
        rw [hit] at hq
        rw [hfbe, hit]
        exact desc_safeguarded O P pr (hG hg) s.curr ls.next h.good hgood h.gok hgn.1 (hsafe hτ) hq
    have hcbok : CbOK I pr cb :=
      ⟨by rw [hit]; exact h.gok, by rw [hit, hck]; exact h.qok, by rw [hfbe, hit],
        fun _ => by rw [htau]; exact hτ0⟩
    have hγle : s'.curr.gamma ≤ cb.it.gamma := by rw [hF.2.2.2.2.2.2.2.2.1, hit]; exact hgn.2
    refine ⟨hgok', Or.inl hqub', hgood', ?_, ?_, ?_⟩
    · intro c hc
      rw [hcbs] at hc
      rcases List.mem_cons.mp hc with hc | hc
      · rw [hc]; exact hcbok
      · exact h.cbs_ok c hc
    · rw [hcbs, List.isChain_cons]
      refine ⟨?_, h.chain⟩
      intro older hold
      have hh := h.head older (by simpa using hold)
      refine ⟨by rw [hit]; exact hh.1, fun hg => ?_⟩
      rw [hfbe]
      exact hh.2 hg
    · intro c hc
      rw [hcbs] at hc
      have : c = cb := by simpa using hc.symm
      subst this
      exact ⟨hγle, hdesc⟩

/-- Conclusion for the callbacks of an exit from a state satisfying the invariant. -/
theorem exit_callbacks_ok (G I : Prop) (O : Oracles α) (P : Prob α) (pr : Params α) (s : St α D)
    (eps : α) (status : SolverStatus) (u0 y mu errz0 : Vec α) (h : LoopInv G I O P pr s)
    (hst : status ≠ .Busy) :
    List.IsChain (Consec G pr) (exitBlock P pr s eps status u0 y mu errz0).callbacks ∧
    ∀ cb ∈ (exitBlock P pr s eps status u0 y mu errz0).callbacks, CbOK I pr cb := by
  have hcb : (exitBlock P pr s eps status u0 y mu errz0).callbacks =
      (({ k := s.k, status := status, it := s.curr, fbe := s.curr.fbe, q := [], gn := false, nJ := 0,
          rcond := s.rcond, tau := -1, eps := eps } : Callback α) :: s.cbs).reverse := rfl
  rw [hcb]
  constructor
  · rw [List.isChain_reverse, List.isChain_cons]
    refine ⟨?_, ?_⟩
    · intro older hold
      have hh := h.head older (by simpa using hold)
      exact ⟨hh.1, hh.2⟩
    · exact h.chain
  · intro cb hcb'
    rw [List.mem_reverse] at hcb'
    rcases List.mem_cons.mp hcb' with hc | hc
    · rw [hc]
      exact ⟨h.gok, h.qok, rfl, fun hb => absurd hb hst⟩
    · exact h.cbs_ok cb hc

theorem excResult_callbacks_ok (G I : Prop) (O : Oracles α) (P : Prob α) (pr : Params α) (s : St α D)
    (e : Exc) (u0 y errz0 : Vec α) (h : LoopInv G I O P pr s) :
    List.IsChain (Consec G pr) (excResult s e u0 y errz0).callbacks ∧
    ∀ cb ∈ (excResult s e u0 y errz0).callbacks, CbOK I pr cb := by
  have hcb : (excResult s e u0 y errz0).callbacks = s.cbs.reverse := rfl
  rw [hcb]
  exact ⟨by rw [List.isChain_reverse]; exact h.chain,
    fun cb hc => h.cbs_ok cb (List.mem_reverse.mp hc)⟩

theorem mainLoop_callbacks_ok (G I : Prop) (O : Oracles α) (dir : Dir D α) (P : Prob α) (pr : Params α)
    (hG : G → BoxHyp P) (stop : Nat → Bool) (oot : Bool) (u0 y mu errz0 : Vec α) (nL nτ : Nat)
    (hp : FuelOK pr nL nτ) (fuel : Nat) (s : St α D) (h : LoopInv G I O P pr s)
    (hL : LBound pr nL s.curr.L) :
    List.IsChain (Consec G pr) (mainLoop O dir P pr stop oot u0 y mu errz0 fuel s).callbacks ∧
    ∀ cb ∈ (mainLoop O dir P pr stop oot u0 y mu errz0 fuel s).callbacks, CbOK I pr cb := by
  induction fuel generalizing s with
  | zero =>
    simp only [mainLoop]
    exact excResult_callbacks_ok G I O P pr s .none u0 y errz0 h
  | succ f ih =>
    unfold mainLoop
    have hh := headStep_inv G I O P pr stop oot s h
    have hcur := headStep_curr P pr stop oot s
    cases hes : (headStep P pr stop oot s).2 with
    | none => exact excResult_callbacks_ok G I O P pr _ _ u0 y errz0 hh
    | some es =>
      simp only []
      have hLh : LBound pr nL (headStep P pr stop oot s).1.curr.L := by rw [hcur.1]; exact hL
      have hls := iterLs_fuel O dir P pr stop nL nτ hp (headStep P pr stop oot s).1 hLh
      have hinv := iterBody_inv G I O dir P pr hG stop (headStep P pr stop oot s).1 es.1 hh hls.1
      split_ifs with hb hx
      · exact exit_callbacks_ok G I O P pr _ _ _ u0 y mu errz0 hh (by simpa using hb)
      · exact excResult_callbacks_ok G I O P pr _ _ u0 y errz0 hinv
      · apply ih _ hinv
        have hbody := iterBody_eq O dir P pr stop (headStep P pr stop oot s).1 es.1
        have hex : (directionStage dir P pr (headStep P pr stop oot s).1).exc = .none := by
          by_contra hne
          exact hx (by simpa using (hbody.1 hne).1)
        obtain ⟨_, _, hint, hacc⟩ := hbody.2 hex
        by_cases hst : stop (iterLs O dir P pr stop (headStep P pr stop oot s).1).tick = true
        · rw [(hint hst).1]; exact hLh
        · rw [(hacc (by simpa using hst)).1]; exact hls.2

/-- Parameter positivity used by the step-size statements. -/
structure ParamsPos (pr : Params α) : Prop where
  lgf : 0 < pr.LgammaFactor

theorem initQub_inv (O : Oracles α) (P : Prob α) (pr : Params α) (stop : Nat → Bool) (f : Nat)
    (c : Iterate α) (t b : Nat) (hg : GammaOK pr c)
    (hf : (initQub O P pr stop f c t b).2.2.2 = false) :
    GammaOK pr (initQub O P pr stop f c t b).1 ∧
    (stop (initQub O P pr stop f c t b).2.1 = false → QubOK pr (initQub O P pr stop f c t b).1) := by
  induction f generalizing c t b with
  | zero => simp [initQub] at hf
  | succ f ih =>
    unfold initQub at hf ⊢
    by_cases hstop : stop t = true
    · simp only [hstop, if_true] at hf ⊢
      exact ⟨hg, fun h => by simp_all⟩
    · simp only [hstop, Bool.false_eq_true, if_false] at hf ⊢
      by_cases hc : (decide (c.L < pr.Lmax) && qubViolated pr c) = true
      · simp only [hc, if_true] at hf ⊢
        apply ih _ _ _ _ hf
        obtain ⟨h1, h2, h3⟩ := hg
        refine ⟨by show 0 < c.gamma / 2; positivity, by show 0 < c.L * 2; positivity, ?_⟩
        show c.gamma / 2 * (c.L * 2) = pr.LgammaFactor
        rw [← h3]; ring
      · rw [if_neg hc] at hf ⊢
        exact ⟨hg, fun _ => qubOK_of_not pr c (by simpa using hc)⟩

/-- "The initial step-size loop was cut short by a stop request." -/
def InitInterrupted (O : Oracles α) (P : Prob α) (d0 : D) (pr : Params α) (stop : Nat → Bool)
    (u0 gV gQ : Vec α) (gS e0 : α) : Prop :=
  match initState O P d0 pr stop u0 gV gQ gS e0 with
  | .inl _ => False
  | .inr s => stop s.tick = true

/-- Boolean form (for evaluation on concrete runs). -/
def initInterruptedB (O : Oracles α) (P : Prob α) (d0 : D) (pr : Params α) (stop : Nat → Bool)
    (u0 gV gQ : Vec α) (gS e0 : α) : Bool :=
  match initState O P d0 pr stop u0 gV gQ gS e0 with
  | .inl _ => false
  | .inr s => stop s.tick

theorem initInterrupted_iff (O : Oracles α) (P : Prob α) (d0 : D) (pr : Params α) (stop : Nat → Bool)
    (u0 gV gQ : Vec α) (gS e0 : α) :
    InitInterrupted O P d0 pr stop u0 gV gQ gS e0 ↔ initInterruptedB O P d0 pr stop u0 gV gQ gS e0 = true := by
  unfold InitInterrupted initInterruptedB
  cases initState O P d0 pr stop u0 gV gQ gS e0 <;> simp

theorem run_callbacks_ok (G : Prop) (O : Oracles α) (dir : Dir D α) (P : Prob α) (d0 : D) (pr : Params α)
    (hG : G → BoxHyp P) (hpos : 0 < pr.LgammaFactor) (nL nτ : Nat) (hp : FuelOK pr nL nτ)
    (stop : Nat → Bool) (oot : Bool) (u0 y mu errz0 gV gQ : Vec α) (gS e0 : α) :
    List.IsChain (Consec G pr) (run O dir P d0 pr stop oot u0 y mu errz0 gV gQ gS e0).callbacks ∧
    ∀ cb ∈ (run O dir P d0 pr stop oot u0 y mu errz0 gV gQ gS e0).callbacks,
      CbOK (InitInterrupted O P d0 pr stop u0 gV gQ gS e0) pr cb := by
  unfold run
  cases hi : initState O P d0 pr stop u0 gV gQ gS e0 with
  | inl t => simp
  | inr s =>
    simp only []
    have hgood := (initState_good O P d0 pr stop u0 gV gQ gS e0 s hi).1
    have hk := (initState_good O P d0 pr stop u0 gV gQ gS e0 s hi).2
    have hI : stop s.tick = true → InitInterrupted O P d0 pr stop u0 gV gQ gS e0 := by
      intro h; unfold InitInterrupted; rw [hi]; exact h
    have hi' := hi
    unfold initState at hi
    simp only [] at hi
    split_ifs at hi
    injection hi with hi
    have hlb := initIterates_lbound O P pr u0 gV gS nL nτ hp
    have hq := initQub_fuel O P pr stop pr.lsFuel
      (evalStep O P { (initIterates O P pr u0 gV gS).1 with
        gamma := pr.LgammaFactor / (initIterates O P pr u0 gV gS).1.L })
      ((initIterates O P pr u0 gV gS).2.2 + P.fwdTicks) 0 nL hlb.1 hlb.2
      (by have := hp.fuel; nlinarith)
    have hinv := initQub_inv O P pr stop pr.lsFuel
      (evalStep O P { (initIterates O P pr u0 gV gS).1 with
        gamma := pr.LgammaFactor / (initIterates O P pr u0 gV gS).1.L })
      ((initIterates O P pr u0 gV gS).2.2 + P.fwdTicks) 0
      ⟨by show 0 < pr.LgammaFactor / _; exact div_pos hpos hlb.1, hlb.1,
        by show pr.LgammaFactor / _ * _ = _; exact div_mul_cancel₀ _ (ne_of_gt hlb.1)⟩ hq.1
    subst hi
    apply mainLoop_callbacks_ok G _ O dir P pr hG stop oot u0 y mu errz0 nL nτ hp
    · refine ⟨hinv.1, ?_, hgood, by simp, by simp, by simp⟩
      rcases Bool.eq_false_or_eq_true (stop (initQub O P pr stop pr.lsFuel _ _ 0).2.1) with hs | hs
      · exact Or.inr ⟨hI hs, rfl⟩
      · exact Or.inl (hinv.2 hs)
    · exact ⟨hq.2.1, hq.2.2⟩

end Alpaqa.Ocp
