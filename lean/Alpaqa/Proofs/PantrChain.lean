/-
  Whole-run invariants of the PANTR loop model over an ordered field: what holds along the list of
  progress callbacks of a solve (`(run …).callbacks`, oldest first).  Helper lemmas for
  `Props/C05_Pantr.lean`.

  * `ScalCons`: `pᵀp = ‖p‖²`, `∇ψᵀp = ⟨p, ∇ψ⟩` — the two scalars `eval_prox_grad_step` computes next
    to the prox step (`Good` in `Proofs/PantrInv.lean` has the prox / ψ part);
  * `GammaOK`: `γ > 0`, `L > 0`, `γ·L = Lγ_factor`;
  * `Step`: relation between a `Busy` callback `a` (iteration `k`) and the iterate that is current
    afterwards (the one the next callback reports): step size not larger, `x⁺ = x̂ₖ` (rejected) or
    `x̂ₖ + q` (accepted), and the descent inequalities `DescTo` (under `DescHyp`: the sized prox
    contract, ψ-oracle consistency; and `GradSized`: a sized gradient oracle);
  * `LoopInv` / `mainLoop_callbacks_ok` / `run_callbacks_ok`: the chain over a whole solve.

  No fuel hypothesis is needed anywhere in this file: a `backtrack_qub` that ran out of model fuel
  still returns a consistent iterate, and the main loop's fuel exit reports the current iterate.
  No hypothesis on the stop schedule either.

  The mathematics of `DescTo` (`c_a = (1 − γ_a L_a)/(2γ_a)`, `bound_a = φ_a − c_a‖p_a‖² + (1+|ψ_a|)·qub_tol`,
  for an `a` that passed the quadratic-upper-bound test):
  * REJECTED step: `x⁺ = x̂_a`, and `φ_{γ'}(x̂_a) ≤ ψ(x̂_a) + h(x̂_a)` for WHATEVER step size `γ'` the
    fallback's backtracking chose (`ProxContract.envelope_le_cost`, `u = x̂_a`);
    `ψ(x̂_a) + h(x̂_a) ≤ bound_a` (`fb_descent_of_qub`).  So `φ⁺ ≤ bound_a`.
  * ACCEPTED step: the ratio test gives `φ(cand as tested) ≤ φ_p + (1+|φ_p|)·TR_tol − thr·c·(−q_model)`
    with `φ_p` the envelope of the forward-backward point, and `φ_p ≤ bound_a` as above.  The candidate
    *as tested* is the next reported iterate iff `compute_ratio_using_new_stepsize` (tested after its
    own backtracking) or the accept stage's backtracking did not change its step size — observable
    as `γ⁺ = γ_a`.
-/
import Mathlib.Algebra.Order.Field.Basic
import Mathlib.Tactic.Ring
import Mathlib.Tactic.Linarith
import Mathlib.Tactic.Positivity
import Mathlib.Data.List.Chain
import Alpaqa.Proofs.PantrOrd
import Alpaqa.Proofs.PantrFuel
import Alpaqa.Proofs.ProxContract

namespace Alpaqa.Pantr
open Alpaqa Alpaqa.Gen
set_option linter.unusedSectionVars false
set_option linter.unusedVariables false

variable {α D : Type} [Field α] [LinearOrder α] [IsStrictOrderedRing α] [RealLike α]

local macro "triv" : tactic => `(tactic| first | rfl | trivial)

/-! ### The two scalars next to the prox step -/

/-- `pᵀp` and `∇ψᵀp` are the squared norm of the iterate's own `p` and its inner product with the
    iterate's own `∇ψ(x)` (`eval_prox_grad_step` lambda of pantr.tpp). -/
def ScalCons (i : Iterate α) : Prop := i.pTp = sqNorm i.p ∧ i.gradPsiTp = dot i.p i.gradPsi

theorem scal_evalProxGradStep (P : Problem α) (i : Iterate α) : ScalCons (evalProxGradStep P i) :=
  ⟨rfl, rfl⟩

theorem scal_evalPsiHat (P : Problem α) (i : Iterate α) (h : ScalCons i) : ScalCons (evalPsiHat P i) := h

theorem scal_backtrackStep (P : Problem α) (i : Iterate α) : ScalCons (backtrackStep P i) :=
  scal_evalPsiHat P _ (scal_evalProxGradStep P _)

theorem scal_backtrackQub (P : Problem α) (pr : Params α) (stop : Nat → Bool) (f : Nat)
    (c : Iterate α) (t b : Nat) (h : ScalCons c) : ScalCons (backtrackQub P pr stop f c t b).1 := by
  induction f generalizing c t b with
  | zero => simpa [backtrackQub] using h
  | succ f ih =>
    unfold backtrackQub
    split_ifs
    · exact h
    · exact ih _ _ _ (scal_backtrackStep P c)
    · exact h

theorem candidateFbe_scal (P : Problem α) (pr : Params α) (stop : Nat → Bool) (prox cand : Iterate α)
    (q : Vec α) (t : Nat) : ScalCons (candidateFbe P pr stop prox cand q t).1 := by
  unfold candidateFbe
  simp only []
  split_ifs
  · exact scal_backtrackQub P pr stop _ _ _ _ (scal_evalPsiHat P _ (scal_evalProxGradStep P _))
  · exact scal_evalProxGradStep P _

/-- The `prox` iterate after `trStage` is the one `compute_FBS_step` produced. -/
theorem trStage_prox (co : Consts α) (P : Problem α) (dir : Direction D α) (pr : Params α)
    (stop : Nat → Bool) (s : St α D) : (trStage co P dir pr stop s).prox = (fbsStep P pr s).1 := by
  unfold trStage
  simp only []
  split_ifs
  all_goals first | rfl | trivial | exact (trAttempt_spec co P dir pr stop _ rfl).2.1

theorem trAttempt_cand_scal (co : Consts α) (P : Problem α) (dir : Direction D α) (pr : Params α)
    (stop : Nat → Bool) (b : Mid α D) (hb : b.accept = false)
    (ha : (trAttempt co P dir pr stop b).accept = true) :
    ScalCons (trAttempt co P dir pr stop b).cand := by
  unfold trAttempt at ha ⊢
  simp only [] at ha ⊢
  split_ifs at ha ⊢
  · exact candidateFbe_scal P pr stop _ _ _ _
  · exact absurd ha (by simp [hb])

theorem trStage_cand_scal (co : Consts α) (P : Problem α) (dir : Direction D α) (pr : Params α)
    (stop : Nat → Bool) (s : St α D) (ha : (trStage co P dir pr stop s).accept = true) :
    ScalCons (trStage co P dir pr stop s).cand := by
  unfold trStage at ha ⊢
  simp only [] at ha ⊢
  split_ifs at ha ⊢
  exact trAttempt_cand_scal co P dir pr stop _ rfl ha

/-- What `compute_FBS_step` leaves in `prox`: the forward-backward point `x̂ₖ` with `ψ`, `∇ψ` from
    `eval_ψ_grad_ψ(x̂ₖ)`, the current step size, and a consistent prox step. -/
theorem fbsStep_fields (P : Problem α) (pr : Params α) (s : St α D) :
    (fbsStep P pr s).1.x = s.curr.xhat ∧ (fbsStep P pr s).1.psix = (P.psiGradPsi s.curr.xhat).1 ∧
    (fbsStep P pr s).1.gradPsi = (P.psiGradPsi s.curr.xhat).2.1 ∧
    (fbsStep P pr s).1.gamma = s.curr.gamma ∧ ProxCons P (fbsStep P pr s).1 ∧
    ScalCons (fbsStep P pr s).1 := by
  refine ⟨?_, ?_, ?_, ?_, ?_, ?_⟩
  · simp [fbsStep, evalProxGradStep, evalPsiGradPsi]
  · simp [fbsStep, evalProxGradStep, evalPsiGradPsi]
  · simp [fbsStep, evalProxGradStep, evalPsiGradPsi]
  · simp [fbsStep, evalProxGradStep, evalPsiGradPsi]
  · unfold fbsStep; exact proxCons_evalProxGradStep P _
  · unfold fbsStep; exact scal_evalProxGradStep P _

/-- A `backtrack_qub` that counted no backtrack returned its argument unchanged. -/
theorem backtrackQub_count_eq (P : Problem α) (pr : Params α) (stop : Nat → Bool) (f : Nat)
    (c : Iterate α) (t b : Nat) (h : (backtrackQub P pr stop f c t b).2.2.1 = b) :
    (backtrackQub P pr stop f c t b).1 = c := by
  cases f with
  | zero => simp [backtrackQub]
  | succ f =>
    unfold backtrackQub at h ⊢
    split_ifs at h ⊢
    · rfl
    · have := (backtrackQub_tick P pr stop f (backtrackStep P c) (t + 2) (b + 1)).2
      omega
    · rfl

theorem pow_two_div_eq {g : α} (hg : 0 < g) {n : Nat} (h : g / 2 ^ n = g) : n = 0 := by
  by_contra hn
  have h2 : (1 : α) < 2 ^ n := one_lt_pow₀ (by norm_num) hn
  have : g / 2 ^ n < g := div_lt_self hg h2
  rw [h] at this
  exact lt_irrefl _ this

/-- The iterate that is current after one pass of the loop body, by path. -/
theorem iterBody_curr (co : Consts α) (P : Problem α) (dir : Direction D α) (pr : Params α)
    (stop : Nat → Bool) (s : St α D) (eps : α) :
    ((trStage co P dir pr stop s).accept = true → pr.computeRatioUsingNewStepsize = true →
      (iterBody co P dir pr stop s eps).curr = (trStage co P dir pr stop s).cand) ∧
    ((trStage co P dir pr stop s).accept = true → pr.computeRatioUsingNewStepsize = false →
      (iterBody co P dir pr stop s eps).curr =
        (backtrackQub P pr stop pr.qubFuel (evalPsiHat P (trStage co P dir pr stop s).cand)
          ((trStage co P dir pr stop s).tick + 1 + 1) 0).1) ∧
    ((trStage co P dir pr stop s).accept = false →
      (iterBody co P dir pr stop s eps).curr =
        (backtrackQub P pr stop pr.qubFuel (evalPsiHat P (trStage co P dir pr stop s).prox)
          ((trStage co P dir pr stop s).tick + 1 + 1) 0).1) := by
  refine ⟨fun ha hc => ?_, fun ha hc => ?_, fun ha => ?_⟩
  · unfold iterBody
    simp only [ha, if_true]
    unfold acceptStage
    simp only [hc, Bool.not_true, Bool.false_eq_true, if_false]
  · unfold iterBody
    simp only [ha, if_true]
    unfold acceptStage
    simp only [hc, Bool.not_false, if_true]
  · unfold iterBody
    simp only [ha, Bool.false_eq_true, if_false]
    unfold rejectStage
    simp only []

/-- The `Busy` callback of one pass of the loop body. -/
theorem iterBody_cb (co : Consts α) (P : Problem α) (dir : Direction D α) (pr : Params α)
    (stop : Nat → Bool) (s : St α D) (eps : α) :
    ∃ cb : Callback α, (iterBody co P dir pr stop s eps).cbs = cb :: s.cbs ∧ cb.it = s.curr ∧
      cb.fbe = s.curr.fbe ∧ cb.status = .Busy ∧
      cb.tau = boolToScalar (trStage co P dir pr stop s).accept ∧
      cb.q = (iterBody co P dir pr stop s eps).q ∧ cb.k = s.k ∧
      (iterBody co P dir pr stop s eps).accept = (trStage co P dir pr stop s).accept := by
  have hc := (trStage_spec co P dir pr stop s).1
  unfold iterBody
  simp only []
  exact ⟨_, by triv, hc, congrArg Iterate.fbe hc, by triv, by triv, by triv, by triv, by triv⟩

theorem boolToScalar_eq_zero (b : Bool) (h : (boolToScalar b : α) = 0) : b = false := by
  cases b
  · rfl
  · simp [boolToScalar] at h

theorem boolToScalar_eq_one (b : Bool) (h : (boolToScalar b : α) = 1) : b = true := by
  cases b
  · simp [boolToScalar] at h
  · rfl

theorem boolToScalar_cases (b : Bool) : (boolToScalar b : α) = 0 ∨ (boolToScalar b : α) = 1 := by
  cases b <;> simp [boolToScalar]

/-- Every path through the loop body ends with an iterate that went through `eval_prox_grad_step`. -/
theorem iterBody_scal (co : Consts α) (P : Problem α) (dir : Direction D α) (pr : Params α)
    (stop : Nat → Bool) (s : St α D) (eps : α) : ScalCons (iterBody co P dir pr stop s eps).curr := by
  have hc := iterBody_curr co P dir pr stop s eps
  by_cases ha : (trStage co P dir pr stop s).accept = true
  · have hs := trStage_cand_scal co P dir pr stop s ha
    by_cases hr : pr.computeRatioUsingNewStepsize = true
    · rw [hc.1 ha hr]; exact hs
    · rw [hc.2.1 ha (by simpa using hr)]
      exact scal_backtrackQub P pr stop _ _ _ _ (scal_evalPsiHat P _ hs)
  · rw [hc.2.2 (by simpa using ha)]
    refine scal_backtrackQub P pr stop _ _ _ _ (scal_evalPsiHat P _ ?_)
    rw [trStage_prox]; exact (fbsStep_fields P pr s).2.2.2.2.2

theorem initState_scal (co : Consts α) (P : Problem α) (d0 : D) (pr : Params α) (stop : Nat → Bool)
    (x0 gV : Vec α) (s : St α D) (hi : initState co P d0 pr stop x0 gV = .inr s) :
    ScalCons s.curr := by
  unfold initState at hi
  simp only [] at hi
  split_ifs at hi
  injection hi with hi; subst hi
  exact scal_backtrackQub P pr stop _ _ _ _ (scal_evalPsiHat P _ (scal_evalProxGradStep P _))

/-! ### Step size -/

/-- `γ > 0`, `L > 0`, `γ·L = Lγ_factor`. -/
def GammaOK (pr : Params α) (i : Iterate α) : Prop :=
  0 < i.gamma ∧ 0 < i.L ∧ i.gamma * i.L = pr.LgammaFactor

theorem GammaOK.of_GL {pr : Params α} {a b : Iterate α} (h : GammaOK pr a) (hg : GL a b) :
    GammaOK pr b := by
  refine ⟨hg.gamma_pos h.1, ?_, by rw [hg.gammaL]; exact h.2.2⟩
  obtain ⟨n, -, hn⟩ := hg
  rw [hn]; exact mul_pos h.2.1 (by positivity)

/-- Positivity of the parameters the step size is formed from. -/
structure ParamsOK (pr : Params α) : Prop where
  lgf : 0 < pr.LgammaFactor
  lmin : 0 < pr.Lmin
  lmax : 0 < pr.Lmax

theorem initState_gammaOK (co : Consts α) (P : Problem α) (d0 : D) (pr : Params α) (stop : Nat → Bool)
    (x0 gV : Vec α) (hp : ParamsOK pr) (s : St α D)
    (hi : initState co P d0 pr stop x0 gV = .inr s) : GammaOK pr s.curr := by
  have hL := lipschitzStage_L_pos co P pr x0 gV hp.lmin hp.lmax
  unfold initState at hi
  simp only [] at hi
  split_ifs at hi
  injection hi with hi; subst hi
  have h0 : GammaOK pr (firstStep P pr (lipschitzStage co P pr x0 gV).1) := by
    have hg : (firstStep P pr (lipschitzStage co P pr x0 gV).1).gamma
        = pr.LgammaFactor / (lipschitzStage co P pr x0 gV).1.L := by
      simp [firstStep, evalPsiHat, evalProxGradStep]
    have hl : (firstStep P pr (lipschitzStage co P pr x0 gV).1).L = (lipschitzStage co P pr x0 gV).1.L := by
      simp [firstStep, evalPsiHat, evalProxGradStep]
    unfold GammaOK
    rw [hg, hl]
    exact ⟨div_pos hp.lgf hL, hL, div_mul_cancel₀ _ (ne_of_gt hL)⟩
  exact h0.of_GL (backtrackQub_GL P pr stop _ _ _ _)

/-! ### Descent between a callback and the next reported iterate -/

/-- `φ_a − ((1 − γ_a L_a)/(2γ_a))·‖p_a‖² + (1 + |ψ_a|)·qub_tol`, from the fields callback `a` reports. -/
def descBound (pr : Params α) (a : Callback α) : α :=
  a.fbe - (1 - a.it.gamma * a.it.L) / (2 * a.it.gamma) * a.it.pTp + (1 + |a.it.psix|) * pr.qubTol

/-- The factor the acceptance threshold is multiplied with (`1`, or `1 − Lγ_factor` with
    `ratio_approx_fbe_quadratic_model`). -/
def ratioScaleOf (pr : Params α) : α := if pr.ratioApproxFbe then 1 - pr.LgammaFactor else 1

/-- `eval_ψ_grad_ψ` returns an `n`-vector gradient for an `n`-vector argument (a consequence of
    `ProblemSized` in `Proofs/PantrSized.lean`; a separate premise of the `…_local` statements). -/
def GradSized (n : Nat) (P : Problem α) : Prop := ∀ x, x.length = n → (P.psiGradPsi x).2.1.length = n

/-- The hypotheses of the descent statements — none of them about the direction provider:
    * `sized`: the prox contract in dimension `n` (`Proofs/ProxContract.lean`);
    * `psi_consistent`: `eval_ψ_grad_ψ` and `eval_ψ` return the same `ψ` (`compute_FBS_step`
      re-evaluates `ψ(x̂ₖ)` with `eval_ψ_grad_ψ` although `curr->ψx̂` came from `eval_ψ`);
    * `approx`: with `ratio_approx_fbe_quadratic_model` the ratio is divided by `1 − Lγ_factor`. -/
structure DescHyp (n : Nat) (hval : Vec α → α) (dom : Vec α → Prop) (P : Problem α) (pr : Params α) :
    Prop where
  sized : ProxContract.Sized n hval dom P.prox
  psi_consistent : ∀ x, (P.psiGradPsi x).1 = (P.psi x).1
  approx : pr.ratioApproxFbe = true → pr.LgammaFactor < 1

/-- Descent from callback `a` (iteration `k`, iterate of dimension `n` that passed the
    quadratic-upper-bound test) to the next reported iterate `i`:
    * rejected (`τ_a = 0`): `φ(i) ≤ bound_a`, whatever step size the fallback's backtracking chose;
    * accepted (`τ_a = 1`), when the candidate was tested with the step size it is reported with
      (`compute_ratio_using_new_stepsize`, or step size unchanged `γ_i = γ_a`):
      `φ(i) ≤ φ_p + (1+|φ_p|)·TR_tol − thr·c·(−q_model)` for some `φ_p ≤ bound_a`, `q_model < 0`. -/
def DescTo (pr : Params α) (n : Nat) (a : Callback α) (i : Iterate α) : Prop :=
  a.it.x.length = n → a.it.gradPsi.length = n → qubViolated pr a.it = false →
    (a.tau = 0 → i.fbe ≤ descBound pr a) ∧
    (a.tau = 1 → (pr.computeRatioUsingNewStepsize = true ∨ i.gamma = a.it.gamma) →
      ∃ φp qm : α, qm < 0 ∧ φp ≤ descBound pr a ∧
        i.fbe ≤ φp + (1 + |φp|) * pr.trTol - pr.ratioThresholdAcceptable * ratioScaleOf pr * (-qm))

/-- Relation between callback `a` and the iterate `i` that is current after `a`'s iteration. -/
structure Step (G : Prop) (pr : Params α) (n : Nat) (a : Callback α) (i : Iterate α) : Prop where
  busy : a.status = .Busy
  gamma_le : i.gamma ≤ a.it.gamma
  x_rej : a.tau = 0 → i.x = a.it.xhat
  x_acc : a.tau = 1 → i.x = vadd a.it.xhat a.q
  desc : G → DescTo pr n a i

/-- What holds for every callback of a solve. -/
structure CbOK (P : Problem α) (pr : Params α) (cb : Callback α) : Prop where
  gok : GammaOK pr cb.it
  fbe : cb.fbe = cb.it.fbe
  tau : cb.tau = 0 ∨ cb.tau = 1
  good : Good P cb.it
  scal : ScalCons cb.it

/-- **Envelope ≤ cost** for an iterate of the model: `φ_γ(x) ≤ ψ(x) + h(x)` for `x ∈ dom h`. -/
theorem fbe_le_cost (n : Nat) (hval : Vec α → α) (dom : Vec α → Prop) (P : Problem α)
    (hS : ProxContract.Sized n hval dom P.prox) (i : Iterate α) (hp : ProxCons P i) (hs : ScalCons i)
    (hγ : 0 < i.gamma) (hx : i.x.length = n) (hg : i.gradPsi.length = n) (hd : dom i.x) :
    i.fbe ≤ i.psix + hval i.x := by
  have h := ProxContract.envelope_le_cost n hval dom i.gamma i.psix i.x i.gradPsi _
    (hS _ _ _ hγ hx hg) hd hx
  unfold Iterate.fbe pantr_fbe
  rw [hs.1, hs.2, hp.1, hp.2.2]
  exact h

/-- The link the code does not test: an iterate `i` sitting at the forward-backward point `x̂` of `c`
    (with `ψ`, `∇ψ` from `eval_ψ_grad_ψ(x̂)`), whatever its step size, has
    `φ(i) ≤ ψ(x̂) + h(x̂) ≤ φ(c) − c_c‖p_c‖² + margin` when `c` passed the quadratic upper bound test. -/
theorem next_fbe_le_bound (n : Nat) (hval : Vec α → α) (dom : Vec α → Prop) (P : Problem α)
    (pr : Params α) (hH : DescHyp n hval dom P pr) (hgs : GradSized n P) (c : Iterate α) (hgood : Good P c)
    (hγ : 0 < c.gamma) (hx : c.x.length = n) (hg : c.gradPsi.length = n)
    (hq : qubViolated pr c = false)
    (i : Iterate α) (hip : ProxCons P i) (his : ScalCons i) (hiγ : 0 < i.gamma) (hix : i.x = c.xhat)
    (hipsi : i.psix = (P.psiGradPsi c.xhat).1) (higr : i.gradPsi = (P.psiGradPsi c.xhat).2.1) :
    i.fbe ≤ c.fbe - (1 - c.gamma * c.L) / (2 * c.gamma) * c.pTp + (1 + |c.psix|) * pr.qubTol := by
  have hc := hH.sized c.gamma c.x c.gradPsi hγ hx hg
  have hxl : c.xhat.length = n := by rw [hgood.1.2.1]; exact hc.len
  have hdom : dom c.xhat := by rw [hgood.1.2.1]; exact hc.feas
  have hh : c.hxhat = hval c.xhat := by rw [hgood.1.1, hgood.1.2.1]; exact hc.h_eq
  have h1 := fbe_le_cost n hval dom P hH.sized i hip his hiγ (by rw [hix]; exact hxl)
    (by rw [higr]; exact hgs _ hxl) (by rw [hix]; exact hdom)
  have h2 := fb_descent_of_qub pr.qubTol c.psix c.psixhat c.gradPsiTp c.L c.pTp c.hxhat c.gamma hγ hq
  rw [hix, hipsi, hH.psi_consistent, ← hgood.2.1, ← hh] at h1
  exact le_trans h1 h2

/-! ### The loop invariant -/

structure LoopInv (G : Prop) (P : Problem α) (pr : Params α) (n : Nat) (s : St α D) : Prop where
  gok : GammaOK pr s.curr
  good : Good P s.curr
  scal : ScalCons s.curr
  cbs_ok : ∀ cb ∈ s.cbs, CbOK P pr cb
  chain : List.IsChain (fun newer older => Step G pr n older newer.it) s.cbs
  head : ∀ cb, s.cbs.head? = some cb → Step G pr n cb s.curr

theorem headStep_inv (G : Prop) (P : Problem α) (pr : Params α) (n : Nat) (stop : Nat → Bool)
    (oot : Bool) (s : St α D) (h : LoopInv G P pr n s) : LoopInv G P pr n (headStep P pr stop oot s).1 := by
  have hc := (headStep_same P pr stop oot s).1
  have hb := (headStep_cbs P pr stop oot s).1
  exact ⟨by rw [hc]; exact h.gok, by rw [hc]; exact h.good, by rw [hc]; exact h.scal,
    by rw [hb]; exact h.cbs_ok, by rw [hb]; exact h.chain, by rw [hb, hc]; exact h.head⟩

/-- The descent part of one pass of the loop body. -/
theorem iterBody_desc (n : Nat) (hval : Vec α → α) (dom : Vec α → Prop) (co : Consts α)
    (P : Problem α) (dir : Direction D α) (pr : Params α) (stop : Nat → Bool)
    (hH : DescHyp n hval dom P pr) (hgs : GradSized n P) (s : St α D) (eps : α) (hgok : GammaOK pr s.curr)
    (hgood : Good P s.curr) (hx : s.curr.x.length = n) (hg : s.curr.gradPsi.length = n)
    (hq : qubViolated pr s.curr = false) :
    ((trStage co P dir pr stop s).accept = false →
      (iterBody co P dir pr stop s eps).curr.fbe ≤
        s.curr.fbe - (1 - s.curr.gamma * s.curr.L) / (2 * s.curr.gamma) * s.curr.pTp
          + (1 + |s.curr.psix|) * pr.qubTol) ∧
    ((trStage co P dir pr stop s).accept = true →
      (pr.computeRatioUsingNewStepsize = true ∨ (iterBody co P dir pr stop s eps).curr.gamma = s.curr.gamma) →
      ∃ φp qm : α, qm < 0 ∧
        φp ≤ s.curr.fbe - (1 - s.curr.gamma * s.curr.L) / (2 * s.curr.gamma) * s.curr.pTp
          + (1 + |s.curr.psix|) * pr.qubTol ∧
        (iterBody co P dir pr stop s eps).curr.fbe ≤ φp + (1 + |φp|) * pr.trTol
          - pr.ratioThresholdAcceptable * ratioScaleOf pr * (-qm)) := by
  have hcur := iterBody_curr co P dir pr stop s eps
  have hspec := iterBody_spec co P dir pr stop s eps
  have hnew : GammaOK pr (iterBody co P dir pr stop s eps).curr :=
    hgok.of_GL (iterBody_GL co P dir pr stop s eps)
  have hf := fbsStep_fields P pr s
  have hpx := trStage_prox co P dir pr stop s
  refine ⟨fun ha => ?_, fun ha hcond => ?_⟩
  · -- rejected: the new iterate sits at x̂ₖ with ψ, ∇ψ of `prox`
    have he := hcur.2.2 ha
    have hsame := backtrackQub_same P pr stop pr.qubFuel (evalPsiHat P (trStage co P dir pr stop s).prox)
      ((trStage co P dir pr stop s).tick + 1 + 1) 0
    rw [← he] at hsame
    refine next_fbe_le_bound n hval dom P pr hH hgs s.curr hgood hgok.1 hx hg hq _ hspec.1.1
      (iterBody_scal co P dir pr stop s eps) hnew.1 ?_ ?_ ?_
    · rw [hsame.1, hpx]; exact hf.1
    · rw [hsame.2.1, hpx]; exact hf.2.1
    · rw [hsame.2.2, hpx]; exact hf.2.2.1
  · -- accepted: ratio test against `prox`, and `prox` sits at x̂ₖ with the current step size
    obtain ⟨qm, hqm, hrho, hthr, -⟩ := trStage_accept_ratio co P dir pr stop s ha
    rw [hrho] at hthr
    have hr := ratio_test_descent qm pr.trTol pr.LgammaFactor pr.ratioThresholdAcceptable
      pr.ratioApproxFbe _ _ _ _ _ _ _ _ _ _ hqm hH.approx hthr
    have hp : (trStage co P dir pr stop s).prox.fbe ≤
        s.curr.fbe - (1 - s.curr.gamma * s.curr.L) / (2 * s.curr.gamma) * s.curr.pTp
          + (1 + |s.curr.psix|) * pr.qubTol := by
      rw [hpx]
      exact next_fbe_le_bound n hval dom P pr hH hgs s.curr hgood hgok.1 hx hg hq _ hf.2.2.2.2.1
        hf.2.2.2.2.2 (by rw [hf.2.2.2.1]; exact hgok.1) hf.1 hf.2.1 hf.2.2.1
    have hfbe : (iterBody co P dir pr stop s eps).curr.fbe = (trStage co P dir pr stop s).cand.fbe := by
      by_cases hc : pr.computeRatioUsingNewStepsize = true
      · rw [hcur.1 ha hc]
      · have hc' : pr.computeRatioUsingNewStepsize = false := by simpa using hc
        have hγe : (iterBody co P dir pr stop s eps).curr.gamma = s.curr.gamma := by
          rcases hcond with h | h
          · exact absurd h hc
          · exact h
        have he := hcur.2.1 ha hc'
        obtain ⟨j, hj, -⟩ := (trStage_GL co P dir pr stop s).2 ha
        obtain ⟨m, hm1, hm2, -, -⟩ := backtrackQub_pow P pr stop pr.qubFuel
          (evalPsiHat P (trStage co P dir pr stop s).cand) ((trStage co P dir pr stop s).tick + 1 + 1) 0
        rw [← he] at hm2
        have hcg : (evalPsiHat P (trStage co P dir pr stop s).cand).gamma
            = (trStage co P dir pr stop s).cand.gamma := rfl
        rw [hcg, hj, div_div, ← pow_add, hγe] at hm2
        have hz := pow_two_div_eq hgok.1 hm2.symm
        have hm0 : m = 0 := by omega
        rw [hm0] at hm1
        have := backtrackQub_count_eq P pr stop pr.qubFuel
          (evalPsiHat P (trStage co P dir pr stop s).cand) ((trStage co P dir pr stop s).tick + 1 + 1) 0
          (by simpa using hm1)
        rw [he, this]
        rfl
    refine ⟨(trStage co P dir pr stop s).prox.fbe, qm, hqm, hp, ?_⟩
    rw [hfbe]
    exact hr

theorem descBound_eq (pr : Params α) (cb : Callback α) (c : Iterate α) (h1 : cb.it = c)
    (h2 : cb.fbe = c.fbe) :
    descBound pr cb = c.fbe - (1 - c.gamma * c.L) / (2 * c.gamma) * c.pTp + (1 + |c.psix|) * pr.qubTol := by
  unfold descBound; rw [h1, h2]

/-- **One pass of the loop body keeps the invariant** and appends one link to the chain — for every
    direction provider, stop schedule, parameter set (positivity is part of `LoopInv.gok`). -/
theorem iterBody_inv (G : Prop) (n : Nat) (hval : Vec α → α) (dom : Vec α → Prop) (co : Consts α)
    (P : Problem α) (dir : Direction D α) (pr : Params α) (stop : Nat → Bool)
    (hG : G → DescHyp n hval dom P pr ∧ GradSized n P) (s : St α D) (eps : α) (h : LoopInv G P pr n s) :
    LoopInv G P pr n (iterBody co P dir pr stop s eps) := by
  have hgl := iterBody_GL co P dir pr stop s eps
  have hspec := iterBody_spec co P dir pr stop s eps
  obtain ⟨cb, hcbs, hit, hfbe, hstat, htau, hq, hk, hacc⟩ := iterBody_cb co P dir pr stop s eps
  have hstep : Step G pr n cb (iterBody co P dir pr stop s eps).curr := by
    refine ⟨hstat, by rw [hit]; exact hgl.gamma_le h.gok.1.le, fun ht => ?_, fun ht => ?_, fun hg => ?_⟩
    · rw [htau] at ht
      have ha := boolToScalar_eq_zero _ ht
      rw [hspec.2.2.2, hacc, ha, hit]; simp
    · rw [htau] at ht
      have ha := boolToScalar_eq_one _ ht
      rw [hspec.2.2.2, hacc, ha, hit, hq]; simp
    · intro hxl hgrl hqv
      rw [hit] at hxl hgrl hqv
      have hd := iterBody_desc n hval dom co P dir pr stop (hG hg).1 (hG hg).2 s eps h.gok h.good hxl hgrl hqv
      rw [descBound_eq pr cb s.curr hit hfbe, htau, hit]
      exact ⟨fun ht => hd.1 (boolToScalar_eq_zero _ ht), fun ht => hd.2 (boolToScalar_eq_one _ ht)⟩
  have hcbok : CbOK P pr cb :=
    ⟨by rw [hit]; exact h.gok, by rw [hfbe, hit], by rw [htau]; exact boolToScalar_cases _,
      by rw [hit]; exact h.good, by rw [hit]; exact h.scal⟩
  refine ⟨h.gok.of_GL hgl, hspec.1, iterBody_scal co P dir pr stop s eps, ?_, ?_, ?_⟩
  · intro c hc
    rw [hcbs] at hc
    rcases List.mem_cons.mp hc with hc | hc
    · rw [hc]; exact hcbok
    · exact h.cbs_ok c hc
  · rw [hcbs, List.isChain_cons]
    refine ⟨?_, h.chain⟩
    intro older hold
    have hh := h.head older (by simpa using hold)
    rw [hit]; exact hh
  · intro c hc
    rw [hcbs] at hc
    have : c = cb := by simpa using hc.symm
    subst this
    exact hstep

/-- The callbacks of an exit from a state satisfying the invariant (any status: the model's
    main-loop fuel exit included). -/
theorem exit_callbacks_ok (G : Prop) (co : Consts α) (P : Problem α) (pr : Params α) (n : Nat)
    (s : St α D) (eps : α) (status : SolverStatus) (x0 y Sig errz0 : Vec α) (h : LoopInv G P pr n s) :
    List.IsChain (fun a b => Step G pr n a b.it)
      (exitBlock co pr s eps status x0 y Sig errz0).callbacks ∧
    ∀ cb ∈ (exitBlock co pr s eps status x0 y Sig errz0).callbacks, CbOK P pr cb := by
  have hcb : (exitBlock co pr s eps status x0 y Sig errz0).callbacks =
      (({ k := s.k, status := status, it := s.curr, fbe := s.curr.fbe, gradPsiHat := s.gradPsiHat,
          q := [], Delta := co.nan, rho := co.nan, tau := boolToScalar s.accept, eps := eps } :
          Callback α) :: s.cbs).reverse := rfl
  rw [hcb]
  constructor
  · rw [List.isChain_reverse, List.isChain_cons]
    refine ⟨?_, h.chain⟩
    intro older hold
    exact h.head older (by simpa using hold)
  · intro cb hcb'
    rw [List.mem_reverse] at hcb'
    rcases List.mem_cons.mp hcb' with hc | hc
    · rw [hc]
      exact ⟨h.gok, rfl, boolToScalar_cases _, h.good, h.scal⟩
    · exact h.cbs_ok cb hc

theorem mainLoop_callbacks_ok (G : Prop) (n : Nat) (hval : Vec α → α) (dom : Vec α → Prop)
    (co : Consts α) (P : Problem α) (dir : Direction D α) (pr : Params α) (stop : Nat → Bool)
    (hG : G → DescHyp n hval dom P pr ∧ GradSized n P) (oot : Bool) (x0 y Sig errz0 : Vec α) (fuel : Nat)
    (s : St α D) (h : LoopInv G P pr n s) :
    List.IsChain (fun a b => Step G pr n a b.it)
      (mainLoop co P dir pr stop oot x0 y Sig errz0 fuel s).callbacks ∧
    ∀ cb ∈ (mainLoop co P dir pr stop oot x0 y Sig errz0 fuel s).callbacks, CbOK P pr cb := by
  induction fuel generalizing s with
  | zero =>
    simp only [mainLoop]
    exact exit_callbacks_ok G co P pr n s _ _ x0 y Sig errz0 h
  | succ f ih =>
    unfold mainLoop
    simp only []
    have hh := headStep_inv G P pr n stop oot s h
    split_ifs with hb
    · exact exit_callbacks_ok G co P pr n _ _ _ x0 y Sig errz0 hh
    · exact ih _ (iterBody_inv G n hval dom co P dir pr stop hG _ _ hh)

/-- **The chain over a whole solve**: consecutive callbacks are related by `Step`, every callback is
    `CbOK`.  No fuel hypothesis, every stop schedule. -/
theorem run_callbacks_ok (G : Prop) (n : Nat) (hval : Vec α → α) (dom : Vec α → Prop)
    (co : Consts α) (P : Problem α) (dir : Direction D α) (d0 : D) (pr : Params α)
    (hG : G → DescHyp n hval dom P pr ∧ GradSized n P) (hp : ParamsOK pr) (stop : Nat → Bool) (oot : Bool)
    (x0 y Sig errz0 gV : Vec α) :
    List.IsChain (fun a b => Step G pr n a b.it)
      (run co P dir d0 pr stop oot x0 y Sig errz0 gV).callbacks ∧
    ∀ cb ∈ (run co P dir d0 pr stop oot x0 y Sig errz0 gV).callbacks, CbOK P pr cb := by
  unfold run
  cases hi : initState co P d0 pr stop x0 gV with
  | inl t => simp
  | inr s =>
    simp only []
    have hs := initState_good co P d0 pr stop x0 gV s hi
    have hc : s.cbs = [] := hs.2.2.2
    exact mainLoop_callbacks_ok G n hval dom co P dir pr stop hG oot x0 y Sig errz0 _ s
      ⟨initState_gammaOK co P d0 pr stop x0 gV hp s hi, hs.1, initState_scal co P d0 pr stop x0 gV s hi,
        by rw [hc]; simp, by rw [hc]; simp, by rw [hc]; simp⟩

end Alpaqa.Pantr
