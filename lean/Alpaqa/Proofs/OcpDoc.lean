/-
  PANOC-OCP: the documented stationarity measures as independent specifications, and the generated criterion
  of a consistent iterate as their value.

  `docRes γ u g lb ub = u − Π_U(u − γ g)` is the residual vector of the doc comments of `PANOCStopCrit`
  (`x − Π_C(x − γ∇ψ(x))`); `maxAbs` (`Proofs/C06Spec`) is `‖·‖∞`; the 2-norm criteria use `√(stageSumSq …)`, the
  square root of the sum of squares accumulated stage by stage (`eval_prox_impl`), which is `√(Σ vᵢ²)` for a
  vector of `N·nu` entries (`stageSumSq_eq_sumSq`).  `docCritOcp` is the value of the documented measure of
  each of the six supported criteria; `epsOf_eq_docCritOcp`: for an iterate whose `(û, p, pᵀp, ∇ψᵀp)` is the
  projected-gradient step at its own `(γ, u, ∇ψ)` the generated `calcErrorStopCritOcp` returns exactly it.
  Used by `Props/C06_Ocp` (`ocp_eps_is_documented`) and `Props/C13`.
-/
import Alpaqa.Proofs.OcpInv
import Alpaqa.Proofs.C06Spec
import Alpaqa.Proofs.C08Scalar
import Alpaqa.Props.C03_Ocp

namespace Alpaqa.Ocp
open Alpaqa Alpaqa.Gen Alpaqa.Props
set_option linter.unusedSectionVars false
set_option linter.unusedVariables false

section structural
variable {α D : Type} [Add α] [Sub α] [Mul α] [Div α] [Neg α] [LT α] [LE α] [DecidableLT α]
  [DecidableLE α] [BEq α] [RealLike α] [NatCast α] [OfScientific α]
  [OfNat α 0] [OfNat α 1] [OfNat α 2] [OfNat α 100]

/-- The six supported criteria as functions of the final iterate `(γ, u, ∇ψ)`: with
    `(û, p, pᵀp, ·) = eval_prox_impl(γ, u, ∇ψ)` and `(·, p₁, p₁ᵀp₁, ·) = eval_prox_impl(1, u, ∇ψ)`. -/
theorem crit_formulas (P : Prob α) (pr : Params α) (it : Iterate α) (h : ProxCons P it) :
    (pr.stopCrit = .ProjGradNorm → epsOf P pr it = some (normInf (evalProxImpl P it.gamma it.u it.gradPsi).2.1)) ∧
    (pr.stopCrit = .ProjGradNorm2 →
      epsOf P pr it = some (RealLike.sqrt (evalProxImpl P it.gamma it.u it.gradPsi).2.2.1)) ∧
    (pr.stopCrit = .ProjGradUnitNorm →
      epsOf P pr it = some (normInf (evalProxImpl P 1 it.u it.gradPsi).2.1)) ∧
    (pr.stopCrit = .ProjGradUnitNorm2 →
      epsOf P pr it = some (RealLike.sqrt (evalProxImpl P 1 it.u it.gradPsi).2.2.1)) ∧
    (pr.stopCrit = .FPRNorm →
      epsOf P pr it = some (normInf (evalProxImpl P it.gamma it.u it.gradPsi).2.1 / it.gamma)) ∧
    (pr.stopCrit = .FPRNorm2 →
      epsOf P pr it = some (RealLike.sqrt (evalProxImpl P it.gamma it.u it.gradPsi).2.2.1 / it.gamma)) := by
  have hp : it.p = (evalProxImpl P it.gamma it.u it.gradPsi).2.1 := congrArg (fun t => t.2.1) h
  have hpp : it.pTp = (evalProxImpl P it.gamma it.u it.gradPsi).2.2.1 := congrArg (fun t => t.2.2.1) h
  refine ⟨?_, ?_, ?_, ?_, ?_, ?_⟩ <;> intro hc <;> unfold epsOf <;> rw [hc] <;>
    simp only [calcErrorStopCritOcp, stopCritOcp_ProjGradNorm, stopCritOcp_ProjGradNorm2,
      stopCritOcp_ProjGradUnitNorm, stopCritOcp_ProjGradUnitNorm2, stopCritOcp_FPRNorm,
      stopCritOcp_FPRNorm2, hp, hpp]

end structural

section field
variable {α : Type} [Field α] [LinearOrder α] [IsStrictOrderedRing α] [RealLike α]
open C06Spec

/-- `Π_[lb,ub](u − γ g)`, componentwise. -/
def projGradV (γ : α) : Vec α → Vec α → Vec α → Vec α → Vec α
  | x :: xs, g :: gs, l :: ls, h :: hs => min (max (x - γ * g) l) h :: projGradV γ xs gs ls hs
  | _, _, _, _ => []

/-- `u + p` is the Euclidean projection of the gradient step onto the box: `p = Π_U(u − γ∇ψ) − u`. -/
theorem projStepV_eq_proj (hnn : ∀ x : α, RealLike.isNaN x = false) (γ : α) (u g lb ub : Vec α) :
    vadd u (projStepV γ u g lb ub) = projGradV γ u g lb ub := by
  induction u generalizing g lb ub with
  | nil => simp [vadd, vzip, projGradV]
  | cons x xs ih =>
    cases g with
    | nil => simp [projStepV, vadd, vzip, projGradV]
    | cons gi gs =>
      cases lb with
      | nil => simp [projStepV, vadd, vzip, projGradV]
      | cons l ls =>
        cases ub with
        | nil => simp [projStepV, vadd, vzip, projGradV]
        | cons hh hs =>
          have h1 := Props.C03_Ocp.projStep1_eq_proj hnn γ gi x l hh
          have h2 := ih gs ls hs
          simp only [projStepV, vadd, vzip, List.zipWith_cons_cons, projGradV] at h2 ⊢
          rw [h1, h2]

/-! #### The documented stationarity measures

`docRes γ u g = u − Π_U(u − γ g)` is the residual vector of the doc comments of `PANOCStopCrit`
(`x − Π_C(x − γ∇ψ(x))`); `maxAbs` is `‖·‖∞`; the 2-norm criteria use `√(stageSumSq …)`, the square root of the
sum of squares accumulated stage by stage (`eval_prox_impl`), which is `√(Σ vᵢ²)` for a vector of `N·nu`
entries (`stageSumSq_eq_sumSq`). -/

/-- `x − Π_U(x − γ g)` -/
def docRes (γ : α) (u g lb ub : Vec α) : Vec α := vsub u (projGradV γ u g lb ub)

/-- `‖v‖²` accumulated stage by stage, as `eval_prox_impl` does -/
def stageSumSq (P : Prob α) (v : Vec α) : α :=
  (stages P.N P.nu v).foldl (fun acc pt => acc + sqNorm pt) 0

theorem docRes_abs (hnn : ∀ x : α, RealLike.isNaN x = false) (γ : α) (u g lb ub : Vec α) :
    (docRes γ u g lb ub).map (fun a => |a|) = (projStepV γ u g lb ub).map (fun a => |a|) := by
  unfold docRes vsub vzip
  induction u generalizing g lb ub with
  | nil => simp [projStepV, projGradV]
  | cons x xs ih =>
    cases g with
    | nil => simp [projStepV, projGradV]
    | cons gi gs =>
      cases lb with
      | nil => simp [projStepV, projGradV]
      | cons l ls =>
        cases ub with
        | nil => simp [projStepV, projGradV]
        | cons hh hs =>
          simp only [projStepV, projGradV, List.zipWith_cons_cons, List.map_cons, List.cons.injEq]
          refine ⟨?_, ih gs ls hs⟩
          rw [← Props.C03_Ocp.projStep1_eq_proj hnn γ gi x l hh, ← abs_neg]
          congr 1; ring

theorem foldl_sqNorm_eq (l : List (Vec α)) (a : α) :
    l.foldl (fun acc pt => acc + sqNorm pt) a = a + (l.map sqNorm).sum := by
  induction l generalizing a with
  | nil => simp
  | cons x xs ih => simp [ih, add_assoc]

theorem stageSumSq_eq_sum (P : Prob α) (v : Vec α) :
    stageSumSq P v = ((stages P.N P.nu v).map sqNorm).sum := by
  unfold stageSumSq; rw [foldl_sqNorm_eq, zero_add]

theorem stageSumSq_congr_abs (P : Prob α) (v w : Vec α)
    (h : v.map (fun a => |a|) = w.map (fun a => |a|)) : stageSumSq P v = stageSumSq P w := by
  rw [stageSumSq_eq_sum, stageSumSq_eq_sum]
  unfold stages
  rw [List.map_map, List.map_map]
  congr 1
  apply List.map_congr_left
  intro t _
  simp only [Function.comp]
  rw [sqNorm_eq_sumSq, sqNorm_eq_sumSq]
  apply sumSq_congr_abs
  rw [List.map_take, List.map_drop, List.map_take, List.map_drop, h]

theorem sumSq_append (a b : List α) : sumSq (a ++ b) = sumSq a + sumSq b := by
  unfold sumSq; simp

/-- for a vector with exactly `N·nu` entries the stage-wise accumulation is the plain sum of squares -/
theorem stageSumSq_eq_sumSq (P : Prob α) (v : Vec α) (h : v.length = P.N * P.nu) :
    stageSumSq P v = sumSq v := by
  rw [stageSumSq_eq_sum]
  unfold stages
  have key : ∀ (n : Nat) (w : Vec α), w.length = n * P.nu →
      (((List.range n).map fun t => (w.drop (t * P.nu)).take P.nu).map sqNorm).sum = sumSq w := by
    intro n
    induction n with
    | zero =>
      intro w hw
      have : w = [] := List.eq_nil_of_length_eq_zero (by simpa using hw)
      subst this; simp [sumSq]
    | succ n ih =>
      intro w hw
      rw [List.range_succ_eq_map, List.map_cons, List.map_cons, List.sum_cons, List.map_map, List.map_map]
      have hmul : (n + 1) * P.nu = n * P.nu + P.nu := Nat.succ_mul n P.nu
      have hw' : (w.drop P.nu).length = n * P.nu := by
        rw [List.length_drop, hw]; omega
      have := ih (w.drop P.nu) hw'
      have e : ((List.range n).map ((sqNorm ∘ fun t => (w.drop (t * P.nu)).take P.nu) ∘ Nat.succ))
          = ((List.range n).map fun t => ((w.drop P.nu).drop (t * P.nu)).take P.nu).map sqNorm := by
        rw [List.map_map]
        apply List.map_congr_left
        intro t _
        simp only [Function.comp, List.drop_drop]
        have : (t + 1) * P.nu = P.nu + t * P.nu := by rw [Nat.succ_mul]; omega
        rw [this]
      rw [e, this]
      simp only [Nat.zero_mul, List.drop_zero]
      rw [sqNorm_eq_sumSq, ← sumSq_append, List.take_append_drop]
  exact key P.N v h

/-- **The documented stationarity measure of criterion `c` at the point `u`** (step size `γ`, gradient
    `g`, input box `U` repeated over the stages) **is within `tol`.**  The four criteria PANOC-OCP does not
    implement give `False`. -/
def CritWithin (P : Prob α) (c : PANOCStopCrit) (γ : α) (u g : Vec α) (tol : α) : Prop :=
  match c with
  | .ProjGradNorm => maxAbs (docRes γ u g (tile P.N P.Ulb) (tile P.N P.Uub)) ≤ tol
  | .ProjGradNorm2 =>
    RealLike.sqrt (stageSumSq P (docRes γ u g (tile P.N P.Ulb) (tile P.N P.Uub))) ≤ tol
  | .ProjGradUnitNorm => maxAbs (docRes 1 u g (tile P.N P.Ulb) (tile P.N P.Uub)) ≤ tol
  | .ProjGradUnitNorm2 =>
    RealLike.sqrt (stageSumSq P (docRes 1 u g (tile P.N P.Ulb) (tile P.N P.Uub))) ≤ tol
  | .FPRNorm => γ⁻¹ * maxAbs (docRes γ u g (tile P.N P.Ulb) (tile P.N P.Uub)) ≤ tol
  | .FPRNorm2 =>
    γ⁻¹ * RealLike.sqrt (stageSumSq P (docRes γ u g (tile P.N P.Ulb) (tile P.N P.Uub))) ≤ tol
  | _ => False

/-- the generated criterion of a consistent iterate is the documented measure -/
theorem epsOf_eq_doc (hnn : ∀ x : α, RealLike.isNaN x = false) (P : Prob α) (pr : Params α)
    (it : Iterate α) (h : ProxCons P it) (e : α) (he : epsOf P pr it = some e) (tol : α) (hle : e ≤ tol) :
    CritWithin P pr.stopCrit it.gamma it.u it.gradPsi tol := by
  have hcf := crit_formulas P pr it h
  have hp : ∀ γ : α, (evalProxImpl P γ it.u it.gradPsi).2.1 =
      projStepV γ it.u it.gradPsi (tile P.N P.Ulb) (tile P.N P.Uub) := fun _ => rfl
  have hq : ∀ γ : α, (evalProxImpl P γ it.u it.gradPsi).2.2.1 =
      stageSumSq P (projStepV γ it.u it.gradPsi (tile P.N P.Ulb) (tile P.N P.Uub)) := fun _ => rfl
  have hinf : ∀ γ : α, normInf (projStepV γ it.u it.gradPsi (tile P.N P.Ulb) (tile P.N P.Uub)) =
      maxAbs (docRes γ it.u it.gradPsi (tile P.N P.Ulb) (tile P.N P.Uub)) := by
    intro γ
    rw [normInf_eq_maxAbs]
    exact (maxAbs_congr_abs _ _ (docRes_abs hnn γ _ _ _ _)).symm
  have hsq : ∀ γ : α, stageSumSq P (projStepV γ it.u it.gradPsi (tile P.N P.Ulb) (tile P.N P.Uub)) =
      stageSumSq P (docRes γ it.u it.gradPsi (tile P.N P.Ulb) (tile P.N P.Uub)) := fun γ =>
    (stageSumSq_congr_abs P _ _ (docRes_abs hnn γ _ _ _ _)).symm
  unfold CritWithin
  cases hc : pr.stopCrit
  all_goals first
    | (have hn : epsOf P pr it = none := by unfold epsOf; rw [hc]; rfl
       rw [hn] at he; exact absurd he (by simp))
    | skip
  · have := hcf.1 hc
    rw [he, hp, hinf] at this
    simp only [] ; rw [← Option.some.inj this]; exact hle
  · have := hcf.2.1 hc
    rw [he, hq, hsq] at this
    simp only []; rw [← Option.some.inj this]; exact hle
  · have := hcf.2.2.1 hc
    rw [he, hp, hinf] at this
    simp only []; rw [← Option.some.inj this]; exact hle
  · have := hcf.2.2.2.1 hc
    rw [he, hq, hsq] at this
    simp only []; rw [← Option.some.inj this]; exact hle
  · have := hcf.2.2.2.2.1 hc
    rw [he, hp, hinf] at this
    simp only []; rw [inv_mul_eq_div, ← Option.some.inj this]; exact hle
  · have := hcf.2.2.2.2.2 hc
    rw [he, hq, hsq] at this
    simp only []; rw [inv_mul_eq_div, ← Option.some.inj this]; exact hle

/-- The 2-norm criteria in sum-of-squares form: `√S ≤ tol` for a lawful square root and `S ≥ 0` means
    `S ≤ tol²` (and `tol ≥ 0`). -/
theorem sqrt_le_iff_sq (hs : Alpaqa.C08.LawfulSqrt α) (S tol : α) (hS : 0 ≤ S)
    (h : RealLike.sqrt S ≤ tol) : 0 ≤ tol ∧ S ≤ tol ^ 2 := by
  have h0 := hs.sqrt_nonneg S hS
  have h1 := hs.sqrt_mul_self S hS
  refine ⟨le_trans h0 h, ?_⟩
  rw [← h1]
  nlinarith

theorem stageSumSq_nonneg (P : Prob α) (v : Vec α) : 0 ≤ stageSumSq P v := by
  unfold stageSumSq
  have e2 : ∀ (l : List (Vec α)) (a : α), 0 ≤ a → 0 ≤ l.foldl (fun acc pt => acc + sqNorm pt) a := by
    intro l
    induction l with
    | nil => intro a ha; simpa using ha
    | cons x xs ih =>
      intro a ha
      simp only [List.foldl_cons]
      apply ih
      rw [sqNorm_eq_sumSq]
      exact add_nonneg ha (sumSq_nonneg x)
  exact e2 _ 0 (le_refl _)


/-- **The value of the documented stationarity measure of criterion `c`** at the point `u` (step size `γ`,
    gradient `g`, input box `U` repeated over the stages): `‖u − Π_U(u − γg)‖∞`, its 2-norm, the same with
    `γ = 1`, the same divided by `γ`; `none` for the four criteria PANOC-OCP does not implement. -/
def docCritOcp (P : Prob α) (c : PANOCStopCrit) (γ : α) (u g : Vec α) : Option α :=
  match c with
  | .ProjGradNorm => some (maxAbs (docRes γ u g (tile P.N P.Ulb) (tile P.N P.Uub)))
  | .ProjGradNorm2 =>
    some (RealLike.sqrt (stageSumSq P (docRes γ u g (tile P.N P.Ulb) (tile P.N P.Uub))))
  | .ProjGradUnitNorm => some (maxAbs (docRes 1 u g (tile P.N P.Ulb) (tile P.N P.Uub)))
  | .ProjGradUnitNorm2 =>
    some (RealLike.sqrt (stageSumSq P (docRes 1 u g (tile P.N P.Ulb) (tile P.N P.Uub))))
  | .FPRNorm => some (γ⁻¹ * maxAbs (docRes γ u g (tile P.N P.Ulb) (tile P.N P.Uub)))
  | .FPRNorm2 =>
    some (γ⁻¹ * RealLike.sqrt (stageSumSq P (docRes γ u g (tile P.N P.Ulb) (tile P.N P.Uub))))
  | _ => none

/-- `CritWithin` is "`docCritOcp ≤ tol`". -/
theorem critWithin_iff (P : Prob α) (c : PANOCStopCrit) (γ : α) (u g : Vec α) (tol : α) :
    CritWithin P c γ u g tol ↔ ∃ e, docCritOcp P c γ u g = some e ∧ e ≤ tol := by
  cases c <;> simp [CritWithin, docCritOcp]

/-- **The generated criterion of a consistent iterate is the documented measure** (equality of values; all
    ten criteria: `none` = the solver throws). -/
theorem epsOf_eq_docCritOcp (hnn : ∀ x : α, RealLike.isNaN x = false) (P : Prob α) (pr : Params α)
    (it : Iterate α) (h : ProxCons P it) :
    epsOf P pr it = docCritOcp P pr.stopCrit it.gamma it.u it.gradPsi := by
  have hcf := crit_formulas P pr it h
  have hp : ∀ γ : α, (evalProxImpl P γ it.u it.gradPsi).2.1 =
      projStepV γ it.u it.gradPsi (tile P.N P.Ulb) (tile P.N P.Uub) := fun _ => rfl
  have hq : ∀ γ : α, (evalProxImpl P γ it.u it.gradPsi).2.2.1 =
      stageSumSq P (projStepV γ it.u it.gradPsi (tile P.N P.Ulb) (tile P.N P.Uub)) := fun _ => rfl
  have hinf : ∀ γ : α, normInf (projStepV γ it.u it.gradPsi (tile P.N P.Ulb) (tile P.N P.Uub)) =
      maxAbs (docRes γ it.u it.gradPsi (tile P.N P.Ulb) (tile P.N P.Uub)) := by
    intro γ
    rw [normInf_eq_maxAbs]
    exact (maxAbs_congr_abs _ _ (docRes_abs hnn γ _ _ _ _)).symm
  have hsq : ∀ γ : α, stageSumSq P (projStepV γ it.u it.gradPsi (tile P.N P.Ulb) (tile P.N P.Uub)) =
      stageSumSq P (docRes γ it.u it.gradPsi (tile P.N P.Ulb) (tile P.N P.Uub)) := fun γ =>
    (stageSumSq_congr_abs P _ _ (docRes_abs hnn γ _ _ _ _)).symm
  cases hc : pr.stopCrit
  all_goals first
    | (unfold epsOf docCritOcp; rw [hc]; rfl)
    | skip
  · rw [hcf.1 hc, hp, hinf]; rfl
  · rw [hcf.2.1 hc, hq, hsq]; rfl
  · rw [hcf.2.2.1 hc, hp, hinf]; rfl
  · rw [hcf.2.2.2.1 hc, hq, hsq]; rfl
  · rw [hcf.2.2.2.2.1 hc, hp, hinf, div_eq_inv_mul]; rfl
  · rw [hcf.2.2.2.2.2 hc, hq, hsq, div_eq_inv_mul]; rfl

end field

end Alpaqa.Ocp
