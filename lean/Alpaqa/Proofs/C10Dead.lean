/-
  C10 proofs (patched `add_column`): histories with linearly DEPENDENT columns.
  `add_column(v)` with `v` in the span of the window stores a zero column in `Q` and a zero pivot (a "dead"
  column).  `POrth`: the columns of `Q` are pairwise orthogonal, each of squared norm 1 (alive) or 0 (dead),
  and the row of `get_R()` that belongs to a dead column is zero.  `POrth` is kept by `add_column` (any
  `v`), `remove_column` (Givens contract + `giv 0 0` does not rotate: `GivensOK0`), `scale_R`, `reset`.
  Under `POrth` the identity `Qᵀ(A v) = R v` still holds, hence `solve_col` keeps its least-squares meaning.
-/
import Alpaqa.Proofs.C10Add
import Alpaqa.Proofs.C10Misc
import Alpaqa.Proofs.C10Remove
import Alpaqa.Proofs.C10Solve
import Alpaqa.Proofs.C10Pivot
import Alpaqa.Proofs.C10Trunc
import Alpaqa.Proofs.C10Givens

namespace Alpaqa.C10
open Finset Alpaqa Alpaqa.Gen
set_option linter.unusedSectionVars false
set_option linter.unusedSimpArgs false
set_option linter.unusedVariables false

section
variable {α : Type} [Field α] [LinearOrder α] [IsStrictOrderedRing α] [RealLike α]

/-- Gram entry of two columns of `Q` (rows `< n`) -/
def gram (n : ℕ) (Q : ℕ → ℕ → α) (a b : ℕ) : α := ∑ j ∈ range n, Q j a * Q j b

theorem gram_comm (n : ℕ) (Q : ℕ → ℕ → α) (a b : ℕ) : gram n Q a b = gram n Q b a := by
  unfold gram; apply Finset.sum_congr rfl; intro j _; ring

theorem gram_self_zero (n : ℕ) (Q : ℕ → ℕ → α) (a : ℕ) (h : gram n Q a a = 0) :
    ∀ j < n, Q j a = 0 := by
  intro j hj
  have := (Finset.sum_eq_zero_iff_of_nonneg (fun j _ => mul_self_nonneg (Q j a))).mp h j
    (Finset.mem_range.mpr hj)
  exact mul_self_eq_zero.mp this

theorem gram_zero_left (n : ℕ) (Q : ℕ → ℕ → α) (a b : ℕ) (h : ∀ j < n, Q j a = 0) :
    gram n Q a b = 0 := by
  unfold gram; apply Finset.sum_eq_zero; intro j hj
  rw [Finset.mem_range] at hj; rw [h j hj, zero_mul]

/-- Gram matrix of the first `K` columns is diagonal with entries in `{0, 1}` -/
def PGram (n K : ℕ) (Q : ℕ → ℕ → α) : Prop :=
  (∀ a < K, ∀ b < K, a ≠ b → gram n Q a b = 0) ∧ ∀ a < K, gram n Q a a = 1 ∨ gram n Q a a = 0

/-- Partial orthonormality of a factorisation (see the file header). -/
structure POrth (s : LMQR α) : Prop where
  gramd : PGram s.n s.qIdx s.Q.get
  dead : ∀ a < s.qIdx, gram s.n s.Q.get a a = 0 → ∀ k < s.qIdx, s.getR a k = 0

theorem Orth.porth {s : LMQR α} (hO : Orth s) : POrth s := by
  refine ⟨⟨fun a ha b hb hab => ?_, fun a ha => Or.inl ?_⟩, fun a ha h0 => ?_⟩
  · unfold gram; rw [hO a ha b hb, if_neg hab]
  · unfold gram; rw [hO a ha a ha, if_pos rfl]
  · exfalso
    unfold gram at h0; rw [hO a ha a ha, if_pos rfl] at h0
    exact one_ne_zero h0

/-- with nonzero pivots there is no dead column: `POrth` is `Orth` -/
theorem POrth.orth {s : LMQR α} (h : POrth s) (hP : PivNZ s) : Orth s := by
  intro a ha b hb
  by_cases hab : a = b
  · subst hab
    rw [if_pos rfl]
    rcases h.gramd.2 a ha with h1 | h0
    · exact h1
    · exact absurd (h.dead a ha h0 a ha) (hP a ha)
  · rw [if_neg hab]; exact h.gramd.1 a ha b hb hab

/-! ### `Qᵀ (A v) = R v` under `POrth` -/

/-- `Qᵀ (Q t) = t` when `t` vanishes on the dead columns -/
theorem porth_apply (n K : ℕ) (Q : ℕ → ℕ → α) (hG : PGram n K Q) (t : ℕ → α)
    (ht : ∀ a < K, gram n Q a a = 0 → t a = 0) {a : ℕ} (ha : a < K) :
    ∑ j ∈ range n, Q j a * ∑ i ∈ range K, Q j i * t i = t a := by
  simp only [Finset.mul_sum]
  rw [Finset.sum_comm]
  have h1 : ∀ i ∈ range K, ∑ j ∈ range n, Q j a * (Q j i * t i) = if a = i then t i else 0 := by
    intro i hi
    rw [Finset.mem_range] at hi
    have h2 : ∑ j ∈ range n, Q j a * (Q j i * t i) = gram n Q a i * t i := by
      unfold gram; rw [Finset.sum_mul]; apply Finset.sum_congr rfl; intro j _; ring
    rw [h2]
    by_cases hai : a = i
    · subst hai
      rw [if_pos rfl]
      rcases hG.2 a ha with h1 | h0
      · rw [h1, one_mul]
      · rw [h0, zero_mul, ht a ha h0]
    · rw [if_neg hai, hG.1 a ha i hi hai, zero_mul]
  rw [Finset.sum_congr rfl h1, Finset.sum_ite_eq (range K) a]
  simp [ha]

/-- `Qᵀ (A v) = Ru v` when the rows of `Ru` that belong to dead columns vanish -/
theorem qt_apply_p (n K : ℕ) (Q Ru A : ℕ → ℕ → α)
    (hA : ∀ k < K, ∀ j < n, ∑ i ∈ range K, Q j i * Ru i k = A k j) (hG : PGram n K Q)
    (hD : ∀ a < K, gram n Q a a = 0 → ∀ k < K, Ru a k = 0)
    (v : ℕ → α) {a : ℕ} (ha : a < K) :
    ∑ j ∈ range n, Q j a * ∑ k ∈ range K, A k j * v k = ∑ k ∈ range K, Ru a k * v k := by
  have h1 : ∀ j ∈ range n, Q j a * ∑ k ∈ range K, A k j * v k =
      Q j a * ∑ i ∈ range K, Q j i * ∑ k ∈ range K, Ru i k * v k := by
    intro j hj
    rw [Finset.mem_range] at hj
    rw [qr_apply n K Q Ru A hA v hj]
  rw [Finset.sum_congr rfl h1]
  apply porth_apply n K Q hG (fun i => ∑ k ∈ range K, Ru i k * v k) _ ha
  intro b hb h0
  apply Finset.sum_eq_zero
  intro k hk
  rw [Finset.mem_range] at hk
  rw [hD b hb h0 k hk, zero_mul]

theorem ls_normal_row_p (n K : ℕ) (Q Ru A : ℕ → ℕ → α)
    (hA : ∀ k < K, ∀ j < n, ∑ i ∈ range K, Q j i * Ru i k = A k j) (hG : PGram n K Q)
    (hD : ∀ a < K, gram n Q a a = 0 → ∀ k < K, Ru a k = 0)
    (b x : ℕ → α) {a : ℕ} (ha : a < K) :
    ∑ j ∈ range n, Q j a * (∑ k ∈ range K, A k j * x k - b j) =
      ∑ k ∈ range K, Ru a k * x k - ∑ j ∈ range n, Q j a * b j := by
  simp only [mul_sub]
  rw [Finset.sum_sub_distrib, qt_apply_p n K Q Ru A hA hG hD x ha]

/-- **`solve_col` on a factorisation with dead columns** (`tol ≥ 0`, or nonzero pivots): the same three
    statements as `solveCol_truncated`. -/
theorem solveCol_truncated_p (s : LMQR α) (h : RingInv s) (A : ℕ → ℕ → α) (hA : Represents s A)
    (hO : POrth s) (b x0 : ℕ → α) (tol : α)
    (hnz : ∀ r < s.qIdx, ¬ |s.getR r r| ≤ tol → s.getR r r ≠ 0) :
    (∀ r < s.qIdx, |s.getR r r| ≤ tol → s.solveCol b x0 tol r = 0) ∧
    (∀ r < s.qIdx, ¬ |s.getR r r| ≤ tol →
      ∑ j ∈ range s.n, s.Q.get j r * (∑ k ∈ range s.qIdx, A k j * s.solveCol b x0 tol k - b j) = 0) ∧
    ∀ z : ℕ → α,
      ∑ j ∈ range s.n, (∑ k ∈ range s.qIdx, deflated s tol k j * s.solveCol b x0 tol k - b j) ^ 2 ≤
      ∑ j ∈ range s.n, (∑ k ∈ range s.qIdx, deflated s tol k j * z k - b j) ^ 2 := by
  obtain ⟨_, hbs⟩ := solveCol_backsubst s h b x0 tol
  have hDt : ∀ a < s.qIdx, gram s.n s.Q.get a a = 0 → ∀ k < s.qIdx, getRt s tol a k = 0 := by
    intro a ha h0 k hk
    unfold getRt; split_ifs
    · rfl
    · exact hO.dead a ha h0 k hk
  refine ⟨fun r hr ht => (hbs r hr).1 ht, fun r hr ht => ?_, ?_⟩
  · rw [ls_normal_row_p s.n s.qIdx s.Q.get s.getR A hA hO.gramd hO.dead b _ hr,
      (hbs r hr).2 ht (hnz r hr ht), sub_self]
  · apply ls_optimal_of_normal
    intro a ha
    have h1 : ∀ j ∈ range s.n, deflated s tol a j *
        (∑ k ∈ range s.qIdx, deflated s tol k j * s.solveCol b x0 tol k - b j) =
        ∑ i ∈ range s.qIdx, getRt s tol i a * (s.Q.get j i *
          (∑ k ∈ range s.qIdx, deflated s tol k j * s.solveCol b x0 tol k - b j)) := by
      intro j _
      unfold deflated
      rw [Finset.sum_mul]
      apply Finset.sum_congr rfl; intro i _; ring
    rw [Finset.sum_congr rfl h1, Finset.sum_comm]
    apply Finset.sum_eq_zero
    intro i hi
    rw [Finset.mem_range] at hi
    rw [← Finset.mul_sum]
    by_cases ht : |s.getR i i| ≤ tol
    · unfold getRt; rw [if_pos ht, zero_mul]
    · rw [ls_normal_row_p s.n s.qIdx s.Q.get (getRt s tol) (deflated s tol) (fun k _ j _ => rfl)
        hO.gramd hDt b _ hi]
      have e : ∑ k ∈ range s.qIdx, getRt s tol i k * s.solveCol b x0 tol k =
          ∑ k ∈ range s.qIdx, s.getR i k * s.solveCol b x0 tol k := by
        apply Finset.sum_congr rfl; intro k _; unfold getRt; rw [if_neg ht]
      rw [e, (hbs i hi).2 ht (hnz i hi ht), sub_self, mul_zero]

/-- the deflated window is the window itself when every skipped pivot belongs to a dead column -/
theorem deflated_eq_of_dead (s : LMQR α) (tol : α) (A : ℕ → ℕ → α) (hA : Represents s A)
    (hp : ∀ r < s.qIdx, |s.getR r r| ≤ tol → gram s.n s.Q.get r r = 0) {k j : ℕ} (hk : k < s.qIdx)
    (hj : j < s.n) : deflated s tol k j = A k j := by
  rw [← hA k hk j hj]
  unfold deflated colSum
  apply Finset.sum_congr rfl
  intro i hi
  rw [Finset.mem_range] at hi
  unfold getRt
  split_ifs with ht
  · rw [gram_self_zero s.n s.Q.get i (hp i hi ht) j hj]; ring
  · rfl


/-- … and the only vector with properties 1 and 2 -/
theorem solveCol_truncated_unique_p (s : LMQR α) (h : RingInv s) (A : ℕ → ℕ → α) (hA : Represents s A)
    (hO : POrth s) (b x0 : ℕ → α) (tol : α)
    (hnz : ∀ r < s.qIdx, ¬ |s.getR r r| ≤ tol → s.getR r r ≠ 0) (z : ℕ → α)
    (hz0 : ∀ r < s.qIdx, |s.getR r r| ≤ tol → z r = 0)
    (hz1 : ∀ r < s.qIdx, ¬ |s.getR r r| ≤ tol →
      ∑ j ∈ range s.n, s.Q.get j r * (∑ k ∈ range s.qIdx, A k j * z k - b j) = 0) :
    ∀ k < s.qIdx, z k = s.solveCol b x0 tol k := by
  obtain ⟨hx0, hx1, _⟩ := solveCol_truncated_p s h A hA hO b x0 tol hnz
  have key := upper_tri_inj s.qIdx
    (fun i k => if |s.getR i i| ≤ tol then (if i = k then 1 else 0) else s.getR i k)
    (fun r hr => by
      by_cases ht : |s.getR r r| ≤ tol
      · rw [if_pos ht, if_pos rfl]; exact one_ne_zero
      · rw [if_neg ht]; exact hnz r hr ht)
    (fun i k hik => by
      split_ifs with ht he
      · omega
      · rfl
      · exact getR_upper s hik)
    (fun k => z k - s.solveCol b x0 tol k)
    (fun r hr => by
      by_cases ht : |s.getR r r| ≤ tol
      · simp only [ht, if_true]
        rw [Finset.sum_eq_single r]
        · rw [if_pos rfl, hz0 r hr ht, hx0 r hr ht]; ring
        · intro k _ hne; rw [if_neg (Ne.symm hne), zero_mul]
        · intro hn; exact absurd (Finset.mem_range.mpr hr) hn
      · simp only [ht, if_false]
        have e1 := hz1 r hr ht
        have e2 := hx1 r hr ht
        rw [ls_normal_row_p s.n s.qIdx s.Q.get s.getR A hA hO.gramd hO.dead b _ hr] at e1 e2
        have : ∑ k ∈ range s.qIdx, s.getR r k * (z k - s.solveCol b x0 tol k) =
            ∑ k ∈ range s.qIdx, s.getR r k * z k -
              ∑ k ∈ range s.qIdx, s.getR r k * s.solveCol b x0 tol k := by
          rw [← Finset.sum_sub_distrib]; apply Finset.sum_congr rfl; intro k _; ring
        rw [this]; linear_combination e1 - e2)
  intro k hk
  exact sub_eq_zero.mp (key k hk)

/-! ### `add_column` keeps `POrth` (any column) -/

/-- with pairwise orthogonal unit-or-zero columns, after `k` steps of a pass `q ⟂ Q_a` for `a < k`, and
    directions already orthogonal stay so -/
theorem mgsPass_perp_p (n K : ℕ) (Q : ℕ → ℕ → α) (hG : PGram n K Q) (acc : Bool) (q r : ℕ → α) :
    ∀ k, k ≤ K → ∀ a < K, (a < k ∨ ∑ j ∈ range n, Q j a * q j = 0) →
      ∑ j ∈ range n, Q j a * (mgsPass n Q acc k (q, r)).1 j = 0 := by
  intro k
  induction k with
  | zero =>
    intro _ a _ h
    rcases h with h | h
    · omega
    · exact h
  | succ k ih =>
    intro hk a ha h
    simp only [mgsPass, mgsStep]
    rw [sumTo_eq_sum]
    have e : ∑ j ∈ range n, Q j a * ((mgsPass n Q acc k (q, r)).1 j -
          (∑ i ∈ range n, Q i k * (mgsPass n Q acc k (q, r)).1 i) * Q j k) =
        ∑ j ∈ range n, Q j a * (mgsPass n Q acc k (q, r)).1 j -
          (∑ i ∈ range n, Q i k * (mgsPass n Q acc k (q, r)).1 i) * gram n Q a k := by
      unfold gram
      rw [Finset.mul_sum, ← Finset.sum_sub_distrib]
      apply Finset.sum_congr rfl
      intro j _; ring
    rw [e]
    by_cases hak : a = k
    · subst hak
      rcases hG.2 a ha with h1 | h0
      · rw [h1]; ring
      · have hz := gram_self_zero n Q a h0
        have : ∑ j ∈ range n, Q j a * (mgsPass n Q acc a (q, r)).1 j = 0 := by
          apply Finset.sum_eq_zero; intro j hj
          rw [Finset.mem_range] at hj; rw [hz j hj, zero_mul]
        rw [this, h0]; ring
    · rw [hG.1 a ha k (by omega) hak]
      have : ∑ j ∈ range n, Q j a * (mgsPass n Q acc k (q, r)).1 j = 0 := by
        apply ih (by omega) a ha
        rcases h with h | h
        · left; omega
        · right; exact h
      rw [this]; ring

theorem reorthLoop_perp_p (n m K : ℕ) (Q : ℕ → ℕ → α) (hG : PGram n K Q) (η : α) :
    ∀ fuel (q r : Array α) (nq nv : α) (cnt : ℕ), PerpQ n K Q (readV q) →
      PerpQ n K Q (readV (reorthLoop n m K Q η fuel q r nq nv cnt).1) := by
  intro fuel
  induction fuel with
  | zero => intro q r nq nv cnt h1; simpa [reorthLoop] using h1
  | succ f ih =>
    intro q r nq nv cnt h1
    unfold reorthLoop
    split_ifs with hc
    · apply ih
      apply perp_freeze
      intro a ha
      exact mgsPass_perp_p n K Q hG true (readV q) (readV r) K (le_refl _) a ha (Or.inr (h1 a ha))
    · exact h1

theorem addCore_perp_p (fuel : ℕ) (s : LMQR α) (hG : PGram s.n s.qIdx s.Q.get) (v : ℕ → α) :
    PerpQ s.n s.qIdx s.Q.get (readV (addCore fuel s v).1) := by
  unfold addCore
  apply reorthLoop_perp_p _ _ _ _ hG
  apply perp_freeze
  intro a ha
  exact mgsPass_perp_p s.n s.qIdx s.Q.get hG false v _ s.qIdx (le_refl _) a ha (Or.inl ha)

/-- the coefficient `r(a)` of a zero column `Q_a` is `0` after a non-accumulating pass and unchanged by an
    accumulating one -/
theorem mgsPass_r_dead (n : ℕ) (Q : ℕ → ℕ → α) (acc : Bool) (a : ℕ) (hz : ∀ j < n, Q j a = 0)
    (q r : ℕ → α) :
    ∀ k, (mgsPass n Q acc k (q, r)).2 a = if a < k then (if acc then r a else 0) else r a := by
  intro k
  induction k with
  | zero => simp [mgsPass]
  | succ k ih =>
    simp only [mgsPass, mgsStep]
    by_cases hak : a = k
    · subst hak
      have hs : sumTo n (fun j => Q j a * (mgsPass n Q acc a (q, r)).1 j) = 0 := by
        rw [sumTo_eq_sum]; apply Finset.sum_eq_zero; intro j hj
        rw [Finset.mem_range] at hj; rw [hz j hj, zero_mul]
      rw [if_pos rfl, hs, ih, if_neg (lt_irrefl _), if_pos (Nat.lt_succ_self _)]
      cases acc <;> simp
    · rw [if_neg hak, ih]
      by_cases h1 : a < k
      · have h2 : a < k + 1 := by omega
        simp only [h1, h2, if_true]
      · have h2 : ¬ a < k + 1 := by omega
        simp only [h1, h2, if_false]

theorem reorthLoop_r_dead (n m K : ℕ) (Q : ℕ → ℕ → α) (η : α) (a : ℕ) (ha : a < m)
    (hz : ∀ j < n, Q j a = 0) :
    ∀ fuel (q r : Array α) (nq nv : α) (cnt : ℕ), readV r a = 0 →
      readV (reorthLoop n m K Q η fuel q r nq nv cnt).2.1 a = 0 := by
  intro fuel
  induction fuel with
  | zero => intro q r nq nv cnt h1; simpa [reorthLoop] using h1
  | succ f ih =>
    intro q r nq nv cnt h1
    unfold reorthLoop
    split_ifs with hc
    · apply ih
      rw [readV_freezeV_lt _ ha, mgsPass_r_dead n Q true a hz]
      simp [h1]
    · exact h1

theorem addCore_r_dead (fuel : ℕ) (s : LMQR α) (hK : s.qIdx ≤ s.m) (v : ℕ → α) {a : ℕ} (ha : a < s.qIdx)
    (hz : ∀ j < s.n, s.Q.get j a = 0) : readV (addCore fuel s v).2.1 a = 0 := by
  unfold addCore
  apply reorthLoop_r_dead _ _ _ _ _ a (by omega) hz
  rw [readV_freezeV_lt _ (by omega), mgsPass_r_dead s.n s.Q.get false a hz, if_pos ha]
  simp

/-- **`add_column` keeps `POrth`** for every column `v` (lawful nonnegative `sqrt`). -/
theorem addColumn_porth (hs : SqrtLaw α) (hsn : SqrtNonneg α) (fuel : ℕ) (s : LMQR α) (h : RingInv s)
    (hK : s.qIdx < s.m) (v : ℕ → α) (hO : POrth s) : POrth (s.addColumn fuel v) := by
  obtain ⟨e1, e2, e3, e4, e5⟩ := addColumn_idx fuel s v
  have hperp := addCore_perp_p fuel s hO.gramd v
  have hsq := addCore_norm_sq hs fuel s v
  have hnn := addCore_norm_nonneg hsn fuel s v
  -- Gram entries of the new Q
  have hQold : ∀ c, c < s.qIdx → ∀ j < s.n, (s.addColumn fuel v).Q.get j c = s.Q.get j c := by
    intro c hc j hj
    rw [addColumn_Q fuel s v hj (by omega), if_neg (by omega)]
  have hQnew : ∀ j < s.n, (s.addColumn fuel v).Q.get j s.qIdx =
      if 0 < (addCore fuel s v).2.2.1 then readV (addCore fuel s v).1 j / (addCore fuel s v).2.2.1
      else 0 := by
    intro j hj
    rw [addColumn_Q fuel s v hj hK, if_pos rfl]
  have gold : ∀ a < s.qIdx, ∀ b < s.qIdx,
      gram s.n (s.addColumn fuel v).Q.get a b = gram s.n s.Q.get a b := by
    intro a ha b hb
    unfold gram
    apply Finset.sum_congr rfl; intro j hj
    rw [Finset.mem_range] at hj
    rw [hQold a ha j hj, hQold b hb j hj]
  have gmix : ∀ a < s.qIdx, gram s.n (s.addColumn fuel v).Q.get a s.qIdx = 0 := by
    intro a ha
    unfold gram
    by_cases hpos : 0 < (addCore fuel s v).2.2.1
    · have : ∑ j ∈ range s.n, (s.addColumn fuel v).Q.get j a * (s.addColumn fuel v).Q.get j s.qIdx =
          (∑ j ∈ range s.n, s.Q.get j a * readV (addCore fuel s v).1 j) / (addCore fuel s v).2.2.1 := by
        rw [Finset.sum_div]
        apply Finset.sum_congr rfl; intro j hj
        rw [Finset.mem_range] at hj
        rw [hQold a ha j hj, hQnew j hj, if_pos hpos]; ring
      rw [this, hperp a ha, zero_div]
    · apply Finset.sum_eq_zero; intro j hj
      rw [Finset.mem_range] at hj
      rw [hQnew j hj, if_neg hpos, mul_zero]
  have gnew : gram s.n (s.addColumn fuel v).Q.get s.qIdx s.qIdx =
      if 0 < (addCore fuel s v).2.2.1 then 1 else 0 := by
    unfold gram
    by_cases hpos : 0 < (addCore fuel s v).2.2.1
    · rw [if_pos hpos]
      have hn : (addCore fuel s v).2.2.1 ≠ 0 := ne_of_gt hpos
      have : ∑ j ∈ range s.n, (s.addColumn fuel v).Q.get j s.qIdx * (s.addColumn fuel v).Q.get j s.qIdx =
          (∑ j ∈ range s.n, readV (addCore fuel s v).1 j * readV (addCore fuel s v).1 j) /
            ((addCore fuel s v).2.2.1 * (addCore fuel s v).2.2.1) := by
        rw [Finset.sum_div]
        apply Finset.sum_congr rfl; intro j hj
        rw [Finset.mem_range] at hj
        rw [hQnew j hj, if_pos hpos]; field_simp
      rw [this, ← hsq, div_self (mul_ne_zero hn hn)]
    · rw [if_neg hpos]
      apply Finset.sum_eq_zero; intro j hj
      rw [Finset.mem_range] at hj
      rw [hQnew j hj, if_neg hpos, mul_zero]
  refine ⟨⟨?_, ?_⟩, ?_⟩
  · intro a ha b hb hab
    rw [e1] at ha hb; rw [e4]
    by_cases haK : a = s.qIdx
    · subst haK
      rw [gram_comm]; exact gmix b (by omega)
    · by_cases hbK : b = s.qIdx
      · subst hbK; exact gmix a (by omega)
      · rw [gold a (by omega) b (by omega)]; exact hO.gramd.1 a (by omega) b (by omega) hab
  · intro a ha
    rw [e1] at ha; rw [e4]
    by_cases haK : a = s.qIdx
    · subst haK; rw [gnew]; split_ifs
      · left; rfl
      · right; rfl
    · rw [gold a (by omega) a (by omega)]; exact hO.gramd.2 a (by omega)
  · intro a ha h0 k hk
    rw [e1] at ha hk; rw [e4] at h0
    by_cases haK : a = s.qIdx
    · subst haK
      rw [gnew] at h0
      have hnp : ¬ 0 < (addCore fuel s v).2.2.1 := by
        intro hpos; rw [if_pos hpos] at h0; exact one_ne_zero h0
      by_cases hkK : k = s.qIdx
      · subst hkK
        rw [addColumn_getR_diag fuel s h hK v]
        exact le_antisymm (not_lt.mp hnp) hnn
      · exact getR_upper _ (by omega)
    · have ha' : a < s.qIdx := by omega
      rw [gold a ha' a ha'] at h0
      by_cases hkK : k = s.qIdx
      · subst hkK
        -- the new column's coefficient along a zero column of Q
        unfold LMQR.getR
        have hslot : (s.addColumn fuel v).slot s.qIdx = s.rEnd := by
          rw [h.end_eq]; simp [LMQR.slot, e2, e5]
        have hend : s.rEnd < s.m := by rw [h.end_eq]; exact Nat.mod_lt _ h.mpos
        rw [hslot, if_pos (by omega), addColumn_R fuel s v (by omega) hend, if_pos rfl, if_neg haK]
        exact addCore_r_dead fuel s h.cap v ha' (gram_self_zero s.n s.Q.get a h0)
      · rw [addColumn_getR_old fuel s h hK v (by omega)]
        exact hO.dead a ha' h0 k (by omega)

theorem scaleR_porth (s : LMQR α) (h : RingInv s) (c : α) (hO : POrth s) : POrth (s.scaleR c) := by
  obtain ⟨e1, e2, e3, e4, e5, e6⟩ := scaleR_idx s c
  refine ⟨?_, ?_⟩
  · rw [e1, e4, e6]; exact hO.gramd
  · intro a ha h0 k hk
    rw [e1] at ha hk; rw [e4, e6] at h0
    rw [scaleR_getR s h c hk, hO.dead a ha h0 k hk, zero_mul]

theorem reset_porth (inf : α) (s : LMQR α) : POrth (s.reset inf) := (reset_orth inf s).porth


/-! ### `remove_column` keeps `POrth` -/

/-- the Givens contract plus: `makeGivens(0, 0)` does not rotate (`s = 0`; Eigen returns `c = 1, s = 0`) -/
def GivensOK0 (giv : α → α → α × α × α) : Prop := GivensOK giv ∧ (giv 0 0).2.1 = 0

theorem givensEigen_ok0 (hs : SqrtLaw α) : GivensOK0 (givensEigen : α → α → α × α × α) := by
  refine ⟨givensEigen_ok hs, ?_⟩
  simp [givensEigen]

/-- bilinearity of the Gram entries of two combinations of columns -/
theorem gram_lin2 (n : ℕ) (Q Q' : ℕ → ℕ → α) (x y x' y' u w : ℕ) (p q p' q' : α)
    (hu : ∀ j < n, Q' j u = p * Q j x + q * Q j y) (hw : ∀ j < n, Q' j w = p' * Q j x' + q' * Q j y') :
    gram n Q' u w = p * p' * gram n Q x x' + p * q' * gram n Q x y' + q * p' * gram n Q y x' +
      q * q' * gram n Q y y' := by
  unfold gram
  simp only [Finset.mul_sum, ← Finset.sum_add_distrib]
  apply Finset.sum_congr rfl
  intro j hj
  rw [Finset.mem_range] at hj
  rw [hu j hj, hw j hj]; ring

/-- Sweep invariant for `POrth` after `t` rotations: Gram diagonal in `{0,1}`; a dead row `a` is zero on
    the columns `k ≥ a + 1`, and rows not reached yet (`a > t`) also have a zero pivot. -/
def PSw (n m rs K t : ℕ) (Q R : ℕ → ℕ → α) : Prop :=
  PGram n K Q ∧ ∀ a < K, gram n Q a a = 0 →
    (∀ k, a + 1 ≤ k → k < K → R a ((rs + k) % m) = 0) ∧ (t < a → R a ((rs + a) % m) = 0)

theorem sq_mul_eq_zero {x a : α} (h : x * x * a = 0) : x = 0 ∨ a = 0 := by
  rcases mul_eq_zero.mp h with h1 | h1
  · left; exact mul_self_eq_zero.mp h1
  · right; exact h1

theorem psw_step (n m rs K t : ℕ) (ht : t + 1 < K) (Q R Q' R' : ℕ → ℕ → α) (c s ρ : α)
    (hcs : c * c + s * s = 1)
    (hρ : ρ = c * R t ((rs + (t + 1)) % m) - s * R (t + 1) ((rs + (t + 1)) % m))
    (h0 : s * R t ((rs + (t + 1)) % m) + c * R (t + 1) ((rs + (t + 1)) % m) = 0)
    (h00 : R t ((rs + (t + 1)) % m) = 0 → R (t + 1) ((rs + (t + 1)) % m) = 0 → s = 0)
    (hQ : ∀ i j, Q' i j = if j = t then c * Q i t - s * Q i (t + 1)
      else if j = t + 1 then s * Q i t + c * Q i (t + 1) else Q i j)
    (hR1 : ∀ i, R' i ((rs + (t + 1)) % m) = if i = t then ρ else R i ((rs + (t + 1)) % m))
    (hR2 : ∀ k, t + 2 ≤ k → k < K → ∀ i, R' i ((rs + k) % m) =
      if i = t then c * R t ((rs + k) % m) - s * R (t + 1) ((rs + k) % m)
      else if i = t + 1 then s * R t ((rs + k) % m) + c * R (t + 1) ((rs + k) % m)
      else R i ((rs + k) % m))
    (hR3 : ∀ k, k ≤ t → ∀ i, R' i ((rs + k) % m) = R i ((rs + k) % m))
    (hI : PSw n m rs K t Q R) : PSw n m rs K (t + 1) Q' R' := by
  obtain ⟨⟨hoff, hdiag⟩, hdead⟩ := hI
  have htK : t < K := by omega
  -- the columns of Q' as combinations of columns of Q
  have hQt : ∀ j < n, Q' j t = c * Q j t + (-s) * Q j (t + 1) := by
    intro j _; rw [hQ, if_pos rfl]; ring
  have hQt1 : ∀ j < n, Q' j (t + 1) = s * Q j t + c * Q j (t + 1) := by
    intro j _; rw [hQ, if_neg (by omega), if_pos rfl]
  have hQo : ∀ x, x ≠ t → x ≠ t + 1 → ∀ j < n, Q' j x = 1 * Q j x + 0 * Q j x := by
    intro x h1 h2 j _; rw [hQ, if_neg h1, if_neg h2]; ring
  have g01 : gram n Q t (t + 1) = 0 := hoff t htK (t + 1) ht (by omega)
  have g10 : gram n Q (t + 1) t = 0 := hoff (t + 1) ht t htK (by omega)
  -- p, q and the dead-row facts for rows t, t+1
  have hpa : gram n Q t t = 0 → ∀ k, t + 1 ≤ k → k < K → R t ((rs + k) % m) = 0 :=
    fun h => (hdead t htK h).1
  have hqb : gram n Q (t + 1) (t + 1) = 0 →
      (∀ k, t + 2 ≤ k → k < K → R (t + 1) ((rs + k) % m) = 0) ∧ R (t + 1) ((rs + (t + 1)) % m) = 0 :=
    fun h => ⟨fun k h1 h2 => (hdead (t + 1) ht h).1 k (by omega) h2, (hdead (t + 1) ht h).2 (by omega)⟩
  -- one dead, one alive ⇒ the rotation is trivial or a swap
  have hcs0 : gram n Q t t ≠ gram n Q (t + 1) (t + 1) → c * s = 0 := by
    intro hne
    rcases hdiag t htK with ha | ha <;> rcases hdiag (t + 1) ht with hb | hb
    · exact absurd (ha.trans hb.symm) hne
    · -- row t+1 dead: q = 0
      have hq := (hqb hb).2
      rw [hq, mul_zero, add_zero] at h0
      rcases mul_eq_zero.mp h0 with hs0 | hp0
      · rw [hs0, mul_zero]
      · rw [h00 hp0 hq, mul_zero]
    · -- row t dead: p = 0
      have hp := hpa ha (t + 1) (le_refl _) ht
      rw [hp, mul_zero, zero_add] at h0
      rcases mul_eq_zero.mp h0 with hc0 | hq0
      · rw [hc0, zero_mul]
      · rw [h00 hp hq0, mul_zero]
    · exact absurd (ha.trans hb.symm) hne
  have gtt : gram n Q' t t = c * c * gram n Q t t + s * s * gram n Q (t + 1) (t + 1) := by
    rw [gram_lin2 n Q Q' t (t + 1) t (t + 1) t t c (-s) c (-s) hQt hQt, g01, g10]; ring
  have gt1 : gram n Q' (t + 1) (t + 1) = s * s * gram n Q t t + c * c * gram n Q (t + 1) (t + 1) := by
    rw [gram_lin2 n Q Q' t (t + 1) t (t + 1) (t + 1) (t + 1) s c s c hQt1 hQt1, g01, g10]; ring
  have gtt1 : gram n Q' t (t + 1) = c * s * (gram n Q t t - gram n Q (t + 1) (t + 1)) := by
    rw [gram_lin2 n Q Q' t (t + 1) t (t + 1) t (t + 1) c (-s) s c hQt hQt1, g01, g10]; ring
  have gtt1z : gram n Q' t (t + 1) = 0 := by
    rw [gtt1]
    by_cases he : gram n Q t t = gram n Q (t + 1) (t + 1)
    · rw [he, sub_self, mul_zero]
    · rw [hcs0 he, zero_mul]
  refine ⟨⟨?_, ?_⟩, ?_⟩
  · -- off-diagonal
    intro x hx y hy hxy
    by_cases x1 : x = t
    · subst x1
      by_cases y2 : y = x + 1
      · subst y2; exact gtt1z
      · rw [gram_lin2 n Q Q' x (x + 1) y y x y c (-s) 1 0 hQt (hQo y (Ne.symm hxy) y2),
          hoff x hx y hy hxy, hoff (x + 1) ht y hy (Ne.symm y2)]; ring
    · by_cases x2 : x = t + 1
      · subst x2
        by_cases y1 : y = t
        · subst y1; rw [gram_comm]; exact gtt1z
        · rw [gram_lin2 n Q Q' t (t + 1) y y (t + 1) y s c 1 0 hQt1 (hQo y y1 (Ne.symm hxy)),
            hoff t htK y hy (Ne.symm y1), hoff (t + 1) ht y hy hxy]; ring
      · by_cases y1 : y = t
        · subst y1
          rw [gram_lin2 n Q Q' x x y (y + 1) x y 1 0 c (-s) (hQo x x1 x2) hQt,
            hoff x hx y hy hxy, hoff x hx (y + 1) ht x2]; ring
        · by_cases y2 : y = t + 1
          · subst y2
            rw [gram_lin2 n Q Q' x x t (t + 1) x (t + 1) 1 0 s c (hQo x x1 x2) hQt1,
              hoff x hx t htK x1, hoff x hx (t + 1) ht hxy]; ring
          · rw [gram_lin2 n Q Q' x x y y x y 1 0 1 0 (hQo x x1 x2) (hQo y y1 y2),
              hoff x hx y hy hxy]; ring
  · -- diagonal in {0, 1}
    intro x hx
    by_cases x1 : x = t
    · subst x1
      rw [gtt]
      by_cases he : gram n Q x x = gram n Q (x + 1) (x + 1)
      · rw [← he]
        rcases hdiag x hx with ha | ha
        · left; rw [ha]; linear_combination hcs
        · right; rw [ha]; ring
      · rcases mul_eq_zero.mp (hcs0 he) with hc0 | hs0
        · have hs1 : s * s = 1 := by rw [hc0] at hcs; linear_combination hcs
          rw [hc0, hs1]
          rcases hdiag (x + 1) ht with hb | hb
          · left; rw [hb]; ring
          · right; rw [hb]; ring
        · have hc1 : c * c = 1 := by rw [hs0] at hcs; linear_combination hcs
          rw [hs0, hc1]
          rcases hdiag x hx with ha | ha
          · left; rw [ha]; ring
          · right; rw [ha]; ring
    · by_cases x2 : x = t + 1
      · subst x2
        rw [gt1]
        by_cases he : gram n Q t t = gram n Q (t + 1) (t + 1)
        · rw [he]
          rcases hdiag (t + 1) ht with hb | hb
          · left; rw [hb]; linear_combination hcs
          · right; rw [hb]; ring
        · rcases mul_eq_zero.mp (hcs0 he) with hc0 | hs0
          · have hs1 : s * s = 1 := by rw [hc0] at hcs; linear_combination hcs
            rw [hc0, hs1]
            rcases hdiag t htK with ha | ha
            · left; rw [ha]; ring
            · right; rw [ha]; ring
          · have hc1 : c * c = 1 := by rw [hs0] at hcs; linear_combination hcs
            rw [hs0, hc1]
            rcases hdiag (t + 1) ht with hb | hb
            · left; rw [hb]; ring
            · right; rw [hb]; ring
      · rw [gram_lin2 n Q Q' x x x x x x 1 0 1 0 (hQo x x1 x2) (hQo x x1 x2)]
        rcases hdiag x hx with ha | ha
        · left; rw [ha]; ring
        · right; rw [ha]; ring
  · -- dead rows
    intro x hx hx0
    have hnn : ∀ y < K, 0 ≤ gram n Q y y := by
      intro y hy; rcases hdiag y hy with h | h <;> rw [h]
      exact zero_le_one
    by_cases x1 : x = t
    · subst x1
      rw [gtt] at hx0
      have e1 : c * c * gram n Q x x = 0 :=
        le_antisymm (by nlinarith [mul_nonneg (mul_self_nonneg s) (hnn (x + 1) ht)])
          (mul_nonneg (mul_self_nonneg c) (hnn x hx))
      have e2 : s * s * gram n Q (x + 1) (x + 1) = 0 :=
        le_antisymm (by nlinarith [mul_nonneg (mul_self_nonneg c) (hnn x hx)])
          (mul_nonneg (mul_self_nonneg s) (hnn (x + 1) ht))
      have f1 : ∀ k, x + 1 ≤ k → k < K → c * R x ((rs + k) % m) = 0 := by
        intro k h1 h2
        rcases sq_mul_eq_zero e1 with hc0 | ha
        · rw [hc0, zero_mul]
        · rw [hpa ha k h1 h2, mul_zero]
      have f2 : ∀ k, x + 2 ≤ k → k < K → s * R (x + 1) ((rs + k) % m) = 0 := by
        intro k h1 h2
        rcases sq_mul_eq_zero e2 with hs0 | hb
        · rw [hs0, zero_mul]
        · rw [(hqb hb).1 k h1 h2, mul_zero]
      have f3 : s * R (x + 1) ((rs + (x + 1)) % m) = 0 := by
        rcases sq_mul_eq_zero e2 with hs0 | hb
        · rw [hs0, zero_mul]
        · rw [(hqb hb).2, mul_zero]
      refine ⟨fun k h1 h2 => ?_, fun h => by omega⟩
      rcases Nat.lt_or_ge k (x + 2) with hk | hk
      · have : k = x + 1 := by omega
        subst this
        rw [hR1, if_pos rfl, hρ, f1 (x + 1) (le_refl _) h2, f3, sub_zero]
      · rw [hR2 k hk h2, if_pos rfl, f1 k (by omega) h2, f2 k hk h2, sub_zero]
    · by_cases x2 : x = t + 1
      · subst x2
        rw [gt1] at hx0
        have e1 : s * s * gram n Q t t = 0 :=
          le_antisymm (by nlinarith [mul_nonneg (mul_self_nonneg c) (hnn (t + 1) ht)])
            (mul_nonneg (mul_self_nonneg s) (hnn t htK))
        have e2 : c * c * gram n Q (t + 1) (t + 1) = 0 :=
          le_antisymm (by nlinarith [mul_nonneg (mul_self_nonneg s) (hnn t htK)])
            (mul_nonneg (mul_self_nonneg c) (hnn (t + 1) ht))
        refine ⟨fun k h1 h2 => ?_, fun h => by omega⟩
        rw [hR2 k (by omega) h2, if_neg (by omega), if_pos rfl]
        have g1 : s * R t ((rs + k) % m) = 0 := by
          rcases sq_mul_eq_zero e1 with hs0 | ha
          · rw [hs0, zero_mul]
          · rw [hpa ha k (by omega) h2, mul_zero]
        have g2 : c * R (t + 1) ((rs + k) % m) = 0 := by
          rcases sq_mul_eq_zero e2 with hc0 | hb
          · rw [hc0, zero_mul]
          · rw [(hqb hb).1 k (by omega) h2, mul_zero]
        rw [g1, g2, add_zero]
      · -- untouched row
        have hx0' : gram n Q x x = 0 := by
          rw [gram_lin2 n Q Q' x x x x x x 1 0 1 0 (hQo x x1 x2) (hQo x x1 x2)] at hx0
          linear_combination hx0
        obtain ⟨d1, d2⟩ := hdead x hx hx0'
        have hrow : ∀ k, k < K → R' x ((rs + k) % m) = R x ((rs + k) % m) := by
          intro k hk
          rcases Nat.lt_or_ge k (t + 1) with h1 | h1
          · exact hR3 k (by omega) x
          · rcases Nat.lt_or_ge k (t + 2) with h2 | h2
            · have : k = t + 1 := by omega
              subst this
              rw [hR1, if_neg x1]
            · rw [hR2 k h2 hk, if_neg x1, if_neg x2]
        refine ⟨fun k h1 h2 => by rw [hrow k h2]; exact d1 k h1 h2, fun h => ?_⟩
        rw [hrow x hx]; exact d2 (by omega)

theorem sweep_psw (giv : α → α → α × α × α) (hg : GivensOK0 giv) (n m rs K : ℕ) (hm : 0 < m)
    (hKm : K ≤ m) (t : ℕ) (w : Sweep α) (ht : t + 1 < K)
    (hP : w.r = t ∧ w.c = (rs + (t + 1)) % m ∧ PSw n m rs K t w.Q w.R) :
    (sweepStep giv m ((rs + K) % m) w).r = t + 1 ∧
    (sweepStep giv m ((rs + K) % m) w).c = (rs + (t + 1 + 1)) % m ∧
    PSw n m rs K (t + 1) (sweepStep giv m ((rs + K) % m) w).Q (sweepStep giv m ((rs + K) % m) w).R := by
  obtain ⟨hr, hc, hI⟩ := hP
  subst hr
  obtain ⟨s1, s2, s3, s4, s5, s6⟩ := sweepStep_spec giv m rs K hm hKm w ht hc
  obtain ⟨g1, g2, g3⟩ := hg.1 (w.R w.r w.c) (w.R (w.r + 1) w.c)
  rw [hc] at g2 g3
  refine ⟨s1, s2, ?_⟩
  apply psw_step n m rs K w.r ht w.Q w.R _ _ (sweepGiv giv w).1 (sweepGiv giv w).2.1
    (sweepGiv giv w).2.2 (by rw [sweepGiv]; exact g1) (by rw [sweepGiv, hc]; exact g2)
    (by rw [sweepGiv, hc]; exact g3) ?_ s3 s4 s5 s6 hI
  intro hp hq
  rw [sweepGiv, hc, hp, hq]
  exact hg.2

/-- **`remove_column` keeps `POrth`** (Givens contract; `makeGivens(0,0)` does not rotate). -/
theorem removeColumn_porth (giv : α → α → α × α × α) (hg : GivensOK0 giv) (s : LMQR α)
    (h : RingInv s) (hK : 0 < s.qIdx) (hO : POrth s) : POrth (s.removeColumn giv) := by
  obtain ⟨e1, e2, e3, e4, e5⟩ := removeColumn_idx giv s h hK
  have hm := h.mpos
  have hcap := h.cap
  have hfin := sweepLoop_inv giv s.m s.rEnd s.qIdx
    (fun t w => w.r = t ∧ w.c = (s.rStart + (t + 1)) % s.m ∧
      PSw s.n s.m s.rStart s.qIdx t w.Q w.R)
    (fun t w hP => hP.1)
    (fun t w ht hP => by
      rw [h.end_eq]; exact sweep_psw giv hg s.n s.m s.rStart s.qIdx hm hcap t w ht hP)
    (s.qIdx - 1) 0 s.m
    { r := 0, c := lmqrSucc s.m s.rStart, Q := s.Q.get, R := s.R.get, minEig := s.minEig,
      maxEig := s.maxEig } (by omega) (by omega)
    ⟨rfl, by simp only [lmqrSucc_eq h.start_lt], hO.gramd, fun a ha h0 => by
      have hd := hO.dead a ha h0
      refine ⟨fun k h1 h2 => ?_, fun _ => ?_⟩
      · have := hd k h2
        unfold LMQR.getR LMQR.slot at this
        rwa [if_pos (by omega)] at this
      · have := hd a ha
        unfold LMQR.getR LMQR.slot at this
        rwa [if_pos le_rfl] at this⟩
  obtain ⟨_, _, ⟨hoff, hdiag⟩, hdead⟩ := hfin
  have hQ : ∀ a, a < s.qIdx → ∀ b, b < s.qIdx →
      gram s.n (s.removeColumn giv).Q.get a b = gram s.n
        (sweepLoop giv s.m s.rEnd s.qIdx s.m
          { r := 0, c := lmqrSucc s.m s.rStart, Q := s.Q.get, R := s.R.get, minEig := s.minEig,
            maxEig := s.maxEig }).Q a b := by
    intro a ha b hb
    unfold gram
    apply Finset.sum_congr rfl; intro j hj
    rw [Finset.mem_range] at hj
    rw [removeColumn_Q, Mat.get_ofFn_lt _ hj (by omega), Mat.get_ofFn_lt _ hj (by omega)]
  refine ⟨⟨?_, ?_⟩, ?_⟩
  · intro a ha b hb hab
    rw [e1] at ha hb; rw [e4, hQ a (by omega) b (by omega)]
    exact hoff a (by omega) b (by omega) hab
  · intro a ha
    rw [e1] at ha; rw [e4, hQ a (by omega) a (by omega)]
    exact hdiag a (by omega)
  · intro a ha h0 k hk
    rw [e1] at ha hk; rw [e4, hQ a (by omega) a (by omega)] at h0
    unfold LMQR.getR
    split_ifs with hak
    · have hslot : (s.removeColumn giv).slot k = (s.rStart + (k + 1)) % s.m := by
        rw [LMQR.slot, e2, e5, Nat.mod_add_mod]; congr 1; omega
      rw [hslot, removeColumn_R, Mat.get_ofFn_lt _ (by omega) (Nat.mod_lt _ hm)]
      exact (hdead a (by omega) h0).1 (k + 1) (by omega) (by omega)
    · rfl


end
end Alpaqa.C10
