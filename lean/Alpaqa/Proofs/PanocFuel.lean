/-
  Fuel sufficiency for the PANOC loop model (`Model/Panoc.lean`): the explicit fuel of the three
  loops of the model never runs out under explicit, checkable hypotheses on the parameters, so
  `fuelOut = false` need not be assumed by the property theorems.

  * `initQub_fuel_suffices`   — the initial step-size loop makes at most `n` backtracks when
    `L_max ≤ L·2ⁿ` (every backtrack doubles `L`; the loop stops at `L ≥ L_max`);
  * `lineSearch_fuel_suffices` — the line-search loop makes at most `(n+1)(K+1)` passes when
    `L_max ≤ L·2ⁿ` for the current iterate's `L` and `τ_init·ρᴷ < min_linesearch_coefficient`
    (`ρ` = `linesearch_coefficient_update_factor`): with `τ > 0` a pass either abandons the
    direction (`τ := 0`, step size reset: once), doubles `L` (`τ := τ_init`: at most `n` times) or
    multiplies `τ` by `ρ` (at most `K` times per value of `L`, then `τ := 0`); with `τ = 0` a pass
    can only double `L` (at most `n` times);
  * `run_fuel_suffices`       — for a monotone stop flag (`StopMono`, what `Gen/C19` establishes for
    the `std::atomic<bool>`) and `FuelOK pr n K`: `(run …).fuelOut = false`.  The main loop's fuel
    `max_iter + 2` is fixed by `run`; the line-search / initial-loop fuel is `pr.lsFuel`
    (`4096` in the replay drivers: enough e.g. for the default parameters, `n = 84`, `K = 9`,
    `(n+1)(K+1) = 850`).

  The field need not be Archimedean: `n` and `K` are explicit.  None of the hypotheses can be
  dropped in the model *or in the C++* (no parameter is validated there): with
  `linesearch_coefficient_update_factor ≥ 1` a violated line-search condition is retried with the
  same `τ` for ever, with `L = 0` (possible for `L_min = 0`) doubling never reaches `L_max`;
  both loops still poll the stop flag.
-/
import Mathlib.Tactic.Ring
import Mathlib.Tactic.Linarith
import Alpaqa.Proofs.PanocDescent
import Alpaqa.Props.C06

namespace Alpaqa.Panoc
open Alpaqa Alpaqa.Gen
set_option linter.unusedSectionVars false
set_option linter.unusedVariables false

variable {α D : Type} [Field α] [LinearOrder α] [IsStrictOrderedRing α] [RealLike α]

/-! ### Initial step-size loop -/

theorem pow_step {L M : α} {d : Nat} (h : M ≤ L * 2 ^ (d + 1)) : M ≤ L * 2 * 2 ^ d := by
  rw [pow_succ] at h; linarith [h, mul_comm (2 : α) (2 ^ d), mul_assoc L 2 ((2 : α) ^ d)]

theorem pos_of_lt_of_le_pow {L M : α} {d : Nat} (hlt : L < M) (h : M ≤ L * 2 ^ d) : d ≠ 0 := by
  intro h0; subst h0; rw [pow_zero, mul_one] at h; exact absurd hlt (not_lt.mpr h)

/-- **The initial step-size loop terminates**: if `L_max ≤ L·2ⁿ` for the `L` the loop is entered
    with, `n + 1` units of fuel suffice (at most `n` backtracks). -/
theorem initQub_fuel_suffices (P : Problem α) (pr : Params α) (stop : Nat → Bool) (n : Nat) :
    ∀ (f : Nat) (c : Iterate α) (t b : Nat), pr.Lmax ≤ c.L * 2 ^ n → n + 1 ≤ f →
      (initQub P pr stop f c t b).2.2.2 = false := by
  induction n with
  | zero =>
    intro f c t b hn hf
    cases f with
    | zero => omega
    | succ f =>
      unfold initQub
      split_ifs with h1 h2
      · rfl
      · simp only [Bool.and_eq_true, decide_eq_true_eq] at h2
        exact absurd rfl (pos_of_lt_of_le_pow h2.1 hn)
      · rfl
  | succ n ih =>
    intro f c t b hn hf
    cases f with
    | zero => omega
    | succ f =>
      unfold initQub
      split_ifs with h1 h2
      · rfl
      · apply ih
        · rw [(evalStep_fields P pr _).2.1]
          exact pow_step hn
        · omega
      · rfl

/-- The number of backtracks of the initial loop is at most `n`. -/
theorem initQub_backtracks_le (P : Problem α) (pr : Params α) (stop : Nat → Bool) (n : Nat) :
    ∀ (f : Nat) (c : Iterate α) (t b : Nat), pr.Lmax ≤ c.L * 2 ^ n →
      (initQub P pr stop f c t b).2.2.1 ≤ b + n := by
  induction n with
  | zero =>
    intro f c t b hn
    cases f with
    | zero => simp [initQub]
    | succ f =>
      unfold initQub
      split_ifs with h1 h2
      · simp
      · simp only [Bool.and_eq_true, decide_eq_true_eq] at h2
        exact absurd rfl (pos_of_lt_of_le_pow h2.1 hn)
      · simp
  | succ n ih =>
    intro f c t b hn
    cases f with
    | zero => simp [initQub]
    | succ f =>
      unfold initQub
      split_ifs with h1 h2
      · simp
      · have := ih f (evalPsiHat P pr (evalProxGradStep P { c with gamma := c.gamma / 2, L := c.L * 2 }))
          (t + 2) (b + 1) (by rw [(evalStep_fields P pr _).2.1]; exact pow_step hn)
        omega
      · simp

/-! ### Line search -/

/-- Ghost measure of a line-search state: `Φ` bounds the number of passes still to come.
    `d`: remaining doublings of the candidate's `L` (`L_max ≤ L·2ᵈ`); `i`: number of times `τ` was
    multiplied by the update factor since it was last set to `τ_init`. -/
def LSMeasure (pr : Params α) (tauInit : α) (n K : Nat) (s : LS α D) (Φ : Nat) : Prop :=
  (¬ 0 < s.tau ∧ ∃ d, pr.Lmax ≤ s.next.L * 2 ^ d ∧ d ≤ n ∧ Φ = d + 1) ∨
  (0 < s.tau ∧ 0 < tauInit ∧ ∃ d i, pr.Lmax ≤ s.next.L * 2 ^ d ∧ d ≤ n ∧ i < K ∧
    s.tau = tauInit * pr.lsUpdateFactor ^ i ∧ Φ = d * K + (K - i) + (n + 1))

theorem lsRecompute_fuelOut (P : Problem α) (q : Vec α) (s : LS α D) :
    (lsRecompute P q s).fuelOut = s.fuelOut := (lsRecompute_next P q s).2.2.1

/-- One pass of the line-search body strictly decreases the measure (or ends the loop); it never
    touches the fuel flag nor the current iterate's `L`. -/
theorem lsPass_measure (P : Problem α) (dir : Direction D α) (pr : Params α) (q : Vec α)
    (tauInit : α) (n K : Nat) (hK1 : 1 ≤ K)
    (hK : 0 < tauInit → tauInit * pr.lsUpdateFactor ^ K < pr.minLsCoef)
    (s : LS α D) (hcur : pr.Lmax ≤ s.curr.L * 2 ^ n) (Φ : Nat)
    (h : LSMeasure pr tauInit n K s Φ) :
    match lsPass P dir pr q tauInit s with
    | .done s' => s'.fuelOut = s.fuelOut
    | .again s' => s'.fuelOut = s.fuelOut ∧ s'.curr.L = s.curr.L ∧
        ∃ Φ', Φ' < Φ ∧ LSMeasure pr tauInit n K s' Φ' := by
  have hcore := lsRecompute_core P q s
  have hprev := lsRecompute_prev P q s
  have hnext := lsRecompute_next P q s
  have hfo : (lsRecompute P q s).fuelOut = s.fuelOut := hnext.2.2.1
  have hL1 : (lsRecompute P q s).next.L = s.next.L := hnext.2.1
  have hcL : (lsRecompute P q s).curr.L = s.curr.L := L_of_core hcore
  have hes := evalStep_fields P pr (lsRecompute P q s).next
  have hτ1 : (lsRecompute P q s).tau = s.tau := hprev.2
  unfold lsPass
  simp only []
  split_ifs with hfail hqub htq hls hmc
  · -- direction abandoned: τ := 0, candidate's L reset to the current one
    refine ⟨hfo, hcL, ?_⟩
    have htpos : 0 < s.tau := by
      simp only [Bool.and_eq_true, decide_eq_true_eq] at hfail; rw [← hτ1]; exact hfail.1
    rcases h with ⟨hn, _⟩ | ⟨_, hti0, d, i, hd, hdn, hiK, hti, hΦ⟩
    · exact absurd htpos hn
    · refine ⟨n + 1, by omega, Or.inl ⟨by simp, n, ?_, le_refl _, rfl⟩⟩
      show pr.Lmax ≤ (lsRecompute P q s).curr.L * 2 ^ n
      rw [hcL]; exact hcur
  · -- step size halved with τ > 0: τ := τ_init
    refine ⟨hfo, hcL, ?_⟩
    have hlt : (lsRecompute P q s).next.L < pr.Lmax := by
      simp only [Bool.and_eq_true, decide_eq_true_eq] at hqub
      have := hqub.1; rw [hes.2.1] at this; exact this
    rw [hL1] at hlt
    have htpos : 0 < s.tau := by rw [← hτ1]; exact htq
    rcases h with ⟨hn, _⟩ | ⟨_, hti0, d, i, hd, hdn, hiK, hti, hΦ⟩
    · exact absurd htpos hn
    · have hd0 := pos_of_lt_of_le_pow hlt hd
      obtain ⟨d', rfl⟩ := Nat.exists_eq_succ_of_ne_zero hd0
      have hLd : pr.Lmax ≤ (evalPsiHat P pr (evalProxGradStep P (lsRecompute P q s).next)).L * 2 * 2 ^ d' := by
        rw [hes.2.1, hL1]; exact pow_step hd
      refine ⟨d' * K + K + (n + 1), ?_, Or.inr ⟨hti0, hti0, d', 0, hLd, by omega, by omega, by simp, by omega⟩⟩
      rw [hΦ, Nat.succ_mul]; omega
  · -- step size halved with τ ≤ 0: τ unchanged
    refine ⟨hfo, hcL, ?_⟩
    have hlt : (lsRecompute P q s).next.L < pr.Lmax := by
      simp only [Bool.and_eq_true, decide_eq_true_eq] at hqub
      have := hqub.1; rw [hes.2.1] at this; exact this
    rw [hL1] at hlt
    have htn : ¬ 0 < s.tau := by rw [← hτ1]; exact htq
    rcases h with ⟨_, d, hd, hdn, hΦ⟩ | ⟨hp, _⟩
    · have hd0 := pos_of_lt_of_le_pow hlt hd
      obtain ⟨d', rfl⟩ := Nat.exists_eq_succ_of_ne_zero hd0
      refine ⟨d' + 1, by omega, Or.inl ⟨by show ¬ 0 < (lsRecompute P q s).tau; rw [hτ1]; exact htn,
        d', ?_, by omega, rfl⟩⟩
      show pr.Lmax ≤ (evalPsiHat P pr (evalProxGradStep P (lsRecompute P q s).next)).L * 2 * 2 ^ d'
      rw [hes.2.1, hL1]; exact pow_step hd
    · exact absurd hp htn
  · -- line-search condition violated, new τ below the minimum coefficient: τ := 0
    have hsame := lsUpdateInCandidate_same dir
      { lsRecompute P q s with
        next := evalPsiHat P pr (evalProxGradStep P (lsRecompute P q s).next),
        tick := (lsRecompute P q s).tick + 2 }
    have hupd := lsUpdateInCandidate_tau dir
      { lsRecompute P q s with
        next := evalPsiHat P pr (evalProxGradStep P (lsRecompute P q s).next),
        tick := (lsRecompute P q s).tick + 2 }
    refine ⟨by show _ = s.fuelOut; rw [hsame.2.2]; exact hfo,
      by show _ = s.curr.L; rw [hsame.1]; exact hcL, ?_⟩
    have htpos : 0 < s.tau := by
      simp only [Bool.and_eq_true, decide_eq_true_eq] at hls; rw [hupd.1] at hls; rw [← hτ1]; exact hls.1
    rcases h with ⟨hn, _⟩ | ⟨_, hti0, d, i, hd, hdn, hiK, hti, hΦ⟩
    · exact absurd htpos hn
    · refine ⟨d + 1, by omega, Or.inl ⟨by simp, d, ?_, hdn, rfl⟩⟩
      show pr.Lmax ≤ _ * 2 ^ d
      simp only []
      rw [hsame.2.1, hes.2.1, hL1]; exact hd
  · -- line-search condition violated: τ := τ·ρ
    have hsame := lsUpdateInCandidate_same dir
      { lsRecompute P q s with
        next := evalPsiHat P pr (evalProxGradStep P (lsRecompute P q s).next),
        tick := (lsRecompute P q s).tick + 2 }
    have hupd := lsUpdateInCandidate_tau dir
      { lsRecompute P q s with
        next := evalPsiHat P pr (evalProxGradStep P (lsRecompute P q s).next),
        tick := (lsRecompute P q s).tick + 2 }
    refine ⟨by show _ = s.fuelOut; rw [hsame.2.2]; exact hfo,
      by show _ = s.curr.L; rw [hsame.1]; exact hcL, ?_⟩
    have htpos : 0 < s.tau := by
      simp only [Bool.and_eq_true, decide_eq_true_eq] at hls; rw [hupd.1] at hls; rw [← hτ1]; exact hls.1
    have hτu : (lsUpdateInCandidate dir
      { lsRecompute P q s with
        next := evalPsiHat P pr (evalProxGradStep P (lsRecompute P q s).next),
        tick := (lsRecompute P q s).tick + 2 }).tau = s.tau := by rw [hupd.1]; exact hτ1
    have hLd : ∀ d, pr.Lmax ≤ s.next.L * 2 ^ d →
        pr.Lmax ≤ (lsUpdateInCandidate dir
          { lsRecompute P q s with
            next := evalPsiHat P pr (evalProxGradStep P (lsRecompute P q s).next),
            tick := (lsRecompute P q s).tick + 2 }).next.L * 2 ^ d := by
      intro d hd; rw [hsame.2.1, hes.2.1, hL1]; exact hd
    rcases h with ⟨hn, _⟩ | ⟨_, hti0, d, i, hd, hdn, hiK, hti, hΦ⟩
    · exact absurd htpos hn
    · rw [hτu] at hmc
      by_cases hnew : 0 < s.tau * pr.lsUpdateFactor
      · -- still positive: one more factor, and `i + 1 < K` since `τ_init·ρᴷ` is below the coefficient
        have hi1 : i + 1 < K := by
          by_contra hc
          have hiK' : i + 1 = K := by omega
          have e : s.tau * pr.lsUpdateFactor = tauInit * pr.lsUpdateFactor ^ K := by
            rw [hti, ← hiK', pow_succ]; ring
          exact hmc (by rw [e]; exact hK hti0)
        refine ⟨d * K + (K - (i + 1)) + (n + 1), by omega,
          Or.inr ⟨by simp only []; rw [hτu]; exact hnew, hti0, d, i + 1, hLd d hd, hdn, hi1, ?_, rfl⟩⟩
        simp only []
        rw [hτu, hti, pow_succ]; ring
      · refine ⟨d + 1, by omega, Or.inl ⟨by simp only []; rw [hτu]; exact hnew, d, hLd d hd, hdn, rfl⟩⟩
  · -- break
    have hsame := lsUpdateInCandidate_same dir
      { lsRecompute P q s with
        next := evalPsiHat P pr (evalProxGradStep P (lsRecompute P q s).next),
        tick := (lsRecompute P q s).tick + 2 }
    show _ = s.fuelOut
    rw [hsame.2.2]; exact hfo

/-- Fuel lemma for the line-search loop in measure form. -/
theorem lineSearch_fuel_of_measure (P : Problem α) (dir : Direction D α) (pr : Params α)
    (stop : Nat → Bool) (q : Vec α) (tauInit : α) (n K : Nat) (hK1 : 1 ≤ K)
    (hK : 0 < tauInit → tauInit * pr.lsUpdateFactor ^ K < pr.minLsCoef) :
    ∀ (f : Nat) (s : LS α D) (Φ : Nat), pr.Lmax ≤ s.curr.L * 2 ^ n → LSMeasure pr tauInit n K s Φ →
      Φ ≤ f → s.fuelOut = false → (lineSearch P dir pr stop q tauInit f s).fuelOut = false := by
  intro f
  induction f with
  | zero =>
    intro s Φ _ h hΦ _
    rcases h with ⟨_, d, _, _, e⟩ | ⟨_, _, d, i, _, _, _, _, e⟩ <;> omega
  | succ f ih =>
    intro s Φ hcur h hΦ hfo
    unfold lineSearch
    by_cases hst : stop s.tick
    · simp only [hst, if_true]; exact hfo
    · simp only [hst, Bool.false_eq_true, if_false]
      have hp := lsPass_measure P dir pr q tauInit n K hK1 hK s hcur Φ h
      cases hpass : lsPass P dir pr q tauInit s with
      | done s' => rw [hpass] at hp; simp only []; rw [hp]; exact hfo
      | again s' =>
        rw [hpass] at hp
        obtain ⟨h1, h2, Φ', hlt, hm⟩ := hp
        exact ih s' Φ' (by rw [h2]; exact hcur) hm (by omega) (by rw [h1]; exact hfo)

/-- **The line-search loop terminates**: entered with the candidate's `L` equal to the current
    iterate's `L` (as `iterBody` does), with `L_max ≤ L·2ⁿ`, `K ≥ 1` and
    `τ_init·ρᴷ < min_linesearch_coefficient` whenever `τ_init > 0`, `(n+1)(K+1)` units of fuel
    suffice — for every problem oracle, direction provider and stop schedule. -/
theorem lineSearch_fuel_suffices (P : Problem α) (dir : Direction D α) (pr : Params α)
    (stop : Nat → Bool) (q : Vec α) (tauInit : α) (n K : Nat) (hK1 : 1 ≤ K)
    (hK : 0 < tauInit → tauInit * pr.lsUpdateFactor ^ K < pr.minLsCoef)
    (f : Nat) (s : LS α D) (hcur : pr.Lmax ≤ s.curr.L * 2 ^ n) (hL : s.next.L = s.curr.L)
    (hτ : s.tau = tauInit) (hf : (n + 1) * (K + 1) ≤ f) (hfo : s.fuelOut = false) :
    (lineSearch P dir pr stop q tauInit f s).fuelOut = false := by
  by_cases hti : 0 < tauInit
  · refine lineSearch_fuel_of_measure P dir pr stop q tauInit n K hK1 hK f s (n * K + (K - 0) + (n + 1))
      hcur (Or.inr ⟨by rw [hτ]; exact hti, hti, n, 0, by rw [hL]; exact hcur, le_refl _, by omega,
        by rw [hτ]; simp, rfl⟩) ?_ hfo
    have : (n + 1) * (K + 1) = n * K + K + (n + 1) := by ring
    omega
  · refine lineSearch_fuel_of_measure P dir pr stop q tauInit n K hK1 hK f s (n + 1)
      hcur (Or.inl ⟨by rw [hτ]; exact hti, n, by rw [hL]; exact hcur, le_refl _, rfl⟩) ?_ hfo
    have : (n + 1) * (K + 1) = n * K + K + (n + 1) := by ring
    omega

/-! ### The whole solve -/

/-- The `L` the solve starts from is at least this: the user's `L₀`, or `L_min` (the
    finite-difference estimate is clamped to `[L_min, L_max]`). -/
def Lstart (pr : Params α) : α := if pr.L0 ≤ 0 then pr.Lmin else pr.L0

/-- Hypotheses under which the model's fuel provably never runs out. -/
structure FuelOK (pr : Params α) (n K : Nat) : Prop where
  /-- `L₀ > 0`, or `L_min > 0` when the initial estimate is computed -/
  lstart_pos : 0 < Lstart pr
  /-- `std::clamp(L, L_min, L_max)` needs `L_min ≤ L_max` (undefined behaviour otherwise) -/
  clamp : pr.L0 ≤ 0 → pr.Lmin ≤ pr.Lmax
  lgf : 0 < pr.LgammaFactor
  minLs : 0 ≤ pr.minLsCoef
  /-- `n` doublings take the smallest possible `L` to `L_max` -/
  lmax : pr.Lmax ≤ Lstart pr * 2 ^ n
  K_pos : 1 ≤ K
  /-- `K` multiplications by the update factor take `τ = 1` below the minimum coefficient -/
  tau : pr.lsUpdateFactor ^ K < pr.minLsCoef
  /-- the fuel of the model's inner loops -/
  fuel : (n + 1) * (K + 1) ≤ pr.lsFuel

theorem FuelOK.lmax_of_le {pr : Params α} {n K : Nat} (h : FuelOK pr n K) {L : α}
    (hL : Lstart pr ≤ L) : pr.Lmax ≤ L * 2 ^ n :=
  le_trans h.lmax (mul_le_mul_of_nonneg_right hL (by positivity))

/-- Invariant of the solve for the fuel argument. -/
structure FInv (pr : Params α) (s : St α D) : Prop where
  gok : GammaOK pr s.curr
  lb : Lstart pr ≤ s.curr.L
  fo : s.fuelOut = false

theorem L_le_of_gamma_le {pr : Params α} {a b : Iterate α} (ha : GammaOK pr a) (hb : GammaOK pr b)
    (h : b.gamma ≤ a.gamma) : a.L ≤ b.L := by
  have e : a.gamma * a.L = b.gamma * b.L := by rw [ha.2.2, hb.2.2]
  by_contra hc
  have hlt : b.L < a.L := not_le.mp hc
  have h1 : b.gamma * b.L < b.gamma * a.L := mul_lt_mul_of_pos_left hlt hb.1
  have h2 : b.gamma * a.L ≤ a.gamma * a.L := mul_le_mul_of_nonneg_right h (le_of_lt ha.2.1)
  linarith

/-- The line search of one iteration does not run out of fuel. -/
theorem iterLs_fuel (P : Problem α) (dir : Direction D α) (pr : Params α) (stop : Nat → Bool)
    (n K : Nat) (hF : FuelOK pr n K) (s : St α D) (hlb : Lstart pr ≤ s.curr.L) :
    (iterLs P dir pr stop s).fuelOut = false := by
  unfold iterLs
  refine lineSearch_fuel_suffices P dir pr stop _ _ n K hF.K_pos ?_ pr.lsFuel _ (hF.lmax_of_le hlb)
    rfl rfl hF.fuel rfl
  intro hpos
  rcases directionStage_tau dir s with h | h
  · rw [h] at hpos; exact absurd hpos (lt_irrefl _)
  · rw [h, one_mul]; exact hF.tau

theorem iterBody_finv (P : Problem α) (dir : Direction D α) (pr : Params α) (stop : Nat → Bool)
    (n K : Nat) (hF : FuelOK pr n K) (s : St α D) (eps : α) (h : FInv pr s) :
    FInv pr (iterBody P dir pr stop s eps) := by
  have hls := iterLs_fuel P dir pr stop n K hF s h.lb
  have hi := iterLs_inv P dir pr stop s h.gok hF.minLs hls
  have hfo : (iterBody P dir pr stop s eps).fuelOut = false := by
    rw [iterBody_fuelOut, h.fo, hls]; rfl
  by_cases hst : stop (iterLs P dir pr stop s).tick = true
  · have hint := iterBody_interrupted P dir pr stop s eps hst
    exact ⟨GammaOK_of_core pr hint.2.2.2.2.1 h.gok, by rw [L_of_core hint.2.2.2.2.1]; exact h.lb, hfo⟩
  · have hst' : stop (iterLs P dir pr stop s).tick = false := by simpa using hst
    have ha := iterBody_advanced P dir pr stop s eps hst'
    refine ⟨by rw [ha.2.2.1]; exact hi.gok, ?_, hfo⟩
    rw [ha.2.2.1]
    exact le_trans h.lb (L_le_of_gamma_le h.gok hi.gok hi.gle)

theorem headStep_finv (P : Problem α) (pr : Params α) (stop : Nat → Bool) (oot : Bool) (s : St α D)
    (h : FInv pr s) : FInv pr (headStep P pr stop oot s).1 := by
  have hc := (headStep_fields P pr stop oot s).2.2.2.2.1
  exact ⟨GammaOK_of_core pr hc h.gok, by rw [L_of_core hc]; exact h.lb,
    by rw [headStep_fuelOut]; exact h.fo⟩

/-- A stop request visible at a loop-head check ends the main loop at that check. -/
theorem mainLoop_exit_of_stop (P : Problem α) (dir : Direction D α) (pr : Params α)
    (stop : Nat → Bool) (oot : Bool) (x0 y Sig errz0 : Vec α) (fuel : Nat) (s : St α D)
    (h : stop (headStep P pr stop oot s).1.tick = true) :
    mainLoop P dir pr stop oot x0 y Sig errz0 (fuel + 1) s =
      exitBlock P pr (headStep P pr stop oot s).1 (headStep P pr stop oot s).2.1
        (headStep P pr stop oot s).2.2 x0 y Sig errz0 := by
  have hs := (headStep_status P pr stop oot s).2
  have hnb : (headStep P pr stop oot s).2.2 ≠ .Busy := by
    rw [hs, h]; exact Alpaqa.Props.C06.stop_requested_not_busy _ _ _ _ _ _ _
  rw [mainLoop]
  try simp only []
  rw [if_pos (by simpa using hnb)]

/-- **The main loop does not run out of fuel**: monotone stop flag, `FuelOK`, and
    `max_iter − k + 2` passes available. -/
theorem mainLoop_fuel_ok (P : Problem α) (dir : Direction D α) (pr : Params α)
    (stop : Nat → Bool) (hm : StopMono stop) (n K : Nat) (hF : FuelOK pr n K) (oot : Bool)
    (x0 y Sig errz0 : Vec α) (fuel : Nat) (s : St α D) (hi : FInv pr s)
    (hk : s.k ≤ pr.maxIter) (hfuel : pr.maxIter - s.k + 2 ≤ fuel) :
    (mainLoop P dir pr stop oot x0 y Sig errz0 fuel s).fuelOut = false := by
  induction fuel generalizing s with
  | zero => omega
  | succ f ih =>
    have hf := headStep_fields P pr stop oot s
    have hh := headStep_finv P pr stop oot s hi
    rw [mainLoop]
    try simp only []
    split_ifs with hb
    · rw [(exitBlock_fields P pr _ _ _ x0 y Sig errz0).2.2.2.1]; exact hh.fo
    · have hbusy : (headStep P pr stop oot s).2.2 = .Busy := by simpa using hb
      have hne : s.k ≠ pr.maxIter := by
        have h := (headStep_status P pr stop oot s).2
        rw [hbusy, hf.1] at h
        exact (Alpaqa.Props.C06.busy_only_if _ _ _ _ _ _ _ _ h.symm).2.2.1
      have hb' := iterBody_finv P dir pr stop n K hF (headStep P pr stop oot s).1
        (headStep P pr stop oot s).2.1 hh
      by_cases hst : stop (iterLs P dir pr stop (headStep P pr stop oot s).1).tick = true
      · cases f with
        | zero => omega
        | succ f' =>
          have hint := iterBody_interrupted P dir pr stop (headStep P pr stop oot s).1
            (headStep P pr stop oot s).2.1 hst
          have hf2 := headStep_fields P pr stop oot
            (iterBody P dir pr stop (headStep P pr stop oot s).1 (headStep P pr stop oot s).2.1)
          have hstop : stop (headStep P pr stop oot
              (iterBody P dir pr stop (headStep P pr stop oot s).1 (headStep P pr stop oot s).2.1)).1.tick
              = true := hm _ _ (by rw [← hint.2.2.2.2.2]; exact hf2.2.2.2.2.2.1) hst
          rw [mainLoop_exit_of_stop P dir pr stop oot x0 y Sig errz0 f' _ hstop,
            (exitBlock_fields P pr _ _ _ x0 y Sig errz0).2.2.2.1, headStep_fuelOut]
          exact hb'.fo
      · have hst' : stop (iterLs P dir pr stop (headStep P pr stop oot s).1).tick = false := by
          simpa using hst
        have ha := (iterBody_advanced P dir pr stop (headStep P pr stop oot s).1
          (headStep P pr stop oot s).2.1 hst').1
        rw [hf.1] at ha
        exact ih _ hb' (by omega) (by omega)

theorem initQub_lb (P : Problem α) (pr : Params α) (stop : Nat → Bool) (Lb : α) (f : Nat)
    (c : Iterate α) (t b : Nat) (hg : GammaOK pr c) (hl : Lb ≤ c.L) :
    GammaOK pr (initQub P pr stop f c t b).1 ∧ Lb ≤ (initQub P pr stop f c t b).1.L := by
  induction f generalizing c t b with
  | zero => exact ⟨hg, hl⟩
  | succ f ih =>
    unfold initQub
    split_ifs with h1 h2
    · exact ⟨hg, hl⟩
    · have hes := evalStep_fields P pr { c with gamma := c.gamma / 2, L := c.L * 2 }
      have hh := half_pos_mul hg.1 hg.2.1 hg.2.2
      apply ih
      · unfold GammaOK; rw [hes.1, hes.2.1]; exact ⟨hh.1, hh.2.1, hh.2.2.1⟩
      · rw [hes.2.1]; show Lb ≤ c.L * 2; linarith [hg.2.1]
    · exact ⟨hg, hl⟩

theorem eclamp_ge (v lo hi : α) (h : lo ≤ hi) : lo ≤ eclamp v lo hi := by
  unfold eclamp; split_ifs with h1 h2
  · exact le_refl _
  · exact h
  · exact not_lt.mp h1

theorem gok_evalStep (P : Problem α) (pr : Params α) (i : Iterate α) (hF : 0 < pr.LgammaFactor)
    (hL : 0 < i.L) (hγ : i.gamma = pr.LgammaFactor / i.L) :
    GammaOK pr (evalPsiHat P pr (evalProxGradStep P i)) := by
  unfold GammaOK
  rw [(evalStep_fields P pr i).1, (evalStep_fields P pr i).2.1, hγ]
  exact ⟨div_pos hF hL, hL, div_mul_cancel₀ _ (ne_of_gt hL)⟩

/-- The state the main loop is entered with satisfies the fuel invariant. -/
theorem initState_finv (P : Problem α) (d0 : D) (pr : Params α) (stop : Nat → Bool) (x0 gV : Vec α)
    (gS iS : α) (n K : Nat) (hF : FuelOK pr n K) :
    match initState P d0 pr stop x0 gV gS iS with
    | .inl _ => True
    | .inr s => FInv pr s ∧ s.k = 0 := by
  have hfu : n + 1 ≤ pr.lsFuel := by
    have := hF.fuel
    have e : (n + 1) * (K + 1) = n * K + K + n + 1 := by ring
    omega
  unfold initState
  simp only []
  split_ifs with h1 h2 h3
  · trivial
  · have hLs : Lstart pr = pr.Lmin := by unfold Lstart; rw [if_pos h1]
    have hlb : Lstart pr ≤ (initialLipschitz P pr x0).1 := by
      rw [hLs]; unfold initialLipschitz; simp only []; exact eclamp_ge _ _ _ (hF.clamp h1)
    have hL : 0 < (initialLipschitz P pr x0).1 := lt_of_lt_of_le hF.lstart_pos hlb
    refine ⟨⟨?_, ?_, ?_⟩, rfl⟩
    · apply (initQub_lb P pr stop (Lstart pr) _ _ _ _ _ _).1
      · exact gok_evalStep P pr _ hF.lgf hL rfl
      · rw [(evalStep_fields P pr _).2.1]; exact hlb
    · apply (initQub_lb P pr stop (Lstart pr) _ _ _ _ _ _).2
      · exact gok_evalStep P pr _ hF.lgf hL rfl
      · rw [(evalStep_fields P pr _).2.1]; exact hlb
    · apply initQub_fuel_suffices P pr stop n _ _ _ _ _ hfu
      rw [(evalStep_fields P pr _).2.1]
      exact hF.lmax_of_le hlb
  · trivial
  · have hL : 0 < pr.L0 := not_le.mp h1
    have hLs : Lstart pr = pr.L0 := by unfold Lstart; rw [if_neg h1]
    refine ⟨⟨?_, ?_, ?_⟩, rfl⟩
    · apply (initQub_lb P pr stop (Lstart pr) _ _ _ _ _ _).1
      · exact gok_evalStep P pr _ hF.lgf hL rfl
      · rw [(evalStep_fields P pr _).2.1, hLs]; exact le_refl _
    · apply (initQub_lb P pr stop (Lstart pr) _ _ _ _ _ _).2
      · exact gok_evalStep P pr _ hF.lgf hL rfl
      · rw [(evalStep_fields P pr _).2.1, hLs]; exact le_refl _
    · apply initQub_fuel_suffices P pr stop n _ _ _ _ _ hfu
      rw [(evalStep_fields P pr _).2.1]
      exact hF.lmax_of_le (by rw [hLs]; exact le_refl _)

/-- **`run` never runs out of fuel** — for every problem oracle, direction provider, time-limit
    oracle, start, budget; for a monotone stop flag and parameters satisfying `FuelOK pr n K`. -/
theorem run_fuel_suffices (P : Problem α) (dir : Direction D α) (d0 : D) (pr : Params α)
    (stop : Nat → Bool) (hm : StopMono stop) (n K : Nat) (hF : FuelOK pr n K) (oot : Bool)
    (x0 y Sig errz0 gV : Vec α) (gS iS : α) :
    (run P dir d0 pr stop oot x0 y Sig errz0 gV gS iS).fuelOut = false := by
  unfold run
  cases hs : initState P d0 pr stop x0 gV gS iS with
  | inl t => rfl
  | inr s =>
    simp only []
    have hi := initState_finv P d0 pr stop x0 gV gS iS n K hF
    rw [hs] at hi
    exact mainLoop_fuel_ok P dir pr stop hm n K hF oot x0 y Sig errz0 _ s hi.1
      (by rw [hi.2]; exact Nat.zero_le _) (by rw [hi.2]; omega)

end Alpaqa.Panoc
