/-
  Concrete instances of the PANOC-OCP loop model `Ocp.run` over ℚ, used by the non-vacuity `example`s of
  `Props/C03_Ocp`, `C05_Ocp`, `C06_Ocp`, `C19_Ocp`, `C13`.

  The OCP: horizon `N = 2`, one state, one input per stage, `x₀ = 0`, `x_{t+1} = x_t + u_t`,
  cost `½u₀² + ½u₁² + ½x₂²`, input box `U = [-1, 1]`;
  * `PA`: no general constraints;
  * `PB`: one stage constraint `c_t = x_t ∈ D = [-½, ½]` (t = 0, 1), multipliers `y = (2, ½)`, penalties
    `μ = (2, 2)`: `ψ(u) = cost + Σ_t ½ μ_t dist²(c_t + y_t/μ_t, D)`.
  The evaluator oracles are *honest* (`fwd` rolls the dynamics out and stores `(x_t, u_t[, c_t])`, `bwd`
  returns the exact gradient of ψ from the stored trajectory).  The direction oracle is a stand-in:
  the "Gauss-Newton" block returns `q = -u` (the step to the unconstrained minimiser `u = 0` of `PA`), the
  masked L-BFGS returns `γ·q`.
-/
import Mathlib.Algebra.Order.Field.Rat
import Alpaqa.Model.Ocp

namespace Alpaqa.Ocp.Example
open Alpaqa Alpaqa.Ocp Alpaqa.Gen

instance instRealLikeRat : RealLike ℚ := ⟨id, fun _ => false, fun _ => true⟩

def projD (z : ℚ) : ℚ := emin (emax z (-1/2)) (1/2)

/-! ### `PA`: no general constraints; storage `(x₀, u₀, x₁, u₁, x₂)` -/

def PA : Prob ℚ :=
  { N := 2, nx := 1, nu := 1, nh := 0, nc := 0, nhN := 0, ncN := 0, Ulb := [-1], Uub := [1],
    Dlb := [], Dub := [], DNlb := [], DNub := [] }

def OA : Oracles ℚ where
  fwd u :=
    let u0 := u.getD 0 0; let u1 := u.getD 1 0
    (u0 * u0 / 2 + u1 * u1 / 2 + (u0 + u1) * (u0 + u1) / 2, [0, u0, u0, u1, u0 + u1])
  fsim u := let u0 := u.getD 0 0; let u1 := u.getD 1 0; [0, u0, u0, u1, u0 + u1]
  bwd _ traj := [traj.getD 1 0 + traj.getD 4 0, traj.getD 3 0 + traj.getD 4 0]

/-- stand-in direction oracle; `uidx` = positions of the inputs in the storage -/
def dirOf (i0 i1 : Nat) : Dir Unit ℚ where
  lqr d traj _ _ := (d, [-(traj.getD i0 0), -(traj.getD i1 0)], 1/2)
  applyMasked d q γ _ := (d, true, smul γ q)
  update d _ _ _ _ := (d, true)
  reset d := d

def prA : Params ℚ :=
  { L0 := 4, lipEps := 1/1000000, lipDelta := 1/1000000000000, LgammaFactor := 19/20, maxIter := 10,
    minLsCoef := 1/256, lsStrictness := 19/20, Lmin := 1/100000, Lmax := 64,
    stopCrit := .ProjGradNorm, maxNoProgress := 10, qubTol := 0, lsTol := 0, gnInterval := 1,
    gnSticky := true, resetLbfgsOnGn := true, disableAccel := false, alwaysOverwrite := false,
    tolerance := 1/100, lsFuel := 300 }

/-- zero iteration budget, `always_overwrite_results = false`: `MaxIter` at `k = 0`, nothing written -/
def prM : Params ℚ := { prA with maxIter := 0 }

def stopAt : Option Nat → Nat → Bool
  | none, _ => false
  | some t0, t => decide (t0 ≤ t)

def prAc (c : PANOCStopCrit) : Params ℚ := { prA with stopCrit := c }

/-- Gauss-Newton run of `PA` from `u = (1, ½)` with criterion `c`, stop flag visible from `t0` on -/
def rA (c : PANOCStopCrit) (t0 : Option Nat) : Result ℚ Unit :=
  run OA (dirOf 1 3) PA () (prAc c) (stopAt t0) false [1, 1/2] [] [] [] [] [] 0 0

def prL : Params ℚ := { prA with gnInterval := 0, maxIter := 2, alwaysOverwrite := true }

/-- L-BFGS-only run (`gn_interval = 0`) of `PA`, two iterations allowed -/
def rL (t0 : Option Nat) : Result ℚ Unit :=
  run OA (dirOf 1 3) PA () prL (stopAt t0) false [1, 1/2] [] [] [] [] [] 0 0

/-- L-BFGS-only run with the loose tolerance `1/10` and criterion `c`: `Converged` after two iterations
    with a nonzero residual (the returned `û = u + p` differs from the certified `u`) -/
def prC (c : PANOCStopCrit) : Params ℚ := { prA with gnInterval := 0, tolerance := 1/10, stopCrit := c }

def rC (c : PANOCStopCrit) (t0 : Option Nat) : Result ℚ Unit :=
  run OA (dirOf 1 3) PA () (prC c) (stopAt t0) false [1, 1/2] [] [] [] [] [] 0 0

/-- acceleration disabled (every step is the safeguarded one, `τ = 0`), too small an initial Lipschitz
    estimate `L₀ = 1` (step-size backtracking in the initial loop), three iterations allowed -/
def prS : Params ℚ := { prA with disableAccel := true, L0 := 1, maxIter := 3, alwaysOverwrite := true }

def rS (t0 : Option Nat) : Result ℚ Unit :=
  run OA (dirOf 1 3) PA () prS (stopAt t0) false [1, 1/2] [] [] [] [] [] 0 0

/-- a direction oracle that always answers `q = 0`; with `linesearch_strictness_factor = 0` the step
    `u + q = u` is accepted with `τ = 1` in every iteration: the iterate never changes -/
def dirZero : Dir Unit ℚ where
  lqr d _ _ _ := (d, [0, 0], 1/2)
  applyMasked d _ _ _ := (d, true, [0, 0])
  update d _ _ _ _ := (d, true)
  reset d := d

def prN : Params ℚ := { prA with gnInterval := 0, lsStrictness := 0, maxNoProgress := 2, maxIter := 20 }

def rN : Result ℚ Unit :=
  run OA dirZero PA () prN (stopAt none) false [1, 1/2] [] [] [] [] [] 0 0

/-- the same with `max_no_progress = 0`: every iteration is tested, `NoProgress` after the first unchanged
    iterate -/
def prN0 : Params ℚ := { prN with maxNoProgress := 0 }
def rN0 : Result ℚ Unit :=
  run OA dirZero PA () prN0 (stopAt none) false [1, 1/2] [] [] [] [] [] 0 0

def rM : Result ℚ Unit :=
  run OA (dirOf 1 3) PA () prM (stopAt none) false [1, 1/2] [7] [8] [9] [] [] 0 0

/-! ### `PB`: stage constraint `c_t = x_t ∈ [-½, ½]`; storage `(x₀, u₀, c₀, x₁, u₁, c₁, x₂)` -/

def PB : Prob ℚ :=
  { N := 2, nx := 1, nu := 1, nh := 0, nc := 1, nhN := 0, ncN := 0, Ulb := [-1], Uub := [1],
    Dlb := [-1/2], Dub := [1/2], DNlb := [], DNub := [] }

def yB : Vec ℚ := [2, 1/2]
def muB : Vec ℚ := [2, 2]

def OB : Oracles ℚ where
  fwd u :=
    let u0 := u.getD 0 0; let u1 := u.getD 1 0
    let z0 : ℚ := 0 + 2 / 2; let z1 := u0 + (1/2) / 2
    (u0 * u0 / 2 + u1 * u1 / 2 + (u0 + u1) * (u0 + u1) / 2
      + (z0 - projD z0) * (z0 - projD z0) + (z1 - projD z1) * (z1 - projD z1),
     [0, u0, 0, u0, u1, u0, u0 + u1])
  fsim u := let u0 := u.getD 0 0; let u1 := u.getD 1 0; [0, u0, 0, u0, u1, u0, u0 + u1]
  bwd _ traj :=
    let z1 := traj.getD 5 0 + (1/2) / 2
    [traj.getD 1 0 + traj.getD 6 0 + 2 * (z1 - projD z1), traj.getD 4 0 + traj.getD 6 0]

def prB : Params ℚ := { prA with L0 := 8 }

def rB (t0 : Option Nat) : Result ℚ Unit :=
  run OB (dirOf 1 4) PB () prB (stopAt t0) false [1, 1/2] yB muB [0, 0] [] [] 0 0

end Alpaqa.Ocp.Example
