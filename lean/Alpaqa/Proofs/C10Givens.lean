/-
  C10: the function the driver executes for `Eigen::JacobiRotation<double>::makeGivens` — `givensEigen`, the
  line-by-line port in Model/C10.lean (special cases `q = 0`, `p = 0`, branches `|p| > |q|` / else with
  `u = ±√(1+t²)`) — meets the contract `GivensOK` over every ordered field with a lawful square root.
-/
import Alpaqa.Proofs.C10Add
namespace Alpaqa.C10
open Finset Alpaqa Alpaqa.Gen
set_option linter.unusedSectionVars false
variable {α : Type} [Field α] [LinearOrder α] [IsStrictOrderedRing α] [RealLike α]

/-- the `u = ±√(1+t²)` of `makeGivens`: `u·u = 1 + t·t`, hence `u ≠ 0` -/
theorem givens_u (hs : SqrtLaw α) (t : α) (neg : Prop) [Decidable neg] :
    (if neg then -RealLike.sqrt (1 + t * t) else RealLike.sqrt (1 + t * t)) *
      (if neg then -RealLike.sqrt (1 + t * t) else RealLike.sqrt (1 + t * t)) = 1 + t * t := by
  have h := hs (1 + t * t) (by nlinarith [mul_self_nonneg t])
  split_ifs <;> linear_combination h

theorem givensEigen_ok (hs : SqrtLaw α) : GivensOK (givensEigen : α → α → α × α × α) := by
  intro p q
  unfold givensEigen
  simp only [beq_iff_eq, eabs_eq_abs]
  by_cases hq : q = 0
  · simp only [hq, if_true]
    by_cases hp : p < 0
    · simp [hp, abs_of_neg hp]
    · simp [hp, abs_of_nonneg (not_lt.mp hp)]
  · simp only [hq, if_false]
    by_cases hp : p = 0
    · simp only [hp, if_true]
      by_cases hq' : q < 0
      · simp [hq', abs_of_neg hq']
      · simp [hq', abs_of_nonneg (not_lt.mp hq')]
    · simp only [hp, if_false]
      by_cases hpq : |q| < |p|
      · simp only [hpq, if_true]
        have hu := givens_u hs (q / p) (p < 0)
        generalize (if p < 0 then -RealLike.sqrt (1 + q / p * (q / p)) else RealLike.sqrt (1 + q / p * (q / p))) = u at hu
        have hu0 : u ≠ 0 := by
          intro h0; rw [h0] at hu
          nlinarith [mul_self_nonneg (q / p)]
        refine ⟨?_, ?_, ?_⟩
        · field_simp
          field_simp at hu
          linear_combination -hu
        · field_simp
          field_simp at hu
          linear_combination hu
        · field_simp
          ring
      · simp only [hpq, if_false]
        have hu := givens_u hs (p / q) (q < 0)
        generalize (if q < 0 then -RealLike.sqrt (1 + p / q * (p / q)) else RealLike.sqrt (1 + p / q * (p / q))) = u at hu
        have hu0 : u ≠ 0 := by
          intro h0; rw [h0] at hu
          nlinarith [mul_self_nonneg (p / q)]
        refine ⟨?_, ?_, ?_⟩
        · field_simp
          field_simp at hu
          linear_combination -hu
        · field_simp
          field_simp at hu
          linear_combination hu
        · field_simp
          ring
end Alpaqa.C10
