/-
  C15, nuclear norm: lemmas about the post-SVD part of `NuclearNorm::prox` — the generated
  thresholding statement `Gen.nucThreshold`, value `Gen.nucValue` and rank selection
  `Gen.nucRank` (regenerated from nuclear-norm.hpp on every run) and the hand model
  `C15.nuclearReconstruct`.  The property theorems are in `Props/C15.lean`.
-/
import Alpaqa.Proofs.C15Lemmas

namespace Alpaqa.C15
open Alpaqa Alpaqa.Gen
set_option linter.unusedSectionVars false

variable {α : Type} [Field α] [LinearOrder α] [IsStrictOrderedRing α]

theorem nucThreshold_eq (lam γ σ : α) : nucThreshold lam γ σ = max 0 (σ - lam * γ) := by
  simp [nucThreshold]

theorem nucThreshold_nonneg (lam γ σ : α) : 0 ≤ nucThreshold lam γ σ := by
  rw [nucThreshold_eq]; exact le_max_left _ _

theorem nucThreshold_eq_zero_iff (lam γ σ : α) : nucThreshold lam γ σ = 0 ↔ σ ≤ lam * γ := by
  rw [nucThreshold_eq]
  constructor
  · intro h; have := le_max_right 0 (σ - lam * γ); rw [h] at this; linarith
  · intro h; exact max_eq_left (by linarith)

theorem nucThreshold_pos_iff (lam γ σ : α) : 0 < nucThreshold lam γ σ ↔ lam * γ < σ := by
  constructor
  · intro h; by_contra hc; rw [not_lt] at hc
    have := (nucThreshold_eq_zero_iff lam γ σ).mpr hc; linarith
  · intro h
    rcases (nucThreshold_nonneg lam γ σ).lt_or_eq with h1 | h1
    · exact h1
    · have := (nucThreshold_eq_zero_iff lam γ σ).mp h1.symm; linarith

/-- one singular value: `max(σ − γλ, 0)` minimises `λ s + (s − σ)²/(2γ)` over `s ≥ 0`. -/
theorem nucThreshold_is_prox (lam γ σ : α) (hγ : 0 < γ) (s : α) (hs : 0 ≤ s) :
    lam * nucThreshold lam γ σ + (nucThreshold lam γ σ - σ) ^ 2 / (2 * γ)
      ≤ lam * s + (s - σ) ^ 2 / (2 * γ) := by
  have h2γ : (0:α) < 2 * γ := by linarith
  rw [nucThreshold_eq, add_div' _ _ _ h2γ.ne', add_div' _ _ _ h2γ.ne', div_le_div_iff_of_pos_right h2γ]
  rcases le_total (σ - lam * γ) 0 with h | h
  · rw [max_eq_left h]
    nlinarith [mul_nonneg hs (by linarith : 0 ≤ lam * γ - σ), sq_nonneg s]
  · rw [max_eq_right h]
    nlinarith [sq_nonneg (s - σ + lam * γ)]

/-- for `σ ≥ 0` the thresholding statement is the ℓ1 soft-threshold of the code base. -/
theorem nucThreshold_eq_l1Prox (lam γ σ : α) (hσ : 0 ≤ σ) (ht : 0 ≤ lam * γ) :
    nucThreshold lam γ σ = l1ProxScalarW lam γ σ := by
  simp only [nucThreshold, l1ProxScalarW, emax_eq_max, emin_eq_min]
  rw [min_eq_left]
  exact max_le (by linarith) (by linarith)

/-- non-increasing. -/
def SortedDesc (σ : List α) : Prop := σ.Pairwise (fun x y => y ≤ x)

theorem nucRank_map (lam γ : α) (σ : List α) :
    nucRank (σ.map (nucThreshold lam γ)) = σ.findIdx (fun s => decide (s ≤ lam * γ)) := by
  simp only [nucRank, findFirstIdx, Nat.sub_zero, List.findIdx_map]
  congr 1; funext s
  show (nucThreshold lam γ s == 0) = decide (s ≤ lam * γ)
  rw [Bool.eq_iff_iff, beq_iff_eq, decide_eq_true_eq, nucThreshold_eq_zero_iff]


/-- `rank` = number of singular values above the threshold (σ sorted non-increasing). -/
theorem nucRank_eq_count (lam γ : α) (σ : List α) (hσ : SortedDesc σ) :
    nucRank (σ.map (nucThreshold lam γ)) = (σ.filter (fun s => decide (lam * γ < s))).length := by
  rw [nucRank_map]
  induction σ with
  | nil => rfl
  | cons x xs ih =>
    have hx := List.pairwise_cons.mp hσ
    by_cases h : x ≤ lam * γ
    · have : (x :: xs).filter (fun s => decide (lam * γ < s)) = [] := by
        rw [List.filter_eq_nil_iff]
        intro y hy
        rcases List.mem_cons.mp hy with rfl | hy
        · simpa using h
        · simpa using le_trans (hx.1 y hy) h
      rw [this, List.findIdx_cons]; simp [h]
    · rw [List.findIdx_cons, List.filter_cons]
      simp only [h, decide_false, cond_false, not_le.mp h, decide_true, if_true, List.length_cons]
      rw [ih hx.2]


/-- before `rank` the thresholded singular values are positive (no sortedness needed). -/
theorem nuc_before_rank_pos (lam γ : α) (σ : List α) (i : Nat)
    (hi : i < nucRank (σ.map (nucThreshold lam γ))) : 0 < vget (σ.map (nucThreshold lam γ)) i := by
  rw [nucRank_map] at hi
  have hlen : i < σ.length := lt_of_lt_of_le hi List.findIdx_le_length
  have := List.not_of_lt_findIdx hi
  rw [vget_map _ _ _ hlen, nucThreshold_pos_iff]
  simpa [vget, List.getD_eq_getElem?_getD, hlen] using this

/-- from `rank` on they are all zero — because σ is sorted: entries after the first zero are zero. -/
theorem nuc_after_rank_zero (lam γ : α) (σ : List α) (hσ : SortedDesc σ) (i : Nat)
    (hi : nucRank (σ.map (nucThreshold lam γ)) ≤ i) : vget (σ.map (nucThreshold lam γ)) i = 0 := by
  rw [nucRank_map] at hi
  by_cases hlen : i < σ.length
  · rw [vget_map _ _ _ hlen, nucThreshold_eq_zero_iff]
    have hr : σ.findIdx (fun s => decide (s ≤ lam * γ)) < σ.length := lt_of_le_of_lt hi hlen
    have h0 := List.findIdx_getElem (w := hr)
    simp only [decide_eq_true_eq] at h0
    have hi' : vget σ i = σ[i] := by simp [vget, List.getD_eq_getElem?_getD, hlen]
    rw [hi']
    rcases Nat.eq_or_lt_of_le hi with h | h
    · subst h; exact h0
    · exact le_trans (List.pairwise_iff_getElem.mp hσ _ _ hr hlen h) h0
  · rw [vget_of_le]; simpa using not_lt.mp hlen

theorem nucRank_le_length (lam γ : α) (σ : List α) :
    nucRank (σ.map (nucThreshold lam γ)) ≤ σ.length := by
  rw [nucRank_map]; exact List.findIdx_le_length

/-- vector form: the thresholded singular values minimise `Σ λ s_i + (s_i − σ_i)²/(2γ)` over
    all `s ≥ 0` (componentwise). -/
theorem nuc_sv_sum_is_prox (lam γ : α) (σ : List α) (hγ : 0 < γ) (s : List α)
    (hs : ∀ i < σ.length, 0 ≤ vget s i) :
    ((List.range σ.length).map fun i =>
        lam * vget (σ.map (nucThreshold lam γ)) i + (vget (σ.map (nucThreshold lam γ)) i - vget σ i) ^ 2 / (2 * γ)).sum
      ≤ ((List.range σ.length).map fun i => lam * vget s i + (vget s i - vget σ i) ^ 2 / (2 * γ)).sum := by
  apply sum_range_le
  intro i hi
  rw [vget_map _ _ _ hi]
  exact nucThreshold_is_prox lam γ _ hγ _ (hs i hi)

/-- the returned value is `λ Σ s_i` (= `λ‖out‖_*` when `out` has singular values `s`). -/
theorem nucValue_eq (lam γ : α) (σ : List α) :
    nucValue lam (σ.map (nucThreshold lam γ)) = lam * ((σ.map (nucThreshold lam γ)).sum) := by
  simp only [nucValue]
  rw [norm1_eq_sum_abs]
  congr 2
  rw [List.map_map]
  apply List.map_congr_left
  intro a _
  exact abs_of_nonneg (nucThreshold_nonneg lam γ a)

/-- using only the first `rank` singular triplets loses nothing: the reconstruction with `rank`
    columns equals the one with all columns. -/
theorem nuclearReconstruct_rank_eq_full (lam γ : α) (σ : List α) (hσ : SortedDesc σ)
    (rows cols : Nat) (U V : List α) :
    nuclearReconstruct rows cols (nucRank (σ.map (nucThreshold lam γ))) (σ.map (nucThreshold lam γ)) U V
      = nuclearReconstruct rows cols σ.length (σ.map (nucThreshold lam γ)) U V := by
  unfold nuclearReconstruct
  congr 1; funext j; congr 1; funext i
  rw [vsum_eq_sum, vsum_eq_sum]
  symm
  apply sum_range_tail_zero _ _ _ (nucRank_le_length lam γ σ)
  intro k hk
  rw [nuc_after_rank_zero lam γ σ hσ k hk]; ring

end Alpaqa.C15
